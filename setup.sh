#!/bin/sh
# setup_cmd: build the Coq development (full .vo build) and the Go harness, offline.
set -e
cd "$(dirname "$0")"
export GOFLAGS=-mod=mod GOPROXY=off GOSUMDB=off GOTOOLCHAIN=local
# no axioms, no admits anywhere in the development
if grep -rnE 'Admitted|admit\.|^\s*Axiom|^\s*Parameter|^\s*Conjecture|Unset Guard|bypass_check|Admit Obligations' coq/theories --include=*.v; then
  echo "setup: forbidden construct found in the Coq development" >&2; exit 1
fi
(cd coq && coq_makefile -f _CoqProject -o Makefile >/dev/null && timeout 3000 make -j16)
mkdir -p work/bin evidence replays
cp /repo/go.sum harness/go.sum
(cd harness && go build -tags verif -o ../work/bin/fqlharness .)
echo "setup: ok"
