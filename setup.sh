#!/bin/sh
# setup_cmd: build the Coq development (full .vo build) and the Go harness, offline.
set -e
cd "$(dirname "$0")"
export GOFLAGS=-mod=mod GOPROXY=off GOSUMDB=off GOTOOLCHAIN=local
# no axioms, no admits anywhere in the development
if grep -rnE 'Admitted|admit\.|^\s*Axiom|^\s*Parameter|^\s*Conjecture|Unset Guard|bypass_check|Admit Obligations' coq/theories --include=*.v; then
  echo "setup: forbidden construct found in the Coq development" >&2; exit 1
fi
python3 lib/coqproj.py
(cd coq && timeout 3000 make -j16 -k) || echo "setup: some Coq files failed to build (the affected checks will report it)"
mkdir -p work/bin evidence replays
cp /repo/go.sum harness/go.sum
for d in harness/cmd/*/; do n=$(basename $d); (cd harness && go build -tags verif -o ../work/bin/$n ./cmd/$n) || echo "setup: harness $n failed to build"; done
echo "setup: ok"
