#!/usr/bin/env python3
"""Print the markdown table 'which checks catch which seeded changes' from
seeded/*/meta.json (written by tools/seedtest.py)."""
import json, glob, os
ROOT = os.path.dirname(os.path.dirname(os.path.abspath(__file__)))
print("| seeded change | what was changed | needs | caught by | how |")
print("|---|---|---|---|---|")
for d in sorted(glob.glob(os.path.join(ROOT, "seeded", "C*"))):
    try:
        m = json.load(open(os.path.join(d, "meta.json")))
    except Exception:
        continue
    v = m.get("verification", {})
    if v.get("valid_seed") is False and "REJECTED" in v.get("note", ""):
        print("| %s | %s | %s | rejected as a seed | fails the repository's own suite |" % (os.path.basename(d), m.get("summary", "")[:160].replace("|", "/"), m.get("needs", "")[:140].replace("|", "/")))
        continue
    det = v.get("detected_by", [])
    how = []
    for c in det:
        cd = v.get("check_detail", {}).get(c, {})
        how.append("no-failing-input-found (broken obligation/tie)" if cd.get("no_input") and not cd.get("first") else ("failing input: " + (cd.get("first") or ["?"])[0][:110].replace("|", "/")))
    tier = ""
    for r in v.get("ran", []):
        if "--tier thorough" in r:
            tier = " (thorough tier)"
    print("| %s | %s | %s | %s | %s |" % (os.path.basename(d), m.get("summary", "")[:160].replace("|", "/"), m.get("needs", "")[:140].replace("|", "/"),
                                       (", ".join(det) + tier) if det else "**missed**", "; ".join(how)))
