#!/bin/bash
# seedrun.sh <dir-prefix> <ID> [extra seedtest args] — validate seeds k=1..3 of one property
pfx=$1; id=$2; shift 2
for k in 1 2 3; do
  d=$pfx-$id/$k; [ -d $d ] || continue
  python3 /verif/tools/seedtest.py $d --keep ${id}-${RTAG:-r2}-$k "$@" 2>&1 | python3 -c "
import sys,json
d=json.load(sys.stdin); print(d['name'],'valid',d['valid_seed'],'det',d['detected_by'],'MISSED' if d['missed_by'] else '',d['missed_by'],d.get('error') or '')
for k,v in (d['detail'] or {}).items(): print('   ',k,v['rc'],[x[:220] for x in v['first'][:1]],'noinput' if v['no_input'] else '')
"
done
