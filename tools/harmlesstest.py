#!/usr/bin/env python3
"""harmlesstest.py <dir> [--checks C02,C04] [--tier quick] — a behaviour-preserving
change (patch.diff + meta.json with "kind": "harmless") must leave the checks
silent: apply to a scratch worktree of /repo HEAD, build, run
VERIF_REPO=<worktree> ./check <ID>; store under seeded/harmless-<ID>-<k>/ with
the verdict (alarm_by must be empty)."""
import sys, os, json, subprocess, shutil, argparse, time
ROOT = os.path.dirname(os.path.dirname(os.path.abspath(__file__)))
ENV = dict(os.environ, GOFLAGS="-mod=mod", GOPROXY="off", GOSUMDB="off", GOTOOLCHAIN="local")
def sh(cmd, cwd=None, env=None, timeout=3600):
    p = subprocess.run(cmd, cwd=cwd, env=env or ENV, shell=isinstance(cmd, str), stdout=subprocess.PIPE, stderr=subprocess.STDOUT, text=True, errors="replace", timeout=timeout)
    return p.returncode, p.stdout
ap = argparse.ArgumentParser(); ap.add_argument("seed"); ap.add_argument("--checks", default=""); ap.add_argument("--tier", default="quick"); ap.add_argument("--suite", action="store_true"); ap.add_argument("--keep", default="")
a = ap.parse_args()
seed = os.path.abspath(a.seed)
meta = json.load(open(os.path.join(seed, "meta.json")))
pid = meta.get("property", "C00")
name = os.path.basename(seed.rstrip("/")) if os.path.basename(seed.rstrip("/")).startswith("harmless-") else "harmless-%s-%s" % (pid, os.path.basename(seed.rstrip("/")))
if a.keep:
    name = a.keep
checks = [c for c in a.checks.split(",") if c] or [pid]
wt = "/tmp/hw-%s-%d" % (name, os.getpid())
rep = {"ran": [], "silent": [], "alarm_by": []}
sh(["git", "-C", "/repo", "worktree", "add", "--detach", wt, "HEAD"])
try:
    rc, out = sh(["git", "apply", os.path.join(seed, "patch.diff")], cwd=wt)
    rep["applies"] = rc == 0
    if rc == 0:
        rc, out = sh("go build ./...", cwd=wt); rep["build_ok"] = rc == 0
        if a.suite:
            rc, out = sh("go test -vet=off -count=1 $(go list ./pkg/... | grep -v pkg/stdlib/html$)", cwd=wt); rep["suite_ok"] = rc == 0
        for c in checks:
            t0 = time.time()
            rc, out = sh([os.path.join(ROOT, "check"), c, "--tier", a.tier], cwd=ROOT, env=dict(ENV, VERIF_REPO=wt))
            viol = [l for l in out.splitlines() if l.startswith("VIOLATION")]
            rep["ran"].append("VERIF_REPO=<worktree> ./check %s --tier %s: rc=%d, %d VIOLATION lines, %.0fs" % (c, a.tier, rc, len(viol), time.time() - t0))
            if rc == 0 and not viol:
                rep["silent"].append(c)
            else:
                rep["alarm_by"].append(c)
                rep.setdefault("alarm_detail", {})[c] = [l.strip()[:300] for l in out.splitlines() if l.startswith("  ") or l.startswith("VIOLATION")][:6] or out[-600:]
finally:
    sh(["git", "-C", "/repo", "worktree", "remove", "--force", wt]); shutil.rmtree(wt, ignore_errors=True)
    subprocess.run(["python3", os.path.join(ROOT, "tools", "cleanwork.py")], stdout=subprocess.DEVNULL)
dst = os.path.join(ROOT, "seeded", name); os.makedirs(dst, exist_ok=True)
for f in os.listdir(seed):
    if os.path.isfile(os.path.join(seed, f)) and os.path.abspath(seed) != os.path.abspath(dst):
        shutil.copyfile(os.path.join(seed, f), os.path.join(dst, f))
meta["verification"] = rep
json.dump(meta, open(os.path.join(dst, "meta.json"), "w"), indent=1)
print(json.dumps({"name": name, "applies": rep.get("applies"), "build_ok": rep.get("build_ok"), "silent": rep["silent"], "alarm_by": rep["alarm_by"], "detail": rep.get("alarm_detail")}, indent=1))
