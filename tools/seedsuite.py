#!/usr/bin/env python3
"""seedsuite.py NAME... — confirm that a stored seeded change (seeded/NAME/patch.diff)
builds and passes the repository's suite (pkg/..., without the network-only
pkg/stdlib/html) on a scratch worktree of /repo HEAD; records the result in
seeded/NAME/meta.json (verification.suite_ok)."""
import sys, os, json, subprocess, shutil
ROOT = os.path.dirname(os.path.dirname(os.path.abspath(__file__)))
ENV = dict(os.environ, GOFLAGS="-mod=mod", GOPROXY="off", GOSUMDB="off", GOTOOLCHAIN="local")
def sh(cmd, cwd=None, timeout=3600):
    p = subprocess.run(cmd, cwd=cwd, env=ENV, shell=isinstance(cmd, str), stdout=subprocess.PIPE, stderr=subprocess.STDOUT, text=True, errors="replace", timeout=timeout)
    return p.returncode, p.stdout
for name in sys.argv[1:]:
    d = os.path.join(ROOT, "seeded", name)
    wt = "/tmp/ss-%s-%d" % (name, os.getpid())
    sh(["git", "-C", "/repo", "worktree", "add", "--detach", wt, "HEAD"])
    try:
        rc, out = sh(["git", "apply", os.path.join(d, "patch.diff")], cwd=wt)
        ok_apply = rc == 0
        rcb, _ = sh("go build ./...", cwd=wt)
        rcs, out = sh("go test -vet=off -count=1 $(go list ./pkg/... | grep -v pkg/stdlib/html$)", cwd=wt)
        m = json.load(open(os.path.join(d, "meta.json")))
        v = m.setdefault("verification", {})
        v["suite_ok"] = ok_apply and rcb == 0 and rcs == 0
        v.setdefault("ran", []).append("go build ./... && go test -vet=off -count=1 ./pkg/... (without pkg/stdlib/html) on the patched worktree: apply=%s build rc=%d suite rc=%d" % (ok_apply, rcb, rcs))
        if rcs != 0:
            v["suite_tail"] = out[-1500:]
        json.dump(m, open(os.path.join(d, "meta.json"), "w"), indent=1)
        print(name, "suite_ok" if v["suite_ok"] else "SUITE FAILS", flush=True)
    finally:
        sh(["git", "-C", "/repo", "worktree", "remove", "--force", wt])
        shutil.rmtree(wt, ignore_errors=True)
