#!/usr/bin/env python3
"""remove per-VERIF_REPO harness copies and binaries under work/ whose tree no longer exists"""
import os, re, glob, shutil
ROOT = os.path.dirname(os.path.dirname(os.path.abspath(__file__)))
n = 0
for gm in glob.glob(os.path.join(ROOT, "work", "harness-*", "go.mod")):
    m = re.search(r"ferret => (\S+)", open(gm).read())
    if m and not os.path.isdir(m.group(1)):
        d = os.path.dirname(gm); tag = os.path.basename(d)[len("harness"):]
        shutil.rmtree(d, ignore_errors=True); n += 1
        for b in glob.glob(os.path.join(ROOT, "work", "bin", "*" + tag + "*")):
            os.remove(b)
        for l in glob.glob(os.path.join(ROOT, "work", "go" + tag + ".lock")):
            os.remove(l)
        for o in glob.glob(os.path.join(ROOT, "work", "C??-*" + tag)):
            shutil.rmtree(o, ignore_errors=True)
print("cleanwork: removed %d stale harness copies" % n)
