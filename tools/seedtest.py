#!/usr/bin/env python3
"""seedtest.py <seed-dir> [--checks C02,C04] [--tier quick|thorough] [--keep NAME]

Validate one seeded change (patch.diff + demo + meta.json produced by an
independent agent) and run our checks against it:
  1. scratch worktree of /repo HEAD under /tmp; the demo passes there (no patch)
  2. apply the patch; go build ./... ; the repository's test suite still passes
     (pkg/stdlib/html needs the network and is not in the baseline)
  3. the demo fails with the patch
  4. VERIF_REPO=<worktree> ./check <ID> for each requested check: detected?
  5. remove the worktree; store patch, demo and meta.json (with what was run and
     the verdicts) under /verif/seeded/<NAME>/
"""
import sys, os, json, subprocess, shutil, argparse, time

ROOT = os.path.dirname(os.path.dirname(os.path.abspath(__file__)))
ENV = dict(os.environ, GOFLAGS="-mod=mod", GOPROXY="off", GOSUMDB="off", GOTOOLCHAIN="local")


def sh(cmd, cwd=None, env=None, timeout=3600):
    p = subprocess.run(cmd, cwd=cwd, env=env or ENV, shell=isinstance(cmd, str), stdout=subprocess.PIPE,
                       stderr=subprocess.STDOUT, text=True, errors="replace", timeout=timeout)
    return p.returncode, p.stdout


def main():
    ap = argparse.ArgumentParser()
    ap.add_argument("seed")
    ap.add_argument("--checks", default="")
    ap.add_argument("--tier", default="quick")
    ap.add_argument("--keep", default="")
    ap.add_argument("--skip-suite", action="store_true")
    a = ap.parse_args()
    seed = os.path.abspath(a.seed)
    meta = json.load(open(os.path.join(seed, "meta.json")))
    pid = meta.get("property", "C00")
    name = a.keep or "%s-%s" % (pid, os.path.basename(seed.rstrip("/")))
    checks = [c for c in a.checks.split(",") if c] or [pid]
    wt = "/tmp/sw-%s-%d" % (name, os.getpid())
    report = {"seed": seed, "ran": [], "detected_by": [], "missed_by": []}
    sh(["git", "-C", "/repo", "worktree", "remove", "--force", wt])
    rc, out = sh(["git", "-C", "/repo", "worktree", "add", "--detach", wt, "HEAD"])
    if rc != 0:
        print(out); sys.exit(2)
    try:
        demo_src = None
        for cand in ("demo_test.go", "demo.go", "main.go"):
            if os.path.exists(os.path.join(seed, cand)):
                demo_src = os.path.join(seed, cand)
        demo_path = meta.get("demo_path")
        demo_cmd = meta.get("demo_cmd")
        if demo_cmd and "go test" in demo_cmd and ("<worktree>" in demo_cmd or "cp " in demo_cmd):
            demo_cmd = demo_cmd[demo_cmd.index("go test"):]   # the copy is done here
        def run_demo():
            if not (demo_src and demo_path and demo_cmd):
                return None, "no runnable demo in meta.json"
            dst = os.path.join(wt, demo_path)
            os.makedirs(os.path.dirname(dst), exist_ok=True)
            shutil.copyfile(demo_src, dst)
            rc, out = sh(demo_cmd, cwd=wt, timeout=900)
            os.remove(dst)
            return rc, out[-1500:]
        rc0, out0 = run_demo()
        report["demo_without_patch"] = {"rc": rc0, "tail": out0}
        rc, out = sh(["git", "apply", os.path.join(seed, "patch.diff")], cwd=wt)
        report["ran"].append("git apply patch.diff: rc=%d" % rc)
        if rc != 0:
            report["error"] = "patch does not apply: " + out[-500:]
            raise SystemExit
        rc, out = sh("go build ./...", cwd=wt)
        report["build_ok"] = rc == 0
        report["ran"].append("go build ./...: rc=%d" % rc)
        if not a.skip_suite:
            rc, out = sh("go test -vet=off -count=1 $(go list ./pkg/... | grep -v pkg/stdlib/html$)", cwd=wt, timeout=3000)
            report["suite_ok"] = rc == 0
            report["ran"].append("go test -vet=off -count=1 ./pkg/... (without pkg/stdlib/html): rc=%d" % rc)
            if rc != 0:
                report["suite_tail"] = out[-1500:]
        rc1, out1 = run_demo()
        report["demo_with_patch"] = {"rc": rc1, "tail": out1}
        for c in checks:
            t0 = time.time()
            rc, out = sh([os.path.join(ROOT, "check"), c, "--tier", a.tier], cwd=ROOT, env=dict(ENV, VERIF_REPO=wt), timeout=3600)
            viol = [l for l in out.splitlines() if l.startswith("VIOLATION")]
            detail = [l.strip() for l in out.splitlines() if l.startswith("  ")][:3]
            report["ran"].append("VERIF_REPO=<worktree> ./check %s --tier %s: rc=%d, %d VIOLATION lines, %.0fs" % (c, a.tier, rc, len(viol), time.time() - t0))
            (report["detected_by"] if (rc == 1 and viol) else report["missed_by"]).append(c)
            report.setdefault("check_detail", {})[c] = {"rc": rc, "first": detail, "no_input": any("no-failing-input-found" in v for v in viol)}
    except SystemExit:
        pass
    finally:
        sh(["git", "-C", "/repo", "worktree", "remove", "--force", wt])
        shutil.rmtree(wt, ignore_errors=True)
        subprocess.run(["python3", os.path.join(ROOT, "tools", "cleanwork.py")], stdout=subprocess.DEVNULL)
    valid = report.get("build_ok") and report.get("suite_ok", True) and report.get("demo_without_patch", {}).get("rc") == 0 and report.get("demo_with_patch", {}).get("rc") not in (0, None)
    report["valid_seed"] = bool(valid)
    dst = os.path.join(ROOT, "seeded", name)
    os.makedirs(dst, exist_ok=True)
    for f in os.listdir(seed):
        if os.path.isfile(os.path.join(seed, f)) and os.path.abspath(seed) != os.path.abspath(dst):
            shutil.copyfile(os.path.join(seed, f), os.path.join(dst, f))
    # a run without the suite keeps the earlier suite confirmation of this stored seed
    try:
        oldv = json.load(open(os.path.join(dst, "meta.json"))).get("verification", {})
    except Exception:
        oldv = {}
    if "suite_ok" not in report and "suite_ok" in oldv:
        report["suite_ok"] = oldv["suite_ok"]
        report["ran"] += [r for r in oldv.get("ran", []) if "go test" in r][-1:]
    meta.update({"breaks": pid, "verification": report})
    json.dump(meta, open(os.path.join(dst, "meta.json"), "w"), indent=1)
    print(json.dumps({"name": name, "valid_seed": report["valid_seed"], "detected_by": report["detected_by"], "missed_by": report["missed_by"],
                      "detail": report.get("check_detail"), "error": report.get("error")}, indent=1))


if __name__ == "__main__":
    main()
