#!/usr/bin/env python3
"""Assemble MANIFEST.json from manifest.d/<ID>.json (one check entry per
property) and not_applicable.json.  Run after adding or editing a fragment."""
import json, glob, os
ROOT = os.path.dirname(os.path.dirname(os.path.abspath(__file__)))
checks = [json.load(open(f)) for f in sorted(glob.glob(os.path.join(ROOT, "manifest.d", "C*.json")))]
ids = [c["property_id"] for c in checks]
na_path = os.path.join(ROOT, "manifest.d", "not_applicable.json")
na = json.load(open(na_path)) if os.path.exists(na_path) else []
na = [x for x in na if x["property_id"] not in ids]  # a property with a check is claimed
hooks_commits = []
hp = os.path.join(ROOT, "MANIFEST.hooks")
if os.path.exists(hp):
    for line in open(hp):
        line = line.strip()
        if line and not line.startswith("#"):
            hooks_commits.append(line.split()[0])
m = {
    "version": 1,
    "setup_cmd": "./setup.sh",
    "hooks": {
        "guard": "verif",
        "enable": "go build -tags verif (the harness module replaces github.com/MontFerret/ferret with /repo)",
        "baseline_off_cmd": "cd /repo && GOFLAGS=-mod=mod GOPROXY=off GOSUMDB=off GOTOOLCHAIN=local go test -vet=off -count=1 -timeout 25m ./...",
        "source_commits": hooks_commits,
        "add_only": True,
    },
    "engines": [
        {"name": "coq-model", "path": "coq/", "serves_properties": ids,
         "kind_free_text": "hand-written Gallina models + theorems (Coq 8.16.1, full .vo build); harness-written case files evaluated with vm_compute; generated fact files under coq/theories/Generated"},
        {"name": "harness", "path": "harness/", "serves_properties": ids,
         "kind_free_text": "Go harness (one binary per property under harness/cmd) running /repo on generated cases and writing the case files the model evaluates; go/ast fact translators"},
    ],
    "checks": checks,
    "notes": "See DESIGN.md. Every check: ./check <ID> [--tier quick|thorough] [--replay FILE]. Known findings: known_findings.json.",
    "not_applicable": na,
}
json.dump(m, open(os.path.join(ROOT, "MANIFEST.json"), "w"), indent=1)
print("MANIFEST.json:", len(checks), "checks,", len(na), "not applicable")
