#!/usr/bin/env python3
"""Merge known_findings.d/<ID>.json (lists of findings written by the builders)
into known_findings.json ('findings'); entries are keyed by id."""
import json, glob, os
ROOT = os.path.dirname(os.path.dirname(os.path.abspath(__file__)))
kf = json.load(open(os.path.join(ROOT, "known_findings.json")))
have = {f["id"]: f for f in kf.get("findings", [])}
for p in sorted(glob.glob(os.path.join(ROOT, "known_findings.d", "C*.json"))):
    try:
        for f in json.load(open(p)):
            have[f["id"]] = f
    except Exception as e:
        print("skip", p, e)
kf["findings"] = [have[k] for k in sorted(have)]
json.dump(kf, open(os.path.join(ROOT, "known_findings.json"), "w"), indent=1)
print("known_findings.json:", len(kf["findings"]), "findings,", len(kf.get("fixed", [])), "fixed")
