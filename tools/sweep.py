#!/usr/bin/env python3
"""sweep.py [seeds|harmless] [-j N] — re-run every stored seeded change (must be
detected by the checks recorded in its meta.json) or every stored harmless change
(must stay silent) against the current checks and /repo HEAD."""
import sys, os, json, glob, subprocess, concurrent.futures as cf
ROOT = os.path.dirname(os.path.dirname(os.path.abspath(__file__)))
mode = sys.argv[1] if len(sys.argv) > 1 else "seeds"
j = int(sys.argv[sys.argv.index("-j") + 1]) if "-j" in sys.argv else 2
def one(d):
    name = os.path.basename(d)
    m = json.load(open(os.path.join(d, "meta.json")))
    if mode == "harmless":
        p = subprocess.run(["python3", os.path.join(ROOT, "tools", "harmlesstest.py"), d], capture_output=True, text=True)
        try:
            r = json.loads(p.stdout); return name, (not r["alarm_by"]) and r.get("applies"), r.get("alarm_by"), r.get("detail")
        except Exception:
            return name, False, ["?"], p.stdout[-300:] + p.stderr[-300:]
    checks = m.get("verification", {}).get("detected_by") or [m.get("property")]
    tier = "thorough" if any("--tier thorough" in r for r in m.get("verification", {}).get("ran", [])[-3:]) else "quick"
    p = subprocess.run(["python3", os.path.join(ROOT, "tools", "seedtest.py"), d, "--keep", name, "--skip-suite", "--checks", checks[0], "--tier", tier], capture_output=True, text=True)
    try:
        r = json.loads(p.stdout); return name, bool(r["detected_by"]), r["missed_by"], r.get("error")
    except Exception:
        return name, False, ["?"], p.stdout[-300:] + p.stderr[-300:]
dirs = sorted(d for d in glob.glob(os.path.join(ROOT, "seeded", "*")) if os.path.basename(d).startswith("harmless-") == (mode == "harmless"))
bad = 0
with cf.ThreadPoolExecutor(j) as ex:
    for name, ok, extra, err in ex.map(one, dirs):
        print(name, "ok" if ok else "PROBLEM", "" if ok else extra, "" if ok else (err or ""), flush=True)
        bad += 0 if ok else 1
print("%s: %d entries, %d problems" % (mode, len(dirs), bad))
