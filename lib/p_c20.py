"""C20 — configuration for ./check."""
import json, os

CONFIG = {
    "cmd": "c20",
    "facts": ["facts_looplocks"],
    "race": True,
    "timeout": 2400,
    "trusted": [
        "fact translator harness/cmd/facts_looplocks (go/ast over pkg/drivers/cdp/events/loop.go): which mode of Loop.mu is held at each access to the listener table and at the handler call; lock-helper methods of the shape h(fn func()) { mu.Lock(); defer mu.Unlock(); fn() } (and RLock / explicit-unlock variants) are recognised and the function literal passed to them is analysed under that mode; unknown shapes are emitted as LUnknown and fail the obligation",
        "modelled: Loop.v — one step = one critical section of Loop.mu (as delimited by the extracted lock table) or one instrumented action outside it; a context test is merged with the unconditional action that follows it; Go's map iteration order is a schedule-chosen permutation",
        "the harness' instrumentation: one mutex-ordered tick log; the tick of an API call start (end) is taken before (after) the call, the handler tick on entry, the cancel tick before cancel()",
        "Go race detector and the runtime's concurrent-map-access detector (direct violations), sync.RWMutex semantics, Go memory model and scheduler (validated, not proved)",
    ],
    "assumptions": [
        "listener ids returned by AddListener are unique (rand.Int() collisions are ignored; the model allocates fresh ids)",
        "sources do not fail (Recv never returns an error) in the model; cancellation is the only way a consumer exits",
        "schedules explored on the implementation are those the Go scheduler produces under randomized yielding; the theorems quantify over all schedules of the model",
    ],
}

KIND = {
    1: "a listener was called more than once by one dispatch",
    2: "must-deliver: a listener registered before the event was received and not removed (nor cancelled) before the dispatch ended was not called exactly once",
    3: "must-not-deliver: a listener whose removal had returned before the event was received was called",
    4: "a one-shot listener (handler returned false) was called again by a later dispatch of the same source",
    5: "source order: calls for one source out of order, or a call without its received event",
    6: "a handler was called for an event it was not registered for",
    7: "Close(): a source was closed without cancel, twice, or was active after Close",
    8: "a one-shot listener (handler returned false) was called more than once (by dispatches of different sources)",
    9: "a listener was called after its RemoveListener had returned (by a dispatch whose snapshot preceded the removal)",
    10: "malformed history",
    11: "Listeners(ev) returned fewer listeners than were certainly registered during the whole call (persistent, registration returned before the call began, removal not requested before it returned)",
}

OPN = {0: "add", 1: "add-once", 2: "remove", 3: "count"}


def _fmt(t, r):
    tag = r["t"]
    if tag == "S":
        return "%d: g%d op%d %s(ev%d%s) starts" % (t, r["a"], r["b"], OPN.get(r["op"], "?"), r["ev"], (", L%d" % r["x"]) if r["op"] == 2 else "")
    if tag == "E":
        extra = ""
        if r["op"] in (0, 1):
            extra = " -> L%d" % r["res"]
        elif r["op"] == 3:
            extra = " -> %d" % r["res"]
        else:
            extra = " (L%d)" % r["x"]
        return "%d: g%d op%d %s(ev%d) returns%s" % (t, r["a"], r["b"], OPN.get(r["op"], "?"), r["ev"], extra)
    if tag == "Y":
        return "%d: src%d Ready() after %d events" % (t, r["a"], r["b"])
    if tag == "V":
        return "%d: src%d Recv #%d = ev%d" % (t, r["a"], r["b"], r["ev"])
    if tag == "D":
        return "%d: src%d #%d (ev%d) calls L%d%s" % (t, r["a"], r["b"], r["ev"], r["x"], " [one-shot]" if r["op"] == 1 else "")
    if tag == "C":
        return "%d: cancel" % t
    if tag == "X":
        return "%d: src%d Close()" % (t, r["a"])
    return "%d: ?" % t


def _b64(n, w):
    n = max(n, 0)
    out = []
    for _ in range(w):
        out.append(chr(48 + n % 64))
        n //= 64
    return "".join(reversed(out))


def _encode(recs):
    return "".join(r["t"] + _b64(r["a"], 1) + _b64(r["b"], 2) + _b64(r["op"], 1) + _b64(r["ev"], 1) + _b64(r["x"], 2) + _b64(r["res"], 2)
                   for r in recs)


def _history(meta, fname, i):
    idx = meta.get("index", {})
    base = idx.get("base", {}).get(os.path.basename(fname), 0)
    path = idx.get("histories")
    try:
        with open(path) as f:
            for n, line in enumerate(f):
                if n == base + i:
                    return json.loads(line)
    except Exception:
        return None
    return None


def describe(meta, fname, t):
    kind, i, j = t
    h = _history(meta, fname, i)
    what = KIND.get(kind, "mismatch kind %d" % kind)
    case = {"mkind": kind, "kinds": ["k%d" % kind], "tags": [], "theorem": "C20.delivery_spec / history_ok_sound"}
    if h is None:
        case.update({"key": "%d|%s|%d|%d" % (kind, os.path.basename(fname), i, j), "what": what})
        return case
    recs = h["recs"]
    lis = None
    if j < len(recs):
        r = recs[j]
        if r["t"] == "D":
            lis = r["x"]
        elif r["t"] == "E":
            lis = r["res"] if r["op"] in (0, 1) else r["x"]
    rel = []
    for tt, r in enumerate(recs):
        keep = r["t"] == "C" or tt == j
        if lis is not None:
            if r["t"] == "D" and r["x"] == lis:
                keep = True
            if r["t"] in ("S", "E") and r["op"] == 2 and r["x"] == lis:
                keep = True
            if r["t"] == "E" and r["op"] in (0, 1) and r["res"] == lis:
                keep = True
        if keep:
            rel.append(_fmt(tt, r))
    if kind == 8:
        case["tags"].append("once-across-sources")
    if kind == 9:
        case["tags"].append("called-after-removal-returned")
    case.update({
        "key": "%d|seed %d|history %d|t=%d" % (kind, h["seed"], h["idx"], j),
        "history": h["idx"], "history_seed": h["seed"], "sources": h["sources"], "goroutines": h["workers"],
        "at": _fmt(j, recs[j]) if j < len(recs) else str(j),
        "listener": lis, "relevant_records": rel[:60], "records": len(recs),
        "encoded_history": _encode(recs),
        "rejudge": 'From Ferret Require Import Check.C20. Eval vm_compute in check_history 0 "<encoded_history>"%string.  (the schedule is not reproducible; the recorded history is)',
        "what": "%s — history %d (seed %d, %d sources, %d goroutines) at [%s]; records of that listener: %s" % (
            what, h["idx"], h["seed"], h["sources"], h["workers"],
            _fmt(j, recs[j]) if j < len(recs) else j, "; ".join(rel[:14])),
    })
    return case
