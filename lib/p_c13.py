"""C13 — configuration for ./check."""

CONFIG = {
    "cmd": "c13",
    "coq_files": ["theories/Eval.v"],
    "timeout": 1800,
    "trusted": [
        "coq/theories/Eval.v with strict = true: the context is tested by body, block, FOR, FOR-IN source, RETURN, function-call expressions and AGGREGATE reducers; a failure is never swallowed by error suppression / optional chaining once the context is cancelled",
        "cancellation is injected synchronously inside the k-th instrumented call (harness functions call cancel())",
        "WAIT / WAITFOR EVENT: scripted fake observable with wall-clock delays (40 ms grid, 20 ms margins, 400 ms slack for promptness); expected outcome computed from the script by the harness (Go), not by the Coq model",
    ],
    "assumptions": ["timing margins are large enough for the scheduler of the machine running the check"],
}

KINDS = {0: "result value differs from the specified cancellation semantics",
         1: "instrumented calls differ: a call started after the cancellation (or one that had to run did not)",
         2: "outcome class differs: e.g. a result with a nil error although evaluation was cut short"}


def describe(meta, fname, t):
    kind, i, j = t
    if fname == "casesw.v":
        c = meta["index"]["waitfor"][i]
        what = {10: "WAITFOR EVENT outcome differs from the model (first matching event before the deadline / failure)",
                11: "WAITFOR EVENT subscription not subscribed once and closed once"}.get(kind, "mismatch")
        return {"key": "%d|%s" % (kind, c["key"]), "case": c["case"], "subscribes": c["subscribes"], "closes": c["closes"], "mkind": kind,
                "tags": ["waitfor"], "theorem": "C13.waitfor_first_match / waitfor_timeout / waitfor_closes_once",
                "what": "%s: %s subscribes=%s closes=%s" % (what, c["case"], c["subscribes"], c["closes"])}
    cases = [c for c in meta["index"]["cases"] if c["file"] == fname]
    c = cases[i] if i < len(cases) else {"query": "?", "cancel": "?"}
    if kind >= 100:
        return {"key": "skip|%s|%s" % (c["query"], c["cancel"]), "skip": True, "what": "outside the model's domain", "mkind": kind}
    tags = []
    if "AGGREGATE" in c["query"]:
        tags.append("aggregate")
    return {"key": "%d|%s|%s" % (kind, c["query"], c["cancel"]), "query": c["query"], "cancel_at_call": c["cancel"],
            "impl_class": c.get("class"), "impl_json": c.get("json"), "impl_err": c.get("err"), "impl_calls": c.get("calls"),
            "mkind": kind, "tags": tags, "theorem": "C13 (strict evaluator)",
            "what": "%s: query=%r cancel=%s impl=%s %s calls=%s" % (KINDS.get(kind, "mismatch"), c["query"], c["cancel"], c.get("class"), (c.get("json") or c.get("err") or "")[:100], c.get("calls"))}
