"""C16 — configuration for ./check and the decoding of mismatch tuples.

A mismatch is (kind, i, j):
  kind = function id (see harness/cmd/c16 fns), 149 = PERCENTILE law, 999 = malformed
  j    = index of the job inside the case file (exhaustive families, enumerated
         here exactly like Check/C16.v cases_of and harness/cmd/c16 casesOf),
         900 = explicit case i, 1..3 = PERCENTILE law on enumerated array i,
         11..13 = PERCENTILE law on explicit array i.
"""

CONFIG = {
    "cmd": "c16",
    "trusted": [
        "modelled: pkg/stdlib/arrays/*.go, collections/{length,include,reverse}.go (array/object branches), objects/*.go, math/{min,max,sum,average,mean,median,variance*,stddev*,percentile}.go as value-level mirrors; hash identity modelled as structural identity (C08)",
        "numbers are exact rationals; float64 rounding of + * / sqrt is not modelled: AVERAGE is compared as 'a double nearest to the exact quotient', VARIANCE/STDDEV within relative 2^-40/2^-39, PERCENTILE only through its three laws",
        "the three enumerations of the case families (Check/C16.v cases_of, harness casesOf, lib/p_c16.py) are kept identical by hand; a length difference is reported as malformed",
    ],
    "assumptions": [
        "elements of set-valued arguments are compared by hash identity = structural identity (C08); values whose hashes collide are outside the statement",
        "aggregates: ints within +-2^53 and finite dyadic floats; the empty array has no numeric result (NONE or NaN accepted, also for SUM)",
    ],
    "timeout": 1500,
}

LAWS = {1: "bounded by MIN and MAX", 2: "monotone in the percentage", 3: "100 gives MAX"}


def lists_exact(pool, n):
    if n == 0:
        return [[]]
    sub = lists_exact(pool, n - 1)
    return [[x] + r for x in pool for r in sub]


def lists_upto(pool, n):
    out = []
    for k in range(n + 1):
        out += lists_exact(pool, k)
    return out


def all_objs(K, V):
    if not K:
        return [[]]
    rest = all_objs(K[1:], V)
    return rest + [[(K[0], v)] + r for v in V for r in rest]


import re, struct

_TOK = re.compile(r'\s*(\(|\)|\[|\]|;|,|"[0-9a-fA-F]*"|-?\d+(?:%N)?|[A-Za-z_]+)')


def pretty(text):
    """Coq rendering of a value (harness/common.CoqValue) -> short JSON-like text"""
    toks = _TOK.findall(text)
    pos = [0]

    def peek():
        return toks[pos[0]] if pos[0] < len(toks) else None

    def eat(t=None):
        x = toks[pos[0]]
        pos[0] += 1
        return x

    def hexstr():
        # (hx "..")
        eat(); eat()
        h = eat().strip('"')
        eat()
        return bytes.fromhex(h).decode("utf-8", "backslashreplace")

    def val():
        t = eat()
        if t == "VNone":
            return "NONE"
        if t != "(":
            return t
        c = eat()
        if c == "VBool":
            r = eat()
        elif c == "VInt":
            eat(); r = eat(); eat()
        elif c == "VFloat":
            bits = int(eat().replace("%N", ""))
            r = repr(struct.unpack("<d", struct.pack("<Q", bits))[0])
            if "." not in r and "e" not in r and "n" not in r:
                r += ".0"
        elif c == "VStr":
            r = '"%s"' % hexstr()
        elif c == "VBin":
            r = 'bin"%s"' % hexstr()
        elif c == "VArr":
            eat()
            xs = []
            while peek() != "]":
                xs.append(val())
                if peek() == ";":
                    eat()
            eat()
            r = "[" + ", ".join(xs) + "]"
        elif c == "VObj":
            eat()
            ms = []
            while peek() != "]":
                eat()            # (
                k = hexstr()
                eat()            # ,
                v = val()
                eat()            # )
                ms.append('%s: %s' % (k, v))
                if peek() == ";":
                    eat()
            eat()
            r = "{" + ", ".join(ms) + "}"
        else:
            r = c
            depth = 1
            while depth:
                x = eat()
                depth += (x == "(") - (x == ")")
                if depth:
                    r += " " + x
            return r
        eat()  # )
        return r

    try:
        return val()
    except Exception:
        return text


def pretty_args(text):
    """[v; v; ...] as written by the harness for explicit cases"""
    return pretty("(VArr " + text + ")")


def arr(xs):
    return ("arr", list(xs))


def rend(x):
    """shape -> Coq-like text"""
    t = x[0]
    if t == "arr":
        return "[" + ", ".join(rend(y) for y in x[1]) + "]"
    if t == "obj":
        return "{" + ", ".join("%s: %s" % (k, rend(v)) for k, v in x[1]) + "}"
    if t == "int":
        return str(x[1])
    if t == "bool":
        return "true" if x[1] else "false"
    if t == "str":
        return '"%s"' % x[1]
    if t == "p":
        return x[1]
    return str(x)


_CACHE = {}


def cases_of(g, fam):
    key = (g["file"], g["name"], repr(sorted(fam.items())))
    if key not in _CACHE:
        _CACHE[key] = _cases_of(g, fam)
    return _CACHE[key]


def _cases_of(g, fam):
    kind, n = fam["kind"], fam.get("n", 0)
    P = [("p", pretty(r)) for r in (g["P"] or [])]
    V = [("p", pretty(r)) for r in (g["V"] or [])]
    K = g["K"] or []
    arrs = lambda m: [arr(a) for a in lists_upto(P, m)]
    objs = lambda: [("obj", o) for o in all_objs(K, V)]
    keyvals = [("str", k) for k in K] + [("str", "zz")]
    I = lambda i: ("int", i)
    B = lambda b: ("bool", b)
    out = []
    if kind == "FUnary":
        out = [[a] for a in arrs(n)]
    elif kind == "FPairs":
        out = [[a, b] for a in arrs(n) for b in arrs(n)]
    elif kind == "FTriples":
        out = [[a, b, c] for a in arrs(n) for b in arrs(n) for c in arrs(n)]
    elif kind == "FElem":
        out = [[a, x] for a in arrs(n) for x in P]
    elif kind == "FElemFlag":
        for a in arrs(n):
            for x in P:
                out += [[a, x], [a, x, B(False)], [a, x, B(True)]]
    elif kind == "FPos":
        out = [[a, I(p)] for a in arrs(n) for p in range(-2, len(a[1]) + 3)]
    elif kind == "FSlice":
        for a in arrs(n):
            for s in range(-2, len(a[1]) + 3):
                out.append([a, I(s)])
                out += [[a, I(s), I(c)] for c in range(-1, len(a[1]) + 3)]
    elif kind == "FRmVal":
        for a in arrs(n):
            for x in P:
                out.append([a, x])
                out += [[a, x, I(c)] for c in range(-1, 4)]
    elif kind == "FDepth":
        for a in arrs(n):
            out.append([a])
            out += [[a, I(d)] for d in range(-1, 4)]
    elif kind == "FObj1":
        out = [[o] for o in objs()]
    elif kind == "FObjFlag":
        for o in objs():
            out += [[o], [o, B(False)], [o, B(True)]]
    elif kind == "FObjKey":
        out = [[o, k] for o in objs() for k in keyvals]
    elif kind == "FObjElem":
        out = [[o, x] for o in objs() for x in V]
    elif kind == "FObjPairs":
        out = [[a, b] for a in objs() for b in objs()]
    elif kind == "FObjPairsArr":
        out = [[arr([a, b])] for a in objs() for b in objs()]
    elif kind == "FObjTriples":
        os_ = objs()[:n]
        out = [[a, b, c] for a in os_ for b in os_ for c in os_]
    elif kind == "FKeep":
        for o in objs():
            for ks in lists_upto(keyvals, 2):
                out.append([o] + ks)
                out.append([o, arr(ks)])
    elif kind == "FZip":
        kv = [("str", k) for k in K]
        out = [[arr(ks), arr(vs)] for ks in lists_upto(kv, n) for vs in lists_upto(P, n)]
    elif kind == "FPct":
        out = [[a, I(p)] for a in arrs(n) for p in fam["ps"]]
    return out


def is_num_text(t):
    return t.startswith("(VInt") or t.startswith("(VFloat")


def num_sign(t):
    """sign of a rendered VInt / VFloat pool element: -1, 0, 1 (None when not a number)"""
    if t.startswith("(VInt"):
        z = int(t[len("(VInt ("):].split(")")[0])
        return (z > 0) - (z < 0)
    if t.startswith("(VFloat"):
        bits = int(t[len("(VFloat "):].split("%")[0])
        if bits & ((1 << 63) - 1) == 0:
            return 0
        return -1 if bits >> 63 else 1
    return None


def tags_of(fn, args):
    tags = []
    arrays = [a for a in args if a[0] == "arr"]
    for a in arrays:
        texts = [rend(x) for x in a[1]]
        if len(set(texts)) < len(texts):
            tags.append("dup-within-arg")
            break
    if arrays and not arrays[0][1]:
        tags.append("empty-array")
    if len(args) >= 2 and args[1][0] == "int" and args[1][1] < 0:
        tags.append("negative-position")
    if arrays and arrays[0][1]:
        signs = [num_sign(rend(x)) for x in arrays[0][1]]
        if all(s is not None and s < 0 for s in signs):
            tags.append("all-negative")
    if fn == "REMOVE_VALUE" and len(args) == 3 and args[2][0] == "int":
        tags.append("with-limit")
    return tags


def _group(meta, fname):
    for g in meta["index"]["groups"]:
        if g["file"] == fname:
            return g
    return None


def _obs(g, ix):
    b = g["book"]
    if not (0 <= ix < len(b)):
        return "?"
    o = b[ix]
    if o == "OE":
        return "an error"
    if o == "OP":
        return "a panic"
    if o.startswith("(OA"):
        idx = o[len('(OA "'):-2]
        return "[" + ", ".join(pretty(g["P"][ord(c) - 48]) for c in idx) + "]"
    if o.startswith("(OV "):
        return pretty(o[4:-1])
    return o


def describe(meta, fname, t):
    kind, i, j = t
    g = _group(meta, fname)
    names = meta["index"].get("fn_names", {})
    if g is None or kind == 999:
        return {"key": "malformed|%s|%s" % (fname, t), "what": "case enumeration of %s and of the model differ %s" % (fname, t), "mkind": kind, "fn": "", "tags": ["malformed"]}
    if kind == 149:
        if j >= 10:
            e = g["pct"][i]
            a_txt, ps, obs = pretty_args(e["arr"]), e["ps"], [_obs(g, o) for o in e["obs"]]
            law = j - 10
        else:
            job = [jb for jb in g["jobs"] if jb["family"]["kind"] == "FPct"][0]
            ps = job["family"]["ps"]
            a = lists_upto([("p", pretty(r)) for r in (g["P"] or [])], job["family"]["n"])[i]
            a_txt = rend(arr(a))
            obs = [_obs(g, o) for o in job["obs"][i * len(ps):(i + 1) * len(ps)]]
            law = j
        return {"key": "PERCENTILE-law%d|%s" % (law, a_txt), "fn": "PERCENTILE", "mkind": 149, "tags": ["law%d" % law],
                "what": "PERCENTILE violates '%s' on array %s: percentages %s give %s" % (LAWS.get(law, law), a_txt, ps, obs)}
    if j == 900:
        e = g["explicit"][i]
        fn = e["fn"]
        txt = "(" + pretty_args(e["args"])[1:-1] + ")"
        return {"key": "%s|%s" % (fn, e["args"]), "fn": fn, "mkind": kind, "tags": e.get("tags", []), "args": txt, "impl": _obs(g, e["obs"]),
                "what": "%s%s returns %s, which differs from its definition" % (fn, txt, _obs(g, e["obs"]))}
    job = g["jobs"][j]
    fn = job["fn"]
    args = cases_of(g, job["family"])[i]
    txt = "(" + ", ".join(rend(a) for a in args) + ")"
    impl = _obs(g, job["obs"][i])
    return {"key": "%s|%s" % (fn, txt), "fn": fn, "mkind": kind, "tags": tags_of(fn, args), "args": txt, "impl": impl,
            "what": "%s%s returns %s, which differs from its definition" % (fn, txt, impl)}


def match_extra(case, key, value):
    if key == "fn":
        return case.get("fn") == value
    if key == "fn_in":
        return case.get("fn") in value
    if key == "all_tags":
        return all(v in case.get("tags", []) for v in value)
    return False
