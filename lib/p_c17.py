"""C17 — configuration for ./check: encoders / decoders / inverse operations."""

CONFIG = {
    "cmd": "c17",
    "facts": ["c17"],   # the same binary in fact mode (-repo): Generated/GenUnicodeCase.v from Go's unicode package
    "trusted": [
        "modelled (Codec/*.v, Date.v): base64 StdEncoding encode/decode, url.QueryEscape/QueryUnescape, strconv.Unquote as DECODE_URI_COMPONENT applies it, "
        "html.EscapeString, strings.Split/explode, CONCAT_SEPARATOR on string arrays, strings.Trim/TrimLeft/TrimRight/TrimSpace, strings.ToUpper/ToLower over the "
        "generated unicode case tables, Time.Add/AddDate/Unix/Nanosecond on fixed zones, Duration int64 wrap, DATE_DIFF, RFC 3339 print (RFC3339Nano) and parse (parseRFC3339)",
        "restrictions of the model: html decoder knows the encoder's five entities only; trim cutsets are valid UTF-8 without U+FFFD; DATE_DIFF is modelled for asFloat = false "
        "only (Unix() seconds and Nanosecond() parts with a borrow, integer division per unit, int64 wrap on the millisecond product); the calendar is the proleptic Gregorian "
        "calendar via the civil-from-days algorithm (not Go's absDate code); zones are fixed whole-minute offsets",
        "JSON_STRINGIFY/JSON_PARSE: no Coq model and no theorem - covered by the correspondence run only (compare-equal on generated JSON-domain values)",
        "fact translator: harness/cmd/c17 -repo prints unicode.ToUpper/ToLower of every rune of the Go toolchain in use into Generated/GenUnicodeCase.v",
        "verdict = the property's predicate evaluated on the implementation's outputs by the harness (Go string/instant equality); the model contributes the per-case prediction "
        "(inside the guard / predicted failure) and a byte-for-byte drift diagnostic (DRIFT in work/C17-<tier>/cases*.v output) that is not part of the verdict",
    ],
    "assumptions": [
        "strings are arbitrary byte strings (bytes < 256); dates are instants (sec, nsec) with 0 <= nsec < 10^9 shown in UTC or a fixed zone",
        "date_add_sub: |amount * unit| < 2^63 in int64 arithmetic; date_diff_amount: 0 <= amount <= 2^32 and the DATE_ADD product does not overflow (no bound on amount * unit; date_diff_amount_in_range: every amount in [0, 10^6] of every unit); date_diff_exact: the two instants at most 2^53 s apart; rfc3339_roundtrip: local year 1..9999, |offset| < 24h",
        "uri_roundtrip (pinned code): valid UTF-8 without double quote, backslash, newline - refuted outside (uri_roundtrip_refuted); uri_query_roundtrip has no guard",
    ],
    "timeout": 1200,
}

UNIT_NS = [10**6, 10**9, 6 * 10**10, 36 * 10**11, 864 * 10**11, 6048 * 10**11]
PAIR = {1: "FROM_BASE64(TO_BASE64(s))", 2: "DECODE_URI_COMPONENT(ENCODE_URI_COMPONENT(s))", 3: "UNESCAPE_HTML(ESCAPE_HTML(s))",
        4: "CONCAT_SEPARATOR(sep, SPLIT(s, sep))", 5: "UPPER(UPPER(s))", 6: "LOWER(LOWER(s))", 7: "TRIM/LTRIM/RTRIM twice",
        8: "JSON_PARSE(JSON_STRINGIFY(v))", 9: "DATE_SUBTRACT(DATE_ADD(d, n, u), n, u)", 10: "DATE_DIFF(d, DATE_ADD(d, n, u), u)",
        11: "DATE(rfc3339 rendering of d)"}


def _show(hexs):
    if hexs is None:
        return "<no chars argument>"
    b = bytes.fromhex(hexs)
    try:
        return "%r (hex %s)" % (b.decode("utf-8"), hexs)
    except UnicodeDecodeError:
        return "%r (hex %s, not UTF-8)" % (b, hexs)


def _uri_tags(hexs):
    b = bytes.fromhex(hexs)
    tags = []
    if b'"' in b or b"\\" in b or b"\n" in b:
        tags.append("uri-quote-backslash-newline")
    try:
        b.decode("utf-8")
    except UnicodeDecodeError:
        tags.append("uri-invalid-utf8")
    return tags


def describe(meta, fname, t):
    kind, i, j = t
    k, predicted = kind % 100, kind >= 100
    idx = meta["index"].get(fname, {})
    tags = ["model-predicted" if predicted else "model-expected-to-hold"]
    note = (" [the model of the pinned code predicts this failure]" if predicted
            else " [the model's round trip holds on this input: code and model disagree]")
    try:
        if k in (1, 2, 3, 5, 6):
            s = idx["S"][i]
            if k == 2:
                tags += _uri_tags(s)
            return {"key": "%d|%s" % (k, s), "mkind": kind, "tags": tags, "pair": PAIR[k], "input_hex": s,
                    "what": "%s does not return %s%s" % (PAIR[k], "s" if k < 5 else "the first result", note) + ": s=" + _show(s)}
        if k == 4:
            s, sep = idx["S"][i], idx["seps"][j]
            return {"key": "4|%s|%s" % (s, sep), "mkind": kind, "tags": tags, "pair": PAIR[4], "input_hex": s, "sep_hex": sep,
                    "what": "%s != s%s: s=%s sep=%s" % (PAIR[4], note, _show(s), _show(sep))}
        if k == 7:
            s, cut, fn = idx["S"][i], idx["cuts"][j // 3], ["TRIM", "LTRIM", "RTRIM"][j % 3]
            return {"key": "7|%s|%s|%s" % (fn, s, cut), "mkind": kind, "tags": tags, "pair": fn, "input_hex": s, "chars_hex": cut,
                    "what": "%s is not idempotent%s: s=%s chars=%s" % (fn, note, _show(s), _show(cut))}
        if k == 8:
            v = idx["json"][i]
            return {"key": "8|%s" % v, "mkind": kind, "tags": tags, "pair": PAIR[8], "value": v,
                    "what": "%s does not compare equal to v: JSON_STRINGIFY(v)=%s" % (PAIR[8], v)}
        if k in (9, 10):
            c = idx["D"][i]
            n, u = c["amount"], c["unit_code"]
            if k == 10:
                if n < 0:
                    tags.append("diff-negative-amount")
                if j == 1:
                    tags.append("diff-not-absolute-value")
                    note = " and != |n| [neither the amount nor the absolute value the model of the code returns]"
                if abs(n) * UNIT_NS[u] > 2**63 - 1:
                    note += " (|n| * unit is beyond the 2^63-1 ns of a time.Duration)"
            return {"key": "%d|%s|%d|%s" % (k, c["date"], n, c["unit"]), "mkind": kind, "tags": tags, "pair": PAIR[k],
                    "date": c["date"], "amount": n, "unit": c["unit"], "impl_diff": c.get("diff"),
                    "what": "%s %s%s: d=%s n=%d u='%s'%s" % (PAIR[k], "!= d" if k == 9 else "!= n", note, c["date"], n, c["unit"],
                                                             (" DATE_DIFF returned %s" % c.get("diff")) if k == 10 else "")}
        if k == 11:
            c = idx["R"][i]
            via = ["JSON rendering (RETURN d)", "DATE_FORMAT(d, '2006-01-02T15:04:05.999999999Z07:00')"][j]
            text = [c["json_rendering"], c["date_format_rendering"]][j]
            return {"key": "11|%d|%d|%d|%d" % (c["sec"], c["nsec"], c["zone_minutes"], j), "mkind": kind, "tags": tags, "pair": PAIR[11],
                    "what": "DATE(%s) is not the instant rendered%s: unix=%d nsec=%d zone=%+dmin rendering=%r"
                            % (via, note, c["sec"], c["nsec"], c["zone_minutes"], text)}
    except (KeyError, IndexError, TypeError) as e:
        return {"key": "malformed|%s|%s" % (fname, t), "mkind": kind, "tags": ["malformed"],
                "what": "cannot locate case %s of %s in the index (%s)" % (t, fname, e)}
    return {"key": "malformed|%s|%s" % (fname, t), "mkind": kind, "tags": ["malformed"], "what": "malformed case row %s in %s" % (t, fname)}
