"""C01 — configuration for ./check."""

CONFIG = {
    "cmd": "c01",
    "coq_files": ["theories/RunApi.v"],
    "timeout": 2400,
    "trusted": [
        "coq/theories/RunApi.v: the recover wrapper of Program.Run as an outcome algebra over the evaluator's outcomes (value, error, panic with a string / an error / another value)",
        "every case runs in an isolated worker process with a 10 s watchdog; crash = the worker died, hang = no answer",
        "for inputs without an AST (corpus files, mutations, random bytes, library calls, DOM, Go parameter kinds) the verdict is membership of the observed class in the set the theorem allows",
    ],
    "assumptions": ["3 s run deadline inside the worker; functions doing I/O or sleeping (IO::*, DOCUMENT, WAIT*, PRINT, ...) are not called with generated arguments"],
}

KINDS = {0: "forbidden outcome of Compile/Run (an empty result with a nil error, an escaped panic, a crashed or wedged process, neither/both of program and error, invalid JSON)",
         2: "outcome class differs from the reference semantics for a generated program"}


def describe(meta, fname, t):
    kind, i, j = t
    cases = [c for c in meta["index"]["cases"] if c["file"] == fname]
    c = cases[i] if i < len(cases) else {"query": "?", "origin": "?"}
    if kind >= 100:
        return {"key": "skip|%s" % c["query"], "skip": True, "what": "outside the model's domain", "mkind": kind}
    return {"key": "%d|%s|%s|%s" % (kind, c["origin"], c["query"], c.get("param")), "query": c["query"], "origin": c["origin"], "param": c.get("param"),
            "impl_class": c.get("class"), "impl_err": c.get("err"), "mkind": kind, "tags": [c["origin"], c.get("class")],
            "theorem": "C01.run_total / compile_total",
            "what": "%s: origin=%s query=%r param=%s observed=%s %s" % (KINDS.get(kind, "mismatch"), c["origin"], c["query"], c.get("param"), c.get("class"), (c.get("err") or "")[:160])}
