"""C02 — configuration for ./check."""

CONFIG = {
    "cmd": "c02",
    "coq_files": ["theories/Eval.v"],
    "trusted": [
        "modelled (reference evaluator, coq/theories/Eval.v): literals, arithmetic with int64 wrap and exact dyadic floats, comparison through vcompare, logical, ternary, range, IN, array quantifiers, member access incl. optional chaining, error suppression, LET, parameters, instrumented library calls, FOR with FILTER/SORT/LIMIT/COLLECT/DISTINCT, sub-queries, nesting",
        "outside the model (skipped and counted): LIKE, regular expressions, iteration over non-empty objects (Go map order), float results that need rounding, strings with '.' coerced to numbers, floats rendered into strings unless integral",
        "FQL text is produced by the harness printer with minimal parentheses from the same AST that is sent to the model",
    ],
    "assumptions": ["encoding/json decodes the implementation's output faithfully"],
}

KINDS = {0: "result value differs from the reference semantics",
         1: "order / number of library calls differs from the reference semantics (evaluation order, short-circuit)",
         2: "outcome class differs (value vs failure vs compile error)"}


def describe(meta, fname, t):
    kind, i, j = t
    cases = [c for c in meta["index"]["cases"] if c["file"] == fname]
    c = cases[i] if i < len(cases) else {"query": "?", "params": {}}
    if kind >= 100:
        return {"key": "skip|%s" % c["query"], "skip": True, "what": "outside the model's domain", "mkind": kind}
    return {"key": "%d|%s|%s" % (kind, c["query"], sorted(c["params"].items()) if isinstance(c["params"], dict) else ""),
            "query": c["query"], "params": c["params"], "impl_class": c.get("class"), "impl_json": c.get("json"), "impl_err": c.get("err"),
            "mkind": kind, "theorem": "Eval.run_body (reference semantics)",
            "what": "%s: query=%r params=%r impl=%s %s" % (KINDS.get(kind, "mismatch"), c["query"], c["params"], c.get("class"), (c.get("json") or c.get("err") or "")[:120])}
