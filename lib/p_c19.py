"""C19 — configuration for ./check."""

CONFIG = {
    "cmd": "c19",
    "timeout": 1200,
    "trusted": [
        "modelled (Http.v): drivers.HTTPHeaders Set/SetArr/Get, parseHeader, driver options, SetDefaultParams, makeRequest's header loop, cookie and user-agent defaults, responseCodeAllowed with literal/?/* URL globs, response exposure; both as specification (wire_spec, accepted, ...) and as mirror of the pinned code (wire_pinned, returns_early_pinned)",
        "oracles (not modelled, compared on every run): net/http client and server (canonicalisation on the wire, cookie syntax, redirects), pester (one attempt: WithMaxRetries(1)), gobwas/glob on the generator's patterns, goquery parsing of the tiny answer page",
        "loopback httptest server in the worker process records the request as received; observations are projected to a fixed list of header names, sorted cookie name/value pairs, user agent, request count, T/F per status, and a latency bucket for cancellation; a response cookie is compared as name and 'value|max-age|secure|httponly|path' (the value may be empty)",
        "histories: 2-4 documents through one driver instance, each request compared with history_spec (defaults merged with that request's own parameters)",
        "in-flight abort on cancellation is runtime behaviour: only the correspondence check covers it (returned at least 700 ms before the 2500 ms response?)",
    ],
    "assumptions": [
        "header names are token characters and pairwise different up to letter case within one level; values plain ASCII",
        "the latency bucket is generous: the largest cancellation delay is 500 ms, so only a stall of more than ~1.3 s could flip it",
    ],
}


def describe(meta, fname, t):
    kind, i, j = t
    ix = meta["index"]
    if kind in (1, 101, 2, 3, 4):
        c = ix["R"][i]
        cfg = "driver headers=%s query headers=%s driver cookies=%s query cookies=%s driver UA=%r query UA=%r" % (
            [(d["Name"], d["Vals"], "Set+WithHeaders" if d["Set"] else "WithHeader") for d in (c["driver_headers"] or [])],
            [(h["Name"], h["Vals"], "array" if h["Arr"] else "string") for h in (c["query_headers"] or [])],
            c["driver_cookies"] or [], c["query_cookies"] or [], c["driver_ua"], c["query_ua"])
        recv = (c.get("raw") or {}).get("received", {})
        tags = []
        if kind in (1, 101):
            name = ix["names"][j]
            what = "request header %s as received %r differs from the configured one%s; %s" % (
                name, recv.get(name, []), " (equals the pinned-code mirror: value lost under a non-canonical name / only first value sent)" if kind == 101 else "", cfg)
            tags = ["header", "pinned-header-behaviour"] if kind == 101 else ["header"]
        elif kind == 2:
            what = "cookies received %r differ from defaults merged with parameters; %s" % (recv.get("Cookie"), cfg)
        elif kind == 3:
            what = "user agent received %r differs from the configured one; %s" % (recv.get("User-Agent"), cfg)
        else:
            what = "%d requests reached the server for one DOCUMENT(); %s" % (c["requests"], cfg)
        return {"key": "%d|%d|%s" % (kind, j, cfg), "what": what, "mkind": kind, "tags": tags, "config": cfg,
                "theorem": "C19.request_carries_exactly / merge_params_win (correspondence)"}
    if kind == 5:
        c = ix["S"][i]
        code = 200 + j
        return {"key": "5|%s|%s|%d" % (c["driver_codes"], c["query_rules"], code),
                "what": "status %d of %s%d was %s although the model says otherwise; driver codes=%s query rules=%s" % (
                    code, c["url_prefix"], code, {"T": "accepted", "F": "rejected", "E": "answered with another error"}.get(c["impl"][j], "?"),
                    c["driver_codes"], c["query_rules"]),
                "mkind": 5, "tags": ["status"], "theorem": "C19.status_accept_iff (correspondence)"}
    if kind in (6, 7, 8):
        c = ix["P"][i]
        part = {6: "status code", 7: "header %s" % (ix["resp_names"][j] if j < len(ix["resp_names"]) else j),
                8: "cookies (every Set-Cookie of the response, empty-valued ones included, with value|max-age|secure|httponly|path)"}[kind]
        return {"key": "%d|%d|%s" % (kind, j, c["script"]), "what": "response %s reported to the query differs from what the server sent: script=%s query saw=%s %s" % (
            part, c["script"], c["impl"], c.get("error", "")), "mkind": kind, "tags": ["response"], "theorem": "C19.response_reported (correspondence)"}
    if kind == 9:
        c = ix["C"][i]
        return {"key": "9|%s|%d" % (c["kind"], c["cancel_after_ms"]),
                "what": "%s after %d ms on a response due after %d ms: Run returned after %d ms (error=%r)" % (
                    c["kind"], c["cancel_after_ms"], c["response_after_ms"], c["run_returned_after_ms"], c["error"]),
                "mkind": 9, "tags": ["cancel", c["kind"]], "theorem": "C19 cancellation aborts an in-flight request (correspondence only)"}
    if kind in (11, 12, 13, 14):
        c = ix["H"][i]
        k, nj = j // 100, j % 100
        reqs = c["requests"]
        if k >= len(reqs):
            return {"key": "malformed|%s" % (t,), "what": "malformed history row %s" % (t,), "mkind": kind}

        def own(r):
            return "headers=%s cookies=%s UA=%r" % ([(h["Name"], h["Vals"], "array" if h["Arr"] else "string") for h in (r["query_headers"] or [])],
                                                   r["query_cookies"] or [], r["query_ua"])
        drv = "driver headers=%s driver cookies=%s driver UA=%r" % (
            [(d["Name"], d["Vals"], "Set+WithHeaders" if d["Set"] else "WithHeader") for d in (c["driver_headers"] or [])],
            c["driver_cookies"] or [], c["driver_ua"])
        earlier = " ; ".join("document %d: %s" % (x + 1, own(reqs[x])) for x in range(k)) or "none"
        recv = (reqs[k].get("raw") or {}).get("received", {})
        if kind == 11:
            name = ix["names"][nj]
            part = "header %s as received %r" % (name, recv.get(name, []))
        elif kind == 12:
            part = "cookies as received %r" % (recv.get("Cookie"),)
        elif kind == 13:
            part = "user agent as received %r" % (recv.get("User-Agent"),)
        else:
            part = "%d requests reached the server" % reqs[k]["requests"]
        what = ("history through one driver instance: document %d of %d (%s): %s differs from the driver's defaults merged with this document's own parameters; %s ; earlier documents through the same driver: %s"
                % (k + 1, len(reqs), own(reqs[k]), part, drv, earlier))
        return {"key": "%d|%d|%s|%s|%s" % (kind, j, drv, earlier, own(reqs[k])), "what": what, "mkind": kind, "tags": ["history"],
                "theorem": "C19.history_independent / request_carries_exactly (correspondence)"}
    return {"key": "malformed|%s" % (t,), "what": "malformed case row %s" % (t,), "mkind": kind}
