"""C18 — configuration for ./check."""

CONFIG = {
    "cmd": "c18",
    "timeout": 1500,
    "trusted": [
        "modelled (Dom.v): element trees, located elements (zipper), tag/.class/#id/descendant/child selectors with CSS ancestor semantics, their relative XPath translation, select_all in document order and the accessor family defined from it, attribute/style/text/markup writes, navigation; one element wrapper with its attribute and parsed-style caches under histories of reads and writes (w_run) against the cache-free meaning (sp_run); style text of the form name: value; ... (parse_style)",
        "oracles on the generator's well-formed subset (not modelled, compared on every run): HTML5 tree construction (golang.org/x/net/html), cascadia selector matching, the antchfx XPath engine, the gorilla CSS scanner behind STYLE_GET",
        "harness projection: INNER_HTML strings are re-parsed into trees by golang.org/x/net/html before comparison (markup whitespace/quoting is not compared); the harness checks that every generated document is a fixed point of the HTML parser",
        "every implementation call runs in a child process; a dead or silent (20 s) worker is the observation 'crash'",
    ],
    "assumptions": [
        "style values are identifiers or dimensions (a bare number is re-typed by DeserializeStyles); attribute names written by the single-write queries are not id/class/style; histories write data-w/title/data-k/lang and style (as text in three spellings, as object, in a bulk object), never id/class/data-n",
        "the order in which SerializeStyles and object-valued ATTR_SET/STYLE_SET visit their keys is Go map order: declarations and attribute objects are compared sorted by name",
    ],
}

QNAME = {
    1: "ELEMENTS_COUNT(c,s)", 2: "ELEMENT_EXISTS(c,s)", 3: "ELEMENTS(c,s)", 4: "INNER_TEXT_ALL(c,s)",
    5: "INNER_TEXT mapped over ELEMENTS(c,s)", 6: "INNER_TEXT(ELEMENT(c,s))", 7: "INNER_TEXT(c,s)",
    8: "INNER_HTML_ALL(c,s)", 9: "INNER_HTML mapped over ELEMENTS(c,s)", 10: "INNER_HTML(ELEMENT(c,s))",
    11: "INNER_HTML(c,s)", 12: "LENGTH(ELEMENTS(c,s))", 13: "ELEMENT(c,s)",
    21: "ELEMENTS_COUNT(c,X(xp))", 22: "ELEMENT_EXISTS(c,X(xp))", 23: "ELEMENTS(c,X(xp))", 24: "INNER_TEXT_ALL(c,X(xp))",
    26: "INNER_TEXT(ELEMENT(c,X(xp)))", 27: "INNER_TEXT(c,X(xp))", 28: "INNER_HTML_ALL(c,X(xp))",
    30: "INNER_HTML(ELEMENT(c,X(xp)))", 31: "INNER_HTML(c,X(xp))", 33: "ELEMENT(c,X(xp))", 34: "XPATH(c,xp)", 35: "XPATH(c,count(xp))",
    40: "ATTR_GET of every match", 41: "e.attributes[name] of every match", 42: "attribute names of every match",
    43: "STYLE_GET of every match", 44: "e.style[name] of every match", 45: "parent/siblings/children of every match",
    46: "ATTR_GET(ELEMENT(c,s))", 47: "STYLE_GET(ELEMENT(c,s))", 48: "parent/siblings/children of ELEMENT(c,s)",
    50: "INNER_TEXT(c)", 51: "INNER_HTML(c)", 52: "LENGTH(c.children)",
    60: "ATTR_SET then ATTR_GET", 61: "STYLE_SET then STYLE_GET", 62: "INNER_TEXT_SET then INNER_TEXT / INNER_HTML / children", 63: "INNER_HTML_SET then INNER_HTML",
}


def describe(meta, fname, t):
    kind, i, j = t
    docs = meta["index"]["docs"]
    if kind == 999 or i >= len(docs) or (kind != 70 and j >= len(docs[i]["cases"])):
        return {"key": "malformed|%s" % (t,), "what": "malformed case %s (context not found in the model's tree)" % (t,), "mkind": kind}
    if kind == 70:
        d = docs[i]
        hj, k = j // 100, j % 100
        hs = d.get("hist") or []
        if hj >= len(hs):
            return {"key": "malformed|%s" % (t,), "what": "malformed history case %s" % (t,), "mkind": kind}
        h = hs[hj]
        reads = h["reads"]
        at = reads[k] if k < len(reads) else None
        step = ("read #%d, step %d: %s" % (k, at, h["ops"][at])) if at is not None else "the list of reads (length)"
        before = "; ".join(h["ops"][:at]) if at is not None else "; ".join(h["ops"])
        tags = ["history"]
        if h["impl"].startswith("worker"):
            tags.append("crash")
        what = ("history on one element wrapper e = ELEMENT(PARSE(html), %r): %s disagrees with the model after the steps so far [%s]; "
                "reads returned %s ; html=%s ; program=%s"
                % (h["css"], step, before, h["impl"], d["html"], h["program"].replace("\n", " ")))
        return {"key": "%d|%s|%s|%s" % (kind, d["html"], h["css"], h["program"]), "what": what, "mkind": kind, "tags": tags,
                "query": "history", "fql": h["program"], "impl": h["impl"], "html": d["html"], "css": h["css"],
                "theorem": "C18: wrapper_caches_invisible / style_read_after_bulk_write (correspondence)"}
    d, c = docs[i], docs[i]["cases"][j]
    dup = kind > 100
    q = kind - 100 if dup else kind
    impl = c["impl"].get(str(q), "?")
    tags = ["q%d" % q]
    if "stack overflow" in impl:
        tags.append("stack-overflow")
    if impl.startswith("worker"):
        tags.append("crash")
    if dup:
        tags.append("xpath-engine-list-eval")
    if c["expected_matches"] > 1:
        tags.append("multi-match")
    what = ("%s disagrees with the model%s: impl=%s ; context=%s css=%r xpath=%r (generator expects %d matches) html=%s"
            % (QNAME.get(q, "query %d" % q), " but equals the XPath engine's step-by-step list (duplicates / not document order)" if dup else "",
               impl, c["ctx"], c["css"], c["xpath"], c["expected_matches"], d["html"]))
    if q >= 60:
        what += " ; write=%s" % (c.get("write"),)
    return {"key": "%d|%s|%s|%s" % (kind, d["html"], c["ctx"], c["css"]), "what": what, "mkind": kind, "tags": tags,
            "query": QNAME.get(q, str(q)), "fql": meta["index"].get("fql", {}).get(str(q), ""), "impl": impl,
            "html": d["html"], "ctx": c["ctx"], "css": c["css"], "xpath": c["xpath"],
            "theorem": "C18: first_of_all / all_is_map / xpath_css_agree / write_read / accessors_total (correspondence)"}
