"""C14 — configuration for ./check."""

CONFIG = {
    "cmd": "c14",
    "coq_files": ["theories/RunApi.v"],
    "timeout": 1800,
    "trusted": [
        "coq/theories/RunApi.v: Program.Run = evaluation; MarshalJSON; deferred close of every registered closable in registration order; evaluation events cannot be close events (by typing)",
        "Scope.SetVariable registers a closable value also for the ignore variable (Eval.set_var)",
        "the harness' closable logs Close and MarshalJSON into the run's trace",
    ],
    "assumptions": [],
}

KINDS = {0: "result value differs", 2: "result class differs (value / error / nil-nil / escaped panic)",
         3: "the closables closed by the time Run returned differ from those bound to variables (missing, extra, or in another order)",
         4: "a closable was closed before evaluation / serialisation had finished"}


def describe(meta, fname, t):
    kind, i, j = t
    cases = [c for c in meta["index"]["cases"] if c["file"] == fname]
    c = cases[i] if i < len(cases) else {"query": "?", "inject": "?"}
    if kind >= 100:
        return {"key": "skip|%s|%s" % (c["query"], c["inject"]), "skip": True, "what": "outside the model's domain", "mkind": kind}
    return {"key": "%d|%s|%s" % (kind, c["query"], c["inject"]), "query": c["query"], "injection": c["inject"],
            "impl_class": c.get("class"), "impl_closed": c.get("closed"), "impl_closes_last": c.get("closes_last"), "impl_err": c.get("err"),
            "mkind": kind, "theorem": "C14.all_bound_closed / no_close_before_marshal",
            "what": "%s: query=%r injection=%s impl=%s closed=%s" % (KINDS.get(kind, "mismatch"), c["query"], c["inject"], c.get("class"), c.get("closed"))}
