"""C04 — configuration for ./check."""

CONFIG = {
    "cmd": "c04",
    "coq_files": ["theories/Proofs/IterProofs.v"],
    "trusted": [
        "coq/theories/Proofs/PipelineLaws.v states the same laws over the iterators of coq/theories/Eval.v (next / iterate / eval_for); the tie of Eval.v to the Go interpreter is the C02 correspondence",
        "list-level specifications (List.filter, Iter.sort_by with the multi-key comparator, firstn/skipn, Iter.dedup, Iter.collect_groups) and the pure iterator state machines of coq/theories/Iter.v that mirror collections/{filter,limit,sort,unique}.go and clauses/collect_iterator.go",
        "predicate / key / projection expressions are evaluated by the reference evaluator (Eval.v) on each row",
        "hash-based steps (DISTINCT, COLLECT grouping) are specified with structural equality: exact under the no-collision hypothesis of C08",
    ],
    "assumptions": ["the order used by SORT/COLLECT is the total preorder of C07 (ints within +-2^53)"],
}


def describe(meta, fname, t):
    kind, i, j = t
    cases = [c for c in meta["index"]["cases"] if c["file"] == fname]
    c = cases[i] if i < len(cases) else {"query": "?", "src": []}
    if kind >= 100:
        return {"key": "skip|%s|%s" % (c["query"], c["src"]), "skip": True, "what": "expression fails on a row: outside the specification's domain", "mkind": kind}
    what = {0: "result differs from the list-level specification of the clauses", 2: "the implementation failed where the specification yields a result"}.get(kind, "mismatch")
    return {"key": "%d|%s|%s|%s" % (kind, c["query"], c["src"], c.get("params")), "query": c["query"], "src": c["src"], "params": c.get("params"),
            "impl": c.get("json") or c.get("err"), "mkind": kind,
            "theorem": "C04.limit_refines_slice / filter_refines / sort_stable_perm_sorted / distinct_first_occurrence / collect_partition",
            "what": "%s: query=%r src=%r params=%r impl=%s" % (what, c["query"], c["src"], c.get("params"), (c.get("json") or c.get("err") or "")[:160])}
