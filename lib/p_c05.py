"""C05 — configuration for ./check."""
import re

CONFIG = {
    "cmd": "c05",
    "coq_files": ["theories/Proofs/ParserProofs.v", "theories/Proofs/LexerProofs.v"],
    "trusted": [
        "modelled (coq/theories/Lexer.v, Parser.v): the lexer over the upper-cased rune stream (maximal munch, hidden channels, the recursive Identifier rule, the four string styles, integer/float literals, '::' namespace segments, catch-all token) and a fuelled recursive-descent parser of the core grammar (three precedence tiers, left-associative ternary, FOR with all clauses, sub-queries, member paths, error operator) that succeeds only with the token list exhausted",
        "outside the model (skipped and counted): USE heads and WAITFOR EVENT only. '?' directly after ')' (error operator or ternary) is decided by search: the reference parser tries every reading in the generated parser's order of preference (error operator first, leftmost decision most significant) and accepts when one covers the whole token list",
        "the ANTLR ALL(*) prediction machinery is not modelled: agreement of the reference parser with the generated parser is established by generation (every generated program, each of its single-token deletions/duplications and ~120 suffixes, lexical probes, the repository's .fql files)",
        "the harness' projection of compile errors to {accepted, syntax error, statically wrong, other} by the error text",
    ],
    "assumptions": ["unicode.ToUpper maps only a-z, U+0131 and U+017F onto characters the lexer grammar mentions (re-derived from Go's tables on every run)"],
    "timeout": 1500,
}

KINDS = {
    0: "generated program is not well-formed for the reference parser",
    1: "well-formed generated program rejected by Compile",
    2: "ill-formed text (single-token deletion/duplication) accepted by Compile",
    3: "well-formed text (single-token deletion/duplication) rejected by Compile with a syntax/internal error",
    4: "text after a complete program accepted by Compile",
    5: "well-formed program + suffix rejected by Compile with a syntax/internal error",
    6: "token kinds of the implementation's lexer differ from the reference lexer",
    7: "ill-formed text accepted by Compile",
    8: "well-formed text rejected by Compile with a syntax/internal error",
    9: "text that must be accepted (repository .fql file / listed well-formed program) is ill-formed for the reference parser",
    10: "the reference parser ran out of fuel on the text",
}
CLASS = {"0": "accepted", "1": "syntax error", "2": "statically wrong", "3": "other failure"}


def _variant(prog, suffixes, j):
    toks = prog["tokens"]
    n = len(toks)
    obs = prog["obs"]
    o = obs[j] if j < len(obs) else "?"
    if j == 0:
        return " ".join(toks), "program", o
    if j <= n:
        k = j - 1
        return " ".join(toks[:k] + toks[k + 1:]), "deletion of token %d (%s)" % (k, toks[k]), o
    if j <= 2 * n:
        k = j - n - 1
        return " ".join(toks[:k + 1] + [toks[k]] + toks[k + 1:]), "duplication of token %d (%s)" % (k, toks[k]), o
    k = j - 2 * n - 1
    s = suffixes[k] if k < len(suffixes) else "?"
    return " ".join(toks) + " " + s, "suffix %r" % s, o


def describe(meta, fname, t):
    kind, i, j = t
    idx = meta["index"]
    if fname.startswith("cases"):
        progs = idx["progs"].get(fname, [])
        if i >= len(progs):
            return {"key": "malformed|%s|%s" % (fname, t), "what": "malformed case reference %s" % (t,), "mkind": kind}
        text, how, o = _variant(progs[i], idx["suffixes"], j)
        fam = "generated"
    else:
        ts = [c for c in idx["texts"] if c["file"] == fname]
        if i >= len(ts):
            return {"key": "malformed|%s|%s" % (fname, t), "what": "malformed case reference %s" % (t,), "mkind": kind}
        text, how, o, fam = ts[i]["text"], "listed text (%s)" % ts[i]["family"], ts[i]["obs"], ts[i]["family"]
    if kind == 100:
        return {"key": "skip|%d|%s" % (kind, text), "skip": True, "mkind": kind, "text": text, "impl": CLASS.get(o, o),
                "what": "outside the model (USE/WAITFOR): %r [%s; Compile: %s]" % (text[:200], how, CLASS.get(o, o))}
    tags = []
    if re.search(r"(?i)\b(FILTER|SORT)\s*\(", text):
        tags.append("paren-after-clause-keyword")
    return {"key": "%d|%s" % (kind, text), "text": text, "variant": how, "impl": CLASS.get(o, o), "family": fam,
            "mkind": kind, "tags": tags, "theorem": "Parser.parse_program (reference grammar) / C05.parse_consumes_all",
            "what": "%s: %r [%s; Compile: %s]" % (KINDS.get(kind, "mismatch"), text[:200], how, CLASS.get(o, o))}
