"""_CoqProject lists every .v under coq/theories (coqdep orders them)."""
import os, glob, subprocess, sys


def _parsable(coq_dir, files):
    """drop files coqdep cannot lex (a half-written file must not break the
    dependency computation of everything else)"""
    import re
    files = list(files)
    for _ in range(20):
        p = subprocess.run(["coqdep", "-Q", "theories", "Ferret"] + files, cwd=coq_dir,
                           stdout=subprocess.DEVNULL, stderr=subprocess.PIPE, text=True)
        bad = set(re.findall(r'Error: File "([^"]+)"', p.stderr))
        bad = {b for b in bad if b in files}
        if not bad:
            return files
        for b in bad:
            print("coqproj: excluding unparsable file", b, file=sys.stderr)
            files.remove(b)
    return files


def gen_coqproject(coq_dir):
    files = sorted(os.path.relpath(p, coq_dir) for p in glob.glob(os.path.join(coq_dir, "theories", "**", "*.v"), recursive=True))
    files = _parsable(coq_dir, files)
    body = ("-Q theories Ferret\n-arg -w -arg -notation-overridden,-deprecated-hint-without-locality,"
            "-deprecated-instance-without-locality,-ambiguous-paths\n" + "\n".join(files) + "\n")
    p = os.path.join(coq_dir, "_CoqProject")
    old = open(p).read() if os.path.exists(p) else ""
    if old != body or not os.path.exists(os.path.join(coq_dir, "Makefile")):
        open(p, "w").write(body)
        subprocess.run(["coq_makefile", "-f", "_CoqProject", "-o", "Makefile"], cwd=coq_dir, check=True,
                       stdout=subprocess.DEVNULL)


if __name__ == "__main__":
    gen_coqproject(os.path.join(os.path.dirname(os.path.dirname(os.path.abspath(__file__))), "coq"))
