"""_CoqProject lists every .v under coq/theories (coqdep orders them)."""
import os, glob, subprocess, sys


def gen_coqproject(coq_dir):
    files = sorted(os.path.relpath(p, coq_dir) for p in glob.glob(os.path.join(coq_dir, "theories", "**", "*.v"), recursive=True))
    body = ("-Q theories Ferret\n-arg -w -arg -notation-overridden,-deprecated-hint-without-locality,"
            "-deprecated-instance-without-locality,-ambiguous-paths\n" + "\n".join(files) + "\n")
    p = os.path.join(coq_dir, "_CoqProject")
    old = open(p).read() if os.path.exists(p) else ""
    if old != body or not os.path.exists(os.path.join(coq_dir, "Makefile")):
        open(p, "w").write(body)
        subprocess.run(["coq_makefile", "-f", "_CoqProject", "-o", "Makefile"], cwd=coq_dir, check=True,
                       stdout=subprocess.DEVNULL)


if __name__ == "__main__":
    gen_coqproject(os.path.join(os.path.dirname(os.path.dirname(os.path.abspath(__file__))), "coq"))
