"""C09 — configuration for ./check."""

CONFIG = {
    "cmd": "c09",
    "trusted": [
        "modelled: the JSON serializer as pkg/runtime/values configures jettison v0.7.4 (NoHTMLEscaping; keys sorted by escaped text; quote, backslash, C0 controls, U+2028/9 escaped; invalid UTF-8 bytes -> \\ufffd; decimal ints; RFC 3339 with nanoseconds; base64) and an RFC 8259 + UTF-8 recogniser/parser written in Coq, which is the specification of 'valid UTF-8 JSON' and 'parses back'",
        "float text is an oracle of the model's serializer (Section variable ff, hypothesis ff_ok in the theorems): shortest round-trip decimal printing is not modelled; on every run the model parses the implementation's float text exactly and checks that it rounds to the same double (rounds_to)",
        "the verdict is the property's predicates decided by the model on the implementation's bytes (valid, parses back to the value, identical across insertion orders, keys sorted, markup unescaped), via Value.MarshalJSON and via Program.Run with the value as a parameter; byte equality with the model's serializer is a drift diagnostic only (extra.byte_drift_vs_model_serializer, evaluated by coqc from the harness)",
        "for values containing invalid UTF-8 only validity of the output is required (property text) and checked",
        "base64 decoding in 'parses back' uses Codec/Base64.v (owned by C17)",
    ],
    "assumptions": ["dates within years 1..9999 in their own zone (the encoder refuses others); zone offsets are whole minutes",
                    "keys 'in sorted order' is read as: sorted by the key, or by the key's escaped text (what the encoder compares; the two differ only for keys that need escapes)"],
    "timeout": 2400,
}

BITS = [(1, "is not valid UTF-8 JSON"), (2, "does not parse back to the value"), (4, "differs across insertion orders of the same value"),
        (8, "object members are not in sorted key order"), (16, "markup characters are escaped (or dropped)"),
        (32, "an error was returned where bytes were due (or bytes where the encoder must refuse)")]


def describe(meta, fname, t):
    kind, i, j = t
    st = meta["index"]["starts"].get(fname, 0)
    cs = meta["index"]["cases"]
    if st + i >= len(cs):
        return {"key": "malformed|%s|%s" % (fname, t), "what": "malformed case row %s in %s" % (t, fname), "mkind": kind}
    c = cs[st + i]
    why = "; ".join(w for b, w in BITS if j & b)
    via = "Value.MarshalJSON" if kind == 0 else "Program.Run(RETURN @p)"
    out = c.get("run_bytes", c["bytes"]) if kind == 1 else c["bytes"]
    return {"key": "%d|%s" % (kind, c["value"]), "value": c["value"], "bytes": out, "via": via, "mkind": kind, "failed": j,
            "tags": c.get("tags", []), "kinds": [c.get("kind", "")],
            "what": "%s output %s: value=%s bytes=%s%s" % (via, why, c["value"], out[:200],
                                                        "".join(" [%s]" % t for t in c.get("tags", []) if t.startswith("built-from-nil"))),
            "theorem": "C09.json_parse_back / json_canonical"}
