"""C15 — configuration for ./check and the decoding of mismatch tuples.

(1, i, j): function i changed one of its arguments on argument tuple j
(2, i, j): function i gave different results on two equal argument tuples j
"""
import sys, os
sys.path.insert(0, os.path.dirname(os.path.abspath(__file__)))
try:
    from p_c16 import pretty, pretty_args
except Exception:  # pragma: no cover
    pretty = lambda t: t
    pretty_args = lambda t: t

CONFIG = {
    "cmd": "c15",
    "trusted": [
        "heap model Heap.v / StdHeap.v: Go slices (backing array, offset, length, capacity; append in place when length < capacity; Slice shares storage) and maps as cells; the library functions that use Push/Set are modelled by their shape (allocate a container, write only into it), not line by line",
        "tie = dynamic observation only: deep snapshots (common.CoqValue) of every argument before/after each call of every registered in-memory function, each call repeated on fresh equal arguments; the per-function verdict table is checked inside Coq against the model's claim; the go/ast mutator-reachability translator (GenMutators.v) is NOT implemented",
        "the family split: functions registered by pkg/stdlib/{html,io,utils} are the I/O, page-interaction and sleeping families and are not called; NOW, RAND, RANDOM_TOKEN are exempt from the determinism comparison only",
    ],
    "assumptions": [
        "acyclic heaps (FQL cannot build a cyclic value); the deep snapshot renders object members sorted by key, so member order is not observed",
        "results of UNION, UNION_DISTINCT, INTERSECTION, MINUS, OUTERSECTION, KEYS, VALUES, ATTRIBUTES, TO_ARRAY are compared up to element order",
    ],
    "timeout": 1500,
}


def describe(meta, fname, t):
    kind, i, j = t
    fns = meta["index"]["functions"]
    if not (0 <= i < len(fns)):
        return {"key": "malformed|%s" % (t,), "what": "malformed row %s" % (t,), "mkind": kind, "fn": ""}
    r = fns[i]
    fn = r["name"]
    if kind == 1:
        d = r.get("mut") or {}
        args = pretty_args(d.get("args", "[]"))
        return {"key": "mutates|%s|%s" % (fn, d.get("args", "")), "fn": fn, "mkind": 1, "tags": ["argument-changed"],
                "args": args, "before": pretty(d.get("before", "")), "after": pretty(d.get("after", "")),
                "what": "%s(%s) changes its argument #%s from %s to %s (%d of %d tuples change an argument)" % (
                    fn, args[1:-1], d.get("arg_index", "?"), pretty(d.get("before", "")), pretty(d.get("after", "")),
                    r.get("mut_count", 0), r.get("calls", 0) // 2)}
    if kind == 2:
        d = r.get("nd") or {}
        args = pretty_args(d.get("args", "[]"))
        return {"key": "nondeterministic|%s|%s" % (fn, d.get("args", "")), "fn": fn, "mkind": 2, "tags": ["results-differ"],
                "args": args,
                "what": "%s(%s) returns %s on one call and %s on an equal call" % (fn, args[1:-1], d.get("first", ""), d.get("second", ""))}
    return {"key": "drift|%s" % fn, "fn": fn, "mkind": kind, "what": "%s: observation contradicts the heap model's class" % fn}


def match_extra(case, key, value):
    if key == "fn":
        return case.get("fn") == value
    return False
