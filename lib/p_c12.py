"""C12 — configuration for ./check."""

CONFIG = {
    "cmd": "c12",
    "facts": ["facts_treewrites"],
    "race": "always",     # the race detector is the dynamic half of this property; the instrumented build still fits the quick budget
    "timeout": 2400,
    "trusted": [
        "fact translator harness/cmd/facts_treewrites (go/parser + go/types, source importer): tree-attached types = closure of the types implementing core.Expression / core.Predicate / collections.Iterable (+ runtime.Program) under 'is the type of a field'; run path = class-hierarchy call graph from Exec / Iterate / Eval / Next / Program.Run; a write = assignment / ++ / & through a tree-attached value and then a pointer, slice or map; package-level stateful variables of pkg/stdlib used without a package mutex. Mutation through methods of types outside the analysed packages is not seen",
        "modelled: Interleave.v — a run is a sequence of steps that read the shared tree and their own local state only (expressed by the type of step); what makes this typing true of the code is the generated table, not a theorem",
        "Go race detector on the explored schedules (direct violations); Go scheduler and memory model",
    ],
    "assumptions": [
        "programs in the byte comparison do not read the clock, draw random numbers, iterate object members or call functions whose element order is documented as undefined without sorting the result",
        "a step of a run is deterministic given the tree and the run's local state (function table fixed after compilation)",
    ],
}

KIND = {
    1: "a sequential rerun with equal parameters did not return the bytes of the first run",
    2: "a concurrent run with equal parameters did not return the bytes of the first run",
    3: "a run with its own parameter values did not return what a solo run with these values returns (or did not see its own values)",
    4: "compiling on the shared compiler concurrently with runs disagreed with sequential compilation",
}


def describe(meta, fname, t):
    kind, i, j = t
    progs = meta.get("index", {}).get("programs", [])
    p = progs[i] if i < len(progs) else {"text": "?", "kinds": [], "detail": ""}
    text = " ".join(p.get("text", "").split())
    return {
        "key": "%d|%s" % (kind, text),
        "mkind": kind,
        "kinds": p.get("kinds", []),
        "program": p.get("text"),
        "first_run": p.get("first"),
        "goroutines": p.get("goroutines"),
        "detail": p.get("detail"),
        "theorem": "C12.rerun_same_bytes / equal_params_equal_bytes / params_isolated",
        "what": "%s — program: %s — %s" % (KIND.get(kind, "mismatch %d" % kind), text[:400], (p.get("detail") or "")[:400]),
    }
