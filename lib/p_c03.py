"""C03 — configuration for ./check."""

CONFIG = {
    "cmd": "c03",
    "coq_files": ["theories/StaticScope.v", "theories/Eval.v", "theories/WaitforScope.v"],
    "trusted": [
        "coq/theories/StaticScope.v: the specified static resolution (chk_program true) and the mirror of the visitor where it differs (chk_program false)",
        "run-time scope chain of coq/theories/Eval.v (frames, fork points of every iterator, per-frame uniqueness)",
    ],
    "assumptions": [],
}

KINDS = {0: "well-scoped program rejected at compile time",
         1: "program compiles and then fails at run time with a scope error (missing / already declared / unnamed variable)",
         2: "ill-scoped program accepted by the compiler",
         5: "model soundness counter-example: statically accepted, reference evaluator reports a scope error"}


def describe(meta, fname, t):
    kind, i, j = t
    if fname == "casesw.v":
        ws = meta["index"].get("waitfor", [])
        c = ws[i] if i < len(ws) else {"query": "?"}
        what = {20: "well-scoped WAITFOR EVENT rejected at compile time", 21: "ill-scoped WAITFOR EVENT accepted by the compiler (CURRENT exists in the FILTER only; every other operand is resolved in the enclosing scope)"}.get(kind, "mismatch")
        return {"key": "w%d|%s" % (kind, c["query"]), "query": c["query"], "mkind": kind, "theorem": "C03.waitfor_scoping_exact",
                "what": "%s: query=%r compile=%s %s" % (what, c["query"], "accepted" if c.get("accepted") else "rejected", (c.get("err") or "")[:120])}
    cases = [c for c in meta["index"]["cases"] if c["file"] == fname]
    c = cases[i] if i < len(cases) else {"query": "?", "params": {}}
    if kind >= 100:
        return {"key": "skip|%s" % c["query"], "skip": True, "what": "outside the model's domain", "mkind": kind}
    tags = []
    q = c["query"]
    import re
    if re.search(r'LIMIT (\d+, )?x\d+', q) or re.search(r'LIMIT x\d+', q):
        tags.append("limit-variable")
    return {"key": "%d|%s" % (kind, q), "query": q, "params": c["params"], "impl_class": c.get("class"), "impl_err": c.get("err"),
            "mkind": kind, "tags": tags, "theorem": "C03.check_sound / check_complete",
            "what": "%s: query=%r impl=%s %s" % (KINDS.get(kind, "mismatch"), q, c.get("class"), (c.get("err") or "")[:120])}
