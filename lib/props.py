"""Per-property configuration for ./check: harness command, how a mismatch
tuple (kind, i, j) printed by the model is turned back into a readable case,
and how cases are matched against known_findings.json."""
import json, re

COMMON_TRUSTED = [
    "Coq 8.16.1 kernel, coqc, vm_compute (no native_compute, no extraction)",
    "hand-written Gallina model under coq/theories; tie = correspondence check: harness/ (Go) runs /repo on generated cases and coqc evaluates the model on the same cases",
    "Go toolchain and the harness' rendering of values/cases into Coq syntax",
]

PROPS = {
    "C07": {
        "cmd": "c07",
        "trusted": ["modelled: Value.Compare of every kind, types.Compare, comparison operators, IN, array quantifiers, POSITION, INCLUDES, SORT, SORTED as functions of vcompare",
                    "guard in the theorems: ints within +-2^53, finite floats, no duplicate object keys"],
        "assumptions": ["float64(int64) conversion is exact within +-2^53 (IEEE-754)"],
    },
}


def describe(pid, meta, fname, t):
    fn = globals().get("describe_" + pid)
    if fn:
        return fn(meta, fname, t)
    return {"key": "%s:%s" % (fname, t), "what": "mismatch %s in %s" % (t, fname)}


def describe_C07(meta, fname, t):
    kind, i, j = t
    U = meta["index"]["U"]
    K = meta["index"].get("Ukind", [])
    if kind in (0, 1):
        a, b = U[i], U[j]
        names = {0: "sign of Compare", 1: "comparison operators / IN / POSITION / INCLUDES / quantifiers"}
        return {"key": "%d|%s|%s" % (kind, a, b), "a": a, "b": b,
                "kinds": [K[i] if K else "", K[j] if K else ""],
                "what": "%s differs from the total order of the model on a=%s b=%s" % (names[kind], a, b),
                "theorem": "C07.compare_total_preorder / ops_agree_with_compare", "mkind": kind}
    if kind == 2:
        c = meta["index"]["S"][i]
        return {"key": "2|%s|%d" % (c["input"], j), "input": c["input"], "output": c["out"][j], "via": ["SORT", "SORTED"][j],
                "what": "%s output is not the input sorted by the total order: input=%s output=%s" % (["SORT", "SORTED"][j], c["input"], c["out"][j]), "mkind": 2, "kinds": c.get("kinds", [])}
    if kind == 3:
        c = meta["index"]["P"][i]
        return {"key": "3|%s|%s" % (c["arr"], c["x"]), "arr": c["arr"], "x": c["x"], "impl": c["pos"],
                "what": "POSITION(arr, x, true) = %s differs from first index comparing equal: arr=%s x=%s" % (c["pos"], c["arr"], c["x"]), "mkind": 3, "kinds": c.get("kinds", [])}
    return {"key": "malformed|%s" % (t,), "what": "malformed case row %s" % (t,), "mkind": kind}


def match_known(pid, case, known):
    """A known finding matches when property matches and every clause of its
    matcher holds on the described case.  Matchers are deliberately narrow."""
    for kf in known:
        if kf.get("property") != pid or kf.get("status") == "fixed":
            continue
        m = kf.get("match", {})
        ok = True
        for k, v in m.items():
            if k == "all_kinds_in":
                ok = ok and bool(case.get("kinds")) and all(x in v for x in case.get("kinds", []))
            elif k == "any_kind_in":
                ok = ok and any(x in v for x in case.get("kinds", []))
            elif k == "mkind_in":
                ok = ok and case.get("mkind") in v
            elif k == "key_regex":
                ok = ok and re.search(v, case.get("key", "")) is not None
            elif k == "field_regex":
                for fk, fv in v.items():
                    ok = ok and re.search(fv, str(case.get(fk, ""))) is not None
            elif k == "tag":
                ok = ok and v in case.get("tags", [])
            else:
                ok = False
        if ok and m:
            return kf
    return None
