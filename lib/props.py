"""Per-property configuration for ./check: harness command, how a mismatch
tuple (kind, i, j) printed by the model is turned back into a readable case,
and how cases are matched against known_findings.json."""
import json, re

COMMON_TRUSTED = [
    "Coq 8.16.1 kernel, coqc, vm_compute (no native_compute, no extraction)",
    "hand-written Gallina model under coq/theories; tie = correspondence check: harness/ (Go) runs /repo on generated cases and coqc evaluates the model on the same cases",
    "Go toolchain and the harness' rendering of values/cases into Coq syntax",
]

PROPS = {}


def _load():
    """every lib/p_<id>.py defines CONFIG (dict) and optionally describe(meta,
    fname, t) -> case dict, and match_extra(case, matcher_key, matcher_value)."""
    import importlib, glob, os
    here = os.path.dirname(os.path.abspath(__file__))
    for f in sorted(glob.glob(os.path.join(here, "p_c*.py"))):
        name = os.path.basename(f)[:-3]
        try:
            mod = importlib.import_module(name)
        except Exception as e:  # a broken plug-in must not take the other checks down
            import sys
            print("props: cannot load %s: %s" % (name, e), file=sys.stderr)
            continue
        pid = name[2:].upper()
        PROPS[pid] = mod.CONFIG
        MODS[pid] = mod


MODS = {}


def describe(pid, meta, fname, t):
    mod = MODS.get(pid)
    if mod is not None and hasattr(mod, "describe"):
        try:
            return mod.describe(meta, fname, t)
        except Exception as e:      # a describer must never hide a mismatch
            return {"key": "%s:%s" % (fname, t), "what": "mismatch %s in %s (not described: %s: %s)" % (t, fname, type(e).__name__, e)}
    return {"key": "%s:%s" % (fname, t), "what": "mismatch %s in %s" % (t, fname)}


def match_known(pid, case, known):
    """A known finding matches when property matches and every clause of its
    matcher holds on the described case.  Matchers are deliberately narrow."""
    for kf in known:
        if kf.get("property") != pid or kf.get("status") == "fixed":
            continue
        m = kf.get("match", {})
        ok = True
        for k, v in m.items():
            if k == "all_kinds_in":
                ok = ok and bool(case.get("kinds")) and all(x in v for x in case.get("kinds", []))
            elif k == "any_kind_in":
                ok = ok and any(x in v for x in case.get("kinds", []))
            elif k == "mkind_in":
                ok = ok and case.get("mkind") in v
            elif k == "key_regex":
                ok = ok and re.search(v, case.get("key", "")) is not None
            elif k == "field_regex":
                for fk, fv in v.items():
                    ok = ok and re.search(fv, str(case.get(fk, ""))) is not None
            elif k == "tag":
                ok = ok and v in (case.get("tags") or [])
            else:
                mod = MODS.get(pid)
                ok = ok and mod is not None and hasattr(mod, "match_extra") and bool(mod.match_extra(case, k, v))
        if ok and m:
            return kf
    return None


_load()
