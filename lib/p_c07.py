"""C07 — configuration for ./check."""

CONFIG = {
    "cmd": "c07",
    "trusted": ["modelled: Value.Compare of every kind, types.Compare, comparison operators, IN, array quantifiers, POSITION, INCLUDES, SORT, SORTED as functions of vcompare",
                "guard in the theorems: ints within +-2^53, finite floats, no duplicate object keys"],
    "assumptions": ["float64(int64) conversion is exact within +-2^53 (IEEE-754)"],
}


def describe(meta, fname, t):
    kind, i, j = t
    U = meta["index"]["U"]
    K = meta["index"].get("Ukind", [])
    if kind in (0, 1):
        a, b = U[i], U[j]
        names = {0: "sign of Compare", 1: "comparison operators / IN / POSITION / INCLUDES / quantifiers"}
        return {"key": "%d|%s|%s" % (kind, a, b), "a": a, "b": b,
                "kinds": [K[i] if K else "", K[j] if K else ""],
                "what": "%s differs from the total order of the model on a=%s b=%s" % (names[kind], a, b),
                "theorem": "C07.compare_total_preorder / ops_agree_with_compare", "mkind": kind}
    if kind == 2:
        c = meta["index"]["S"][i]
        return {"key": "2|%s|%d" % (c["input"], j), "input": c["input"], "output": c["out"][j], "via": ["SORT", "SORTED"][j],
                "what": "%s output is not the input sorted by the total order: input=%s output=%s" % (["SORT", "SORTED"][j], c["input"], c["out"][j]), "mkind": 2, "kinds": c.get("kinds", [])}
    if kind == 3:
        c = meta["index"]["P"][i]
        return {"key": "3|%s|%s" % (c["arr"], c["x"]), "arr": c["arr"], "x": c["x"], "impl": c["pos"],
                "what": "POSITION(arr, x, true) = %s differs from first index comparing equal: arr=%s x=%s" % (c["pos"], c["arr"], c["x"]), "mkind": 3, "kinds": c.get("kinds", [])}
    return {"key": "malformed|%s" % (t,), "what": "malformed case row %s" % (t,), "mkind": kind}


