"""C08 — configuration for ./check."""

CONFIG = {
    "cmd": "c08",
    "trusted": [
        "modelled: Value.Hash of every kind (FNV-1a 64 over type name, ':', content; little-endian child hashes; sorted keys, each written as 8 little-endian bytes of its length, the key, ':'; time.GobEncode bytes), values.Hash, values.MapHash, Copy/Clone, and the hash-table de-duplicators (ForResult.Push DISTINCT, UniqueIterator, ToUniqueArray/UNIQUE, UNION_DISTINCT, SORTED_UNIQUE, COLLECT group key)",
        "the verdict compares only the equivalence induced by the hash (class ids) with structural identity decided by the model, and de-duplication outputs with first-occurrence de-duplication w.r.t. structural identity; exact hash values feed the drift diagnostic only (extra.hash_value_drift, evaluated by coqc from the harness)",
        "hash_injective_on is proved for the enumerated universe (universe 1, 1415 values) only: a 64-bit hash is not injective on all values; de-duplication exactness is proved under a no-collision hypothesis on the values that occur",
        "harness maps values returned by the implementation back to universe entries by their canonical rendering (harness/common/vals.go CoqValue); the model re-checks structural identity of the entry",
    ],
    "assumptions": ["Go map iteration order is an arbitrary permutation (the [ord] argument of vcopy/vclone)",
                    "time.Time.GobEncode writes version 1 for whole-minute zone offsets (Go 1.23 time.MarshalBinary)"],
    "timeout": 1800,
}

CONSTRUCTS = ["RETURN DISTINCT", "UniqueIterator", "arrays.Unique", "UNIQUE", "UNION_DISTINCT", "SORTED_UNIQUE",
              "COLLECT", "COLLECT WITH COUNT"]


def _index(meta, fname):
    ix = meta["index"]
    for b in ix.get("blocks", []) or []:
        if b["file"] == fname:
            return b["U"], b["Ukind"], b.get("delim", []), fname + ":"
    return ix["U"], ix.get("Ukind", []), ix.get("delim", []), ""


def describe(meta, fname, t):
    kind, i, j = t
    U, K, DL, pre = _index(meta, fname)

    def val(n):
        return U[n] if 0 <= n < len(U) else "<not a universe value / construct failed>"

    if kind == 6 and i == j:
        return {"key": "%s6|%s" % (pre, val(i)), "value": val(i), "mkind": 6, "kinds": [K[i] if i < len(K) else ""],
                "what": "values.MapHash panics on the member map of %s" % val(i),
                "theorem": "C08.hash_struct_eq_sound"}
    if kind in (0, 5, 6):
        a, b = val(i), val(j)
        via = {0: "Value.Hash", 5: "values.MapHash({k: v}) (COLLECT group key)",
               6: "values.MapHash of the two objects' member maps"}[kind]
        kinds = [K[i] if i < len(K) else "", K[j] if j < len(K) else ""]
        delim = bool((i < len(DL) and DL[i]) or (j < len(DL) and DL[j]))
        return {"key": "%s%d|%s|%s" % (pre, kind, a, b), "a": a, "b": b, "kinds": kinds, "mkind": kind,
                "obj_key_delim": delim and kinds == ["object", "object"],
                "what": "%s equality does not coincide with structural identity on a=%s b=%s%s" % (
                    via, a, b, " (objects with ':' in a key: is the key still hashed behind its length?)"
                    if delim and kinds == ["object", "object"] else ""),
                "theorem": "C08.hash_struct_eq_sound / hash_injective_on_universe / preimage_injective_modulo_children"}
    if kind == 1:
        return {"key": "%s1|%s|%d" % (pre, val(i), j), "value": val(i), "mkind": 1, "kinds": [K[i] if i < len(K) else ""],
                "what": "%s changes under a different insertion order of the members of %s" % (["hash", "Compare"][j if j < 2 else 0], val(i)),
                "theorem": "C08.insertion_order_irrelevant"}
    if kind in (2, 3):
        op = "Copy" if kind == 2 else "Clone"
        why = {8: "returns a value outside the universe / panics", 9: "is missing for a cloneable kind"}.get(
            j, "result is not identical (bits hash-equal=1, compares-equal=2, independent-storage=4, hash-follows-content-after-nested-in-place-change=8: got %d)" % j)
        return {"key": "%s%d|%s" % (pre, kind, val(i)), "value": val(i), "mkind": kind, "kinds": [K[i] if i < len(K) else ""],
                "what": "%s of %s %s" % (op, val(i), why), "theorem": "C08.copy_identity / clone_identity"}
    if kind >= 10:
        c = meta["index"]["D"][i]
        k = kind - 10
        name = CONSTRUCTS[k] if k < len(CONSTRUCTS) else "construct %d" % k
        inp = [val(x) for x in c["input"]]
        out = [val(x) for x in (c["outs"][k] if k < len(c["outs"]) else [])]
        d = {"key": "%d|%s" % (kind, c["input"]), "construct": name, "input": inp, "output": out, "mkind": kind,
             "tags": c.get("tags", []), "kinds": sorted(set(K[x] for x in c["input"] if x < len(K))),
             "what": "%s is not exact first-occurrence de-duplication w.r.t. structural identity: input=[%s] output=[%s]%s"
                     % (name, "; ".join(inp), "; ".join(out), (" counts=%s" % c.get("counts")) if k == 7 else ""),
             "theorem": "C08.dedup_exact"}
        d["obj_key_delim"] = "obj-key-delim-collision-in-input" in d["tags"]
        return d
    return {"key": "%smalformed|%s" % (pre, t), "what": "malformed case row %s in %s" % (t, fname), "mkind": kind}


def match_extra(case, key, value):
    # "obj_key_delim" (both values are objects and a key contains ':'; for a
    # de-duplication case: the input contains such a colliding pair and no other
    # collision) is a descriptive field of the case; no known finding uses it any more
    if key == "obj_key_delim":
        return bool(case.get("obj_key_delim")) == bool(value)
    return False
