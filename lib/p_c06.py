"""C06 — configuration for ./check."""
import re

CONFIG = {
    "cmd": "c06",
    "coq_files": ["theories/Proofs/RenderProofs.v", "theories/Proofs/ParserProofs.v", "theories/Proofs/LexerProofs.v"],
    "trusted": [
        "modelled (coq/theories/Lexer.v, Parser.v, Render.v): case folding of the lexer's view of the input (token kinds from the upper-cased runes, token text from the original), hidden channels (white space incl. U+00A0, line terminators incl. U+2028/9, // and /* */ comments), the four string literal styles with visitStringLiteral's un-escaping, raw property-name strings, name spelling, upper-casing of function names, precedence/associativity of all operator levels, redundant parentheses",
        "'?' directly after ')' (error operator or ternary) is decided by search over the readings in the generated parser's order of preference; that order is validated for texts with ONE undecided '?': on a text with two or more, a difference between the reference parser's reading and the generator's tree is counted as skipped (kind 102) when the implementation gives the same outcome for both texts (a difference in the implementation's outcomes is always reported)",
        "the ANTLR ALL(*) prediction machinery is not modelled: agreement of the reference parser with the generated parser is established by generation; evaluation of the parsed tree is C02's reference evaluator (this check ties text -> tree, C02 ties tree -> value)",
        "the renderings are produced by the harness (fqlast printer with redundant parentheses / quote styles, token-level re-rendering with layout and letter case) and re-lexed by the implementation's lexer before use",
    ],
    "assumptions": ["unicode.ToUpper maps only a-z, U+0131 and U+017F onto characters the lexer grammar mentions (re-derived from Go's tables on every C05 run)"],
    "timeout": 1500,
}

KINDS = {
    0: "surface syntax changed the outcome (the reference parser reads both texts as the same program)",
    1: "the reference parser does not read the rendering as the same program",
    4: "the reference parser does not read the canonical text as the tree it was printed from",
    5: "token kinds of the implementation's lexer differ from the reference lexer",
    6: "the implementation's result is not the value the program denotes (string contents / names not preserved)",
    7: "redundant parentheses directly after FILTER / SORT changed the outcome",
}


def describe(meta, fname, t):
    kind, i, j = t
    cs = [c for c in meta["index"]["cases"] if c["file"] == fname]
    if i >= len(cs):
        return {"key": "malformed|%s|%s" % (fname, t), "what": "malformed case reference %s" % (t,), "mkind": kind}
    c = cs[i]
    a = c["alts"][j - 1] if 0 < j <= len(c["alts"]) else None
    text = a["text"] if a else c["canon"]
    if kind == 102:
        return {"key": "skip|102|%s" % text, "skip": True, "mkind": kind, "text": text,
                "what": "text with two or more undecided '?' after ')' (several readings parse): the reference parser's reading differs from the generator's tree, the implementation's outcomes agree — counted, not reported: %r" % text[:200]}
    tags = []
    low = re.findall(r"(?<![A-Za-z0-9_@.\"'`])(and|or|not)(?![A-Za-z0-9_(\"'`:])", text, re.I)
    if any(w != w.upper() for w in low):
        tags.append("lowercase-logical-operator")
    if kind == 7:
        # decided by the model on the token lists: '(' directly after a FILTER / SORT token in the
        # rendering and not in the canonical text
        tags.append("paren-after-clause-keyword")
    if c["family"] == "echo-escape" and re.search(r"\\[`\u00b4]$", c["canon"]):
        tags.append("trailing-backslash-in-backtick-string")
    d = {"key": "%d|%s|%s" % (kind, c["canon"], text), "canonical": c["canon"], "rendering": text, "family": c["family"],
         "canonical_outcome": c["out"], "mkind": kind, "tags": tags,
         "theorem": "C06.lex_render / parse_print_expr / string_literal_exact (reference lexer+parser)"}
    if a:
        d["rendering_outcome"] = a["out"]
        d["how"] = a["how"]
    if kind == 6:
        d["what"] = "%s: query=%r result=%s expected=%s" % (KINDS[6], c["canon"][:200], c["out"][:120], c.get("want", "")[:120])
    elif kind in (4, 5) and not a:
        d["what"] = "%s: %r" % (KINDS[kind], c["canon"][:300])
    else:
        d["what"] = "%s: canonical=%r -> %s ; rendering=%r -> %s" % (KINDS.get(kind, "mismatch"), c["canon"][:160], c["out"][:60],
                                                                    text[:200], (a or {}).get("out", "")[:60])
    return d
