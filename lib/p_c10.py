"""C10 — configuration for ./check."""
import re

CONFIG = {
    "cmd": "c10",
    "timeout": 1800,
    "trusted": [
        "modelled: visitParam/scope.AddParam (one set per program, every syntactic position alike), Program.Params, Program.validateParams, values.Parse (type switch + reflect branches) as reached through runtime.WithParam/WithParams",
        "a program is abstracted to a tree of parameter occurrences; the harness renders both the FQL text and the tree from the same generator step",
        "the harness renders each Go value and its goval term from the same generator step; float32 values are sent as their exact binary64 bits",
        "dates and binaries inside the JSON of RETURN @p are only required to be strings (their text is C09's subject); exact values are compared on values.Parse's result and on the value the query receives",
    ],
    "assumptions": [
        "64-bit platform: int(x) is the identity on every signed width",
        "unsigned values above 2^63-1 have no FQL integer counterpart and are outside the guard (supported)",
        "nil slices and nil maps correspond to the empty array / object (what the code does; the property does not decide it)",
    ],
}

KIND = {
    0: "Program.Params() is not the set of parameters the program mentions",
    1: "Run's refusal/start differs from: refuse, naming exactly the missing parameters, iff a mentioned parameter is not supplied",
    2: "a program mentioning parameters does not compile",
    3: "values.Parse(go value) is not the corresponding FQL value",
    4: "the value the query sees for @p is not the corresponding FQL value",
    5: "the JSON of RETURN @p does not reproduce the supplied value",
    8: "generator produced a value outside the supported guard (harness bug)",
}


def _vtags(model):
    tags = []
    if "GUint" in model:
        tags.append("unsigned")
    if re.search(r"\(G(Int|Bool|String|Float) true", model) or "(GUint true" in model:
        tags.append("named-type")
    if re.search(r'", false, ', model):
        tags.append("unexported-field")
    return tags


def describe(meta, fname, t):
    kind, i, j = t
    idx = meta["index"]
    if kind in (0, 1, 2):
        p = idx["prog"][i]
        if kind == 2:
            return {"key": "2|%s" % p["text"], "mkind": 2, "program": p["text"], "error": p.get("compile_error"),
                    "tags": ["reserved-word-param"] if p.get("reserved") else [],
                    "what": "%s: %r -> %s" % (KIND[2], p["text"], p.get("compile_error"))}
        if kind == 0:
            return {"key": "0|%s" % p["text"], "mkind": 0, "program": p["text"], "params": p.get("params"), "tags": [],
                    "what": "%s: Params()=%s for %r" % (KIND[0], p.get("params"), p["text"])}
        r = p["runs"][j]
        return {"key": "1|%s|%s" % (p["text"], ",".join(r["supplied"])), "mkind": 1, "program": p["text"], "supplied": r["supplied"],
                "observed": r["class"], "named": r["named"], "error": r["error"], "tags": [],
                "what": "%s: program %r (Params()=%s) with supplied=%s: %s naming %s (%s)"
                        % (KIND[1], p["text"], p.get("params"), r["supplied"], r["class"], r["named"], r["error"])}
    if kind in (3, 4, 5, 8):
        v = idx["val"][i]
        obs = {3: v["parse"], 4: v["seen"], 5: v["json"], 8: ""}[kind]
        return {"key": "%d|%s" % (kind, v["model"]), "mkind": kind, "go": v["go"], "model": v["model"], "observed": obs,
                "tags": _vtags(v["model"]) + [v["tag"]],
                "what": "%s: go value %s (%s) -> %s" % (KIND[kind], v["go"], v["tag"], obs)}
    return {"key": "malformed|%s" % (t,), "what": "malformed case row %s" % (t,), "mkind": kind}
