"""C11 — configuration for ./check."""

CONFIG = {
    "cmd": "c11",
    "race": True,
    "timeout": 2400,
    "trusted": [
        "modelled: core.Functions (Get/Set/Unset/Names), NamespaceContainer.RegisterFunction/RemoveFunction/Namespace/RegisteredFunctions, visitHeads/visitHead/copyFromNamespace, visitFunctionCall's lookup; a query is abstracted to (well-formed?, USE namespaces, call names) and the harness renders that abstraction to query text",
        "compile_spec (imports into a per-compilation copy) is the specification; compile_pinned mirrors the pinned tree and is only used for the proved refutations",
        "schedules interleave whole Compile calls; finer interleavings are covered dynamically by the race detector (thorough tier builds with -race) and by the concurrent runs in a child process",
    ],
    "assumptions": [
        "names are ASCII (the lexer's Identifier and fnNameValidation admit nothing else), so strings.ToUpper is the byte-wise map of the model",
        "a function is identified by the value it returns (harness functions return their id); for the real stdlib only compiled/error is observed",
    ],
}

KIND = {
    0: "Compile on a compiler that compiled other queries before differs from the specification",
    1: "Compile on a fresh compiler differs from the specification",
    2: "RegisteredFunctions() after a history of Compile calls differs from before",
    3: "RegisterFunction outcome differs from the model",
    4: "RegisteredFunctions() is not the key set of the model's table",
    5: "Compile from a concurrent goroutine differs from the specification (= running alone)",
}


def describe(meta, fname, t):
    kind, i, j = t
    idx = meta["index"]
    if kind in (0, 1, 2):
        h = idx["hist"].get(str(i))
        if h is None:
            return {"key": "malformed|%s" % (t,), "what": "unknown history %s" % (t,), "mkind": kind}
        w = idx["world"][h["world"]]
        calls = h["calls"]
        qs = [c["q"] for c in calls]
        if kind == 2:
            return {"key": "2|%s|%s" % (w["registry"], "|".join(qs)), "mkind": 2, "tags": ["registry-changed", w["kind"]],
                    "registry": w["registry"], "history": qs, "gained": h["gained"] or [], "lost": h["lost"] or [],
                    "what": "%s: gained=%s lost=%s after compiling %s on one compiler; registry=%s"
                            % (KIND[2], h["gained"] or [], h["lost"] or [], qs, w["registry"])}
        c = calls[j]
        return {"key": "%d|%s|%s|%s" % (kind, w["registry"], "|".join(qs[:j]), c["q"]), "mkind": kind,
                "tags": [w["kind"], "history-dependent" if c["shared"] != c["fresh"] else "same-as-fresh"],
                "registry": w["registry"], "before": qs[:j], "query": c["q"], "shared": c["shared"], "fresh": c["fresh"],
                "what": "%s: query %r after %s: shared compiler: %s; fresh compiler: %s; registry=%s"
                        % (KIND[kind], c["q"], qs[:j], c["shared"], c["fresh"], w["registry"])}
    if kind in (3, 4):
        w = idx["world"][i]
        op = w["ops"].get(str(j), "?")
        return {"key": "%d|%s|%s" % (kind, w["registry"], op if kind == 3 else ""), "mkind": kind, "tags": [w["kind"]],
                "registry": w["registry"], "op": op,
                "what": "%s: %s; registry afterwards=%s" % (KIND[kind], op if kind == 3 else "", w["registry"])}
    if kind == 5:
        r = idx["conc"].get(str(i))
        if r is None:
            return {"key": "malformed|%s" % (t,), "what": "unknown concurrent run %s" % (t,), "mkind": kind}
        w = idx["world"][r["world"]]
        th, k = j // 100, j % 100
        c = r["threads"][th][k]
        threads = [[x["q"] for x in t_] for t_ in r["threads"]]
        return {"key": "5|%s|%s|%d|%d" % (w["registry"], threads, th, k), "mkind": 5, "tags": [w["kind"], "concurrent"],
                "registry": w["registry"], "threads": threads, "query": c["q"], "observed": c["observed"],
                "what": "%s: goroutine %d call %d %r observed %s; threads=%s; registry=%s"
                        % (KIND[5], th, k, c["q"], c["observed"], threads, w["registry"])}
    return {"key": "malformed|%s" % (t,), "what": "malformed case row %s" % (t,), "mkind": kind}
