// Package fqlrun compiles and runs FQL text against /repo with the harness'
// instrumented library (the Go side of the functions modelled in
// coq/theories/Eval.v: T, ARR, FAIL, PANIC_S, PANIC_E, PANIC_O, PANIC_N, CANCEL, CLOSER)
// and projects the outcome to what the checks compare.
package fqlrun

import (
	"bytes"
	"context"
	"encoding/json"
	"errors"
	"fmt"
	"io"
	"math"
	"sort"
	"strings"
	"sync"
	"time"

	"github.com/MontFerret/ferret/pkg/compiler"
	"github.com/MontFerret/ferret/pkg/runtime"
	"github.com/MontFerret/ferret/pkg/runtime/core"
	"github.com/MontFerret/ferret/pkg/runtime/values"

	"verif/harness/common"
)

// Event is one entry of the run's trace.
type Event struct {
	Kind string // call bind close marshal
	Fn   string
	Args []core.Value
	ID   int64
}

// Session holds the per-run instrumentation state.
type Session struct {
	mu       sync.Mutex
	Trace    []Event
	Calls    int
	CancelAt int // cancel the context inside the k-th call (0-based); -1 = never
	FailAt   int // the k-th call fails instead of running; -1 = never
	FailKind int // 0 error, 1 panic(string), 2 panic(error), 3 panic(other), 4 panic(nil)
	cancel   context.CancelFunc
}

func (s *Session) log(e Event) {
	s.mu.Lock()
	s.Trace = append(s.Trace, e)
	s.mu.Unlock()
}

// Closer is the tracked closable value returned by CLOSER(id).
type Closer struct {
	ID     int64
	S      *Session
	closed bool
}

var closerType = core.NewType("closer")

func (c *Closer) MarshalJSON() ([]byte, error) {
	c.S.log(Event{Kind: "marshal", ID: c.ID})
	return json.Marshal(fmt.Sprintf("#closer:%d", c.ID))
}
func (c *Closer) Type() core.Type     { return closerType }
func (c *Closer) String() string      { return fmt.Sprintf("#closer:%d", c.ID) }
func (c *Closer) Unwrap() interface{} { return c }
func (c *Closer) Hash() uint64        { return uint64(c.ID) }
func (c *Closer) Copy() core.Value    { return c }
func (c *Closer) Compare(o core.Value) int64 {
	if oc, ok := o.(*Closer); ok {
		switch {
		case c.ID < oc.ID:
			return -1
		case c.ID > oc.ID:
			return 1
		}
		return 0
	}
	return 1
}

// Close reports an error for every third id (and for any repeated close): a failing
// Close must not keep the remaining closables from being closed
func (c *Closer) Close() error {
	c.S.log(Event{Kind: "close", ID: c.ID})
	c.S.mu.Lock()
	again := c.closed
	c.closed = true
	c.S.mu.Unlock()
	if again || c.ID%3 == 0 {
		return fmt.Errorf("harness: close of %d failed", c.ID)
	}
	return nil
}

type otherPanic struct{ n int }

// an error whose cause chain ends in nil at once (github.com/pkg/errors' Cause() convention)
type causelessError struct{}

func (causelessError) Error() string { return "harness: error that wraps nothing" }
func (causelessError) Cause() error  { return nil }

// Register installs the instrumented functions on a compiler. The functions
// find their session in the context so that one compiled program can be run
// many times.
type sessKey struct{}

func WithSession(ctx context.Context, s *Session) context.Context {
	return context.WithValue(ctx, sessKey{}, s)
}
func sessionOf(ctx context.Context) *Session {
	s, _ := ctx.Value(sessKey{}).(*Session)
	if s == nil {
		s = &Session{CancelAt: -1, FailAt: -1}
	}
	return s
}

func enter(ctx context.Context, name string, args []core.Value) *Session {
	s := sessionOf(ctx)
	s.mu.Lock()
	s.Trace = append(s.Trace, Event{Kind: "call", Fn: name, Args: append([]core.Value{}, args...)})
	k := s.Calls
	s.Calls++
	cancel := s.cancel
	hit := s.CancelAt >= 0 && k == s.CancelAt
	fail := s.FailAt >= 0 && k == s.FailAt
	kind := s.FailKind
	s.mu.Unlock()
	if hit && cancel != nil {
		cancel()
		// the call in which the cancellation arrives takes a moment to complete: whatever reacts to the
		// cancelled context from another goroutine gets to run before the call returns its value
		time.Sleep(2 * time.Millisecond)
	}
	if fail {
		switch kind {
		case 0:
			panic(injectedError{})
		case 1:
			panic("harness: injected string panic")
		case 2:
			panic(errors.New("harness: injected error panic"))
		case 4:
			var nothing interface{}
			panic(nothing) // panic(nil): recover() returns nil under go.mod's "go 1.18" semantics
		default:
			panic(otherPanic{2})
		}
	}
	return s
}

// injectedError is turned into an ordinary error return by the wrapper in Register.
type injectedError struct{}

func Register(c *compiler.Compiler) {
	reg := func(name string, fn core.Function) {
		wrapped := func(ctx context.Context, args ...core.Value) (out core.Value, err error) {
			returned := false
			defer func() {
				r := recover()
				if r == nil && returned {
					return
				}
				if _, ok := r.(injectedError); ok {
					out, err = values.None, errors.New("harness: injected error")
					return
				}
				panic(r) // also a nil panic value (recover() gave nil although fn did not return)
			}()
			out, err = fn(ctx, args...)
			returned = true
			return out, err
		}
		if err := c.RegisterFunction(name, wrapped); err != nil {
			panic(err)
		}
	}
	reg("T", func(ctx context.Context, args ...core.Value) (core.Value, error) {
		enter(ctx, "T", args)
		if len(args) == 0 {
			return values.None, nil
		}
		return args[len(args)-1], nil
	})
	reg("ARR", func(ctx context.Context, args ...core.Value) (core.Value, error) {
		enter(ctx, "ARR", args)
		out := values.NewArray(len(args))
		for _, a := range args {
			out.Push(a)
		}
		return out, nil
	})
	reg("FAIL", func(ctx context.Context, args ...core.Value) (core.Value, error) {
		enter(ctx, "FAIL", args)
		return values.None, errors.New("harness: FAIL")
	})
	reg("PANIC_S", func(ctx context.Context, args ...core.Value) (core.Value, error) {
		enter(ctx, "PANIC_S", args)
		panic("harness: string panic")
	})
	reg("PANIC_E", func(ctx context.Context, args ...core.Value) (core.Value, error) {
		enter(ctx, "PANIC_E", args)
		panic(errors.New("harness: error panic"))
	})
	reg("PANIC_O", func(ctx context.Context, args ...core.Value) (core.Value, error) {
		enter(ctx, "PANIC_O", args)
		panic(otherPanic{1})
	})
	reg("PANIC_C", func(ctx context.Context, args ...core.Value) (core.Value, error) {
		enter(ctx, "PANIC_C", args)
		panic(causelessError{})
	})
	reg("PANIC_N", func(ctx context.Context, args ...core.Value) (core.Value, error) {
		enter(ctx, "PANIC_N", args)
		var nothing interface{}
		panic(nothing)
	})
	reg("CANCEL", func(ctx context.Context, args ...core.Value) (core.Value, error) {
		s := enter(ctx, "CANCEL", args)
		if s.cancel != nil {
			s.cancel()
		}
		return values.None, nil
	})
	reg("CLOSER", func(ctx context.Context, args ...core.Value) (core.Value, error) {
		s := enter(ctx, "CLOSER", args)
		if len(args) != 1 {
			return values.None, errors.New("harness: CLOSER(id)")
		}
		id, ok := args[0].(values.Int)
		if !ok {
			return values.None, errors.New("harness: CLOSER(id)")
		}
		return &Closer{ID: int64(id), S: s}, nil
	})
}

// Outcome is the projected observation of Compile+Run.
type Outcome struct {
	Class   string // compile-error ok error nil-nil panic-escaped
	Err     string
	JSON    []byte
	Trace   []Event
	ErrKind string // scope-notfound scope-notunique scope-unnamed terminated missing-param other
}

func classifyErr(err error) string {
	if err == nil {
		return ""
	}
	m := err.Error()
	switch {
	case strings.Contains(m, core.ErrTerminated.Error()):
		return "terminated"
	case strings.Contains(m, "not found: variable"):
		return "scope-notfound"
	case strings.Contains(m, "variable is already declared") || strings.Contains(m, core.ErrNotUnique.Error()):
		return "scope-notunique"
	case strings.Contains(m, "missed argument: value variable"):
		return "scope-unnamed"
	case strings.Contains(m, "missed parameter") || strings.Contains(m, runtime.ErrMissedParam.Error()):
		return "missing-param"
	}
	return "other"
}

// Run compiles (with the instrumented library) and runs one program.
func Run(c *compiler.Compiler, query string, params map[string]interface{}, cancelAt int, precancel bool) (out Outcome) {
	prog, err := c.Compile(query)
	if err != nil || prog == nil {
		out.Class = "compile-error"
		if err != nil {
			out.Err = err.Error()
		}
		return
	}
	return RunProgram(prog, params, cancelAt, precancel)
}

func RunProgram(prog *runtime.Program, params map[string]interface{}, cancelAt int, precancel bool) (out Outcome) {
	return RunProgramInj(prog, params, cancelAt, precancel, -1, 0)
}

// RunProgramInj additionally makes the failAt-th instrumented call fail.
func RunProgramInj(prog *runtime.Program, params map[string]interface{}, cancelAt int, precancel bool, failAt, failKind int) (out Outcome) {
	s := &Session{CancelAt: cancelAt, FailAt: failAt, FailKind: failKind}
	ctx, cancel := context.WithCancel(context.Background())
	defer cancel()
	s.cancel = cancel
	if precancel {
		cancel()
	}
	ctx = WithSession(ctx, s)
	defer func() {
		if r := recover(); r != nil {
			out.Class = "panic-escaped"
			out.Err = fmt.Sprint(r)
		}
		s.mu.Lock()
		out.Trace = append([]Event{}, s.Trace...)
		s.mu.Unlock()
	}()
	opts := []runtime.Option{runtime.WithLog(io.Discard)}
	for k, v := range params {
		opts = append(opts, runtime.WithParam(k, v))
	}
	b, err := prog.Run(ctx, opts...)
	switch {
	case err != nil:
		out.Class = "error"
		out.Err = err.Error()
		out.ErrKind = classifyErr(err)
	case len(b) == 0:
		out.Class = "nil-nil"
	default:
		out.Class = "ok"
		out.JSON = b
	}
	return
}

// JSONToCoq renders JSON bytes as a value of coq/theories/Value.v. Numbers
// without fraction/exponent that fit int64 become VInt, others VFloat (bits);
// the model compares numbers numerically (vcompare), so 2 and 2.0 agree.
func JSONToCoq(b []byte) (string, error) {
	dec := json.NewDecoder(bytes.NewReader(b))
	dec.UseNumber()
	var v interface{}
	if err := dec.Decode(&v); err != nil {
		return "", err
	}
	return anyToCoq(v), nil
}

func anyToCoq(v interface{}) string {
	switch x := v.(type) {
	case nil:
		return "VNone"
	case bool:
		if x {
			return "(VBool true)"
		}
		return "(VBool false)"
	case json.Number:
		s := x.String()
		if !strings.ContainsAny(s, ".eE") {
			if i, err := x.Int64(); err == nil {
				return fmt.Sprintf("(VInt (%d))", i)
			}
		}
		f, _ := x.Float64()
		return fmt.Sprintf("(VFloat %d%%N)", math.Float64bits(f))
	case string:
		return "(VStr " + common.Hx([]byte(x)) + ")"
	case []interface{}:
		parts := make([]string, len(x))
		for i, e := range x {
			parts[i] = anyToCoq(e)
		}
		return "(VArr [" + strings.Join(parts, "; ") + "])"
	case map[string]interface{}:
		keys := make([]string, 0, len(x))
		for k := range x {
			keys = append(keys, k)
		}
		sort.Strings(keys)
		parts := make([]string, len(keys))
		for i, k := range keys {
			parts[i] = "(" + common.Hx([]byte(k)) + ", " + anyToCoq(x[k]) + ")"
		}
		return "(VObj [" + strings.Join(parts, "; ") + "])"
	}
	return "VNone"
}

// TraceCoq renders the call events of a trace as a Coq list of
// (function name, arguments) pairs.
func TraceCoq(tr []Event) string {
	parts := []string{}
	for _, e := range tr {
		if e.Kind != "call" {
			continue
		}
		args := make([]string, len(e.Args))
		for i, a := range e.Args {
			if c, ok := a.(*Closer); ok {
				args[i] = "(VStr " + common.Hx([]byte(c.String())) + ")"
			} else {
				args[i] = common.CoqValue(a)
			}
		}
		parts = append(parts, "("+common.Hx([]byte(e.Fn))+", ["+strings.Join(args, "; ")+"])")
	}
	return "[" + strings.Join(parts, "; ") + "]"
}
