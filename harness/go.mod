module verif/harness

go 1.18

require (
	github.com/MontFerret/ferret v0.0.0
	github.com/antlr/antlr4/runtime/Go/antlr/v4 v4.0.0-20230321174746-8dcc6526cfb1
	golang.org/x/net v0.8.0
)

require (
	github.com/PuerkitoBio/goquery v1.8.1 // indirect
	github.com/andybalholm/cascadia v1.3.1 // indirect
	github.com/antchfx/htmlquery v1.3.0 // indirect
	github.com/antchfx/xpath v1.2.4 // indirect
	github.com/corpix/uarand v0.2.0 // indirect
	github.com/gobwas/glob v0.2.3 // indirect
	github.com/golang/groupcache v0.0.0-20210331224755-41bb18bfe9da // indirect
	github.com/gorilla/css v1.0.0 // indirect
	github.com/gorilla/websocket v1.4.2 // indirect
	github.com/mafredri/cdp v0.34.0 // indirect
	github.com/mattn/go-colorable v0.1.12 // indirect
	github.com/mattn/go-isatty v0.0.14 // indirect
	github.com/pkg/errors v0.9.1 // indirect
	github.com/rs/zerolog v1.29.0 // indirect
	github.com/sethgrid/pester v1.2.0 // indirect
	github.com/wI2L/jettison v0.7.4 // indirect
	golang.org/x/exp v0.0.0-20220722155223-a9213eeb770e // indirect
	golang.org/x/sync v0.1.0 // indirect
	golang.org/x/sys v0.6.0 // indirect
	golang.org/x/text v0.8.0 // indirect
)

replace github.com/MontFerret/ferret => /repo
