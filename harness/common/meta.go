// Package common: shared pieces of the verification harness — the value
// universe and generators, the rendering of values into the syntax of the Coq
// model, and the meta.json record every harness command writes.
package common

import (
	"encoding/json"
	"flag"
	"fmt"
	"io"
	"os"
	"path/filepath"
)

type Meta struct {
	Property           string                 `json:"property"`
	Tier               string                 `json:"tier"`
	Seed               int64                  `json:"seed"`
	Evaluations        int                    `json:"evaluations"`
	DistinctNontrivial int                    `json:"distinct_nontrivial"`
	Rule               string                 `json:"rule"`
	Samples            []interface{}          `json:"samples"`
	Distribution       map[string]int         `json:"distribution"`
	Files              []string               `json:"files"`
	Extra              map[string]interface{} `json:"extra,omitempty"`
	// Index: for every mismatch kind, how to turn (kind,i,j) into a readable case
	Index map[string]interface{} `json:"index,omitempty"`
}

func NewMeta(prop, tier string, seed int64) *Meta {
	return &Meta{Property: prop, Tier: tier, Seed: seed, Distribution: map[string]int{},
		Extra: map[string]interface{}{}, Index: map[string]interface{}{}}
}

func (m *Meta) Count(k string) { m.Distribution[k]++ }

func (m *Meta) Write(dir string) {
	b, _ := json.MarshalIndent(m, "", " ")
	Must(os.WriteFile(filepath.Join(dir, "meta.json"), b, 0o644))
}

func Must(err error) {
	if err != nil {
		fmt.Fprintln(os.Stderr, "harness error:", err)
		os.Exit(2)
	}
}

// Args parses the common flags of every harness command.
func Args() (out, tier string, seed int64, rest []string) {
	fs := flag.NewFlagSet(os.Args[0], flag.ExitOnError)
	o := fs.String("out", "", "output directory")
	t := fs.String("tier", "quick", "quick|thorough")
	sd := fs.Int64("seed", 1, "PRNG seed")
	Must(fs.Parse(os.Args[1:]))
	if *o != "" {
		Must(os.MkdirAll(*o, 0o755))
	}
	return *o, *t, *sd, fs.Args()
}

var Discard io.Writer = io.Discard

// CoqEscape doubles the quote character for a Coq string literal.
func CoqEscape(s string) string {
	out := make([]byte, 0, len(s))
	for i := 0; i < len(s); i++ {
		if s[i] == '"' {
			out = append(out, '"')
		}
		out = append(out, s[i])
	}
	return string(out)
}
