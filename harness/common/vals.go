package common

// Value universe, seeded generators and the Coq rendering of FQL values.

import (
	"encoding/hex"
	"fmt"
	"math"
	"math/rand"
	"sort"
	"strings"
	"time"

	"github.com/MontFerret/ferret/pkg/runtime/core"
	"github.com/MontFerret/ferret/pkg/runtime/values"
	"github.com/MontFerret/ferret/pkg/runtime/values/types"
)

func Hx(b []byte) string { return `(hx "` + hex.EncodeToString(b) + `")` }

func CoqZ(z int64) string { return fmt.Sprintf("(%d)", z) }

// coqValue renders a value in the syntax of coq/theories/Value.v.
// Object members are emitted in the order given by keyOrder (nil = sorted).
func CoqValue(v core.Value) string {
	switch v.Type() {
	case types.None:
		return "VNone"
	case types.Boolean:
		if v.(values.Boolean) {
			return "(VBool true)"
		}
		return "(VBool false)"
	case types.Int:
		return "(VInt " + CoqZ(int64(v.(values.Int))) + ")"
	case types.Float:
		return fmt.Sprintf("(VFloat %d%%N)", math.Float64bits(float64(v.(values.Float))))
	case types.String:
		return "(VStr " + Hx([]byte(string(v.(values.String)))) + ")"
	case types.DateTime:
		t := v.(values.DateTime).Time
		off := int64(-1)
		if t.Location() != time.UTC {
			_, o := t.Zone()
			off = int64(o / 60)
		}
		return fmt.Sprintf("(VDate %s %s %s)", CoqZ(t.Unix()), CoqZ(int64(t.Nanosecond())), CoqZ(off))
	case types.Array:
		arr := v.(*values.Array)
		parts := make([]string, 0, int(arr.Length()))
		arr.ForEach(func(x core.Value, _ int) bool {
			parts = append(parts, CoqValue(x))
			return true
		})
		return "(VArr [" + strings.Join(parts, "; ") + "])"
	case types.Object:
		obj := v.(*values.Object)
		keys := make([]string, 0)
		obj.ForEach(func(_ core.Value, k string) bool {
			keys = append(keys, k)
			return true
		})
		sort.Strings(keys)
		// rotate deterministically so the model sees a non-sorted insertion order
		if len(keys) > 1 {
			keys = append(keys[1:], keys[0])
		}
		parts := make([]string, 0, len(keys))
		for _, k := range keys {
			x, _ := obj.Get(values.NewString(k))
			parts = append(parts, "("+Hx([]byte(k))+", "+CoqValue(x)+")")
		}
		return "(VObj [" + strings.Join(parts, "; ") + "])"
	case types.Binary:
		return "(VBin " + Hx([]byte(v.(values.Binary))) + ")"
	}
	return "VNone (* unknown type " + v.Type().String() + " *)"
}

func Arr(xs ...core.Value) core.Value { return values.NewArrayWith(xs...) }

func Obj(kv ...interface{}) core.Value {
	o := values.NewObject()
	for i := 0; i+1 < len(kv); i += 2 {
		o.Set(values.NewString(kv[i].(string)), kv[i+1].(core.Value))
	}
	return o
}

func Date(sec int64, nsec int64, offMin int) core.Value {
	t := time.Unix(sec, nsec)
	if offMin == -1 {
		t = t.UTC()
	} else {
		t = t.In(time.FixedZone("", offMin*60))
	}
	return values.NewDateTime(t)
}

// scalarPool: every scalar kind, with numerically equal int/float pairs,
// signed zeros, extreme floats, strings that differ only in case / bytes,
// same instants in different zones, binaries of equal length.
func ScalarPool() []core.Value {
	p := []core.Value{
		values.None, values.False, values.True,
	}
	for _, i := range []int64{0, 1, -1, 2, 7, 100, -100, 1 << 53, -(1 << 53), 1<<53 - 1, 1 << 31} {
		p = append(p, values.Int(i))
	}
	for _, f := range []float64{0.0, math.Copysign(0, -1), 1.0, -1.0, 0.5, 1.5, 2.0, 7.0, 0.1, 100.0,
		1e300, -1e300, 5e-324, -5e-324, float64(1 << 53), float64(1<<53 - 1), math.MaxFloat64, 2.2250738585072014e-308, 6.5} {
		p = append(p, values.Float(f))
	}
	// (the last ones look like values of other kinds: timestamps of dates in the pool, numbers, literals)
	for _, s := range []string{"", "a", "b", "ab", "A", "é", "\xff", "a:b", ",", "0", "1", "true", "aa", "\x00", "\U0001F600",
		"1970-01-01T00:00:00Z", "1969-12-31T23:59:59Z", "1970-01-01T00:00:01Z", "2023-11-14T20:13:20.000000005-02:00", "1.5", "-1", "null", "[1]"} {
		p = append(p, values.NewString(s))
	}
	p = append(p, Date(0, 0, -1), Date(0, 0, 0), Date(0, 0, 60), Date(0, 1, -1), Date(1, 0, -1),
		Date(-1, 999999999, -1), Date(1700000000, 5, -120), Date(253402300799, 0, -1))
	for _, b := range [][]byte{{}, {0}, {1}, {0, 0}, {97}, {255, 1, 2}} {
		p = append(p, values.NewBinary(b))
	}
	return p
}

// universe: scalars, all width<=1 arrays/objects over a sub-pool, width-2 over a
// smaller sub-pool, depth-2 nestings, plus n random deeper values.
func Universe(rng *rand.Rand, nRandom int, tier string) []core.Value {
	sc := ScalarPool()
	u := append([]core.Value{}, sc...)
	small := []core.Value{values.None, values.True, values.Int(1), values.Float(1.0), values.Int(2),
		values.NewString("a"), values.NewString("b"), Date(0, 0, -1), values.NewBinary([]byte{1})}
	u = append(u, Arr(), Obj())
	for _, x := range sc {
		u = append(u, Arr(x))
	}
	for _, x := range small {
		u = append(u, Obj("a", x), Obj("b", x))
	}
	w2 := small
	if tier != "thorough" {
		w2 = small[:6]
	}
	for _, x := range w2 {
		for _, y := range w2 {
			u = append(u, Arr(x, y))
			u = append(u, Obj("a", x, "b", y))
		}
	}
	for _, x := range w2 {
		u = append(u, Arr(Arr(x)), Arr(Obj("a", x)), Obj("a", Arr(x)), Obj("a", Obj("a", x)), Obj("a", x, "c", x), Obj("", x))
	}
	u = append(u, Arr(Arr()), Arr(Obj()), Obj("a", Arr()), Obj("a", Obj()), Arr(Arr(), Arr()), Arr(values.Int(1), values.Int(2), values.Int(3)))
	for i := 0; i < nRandom; i++ {
		u = append(u, RandValue(rng, 3))
	}
	return u
}

var KeyPool = []string{"a", "b", "c", "A", "", "a:b", "k,", "é", "zz"}

func RandScalar(rng *rand.Rand) core.Value {
	sc := ScalarPool()
	switch rng.Intn(6) {
	case 0:
		return values.Int(rng.Int63n(2001) - 1000)
	case 1:
		return values.Float(float64(rng.Int63n(4001)-2000) / 8)
	case 2:
		n := rng.Intn(4)
		b := make([]byte, n)
		for i := range b {
			b[i] = "abAB01:, \xc3\xa9"[rng.Intn(11)]
		}
		return values.NewString(string(b))
	default:
		return sc[rng.Intn(len(sc))]
	}
}

func RandValue(rng *rand.Rand, depth int) core.Value {
	if depth == 0 || rng.Intn(3) == 0 {
		return RandScalar(rng)
	}
	n := rng.Intn(4)
	if rng.Intn(2) == 0 {
		xs := make([]core.Value, n)
		for i := range xs {
			xs[i] = RandValue(rng, depth-1)
		}
		return Arr(xs...)
	}
	o := values.NewObject()
	for i := 0; i < n; i++ {
		o.Set(values.NewString(KeyPool[rng.Intn(len(KeyPool))]), RandValue(rng, depth-1))
	}
	return o
}

func KindOf(v core.Value) string { return v.Type().String() }
