// fqlharness: runs the implementation (/repo, via the replace directive) on
// generated cases and writes, per property, a Coq case file holding the cases
// and the implementation's projected observations, plus meta.json describing
// what was generated.  The model's verdict is computed by coqc on that file.
package main

import (
	"encoding/json"
	"flag"
	"fmt"
	"io"
	"os"
	"path/filepath"
	"sort"
)

type meta struct {
	Property           string                 `json:"property"`
	Tier               string                 `json:"tier"`
	Seed               int64                  `json:"seed"`
	Evaluations        int                    `json:"evaluations"`
	DistinctNontrivial int                    `json:"distinct_nontrivial"`
	Rule               string                 `json:"rule"`
	Samples            []interface{}          `json:"samples"`
	Distribution       map[string]int         `json:"distribution"`
	Files              []string               `json:"files"`
	Extra              map[string]interface{} `json:"extra,omitempty"`
	// Index: for every mismatch kind, how to turn (kind,i,j) into a readable case
	Index map[string]interface{} `json:"index,omitempty"`
}

func newMeta(prop, tier string, seed int64) *meta {
	return &meta{Property: prop, Tier: tier, Seed: seed, Distribution: map[string]int{},
		Extra: map[string]interface{}{}, Index: map[string]interface{}{}}
}

func (m *meta) count(k string) { m.Distribution[k]++ }

func (m *meta) write(dir string) {
	b, _ := json.MarshalIndent(m, "", " ")
	must(os.WriteFile(filepath.Join(dir, "meta.json"), b, 0o644))
}

func must(err error) {
	if err != nil {
		fmt.Fprintln(os.Stderr, "harness error:", err)
		os.Exit(2)
	}
}

type cmdFn func(out string, tier string, seed int64, args []string)

var commands = map[string]cmdFn{}

func main() {
	if len(os.Args) < 2 {
		names := []string{}
		for k := range commands {
			names = append(names, k)
		}
		sort.Strings(names)
		fmt.Println("usage: fqlharness <cmd> -out DIR -tier quick|thorough -seed N ; cmds:", names)
		os.Exit(2)
	}
	fs := flag.NewFlagSet(os.Args[1], flag.ExitOnError)
	out := fs.String("out", "", "output directory")
	tier := fs.String("tier", "quick", "quick|thorough")
	seed := fs.Int64("seed", 1, "PRNG seed")
	must(fs.Parse(os.Args[2:]))
	fn, ok := commands[os.Args[1]]
	if !ok {
		fmt.Fprintln(os.Stderr, "unknown command", os.Args[1])
		os.Exit(2)
	}
	if *out != "" {
		must(os.MkdirAll(*out, 0o755))
	}
	fn(*out, *tier, *seed, fs.Args())
}

var discard io.Writer = io.Discard
