package main

// C08: hash identity = structural identity; exact de-duplication.
//
// Observations taken from the implementation (projected to what the property
// fixes): the equivalence induced by Value.Hash and by values.MapHash on the
// universe (class ids, not hash values), hash/compare under every insertion
// order of each object's members, Copy/Clone of every value, and the outputs
// of RETURN DISTINCT / UniqueIterator / UNIQUE / UNION_DISTINCT /
// SORTED_UNIQUE / COLLECT on arrays with planted duplicates.  The exact 64-bit
// values go only into a drift diagnostic (meta.extra), never into the verdict.

import (
	"bufio"
	"context"
	"encoding/binary"
	"fmt"
	"math"
	"math/rand"
	"os"
	"os/exec"
	"path/filepath"
	"regexp"
	"strings"
	"time"

	. "verif/harness/common"

	"github.com/MontFerret/ferret/pkg/compiler"
	"github.com/MontFerret/ferret/pkg/runtime"
	"github.com/MontFerret/ferret/pkg/runtime/collections"
	"github.com/MontFerret/ferret/pkg/runtime/core"
	"github.com/MontFerret/ferret/pkg/runtime/expressions"
	"github.com/MontFerret/ferret/pkg/runtime/values"
	"github.com/MontFerret/ferret/pkg/runtime/values/types"
	"github.com/MontFerret/ferret/pkg/stdlib/arrays"
)

func main() {
	out, tier, seed, _ := Args()
	run(out, tier, seed)
}

func safeHash(v core.Value) (h uint64, ok bool) {
	defer func() {
		if r := recover(); r != nil {
			ok = false
		}
	}()
	return v.Hash(), true
}

func mapHash(v core.Value) (h uint64, ok bool) {
	defer func() {
		if r := recover(); r != nil {
			ok = false
		}
	}()
	return values.MapHash(map[string]core.Value{"k": v}), true
}

// membersHash: values.MapHash applied directly to the member map of an object
func membersHash(v core.Value) (h uint64, ok bool) {
	o, isObj := v.(*values.Object)
	if !isObj {
		return 0, false
	}
	defer func() {
		if r := recover(); r != nil {
			ok = false
		}
	}()
	keys, vs := objMembers(o)
	m := make(map[string]core.Value, len(keys))
	for i, k := range keys {
		m[k] = vs[i]
	}
	return values.MapHash(m), true
}

func le64(h uint64) string {
	b := make([]byte, 8)
	binary.LittleEndian.PutUint64(b, h)
	return string(b)
}

// hasDelimKey: an object one of whose keys contains ':' (the byte that follows
// a key in the hash pre-image; harmless as long as the key's length is hashed
// in front of it)
func hasDelimKey(v core.Value) bool {
	o, ok := v.(*values.Object)
	if !ok {
		return false
	}
	found := false
	o.ForEach(func(_ core.Value, k string) bool {
		if strings.ContainsAny(k, ":") {
			found = true
		}
		return true
	})
	return found
}

func objMembers(o *values.Object) (keys []string, vals []core.Value) {
	o.ForEach(func(x core.Value, k string) bool {
		keys = append(keys, k)
		vals = append(vals, x)
		return true
	})
	return
}

func permutations(n int) [][]int {
	if n == 0 {
		return [][]int{{}}
	}
	var res [][]int
	for _, p := range permutations(n - 1) {
		for pos := 0; pos <= len(p); pos++ {
			q := make([]int, 0, n)
			q = append(q, p[:pos]...)
			q = append(q, n-1)
			q = append(q, p[pos:]...)
			res = append(res, q)
		}
	}
	return res
}

// classes: index of the first entry with the same key
func classes(keys []uint64, ok []bool) []int {
	first := map[uint64]int{}
	out := make([]int, len(keys))
	for i, k := range keys {
		if !ok[i] {
			out[i] = len(keys) + i // a class of its own that matches nothing
			continue
		}
		if j, seen := first[k]; seen {
			out[i] = j
		} else {
			first[k] = i
			out[i] = i
		}
	}
	return out
}

func nList(xs []int) string {
	parts := make([]string, len(xs))
	for i, x := range xs {
		parts[i] = fmt.Sprint(x)
	}
	return "[" + strings.Join(parts, ";") + "]%N"
}

type universe struct {
	vals     []core.Value
	rendered []string
	byText   map[string]int
}

func newUniverse(vals []core.Value) *universe {
	u := &universe{vals: vals, rendered: make([]string, len(vals)), byText: map[string]int{}}
	for i, v := range vals {
		u.rendered[i] = CoqValue(v)
		if _, ok := u.byText[u.rendered[i]]; !ok {
			u.byText[u.rendered[i]] = i
		}
	}
	return u
}

// indexOf: universe index of a value produced by the implementation (by its
// canonical rendering); len(U) if it is not a universe value
func (u *universe) indexOf(v core.Value) int {
	if v == nil {
		return len(u.vals)
	}
	if i, ok := u.byText[CoqValue(v)]; ok {
		return i
	}
	return len(u.vals)
}

func (u *universe) indices(a core.Value, err error) []int {
	arr, ok := a.(*values.Array)
	if err != nil || !ok {
		return []int{len(u.vals)}
	}
	var out []int
	arr.ForEach(func(x core.Value, _ int) bool {
		out = append(out, u.indexOf(x))
		return true
	})
	return out
}

// extraValues: objects whose keys contain the delimiters, struct-identical
// duplicates built in another insertion order, and — as the LAST 2n entries —
// the pairs that collide when a key is hashed without its length:
//
//	{a: v, b: w}   and   {"a:" ++ le64(hash v) ++ ",b": w}
//
// derived from the implementation's own hash of v, for n choices of (v, w).
// They are different values: their hashes must differ and every
// de-duplicating construct must keep both.
func extraValues(rng *rand.Rand, n int) []core.Value {
	var x []core.Value
	one, two := values.Int(1), values.Int(2)
	x = append(x,
		Obj("b", two, "a", one), Obj("a", one, "b", two), // same object, two insertion orders
		Obj("a:b", one), Obj("k,", one), Obj("a", one, "k,", two), Obj("a:", one, "b", two),
		Obj("a", Obj("a:b", one)), Arr(Obj("k,", two)),
		Obj("a", one, "b", two, "c", values.Int(3), "d", values.Int(4)),
		Obj("d", values.Int(4), "c", values.Int(3), "b", two, "a", one),
		values.Float(1), values.Int(1), values.NewString("1"), Arr(values.Int(1)), Arr(values.Float(1)),
		values.Float(math.Copysign(0, -1)), values.Float(0), values.Int(0),
		values.NewString("[]"), Arr(), values.NewString("{}"), Obj(), values.NewBinary([]byte("a")), values.NewString("a"),
	)
	pool := []core.Value{values.Int(5578), values.Int(1), values.NewString("x"), values.None, Arr(values.Int(1)), values.True, values.Float(2.5),
		Obj("a", values.Int(1)), values.Int(2), values.NewString(":,")}
	// keys that splice a whole member (with and without a length field of their
	// own) into the key: near misses of the pre-image with the key length
	for i := 0; i < len(pool); i++ {
		h, _ := safeHash(pool[i])
		x = append(x, Obj("a:"+le64(h)+","+le64(1)+"b", pool[(i+1)%len(pool)]),
			Obj(le64(1)+"a:"+le64(h)+","+le64(1)+"b", pool[(i+1)%len(pool)]))
	}
	var pairs []core.Value
	for i := 0; len(pairs) < 2*n; i++ {
		v := pool[i%len(pool)]
		w := pool[rng.Intn(len(pool))]
		h, _ := safeHash(v)
		pairs = append(pairs, Obj("a", v, "b", w), Obj("a:"+le64(h)+",b", w))
	}
	return append(x, pairs...)
}

type sliceIter struct {
	vals []core.Value
	pos  int
}

func (s *sliceIter) Next(_ context.Context, scope *core.Scope) (*core.Scope, error) {
	if s.pos >= len(s.vals) {
		return nil, core.ErrNoMoreData
	}
	v := s.vals[s.pos]
	s.pos++
	if err := scope.SetVariable("x", v); err != nil {
		return nil, err
	}
	return scope, nil
}

type dedupRunner struct {
	u         *universe
	src, src2 *values.Array
	took      core.Value
	progs     map[string]*runtime.Program
	ctx       context.Context
}

func newDedupRunner(u *universe) *dedupRunner {
	d := &dedupRunner{u: u, progs: map[string]*runtime.Program{}, ctx: context.Background()}
	c := compiler.New()
	Must(c.RegisterFunction("SRC", func(_ context.Context, _ ...core.Value) (core.Value, error) { return d.src, nil }))
	Must(c.RegisterFunction("SRC2", func(_ context.Context, _ ...core.Value) (core.Value, error) { return d.src2, nil }))
	Must(c.RegisterFunction("TAKE", func(_ context.Context, args ...core.Value) (core.Value, error) {
		d.took = args[0]
		return values.None, nil
	}))
	for name, q := range map[string]string{
		"distinct":      `LET d = (FOR x IN SRC() RETURN DISTINCT x) RETURN TAKE(d)`,
		"unique":        `RETURN TAKE(UNIQUE(SRC()))`,
		"union":         `RETURN TAKE(UNION_DISTINCT(SRC(), SRC2()))`,
		"sorted_unique": `RETURN TAKE(SORTED_UNIQUE(SRC()))`,
		"collect":       `LET d = (FOR x IN SRC() COLLECT k = x RETURN k) RETURN TAKE(d)`,
		"collect_count": `LET d = (FOR x IN SRC() COLLECT k = x WITH COUNT INTO c RETURN [k, c]) RETURN TAKE(d)`,
		"collect2":      `LET d = (FOR x IN SRC() COLLECT a = x[0], b = x[1] RETURN [a, b]) RETURN TAKE(d)`,
	} {
		p, err := c.Compile(q)
		Must(err)
		d.progs[name] = p
	}
	return d
}

func (d *dedupRunner) query(name string) (res core.Value, err error) {
	defer func() {
		if r := recover(); r != nil {
			err = fmt.Errorf("panic: %v", r)
		}
	}()
	d.took = nil
	_, err = d.progs[name].Run(d.ctx, runtime.WithLog(Discard))
	if err != nil {
		return nil, err
	}
	if d.took == nil {
		return nil, fmt.Errorf("no result")
	}
	return d.took, nil
}

func guarded(f func() (core.Value, error)) (res core.Value, err error) {
	defer func() {
		if r := recover(); r != nil {
			err = fmt.Errorf("panic: %v", r)
		}
	}()
	return f()
}

// run one case: input (universe indices) -> outputs of the 8 constructs
func (d *dedupRunner) run(in []int) (outs [][]int, counts []int) {
	u := d.u
	vals := make([]core.Value, len(in))
	for i, ix := range in {
		vals[i] = u.vals[ix]
	}
	mk := func(xs []core.Value) *values.Array {
		a := values.NewArray(len(xs))
		for _, x := range xs {
			a.Push(x)
		}
		return a
	}
	d.src = mk(vals)
	half := len(vals) / 2
	// 0 RETURN DISTINCT through a query, and ForResult.Push directly must agree
	q0 := u.indices(d.query("distinct"))
	fr := u.indices(guarded(func() (core.Value, error) {
		r := expressions.NewForResult(len(vals)).Distinct(true)
		for _, x := range vals {
			r.Push(x)
		}
		return r.ToArray(), nil
	}))
	if fmt.Sprint(q0) != fmt.Sprint(fr) {
		q0 = append(q0, len(u.vals)) // disagreement between the two routes: poison
	}
	outs = append(outs, q0)
	// 1 UniqueIterator
	outs = append(outs, u.indices(guarded(func() (core.Value, error) {
		it, err := collections.NewUniqueIterator(&sliceIter{vals: vals}, "x")
		if err != nil {
			return nil, err
		}
		root, closeFn := core.NewRootScope()
		defer closeFn()
		res := values.NewArray(len(vals))
		for {
			sc, err := it.Next(d.ctx, root)
			if err != nil {
				if core.IsNoMoreData(err) {
					break
				}
				return nil, err
			}
			x, err := sc.GetVariable("x")
			if err != nil {
				return nil, err
			}
			res.Push(x)
		}
		return res, nil
	})))
	// 2 arrays.Unique, 3 UNIQUE() in a query
	outs = append(outs, u.indices(guarded(func() (core.Value, error) { return arrays.Unique(d.ctx, mk(vals)) })))
	outs = append(outs, u.indices(d.query("unique")))
	// 4 UNION_DISTINCT(first half, second half)
	d.src, d.src2 = mk(vals[:half]), mk(vals[half:])
	outs = append(outs, u.indices(d.query("union")))
	d.src = mk(vals)
	// 5 SORTED_UNIQUE, 6 COLLECT
	outs = append(outs, u.indices(d.query("sorted_unique")))
	outs = append(outs, u.indices(d.query("collect")))
	// 7 COLLECT WITH COUNT
	res, err := d.query("collect_count")
	var keys []int
	if arr, ok := res.(*values.Array); err == nil && ok {
		arr.ForEach(func(p core.Value, _ int) bool {
			pa, ok := p.(*values.Array)
			if !ok || pa.Length() != 2 {
				keys = append(keys, len(u.vals))
				counts = append(counts, 0)
				return true
			}
			keys = append(keys, u.indexOf(pa.Get(0)))
			c, _ := pa.Get(1).(values.Int)
			counts = append(counts, int(c))
			return true
		})
	} else {
		keys = []int{len(u.vals)}
	}
	outs = append(outs, keys)
	// 8 COLLECT a = x[0], b = x[1]: only when every input is a two-element array;
	// grouping by (a, b) is grouping by the pair [a, b] itself
	allPairs := len(vals) > 0
	for _, x := range vals {
		if a, ok := x.(*values.Array); !ok || a.Length() != 2 {
			allPairs = false
		}
	}
	if allPairs {
		outs = append(outs, u.indices(d.query("collect2")))
	}
	return
}

// copyObs: class of the copy and the bits hashEq(1) | compares-equal(2) | independent(4)
func copyObs(u *universe, v core.Value, clone bool) (cls int, bits int) {
	defer func() {
		if r := recover(); r != nil {
			cls, bits = len(u.vals)+1, 0
		}
	}()
	var c core.Value
	if clone {
		cl, ok := v.(core.Cloneable)
		if !ok {
			return len(u.vals), 15
		}
		c = cl.Clone()
	} else {
		c = v.Copy()
	}
	cls = u.indexOf(c)
	h0, _ := safeHash(v)
	if h1, ok := safeHash(c); ok && h1 == h0 {
		bits |= 1
	}
	if v.Compare(c) == 0 && c.Compare(v) == 0 {
		bits |= 2
	}
	// independence: changing the copy must not change the original
	before := CoqValue(v)
	switch cv := c.(type) {
	case *values.Array:
		if clone && cv.Length() > 0 {
			mutate(cv.Get(0))
		}
		cv.Push(values.NewString("__pushed"))
	case *values.Object:
		if clone {
			_, vs := objMembers(cv)
			if len(vs) > 0 {
				mutate(vs[0])
			}
		}
		cv.Set(values.NewString("__set"), values.Int(1))
	}
	h2, _ := safeHash(v)
	if CoqValue(v) == before && h2 == h0 {
		bits |= 4
	}
	if hashFollowsContent(v) {
		bits |= 8
	}
	return
}

// hashFollowsContent: hash a private deep copy, change a container nested in it
// in place (the Go API allows that), hash again: the second hash must be the hash
// of a freshly built value with the new content (no stale cached hash anywhere on
// the path), and so must the hash of a container two levels up.
func hashFollowsContent(v core.Value) bool {
	cl, ok := v.(core.Cloneable)
	if !ok {
		return true
	}
	c := cl.Clone()
	outer := values.NewArrayWith(c) // one more level: [c]
	safeHash(c)
	safeHash(outer)
	var inner core.Value
	switch cv := c.(type) {
	case *values.Array:
		cv.ForEach(func(x core.Value, _ int) bool {
			if _, ok := x.(core.Cloneable); ok && x.Type().String() != "none" && inner == nil {
				inner = x
			}
			return true
		})
	case *values.Object:
		keys, vs := objMembers(cv)
		_ = keys
		for _, x := range vs {
			if _, ok := x.(core.Cloneable); ok && x.Type().String() != "none" && inner == nil {
				inner = x
			}
		}
	}
	if inner == nil {
		return true
	}
	mutate(inner)
	h1, ok1 := safeHash(c)
	o1, ok2 := safeHash(outer)
	fresh := c.(core.Cloneable).Clone()
	hf, ok3 := safeHash(fresh)
	of, ok4 := safeHash(values.NewArrayWith(fresh))
	return ok1 && ok2 && ok3 && ok4 && h1 == hf && o1 == of
}

func mutate(x core.Value) {
	switch xv := x.(type) {
	case *values.Array:
		xv.Push(values.NewString("__nested"))
	case *values.Object:
		xv.Set(values.NewString("__nested"), values.Int(1))
	}
}

// writeBlock writes U and the class / permutation / copy observations.
func writeBlock(w *bufio.Writer, u *universe, m *Meta, maxPermKeys int, withU bool) (hexH, hexM, hexO []string, pairs int) {
	n := len(u.vals)
	if withU {
		fmt.Fprintln(w, "Definition U : list value := [")
		for i, r := range u.rendered {
			sep := ";"
			if i == n-1 {
				sep = ""
			}
			fmt.Fprintf(w, " %s%s\n", r, sep)
		}
		fmt.Fprintln(w, "].")
	}
	hs, ms, os := make([]uint64, n), make([]uint64, n), make([]uint64, n)
	hok, mok, ook := make([]bool, n), make([]bool, n), make([]bool, n)
	nObj := 0
	for i, v := range u.vals {
		hs[i], hok[i] = safeHash(v)
		ms[i], mok[i] = mapHash(v)
		os[i], ook[i] = membersHash(v)
		hexH = append(hexH, fmt.Sprintf("%016x", hs[i]))
		hexM = append(hexM, fmt.Sprintf("%016x", ms[i]))
		if v.Type() == types.Object {
			nObj++
			hexO = append(hexO, fmt.Sprintf("%016x", os[i]))
		} else {
			hexO = append(hexO, "")
		}
	}
	ch, cm, co := classes(hs, hok), classes(ms, mok), classes(os, ook)
	fmt.Fprintf(w, "Definition CH : list N := %s.\nDefinition CM : list N := %s.\nDefinition CO : list N := %s.\n", nList(ch), nList(cm), nList(co))
	pairs = n * (n - 1) / 2
	m.Evaluations += 2*pairs + nObj*(nObj-1)/2
	merged := 0
	for i := range ch {
		if ch[i] != i {
			merged++
		}
	}
	m.Distribution["hash-class:shared-with-earlier-entry"] += merged
	m.Distribution["hash-class:own"] += n - merged
	// permutations
	var pm []string
	for i, v := range u.vals {
		o, ok := v.(*values.Object)
		if !ok || int(o.Length()) < 2 || int(o.Length()) > maxPermKeys {
			continue
		}
		keys, vs := objMembers(o)
		hEq, cEq := true, true
		func() {
			defer func() {
				if r := recover(); r != nil {
					hEq, cEq = false, false
				}
			}()
			for _, p := range permutations(len(keys)) {
				q := values.NewObject()
				for _, k := range p {
					q.Set(values.NewString(keys[k]), vs[k])
				}
				if q.Hash() != hs[i] {
					hEq = false
				}
				if q.Compare(v) != 0 || v.Compare(q) != 0 {
					cEq = false
				}
				m.Evaluations++
			}
		}()
		pm = append(pm, fmt.Sprintf("(%d%%N,%v,%v)", i, hEq, cEq))
		m.Count(fmt.Sprintf("permutations:keys=%d", len(keys)))
	}
	fmt.Fprintf(w, "Definition PM : list (N * bool * bool) := [%s].\n", strings.Join(pm, ";"))
	return
}

func writeCopies(w *bufio.Writer, u *universe, m *Meta) {
	n := len(u.vals)
	cp, bc, cl, bl := make([]int, n), make([]int, n), make([]int, n), make([]int, n)
	for i, v := range u.vals {
		cp[i], bc[i] = copyObs(u, v, false)
		cl[i], bl[i] = copyObs(u, v, true)
		m.Evaluations += 2
		if cl[i] != n {
			m.Count("clone:" + KindOf(v))
		}
	}
	fmt.Fprintf(w, "Definition CP : list N := %s.\nDefinition BC : list N := %s.\n", nList(cp), nList(bc))
	fmt.Fprintf(w, "Definition CL : list N := %s.\nDefinition BL : list N := %s.\n", nList(cl), nList(bl))
}

func findTheories() string {
	dir, _ := os.Getwd()
	for i := 0; i < 8; i++ {
		p := filepath.Join(dir, "coq", "theories")
		if st, err := os.Stat(filepath.Join(p, "Check", "C08.vo")); err == nil && !st.IsDir() {
			return p
		}
		dir = filepath.Dir(dir)
	}
	return ""
}

func coqc(dir, theories, file string, timeout time.Duration) (string, error) {
	ctx, cancel := context.WithTimeout(context.Background(), timeout)
	defer cancel()
	cmd := exec.CommandContext(ctx, "coqc", "-Q", theories, "Ferret", file)
	cmd.Dir = dir
	out, err := cmd.CombinedOutput()
	return string(out), err
}

func run(out, tier string, seed int64) {
	rng := rand.New(rand.NewSource(seed))
	nRandom, nWitness, nDedup, maxPerm, nBlocks, blockSize := 150, 7, 400, 4, 0, 0
	if tier == "thorough" {
		nRandom, nWitness, nDedup, maxPerm, nBlocks, blockSize = 800, 21, 4000, 5, 40, 500
	}
	m := NewMeta("C08", tier, seed)
	m.Rule = "universe = the C07 universe (all nine kinds, width<=2 depth<=2 containers, seeded random values) + objects with delimiter keys + same objects in other insertion orders + keys that splice whole members into a key + the pairs {a:v,b:w} / {\"a:\"+le64(hash v)+\",b\": w} that collide when keys are hashed without their length, derived from the implementation's own hash for several v, w (they must hash differently and survive every de-duplicating construct); one evaluation = one unordered pair (hash-equal? vs structurally identical?, for Value.Hash, for MapHash of {k: v}, and for MapHash of the member maps of two objects), one insertion permutation, one Copy/Clone, or one de-duplicating construct on one array; non-trivial = the pair's two renderings differ / the array has at least one planted duplicate; distinct = distinct rendered pairs + distinct (construct, input) texts"
	vals := Universe(rng, nRandom, tier)
	vals = append(vals, extraValues(rng, nWitness)...)
	// large binaries that differ in one byte far from both ends (and an equal copy): a hash
	// that samples its input merges them.  Written to the model in closed form.
	compact := map[int]string{}
	for _, bb := range [][3]int{{9001, 4500, 1}, {9001, 4500, 2}, {9001, 4500, 1}, {8193, 4200, 3}, {8193, 4200, 4}, {70000, 35000, 5}, {70000, 35001, 5}} {
		b := make([]byte, bb[0])
		for i := range b {
			b[i] = 7
		}
		b[bb[1]] = byte(bb[2])
		compact[len(vals)] = fmt.Sprintf("(VBin (List.repeat 7%%N (N.to_nat %d) ++ [%d%%N] ++ List.repeat 7%%N (N.to_nat %d)))", bb[1], bb[2], bb[0]-bb[1]-1)
		vals = append(vals, values.NewBinary(b))
	}
	u := newUniverse(vals)
	for _, v := range vals {
		m.Count("kind:" + KindOf(v))
	}
	theories := findTheories()

	// ---- universe file (compiled here so that the case files can share it)
	uf, err := os.Create(filepath.Join(out, "c08u.v"))
	Must(err)
	w := bufio.NewWriterSize(uf, 1<<20)
	fmt.Fprintln(w, "From Ferret Require Import Value.")
	fmt.Fprintln(w, "Definition U : list value := [")
	for i, r := range u.rendered {
		sep := ";"
		if i == len(vals)-1 {
			sep = ""
		}
		if c, ok := compact[i]; ok {
			r = c
		}
		fmt.Fprintf(w, " %s%s\n", r, sep)
	}
	fmt.Fprintln(w, "].")
	Must(w.Flush())
	Must(uf.Close())
	uOK := false
	if theories != "" {
		if o, err := coqc(out, theories, "c08u.v", 10*time.Minute); err == nil {
			uOK = true
		} else {
			fmt.Fprintln(os.Stderr, "coqc c08u.v:", err, o)
		}
	}

	// ---- classes, permutations
	f, err := os.Create(filepath.Join(out, "cases.v"))
	Must(err)
	w = bufio.NewWriterSize(f, 1<<20)
	fmt.Fprintln(w, "From Ferret Require Import Hash Check.C08.")
	if uOK {
		fmt.Fprintln(w, "Require Import c08u.")
	}
	hexH, hexM, hexO, _ := writeBlock(w, u, m, maxPerm, !uOK)

	// distinct non-trivial pairs
	texts := map[string]struct{}{}
	for _, r := range u.rendered {
		texts[r] = struct{}{}
	}
	dt := len(texts)
	m.DistinctNontrivial = dt * (dt - 1) / 2

	// ---- de-duplicating constructs
	dr := newDedupRunner(u)
	confusable := []int{}
	for i, v := range vals {
		switch v.Type() {
		case types.Int, types.Float, types.Boolean, types.None, types.DateTime, types.Binary:
			confusable = append(confusable, i)
		default:
			if i%3 == 0 {
				confusable = append(confusable, i)
			}
		}
	}
	// the pairs that collide without the key length sit at the end of U
	witnessStart := len(vals) - 2*nWitness
	var dIdx []interface{}
	dcases := []string{}
	dDistinct := map[string]struct{}{}
	// values that compare equal in the sort order without being structurally
	// identical (1 and 1.0, 0.0 and -0.0, [0] and [0.0], same instant in two
	// zones, binaries of one length): a de-duplicator that decides by order
	// instead of by hash merges them
	var tieGroups [][]int
	{
		lim := len(vals)
		if lim > 260 {
			lim = 260
		}
		used := map[int]bool{}
		for i := 0; i < lim; i++ {
			if used[i] {
				continue
			}
			g := []int{i}
			for j := i + 1; j < lim; j++ {
				if !used[j] && u.rendered[i] != u.rendered[j] && safeCompareEq(vals[i], vals[j]) {
					g = append(g, j)
					used[j] = true
				}
			}
			if len(g) > 1 {
				tieGroups = append(tieGroups, g)
			}
		}
	}
	m.Extra["tie_groups"] = len(tieGroups)
	// two-element arrays of the universe, each with its swapped twin when present
	var pairIdx [][]int
	{
		byText := map[string]int{}
		for i := range vals {
			byText[u.rendered[i]] = i
		}
		for i, v := range vals {
			if a, ok := v.(*values.Array); ok && a.Length() == 2 {
				g := []int{i}
				sw := values.NewArrayWith(a.Get(1), a.Get(0))
				if j, ok := byText[CoqValue(sw)]; ok && j != i {
					g = append(g, j)
				}
				pairIdx = append(pairIdx, g)
			}
		}
	}
	constructs := []string{"RETURN DISTINCT", "UniqueIterator", "arrays.Unique", "UNIQUE", "UNION_DISTINCT", "SORTED_UNIQUE", "COLLECT", "COLLECT WITH COUNT", "COLLECT a = x[0], b = x[1]"}
	for k := 0; k < nDedup; k++ {
		var in []int
		tags := []string{}
		withWitness := k%20 == 19 // dedicated cases contain one of those pairs: both members must be kept
		poolN := 1 + rng.Intn(4)
		if withWitness && poolN < 2 {
			poolN = 2
		}
		pool := make([]int, poolN)
		tie := []int(nil)
		if !withWitness && len(tieGroups) > 0 && k%3 == 0 {
			tie = tieGroups[rng.Intn(len(tieGroups))]
			if poolN < 2 {
				poolN = 2
				pool = make([]int, poolN)
			}
			tags = append(tags, "order-ties-in-input")
		}
		pairs := k%7 == 3 && len(pairIdx) > 0 && !withWitness
		if pairs {
			tie = nil
			tags = append(tags, "two-key-collect")
		}
		for i := range pool {
			switch {
			case pairs:
				g := pairIdx[rng.Intn(len(pairIdx))]
				pool[i] = g[rng.Intn(len(g))]
				if i == 1 && len(pairIdx[0]) > 0 {
					// make sure a swapped twin of pool[0] is present when it exists
					for _, gg := range pairIdx {
						if gg[0] == pool[0] && len(gg) > 1 {
							pool[i] = gg[1]
						}
					}
				}
			case tie != nil && i < len(tie):
				pool[i] = tie[i]
			case withWitness && i == 0:
				pool[i] = witnessStart + 2*rng.Intn(nWitness)
			case withWitness && i == 1:
				pool[i] = pool[0] + 1
			case rng.Intn(2) == 0:
				pool[i] = confusable[rng.Intn(len(confusable))]
			default:
				pool[i] = rng.Intn(witnessStart)
			}
		}
		n := rng.Intn(9)
		if withWitness && n < 3 {
			n = 3
		}
		for i := 0; i < n; i++ {
			in = append(in, pool[rng.Intn(poolN)])
		}
		if withWitness {
			in[0], in[1] = pool[0], pool[1]
		}
		// which pairs of the input collide in the implementation although they differ?
		collide, delimOnly := 0, true
		for i := range in {
			for j := i + 1; j < len(in); j++ {
				a, b := vals[in[i]], vals[in[j]]
				ha, _ := safeHash(a)
				hb, _ := safeHash(b)
				if ha == hb && u.rendered[in[i]] != u.rendered[in[j]] {
					collide++
					if !(a.Type() == types.Object && b.Type() == types.Object && (hasDelimKey(a) || hasDelimKey(b))) {
						delimOnly = false
					}
				}
			}
		}
		if collide > 0 && delimOnly {
			tags = append(tags, "obj-key-delim-collision-in-input")
		}
		planted := false
		seen := map[string]bool{}
		for _, ix := range in {
			if seen[u.rendered[ix]] {
				planted = true
			}
			seen[u.rendered[ix]] = true
		}
		outs, counts := dr.run(in)
		m.Evaluations += len(outs)
		m.Count(fmt.Sprintf("dedup:len=%d", len(in)))
		if planted {
			m.Count("dedup:with-planted-duplicate")
			for j := range outs {
				dDistinct[fmt.Sprint(j, in)] = struct{}{}
			}
		}
		if withWitness {
			m.Count("dedup:with-former-collision-pair")
		}
		ostr := make([]string, len(outs))
		for i, o := range outs {
			ostr[i] = nList(o)
		}
		dcases = append(dcases, fmt.Sprintf(" (%s, [%s], %s)", nList(in), strings.Join(ostr, ";"), nList(counts)))
		dIdx = append(dIdx, map[string]interface{}{"input": in, "outs": outs, "counts": counts, "tags": tags})
	}
	m.DistinctNontrivial += len(dDistinct)

	// ---- Copy / Clone (last: they mutate copies)
	writeCopies(w, u, m)
	fmt.Fprintln(w, "Definition D : list (list N * list (list N) * list N) := [")
	fmt.Fprintln(w, strings.Join(dcases, ";\n"))
	fmt.Fprintln(w, "].")
	fmt.Fprintln(w, "Definition M := Eval vm_compute in mismatches U CH CM CO PM CP BC CL BL D.")
	fmt.Fprintln(w, "Print M.")
	Must(w.Flush())
	Must(f.Close())
	m.Files = []string{"cases.v"}

	// ---- blocks of random deeper values (thorough): self-contained files
	blocks := []interface{}{}
	for b := 0; b < nBlocks; b++ {
		bv := make([]core.Value, 0, blockSize)
		for i := 0; i < blockSize; i++ {
			v := RandValue(rng, 4)
			bv = append(bv, v)
			if i%10 == 0 { // a fresh, separately built copy: must land in the same class
				bv = append(bv, v.Copy())
			}
		}
		bu := newUniverse(bv)
		name := fmt.Sprintf("block%02d.v", b)
		bf, err := os.Create(filepath.Join(out, name))
		Must(err)
		bw := bufio.NewWriterSize(bf, 1<<20)
		fmt.Fprintln(bw, "From Ferret Require Import Hash Check.C08.")
		writeBlock(bw, bu, m, maxPerm, true)
		writeCopies(bw, bu, m)
		fmt.Fprintln(bw, "Definition M := Eval vm_compute in mismatches_block U CH CM CO PM CP BC CL BL.")
		fmt.Fprintln(bw, "Print M.")
		Must(bw.Flush())
		Must(bf.Close())
		m.Files = append(m.Files, name)
		bt := map[string]struct{}{}
		for _, r := range bu.rendered {
			bt[r] = struct{}{}
		}
		m.DistinctNontrivial += len(bt) * (len(bt) - 1) / 2
		delim := make([]bool, len(bv))
		for i, v := range bv {
			delim[i] = hasDelimKey(v)
			m.Count("block-kind:" + KindOf(v))
		}
		blocks = append(blocks, map[string]interface{}{"file": name, "U": bu.rendered, "Ukind": kinds(bv), "delim": delim})
	}

	// ---- drift diagnostic: exact 64-bit values against the FNV-1a model
	m.Extra["hash_value_drift"] = "not evaluated (coqc or Check/C08.vo not found from the harness)"
	if uOK {
		df, err := os.Create(filepath.Join(out, "drift.v"))
		Must(err)
		dw := bufio.NewWriter(df)
		fmt.Fprintln(dw, "From Ferret Require Import Hash Check.C08.\nRequire Import c08u.")
		fmt.Fprintf(dw, "Definition H : list string := [\"%s\"]%%string.\n", strings.Join(hexH, "\";\""))
		fmt.Fprintf(dw, "Definition HM : list string := [\"%s\"]%%string.\n", strings.Join(hexM, "\";\""))
		fmt.Fprintf(dw, "Definition HO : list string := [\"%s\"]%%string.\n", strings.Join(hexO, "\";\""))
		fmt.Fprintln(dw, "Definition DR := Eval vm_compute in (drift U H, drift_map U HM, drift_members U HO).\nPrint DR.")
		Must(dw.Flush())
		Must(df.Close())
		o, err := coqc(out, theories, "drift.v", 10*time.Minute)
		mm := regexp.MustCompile(`DR = \((\d+)%N, (\d+)%N, (\d+)%N\)`).FindStringSubmatch(strings.Join(strings.Fields(o), " "))
		if err == nil && mm != nil {
			m.Extra["hash_value_drift"] = map[string]interface{}{
				"values_compared":                   len(vals),
				"Value.Hash_differs_from_FNV_model": mm[1],
				"MapHash_differs_from_FNV_model":    mm[2],
				"MapHash_of_object_members_differs": mm[3],
				"note":                              "diagnostic only: a different hash function with the same induced equivalence keeps the property",
			}
		} else {
			m.Extra["hash_value_drift"] = "drift.v could not be evaluated: " + fmt.Sprint(err)
		}
	}

	delim := make([]bool, len(vals))
	for i, v := range vals {
		delim[i] = hasDelimKey(v)
	}
	m.Index["U"] = u.rendered
	m.Index["Ukind"] = kinds(vals)
	m.Index["delim"] = delim
	m.Index["D"] = dIdx
	m.Index["constructs"] = constructs
	m.Index["blocks"] = blocks
	for _, i := range []int{5, len(vals) / 3, witnessStart, witnessStart + 1} {
		h, _ := safeHash(vals[i])
		m.Samples = append(m.Samples, map[string]string{"value": u.rendered[i], "impl_hash": fmt.Sprintf("%016x", h)})
	}
	if len(dIdx) > 3 {
		m.Samples = append(m.Samples, dIdx[3])
	}
	m.Write(out)
}

func safeCompareEq(a, b core.Value) (eq bool) {
	defer func() {
		if recover() != nil {
			eq = false
		}
	}()
	return a.Compare(b) == 0 && b.Compare(a) == 0
}

func kinds(xs []core.Value) []string {
	k := make([]string, len(xs))
	for i, x := range xs {
		k[i] = KindOf(x)
	}
	return k
}
