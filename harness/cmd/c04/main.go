package main

// C04: the FOR pipeline against the list-level specifications of its clauses.

import (
	"bufio"
	"fmt"
	"math/rand"
	"os"
	"path/filepath"
	"strings"

	"github.com/MontFerret/ferret/pkg/compiler"

	cm "verif/harness/common"
	. "verif/harness/fqlast"
	"verif/harness/fqlrun"
)

var x = Var("x")

func preds() []*E {
	return []*E{
		Cmp(">", x, Int(1)), Cmp("==", Math("%", x, Int(2)), Int(0)), Cmp("==", Member(x, Seg{Name: "a"}), Int(1)),
		Cmp("!=", x, None()), In(false, x, Arr(Int(1), Int(2), Str("a"))), Bool(true), x, Un("!", x),
		Cmp("<=", Member(x, Seg{Name: "b"}), Int(1)), Bool(false), Cmp(">=", x, Float(1.5)),
	}
}
func keys() []*E {
	return []*E{
		x, Math("%", x, Int(2)), Math("%", x, Int(3)), Member(x, Seg{Name: "a"}), Member(x, Seg{Name: "b"}),
		Cmp("==", x, None()), Math("*", x, Int(0)), Un("-", x),
	}
}
func projs() []*E {
	return []*E{x, Math("+", x, Int(1)), Member(x, Seg{Name: "a"}), Arr(x, Int(0)), Str("k")}
}

func sources(rng *rand.Rand, tier string) [][]interface{} {
	o := func(a, b interface{}) map[string]interface{} { return map[string]interface{}{"a": a, "b": b} }
	s := [][]interface{}{
		{}, {1}, {2, 1}, {1, 1}, {3, 1, 2}, {2, 2, 1, 1}, {1, 2, 3, 4, 5}, {5, 4, 3, 2, 1, 0},
		{1, 1.0, 2, 2.0, 1}, {"b", "a", "b", "c"}, {nil, true, 0, "", 1.5, "a"},
		{o(1, 2), o(2, 1), o(1, 1), o(2, 2)}, {o(1, "x"), o(1, "y"), o(nil, 1), 7},
		{[]interface{}{1}, []interface{}{}, []interface{}{1}, []interface{}{1, 2}},
		{3, "3", 3.0, []interface{}{3}, o(3, 3), nil, true, false},
		{0, -1, -2, 1, 2, -1},
	}
	// beyond 12 elements sort.Slice stops being an insertion sort: stability and
	// grouping need long sources with many tied keys
	for _, ln := range []int{13, 20, 40} {
		a := make([]interface{}, ln)
		b := make([]interface{}, ln)
		for j := range a {
			a[j] = o((j*7)%3, j)
			b[j] = (j * 5) % 4
		}
		s = append(s, a, b)
	}
	n := 6
	if tier == "thorough" {
		n = 60
	}
	pool := []interface{}{0, 1, 2, 3, -1, 1.5, 2.0, "a", "b", nil, true, o(1, 1), o(2, 1), o(1, 2), []interface{}{1}}
	for i := 0; i < n; i++ {
		l := rng.Intn(6)
		if tier == "thorough" {
			l = rng.Intn(13)
		}
		a := make([]interface{}, l)
		for j := range a {
			a[j] = pool[rng.Intn(len(pool))]
		}
		s = append(s, a)
	}
	return s
}

type clause struct {
	coq string
	fql string
}

func main() {
	out, tier, seed, _ := cm.Args()
	rng := rand.New(rand.NewSource(seed))
	m := cm.NewMeta("C04", tier, seed)
	m.Rule = "source arrays (empty, singletons, duplicates, mixed types, nested values; fixed pool + seeded random) x clause chains: every LIMIT offset,count in [0,n+2] (int and float limits via parameters), FILTER from a predicate family, SORT with 1-3 keys in both directions with ties, RETURN DISTINCT, all six COLLECT forms, chains of clauses in random legal order, LIMIT after COLLECT; a case is non-trivial when the chain has at least one clause; distinct = distinct (query text, source)"
	c := compiler.New()
	fqlrun.Register(c)
	srcs := sources(rng, tier)
	P, K, J := preds(), keys(), projs()
	type cs struct {
		src    []interface{}
		chain  []clause
		tail   clause
		after  string // coq option
		afql   string
		params map[string]interface{}
	}
	var cases []cs
	lim := func(o, c int, viaParam int) (clause, map[string]interface{}) {
		coq := fmt.Sprintf("(ClLimit (%d) (%d))", o, c)
		switch viaParam {
		case 1:
			return clause{coq, "LIMIT @o, @c"}, map[string]interface{}{"o": o, "c": c}
		case 2:
			return clause{coq, "LIMIT @o, @c"}, map[string]interface{}{"o": float64(o), "c": float64(c)}
		case 3: // fractional floats are truncated, not rounded
			return clause{coq, "LIMIT @o, @c"}, map[string]interface{}{"o": float64(o) + 0.5, "c": float64(c) + 0.75}
		}
		if o == 0 && rng.Intn(2) == 0 {
			return clause{coq, fmt.Sprintf("LIMIT %d", c)}, nil
		}
		return clause{coq, fmt.Sprintf("LIMIT %d, %d", o, c)}, nil
	}
	filt := func() clause {
		p := P[rng.Intn(len(P))]
		return clause{"(ClFilter " + p.Coq() + ")", "FILTER " + noParen(p)}
	}
	srt := func() clause {
		nk := 1 + rng.Intn(3)
		var cq, fq []string
		for i := 0; i < nk; i++ {
			k := K[rng.Intn(len(K))]
			desc := rng.Intn(2) == 0
			cq = append(cq, fmt.Sprintf("(%s, %v)", k.Coq(), desc))
			d := ""
			if desc {
				d = " DESC"
			} else if rng.Intn(2) == 0 {
				d = " ASC"
			}
			fq = append(fq, noParen(k)+d)
		}
		return clause{"(ClSort [" + strings.Join(cq, "; ") + "])", "SORT " + strings.Join(fq, ", ")}
	}
	gkeys := func() ([]string, []string, []string) {
		ng := 1 + rng.Intn(2)
		var cq, defs, names []string
		for i := 0; i < ng; i++ {
			k := K[rng.Intn(len(K))]
			cq = append(cq, k.Coq())
			names = append(names, fmt.Sprintf("g%d", i+1))
			defs = append(defs, fmt.Sprintf("g%d = %s", i+1, k.FQL()))
		}
		return cq, defs, names
	}
	tailOf := func(form int) clause {
		switch form {
		case 0:
			e := J[rng.Intn(len(J))]
			d := rng.Intn(3) == 0
			s := "RETURN "
			if d {
				s += "DISTINCT "
			}
			return clause{fmt.Sprintf("(TlReturn %v %s)", d, e.Coq()), s + noParen(e)}
		case 1:
			return clause{"TlCount", "COLLECT WITH COUNT INTO c $AFTER RETURN c"}
		case 2:
			cq, defs, names := gkeys()
			return clause{"(TlGroup [" + strings.Join(cq, "; ") + "])", "COLLECT " + strings.Join(defs, ", ") + " $AFTER RETURN [" + strings.Join(names, ", ") + "]"}
		case 3:
			cq, defs, names := gkeys()
			return clause{"(TlGroupCount [" + strings.Join(cq, "; ") + "])", "COLLECT " + strings.Join(defs, ", ") + " WITH COUNT INTO c $AFTER RETURN [" + strings.Join(names, ", ") + ", c]"}
		case 4:
			cq, defs, names := gkeys()
			if rng.Intn(2) == 0 {
				return clause{"(TlGroupInto [" + strings.Join(cq, "; ") + "] None)", "COLLECT " + strings.Join(defs, ", ") + " INTO xs $AFTER RETURN [" + strings.Join(names, ", ") + ", xs]"}
			}
			p := J[rng.Intn(len(J))]
			return clause{"(TlGroupInto [" + strings.Join(cq, "; ") + "] (Some " + p.Coq() + "))", "COLLECT " + strings.Join(defs, ", ") + " INTO xs = " + p.FQL() + " $AFTER RETURN [" + strings.Join(names, ", ") + ", xs]"}
		case 5:
			cq, defs, names := gkeys()
			p := J[rng.Intn(len(J))]
			return clause{"(TlGroupAggr [" + strings.Join(cq, "; ") + "] " + p.Coq() + ")", "COLLECT " + strings.Join(defs, ", ") + " AGGREGATE a = ARR(" + p.FQL() + ") $AFTER RETURN [" + strings.Join(names, ", ") + ", a]"}
		}
		p := J[rng.Intn(len(J))]
		return clause{"(TlAggr " + p.Coq() + ")", "COLLECT AGGREGATE a = ARR(" + p.FQL() + ") $AFTER RETURN a"}
	}
	plainRet := clause{"(TlReturn false (EVar (hx \"78\")))", "RETURN x"}
	// 1. LIMIT exhaustively: every offset and count in [0, n+2]
	for si, s := range srcs {
		if tier != "thorough" && si >= 12 {
			break
		}
		n := len(s)
		if n > 12 {
			continue
		}
		for o := 0; o <= n+2; o++ {
			for cnt := 0; cnt <= n+2; cnt++ {
				l, p := lim(o, cnt, (o+cnt+si)%4)
				cases = append(cases, cs{src: s, chain: []clause{l}, tail: plainRet, after: "None", params: p})
				m.Count("limit-exhaustive")
			}
		}
	}
	// 2. every predicate / key / tail form on every source
	for _, s := range srcs {
		for _, p := range P {
			cases = append(cases, cs{src: s, chain: []clause{{"(ClFilter " + p.Coq() + ")", "FILTER " + noParen(p)}}, tail: plainRet, after: "None"})
			m.Count("filter")
		}
		for i := 0; i < 8; i++ {
			cases = append(cases, cs{src: s, chain: []clause{srt()}, tail: plainRet, after: "None"})
			m.Count("sort")
		}
		for form := 0; form <= 6; form++ {
			reps := 2
			for r := 0; r < reps; r++ {
				c0 := cs{src: s, tail: tailOf(form), after: "None"}
				if form > 0 && rng.Intn(3) == 0 {
					o, cn := rng.Intn(3), rng.Intn(4)
					c0.after = fmt.Sprintf("(Some ((%d), (%d)))", o, cn)
					c0.afql = fmt.Sprintf("LIMIT %d, %d", o, cn)
				}
				cases = append(cases, c0)
				m.Count(fmt.Sprintf("tail-form%d", form))
			}
		}
	}
	// 3. random chains in random order
	nchains := 300
	if tier == "thorough" {
		nchains = 6000
	}
	for i := 0; i < nchains; i++ {
		s := srcs[rng.Intn(len(srcs))]
		nc := 1 + rng.Intn(4)
		c0 := cs{src: s, after: "None", params: nil}
		for j := 0; j < nc; j++ {
			switch rng.Intn(3) {
			case 0:
				c0.chain = append(c0.chain, filt())
			case 1:
				c0.chain = append(c0.chain, srt())
			default:
				l, _ := lim(rng.Intn(4), rng.Intn(5), 0)
				c0.chain = append(c0.chain, l)
			}
		}
		c0.tail = tailOf(rng.Intn(7))
		cases = append(cases, c0)
		m.Count(fmt.Sprintf("chain-len%d", nc))
	}

	per := 400
	distinct := map[string]struct{}{}
	var files []string
	var idx []interface{}
	var w *bufio.Writer
	var f *os.File
	for i, cse := range cases {
		if i%per == 0 {
			name := fmt.Sprintf("cases%03d.v", len(files))
			var err error
			f, err = os.Create(filepath.Join(out, name))
			cm.Must(err)
			w = bufio.NewWriterSize(f, 1<<20)
			fmt.Fprintln(w, "From Ferret Require Import Eval Check.C04.")
			fmt.Fprintln(w, "Definition cases : list (list value * list cl * tl * option (Z * Z) * option value) := [")
			files = append(files, name)
		}
		var parts []string
		var cq []string
		for _, cl := range cse.chain {
			parts = append(parts, cl.fql)
			cq = append(cq, cl.coq)
		}
		q := "FOR x IN @src " + strings.Join(parts, " ") + " " + strings.Replace(cse.tail.fql, "$AFTER", cse.afql, 1)
		q = strings.Join(strings.Fields(q), " ")
		params := map[string]interface{}{"src": cse.src}
		for k, v := range cse.params {
			params[k] = v
		}
		// every third case: the compiled program is run twice and the second result is the one compared
		// (a clause that keeps state between executions of the same program shows up there)
		var o fqlrun.Outcome
		if prog, cerr := c.Compile(q); cerr == nil && prog != nil && i%3 == 0 {
			fqlrun.RunProgram(prog, params, -1, false)
			o = fqlrun.RunProgram(prog, params, -1, false)
		} else {
			o = fqlrun.Run(c, q, params, -1, false)
		}
		impl := "None"
		if o.Class == "ok" {
			if v, err := fqlrun.JSONToCoq(o.JSON); err == nil {
				impl = "(Some " + v + ")"
			}
		}
		m.Count("outcome:" + o.Class)
		srcCoq := cm.CoqValue(valuesParse(cse.src))
		srcCoq = strings.TrimSuffix(strings.TrimPrefix(srcCoq, "(VArr "), ")")
		sep := ";"
		if i%per == per-1 || i == len(cases)-1 {
			sep = ""
		}
		fmt.Fprintf(w, " (%s, [%s], %s, %s, %s)%s\n", srcCoq, strings.Join(cq, "; "), cse.tail.coq, cse.after, impl, sep)
		idx = append(idx, map[string]interface{}{"file": files[len(files)-1], "i": i % per, "query": q, "src": cse.src, "params": cse.params, "class": o.Class, "json": string(o.JSON), "err": o.Err})
		m.Evaluations++
		distinct[q+"|"+srcCoq] = struct{}{}
		if i%977 == 0 {
			m.Samples = append(m.Samples, map[string]interface{}{"query": q, "src": cse.src, "impl": string(o.JSON)})
		}
		if i%per == per-1 || i == len(cases)-1 {
			fmt.Fprintln(w, "].")
			fmt.Fprintln(w, "Definition M := Eval vm_compute in mismatches cases.")
			fmt.Fprintln(w, "Print M.")
			cm.Must(w.Flush())
			cm.Must(f.Close())
		}
	}
	m.DistinctNontrivial = len(distinct)
	m.Files = files
	m.Index["cases"] = idx
	m.Write(out)
}

// FILTER (x) / SORT (x) are read as function calls by the grammar (recorded
// finding); keep a leading parenthesis away from the clause keyword.
func noParen(e *E) string {
	s := e.FQL()
	if strings.HasPrefix(s, "(") {
		return "true AND " + s
	}
	return s
}
