package main

// C19: the HTTP driver sends exactly what was configured and obeys status
// rules.  A loopback server records every request and answers from a script;
// configurations (driver options x DOCUMENT parameters), all statuses 200-599 x
// rule sets, response exposure and cancellation on a slow response are
// observed and written next to the configuration for coq/theories/Check/C19.v.
// The implementation runs in a child process (a hang must not take the
// harness down).

import (
	"bufio"
	"context"
	"crypto/sha1"
	"encoding/json"
	"fmt"
	"math/rand"
	"net/http"
	"net/http/httptest"
	"os"
	"os/exec"
	"path/filepath"
	"sort"
	"strings"
	"sync"
	"time"

	. "verif/harness/common"

	"github.com/MontFerret/ferret/pkg/compiler"
	"github.com/MontFerret/ferret/pkg/drivers"
	httpdrv "github.com/MontFerret/ferret/pkg/drivers/http"
	"github.com/MontFerret/ferret/pkg/runtime"
)

func main() {
	if len(os.Args) > 1 && os.Args[1] == "-worker" {
		os.Args = append(os.Args[:1], os.Args[2:]...)
		out, tier, seed, _ := Args()
		work(out, tier, seed)
		return
	}
	out, tier, seed, _ := Args()
	limit := 240 * time.Second
	if tier == "thorough" {
		limit = 900 * time.Second
	}
	ctx, cancel := context.WithTimeout(context.Background(), limit)
	defer cancel()
	cmd := exec.CommandContext(ctx, os.Args[0], "-worker", "-out", out, "-tier", tier, "-seed", fmt.Sprint(seed))
	outb, err := cmd.CombinedOutput()
	if err != nil {
		// the worker died or hung: report it, with whatever it printed
		m := NewMeta("C19", tier, seed)
		what := "worker process failed: " + err.Error()
		if ctx.Err() != nil {
			what = fmt.Sprintf("worker process hung for %v (killed)", limit)
		}
		tail := string(outb)
		if len(tail) > 1500 {
			tail = tail[len(tail)-1500:]
		}
		if strings.Contains(tail, "harness error") {
			fmt.Fprintln(os.Stderr, tail)
			os.Exit(2)
		}
		m.Extra["direct_violations"] = []map[string]interface{}{{"key": "worker", "what": what + ": " + tail, "no_input": true, "kind": "no-input"}}
		m.Write(out)
	}
}

// ---------- loopback server

type recorded struct {
	Header  http.Header
	Cookies [][2]string
	UA      string
	Aborted bool
}

type script struct {
	Status  int
	Headers [][2]string // name, value (repeated names allowed)
	Cookies [][2]string
	RC      []rcookie // cookies with attributes (response exposure cases)
	DelayMs int
	// BodyStallMs: the head and the first bytes of the body are sent at once, the rest of the body
	// only after this long (a response that is under way when the context ends)
	BodyStallMs int
}

// a cookie of a response: the value may be empty ("legacy=; Max-Age=0" clears a
// cookie, "flag=; Secure" is a flag)
type rcookie struct {
	Name, Value      string
	MaxAge           int // 0: no Max-Age attribute; -1: "Max-Age=0"
	Secure, HTTPOnly bool
	Path             string
}

// what is compared of a cookie besides its name
func (c rcookie) payload() string {
	return fmt.Sprintf("%s|%d|%v|%v|%s", c.Value, c.MaxAge, c.Secure, c.HTTPOnly, c.Path)
}

type server struct {
	mu      sync.Mutex
	scripts map[string]script
	recs    map[string][]*recorded
	srv     *httptest.Server
}

func newServer() *server {
	s := &server{scripts: map[string]script{}, recs: map[string][]*recorded{}}
	s.srv = httptest.NewServer(http.HandlerFunc(s.handle))
	return s
}

func (s *server) handle(w http.ResponseWriter, r *http.Request) {
	id := strings.TrimPrefix(r.URL.Path, "/r/")
	rec := &recorded{Header: r.Header.Clone(), UA: r.UserAgent()}
	for _, c := range r.Cookies() {
		rec.Cookies = append(rec.Cookies, [2]string{c.Name, c.Value})
	}
	s.mu.Lock()
	sc, ok := s.scripts[id]
	s.recs[id] = append(s.recs[id], rec)
	s.mu.Unlock()
	if !ok {
		sc = script{Status: 200}
	}
	if sc.DelayMs > 0 {
		select {
		case <-time.After(time.Duration(sc.DelayMs) * time.Millisecond):
		case <-r.Context().Done():
			s.mu.Lock()
			rec.Aborted = true
			s.mu.Unlock()
			return
		}
	}
	for _, h := range sc.Headers {
		w.Header().Add(h[0], h[1])
	}
	for _, c := range sc.Cookies {
		http.SetCookie(w, &http.Cookie{Name: c[0], Value: c[1]})
	}
	for _, c := range sc.RC {
		http.SetCookie(w, &http.Cookie{Name: c.Name, Value: c.Value, MaxAge: c.MaxAge, Secure: c.Secure, HttpOnly: c.HTTPOnly, Path: c.Path})
	}
	w.Header().Set("Content-Type", "text/html; charset=utf-8")
	w.WriteHeader(sc.Status)
	if sc.BodyStallMs > 0 {
		w.Write([]byte("<html><head><title>t</title></head><body><p>o"))
		if f, ok := w.(http.Flusher); ok {
			f.Flush()
		}
		select {
		case <-time.After(time.Duration(sc.BodyStallMs) * time.Millisecond):
		case <-r.Context().Done():
			s.mu.Lock()
			rec.Aborted = true
			s.mu.Unlock()
			return
		}
		w.Write([]byte("k</p></body></html>"))
		return
	}
	w.Write([]byte("<html><head><title>t</title></head><body><p>ok</p></body></html>"))
}

func (s *server) set(id string, sc script) string {
	s.mu.Lock()
	s.scripts[id] = sc
	s.mu.Unlock()
	return s.srv.URL + "/r/" + id
}

func (s *server) get(id string) []*recorded {
	s.mu.Lock()
	defer s.mu.Unlock()
	return s.recs[id]
}

// ---------- rendering

func plain(s string) bool {
	for i := 0; i < len(s); i++ {
		if s[i] < 32 || s[i] > 126 || s[i] == '"' {
			return false
		}
	}
	return true
}

func cb(s string) string { // bytes
	if plain(s) {
		return `b "` + s + `"`
	}
	return fmt.Sprintf(`(hx "%x")`, s)
}
func cs(s string) string { // Coq string (generated, always plain)
	if !plain(s) {
		fmt.Fprintln(os.Stderr, "harness error: generated text outside the plain subset:", s)
		os.Exit(2)
	}
	return `"` + s + `"`
}
func csl(xs []string) string {
	q := make([]string, len(xs))
	for i, x := range xs {
		q[i] = cs(x)
	}
	return "[" + strings.Join(q, ";") + "]"
}
func cbl(xs []string) string {
	q := make([]string, len(xs))
	for i, x := range xs {
		q[i] = cb(x)
	}
	return "[" + strings.Join(q, ";") + "]"
}
func cpairs(xs [][2]string, bytesToo bool) string {
	q := make([]string, len(xs))
	for i, x := range xs {
		if bytesToo {
			q[i] = "(" + cb(x[0]) + "," + cb(x[1]) + ")"
		} else {
			q[i] = "(" + cs(x[0]) + "," + cs(x[1]) + ")"
		}
	}
	return "[" + strings.Join(q, ";") + "]"
}

// ---------- configurations

type dopt struct {
	Set  bool // registered through HTTPHeaders.Set + WithHeaders (canonical), else WithHeader (raw)
	Name string
	Vals []string
}
type qhdr struct {
	Name string
	Vals []string
	Arr  bool // passed as an FQL array (SetArr) or as a string (Set)
}

var baseNames = []string{"X-Alpha", "X-Beta", "X-Gamma-Delta", "X-Trace-Id", "Cache-Control", "Accept-Language"}
var lookNames = append(append([]string{}, baseNames...), "Pragma", "Accept", "X-Never")
var valPool = []string{"v1", "v2", "abc", "x y", "no-store", "de-DE,de;q=0.9", "0", "Zz"}

func variant(rng *rand.Rand, canonical string) (string, string) {
	switch rng.Intn(4) {
	case 0:
		return strings.ToLower(canonical), "lower"
	case 1:
		return strings.ToUpper(canonical), "upper"
	case 2:
		return canonical, "canonical"
	}
	b := []byte(strings.ToLower(canonical))
	for i := range b {
		if rng.Intn(2) == 0 && b[i] >= 'a' && b[i] <= 'z' {
			b[i] -= 32
		}
	}
	return string(b), "mixed"
}

func values(rng *rand.Rand) []string {
	n := 1 + rng.Intn(2)
	out := make([]string, n)
	for i := range out {
		out[i] = valPool[rng.Intn(len(valPool))]
	}
	return out
}

var cookieNames = []string{"sid", "theme", "lang", "Token", "token"}
var cookieVals = []string{"1", "dark", "en", "abc123", "Z", "dG9rZW4/Zm9vYg==", "a=b&c=d", "x+y:z%41"} // cookie values travel as they are (base64 padding, '=', '&', '+', '%')
var uaPool = []string{"", "", "AgentA/1.0", "agent-b (test)"}

func genCookies(rng *rand.Rand) [][2]string {
	n := rng.Intn(4)
	perm := rng.Perm(len(cookieNames))
	var out [][2]string
	for _, i := range perm[:n] {
		out = append(out, [2]string{cookieNames[i], cookieVals[rng.Intn(len(cookieVals))]})
	}
	return out
}

func genRespCookies(rng *rand.Rand) []rcookie {
	n := rng.Intn(4)
	perm := rng.Perm(len(cookieNames))
	var out []rcookie
	for _, i := range perm[:n] {
		c := rcookie{Name: cookieNames[i], Value: cookieVals[rng.Intn(len(cookieVals))]}
		switch rng.Intn(6) {
		case 0: // the usual way of clearing a cookie
			c.Value, c.MaxAge = "", -1
		case 1: // a flag
			c.Value = ""
			c.Secure = rng.Intn(2) == 0
		case 2:
			c.MaxAge = []int{-1, 60, 3600}[rng.Intn(3)]
		}
		if rng.Intn(3) == 0 {
			c.HTTPOnly = true
		}
		if rng.Intn(3) == 0 {
			c.Path = []string{"/", "/r"}[rng.Intn(2)]
		}
		out = append(out, c)
	}
	return out
}

func sortPairs(p [][2]string) [][2]string {
	out := append([][2]string{}, p...)
	sort.Slice(out, func(i, j int) bool { return out[i][0] < out[j][0] })
	return out
}

func runFQL(prog *runtime.Program, drv *httpdrv.Driver, ctx context.Context, url string, p map[string]interface{}) ([]byte, error) {
	p["driver"] = "http"
	c := drivers.WithContext(ctx, drv, drivers.AsDefault())
	return prog.Run(c, runtime.WithParam("url", url), runtime.WithParam("p", p), runtime.WithLog(Discard))
}

func work(out, tier string, seed int64) {
	rng := rand.New(rand.NewSource(seed))
	nReq, nSets, nResp, nHist := 220, 14, 60, 80
	if tier == "thorough" {
		nReq, nSets, nResp, nHist = 3000, 40, 600, 800
	}
	m := NewMeta("C19", tier, seed)
	m.Rule = "one evaluation = one request issued through DOCUMENT(); a request case is non-trivial when at least one header, cookie or user agent is configured; distinct = distinct configuration texts (request cases), distinct (rule set, status) pairs with a rule for that status or a 2xx status (status cases), distinct scripts (response cases), distinct histories (driver configuration and the parameters of its 2-4 requests)"
	srv := newServer()
	defer srv.srv.Close()
	comp := compiler.New()
	progStatus, err := comp.Compile(`RETURN DOCUMENT(@url, @p).response.statusCode`)
	Must(err)
	distinct := map[[20]byte]struct{}{}
	var rRows []string      // one row per request case (split over the case files)
	w := &strings.Builder{} // the status, response and cancellation sections (first file)

	// ---- request cases
	var rIdx []interface{}
	for i := 0; i < nReq; i++ {
		// driver level
		var dopts []dopt
		var opts []httpdrv.Option
		opts = append(opts, httpdrv.WithMaxRetries(1))
		perm := rng.Perm(len(baseNames))
		for _, bi := range perm[:rng.Intn(5)] {
			name, kind := variant(rng, baseNames[bi])
			d := dopt{Set: rng.Intn(5) == 0, Name: name, Vals: values(rng)}
			if d.Set {
				d.Vals = d.Vals[:1]
				hh := drivers.NewHTTPHeaders()
				hh.Set(d.Name, d.Vals[0])
				opts = append(opts, httpdrv.WithHeaders(hh))
			} else {
				opts = append(opts, httpdrv.WithHeader(d.Name, d.Vals))
			}
			dopts = append(dopts, d)
			m.Count(fmt.Sprintf("driver-header:%s:%dv", kind, len(d.Vals)))
		}
		dcook := genCookies(rng)
		for _, c := range dcook {
			opts = append(opts, httpdrv.WithCookie(drivers.HTTPCookie{Name: c[0], Value: c[1]}))
		}
		dua := uaPool[rng.Intn(len(uaPool))]
		if dua != "" {
			opts = append(opts, httpdrv.WithUserAgent(dua))
		}
		// query level, overlapping the driver level on purpose
		var qh []qhdr
		p := map[string]interface{}{}
		hp := map[string]interface{}{}
		perm = rng.Perm(len(baseNames))
		overlap := 0
		for _, bi := range perm[:rng.Intn(5)] {
			name, kind := variant(rng, baseNames[bi])
			h := qhdr{Name: name, Vals: values(rng), Arr: rng.Intn(2) == 0}
			if h.Arr {
				arr := make([]interface{}, len(h.Vals))
				for k, v := range h.Vals {
					arr[k] = v
				}
				hp[name] = arr
			} else {
				h.Vals = h.Vals[:1]
				hp[name] = h.Vals[0]
			}
			qh = append(qh, h)
			for _, d := range dopts {
				if strings.EqualFold(d.Name, name) {
					overlap++
				}
			}
			m.Count(fmt.Sprintf("query-header:%s:%dv:%s", kind, len(h.Vals), map[bool]string{true: "array", false: "string"}[h.Arr]))
		}
		if len(qh) > 0 || rng.Intn(3) == 0 {
			p["headers"] = hp
		}
		pcook := genCookies(rng)
		if len(pcook) > 0 || rng.Intn(3) == 0 {
			arr := make([]interface{}, len(pcook))
			for k, c := range pcook {
				arr[k] = map[string]interface{}{"name": c[0], "value": c[1]}
			}
			p["cookies"] = arr
		}
		pua := uaPool[rng.Intn(len(uaPool))]
		if pua != "" {
			p["userAgent"] = pua
		}
		m.Count(fmt.Sprintf("request:overlapping-headers:%d", overlap))
		id := fmt.Sprintf("q%d", i)
		url := srv.set(id, script{Status: 200})
		drv := httpdrv.NewDriver(opts...)
		if i%4 == 1 {
			// a request history on one driver: an earlier response sets cookies and
			// headers; the next request must still carry exactly what is configured
			prime := srv.set(id+"p", script{Status: 200, Cookies: [][2]string{{"srv", "tracked"}, {"sid", "s1"}}, Headers: [][2]string{{"X-Alpha", "from-server"}}})
			_, _ = runFQL(progStatus, drv, context.Background(), prime, map[string]interface{}{})
			m.Count("request:after-priming-response")
			m.Evaluations++
		}
		_, rerr := runFQL(progStatus, drv, context.Background(), url, p)
		m.Evaluations++
		recs := srv.get(id)
		// projection: per looked-at name the values received; cookies sorted; agent
		obsH := make([]string, len(lookNames))
		var obsC [][2]string
		obsUA := ""
		raw := map[string]interface{}{}
		if len(recs) > 0 {
			r := recs[0]
			for k, n := range lookNames {
				obsH[k] = cbl(r.Header[n])
			}
			obsC = sortPairs(r.Cookies)
			obsUA = r.UA
			if strings.HasPrefix(obsUA, "Go-http-client") {
				obsUA = ""
			}
			raw["received"] = r.Header
		} else {
			for k := range lookNames {
				obsH[k] = "[]"
			}
		}
		if rerr != nil {
			raw["error"] = rerr.Error()
		}
		// configuration text
		ds := make([]string, len(dopts))
		for k, d := range dopts {
			if d.Set {
				ds[k] = "ds " + cs(d.Name) + " " + cs(d.Vals[0])
			} else {
				ds[k] = "dh " + cs(d.Name) + " " + csl(d.Vals)
			}
		}
		qs := make([]string, len(qh))
		for k, h := range qh {
			if h.Arr {
				qs[k] = "many " + cs(h.Name) + " " + csl(h.Vals)
			} else {
				qs[k] = "one " + cs(h.Name) + " " + cs(h.Vals[0])
			}
		}
		cfgText := fmt.Sprintf("[%s] [%s] (ck %s) (ck %s) (b %s) (b %s)", strings.Join(ds, ";"), strings.Join(qs, ";"),
			cpairs(dcook, false), cpairs(pcook, false), cs(dua), cs(pua))
		rRows = append(rRows, fmt.Sprintf(" mkReq %s NAMES [%s] %s (%s) %d%%N", cfgText, strings.Join(obsH, ";"), cpairs(obsC, true), cb(obsUA), len(recs)))
		if len(dopts)+len(qh)+len(dcook)+len(pcook) > 0 || dua != "" || pua != "" {
			distinct[sha1.Sum([]byte("R"+cfgText))] = struct{}{}
		}
		desc := map[string]interface{}{"driver_headers": dopts, "query_headers": qh, "driver_cookies": dcook, "query_cookies": pcook,
			"driver_ua": dua, "query_ua": pua, "raw": raw, "requests": len(recs)}
		rIdx = append(rIdx, desc)
		if i < 3 {
			m.Samples = append(m.Samples, desc)
		}
	}

	// ---- status cases: every status 200..599 under each rule set
	type qrule struct {
		Code int
		URL  string
	}
	type ruleSet struct {
		Driver []int
		Query  []qrule
	}
	base := srv.srv.URL // http://127.0.0.1:PORT
	port := base[strings.LastIndex(base, ":")+1:]
	sets := []ruleSet{
		{},
		{Driver: []int{404}},
		{Driver: []int{500, 503, 301}},
		{Query: []qrule{{404, ""}}},
		{Query: []qrule{{404, "*"}, {410, base + "/r/*"}}},
		{Query: []qrule{{404, base + "/other/*"}, {403, "*nomatch"}}},
		{Query: []qrule{{500, "*nomatch"}, {502, "http://127.0.0.1:" + strings.Repeat("?", len(port)) + "/r/s*"}}, Driver: []int{500}},
		{Query: []qrule{{418, "http://*:" + port + "/r/s?-*"}, {599, "*"}, {300, ""}}, Driver: []int{302, 304}},
		// several rules for one code: any matching one accepts
		{Query: []qrule{{404, base + "/other/*"}, {404, "*"}, {500, "*nomatch"}, {500, ""}}},
		{Query: []qrule{{403, "*nomatch"}, {403, base + "/zzz*"}, {403, base + "/r/*"}, {410, "*"}, {410, "*nomatch"}}},
	}
	pats := []string{"", "*", base + "/r/*", "*/r/s*", base + "/zzz*", "http://*", "https://*", "*" + port + "*", "?" + base[1:] + "*", base + "/r/s??-*",
		"*-4??", "*-?0?", "*5", base + "/r/s*-30?", "*-404", "*-2*"}
	for len(sets) < nSets {
		var rs ruleSet
		for k := rng.Intn(3); k > 0; k-- {
			rs.Driver = append(rs.Driver, 200+rng.Intn(400))
		}
		few := []int{404, 500, 301, 418, 403}
		for k := rng.Intn(5); k > 0; k-- {
			code := 200 + rng.Intn(400)
			if rng.Intn(2) == 0 {
				code = few[rng.Intn(len(few))] // repeated codes with different patterns
			}
			rs.Query = append(rs.Query, qrule{code, pats[rng.Intn(len(pats))]})
		}
		sets = append(sets, rs)
	}
	var sIdx []interface{}
	fmt.Fprintln(w, "Definition S : list stcase := [")
	for si, rs := range sets {
		opts := []httpdrv.Option{httpdrv.WithMaxRetries(1)}
		if len(rs.Driver) == 1 {
			opts = append(opts, httpdrv.WithAllowedHTTPCode(rs.Driver[0]))
		} else if len(rs.Driver) > 1 {
			opts = append(opts, httpdrv.WithAllowedHTTPCodes(rs.Driver))
		}
		drv := httpdrv.NewDriver(opts...)
		p := map[string]interface{}{}
		var qr, dr []string
		if len(rs.Query) > 0 {
			arr := make([]interface{}, len(rs.Query))
			for k, r := range rs.Query {
				e := map[string]interface{}{"code": r.Code}
				if r.URL != "" {
					e["url"] = r.URL
					qr = append(qr, fmt.Sprintf("rl %d %s", r.Code, cs(r.URL)))
				} else {
					qr = append(qr, fmt.Sprintf("rc %d", r.Code))
				}
				arr[k] = e
			}
			p["ignore"] = map[string]interface{}{"statusCodes": arr}
		}
		for _, c := range rs.Driver {
			dr = append(dr, fmt.Sprintf("rc %d", c))
		}
		// URL of a status: <base>/r/s<set>-<status>; the model rebuilds it from the prefix
		var sb strings.Builder
		urls := make([]string, 0, 400)
		for code := 200; code <= 599; code++ {
			id := fmt.Sprintf("s%d-%d", si, code)
			url := srv.set(id, script{Status: code})
			urls = append(urls, url)
			_, rerr := runFQL(progStatus, drv, context.Background(), url, p)
			m.Evaluations++
			ch := byte('T')
			if rerr != nil {
				ch = 'F'
				if !strings.Contains(rerr.Error(), fmt.Sprint(code)) {
					ch = 'E' // not a status rejection
				}
			}
			sb.WriteByte(ch)
			ruled := code <= 299
			for _, r := range rs.Query {
				ruled = ruled || r.Code == code
			}
			for _, c := range rs.Driver {
				ruled = ruled || c == code
			}
			if ruled {
				distinct[sha1.Sum([]byte(fmt.Sprintf("S%v|%d", rs, code)))] = struct{}{}
				m.Count("status:" + map[byte]string{'T': "accepted", 'F': "rejected", 'E': "other-error"}[ch] + ":ruled-or-2xx")
			} else {
				m.Count("status:" + map[byte]string{'T': "accepted", 'F': "rejected", 'E': "other-error"}[ch] + ":no-rule")
			}
			if n := len(srv.get(id)); n != 1 {
				m.Count(fmt.Sprintf("status:requests-per-document:%d", n))
			}
		}
		sep := ";"
		if si == len(sets)-1 {
			sep = ""
		}
		fmt.Fprintf(w, " ([%s], [%s], %s, 200, %s)%s\n", strings.Join(qr, ";"), strings.Join(dr, ";"), cb(strings.TrimSuffix(urls[0], "200")), cs(sb.String()), sep)
		sIdx = append(sIdx, map[string]interface{}{"driver_codes": rs.Driver, "query_rules": rs.Query, "url_prefix": strings.TrimSuffix(urls[0], "200"), "impl": sb.String()})
	}
	fmt.Fprintln(w, "].")

	// ---- response exposure
	progResp, err := comp.Compile(`LET doc = DOCUMENT(@url, @p) LET r = doc.response
	  RETURN {code: r.statusCode, first: [r.headers["X-Resp-A"], r.headers["X-Resp-B"], r.headers["Content-Language"], r.headers["X-Absent"]], all: r.headers, cookies: doc.cookies}`)
	Must(err)
	respNames := []string{"X-Resp-A", "X-Resp-B", "Content-Language", "X-Absent"}
	var pIdx []interface{}
	fmt.Fprintln(w, "Definition P : list respcase := [")
	for i := 0; i < nResp; i++ {
		sc := script{Status: []int{200, 200, 201, 203, 404, 500, 302}[rng.Intn(7)]}
		hv := map[string][]string{}
		for _, n := range respNames[:3] {
			for k := rng.Intn(3); k > 0; k-- {
				v := valPool[rng.Intn(len(valPool))]
				sc.Headers = append(sc.Headers, [2]string{n, v})
				hv[n] = append(hv[n], v)
			}
		}
		sc.RC = genRespCookies(rng)
		var scPairs [][2]string
		for _, c := range sc.RC {
			scPairs = append(scPairs, [2]string{c.Name, c.payload()})
			if c.Value == "" {
				m.Count("response:cookie-with-empty-value")
			} else {
				m.Count("response:cookie-with-value")
			}
		}
		id := fmt.Sprintf("p%d", i)
		url := srv.set(id, sc)
		drv := httpdrv.NewDriver(httpdrv.WithMaxRetries(1), httpdrv.WithAllowedHTTPCodes([]int{404, 500, 302}))
		outb, rerr := runFQL(progResp, drv, context.Background(), url, map[string]interface{}{})
		m.Evaluations++
		var got struct {
			Code    int                               `json:"code"`
			First   []interface{}                     `json:"first"`
			All     map[string]string                 `json:"all"`
			Cookies map[string]map[string]interface{} `json:"cookies"`
		}
		obsStatus := -1
		obsH := make([][2]string, len(respNames))
		var obsC [][2]string
		if rerr == nil && json.Unmarshal(outb, &got) == nil {
			obsStatus = got.Code
			for k, n := range respNames {
				if k < len(got.First) {
					if s, ok := got.First[k].(string); ok {
						obsH[k][0] = s
					}
				}
				obsH[k][1] = got.All[n]
			}
			for n, c := range got.Cookies {
				rc := rcookie{Name: n, Value: fmt.Sprint(c["value"]), Path: fmt.Sprint(c["path"])}
				if f, ok := c["max_age"].(float64); ok {
					rc.MaxAge = int(f)
				}
				rc.Secure, _ = c["secure"].(bool)
				rc.HTTPOnly, _ = c["http_only"].(bool)
				obsC = append(obsC, [2]string{n, rc.payload()})
			}
			obsC = sortPairs(obsC)
		}
		var hs []string
		for _, n := range respNames[:3] {
			if vs, ok := hv[n]; ok {
				hs = append(hs, "("+cs(n)+","+csl(vs)+")")
			}
		}
		sep := ";"
		if i == nResp-1 {
			sep = ""
		}
		fmt.Fprintf(w, " mkRC (mkResp %d (hs [%s]) (ck %s)) RNAMES (%d) %s %s%s\n", sc.Status, strings.Join(hs, ";"), cpairs(scPairs, false),
			obsStatus, cpairs(obsH, true), cpairs(obsC, true), sep)
		distinct[sha1.Sum([]byte(fmt.Sprintf("P%v", sc)))] = struct{}{}
		m.Count(fmt.Sprintf("response:status-%d", sc.Status))
		e := ""
		if rerr != nil {
			e = rerr.Error()
		}
		pIdx = append(pIdx, map[string]interface{}{"script": sc, "impl": string(outb), "error": e})
	}
	fmt.Fprintln(w, "].")

	// ---- histories: several documents through ONE driver instance; every request
	// must carry exactly the driver's defaults merged with its own parameters,
	// whatever the earlier documents asked for
	var hIdx []interface{}
	fmt.Fprintln(w, "Definition H : list histcase := [")
	for i := 0; i < nHist; i++ {
		var dopts []dopt
		opts := []httpdrv.Option{httpdrv.WithMaxRetries(1)}
		perm := rng.Perm(len(baseNames))
		for _, bi := range perm[:1+rng.Intn(4)] { // at least one default header
			name, _ := variant(rng, baseNames[bi])
			d := dopt{Set: rng.Intn(5) == 0, Name: name, Vals: values(rng)}
			if d.Set {
				d.Vals = d.Vals[:1]
				hh := drivers.NewHTTPHeaders()
				hh.Set(d.Name, d.Vals[0])
				opts = append(opts, httpdrv.WithHeaders(hh))
			} else {
				opts = append(opts, httpdrv.WithHeader(d.Name, d.Vals))
			}
			dopts = append(dopts, d)
		}
		dcook := genCookies(rng)
		for _, c := range dcook {
			opts = append(opts, httpdrv.WithCookie(drivers.HTTPCookie{Name: c[0], Value: c[1]}))
		}
		dua := uaPool[rng.Intn(len(uaPool))]
		if dua != "" {
			opts = append(opts, httpdrv.WithUserAgent(dua))
		}
		drv := httpdrv.NewDriver(opts...)
		ds := make([]string, len(dopts))
		for k, d := range dopts {
			if d.Set {
				ds[k] = "ds " + cs(d.Name) + " " + cs(d.Vals[0])
			} else {
				ds[k] = "dh " + cs(d.Name) + " " + csl(d.Vals)
			}
		}
		nr := 2 + rng.Intn(3)
		var rows []string
		var reqIdx []interface{}
		histText := fmt.Sprintf("%v|%v|%s", ds, dcook, dua)
		for k := 0; k < nr; k++ {
			var qh []qhdr
			p := map[string]interface{}{}
			hp := map[string]interface{}{}
			nh := rng.Intn(5)
			if k > 0 && rng.Intn(3) == 0 {
				nh = 0 // a later document that configures no header of its own
			}
			perm = rng.Perm(len(baseNames))
			for _, bi := range perm[:nh] {
				name, _ := variant(rng, baseNames[bi])
				h := qhdr{Name: name, Vals: values(rng), Arr: rng.Intn(2) == 0}
				if h.Arr {
					arr := make([]interface{}, len(h.Vals))
					for x, v := range h.Vals {
						arr[x] = v
					}
					hp[name] = arr
				} else {
					h.Vals = h.Vals[:1]
					hp[name] = h.Vals[0]
				}
				qh = append(qh, h)
			}
			if len(qh) > 0 || rng.Intn(3) == 0 {
				p["headers"] = hp
			}
			pcook := genCookies(rng)
			if k > 0 && rng.Intn(3) == 0 {
				pcook = nil
			}
			if len(pcook) > 0 || rng.Intn(3) == 0 {
				arr := make([]interface{}, len(pcook))
				for x, c := range pcook {
					arr[x] = map[string]interface{}{"name": c[0], "value": c[1]}
				}
				p["cookies"] = arr
			}
			pua := uaPool[rng.Intn(len(uaPool))]
			if pua != "" {
				p["userAgent"] = pua
			}
			id := fmt.Sprintf("h%d-%d", i, k)
			url := srv.set(id, script{Status: 200})
			_, rerr := runFQL(progStatus, drv, context.Background(), url, p)
			m.Evaluations++
			recs := srv.get(id)
			obsH := make([]string, len(lookNames))
			var obsC [][2]string
			obsUA := ""
			raw := map[string]interface{}{}
			if len(recs) > 0 {
				r := recs[0]
				for x, n := range lookNames {
					obsH[x] = cbl(r.Header[n])
				}
				obsC = sortPairs(r.Cookies)
				obsUA = r.UA
				if strings.HasPrefix(obsUA, "Go-http-client") {
					obsUA = ""
				}
				raw["received"] = r.Header
			} else {
				for x := range lookNames {
					obsH[x] = "[]"
				}
			}
			if rerr != nil {
				raw["error"] = rerr.Error()
			}
			qs := make([]string, len(qh))
			for x, h := range qh {
				if h.Arr {
					qs[x] = "many " + cs(h.Name) + " " + csl(h.Vals)
				} else {
					qs[x] = "one " + cs(h.Name) + " " + cs(h.Vals[0])
				}
			}
			rows = append(rows, fmt.Sprintf("   mkHR [%s] (ck %s) (b %s) [%s] %s (%s) %d%%N", strings.Join(qs, ";"), cpairs(pcook, false), cs(pua),
				strings.Join(obsH, ";"), cpairs(obsC, true), cb(obsUA), len(recs)))
			histText += fmt.Sprintf("|%v|%v|%s", qs, pcook, pua)
			reqIdx = append(reqIdx, map[string]interface{}{"query_headers": qh, "query_cookies": pcook, "query_ua": pua, "raw": raw, "requests": len(recs)})
		}
		sep := ";"
		if i == nHist-1 {
			sep = ""
		}
		fmt.Fprintf(w, " mkHist [%s] (ck %s) (b %s) NAMES [\n%s\n ]%s\n", strings.Join(ds, ";"), cpairs(dcook, false), cs(dua), strings.Join(rows, ";\n"), sep)
		distinct[sha1.Sum([]byte("H"+histText))] = struct{}{}
		m.Count(fmt.Sprintf("history:requests-through-one-driver:%d", nr))
		hIdx = append(hIdx, map[string]interface{}{"driver_headers": dopts, "driver_cookies": dcook, "driver_ua": dua, "requests": reqIdx})
	}
	fmt.Fprintln(w, "].")

	// ---- cancellation / deadline on a slow response
	const respMs = 2500
	type can struct {
		Kind     string
		CancelMs int
	}
	var cans []can
	// "-direct": Driver.Open called directly with the context (DOCUMENT() always adds a deadline of its own)
	for _, k := range []string{"cancel", "deadline", "param-timeout", "cancel-mid-body", "deadline-mid-body", "cancel-direct", "deadline-direct"} {
		for _, d := range []int{30, 150, 500, 4000} {
			cans = append(cans, can{k, d})
		}
	}
	progDoc, err := comp.Compile(`RETURN DOCUMENT(@url, @p).response.statusCode`)
	Must(err)
	early := make([]bool, len(cans))
	elapsed := make([]int64, len(cans))
	errs := make([]string, len(cans))
	var wg sync.WaitGroup
	for i, c := range cans {
		wg.Add(1)
		go func(i int, c can) {
			defer wg.Done()
			id := fmt.Sprintf("c%d", i)
			sc := script{Status: 200, DelayMs: respMs}
			if strings.HasSuffix(c.Kind, "-mid-body") {
				sc = script{Status: 200, BodyStallMs: respMs} // the head and part of the body arrive at once
			}
			url := srv.set(id, sc)
			drv := httpdrv.NewDriver(httpdrv.WithMaxRetries(1))
			ctx := context.Background()
			p := map[string]interface{}{}
			var cancel context.CancelFunc = func() {}
			switch strings.TrimSuffix(strings.TrimSuffix(c.Kind, "-mid-body"), "-direct") {
			case "cancel":
				ctx, cancel = context.WithCancel(ctx)
				go func(cf context.CancelFunc) {
					time.Sleep(time.Duration(c.CancelMs) * time.Millisecond)
					cf()
				}(cancel)
			case "deadline":
				ctx, cancel = context.WithTimeout(ctx, time.Duration(c.CancelMs)*time.Millisecond)
			case "param-timeout":
				p["timeout"] = c.CancelMs
			}
			t0 := time.Now()
			var rerr error
			if strings.HasSuffix(c.Kind, "-direct") {
				var pg drivers.HTMLPage
				pg, rerr = drv.Open(ctx, drivers.Params{URL: url})
				if pg != nil {
					pg.Close()
				}
			} else {
				_, rerr = runFQL(progDoc, drv, ctx, url, p)
			}
			el := time.Since(t0)
			cancel()
			elapsed[i] = el.Milliseconds()
			// bucket: did Run return clearly before the response could have arrived?
			// ... and with an error: a page cut short is not a result
			early[i] = el < time.Duration(respMs-700)*time.Millisecond && rerr != nil
			if el < time.Duration(respMs-700)*time.Millisecond && rerr == nil {
				errs[i] = "returned early WITHOUT an error"
			}
			if rerr != nil {
				errs[i] = rerr.Error()
			}
		}(i, c)
	}
	wg.Wait()
	var cIdx []interface{}
	fmt.Fprintln(w, "Definition C : list cancase := [")
	for i, c := range cans {
		m.Evaluations++
		sep := ";"
		if i == len(cans)-1 {
			sep = ""
		}
		fmt.Fprintf(w, " (%d, %d, %v)%s\n", c.CancelMs, respMs, early[i], sep)
		m.Count(fmt.Sprintf("cancel:%s:returned-early=%v", c.Kind, early[i]))
		distinct[sha1.Sum([]byte(fmt.Sprintf("C%v", c)))] = struct{}{}
		cIdx = append(cIdx, map[string]interface{}{"kind": c.Kind, "cancel_after_ms": c.CancelMs, "response_after_ms": respMs, "run_returned_after_ms": elapsed[i], "error": errs[i]})
	}
	fmt.Fprintln(w, "].")
	head := "From Ferret Require Import Http Check.C19.\nLocal Open Scope string_scope.\n" +
		fmt.Sprintf("Definition NAMES := bl %s.\nDefinition RNAMES := bl %s.\n", csl(lookNames), csl(respNames))
	const perFile = 250
	for k := 0; k*perFile < len(rRows) || k == 0; k++ {
		name := fmt.Sprintf("cases%d.v", k)
		f, err := os.Create(filepath.Join(out, name))
		Must(err)
		bw := bufio.NewWriterSize(f, 1<<20)
		bw.WriteString(head)
		hi := (k + 1) * perFile
		if hi > len(rRows) {
			hi = len(rRows)
		}
		fmt.Fprintf(bw, "Definition R : list reqcase := [\n%s\n].\n", strings.Join(rRows[k*perFile:hi], ";\n"))
		if k == 0 {
			bw.WriteString(w.String())
		} else {
			bw.WriteString("Definition S : list stcase := [].\nDefinition P : list respcase := [].\nDefinition C : list cancase := [].\nDefinition H : list histcase := [].\n")
		}
		fmt.Fprintf(bw, "Definition M := Eval vm_compute in mismatches %d%%N R S P C H.\nPrint M.\n", k*perFile)
		Must(bw.Flush())
		Must(f.Close())
		m.Files = append(m.Files, name)
	}
	m.DistinctNontrivial = len(distinct)
	m.Index["R"] = rIdx
	m.Index["S"] = sIdx
	m.Index["P"] = pIdx
	m.Index["C"] = cIdx
	m.Index["H"] = hIdx
	m.Index["names"] = lookNames
	m.Index["resp_names"] = respNames
	m.Write(out)
}
