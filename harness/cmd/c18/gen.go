package main

// Random documents of the well-formed subset, selectors over them, their
// rendering as HTML, CSS, XPath and as terms of coq/theories/Dom.v, and the
// generator's own matcher (so that the generator knows the expected match list).

import (
	"fmt"
	"math/rand"
	"strings"

	"golang.org/x/net/html"
	"golang.org/x/net/html/atom"
)

type Node struct {
	Text  string // text node when Tag == ""
	Tag   string
	Attrs [][2]string // every attribute but style, source order
	Style [][2]string
	Kids  []*Node
	Par   *Node
}

func (n *Node) attr(k string) (string, bool) {
	for _, a := range n.Attrs {
		if a[0] == k {
			return a[1], true
		}
	}
	return "", false
}

// which children a tag may have without the HTML5 tree builder moving anything
var allowed = map[string][]string{
	"body":    {"div", "section", "span", "ul", "p", "em"},
	"div":     {"div", "section", "span", "ul", "p", "em"},
	"section": {"div", "section", "span", "ul", "p", "em"},
	"li":      {"div", "span", "ul", "p", "em"},
	"ul":      {"li"},
	"p":       {"span", "em"},
	"span":    {"span", "em"},
	"em":      {"span", "em"},
}
var textOK = map[string]bool{"div": true, "section": true, "li": true, "p": true, "span": true, "em": true, "body": true}

var (
	idPool    = []string{"a", "b", "main", "x1"}
	classPool = []string{"k", "m", "r", "box"}
	textPool  = []string{"one", "two", "x y", "t3", "Q", "lorem ipsum", "7", "end", " padded ", "tail  ", "  lead"}
	titlePool = []string{"t1", "t2", "hello"}
	dataPool  = []string{"v", "w", "42"}
	stylePool = map[string][]string{"color": {"red", "blue"}, "width": {"10px", "2em"}, "display": {"block", "none"}, "margin": {"auto"}}
	styleKeys = []string{"color", "width", "display", "margin"}
	// names asked for by ATTR_GET / STYLE_GET; the model gets the same lists
	attrNames  = []string{"id", "class", "title", "data-k", "data-n", "zz"}
	styleNames = []string{"color", "width", "display", "zz"}
)

type gen struct {
	rng   *rand.Rand
	count int
	cap   int
}

func (g *gen) element(tag string, depth int, par *Node) *Node {
	g.count++
	n := &Node{Tag: tag, Par: par}
	r := g.rng
	if r.Intn(4) == 0 {
		n.Attrs = append(n.Attrs, [2]string{"id", idPool[r.Intn(len(idPool))]})
	}
	switch r.Intn(5) {
	case 0, 1:
		n.Attrs = append(n.Attrs, [2]string{"class", classPool[r.Intn(len(classPool))]})
	case 2:
		a, b := classPool[r.Intn(len(classPool))], classPool[r.Intn(len(classPool))]
		if a != b {
			n.Attrs = append(n.Attrs, [2]string{"class", a + " " + b})
		} else {
			n.Attrs = append(n.Attrs, [2]string{"class", a})
		}
	}
	if r.Intn(4) == 0 {
		n.Attrs = append(n.Attrs, [2]string{"title", titlePool[r.Intn(len(titlePool))]})
	}
	if r.Intn(5) == 0 {
		n.Attrs = append(n.Attrs, [2]string{"data-k", dataPool[r.Intn(len(dataPool))]})
	}
	n.Attrs = append(n.Attrs, [2]string{"data-n", fmt.Sprint(g.count)})
	if r.Intn(3) == 0 {
		perm := r.Perm(len(styleKeys))
		for _, i := range perm[:1+r.Intn(3)] {
			vs := stylePool[styleKeys[i]]
			n.Style = append(n.Style, [2]string{styleKeys[i], vs[r.Intn(len(vs))]})
		}
	}
	g.fill(n, depth)
	return n
}

func (g *gen) fill(n *Node, depth int) {
	r := g.rng
	nk := 0
	if depth > 0 {
		nk = r.Intn(4)
		if n.Tag == "ul" || n.Tag == "body" {
			nk = 1 + r.Intn(3)
		}
	}
	lastText := false
	for i := 0; i < nk+1; i++ {
		// optional text between element children (never two adjacent text nodes)
		if textOK[n.Tag] && !lastText && r.Intn(3) == 0 {
			n.Kids = append(n.Kids, &Node{Text: textPool[r.Intn(len(textPool))], Par: n})
			lastText = true
		}
		if i == nk || g.count >= g.cap {
			break
		}
		al := allowed[n.Tag]
		n.Kids = append(n.Kids, g.element(al[r.Intn(len(al))], depth-1, n))
		lastText = false
	}
	if len(n.Kids) == 0 && textOK[n.Tag] && r.Intn(3) > 0 {
		n.Kids = append(n.Kids, &Node{Text: textPool[r.Intn(len(textPool))], Par: n})
	}
}

// document: #document > html > (head, body > generated content)
func (g *gen) document() *Node {
	g.count = 0
	doc := &Node{Tag: "#document"}
	htmlN := &Node{Tag: "html", Par: doc}
	head := &Node{Tag: "head", Par: htmlN}
	body := &Node{Tag: "body", Par: htmlN}
	htmlN.Kids = []*Node{head, body}
	doc.Kids = []*Node{htmlN}
	g.fill(body, 3+g.rng.Intn(2))
	return doc
}

func elements(n *Node, out *[]*Node) {
	for _, k := range n.Kids {
		if k.Tag != "" {
			*out = append(*out, k)
			elements(k, out)
		}
	}
}

// ---------- rendering

func renderHTML(n *Node, sb *strings.Builder) {
	if n.Tag == "" {
		sb.WriteString(n.Text)
		return
	}
	if n.Tag != "#document" {
		sb.WriteString("<" + n.Tag)
		for _, a := range n.Attrs {
			fmt.Fprintf(sb, ` %s="%s"`, a[0], a[1])
		}
		if len(n.Style) > 0 {
			sb.WriteString(` style="` + serStyle(n.Style) + `"`)
		}
		sb.WriteString(">")
	}
	for _, k := range n.Kids {
		renderHTML(k, sb)
	}
	if n.Tag != "#document" {
		sb.WriteString("</" + n.Tag + ">")
	}
}

func htmlOf(n *Node) string {
	var sb strings.Builder
	renderHTML(n, &sb)
	return sb.String()
}

// common.SerializeStyles format
func serStyle(st [][2]string) string {
	var sb strings.Builder
	for _, kv := range st {
		sb.WriteString(kv[0] + ": " + kv[1] + "; ")
	}
	return sb.String()
}

func plain(s string) bool {
	for i := 0; i < len(s); i++ {
		if s[i] < 32 || s[i] > 126 || s[i] == '"' {
			return false
		}
	}
	return true
}

func coqStr(s string) string {
	if !plain(s) {
		panic("generator produced a string outside the plain ASCII subset: " + s)
	}
	return `"` + s + `"`
}

func coqPairs(ps [][2]string) string {
	parts := make([]string, len(ps))
	for i, p := range ps {
		parts[i] = "(" + coqStr(p[0]) + "," + coqStr(p[1]) + ")"
	}
	return "[" + strings.Join(parts, ";") + "]"
}

func coqNode(n *Node) string {
	if n.Tag == "" {
		return "t " + coqStr(n.Text)
	}
	return "e " + coqStr(n.Tag) + " " + coqPairs(n.Attrs) + " " + coqPairs(n.Style) + " " + coqForest(n.Kids)
}

func coqForest(ns []*Node) string {
	parts := make([]string, len(ns))
	for i, k := range ns {
		parts[i] = coqNode(k)
	}
	return "[" + strings.Join(parts, ";") + "]"
}

// ---------- selectors

type Simple struct {
	Kind byte // 't' tag, 'c' class, 'i' id
	Val  string
}
type Step struct {
	Child bool // combinator to the previous component: '>' (true) or ' ' (false)
	S     Simple
}
type Sel []Step // Sel[0].Child is unused

func (s Simple) css() string {
	switch s.Kind {
	case 't':
		return s.Val
	case 'c':
		return "." + s.Val
	}
	return "#" + s.Val
}
func (s Simple) xp() string {
	switch s.Kind {
	case 't':
		return s.Val
	case 'c':
		return "*[contains(concat(' ', normalize-space(@class), ' '), ' " + s.Val + " ')]"
	}
	return "*[@id='" + s.Val + "']"
}
func (s Simple) coq() string {
	switch s.Kind {
	case 't':
		return "tg " + coqStr(s.Val)
	case 'c':
		return "cl " + coqStr(s.Val)
	}
	return "i_ " + coqStr(s.Val)
}
func (s Simple) match(n *Node) bool {
	switch s.Kind {
	case 't':
		return n.Tag == s.Val
	case 'c':
		v, _ := n.attr("class")
		for _, w := range strings.Fields(v) {
			if w == s.Val {
				return true
			}
		}
		return false
	}
	v, ok := n.attr("id")
	return ok && v == s.Val
}

func (s Sel) css() string {
	var sb strings.Builder
	for i, st := range s {
		if i > 0 {
			if st.Child {
				sb.WriteString(" > ")
			} else {
				sb.WriteString(" ")
			}
		}
		sb.WriteString(st.S.css())
	}
	return sb.String()
}

// the translation of Dom.to_xpath, written relative to the context node:
// './/' for the first step, '//' for descendant combinators, '/' for child
// combinators.  (htmlquery makes the context node the navigator's root and its
// '//' at the start of a path also yields that root itself; './/' is the
// exact "descendants of the context node".)
func (s Sel) xpath() string {
	var sb strings.Builder
	for i, st := range s {
		switch {
		case i == 0:
			sb.WriteString(".//")
		case st.Child:
			sb.WriteString("/")
		default:
			sb.WriteString("//")
		}
		sb.WriteString(st.S.xp())
	}
	return sb.String()
}

func (s Sel) coq() string {
	out := "S1 (" + s[0].S.coq() + ")"
	for _, st := range s[1:] {
		c := "SDesc"
		if st.Child {
			c = "SChild"
		}
		out = c + " (" + out + ") (" + st.S.coq() + ")"
	}
	return out
}

// CSS semantics: the last component matches n, earlier ones match ancestors
// anywhere up to the document root
func (s Sel) matchCSS(n *Node) bool {
	last := len(s) - 1
	if !s[last].S.match(n) {
		return false
	}
	if last == 0 {
		return true
	}
	if s[last].Child {
		return n.Par != nil && n.Par.Tag != "#document" && s[:last].matchCSS(n.Par)
	}
	for p := n.Par; p != nil && p.Tag != "#document"; p = p.Par {
		if s[:last].matchCSS(p) {
			return true
		}
	}
	return false
}

// expected match list of the generator: strict descendants of ctx in document order
func expected(ctx *Node, s Sel) []*Node {
	var all, out []*Node
	elements(ctx, &all)
	for _, n := range all {
		if s.matchCSS(n) {
			out = append(out, n)
		}
	}
	return out
}

func (g *gen) simpleFor(n *Node) Simple {
	r := g.rng
	switch r.Intn(4) {
	case 0:
		if v, ok := n.attr("class"); ok {
			ws := strings.Fields(v)
			return Simple{'c', ws[r.Intn(len(ws))]}
		}
	case 1:
		if v, ok := n.attr("id"); ok {
			return Simple{'i', v}
		}
	}
	return Simple{'t', n.Tag}
}

func (g *gen) randomSimple() Simple {
	r := g.rng
	switch r.Intn(3) {
	case 0:
		tags := []string{"div", "section", "span", "ul", "li", "p", "em", "body", "table"}
		return Simple{'t', tags[r.Intn(len(tags))]}
	case 1:
		return Simple{'c', append(classPool, "nope")[r.Intn(len(classPool)+1)]}
	}
	return Simple{'i', append(idPool, "nope")[r.Intn(len(idPool)+1)]}
}

// selector aimed at a real element (so that matches exist), or random
func (g *gen) selector(all []*Node) Sel {
	r := g.rng
	if len(all) == 0 || r.Intn(6) == 0 {
		s := Sel{{S: g.randomSimple()}}
		for r.Intn(3) == 0 {
			s = append(s, Step{Child: r.Intn(2) == 0, S: g.randomSimple()})
		}
		return s
	}
	n := all[r.Intn(len(all))]
	s := Sel{{S: g.simpleFor(n)}}
	if r.Intn(2) == 0 {
		return s
	}
	// prepend components taken from ancestors
	cur := n
	for len(s) < 3 && cur.Par != nil && cur.Par.Tag != "#document" {
		var anc *Node
		child := r.Intn(2) == 0
		if child {
			anc = cur.Par
		} else {
			anc = cur.Par
			for anc.Par != nil && anc.Par.Tag != "#document" && r.Intn(2) == 0 {
				anc = anc.Par
			}
		}
		s[0].Child = child
		s = append(Sel{{S: g.simpleFor(anc)}}, s...)
		cur = anc
		if r.Intn(2) == 0 {
			break
		}
	}
	return s
}

// ---------- markup back to trees (the projection of INNER_HTML observations)

func fromHTMLNode(n *html.Node) *Node {
	switch n.Type {
	case html.TextNode:
		return &Node{Text: n.Data}
	case html.ElementNode, html.DocumentNode:
		out := &Node{Tag: n.Data}
		if n.Type == html.DocumentNode {
			out.Tag = "#document"
		}
		for _, a := range n.Attr {
			if a.Key == "style" {
				out.Style = parseStyle(a.Val)
			} else {
				out.Attrs = append(out.Attrs, [2]string{a.Key, a.Val})
			}
		}
		for c := n.FirstChild; c != nil; c = c.NextSibling {
			if k := fromHTMLNode(c); k != nil {
				out.Kids = append(out.Kids, k)
			}
		}
		return out
	}
	return nil
}

func parseStyle(v string) [][2]string {
	var out [][2]string
	for _, d := range strings.Split(v, ";") {
		d = strings.TrimSpace(d)
		if d == "" {
			continue
		}
		kv := strings.SplitN(d, ":", 2)
		if len(kv) != 2 {
			out = append(out, [2]string{d, ""})
			continue
		}
		out = append(out, [2]string{strings.TrimSpace(kv[0]), strings.TrimSpace(kv[1])})
	}
	return out
}

// parseForest: the children a piece of markup denotes inside an element with tag ctxTag
func parseForest(markup, ctxTag string) ([]*Node, error) {
	if ctxTag == "#document" {
		d, err := html.Parse(strings.NewReader(markup))
		if err != nil {
			return nil, err
		}
		return fromHTMLNode(d).Kids, nil
	}
	ns, err := html.ParseFragment(strings.NewReader(markup), &html.Node{Type: html.ElementNode, Data: ctxTag, DataAtom: atom.Lookup([]byte(ctxTag))})
	if err != nil {
		return nil, err
	}
	var out []*Node
	for _, n := range ns {
		if k := fromHTMLNode(n); k != nil {
			out = append(out, k)
		}
	}
	return out, nil
}

func sameTree(a, b *Node) bool {
	if a.Tag != b.Tag || a.Text != b.Text || len(a.Kids) != len(b.Kids) || len(a.Attrs) != len(b.Attrs) || len(a.Style) != len(b.Style) {
		return false
	}
	for i := range a.Attrs {
		if a.Attrs[i] != b.Attrs[i] {
			return false
		}
	}
	for i := range a.Style {
		if a.Style[i] != b.Style[i] {
			return false
		}
	}
	for i := range a.Kids {
		if !sameTree(a.Kids[i], b.Kids[i]) {
			return false
		}
	}
	return true
}
