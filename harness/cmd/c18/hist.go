package main

// Histories of reads and writes through ONE element wrapper (e = ELEMENT(d, s)):
// STYLE_GET / STYLE_SET / STYLE_REMOVE / ATTR_GET / ATTR_SET (one attribute,
// style as text or as object, bulk object) / ATTR_REMOVE / .style / .attributes,
// and the same reads through a second wrapper of the node.  One FQL program per
// history; every read is compared with what the model (Dom.v, w_run) says after
// the writes so far.

import (
	"encoding/json"
	"fmt"
	"math/rand"
	"sort"
	"strings"
)

type hop struct {
	Coq  string // term of Check/C18.v
	FQL  string // expression over e / d / @s
	Read bool
	Form string                   // surface form, for the distribution
	Proj func(interface{}) string // raw JSON value of a read -> observation term
}

var (
	hStyleNames = []string{"color", "width", "display", "margin", "float", "zz"}
	hStyleVals  = []string{"red", "blue", "green", "10px", "2em", "5px", "block", "none", "inline", "auto", "left"}
	hAttrWrite  = []string{"data-w", "title", "data-k", "lang"}
	hAttrRead   = []string{"id", "class", "title", "data-k", "data-n", "data-w", "lang", "style", "zz"}
	hAttrVals   = []string{"nv", "z9", "w w", "q", "blue"}
)

func fqlStr(s string) string { return `"` + s + `"` }

func fqlList(xs []string) string {
	q := make([]string, len(xs))
	for i, x := range xs {
		q[i] = fqlStr(x)
	}
	return strings.Join(q, ", ")
}

func coqStrs(xs []string) string {
	q := make([]string, len(xs))
	for i, x := range xs {
		q[i] = coqStr(x)
	}
	return "[" + strings.Join(q, ";") + "]"
}

func fqlObj(kvs [][2]string) string {
	q := make([]string, len(kvs))
	for i, kv := range kvs {
		q[i] = fqlStr(kv[0]) + ": " + fqlStr(kv[1])
	}
	return "{" + strings.Join(q, ", ") + "}"
}

func pick(rng *rand.Rand, pool []string, n int) []string {
	perm := rng.Perm(len(pool))
	out := make([]string, 0, n)
	for _, i := range perm[:n] {
		out = append(out, pool[i])
	}
	return out
}

func genDecls(rng *rand.Rand, min int) [][2]string {
	n := min + rng.Intn(3)
	var out [][2]string
	for _, k := range pick(rng, hStyleNames[:5], n) {
		out = append(out, [2]string{k, hStyleVals[rng.Intn(len(hStyleVals))]})
	}
	return out
}

// the text of a style attribute, in one of the spellings DeserializeStyles accepts
func styleText(rng *rand.Rand, ds [][2]string) string {
	var sb strings.Builder
	switch rng.Intn(3) {
	case 0: // SerializeStyles' own format
		return serStyle(ds)
	case 1:
		for i, kv := range ds {
			if i > 0 {
				sb.WriteString(";")
			}
			sb.WriteString(kv[0] + ":" + kv[1])
		}
	default:
		for i, kv := range ds {
			if i > 0 {
				sb.WriteString("; ")
			}
			sb.WriteString(kv[0] + ": " + kv[1])
		}
	}
	return sb.String()
}

// ---------- projections of read results

func pairsTerm(v interface{}) string {
	m, ok := v.(map[string]interface{})
	if !ok {
		return "OErr"
	}
	ks := make([]string, 0, len(m))
	for k := range m {
		ks = append(ks, k)
	}
	sort.Strings(ks)
	parts := make([]string, len(ks))
	for i, k := range ks {
		parts[i] = "OL [" + osTerm(k) + ";" + generic(m[k]) + "]"
	}
	return "OL [" + strings.Join(parts, ";") + "]"
}

// the raw text of a style attribute -> its declarations sorted by name (a later
// declaration of a name replaces the earlier one)
func rawStyleTerm(v interface{}) string {
	s, ok := v.(string)
	if !ok {
		return "OErr"
	}
	m := map[string]interface{}{}
	for _, kv := range parseStyle(s) {
		m[kv[0]] = kv[1]
	}
	return pairsTerm(m)
}

func attrValTerm(name string, v interface{}) string {
	if name == "style" {
		return rawStyleTerm(v)
	}
	return generic(v)
}

func projStyleObjNames(names []string) func(interface{}) string {
	return func(v interface{}) string { return byNames(v, names) }
}

func projAttrObjNames(names []string) func(interface{}) string {
	return func(v interface{}) string {
		m, ok := v.(map[string]interface{})
		if !ok {
			return "OErr"
		}
		parts := make([]string, len(names))
		for i, n := range names {
			if x, ok := m[n]; ok {
				parts[i] = attrValTerm(n, x)
			} else {
				parts[i] = "ONone"
			}
		}
		return "OL [" + strings.Join(parts, ";") + "]"
	}
}

func projAllAttrs(v interface{}) string {
	m, ok := v.(map[string]interface{})
	if !ok {
		return "OErr"
	}
	ks := make([]string, 0, len(m))
	for k := range m {
		ks = append(ks, k)
	}
	sort.Strings(ks)
	parts := make([]string, len(ks))
	for i, k := range ks {
		parts[i] = "OL [" + osTerm(k) + ";" + attrValTerm(k, m[k]) + "]"
	}
	return "OL [" + strings.Join(parts, ";") + "]"
}

// ---------- operations

// a read of the styles, through the wrapper (el = "e") or a second one
func genStyleRead(rng *rand.Rand, fresh bool) hop {
	el, c := "e", "R"
	if fresh {
		el, c = "ELEMENT(d, @s)", "F"
	}
	switch rng.Intn(4) {
	case 0:
		return hop{Coq: c + "S", FQL: el + ".style", Read: true, Form: "read:" + c + ":.style", Proj: pairsTerm}
	case 1:
		names := pick(rng, hStyleNames, 1+rng.Intn(3))
		q := make([]string, len(names))
		for i, n := range names {
			q[i] = el + ".style[" + fqlStr(n) + "]"
		}
		return hop{Coq: c + "s " + coqStrs(names), FQL: "[" + strings.Join(q, ", ") + "]", Read: true, Form: "read:" + c + ":.style[name]", Proj: generic}
	case 2:
		return hop{Coq: c + `m "style"`, FQL: el + ".attributes.style", Read: true, Form: "read:" + c + ":.attributes.style", Proj: pairsTerm}
	}
	names := pick(rng, hStyleNames, 1+rng.Intn(4))
	return hop{Coq: c + "s " + coqStrs(names), FQL: "STYLE_GET(" + el + ", " + fqlList(names) + ")", Read: true, Form: "read:" + c + ":STYLE_GET", Proj: projStyleObjNames(names)}
}

func genAttrRead(rng *rand.Rand, fresh bool) hop {
	el, c := "e", "R"
	if fresh {
		el, c = "ELEMENT(d, @s)", "F"
	}
	switch rng.Intn(3) {
	case 0:
		return hop{Coq: c + "A", FQL: el + ".attributes", Read: true, Form: "read:" + c + ":.attributes", Proj: projAllAttrs}
	case 1:
		n := hAttrRead[rng.Intn(len(hAttrRead))]
		if n == "style" {
			return hop{Coq: c + `m "style"`, FQL: el + `.attributes["style"]`, Read: true, Form: "read:" + c + ":.attributes.style", Proj: pairsTerm}
		}
		return hop{Coq: c + "m " + coqStr(n), FQL: el + ".attributes[" + fqlStr(n) + "]", Read: true, Form: "read:" + c + ":.attributes[name]",
			Proj: func(v interface{}) string { return "OL [" + generic(v) + "]" }}
	}
	names := pick(rng, hAttrRead, 1+rng.Intn(4))
	if rng.Intn(2) == 0 {
		has := false
		for _, n := range names {
			has = has || n == "style"
		}
		if !has {
			names = append(names, "style")
		}
	}
	return hop{Coq: c + "g " + coqStrs(names), FQL: "ATTR_GET(" + el + ", " + fqlList(names) + ")", Read: true, Form: "read:" + c + ":ATTR_GET", Proj: projAttrObjNames(names)}
}

func genRead(rng *rand.Rand) hop {
	fresh := rng.Intn(4) == 0
	if rng.Intn(2) == 0 {
		return genStyleRead(rng, fresh)
	}
	return genAttrRead(rng, fresh)
}

// the ways of writing the style of an element
const nStyleWrites = 7

func genStyleWrite(rng *rand.Rand, form int) hop {
	switch form {
	case 0: // ATTR_SET(e, "style", text)
		txt := styleText(rng, genDecls(rng, 1))
		return hop{Coq: `Wa (sa "style" ` + coqStr(txt) + ")", FQL: `ATTR_SET(e, "style", ` + fqlStr(txt) + ")", Form: "write:ATTR_SET(e,style,text)"}
	case 1: // ATTR_SET(e, "style", {..})
		ds := genDecls(rng, 0)
		return hop{Coq: "Wa (ss " + coqPairs(ds) + ")", FQL: `ATTR_SET(e, "style", ` + fqlObj(ds) + ")", Form: "write:ATTR_SET(e,style,object)"}
	case 2: // bulk with a style key
		var kvs [][2]string
		var terms []string
		for _, k := range pick(rng, hAttrWrite, rng.Intn(3)) {
			v := hAttrVals[rng.Intn(len(hAttrVals))]
			kvs = append(kvs, [2]string{k, v})
			terms = append(terms, "sa "+coqStr(k)+" "+coqStr(v))
		}
		txt := styleText(rng, genDecls(rng, 1))
		at := rng.Intn(len(kvs) + 1)
		kvs = append(kvs[:at], append([][2]string{{"style", txt}}, kvs[at:]...)...)
		terms = append(terms[:at], append([]string{`sa "style" ` + coqStr(txt)}, terms[at:]...)...)
		return hop{Coq: "Wb [" + strings.Join(terms, ";") + "]", FQL: "ATTR_SET(e, " + fqlObj(kvs) + ")", Form: "write:ATTR_SET(e,{..style..})"}
	case 3:
		k, v := hStyleNames[rng.Intn(5)], hStyleVals[rng.Intn(len(hStyleVals))]
		return hop{Coq: "Ws " + coqStr(k) + " " + coqStr(v), FQL: "STYLE_SET(e, " + fqlStr(k) + ", " + fqlStr(v) + ")", Form: "write:STYLE_SET(e,name,value)"}
	case 4:
		ds := genDecls(rng, 0)
		return hop{Coq: "Wss " + coqPairs(ds), FQL: "STYLE_SET(e, " + fqlObj(ds) + ")", Form: "write:STYLE_SET(e,object)"}
	case 5:
		names := []string{"style"}
		if rng.Intn(2) == 0 {
			names = append(pick(rng, hAttrWrite, 1), "style")
		}
		return hop{Coq: "Xa " + coqStrs(names), FQL: "ATTR_REMOVE(e, " + fqlList(names) + ")", Form: "write:ATTR_REMOVE(e,style)"}
	}
	names := pick(rng, hStyleNames, 1+rng.Intn(3))
	return hop{Coq: "Xs " + coqStrs(names), FQL: "STYLE_REMOVE(e, " + fqlList(names) + ")", Form: "write:STYLE_REMOVE"}
}

func genOtherWrite(rng *rand.Rand) hop {
	switch rng.Intn(3) {
	case 0:
		k, v := hAttrWrite[rng.Intn(len(hAttrWrite))], hAttrVals[rng.Intn(len(hAttrVals))]
		return hop{Coq: "Wa (sa " + coqStr(k) + " " + coqStr(v) + ")", FQL: "ATTR_SET(e, " + fqlStr(k) + ", " + fqlStr(v) + ")", Form: "write:ATTR_SET(e,name,value)"}
	case 1:
		var kvs [][2]string
		var terms []string
		for _, k := range pick(rng, hAttrWrite, 1+rng.Intn(3)) {
			v := hAttrVals[rng.Intn(len(hAttrVals))]
			kvs = append(kvs, [2]string{k, v})
			terms = append(terms, "sa "+coqStr(k)+" "+coqStr(v))
		}
		return hop{Coq: "Wb [" + strings.Join(terms, ";") + "]", FQL: "ATTR_SET(e, " + fqlObj(kvs) + ")", Form: "write:ATTR_SET(e,{..})"}
	}
	names := pick(rng, append(append([]string{}, hAttrWrite...), "zz"), 1+rng.Intn(2))
	return hop{Coq: "Xa " + coqStrs(names), FQL: "ATTR_REMOVE(e, " + fqlList(names) + ")", Form: "write:ATTR_REMOVE"}
}

func genAny(rng *rand.Rand) hop {
	switch rng.Intn(5) {
	case 0, 1:
		return genRead(rng)
	case 2:
		return genOtherWrite(rng)
	}
	return genStyleWrite(rng, rng.Intn(nStyleWrites))
}

// a history: random operations around the core  read the style (fills the
// cache) - write the style in one of the seven ways - read the style
func genHistory(rng *rand.Rand) ([]hop, string) {
	var ops []hop
	for k := rng.Intn(3); k > 0; k-- {
		ops = append(ops, genAny(rng))
	}
	r1 := genStyleRead(rng, false)
	w := genStyleWrite(rng, rng.Intn(nStyleWrites))
	r2 := genStyleRead(rng, rng.Intn(5) == 0)
	ops = append(ops, r1, w, r2)
	for k := rng.Intn(4); k > 0; k-- {
		ops = append(ops, genAny(rng))
	}
	if rng.Intn(2) == 0 {
		ops = append(ops, genRead(rng))
	}
	return ops, "style read > " + strings.TrimPrefix(w.Form, "write:") + " > style read"
}

func histProgram(ops []hop) string {
	var sb strings.Builder
	sb.WriteString("LET d = PARSE(@h) LET e = ELEMENT(d, @s)\n")
	var reads []string
	for i, o := range ops {
		fmt.Fprintf(&sb, "LET x%d = %s\n", i, o.FQL)
		if o.Read {
			reads = append(reads, fmt.Sprintf("x%d", i))
		}
	}
	sb.WriteString("RETURN [" + strings.Join(reads, ", ") + "]")
	return sb.String()
}

// the observed reads as a Coq list of observation terms
func histObs(ops []hop, r qres, note string) string {
	if note != "" {
		return "[OCrash]"
	}
	switch r.Err {
	case "notfound":
		return "[ONotFound]"
	case "other":
		return "[OErr]"
	}
	dec := json.NewDecoder(strings.NewReader(r.Out))
	dec.UseNumber()
	var v interface{}
	if err := dec.Decode(&v); err != nil {
		return "[OErr]"
	}
	l, ok := v.([]interface{})
	if !ok {
		return "[OErr]"
	}
	var parts []string
	k := 0
	for _, o := range ops {
		if !o.Read {
			continue
		}
		if k < len(l) {
			parts = append(parts, o.Proj(l[k]))
		}
		k++
	}
	for ; k < len(l); k++ {
		parts = append(parts, "OErr")
	}
	return "[" + strings.Join(parts, ";") + "]"
}
