package main

// C18: static-page DOM queries are mutually consistent.  Random well-formed
// documents x selectors x contexts; every observation of the implementation is
// written next to the tree so that coq/theories/Check/C18.v recomputes it from
// the model (Dom.v).  All implementation code runs in child processes.

import (
	"bufio"
	"bytes"
	"crypto/sha1"
	"encoding/json"
	"fmt"
	"io"
	"math/rand"
	"os"
	"os/exec"
	"path/filepath"
	"sort"
	"strings"
	"time"

	. "verif/harness/common"

	"golang.org/x/net/html"
)

func main() {
	if len(os.Args) > 1 && os.Args[1] == "-worker" {
		worker()
		return
	}
	out, tier, seed, _ := Args()
	run(out, tier, seed)
}

// ---------- worker pool (one worker, restarted when it dies)

type proc struct {
	cmd    *exec.Cmd
	in     io.WriteCloser
	lines  chan []byte
	stderr *bytes.Buffer
}

func start() *proc {
	cmd := exec.Command(os.Args[0], "-worker")
	in, err := cmd.StdinPipe()
	Must(err)
	outp, err := cmd.StdoutPipe()
	Must(err)
	p := &proc{cmd: cmd, in: in, lines: make(chan []byte, 1), stderr: &bytes.Buffer{}}
	cmd.Stderr = &limited{buf: p.stderr, max: 600}
	Must(cmd.Start())
	go func() {
		r := bufio.NewReaderSize(outp, 1<<20)
		for {
			line, err := r.ReadBytes('\n')
			if len(line) > 0 && err == nil {
				p.lines <- line
			}
			if err != nil {
				close(p.lines)
				return
			}
		}
	}()
	return p
}

type limited struct {
	buf *bytes.Buffer
	max int
}

func (l *limited) Write(b []byte) (int, error) {
	if room := l.max - l.buf.Len(); room > 0 {
		if len(b) > room {
			l.buf.Write(b[:room])
		} else {
			l.buf.Write(b)
		}
	}
	return len(b), nil
}

func (p *proc) stop() {
	p.in.Close()
	p.cmd.Process.Kill()
	p.cmd.Wait()
}

type runner struct {
	p        *proc
	crashes  int
	restarts int
}

// do runs one unit; when the worker dies or does not answer in time the unit
// is reported as crashed (with the first line the runtime printed)
func (r *runner) do(req unitReq) (unitResp, string) {
	if r.p == nil {
		r.p = start()
		r.restarts++
	}
	b, _ := json.Marshal(req)
	b = append(b, '\n')
	if _, err := r.p.in.Write(b); err != nil {
		note := "worker not accepting input: " + firstLine(r.p.stderr.String())
		r.p.stop()
		r.p = nil
		r.crashes++
		return unitResp{}, note
	}
	select {
	case line, ok := <-r.p.lines:
		if !ok {
			r.p.cmd.Wait()
			note := "worker died: " + firstLine(r.p.stderr.String())
			if strings.Contains(r.p.stderr.String(), "harness error") {
				fmt.Fprintln(os.Stderr, r.p.stderr.String())
				os.Exit(2)
			}
			r.p = nil
			r.crashes++
			return unitResp{}, note
		}
		var resp unitResp
		Must(json.Unmarshal(line, &resp))
		return resp, ""
	case <-time.After(20 * time.Second):
		r.p.stop()
		r.p = nil
		r.crashes++
		return unitResp{}, "worker hung for 20s (killed)"
	}
}

func firstLine(s string) string {
	s = strings.TrimSpace(s)
	if i := strings.Index(s, "fatal error:"); i >= 0 {
		s = s[i:]
	}
	if i := strings.IndexByte(s, '\n'); i >= 0 {
		s = s[:i]
	}
	if s == "" {
		return "(no message)"
	}
	return s
}

// ---------- observations as terms of Check/C18.v

func osTerm(s string) string {
	if plain(s) {
		return `os "` + s + `"`
	}
	return `OS (hx "` + fmt.Sprintf("%x", s) + `")`
}

func generic(v interface{}) string {
	switch x := v.(type) {
	case nil:
		return "ONone"
	case bool:
		if x {
			return "OB true"
		}
		return "OB false"
	case json.Number:
		if i, err := x.Int64(); err == nil {
			return fmt.Sprintf("OI (%d)", i)
		}
		return "OErr"
	case string:
		return osTerm(x)
	case []interface{}:
		parts := make([]string, len(x))
		for i, e := range x {
			parts[i] = generic(e)
		}
		return "OL [" + strings.Join(parts, ";") + "]"
	}
	return "OErr"
}

func byNames(v interface{}, names []string) string {
	m, ok := v.(map[string]interface{})
	if !ok {
		return "OErr"
	}
	parts := make([]string, len(names))
	for i, n := range names {
		if e, ok := m[n]; ok {
			parts[i] = generic(e)
		} else {
			parts[i] = "ONone"
		}
	}
	return "OL [" + strings.Join(parts, ";") + "]"
}

func keysOf(v interface{}) string {
	m, ok := v.(map[string]interface{})
	if !ok {
		return "OErr"
	}
	ks := make([]string, 0, len(m))
	for k := range m {
		ks = append(ks, k)
	}
	sort.Strings(ks)
	parts := make([]string, len(ks))
	for i, k := range ks {
		parts[i] = osTerm(k)
	}
	return "OL [" + strings.Join(parts, ";") + "]"
}

func forestTerm(v interface{}, ctxTag string) string {
	s, ok := v.(string)
	if !ok {
		return "OErr"
	}
	f, err := parseForest(s, ctxTag)
	if err != nil {
		return "OErr"
	}
	for _, n := range f {
		if !plainTree(n) {
			return "OErr"
		}
	}
	return "OF " + coqForest(f)
}

func plainTree(n *Node) bool {
	if !plain(n.Text) || !plain(n.Tag) {
		return false
	}
	for _, a := range append(append([][2]string{}, n.Attrs...), n.Style...) {
		if !plain(a[0]) || !plain(a[1]) {
			return false
		}
	}
	for _, k := range n.Kids {
		if !plainTree(k) {
			return false
		}
	}
	return true
}

func mapList(v interface{}, f func(int, interface{}) string) string {
	l, ok := v.([]interface{})
	if !ok {
		return "OErr"
	}
	parts := make([]string, len(l))
	for i, e := range l {
		parts[i] = f(i, e)
	}
	return "OL [" + strings.Join(parts, ";") + "]"
}

type dcase struct {
	Ctx  *Node // nil: the document
	S    Sel
	Exp  []*Node // the generator's expected match list
	P    map[string]string
	Frag []*Node
}

func tagAt(exp []*Node, i int) string {
	if i < len(exp) {
		return exp[i].Tag
	}
	return "div"
}

// toOval projects the raw output of query q to the compared observation
func toOval(q int, r qres, cs *dcase) string {
	switch r.Err {
	case "notfound":
		return "ONotFound"
	case "other":
		return "OErr"
	}
	dec := json.NewDecoder(strings.NewReader(r.Out))
	dec.UseNumber()
	var v interface{}
	if err := dec.Decode(&v); err != nil {
		return "OErr"
	}
	ctxTag := "#document"
	if cs.Ctx != nil {
		ctxTag = cs.Ctx.Tag
	}
	k := cs.P["k"]
	switch q {
	case 8, 9, 28:
		return mapList(v, func(i int, e interface{}) string { return forestTerm(e, tagAt(cs.Exp, i)) })
	case 10, 11, 30, 31:
		return forestTerm(v, tagAt(cs.Exp, 0))
	case 51:
		return forestTerm(v, ctxTag)
	case 40:
		return mapList(v, func(_ int, e interface{}) string { return byNames(e, attrNames) })
	case 42:
		return mapList(v, func(_ int, e interface{}) string { return keysOf(e) })
	case 43:
		return mapList(v, func(_ int, e interface{}) string { return byNames(e, styleNames) })
	case 46:
		return byNames(v, attrNames)
	case 47:
		return byNames(v, styleNames)
	case 60, 61:
		names := append([]string{k}, attrNames...)
		if q == 61 {
			names = append([]string{k}, styleNames...)
		}
		l, ok := v.([]interface{})
		if !ok || len(l) != 3 {
			return "OErr"
		}
		one := func(e interface{}) string {
			m, ok := e.(map[string]interface{})
			if !ok {
				return "OErr"
			}
			if x, ok := m[k]; ok {
				return generic(x)
			}
			return "ONone"
		}
		return "OL [" + byNames(l[0], names) + ";" + mapList(l[1], func(_ int, e interface{}) string { return one(e) }) + ";" + byNames(l[2], names) + "]"
	case 62:
		l, ok := v.([]interface{})
		if !ok || len(l) != 7 {
			return "OErr"
		}
		return "OL [" + generic(l[0]) + ";" + generic(l[1]) + ";" + generic(l[2]) + ";" + generic(l[3]) + ";" +
			forestTerm(l[4], tagAt(cs.Exp, 0)) + ";" + generic(l[5]) + ";" + generic(l[6]) + "]"
	case 63:
		l, ok := v.([]interface{})
		if !ok || len(l) != 3 {
			return "OErr"
		}
		return "OL [" + forestTerm(l[0], tagAt(cs.Exp, 0)) + ";" + generic(l[1]) + ";" + generic(l[2]) + "]"
	}
	return generic(v)
}

func argsOf(q int, cs *dcase) string {
	switch q {
	case 60, 61:
		return "[" + osTerm(cs.P["k"]) + ";" + osTerm(cs.P["v"]) + "]"
	case 62:
		return "[" + osTerm(cs.P["t"]) + "]"
	case 63:
		return "[OF " + coqForest(cs.Frag) + "]"
	}
	return "[]"
}

// ---------- the run

func coqStrList(xs []string) string {
	q := make([]string, len(xs))
	for i, x := range xs {
		q[i] = `bs "` + x + `"`
	}
	return "[" + strings.Join(q, ";") + "]"
}

func clip(s string, n int) string {
	if len(s) > n {
		return s[:n] + "..."
	}
	return s
}

// texts written with INNER_TEXT_SET: plain words, and text that would be markup
// or a character reference if it were parsed instead of escaped
var textWrites = []string{"newtext", "a b", "use <b>bold</b> here", "AT&amp;T", "a < b & c", "<i>x</i>", "x &lt; y", "1 > 0", "<p>", "</div> tail", "&#65;&nbsp;"}

func run(out, tier string, seed int64) {
	rng := rand.New(rand.NewSource(seed))
	nDocs, perFile := 96, 8
	if tier == "thorough" {
		nDocs, perFile = 1500, 25
	}
	m := NewMeta("C18", tier, seed)
	m.Rule = "one evaluation = one FQL query run on (document, context, selector), or one history program (reads and writes through one element wrapper); a case (document, context, selector) is non-trivial when the generator's own matcher expects at least one match; distinct = distinct (html, context, css) texts among those plus distinct (html, css, history program) texts"
	g := &gen{rng: rng, cap: 22}
	qs := allQueries()
	groups := []string{"main", "style", "wattr", "wstyle", "wtext", "whtml"}
	rn := &runner{}
	distinct := map[[20]byte]struct{}{}
	var docsIdx []interface{}
	var fileBuf *bufio.Writer
	var file *os.File
	genDisagree := 0
	var histRows []string // the histories of the documents of the current file
	nHist := 0
	closeFile := func() {
		if file != nil {
			fmt.Fprintln(fileBuf, "].")
			fmt.Fprintf(fileBuf, "Definition HIST : list hcase := [\n%s\n].\n", strings.Join(histRows, ";\n"))
			histRows = nil
			fmt.Fprintln(fileBuf, "Definition M := Eval vm_compute in (mismatches AN SN BASE DOCS ++ hmismatches BASE DOCS HIST)%list.")
			fmt.Fprintln(fileBuf, "Print M.")
			Must(fileBuf.Flush())
			Must(file.Close())
			file = nil
		}
	}
	for di := 0; di < nDocs; di++ {
		if di%perFile == 0 {
			closeFile()
			name := fmt.Sprintf("cases%d.v", di/perFile)
			var err error
			file, err = os.Create(filepath.Join(out, name))
			Must(err)
			fileBuf = bufio.NewWriterSize(file, 1<<20)
			m.Files = append(m.Files, name)
			fmt.Fprintln(fileBuf, "From Ferret Require Import Dom Check.C18.")
			fmt.Fprintln(fileBuf, "Local Open Scope string_scope.")
			fmt.Fprintf(fileBuf, "Definition AN := %s.\nDefinition SN := %s.\nDefinition BASE := %d%%N.\n", coqStrList(attrNames), coqStrList(styleNames), di)
			fmt.Fprintln(fileBuf, "Definition DOCS : list (node * list dcase) := [")
		} else {
			fmt.Fprintln(fileBuf, ";")
		}
		doc := g.document()
		htmlText := htmlOf(doc)
		// the generator stays inside the subset on which HTML5 tree construction is the identity
		parsed, err := html.Parse(strings.NewReader(htmlText))
		Must(err)
		if !sameTree(fromHTMLNode(parsed), doc) {
			fmt.Fprintln(os.Stderr, "harness error: generated document is not a fixed point of the HTML parser:", htmlText)
			os.Exit(2)
		}
		var all []*Node
		elements(doc, &all)
		m.Count(fmt.Sprintf("doc-elements:%02d-%02d", len(all)/5*5, len(all)/5*5+4))
		// contexts and selectors
		var cases []*dcase
		for i := 0; i < 3; i++ {
			cases = append(cases, &dcase{S: g.selector(all)})
		}
		var inner []*Node
		for _, n := range all[2:] { // skip html/head; body and below
			var sub []*Node
			elements(n, &sub)
			if len(sub) > 0 {
				inner = append(inner, n)
			}
		}
		for i := 0; i < 2 && len(inner) > 0; i++ {
			c := inner[rng.Intn(len(inner))]
			if _, ok := c.attr("data-n"); !ok {
				continue // body carries no number
			}
			var sub []*Node
			elements(c, &sub)
			cases = append(cases, &dcase{Ctx: c, S: g.selector(sub)})
		}
		// a selector that matches the context element itself (its own tag / attribute / class):
		// queries are about descendants, the context never matches itself
		var numbered []*Node
		for _, n := range all[2:] {
			if _, ok := n.attr("data-n"); ok {
				numbered = append(numbered, n)
			}
		}
		for i := 0; i < 2 && len(numbered) > 0; i++ {
			c := numbered[rng.Intn(len(numbered))]
			cases = append(cases, &dcase{Ctx: c, S: g.selector([]*Node{c})})
		}
		docIdx := map[string]interface{}{"html": htmlText}
		var caseIdx []interface{}
		var histIdx []interface{}
		fmt.Fprintf(fileBuf, " (e \"#document\" [] [] %s, [\n", coqForest(doc.Kids))
		for ci, cs := range cases {
			ctxNode, ctxSel, ctxCoq, ctxName := doc, "", "None", "document"
			if cs.Ctx != nil {
				id, _ := cs.Ctx.attr("data-n")
				ctxNode, ctxSel, ctxCoq, ctxName = cs.Ctx, "[data-n='"+id+"']", `Some (bs "`+id+`")`, cs.Ctx.Tag+"[data-n="+id+"]"
			}
			cs.Exp = expected(ctxNode, cs.S)
			css, xp := cs.S.css(), cs.S.xpath()
			// from an element that does not itself match the first step, '//x' and './/x' name the same
			// nodes (the element is the root of what the query sees): half of those cases use '//'
			if cs.Ctx != nil && !cs.S[0].S.match(cs.Ctx) && rng.Intn(2) == 0 {
				xp = xp[1:]
				m.Count("xpath-leading-double-slash-on-element")
			}
			wk := []string{"data-w", "title", "data-k", "viewBox", "dataId"}[rng.Intn(5)] // names are kept as written, upper-case letters included
			sk := append(append([]string{}, styleKeys...), "float")[rng.Intn(len(styleKeys)+1)]
			frags := [][]*Node{
				{{Tag: "span", Attrs: [][2]string{{"data-n", "901"}}, Kids: []*Node{{Text: "zz"}}}},
				{{Tag: "em", Kids: []*Node{{Text: "q"}}}, {Text: "tail"}},
				{{Text: "plain"}},
				{},
			}
			cs.Frag = frags[rng.Intn(len(frags))]
			var fsb strings.Builder
			for _, f := range cs.Frag {
				renderHTML(f, &fsb)
			}
			val := []string{"nv", "z9", "blue"}[rng.Intn(3)]
			if wk == "data-w" && rng.Intn(2) == 0 {
				val = "w w" // attribute values may contain spaces
			}
			cs.P = map[string]string{"h": htmlText, "c": ctxSel, "s": css, "x": xp, "xc": "count(" + xp + ")",
				"k": wk, "v": val, "t": textWrites[rng.Intn(len(textWrites))], "f": fsb.String()}
			shape := "simple"
			if len(cs.S) > 1 {
				shape = "compound"
			}
			mc := len(cs.Exp)
			if mc > 2 {
				mc = 2
			}
			m.Count(fmt.Sprintf("case:%s-ctx:%s:matches-%d%s", map[bool]string{true: "doc", false: "nested"}[cs.Ctx == nil], shape, mc, map[bool]string{true: "+", false: ""}[len(cs.Exp) > 2]))
			if len(cs.Exp) > 0 {
				distinct[sha1.Sum([]byte(htmlText+"|"+ctxSel+"|"+css))] = struct{}{}
			}
			// run the implementation, group by group
			obs := map[int]string{}
			raw := map[string]string{}
			for _, grp := range groups {
				if strings.HasPrefix(grp, "w") {
					// writes: on the document context, through generated elements only
					// (markup written into html/head/body follows other parsing rules)
					if cs.Ctx != nil {
						continue
					}
					if len(cs.Exp) > 0 {
						if _, numbered := cs.Exp[0].attr("data-n"); !numbered {
							continue
						}
					}
				}
				p := cs.P
				if grp == "wstyle" {
					p = map[string]string{}
					for k, v := range cs.P {
						p[k] = v
					}
					p["k"], p["v"] = sk, []string{"green", "5px", "inline"}[rng.Intn(3)]
				}
				resp, note := rn.do(unitReq{ID: di*100 + ci, Group: grp, P: p})
				for _, q := range qs {
					if q.Group != grp {
						continue
					}
					m.Evaluations++
					csq := *cs
					csq.P = p
					if note != "" {
						obs[q.ID] = "OCrash\x00" + argsOf(q.ID, &csq)
						raw[fmt.Sprint(q.ID)] = note
						m.Count("outcome:crash")
						continue
					}
					r := resp.Res[q.ID]
					obs[q.ID] = toOval(q.ID, r, &csq) + "\x00" + argsOf(q.ID, &csq)
					if r.Err != "" {
						raw[fmt.Sprint(q.ID)] = r.Err + ": " + clip(r.Msg, 160)
						m.Count("outcome:" + r.Err)
					} else {
						raw[fmt.Sprint(q.ID)] = clip(r.Out, 240)
						m.Count("outcome:ok")
					}
				}
			}
			// histories of reads and writes through one wrapper of the first match
			if cs.Ctx == nil && len(cs.Exp) > 0 {
				if _, numbered := cs.Exp[0].attr("data-n"); numbered {
					for k := 0; k < 2; k++ {
						ops, scenario := genHistory(rng)
						prog := histProgram(ops)
						resp, note := rn.do(unitReq{ID: di*100 + ci, Group: "hist", P: map[string]string{"h": htmlText, "s": css}, Prog: prog})
						m.Evaluations++
						nHist++
						r := resp.Res[64]
						hj := len(histIdx)
						var coqOps, fqlOps []string
						var readAt []int
						for oi, o := range ops {
							coqOps = append(coqOps, o.Coq)
							fqlOps = append(fqlOps, o.FQL)
							if o.Read {
								readAt = append(readAt, oi)
							}
							m.Count("hist-op:" + o.Form)
						}
						m.Count("hist-core:" + scenario)
						histRows = append(histRows, fmt.Sprintf(" (%d%%N, %d%%N, %s, [%s], %s)", di%perFile, hj, cs.S.coq(), strings.Join(coqOps, ";"), histObs(ops, r, note)))
						impl := clip(r.Out, 600)
						if note != "" {
							impl = note
							m.Count("hist-outcome:crash")
						} else if r.Err != "" {
							impl = r.Err + ": " + clip(r.Msg, 200)
							m.Count("hist-outcome:" + r.Err)
						} else {
							m.Count("hist-outcome:ok")
						}
						distinct[sha1.Sum([]byte(htmlText+"|"+css+"|"+prog))] = struct{}{}
						histIdx = append(histIdx, map[string]interface{}{"css": css, "ops": fqlOps, "reads": readAt, "program": prog, "impl": impl, "first_match": cs.Exp[0].Tag})
					}
				}
			}
			// drift diagnostic (not the verdict): generator's matcher against ELEMENTS
			var ids []string
			for _, n := range cs.Exp {
				if id, ok := n.attr("data-n"); ok {
					ids = append(ids, osTerm(id))
				} else {
					ids = append(ids, "ONone")
				}
			}
			if got, want := obs[3], "OL ["+strings.Join(ids, ";")+"]\x00[]"; got != want {
				genDisagree++
			}
			// entries: queries sharing (observation, args)
			byText := map[string][]int{}
			var order []string
			for _, q := range qs {
				o, ok := obs[q.ID]
				if !ok {
					continue
				}
				if _, seen := byText[o]; !seen {
					order = append(order, o)
				}
				byText[o] = append(byText[o], q.ID)
			}
			fmt.Fprintf(fileBuf, "  (%s, %s, [\n", ctxCoq, cs.S.coq())
			for i, o := range order {
				parts := strings.SplitN(o, "\x00", 2)
				qn := make([]string, len(byText[o]))
				for j, q := range byText[o] {
					qn[j] = fmt.Sprint(q)
				}
				sep := ";"
				if i == len(order)-1 {
					sep = ""
				}
				fmt.Fprintf(fileBuf, "   ([%s]%%N, %s, %s)%s\n", strings.Join(qn, ";"), parts[1], parts[0], sep)
			}
			sep := ";"
			if ci == len(cases)-1 {
				sep = ""
			}
			fmt.Fprintf(fileBuf, "  ])%s\n", sep)
			caseIdx = append(caseIdx, map[string]interface{}{"ctx": ctxName, "css": css, "xpath": xp, "expected_matches": len(cs.Exp),
				"write": map[string]string{"attr": wk + "=" + cs.P["v"], "text": cs.P["t"], "html": cs.P["f"]}, "impl": raw})
			if di < 2 && ci < 2 {
				m.Samples = append(m.Samples, map[string]interface{}{"html": htmlText, "ctx": ctxName, "css": css, "xpath": xp,
					"generator_expected_matches": len(cs.Exp), "impl_ELEMENTS_COUNT": raw["1"], "impl_INNER_TEXT_ALL": raw["4"], "impl_INNER_TEXT(ELEMENT)": raw["6"]})
			}
		}
		fmt.Fprint(fileBuf, " ])")
		docIdx["cases"] = caseIdx
		docIdx["hist"] = histIdx
		docsIdx = append(docsIdx, docIdx)
	}
	closeFile()
	if rn.p != nil {
		rn.p.stop()
	}
	fq := map[string]string{}
	for _, q := range qs {
		fq[fmt.Sprint(q.ID)] = q.FQL
	}
	m.DistinctNontrivial = len(distinct)
	m.Index["docs"] = docsIdx
	m.Index["fql"] = fq
	m.Extra["histories"] = nHist
	m.Extra["worker_crashes"] = rn.crashes
	m.Extra["worker_starts"] = rn.restarts
	m.Extra["generator_matcher_vs_ELEMENTS_disagreements"] = genDisagree
	m.Write(out)
}
