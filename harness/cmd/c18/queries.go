package main

// The FQL programs whose outputs are observed, and the worker process that
// runs them.  A worker receives one unit (a case and a group of queries) per
// line on stdin and answers with one line on stdout; a crash of the
// implementation (fatal stack overflow) ends the worker, not the harness.

import (
	"bufio"
	"context"
	"encoding/json"
	"fmt"
	"os"
	"runtime/debug"
	"strings"

	. "verif/harness/common"

	"github.com/MontFerret/ferret/pkg/compiler"
	"github.com/MontFerret/ferret/pkg/drivers"
	httpdrv "github.com/MontFerret/ferret/pkg/drivers/http"
	"github.com/MontFerret/ferret/pkg/runtime"
	"github.com/MontFerret/ferret/pkg/runtime/core"
)

const prefix = `LET d = PARSE(@h) LET c = @c == "" ? d : ELEMENT(d, @c) `

func quoted(names []string) string {
	q := make([]string, len(names))
	for i, n := range names {
		q[i] = `"` + n + `"`
	}
	return strings.Join(q, ", ")
}

func members(obj, field string, names []string) string {
	q := make([]string, len(names))
	for i, n := range names {
		q[i] = fmt.Sprintf(`%s.%s["%s"]`, obj, field, n)
	}
	return "[" + strings.Join(q, ", ") + "]"
}

func nav(e string) string {
	return fmt.Sprintf(`[%[1]s.parentElement.attributes["data-n"], %[1]s.nextElementSibling.attributes["data-n"], %[1]s.previousElementSibling.attributes["data-n"], LENGTH(%[1]s.children), %[1]s.children[0].attributes["data-n"], %[1]s.nodeName]`, e)
}

type query struct {
	ID    int
	Group string // main | style | wattr | wstyle | wtext | whtml
	FQL   string
}

func allQueries() []query {
	an, sn := quoted(attrNames), quoted(styleNames)
	qs := []query{
		{1, "main", prefix + `RETURN ELEMENTS_COUNT(c, @s)`},
		{2, "main", prefix + `RETURN ELEMENT_EXISTS(c, @s)`},
		{3, "main", prefix + `FOR e IN ELEMENTS(c, @s) RETURN e.attributes["data-n"]`},
		{4, "main", prefix + `RETURN INNER_TEXT_ALL(c, @s)`},
		{5, "main", prefix + `FOR e IN ELEMENTS(c, @s) RETURN INNER_TEXT(e)`},
		{6, "main", prefix + `RETURN INNER_TEXT(ELEMENT(c, @s))`},
		{7, "main", prefix + `RETURN INNER_TEXT(c, @s)`},
		{8, "main", prefix + `RETURN INNER_HTML_ALL(c, @s)`},
		{9, "main", prefix + `FOR e IN ELEMENTS(c, @s) RETURN INNER_HTML(e)`},
		{10, "main", prefix + `RETURN INNER_HTML(ELEMENT(c, @s))`},
		{11, "main", prefix + `RETURN INNER_HTML(c, @s)`},
		{12, "main", prefix + `RETURN LENGTH(ELEMENTS(c, @s))`},
		{13, "main", prefix + `LET e = ELEMENT(c, @s) RETURN e.attributes["data-n"]`},
		{21, "main", prefix + `RETURN ELEMENTS_COUNT(c, X(@x))`},
		{22, "main", prefix + `RETURN ELEMENT_EXISTS(c, X(@x))`},
		{23, "main", prefix + `FOR e IN ELEMENTS(c, X(@x)) RETURN e.attributes["data-n"]`},
		{24, "main", prefix + `RETURN INNER_TEXT_ALL(c, X(@x))`},
		{26, "main", prefix + `RETURN INNER_TEXT(ELEMENT(c, X(@x)))`},
		{27, "main", prefix + `RETURN INNER_TEXT(c, X(@x))`},
		{28, "main", prefix + `RETURN INNER_HTML_ALL(c, X(@x))`},
		{30, "main", prefix + `RETURN INNER_HTML(ELEMENT(c, X(@x)))`},
		{31, "main", prefix + `RETURN INNER_HTML(c, X(@x))`},
		{33, "main", prefix + `LET e = ELEMENT(c, X(@x)) RETURN e.attributes["data-n"]`},
		{34, "main", prefix + `FOR e IN XPATH(c, @x) RETURN e.attributes["data-n"]`},
		{35, "main", prefix + `RETURN XPATH(c, @xc)`},
		{40, "main", prefix + `FOR e IN ELEMENTS(c, @s) RETURN ATTR_GET(e, ` + an + `)`},
		{41, "main", prefix + `FOR e IN ELEMENTS(c, @s) RETURN ` + members("e", "attributes", attrNames)},
		{42, "main", prefix + `FOR e IN ELEMENTS(c, @s) RETURN e.attributes`},
		{43, "style", prefix + `FOR e IN ELEMENTS(c, @s) RETURN STYLE_GET(e, ` + sn + `)`},
		{44, "style", prefix + `FOR e IN ELEMENTS(c, @s) RETURN ` + members("e", "style", styleNames)},
		{45, "main", prefix + `FOR e IN ELEMENTS(c, @s) RETURN ` + nav("e")},
		{46, "main", prefix + `RETURN ATTR_GET(ELEMENT(c, @s), ` + an + `)`},
		{47, "style", prefix + `RETURN STYLE_GET(ELEMENT(c, @s), ` + sn + `)`},
		{48, "main", prefix + `LET e = ELEMENT(c, @s) RETURN ` + nav("e")},
		{50, "main", prefix + `RETURN INNER_TEXT(c)`},
		{51, "main", prefix + `RETURN INNER_HTML(c)`},
		{52, "main", prefix + `RETURN LENGTH(c.children)`},
		{60, "wattr", `LET d = PARSE(@h) LET e = ELEMENT(d, @s) ATTR_SET(e, @k, @v) RETURN [ATTR_GET(e, @k, ` + an + `), (FOR x IN ELEMENTS(d, @s) RETURN ATTR_GET(x, @k)), ATTR_GET(ELEMENT(d, @s), @k, ` + an + `)]`},
		{61, "wstyle", `LET d = PARSE(@h) LET e = ELEMENT(d, @s) STYLE_SET(e, @k, @v) RETURN [STYLE_GET(e, @k, ` + sn + `), (FOR x IN ELEMENTS(d, @s) RETURN STYLE_GET(x, @k)), STYLE_GET(ELEMENT(d, @s), @k, ` + sn + `)]`},
		{62, "wtext", `LET d = PARSE(@h) LET e = ELEMENT(d, @s) INNER_TEXT_SET(e, @t) RETURN [INNER_TEXT(e), INNER_TEXT(d), INNER_TEXT_ALL(d, @s), ELEMENTS_COUNT(d, @s), INNER_HTML(e), LENGTH(ELEMENT(d, @s).children), INNER_TEXT(d, @s)]`},
		{63, "whtml", `LET d = PARSE(@h) LET e = ELEMENT(d, @s) INNER_HTML_SET(e, @f) RETURN [INNER_HTML(e), INNER_TEXT(d), (FOR x IN ELEMENTS(d, @s) RETURN x.attributes["data-n"])]`},
	}
	return qs
}

type unitReq struct {
	ID    int               `json:"id"`
	Group string            `json:"group"`
	P     map[string]string `json:"p"` // h c s x xc k v t f
	Prog  string            `json:"prog,omitempty"` // group "hist": the program of one history (result under id 64)
}

type qres struct {
	Out string `json:"out,omitempty"` // JSON text returned by Run
	Err string `json:"err,omitempty"` // "" | notfound | other
	Msg string `json:"msg,omitempty"`
}

type unitResp struct {
	ID  int          `json:"id"`
	Res map[int]qres `json:"res"`
}

func errClass(err error) string {
	e := err
	for i := 0; i < 20; i++ {
		if sd, ok := e.(*core.SourceErrorDetail); ok {
			e = sd.BaseError
			continue
		}
		break
	}
	if e == drivers.ErrNotFound || strings.Contains(err.Error(), drivers.ErrNotFound.Error()) {
		return "notfound"
	}
	return "other"
}

func worker() {
	debug.SetMaxStack(4 << 20) // a runaway recursion ends the worker in milliseconds, not after 1 GB
	qs := allQueries()
	comp := compiler.New()
	progs := map[int]*runtime.Program{}
	ctx := drivers.WithContext(context.Background(), httpdrv.NewDriver(), drivers.AsDefault())
	in := bufio.NewReaderSize(os.Stdin, 1<<20)
	out := bufio.NewWriter(os.Stdout)
	for {
		line, err := in.ReadBytes('\n')
		if len(line) == 0 && err != nil {
			return
		}
		var req unitReq
		Must(json.Unmarshal(line, &req))
		resp := unitResp{ID: req.ID, Res: map[int]qres{}}
		if req.Group == "hist" {
			p, cerr := comp.Compile(req.Prog)
			if cerr != nil {
				fmt.Fprintln(os.Stderr, "harness error: history program does not compile:", cerr, req.Prog)
				os.Exit(3)
			}
			opts := []runtime.Option{runtime.WithLog(Discard)}
			for k, v := range req.P {
				opts = append(opts, runtime.WithParam(k, v))
			}
			res, rerr := p.Run(ctx, opts...)
			if rerr != nil {
				resp.Res[64] = qres{Err: errClass(rerr), Msg: rerr.Error()}
			} else {
				resp.Res[64] = qres{Out: string(res)}
			}
		}
		for _, q := range qs {
			if q.Group != req.Group {
				continue
			}
			p := progs[q.ID]
			if p == nil {
				var cerr error
				p, cerr = comp.Compile(q.FQL)
				if cerr != nil {
					fmt.Fprintln(os.Stderr, "harness error: query does not compile:", q.ID, cerr)
					os.Exit(3)
				}
				progs[q.ID] = p
			}
			opts := []runtime.Option{runtime.WithLog(Discard)}
			for k, v := range req.P {
				opts = append(opts, runtime.WithParam(k, v))
			}
			res, rerr := p.Run(ctx, opts...)
			if rerr != nil {
				resp.Res[q.ID] = qres{Err: errClass(rerr), Msg: rerr.Error()}
			} else {
				resp.Res[q.ID] = qres{Out: string(res)}
			}
		}
		b, _ := json.Marshal(resp)
		out.Write(b)
		out.WriteByte('\n')
		out.Flush()
	}
}
