package main

// C16: collection and aggregate library functions against their mathematical
// definitions.  The harness enumerates the same case families as
// coq/theories/Check/C16.v (cases_of), calls the library functions directly
// through their Go API, and writes for every group of functions a case file
// with the pools, a code book of the distinct observations and one packed
// index string per function.  A sample of the cases is also run through
// compiled FQL.  drift*.v files (implementation vs mirror, diagnostic only) are
// evaluated by the harness itself and summarised in meta.json.

import (
	"bufio"
	"context"
	"fmt"
	"math/rand"
	"os"
	"os/exec"
	"path/filepath"
	"regexp"
	"sort"
	"strings"
	"sync"

	. "verif/harness/common"

	"github.com/MontFerret/ferret/pkg/compiler"
	"github.com/MontFerret/ferret/pkg/runtime"
	"github.com/MontFerret/ferret/pkg/runtime/core"
	"github.com/MontFerret/ferret/pkg/runtime/values"
	"github.com/MontFerret/ferret/pkg/runtime/values/types"
	"github.com/MontFerret/ferret/pkg/stdlib/arrays"
	"github.com/MontFerret/ferret/pkg/stdlib/collections"
	"github.com/MontFerret/ferret/pkg/stdlib/math"
	"github.com/MontFerret/ferret/pkg/stdlib/objects"
)

type fnDef struct {
	id   int
	name string
	fn   core.Function
}

var fns = []fnDef{
	{1, "UNION", arrays.Union}, {2, "UNION_DISTINCT", arrays.UnionDistinct},
	{3, "INTERSECTION", arrays.Intersection}, {4, "MINUS", arrays.Minus},
	{5, "OUTERSECTION", arrays.Outersection}, {6, "UNIQUE", arrays.Unique},
	{7, "SORTED", arrays.Sorted}, {8, "SORTED_UNIQUE", arrays.SortedUnique},
	{9, "FLATTEN", arrays.Flatten}, {10, "SLICE", arrays.Slice},
	{11, "FIRST", arrays.First}, {12, "LAST", arrays.Last}, {13, "NTH", arrays.Nth},
	{14, "APPEND", arrays.Append}, {15, "PUSH", arrays.Push}, {16, "UNSHIFT", arrays.Unshift},
	{17, "POP", arrays.Pop}, {18, "SHIFT", arrays.Shift}, {19, "REMOVE_NTH", arrays.RemoveNth},
	{20, "REMOVE_VALUE", arrays.RemoveValue}, {21, "REMOVE_VALUES", arrays.RemoveValues},
	{22, "REVERSE", collections.Reverse}, {23, "LENGTH", collections.Length},
	{24, "INCLUDES", collections.Includes}, {25, "POSITION", arrays.Position},
	{30, "KEYS", objects.Keys}, {31, "VALUES", objects.Values}, {32, "HAS", objects.Has},
	{33, "MERGE", objects.Merge}, {34, "MERGE_RECURSIVE", objects.MergeRecursive},
	{35, "KEEP_KEYS", objects.KeepKeys}, {36, "ZIP", objects.Zip},
	{40, "MIN", math.Min}, {41, "MAX", math.Max}, {42, "SUM", math.Sum}, {43, "AVERAGE", math.Average},
	{44, "MEDIAN", math.Median}, {45, "VARIANCE_POPULATION", math.PopulationVariance},
	{46, "VARIANCE_SAMPLE", math.SampleVariance}, {47, "STDDEV_POPULATION", math.StandardDeviationPopulation},
	{48, "STDDEV_SAMPLE", math.StandardDeviationSample}, {49, "PERCENTILE", math.Percentile},
}

func fnByName(n string) fnDef {
	for _, f := range fns {
		if f.name == n {
			return f
		}
	}
	panic("no function " + n)
}

// ---------------------------------------------------------------- families

type family struct {
	Kind string `json:"kind"`
	N    int    `json:"n"`
	Ps   []int  `json:"ps,omitempty"`
}

func (f family) coq() string {
	switch f.Kind {
	case "FObj1", "FObjFlag", "FObjKey", "FObjElem", "FObjPairs", "FObjPairsArr", "FKeep":
		return f.Kind
	case "FPct":
		ps := make([]string, len(f.Ps))
		for i, p := range f.Ps {
			ps[i] = fmt.Sprint(p)
		}
		return fmt.Sprintf("(FPct %d [%s])", f.N, strings.Join(ps, "; "))
	}
	return fmt.Sprintf("(%s %d)", f.Kind, f.N)
}

type pools struct {
	P []core.Value
	K []string
	V []core.Value
}

func listsExact(pool []core.Value, n int) [][]core.Value {
	if n == 0 {
		return [][]core.Value{{}}
	}
	sub := listsExact(pool, n-1)
	var out [][]core.Value
	for _, x := range pool {
		for _, r := range sub {
			out = append(out, append([]core.Value{x}, r...))
		}
	}
	return out
}

func listsUpto(pool []core.Value, n int) [][]core.Value {
	var out [][]core.Value
	for k := 0; k <= n; k++ {
		out = append(out, listsExact(pool, k)...)
	}
	return out
}

type member struct {
	k string
	v core.Value
}

func allObjs(K []string, V []core.Value) [][]member {
	if len(K) == 0 {
		return [][]member{{}}
	}
	rest := allObjs(K[1:], V)
	out := append([][]member{}, rest...)
	for _, v := range V {
		for _, r := range rest {
			out = append(out, append([]member{{K[0], v}}, r...))
		}
	}
	return out
}

// fresh containers for every call: no value is shared between calls
func mkArr(xs []core.Value) core.Value {
	c := make([]core.Value, len(xs))
	for i, x := range xs {
		c[i] = fresh(x)
	}
	return values.NewArrayWith(c...)
}

func mkObj(ms []member) core.Value {
	o := values.NewObject()
	for _, m := range ms {
		o.Set(values.NewString(m.k), fresh(m.v))
	}
	return o
}

func fresh(v core.Value) core.Value {
	if c, ok := v.(core.Cloneable); ok {
		return c.Clone()
	}
	return v
}

func zrange(lo, n int) []int {
	out := make([]int, n)
	for i := range out {
		out[i] = lo + i
	}
	return out
}

const absentKey = "zz"

func casesOf(pl pools, f family) [][]core.Value {
	I := func(i int) core.Value { return values.NewInt(i) }
	B := func(b bool) core.Value { return values.NewBoolean(b) }
	arrs := func(n int) [][]core.Value { return listsUpto(pl.P, n) }
	objs := func() [][]member { return allObjs(pl.K, pl.V) }
	keyVals := func() []core.Value {
		var out []core.Value
		for _, k := range pl.K {
			out = append(out, values.NewString(k))
		}
		return append(out, values.NewString(absentKey))
	}
	var out [][]core.Value
	switch f.Kind {
	case "FUnary":
		for _, a := range arrs(f.N) {
			out = append(out, []core.Value{mkArr(a)})
		}
	case "FPairs":
		for _, a := range arrs(f.N) {
			for _, b := range arrs(f.N) {
				out = append(out, []core.Value{mkArr(a), mkArr(b)})
			}
		}
	case "FTriples":
		for _, a := range arrs(f.N) {
			for _, b := range arrs(f.N) {
				for _, c := range arrs(f.N) {
					out = append(out, []core.Value{mkArr(a), mkArr(b), mkArr(c)})
				}
			}
		}
	case "FElem":
		for _, a := range arrs(f.N) {
			for _, x := range pl.P {
				out = append(out, []core.Value{mkArr(a), fresh(x)})
			}
		}
	case "FElemFlag":
		for _, a := range arrs(f.N) {
			for _, x := range pl.P {
				out = append(out, []core.Value{mkArr(a), fresh(x)},
					[]core.Value{mkArr(a), fresh(x), B(false)}, []core.Value{mkArr(a), fresh(x), B(true)})
			}
		}
	case "FPos":
		for _, a := range arrs(f.N) {
			for _, p := range zrange(-2, len(a)+5) {
				out = append(out, []core.Value{mkArr(a), I(p)})
			}
		}
	case "FSlice":
		for _, a := range arrs(f.N) {
			for _, s := range zrange(-2, len(a)+5) {
				out = append(out, []core.Value{mkArr(a), I(s)})
				for _, c := range zrange(-1, len(a)+4) {
					out = append(out, []core.Value{mkArr(a), I(s), I(c)})
				}
			}
		}
	case "FRmVal":
		for _, a := range arrs(f.N) {
			for _, x := range pl.P {
				out = append(out, []core.Value{mkArr(a), fresh(x)})
				for _, c := range zrange(-1, 5) {
					out = append(out, []core.Value{mkArr(a), fresh(x), I(c)})
				}
			}
		}
	case "FDepth":
		for _, a := range arrs(f.N) {
			out = append(out, []core.Value{mkArr(a)})
			for _, d := range zrange(-1, 5) {
				out = append(out, []core.Value{mkArr(a), I(d)})
			}
		}
	case "FObj1":
		for _, o := range objs() {
			out = append(out, []core.Value{mkObj(o)})
		}
	case "FObjFlag":
		for _, o := range objs() {
			out = append(out, []core.Value{mkObj(o)}, []core.Value{mkObj(o), B(false)}, []core.Value{mkObj(o), B(true)})
		}
	case "FObjKey":
		for _, o := range objs() {
			for _, k := range keyVals() {
				out = append(out, []core.Value{mkObj(o), k})
			}
		}
	case "FObjElem":
		for _, o := range objs() {
			for _, x := range pl.V {
				out = append(out, []core.Value{mkObj(o), fresh(x)})
			}
		}
	case "FObjPairs":
		for _, a := range objs() {
			for _, b := range objs() {
				out = append(out, []core.Value{mkObj(a), mkObj(b)})
			}
		}
	case "FObjPairsArr":
		for _, a := range objs() {
			for _, b := range objs() {
				out = append(out, []core.Value{values.NewArrayWith(mkObj(a), mkObj(b))})
			}
		}
	case "FObjTriples":
		os := objs()
		if len(os) > f.N {
			os = os[:f.N]
		}
		for _, a := range os {
			for _, b := range os {
				for _, c := range os {
					out = append(out, []core.Value{mkObj(a), mkObj(b), mkObj(c)})
				}
			}
		}
	case "FKeep":
		for _, o := range objs() {
			for _, ks := range listsUpto(keyVals(), 2) {
				out = append(out, append([]core.Value{mkObj(o)}, ks...))
				out = append(out, []core.Value{mkObj(o), mkArr(ks)})
			}
		}
	case "FZip":
		var kv []core.Value
		for _, k := range pl.K {
			kv = append(kv, values.NewString(k))
		}
		for _, ks := range listsUpto(kv, f.N) {
			for _, vs := range listsUpto(pl.P, f.N) {
				out = append(out, []core.Value{mkArr(ks), mkArr(vs)})
			}
		}
	case "FPct":
		for _, a := range arrs(f.N) {
			for _, p := range f.Ps {
				out = append(out, []core.Value{mkArr(a), I(p)})
			}
		}
	default:
		panic("family " + f.Kind)
	}
	return out
}

// ---------------------------------------------------------------- observation

type observation struct {
	val   core.Value
	class byte // 'o' ok, 'e' error, 'p' panic
}

func call(f core.Function, args []core.Value) (o observation) {
	defer func() {
		if r := recover(); r != nil {
			o = observation{nil, 'p'}
		}
	}()
	v, err := f(context.Background(), args...)
	if err != nil {
		return observation{nil, 'e'}
	}
	if v == nil {
		v = values.None
	}
	return observation{v, 'o'}
}

type group struct {
	name   string
	pl     pools
	prend  []string       // rendered pool
	pidx   map[string]int // rendered pool element -> index
	book   []string       // code book entries in Coq syntax
	bookIx map[string]int
	jobs   []*job
	exp    []*expCase // explicit cases
	pexp   []*pctCase
}

type job struct {
	fn  fnDef
	fam family
	obs []int // code book index per case
	n   int
}

type expCase struct {
	fn   fnDef
	args []core.Value
	rend string
	obs  int
	tags []string
}

type pctCase struct {
	arr  []core.Value
	ps   []int
	obs  []int
	rend string
}

func newGroup(name string, pl pools) *group {
	g := &group{name: name, pl: pl, pidx: map[string]int{}, bookIx: map[string]int{}}
	for i, x := range pl.P {
		r := CoqValue(x)
		g.prend = append(g.prend, r)
		if _, dup := g.pidx[r]; !dup {
			g.pidx[r] = i
		}
	}
	return g
}

func (g *group) encode(o observation) int {
	var key string
	switch o.class {
	case 'e':
		key = "OE"
	case 'p':
		key = "OP"
	default:
		key = ""
		if o.val.Type() == types.Array && len(g.pl.P) > 0 {
			arr := o.val.(*values.Array)
			var sb strings.Builder
			ok := true
			arr.ForEach(func(x core.Value, _ int) bool {
				i, found := g.pidx[CoqValue(x)]
				if !found {
					ok = false
					return false
				}
				sb.WriteByte(byte(48 + i))
				return true
			})
			if ok {
				key = `(OA "` + sb.String() + `")`
			}
		}
		if key == "" {
			key = "(OV " + CoqValue(o.val) + ")"
		}
	}
	ix, ok := g.bookIx[key]
	if !ok {
		ix = len(g.book)
		g.book = append(g.book, key)
		g.bookIx[key] = ix
	}
	return ix
}

func (g *group) reencode(key string) int {
	ix, ok := g.bookIx[key]
	if !ok {
		ix = len(g.book)
		g.book = append(g.book, key)
		g.bookIx[key] = ix
	}
	return ix
}

func (g *group) width() int {
	switch {
	case len(g.book) <= 90:
		return 1
	case len(g.book) <= 8100:
		return 2
	}
	return 3
}

func pack90(w int, xs []int) string {
	b := make([]byte, 0, w*len(xs))
	for _, x := range xs {
		switch w {
		case 1:
			b = append(b, byte(35+x))
		case 2:
			b = append(b, byte(35+x/90), byte(35+x%90))
		default:
			b = append(b, byte(35+x/8100), byte(35+(x/90)%90), byte(35+x%90))
		}
	}
	return string(b)
}

// chunks: the packed indices as a list of string literals of at most 1500 indices each
func chunks(w int, xs []int) string {
	var parts []string
	for i := 0; i < len(xs); i += 1500 {
		j := i + 1500
		if j > len(xs) {
			j = len(xs)
		}
		parts = append(parts, `"`+CoqEscape(pack90(w, xs[i:j]))+`"`)
	}
	return "[" + strings.Join(parts, ";\n  ") + "]%string"
}

func coqArgs(args []core.Value) string {
	p := make([]string, len(args))
	for i, a := range args {
		p[i] = CoqValue(a)
	}
	return "[" + strings.Join(p, "; ") + "]"
}

func (g *group) runJob(fn fnDef, fam family, m *Meta, distinct map[string]struct{}) {
	cs := casesOf(g.pl, fam)
	j := &job{fn: fn, fam: fam, n: len(cs)}
	for _, args := range cs {
		o := call(fn.fn, args)
		j.obs = append(j.obs, g.encode(o))
		m.Evaluations++
		m.Count("fn:" + fn.name)
		m.Count("outcome:" + string(o.class))
	}
	m.DistinctNontrivial += len(cs) // enumerated cases are pairwise distinct and well-typed by construction
	g.jobs = append(g.jobs, j)
}

func (g *group) write(dir, fname, def, fun string, withPct bool) {
	f, err := os.Create(filepath.Join(dir, fname))
	Must(err)
	w := bufio.NewWriterSize(f, 1<<20)
	fmt.Fprintln(w, "From Ferret Require Import StdArrays StdObjects StdMath Check.C16.")
	fmt.Fprintf(w, "Definition PL : pools := {| P := [%s];\n  K := [%s];\n  V := [%s] |}.\n",
		strings.Join(g.prend, "; "), strings.Join(hxs(g.pl.K), "; "), strings.Join(rendAll(g.pl.V), "; "))
	fmt.Fprintln(w, "Definition OB : list obs := [")
	for i, e := range g.book {
		sep := ";"
		if i == len(g.book)-1 {
			sep = ""
		}
		fmt.Fprintf(w, " %s%s\n", e, sep)
	}
	fmt.Fprintln(w, "]%string.")
	wd := g.width()
	fmt.Fprintln(w, "Definition JOBS : list job := [")
	for i, j := range g.jobs {
		sep := ";"
		if i == len(g.jobs)-1 {
			sep = ""
		}
		fmt.Fprintf(w, " (%d%%N, %s, %d%%N, %s)%s\n", j.fn.id, j.fam.coq(), wd, chunks(wd, j.obs), sep)
	}
	fmt.Fprintln(w, "].")
	fmt.Fprintln(w, "Definition E : list (N * list value) := [")
	eo := make([]int, len(g.exp))
	for i, e := range g.exp {
		sep := ";"
		if i == len(g.exp)-1 {
			sep = ""
		}
		fmt.Fprintf(w, " (%d%%N, %s)%s\n", e.fn.id, e.rend, sep)
		eo[i] = e.obs
	}
	fmt.Fprintln(w, "].")
	fmt.Fprintf(w, "Definition ES : list string := %s.\n", chunks(wd, eo))
	if withPct {
		fmt.Fprintln(w, "Definition PE : list (list value * list Z) := [")
		var po []int
		for i, e := range g.pexp {
			sep := ";"
			if i == len(g.pexp)-1 {
				sep = ""
			}
			ps := make([]string, len(e.ps))
			for k, p := range e.ps {
				ps[k] = fmt.Sprint(p)
			}
			fmt.Fprintf(w, " (%s, [%s])%s\n", e.rend, strings.Join(ps, "; "), sep)
			po = append(po, e.obs...)
		}
		fmt.Fprintln(w, "].")
		fmt.Fprintf(w, "Definition PES : list string := %s.\n", chunks(wd, po))
		fmt.Fprintf(w, "Definition %s := Eval vm_compute in %s PL OB JOBS E %d%%N ES PE PES.\n", def, fun, wd)
	} else {
		fmt.Fprintf(w, "Definition %s := Eval vm_compute in %s PL OB JOBS E %d%%N ES.\n", def, fun, wd)
	}
	fmt.Fprintf(w, "Print %s.\n", def)
	Must(w.Flush())
	Must(f.Close())
}

func groupRank(name string) int {
	switch {
	case strings.HasPrefix(name, "explicit-0"):
		return 0
	case name == "aggregates":
		return 1
	case name == "slice-removevalue", name == "positional", name == "flatten", name == "objects", name == "zip":
		return 2
	case strings.HasPrefix(name, "explicit"):
		return 3
	case name == "triples":
		return 4
	}
	return 5
}

func hxs(ks []string) []string {
	out := make([]string, len(ks))
	for i, k := range ks {
		out[i] = Hx([]byte(k))
	}
	return out
}

func rendAll(vs []core.Value) []string {
	out := make([]string, len(vs))
	for i, v := range vs {
		out[i] = CoqValue(v)
	}
	return out
}

// ---------------------------------------------------------------- main

func I(i int64) core.Value   { return values.NewInt(int(i)) }
func F(f float64) core.Value { return values.NewFloat(f) }
func S(s string) core.Value  { return values.NewString(s) }

func main() {
	out, tier, seed, _ := Args()
	rng := rand.New(rand.NewSource(seed))
	m := NewMeta("C16", tier, seed)
	m.Rule = "exhaustive: every array of length 0..n over the element pool (pairs / triples of them, every pool element, every position in [-2,len+2], every length / limit / depth in a small range, every object over the key pool, every percentage of a fixed list), enumerated identically by the harness and by Check/C16.v; plus seeded random larger inputs and ill-typed calls written out explicitly. Enumerated cases are pairwise distinct by construction; an explicit case is non-trivial when its arguments have the types of the function's signature; distinct = distinct rendered (function, arguments)"
	thorough := tier == "thorough"
	n := 3
	main := []core.Value{I(1), I(2), S("a"), Arr(I(1))}
	nested := []core.Value{I(1), Arr(I(2)), Arr(Arr(I(3))), Arr(I(1), Arr(I(2), Arr(I(4)))), Arr(), Arr(Arr(), Arr(Arr(I(5))))}
	nums := []core.Value{I(-2), F(-1.5), F(0.5), I(3)}
	objK := []string{"a", "b", "c"}
	objV := []core.Value{I(1), Obj("a", I(1)), Obj(), values.None}
	zipP := []core.Value{I(1), S("x"), Arr(I(1))}
	tripleP := main[:3]
	tripleN := 2
	nTriObj := 9
	if thorough {
		main = append(main, F(1.0))
		nums = append(nums, I(-7), F(2.25))
		objV = append(objV, Obj("b", I(2)), Obj("a", Obj("a", I(1))))
		tripleP = main[:4]
		nTriObj = 20
	}
	distinct := map[string]struct{}{}
	var groups []*group
	add := func(name string, pl pools, jobs ...interface{}) *group {
		g := newGroup(name, pl)
		for i := 0; i+1 < len(jobs); i += 2 {
			g.runJob(fnByName(jobs[i].(string)), jobs[i+1].(family), m, distinct)
		}
		groups = append(groups, g)
		return g
	}
	mp := pools{P: main}
	for _, f := range []string{"UNION", "UNION_DISTINCT", "INTERSECTION", "MINUS", "OUTERSECTION", "REMOVE_VALUES"} {
		add("pairs-"+f, mp, f, family{Kind: "FPairs", N: n})
	}
	tri := family{Kind: "FTriples", N: tripleN}
	add("triples", pools{P: tripleP}, "UNION", tri, "UNION_DISTINCT", tri, "INTERSECTION", tri, "MINUS", tri, "OUTERSECTION", tri)
	un, ef, ps := family{Kind: "FUnary", N: n}, family{Kind: "FElemFlag", N: n}, family{Kind: "FPos", N: n}
	add("positional", mp, "UNIQUE", un, "SORTED", un, "SORTED_UNIQUE", un, "FIRST", un, "LAST", un, "POP", un, "SHIFT", un,
		"REVERSE", un, "LENGTH", un, "NTH", ps, "REMOVE_NTH", ps, "APPEND", ef, "PUSH", ef, "UNSHIFT", ef, "POSITION", ef,
		"INCLUDES", family{Kind: "FElem", N: n}, "FLATTEN", family{Kind: "FDepth", N: 2})
	add("slice-removevalue", mp, "SLICE", family{Kind: "FSlice", N: n}, "REMOVE_VALUE", family{Kind: "FRmVal", N: n})
	add("flatten", pools{P: nested}, "FLATTEN", family{Kind: "FDepth", N: n}, "UNIQUE", un, "REVERSE", un)
	op := pools{K: objK, V: objV}
	o1, opair := family{Kind: "FObj1"}, family{Kind: "FObjPairs"}
	add("objects", op, "KEYS", family{Kind: "FObjFlag"}, "VALUES", o1, "LENGTH", o1, "HAS", family{Kind: "FObjKey"},
		"INCLUDES", family{Kind: "FObjElem"}, "MERGE", o1, "MERGE", opair, "MERGE", family{Kind: "FObjPairsArr"},
		"MERGE_RECURSIVE", o1, "MERGE_RECURSIVE", opair, "KEEP_KEYS", family{Kind: "FKeep"},
		"MERGE", family{Kind: "FObjTriples", N: nTriObj}, "MERGE_RECURSIVE", family{Kind: "FObjTriples", N: nTriObj})
	add("zip", pools{P: zipP, K: []string{"a", "b"}}, "ZIP", family{Kind: "FZip", N: n})
	np := pools{P: nums}
	pcts := []int{1, 10, 25, 34, 50, 67, 75, 90, 100}
	gm := add("aggregates", np, "MIN", un, "MAX", un, "SUM", un, "AVERAGE", un, "MEDIAN", un,
		"VARIANCE_POPULATION", un, "VARIANCE_SAMPLE", un, "STDDEV_POPULATION", un, "STDDEV_SAMPLE", un,
		"PERCENTILE", family{Kind: "FPct", N: n, Ps: pcts})
	_ = gm

	// explicit cases: random larger inputs and ill-typed calls
	ge := newGroup("explicit", pools{})
	nRand := 12
	if thorough {
		nRand = 300
	}
	genExplicit(ge, rng, nRand, m, distinct)
	m.DistinctNontrivial += len(distinct)

	// through compiled FQL: a sample of the explicit cases
	fqlDiffs := runFQLSample(ge, m, thorough)
	// one case file per 400 explicit cases (literals are slow to parse)
	for lo, k := 0, 0; lo < len(ge.exp) || k == 0; lo, k = lo+400, k+1 {
		hi := lo + 400
		if hi > len(ge.exp) {
			hi = len(ge.exp)
		}
		part := newGroup(fmt.Sprintf("explicit-%d", k), pools{})
		for _, e := range ge.exp[lo:hi] {
			c := *e
			c.obs = part.reencode(ge.book[e.obs])
			part.exp = append(part.exp, &c)
		}
		if k == 0 {
			for _, pc := range ge.pexp {
				c := *pc
				c.obs = nil
				for _, o := range pc.obs {
					c.obs = append(c.obs, part.reencode(ge.book[o]))
				}
				part.pexp = append(part.pexp, &c)
			}
		}
		groups = append(groups, part)
	}

	// report order: explicit and small groups first, the large pair enumerations last
	sort.SliceStable(groups, func(i, j int) bool { return groupRank(groups[i].name) < groupRank(groups[j].name) })
	for i, g := range groups {
		g.write(out, fmt.Sprintf("cases%02d.v", i), "M", "mismatches", true)
		g.write(out, fmt.Sprintf("drift%02d.v", i), "D", "drift", false)
		m.Files = append(m.Files, fmt.Sprintf("cases%02d.v", i))
	}
	// index for lib/p_c16.py
	var gi []interface{}
	for i, g := range groups {
		var ji []interface{}
		for _, j := range g.jobs {
			ji = append(ji, map[string]interface{}{"fid": j.fn.id, "fn": j.fn.name, "family": j.fam, "obs": j.obs, "n": j.n})
		}
		var ei []interface{}
		for _, e := range g.exp {
			ei = append(ei, map[string]interface{}{"fid": e.fn.id, "fn": e.fn.name, "args": e.rend, "obs": e.obs, "tags": e.tags})
		}
		var pi []interface{}
		for _, e := range g.pexp {
			pi = append(pi, map[string]interface{}{"arr": e.rend, "ps": e.ps, "obs": e.obs})
		}
		gi = append(gi, map[string]interface{}{"file": fmt.Sprintf("cases%02d.v", i), "name": g.name,
			"P": g.prend, "K": g.pl.K, "V": rendAll(g.pl.V), "book": g.book, "jobs": ji, "explicit": ei, "pct": pi})
	}
	m.Index["groups"] = gi
	names := map[string]string{}
	for _, f := range fns {
		names[fmt.Sprint(f.id)] = f.name
	}
	m.Index["fn_names"] = names

	// drift: implementation vs mirror, evaluated here (diagnostic, never the verdict)
	m.Extra["drift_impl_vs_mirror"] = runDrift(out, len(groups))
	m.Extra["fql_vs_direct"] = map[string]interface{}{"differences": len(fqlDiffs)}
	var direct []interface{}
	for _, d := range fqlDiffs {
		direct = append(direct, d)
	}
	if len(direct) > 0 {
		m.Extra["direct_violations"] = direct
	}
	m.Extra["numeric_model"] = "ints and dyadic floats as exact rationals; SUM/MIN/MAX/MEDIAN compared exactly, AVERAGE = a double nearest to the exact quotient, VARIANCE/STDDEV within relative 2^-40 / 2^-39 of the exact rational value, PERCENTILE through its three laws"
	// samples
	for _, g := range groups {
		if len(g.jobs) > 0 {
			j := g.jobs[0]
			cs := casesOf(g.pl, j.fam)
			k := len(cs) / 2
			m.Samples = append(m.Samples, map[string]string{"fn": j.fn.name, "args": coqArgs(cs[k]), "impl": g.book[j.obs[k]]})
		}
	}
	m.Write(out)
}

// ---------------------------------------------------------------- explicit

func genExplicit(g *group, rng *rand.Rand, nRand int, m *Meta, distinct map[string]struct{}) {
	big := []core.Value{I(1), I(2), I(3), I(-5), F(2.5), F(1.0), S("a"), S("b"), S(""), values.None, values.True,
		Arr(), Arr(I(1)), Arr(I(1), I(2)), Arr(Arr(I(1))), Obj("a", I(1)), Obj("a", I(1), "b", I(2)), Obj()}
	randArr := func(min, max int) core.Value {
		k := min + rng.Intn(max-min+1)
		xs := make([]core.Value, k)
		for i := range xs {
			xs[i] = fresh(big[rng.Intn(len(big))])
		}
		return values.NewArrayWith(xs...)
	}
	randNums := func(min, max int) core.Value {
		k := min + rng.Intn(max-min+1)
		xs := make([]core.Value, k)
		neg := rng.Intn(4) == 0 // sometimes all negative
		for i := range xs {
			var v core.Value
			if rng.Intn(2) == 0 {
				v = I(rng.Int63n(2001) - 1000)
			} else {
				v = F(float64(rng.Int63n(16001)-8000) / 8)
			}
			if neg {
				switch t := v.(type) {
				case values.Int:
					if t > 0 {
						v = -t
					}
				case values.Float:
					if t > 0 {
						v = -t
					}
				}
			}
			xs[i] = v
		}
		return values.NewArrayWith(xs...)
	}
	randObj := func(depth int) core.Value {
		var mk func(d int) core.Value
		mk = func(d int) core.Value {
			o := values.NewObject()
			for _, k := range []string{"a", "b", "c", "d"} {
				switch rng.Intn(4) {
				case 0:
				case 1:
					o.Set(values.NewString(k), I(rng.Int63n(5)))
				case 2:
					if d > 0 {
						o.Set(values.NewString(k), mk(d-1))
					} else {
						o.Set(values.NewString(k), S("s"))
					}
				case 3:
					o.Set(values.NewString(k), Arr(I(rng.Int63n(3))))
				}
			}
			return o
		}
		return mk(depth)
	}
	addCase := func(name string, tags []string, args ...core.Value) {
		fn := fnByName(name)
		rend := coqArgs(args)
		o := call(fn.fn, args)
		g.exp = append(g.exp, &expCase{fn: fn, args: args, rend: rend, obs: g.encode(o), tags: tags})
		m.Evaluations++
		m.Count("fn:" + name)
		m.Count("outcome:" + string(o.class))
		m.Count("explicit:" + tags[0])
		if tags[0] == "random" {
			distinct[name+rend] = struct{}{}
		}
	}
	R := []string{"random"}
	for i := 0; i < nRand; i++ {
		for _, f := range []string{"UNION", "UNION_DISTINCT", "INTERSECTION", "MINUS", "OUTERSECTION"} {
			k := 2 + rng.Intn(3)
			args := make([]core.Value, k)
			for j := range args {
				args[j] = randArr(0, 6)
			}
			addCase(f, R, args...)
		}
		for _, f := range []string{"UNIQUE", "SORTED", "SORTED_UNIQUE", "FIRST", "LAST", "POP", "SHIFT", "REVERSE", "LENGTH", "FLATTEN"} {
			addCase(f, R, randArr(4, 9))
		}
		a := randArr(4, 9)
		ln := int(a.(*values.Array).Length())
		addCase("NTH", R, a, I(int64(rng.Intn(ln+6)-3)))
		addCase("REMOVE_NTH", R, fresh(a), I(int64(rng.Intn(ln+6)-3)))
		addCase("SLICE", R, fresh(a), I(int64(rng.Intn(ln+6)-3)), I(int64(rng.Intn(ln+3)+1)))
		addCase("SLICE", R, fresh(a), I(int64(rng.Intn(ln+6)-3)))
		addCase("FLATTEN", R, randArr(3, 6), I(int64(rng.Intn(4))))
		for _, f := range []string{"APPEND", "PUSH", "UNSHIFT", "POSITION"} {
			addCase(f, R, randArr(3, 8), fresh(big[rng.Intn(len(big))]), values.NewBoolean(rng.Intn(2) == 0))
		}
		addCase("INCLUDES", R, randArr(3, 8), fresh(big[rng.Intn(len(big))]))
		addCase("REMOVE_VALUE", R, randArr(4, 9), fresh(big[rng.Intn(5)]), I(int64(rng.Intn(4))))
		addCase("REMOVE_VALUE", R, randArr(4, 9), fresh(big[rng.Intn(5)]))
		addCase("REMOVE_VALUES", R, randArr(4, 9), randArr(0, 4))
		for _, f := range []string{"MERGE", "MERGE_RECURSIVE"} {
			k := 1 + rng.Intn(3)
			args := make([]core.Value, k)
			for j := range args {
				args[j] = randObj(2)
			}
			addCase(f, R, args...)
		}
		o := randObj(1)
		addCase("KEYS", R, o, values.True)
		addCase("VALUES", R, fresh(o))
		addCase("HAS", R, fresh(o), S([]string{"a", "b", "c", "d", "e"}[rng.Intn(5)]))
		addCase("KEEP_KEYS", R, fresh(o), S("a"), S([]string{"b", "c", "zz"}[rng.Intn(3)]))
		for _, f := range []string{"MIN", "MAX", "SUM", "AVERAGE", "MEDIAN", "VARIANCE_POPULATION", "VARIANCE_SAMPLE", "STDDEV_POPULATION", "STDDEV_SAMPLE"} {
			addCase(f, R, randNums(4, 12))
		}
		// PERCENTILE laws on a larger array
		pa := randNums(4, 30).(*values.Array)
		var xs []core.Value
		pa.ForEach(func(x core.Value, _ int) bool { xs = append(xs, x); return true })
		pset := map[int]bool{100: true}
		for len(pset) < 8 {
			pset[1+rng.Intn(100)] = true
		}
		var pl []int
		for p := range pset {
			pl = append(pl, p)
		}
		sort.Ints(pl)
		pc := &pctCase{arr: xs, ps: pl, rend: "[" + strings.Join(rendAll(xs), "; ") + "]"}
		for _, p := range pl {
			o := call(math.Percentile, []core.Value{mkArr(xs), I(int64(p))})
			pc.obs = append(pc.obs, g.encode(o))
			m.Evaluations++
			m.Count("fn:PERCENTILE")
			if o.class == 'e' {
				m.Count("percentile:error-for-valid-percentage")
			}
		}
		g.pexp = append(g.pexp, pc)
	}
	// ill-typed / wrong-arity calls: drift only (the specification says nothing)
	T := []string{"ill-typed"}
	for _, f := range fns {
		addCase(f.name, T)
		addCase(f.name, T, values.None)
		addCase(f.name, T, I(1), I(2))
		addCase(f.name, T, Arr(I(1)), S("x"), S("y"), S("z"))
		addCase(f.name, T, Obj("a", I(1)), I(1))
		addCase(f.name, T, Arr(I(1), S("a")), Arr(I(1)), I(1))
	}
	// aggregates on arrays with a non-number; MEDIAN of mixed arrays
	for _, f := range []string{"MIN", "MAX", "SUM", "AVERAGE", "MEDIAN", "VARIANCE_POPULATION", "VARIANCE_SAMPLE", "STDDEV_POPULATION"} {
		addCase(f, T, Arr(I(1), S("a")))
		addCase(f, T, Arr(S("a"), I(1), I(3)))
	}
	addCase("PERCENTILE", T, Arr(I(1), I(2)), I(0))
	addCase("PERCENTILE", T, Arr(I(1), I(2)), I(101))
	addCase("PERCENTILE", T, Arr(), I(50))
}

// ---------------------------------------------------------------- FQL sample

func sameObservation(a, b core.Value, setlike bool) bool {
	if !setlike {
		return CoqValue(a) == CoqValue(b)
	}
	aa, ok1 := a.(*values.Array)
	bb, ok2 := b.(*values.Array)
	if !ok1 || !ok2 {
		return CoqValue(a) == CoqValue(b)
	}
	var x, y []string
	aa.ForEach(func(v core.Value, _ int) bool { x = append(x, CoqValue(v)); return true })
	bb.ForEach(func(v core.Value, _ int) bool { y = append(y, CoqValue(v)); return true })
	sort.Strings(x)
	sort.Strings(y)
	return strings.Join(x, "|") == strings.Join(y, "|")
}

var setlikeFns = map[string]bool{"UNION": true, "UNION_DISTINCT": true, "INTERSECTION": true, "MINUS": true,
	"OUTERSECTION": true, "KEYS": true, "VALUES": true}

func runFQLSample(g *group, m *Meta, thorough bool) []map[string]interface{} {
	var diffs []map[string]interface{}
	step := 3
	if thorough {
		step = 5
	}
	for i := 0; i < len(g.exp); i += step {
		e := g.exp[i]
		if e.tags[0] != "random" {
			continue
		}
		direct := call(e.fn.fn, freshAll(e.args))
		if direct.class != 'o' {
			continue // failures of a call through Run are C01's subject
		}
		args := freshAll(e.args)
		var got core.Value
		c := compiler.New()
		Must(c.RegisterFunction("V", func(_ context.Context, a ...core.Value) (core.Value, error) {
			return args[int(a[0].(values.Int))], nil
		}))
		Must(c.RegisterFunction("TAKE", func(_ context.Context, a ...core.Value) (core.Value, error) {
			got = a[0]
			return values.None, nil
		}))
		ps := make([]string, len(args))
		for k := range args {
			ps[k] = fmt.Sprintf("V(%d)", k)
		}
		q := fmt.Sprintf("RETURN TAKE(%s(%s))", e.fn.name, strings.Join(ps, ", "))
		p, err := c.Compile(q)
		if err != nil {
			diffs = append(diffs, map[string]interface{}{"key": "fql|" + e.fn.name + "|" + e.rend, "fn": e.fn.name,
				"what": "query " + q + " does not compile: " + err.Error(), "tags": []string{"fql"}})
			continue
		}
		_, err = p.Run(context.Background(), runtime.WithLog(Discard))
		m.Evaluations++
		m.Count("via-fql")
		if err != nil || got == nil || !sameObservation(got, direct.val, setlikeFns[e.fn.name]) {
			g := "<error>"
			if err == nil && got != nil {
				g = CoqValue(got)
			}
			diffs = append(diffs, map[string]interface{}{"key": "fql|" + e.fn.name + "|" + e.rend, "fn": e.fn.name,
				"what": fmt.Sprintf("%s%s through compiled FQL gives %s, the direct call gives %s", e.fn.name, e.rend, g, CoqValue(direct.val)),
				"tags": []string{"fql"}})
		}
	}
	return diffs
}

func freshAll(xs []core.Value) []core.Value {
	out := make([]core.Value, len(xs))
	for i, x := range xs {
		out[i] = fresh(x)
	}
	return out
}

// ---------------------------------------------------------------- drift

func coqTheories() string {
	if d := os.Getenv("VERIF_COQ"); d != "" {
		return d
	}
	exe, err := os.Executable()
	if err == nil {
		d := filepath.Join(filepath.Dir(exe), "..", "..", "coq", "theories")
		if _, err := os.Stat(d); err == nil {
			return d
		}
	}
	return "/verif/coq/theories"
}

func runDrift(dir string, n int) map[string]interface{} {
	th := coqTheories()
	re := regexp.MustCompile(`\(\s*(\d+)%N,\s*(\d+)%N,\s*(\d+)%N\)`)
	type r struct {
		file   string
		tuples [][]string
		err    string
	}
	res := make([]r, n)
	var wg sync.WaitGroup
	sem := make(chan struct{}, 8)
	for i := 0; i < n; i++ {
		wg.Add(1)
		go func(i int) {
			defer wg.Done()
			sem <- struct{}{}
			defer func() { <-sem }()
			f := fmt.Sprintf("drift%02d.v", i)
			cmd := exec.Command("timeout", "900", "coqc", "-Q", th, "Ferret", f)
			cmd.Dir = dir
			out, err := cmd.CombinedOutput()
			res[i].file = f
			if err != nil {
				s := string(out)
				if len(s) > 400 {
					s = s[len(s)-400:]
				}
				res[i].err = err.Error() + ": " + s
				return
			}
			flat := strings.Join(strings.Fields(string(out)), " ")
			for _, t := range re.FindAllStringSubmatch(flat, -1) {
				res[i].tuples = append(res[i].tuples, t[1:])
			}
		}(i)
	}
	wg.Wait()
	total := 0
	var first []interface{}
	var errs []string
	byFn := map[string]int{}
	for _, x := range res {
		total += len(x.tuples)
		for _, t := range x.tuples {
			name := t[0]
			for _, f := range fns {
				if fmt.Sprint(f.id) == t[0] {
					name = f.name
				}
			}
			byFn[name]++
			if len(first) < 20 {
				first = append(first, map[string]interface{}{"file": x.file, "fid": t[0], "case": t[1], "job": t[2]})
			}
		}
		if x.err != "" {
			errs = append(errs, x.file+": "+x.err)
		}
	}
	return map[string]interface{}{"cases_where_mirror_differs": total, "by_function": byFn, "first": first, "not_evaluated": errs,
		"note": "diagnostic only: the verdict compares the implementation with the specification"}
}
