package main

// C20 — correspondence check for the CDP event loop (pkg/drivers/cdp/events).
//
// The real events.Loop is run, through its public API only, with 1-3 fake
// sources, 2-8 goroutines issuing random AddListener / RemoveListener /
// Listeners calls, randomized yielding, and a cancel at a random point.  Every
// instrumented action takes a tick from one totally ordered log (operation
// start / end, Ready(), Recv(), handler call, cancel, Close()); the log is the
// observable history of the model (Loop.v) and is sent to Coq, where the proved
// decision procedure of the delivery specification judges it.
//
// The concurrent part runs in a child process (the same binary with -worker):
// `fatal error: concurrent map writes` or a race-detector report (thorough tier:
// the binary is built with -race) is a direct violation and does not take the
// harness down.

import (
	"bufio"
	"bytes"
	"context"
	"crypto/sha1"
	"encoding/hex"
	"encoding/json"
	"flag"
	"fmt"
	"math/rand"
	"os"
	"os/exec"
	"path/filepath"
	"regexp"
	"runtime"
	"sort"
	"strings"
	"sync"
	"time"

	. "verif/harness/common"

	"github.com/MontFerret/ferret/pkg/drivers/cdp/events"
)

// ---------- the history ----------

// Rec is one tick.  Tag: S start, E end, Y ready, V recv, D deliver, C cancel, X close.
type Rec struct {
	Tag string `json:"t"`
	A   int    `json:"a"`   // goroutine or source
	B   int    `json:"b"`   // operation index or event number
	Op  int    `json:"op"`  // 0 add persistent, 1 add one-shot, 2 remove, 3 count; for D: kind
	Ev  int    `json:"ev"`  // event id
	X   int    `json:"x"`   // listener (remove, deliver)
	Res int    `json:"res"` // result (end)
}

type History struct {
	Idx      int    `json:"idx"`
	Seed     int64  `json:"seed"`
	Sources  int    `json:"sources"`
	Workers  int    `json:"workers"`
	Recs     []Rec  `json:"recs"`
	Unclosed []int  `json:"unclosed,omitempty"` // sources not closed 2 s after cancel
	Starved  []int  `json:"starved,omitempty"`  // sources whose events were not all received within 3 s of a running loop
	Leaked   int    `json:"leaked,omitempty"`   // goroutines above the baseline after cancel
	Note     string `json:"note,omitempty"`
}

type recorder struct {
	mu   sync.Mutex
	recs []Rec
}

func (r *recorder) tick(x Rec) {
	r.mu.Lock()
	r.recs = append(r.recs, x)
	r.mu.Unlock()
}

// ---------- the fake source ----------

type payload struct{ src, seq, ev int }

type fakeSource struct {
	id     int
	evs    []int
	rec    *recorder
	ready  chan struct{}
	done   chan struct{}
	recvd  int // touched by the consumer goroutine only
	closed chan struct{}
	once   sync.Once
	nclose int
	rng    *rand.Rand
}

func (s *fakeSource) Ready() <-chan struct{} {
	s.rec.tick(Rec{Tag: "Y", A: s.id, B: s.recvd})
	return s.ready
}
func (s *fakeSource) RecvMsg(interface{}) error { return nil }
func (s *fakeSource) Recv() (events.Event, error) {
	k := s.recvd
	ev := s.evs[k]
	s.rec.tick(Rec{Tag: "V", A: s.id, B: k, Ev: ev})
	s.recvd++
	return events.Event{ID: events.ID(ev), Data: payload{s.id, k, ev}}, nil
}
func (s *fakeSource) Close() error {
	s.rec.tick(Rec{Tag: "X", A: s.id})
	s.once.Do(func() { close(s.done); close(s.closed) })
	return nil
}

// feed offers the events one by one, pacing them randomly
func (s *fakeSource) feed(pause func(*rand.Rand), giveup <-chan struct{}) {
	for range s.evs {
		pause(s.rng)
		select {
		case s.ready <- struct{}{}:
		case <-s.done:
			return
		case <-giveup: // the consumer left without closing the source
			return
		}
	}
}

func pause(r *rand.Rand) {
	switch r.Intn(6) {
	case 0, 1:
		runtime.Gosched()
	case 2:
		time.Sleep(time.Duration(r.Intn(60)) * time.Microsecond)
	case 3:
		time.Sleep(time.Duration(r.Intn(300)) * time.Microsecond)
	}
}

// waitOrStuck: the loop's API never blocks for long; a goroutine stuck in AddListener /
// RemoveListener / Listeners (or a dispatch that never ends) is reported and ends the worker
func waitOrStuck(wg *sync.WaitGroup, what string, idx int) {
	done := make(chan struct{})
	go func() { wg.Wait(); close(done) }()
	select {
	case <-done:
	case <-time.After(10 * time.Second):
		fmt.Fprintf(os.Stderr, "STUCK: history %d: %s did not finish within 10 s (deadlock?)\n", idx, what)
		os.Exit(4)
	}
}

// ---------- one history ----------

func runHistory(idx int, seed int64) History {
	rng := rand.New(rand.NewSource(seed))
	nSrc := 1 + rng.Intn(3)
	nG := 2 + rng.Intn(7)
	nEv := 1 + rng.Intn(3) // event ids 1..nEv, shared by all sources
	rec := &recorder{}
	h := History{Idx: idx, Seed: seed, Sources: nSrc, Workers: nG}
	base := runtime.NumGoroutine()

	srcs := make([]*fakeSource, nSrc)
	factories := make([]events.SourceFactory, nSrc)
	for c := 0; c < nSrc; c++ {
		n := 2 + rng.Intn(8)
		evs := make([]int, n)
		for i := range evs {
			evs[i] = 1 + rng.Intn(nEv)
		}
		s := &fakeSource{id: c, evs: evs, rec: rec, ready: make(chan struct{}), done: make(chan struct{}),
			closed: make(chan struct{}), rng: rand.New(rand.NewSource(rng.Int63()))}
		srcs[c] = s
		factories[c] = func(context.Context) (events.Source, error) { return s, nil }
	}
	loop := events.NewLoop(factories...)
	ctx, cancel := context.WithCancel(context.Background())
	if err := loop.Run(ctx); err != nil {
		h.Note = "Run: " + err.Error()
		cancel()
		return h
	}

	var lmu sync.Mutex
	nextL := 0
	newL := func() int { lmu.Lock(); defer lmu.Unlock(); nextL++; return nextL - 1 }

	type added struct {
		l, ev int
		id    events.ListenerID
	}
	var wg sync.WaitGroup
	for g := 0; g < nG; g++ {
		wg.Add(1)
		grng := rand.New(rand.NewSource(rng.Int63()))
		nOps := 3 + grng.Intn(10)
		go func(g int) {
			defer wg.Done()
			var mine []added
			for i := 0; i < nOps; i++ {
				pause(grng)
				p := grng.Intn(10)
				switch {
				case p < 5 || (p < 8 && len(mine) == 0):
					ev := 1 + grng.Intn(nEv)
					kind := 0
					if grng.Intn(5) < 2 {
						kind = 1
					}
					l := newL()
					handler := func(_ context.Context, msg interface{}) bool {
						m, _ := msg.(payload)
						rec.tick(Rec{Tag: "D", A: m.src, B: m.seq, Ev: m.ev, X: l, Op: kind})
						pause(grng2(l, seed))
						return kind == 0
					}
					rec.tick(Rec{Tag: "S", A: g, B: i, Op: kind, Ev: ev})
					id := loop.AddListener(events.ID(ev), handler)
					rec.tick(Rec{Tag: "E", A: g, B: i, Op: kind, Ev: ev, Res: l})
					mine = append(mine, added{l, ev, id})
				case p < 8:
					j := grng.Intn(len(mine))
					a := mine[j]
					ev := a.ev
					if grng.Intn(8) == 0 { // wrong event: a no-op in the code and in the model
						ev = 1 + (a.ev % 3)
					} else {
						mine = append(mine[:j], mine[j+1:]...)
					}
					rec.tick(Rec{Tag: "S", A: g, B: i, Op: 2, Ev: ev, X: a.l})
					loop.RemoveListener(events.ID(ev), a.id)
					rec.tick(Rec{Tag: "E", A: g, B: i, Op: 2, Ev: ev, X: a.l})
				default:
					ev := 1 + grng.Intn(nEv)
					rec.tick(Rec{Tag: "S", A: g, B: i, Op: 3, Ev: ev})
					n := loop.Listeners(events.ID(ev))
					rec.tick(Rec{Tag: "E", A: g, B: i, Op: 3, Ev: ev, Res: n})
				}
			}
		}(g)
	}
	var fwg sync.WaitGroup
	giveup := make(chan struct{})
	for _, s := range srcs {
		fwg.Add(1)
		go func(s *fakeSource) { defer fwg.Done(); s.feed(pause, giveup) }(s)
	}
	// cancel either at a random instant or after everything has been delivered
	if rng.Intn(2) == 0 {
		time.Sleep(time.Duration(rng.Intn(2500)) * time.Microsecond)
	} else {
		waitOrStuck(&wg, "the goroutines calling AddListener / RemoveListener / Listeners", idx)
		// every source is consumed by its own goroutine: all events are taken within moments;
		// a source nobody reads from is reported instead of being waited for forever
		fed := make(chan struct{})
		go func() { fwg.Wait(); close(fed) }()
		select {
		case <-fed:
		case <-time.After(3 * time.Second):
			got := map[int]int{}
			rec.mu.Lock()
			for _, r := range rec.recs {
				if r.Tag == "V" {
					got[r.A]++
				}
			}
			rec.mu.Unlock()
			for c, s := range srcs {
				if got[s.id] < len(s.evs) {
					h.Starved = append(h.Starved, c)
				}
			}
		}
		time.Sleep(time.Duration(200+rng.Intn(800)) * time.Microsecond)
	}
	rec.tick(Rec{Tag: "C"})
	cancel()
	waitOrStuck(&wg, "the goroutines calling AddListener / RemoveListener / Listeners", idx)
	timer := time.AfterFunc(2*time.Second, func() { close(giveup) }) // no goroutine until it fires
	fwg.Wait()
	for c, s := range srcs {
		select {
		case <-s.closed:
		case <-giveup:
			h.Unclosed = append(h.Unclosed, c)
		}
	}
	timer.Stop()
	// the consumer goroutines must be gone
	for i := 0; i < 200 && runtime.NumGoroutine() > base; i++ {
		time.Sleep(time.Millisecond)
	}
	if n := runtime.NumGoroutine() - base; n > 0 {
		h.Leaked = n
	}
	rec.mu.Lock()
	h.Recs = append([]Rec(nil), rec.recs...)
	rec.mu.Unlock()
	return h
}

// handlers pause from their own small PRNG (never shared between goroutines:
// one per call)
func grng2(l int, seed int64) *rand.Rand {
	return rand.New(rand.NewSource(seed*7919 + int64(l)*104729 + time.Now().UnixNano()%97))
}

// stress: many goroutines registering and removing listeners for one event
// while a source dispatches it; on a tree where registration writes the maps
// without the exclusive lock the Go runtime aborts with
// "fatal error: concurrent map writes"
func runStress(seed int64, millis int) {
	s := &fakeSource{id: 0, rec: &recorder{}, ready: make(chan struct{}), done: make(chan struct{}),
		closed: make(chan struct{}), rng: rand.New(rand.NewSource(seed))}
	s.evs = make([]int, 1<<20)
	for i := range s.evs {
		s.evs[i] = 1
	}
	loop := events.NewLoop(func(context.Context) (events.Source, error) { return s, nil })
	ctx, cancel := context.WithCancel(context.Background())
	Must(loop.Run(ctx))
	stop := make(chan struct{})
	var wg sync.WaitGroup
	for g := 0; g < 8; g++ {
		wg.Add(1)
		go func(g int) {
			defer wg.Done()
			for {
				select {
				case <-stop:
					return
				default:
				}
				ev := events.ID(1 + g%2)
				id := loop.AddListener(ev, func(context.Context, interface{}) bool { return true })
				loop.Listeners(ev)
				loop.RemoveListener(ev, id)
			}
		}(g)
	}
	go func() {
		for {
			select {
			case s.ready <- struct{}{}:
			case <-s.done:
				return
			}
		}
	}()
	time.Sleep(time.Duration(millis) * time.Millisecond)
	close(stop)
	wg.Wait()
	cancel()
	select {
	case <-s.closed:
	case <-time.After(5 * time.Second):
		fmt.Fprintln(os.Stderr, "UNCLOSED: the source was not closed within 5 s after cancel")
		os.Exit(3)
	}
	s.rec.mu.Lock() // keep the recorder small
	s.rec.recs = nil
	s.rec.mu.Unlock()
}

// ---------- worker / parent ----------

func worker(args []string) {
	fs := flag.NewFlagSet("worker", flag.ExitOnError)
	from := fs.Int("from", 0, "")
	count := fs.Int("count", 0, "")
	seed := fs.Int64("seed", 1, "")
	outp := fs.String("o", "", "")
	stress := fs.Int("stress", 0, "stress run of that many milliseconds")
	Must(fs.Parse(args))
	if *stress > 0 {
		runStress(*seed, *stress)
		return
	}
	f, err := os.Create(*outp)
	Must(err)
	w := bufio.NewWriter(f)
	for i := *from; i < *from+*count; i++ {
		fmt.Fprintf(os.Stderr, "@history %d\n", i)
		h := runHistory(i, *seed*1000003+int64(i))
		b, _ := json.Marshal(h)
		w.Write(b)
		w.WriteByte('\n')
		w.Flush()
	}
	Must(f.Close())
}

var raceHead = regexp.MustCompile(`(?m)^WARNING: DATA RACE`)
var frameRe = regexp.MustCompile(`(?m)^\s+(github\.com/MontFerret/ferret/[^\s(]+(?:\([^)]*\))?[^\s(]*)\(`)

// raceReports splits the race detector's output into reports and names each by
// the ferret functions on top of its two stacks
func raceReports(stderr string) map[string]string {
	res := map[string]string{}
	idx := raceHead.FindAllStringIndex(stderr, -1)
	for i, m := range idx {
		end := len(stderr)
		if i+1 < len(idx) {
			end = idx[i+1][0]
		}
		rep := stderr[m[0]:end]
		if j := strings.Index(rep, "=================="); j > 0 {
			rep = rep[:j]
		}
		// the first ferret frame of each access section
		var tops []string
		for _, sec := range strings.Split(rep, "\n\n") {
			if !(strings.Contains(sec, " at 0x") || strings.HasPrefix(strings.TrimSpace(sec), "Previous") || strings.HasPrefix(strings.TrimSpace(sec), "WARNING")) {
				continue
			}
			if strings.HasPrefix(strings.TrimSpace(sec), "Goroutine") {
				continue
			}
			if fm := frameRe.FindStringSubmatch(sec); fm != nil {
				name := fm[1]
				if k := strings.LastIndex(name, "/"); k >= 0 {
					name = name[k+1:]
				}
				tops = append(tops, name)
			}
		}
		sort.Strings(tops)
		key := strings.Join(dedup(tops), " / ")
		if key == "" {
			key = "outside ferret"
		}
		if _, ok := res[key]; !ok {
			if len(rep) > 2500 {
				rep = rep[:2500]
			}
			res[key] = rep
		}
	}
	return res
}

func dedup(xs []string) []string {
	var out []string
	for i, x := range xs {
		if i == 0 || x != xs[i-1] {
			out = append(out, x)
		}
	}
	return out
}

func b64(n, width int) string {
	if n < 0 {
		n = 0
	}
	out := make([]byte, width)
	for i := width - 1; i >= 0; i-- {
		out[i] = byte(48 + n%64)
		n /= 64
	}
	return string(out)
}

func encode(h History) (string, bool) {
	var sb strings.Builder
	ok := true
	for _, r := range h.Recs {
		if r.A >= 64 || r.Ev >= 64 || r.B >= 4096 || r.X >= 4096 || r.Res >= 4096 || r.Op >= 64 {
			ok = false
		}
		sb.WriteString(r.Tag)
		sb.WriteString(b64(r.A, 1))
		sb.WriteString(b64(r.B, 2))
		sb.WriteString(b64(r.Op, 1))
		sb.WriteString(b64(r.Ev, 1))
		sb.WriteString(b64(r.X, 2))
		sb.WriteString(b64(r.Res, 2))
	}
	return sb.String(), ok
}

func main() {
	if len(os.Args) > 1 && os.Args[1] == "-worker" {
		worker(os.Args[2:])
		return
	}
	out, tier, seed, _ := Args()
	nHist, batch, stressMs := 200, 25, 1200
	if tier == "thorough" {
		nHist, batch, stressMs = 3000, 100, 6000
	}
	m := NewMeta("C20", tier, seed)
	m.Rule = "one evaluation = one recorded history of the real events.Loop (1-3 fake sources sharing 1-3 event ids, 2-8 API goroutines with 3-12 random add/remove/count operations each, random yields and sleeps, cancel at a random instant or after the last delivery) judged by the proved decision procedure; non-trivial = at least one handler call and one registration in the history; distinct = distinct encoded histories"
	var direct []map[string]interface{}
	addDirect := func(d map[string]interface{}) {
		for _, e := range direct {
			if e["key"] == d["key"] {
				return
			}
		}
		direct = append(direct, d)
	}
	env := append(os.Environ(), "GORACE=halt_on_error=0 exitcode=0 history_size=2")
	runChild := func(args []string, timeout time.Duration) (string, error, bool) {
		ctx, cancel := context.WithTimeout(context.Background(), timeout)
		defer cancel()
		cmd := exec.CommandContext(ctx, os.Args[0], append([]string{"-worker"}, args...)...)
		cmd.Env = env
		var eb bytes.Buffer
		cmd.Stderr = &eb
		cmd.Stdout = &eb
		err := cmd.Run()
		return eb.String(), err, ctx.Err() == context.DeadlineExceeded
	}
	judge := func(stderr string, err error, timedOut bool, what string, idx int) {
		for key, rep := range raceReports(stderr) {
			addDirect(map[string]interface{}{"key": "race: " + key, "kind": "schedule-log", "kinds": []string{"race"}, "tags": []string{"race"},
				"what": "data race reported by the race detector (" + key + ") while " + what, "report": rep, "seed": seed})
			m.Count("direct:race")
		}
		if timedOut {
			addDirect(map[string]interface{}{"key": fmt.Sprintf("hang: %s", what), "kind": "schedule-log", "kinds": []string{"hang"},
				"what": "the run did not finish (deadlock?) while " + what, "seed": seed})
			m.Count("direct:hang")
			return
		}
		if err != nil {
			last := -1
			for _, mm := range regexp.MustCompile(`@history (\d+)`).FindAllStringSubmatch(stderr, -1) {
				fmt.Sscan(mm[1], &last)
			}
			cls := "crash"
			line := ""
			for _, l := range strings.Split(stderr, "\n") {
				if strings.HasPrefix(l, "fatal error:") || strings.HasPrefix(l, "panic:") || strings.HasPrefix(l, "UNCLOSED:") || strings.HasPrefix(l, "STUCK:") {
					line = l
					break
				}
			}
			// two goroutines may report at once and garble the line: classify by phrase
			for _, ph := range []string{"concurrent map writes", "concurrent map read and map write", "concurrent map iteration and map write", "all goroutines are asleep"} {
				if strings.Contains(stderr, "fatal error: "+ph) || (strings.Contains(line, "fatal error:") && strings.Contains(stderr, ph)) {
					line = "fatal error: " + ph
					break
				}
			}
			if line == "" {
				line = err.Error()
			}
			snippet := stderr
			if j := strings.Index(snippet, line); j >= 0 {
				snippet = snippet[j:]
			}
			if len(snippet) > 3000 {
				snippet = snippet[:3000]
			}
			addDirect(map[string]interface{}{"key": cls + ": " + line, "kind": "schedule-log", "kinds": []string{cls}, "tags": []string{cls},
				"what": fmt.Sprintf("%s while %s (history %d of this seed): the process running the event loop died", line, what, last),
				"output": snippet, "seed": seed, "history": last})
			m.Count("direct:" + cls)
		}
	}

	// 1. recorded histories, in child processes
	var hs []History
	dead := 0
	for from := 0; from < nHist; {
		n := batch
		if from+n > nHist {
			n = nHist - from
		}
		tmp := filepath.Join(out, fmt.Sprintf("batch-%d.jsonl", from))
		stderr, err, to := runChild([]string{"-from", fmt.Sprint(from), "-count", fmt.Sprint(n), "-seed", fmt.Sprint(seed), "-o", tmp}, 5*time.Minute)
		got := 0
		if f, e := os.Open(tmp); e == nil {
			sc := bufio.NewScanner(f)
			sc.Buffer(make([]byte, 1<<20), 1<<26)
			for sc.Scan() {
				var h History
				if json.Unmarshal(sc.Bytes(), &h) == nil && h.Recs != nil {
					hs = append(hs, h)
					got++
				}
			}
			f.Close()
			os.Remove(tmp)
		}
		judge(stderr, err, to, "2-8 goroutines add / remove / count listeners during dispatch", from)
		if err != nil || to {
			from += got + 1 // skip the history that killed the worker
			dead++
			if dead >= 4 {
				break // the loop keeps killing or wedging its workers: reported, no point in going on
			}
		} else {
			from += n
		}
	}
	// 2. stress (crash / race search on the registration path)
	stderr, err, to := runChild([]string{"-stress", fmt.Sprint(stressMs), "-seed", fmt.Sprint(seed)}, 3*time.Minute)
	judge(stderr, err, to, "8 goroutines call AddListener / Listeners / RemoveListener in a tight loop during dispatch", -1)
	m.Count("stress-runs")

	// 3. case files
	distinct := map[string]struct{}{}
	nFiles := 14
	if len(hs) < nFiles {
		nFiles = 1
	}
	per := (len(hs) + nFiles - 1) / nFiles
	hf, err2 := os.Create(filepath.Join(out, "histories.jsonl"))
	Must(err2)
	hw := bufio.NewWriter(hf)
	fileIdx := map[string]interface{}{}
	for k := 0; k < nFiles && k*per < len(hs); k++ {
		name := fmt.Sprintf("cases%d.v", k)
		f, e := os.Create(filepath.Join(out, name))
		Must(e)
		w := bufio.NewWriter(f)
		fmt.Fprintln(w, "From Ferret Require Import Check.C20.")
		fmt.Fprintln(w, "Definition HS : list string := [")
		lo, hi := k*per, (k+1)*per
		if hi > len(hs) {
			hi = len(hs)
		}
		for i := lo; i < hi; i++ {
			h := hs[i]
			enc, ok := encode(h)
			if !ok {
				enc = "?"
			}
			sep := ";"
			if i == hi-1 {
				sep = ""
			}
			fmt.Fprintf(w, " \"%s\"%s\n", CoqEscape(enc), sep)
			b, _ := json.Marshal(h)
			hw.Write(b)
			hw.WriteByte('\n')
			m.Evaluations++
			nd, na := 0, 0
			for _, r := range h.Recs {
				m.Count("rec:" + r.Tag)
				if r.Tag == "D" {
					nd++
				}
				if r.Tag == "E" && r.Op < 2 {
					na++
				}
			}
			m.Count(fmt.Sprintf("sources:%d", h.Sources))
			m.Count(fmt.Sprintf("goroutines:%d", h.Workers))
			m.Count(fmt.Sprintf("deliveries:%s", bucket(nd)))
			if nd > 0 && na > 0 {
				sum := sha1.Sum([]byte(enc))
				distinct[hex.EncodeToString(sum[:])] = struct{}{}
			}
			if len(h.Starved) > 0 {
				addDirect(map[string]interface{}{"key": fmt.Sprintf("starved:%d", h.Idx), "kind": "history", "kinds": []string{"starved"},
					"what": fmt.Sprintf("history %d (seed %d, %d sources): the events of sources %v were not received within 3 s although the loop was running and nothing was cancelled", h.Idx, h.Seed, h.Sources, h.Starved), "history": h.Idx, "seed": seed})
			}
			if len(h.Unclosed) > 0 {
				addDirect(map[string]interface{}{"key": fmt.Sprintf("unclosed:%d", h.Idx), "kind": "history", "kinds": []string{"unclosed"},
					"what": fmt.Sprintf("history %d (seed %d): sources %v were not closed within 2 s after cancel", h.Idx, h.Seed, h.Unclosed), "history": h.Idx, "seed": seed})
			}
			if h.Leaked > 0 {
				addDirect(map[string]interface{}{"key": fmt.Sprintf("leak:%d", h.Idx), "kind": "history", "kinds": []string{"leak"},
					"what": fmt.Sprintf("history %d (seed %d): %d goroutine(s) of the loop still alive 200 ms after cancel and Close", h.Idx, h.Seed, h.Leaked), "history": h.Idx, "seed": seed})
			}
		}
		w.WriteString("]%string.\n")
		fmt.Fprintln(w, "Definition M := Eval vm_compute in mismatches HS.")
		fmt.Fprintln(w, "Print M.")
		Must(w.Flush())
		Must(f.Close())
		m.Files = append(m.Files, name)
		fileIdx[name] = lo
	}
	Must(hw.Flush())
	Must(hf.Close())
	m.DistinctNontrivial = len(distinct)
	m.Index["base"] = fileIdx
	m.Index["histories"] = filepath.Join(out, "histories.jsonl")
	for _, i := range []int{0, len(hs) / 2} {
		if i < len(hs) {
			h := hs[i]
			n := len(h.Recs)
			if n > 12 {
				n = 12
			}
			m.Samples = append(m.Samples, map[string]interface{}{"history": h.Idx, "sources": h.Sources, "goroutines": h.Workers,
				"records": len(h.Recs), "first_records": h.Recs[:n]})
		}
	}
	m.Extra["direct_violations"] = direct
	m.Extra["histories"] = len(hs)
	m.Extra["race_detector"] = raceEnabled
	m.Write(out)
}

func bucket(n int) string {
	switch {
	case n == 0:
		return "0"
	case n < 5:
		return "1-4"
	case n < 20:
		return "5-19"
	}
	return "20+"
}
