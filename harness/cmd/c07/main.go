package main

// C07: sign of Compare on all pairs of the universe, the comparison operators
// and search functions at the language level, SORT / SORTED, POSITION.

import (
	"bufio"
	"context"
	"fmt"
	"math/rand"
	"os"
	"path/filepath"
	"strings"

	. "verif/harness/common"

	"github.com/MontFerret/ferret/pkg/compiler"
	"github.com/MontFerret/ferret/pkg/runtime"
	"github.com/MontFerret/ferret/pkg/runtime/core"
	"github.com/MontFerret/ferret/pkg/runtime/values"
	"github.com/MontFerret/ferret/pkg/stdlib/arrays"
)

func main() {
	out, tier, seed, rest := Args()
	runC07(out, tier, seed, rest)
}

func safeCompare(a, b core.Value) (c byte) {
	defer func() {
		if r := recover(); r != nil {
			c = 'P'
		}
	}()
	r := a.Compare(b)
	switch {
	case r < 0:
		return '<'
	case r == 0:
		return '='
	}
	return '>'
}

func signDigits(row []byte) []int {
	d := make([]int, len(row))
	for i, c := range row {
		switch c {
		case '<':
			d[i] = 0
		case '=':
			d[i] = 1
		case '>':
			d[i] = 2
		default:
			d[i] = 3
		}
	}
	return d
}

// pack3: three base-4 digits per printable character (48 + d0 + 4 d1 + 16 d2)
func pack3(d []int) string {
	var sb strings.Builder
	for i := 0; i < len(d); i += 3 {
		n := d[i]
		if i+1 < len(d) {
			n += 4 * d[i+1]
		}
		if i+2 < len(d) {
			n += 16 * d[i+2]
		}
		sb.WriteByte(byte(48 + n))
	}
	return sb.String()
}

func pack6(bs []bool) byte {
	n := 0
	for i, b := range bs {
		if b {
			n |= 1 << uint(i)
		}
	}
	return byte(48 + n)
}

// valueTable lets queries obtain arbitrary run-time values (binary, datetime
// in any zone, float -0) exactly as built, without the Parse conversion.
type valueTable struct{ vals []core.Value }

func (t *valueTable) fn(_ context.Context, args ...core.Value) (core.Value, error) {
	i := int(args[0].(values.Int))
	return t.vals[i], nil
}

func runC07(out, tier string, seed int64, _ []string) {
	rng := rand.New(rand.NewSource(seed))
	nRandom, opsN, nSort := 60, 120, 60
	if tier == "thorough" {
		nRandom, opsN, nSort = 500, 400, 600
	}
	U := Universe(rng, nRandom, tier)
	m := NewMeta("C07", tier, seed)
	m.Rule = "universe = fixed scalar pool (all 9 kinds) + all width<=2 depth<=2 arrays/objects over sub-pools + seeded random values; every ordered pair is one evaluation; a pair is non-trivial when the two values are not the same universe entry; distinct = distinct rendered (a,b) texts"
	for _, v := range U {
		m.Count("kind:" + KindOf(v))
	}

	tbl := &valueTable{U}
	c := compiler.New()
	Must(c.RegisterFunction("V", tbl.fn))
	prog, err := c.Compile(`LET a = V(@i) LET b = V(@j) RETURN [a == b, a != b, a < b, a <= b, a > b, a >= b,
	  a IN [b], a NOT IN [b], POSITION([b], a), INCLUDES([b], a), [a] ALL == b, [a] ANY < b]`)
	Must(err)

	f, err := os.Create(filepath.Join(out, "cases.v"))
	Must(err)
	w := bufio.NewWriterSize(f, 1<<20)
	fmt.Fprintln(w, "From Ferret Require Import Compare Check.C07.")
	fmt.Fprintln(w, "Definition U : list value := [")
	rendered := make([]string, len(U))
	for i, v := range U {
		rendered[i] = CoqValue(v)
		sep := ";"
		if i == len(U)-1 {
			sep = ""
		}
		fmt.Fprintf(w, " %s%s\n", rendered[i], sep)
	}
	fmt.Fprintln(w, "].")
	// sign matrix
	distinct := map[string]struct{}{}
	fmt.Fprintln(w, "Definition R : list string := [")
	for i, a := range U {
		row := make([]byte, len(U))
		for j, b := range U {
			row[j] = safeCompare(a, b)
			m.Evaluations++
			m.Count("sign:" + string(row[j]))
			if i != j {
				distinct[rendered[i]+"|"+rendered[j]] = struct{}{}
			}
		}
		sep := ";"
		if i == len(U)-1 {
			sep = ""
		}
		fmt.Fprintf(w, " \"%s\"%s\n", CoqEscape(pack3(signDigits(row))), sep)
	}
	fmt.Fprintln(w, "]%string.")
	m.DistinctNontrivial = len(distinct)
	// operators through the language
	if opsN > len(U) {
		opsN = len(U)
	}
	ctx := context.Background()
	book := []string{}
	bookIdx := map[string]int{}
	orows := make([]string, opsN)
	for i := 0; i < opsN; i++ {
		var sb strings.Builder
		for j := range U {
			outb, err := prog.Run(ctx, runtime.WithParam("i", i), runtime.WithParam("j", j), runtime.WithLog(Discard))
			pat := "[]" // failure: an empty pattern never equals the model's
			if err == nil && outb != nil {
				bs := parseBoolArray(outb)
				if len(bs) == 12 {
					ps := make([]string, 12)
					for k, b := range bs {
						ps[k] = fmt.Sprint(b)
					}
					pat = "[" + strings.Join(ps, ";") + "]"
				}
			}
			idx, ok := bookIdx[pat]
			if !ok {
				idx = len(book)
				book = append(book, pat)
				bookIdx[pat] = idx
			}
			sb.WriteByte(byte(48 + idx))
			m.Evaluations++
			m.Count("ops-pattern:" + pat)
		}
		orows[i] = sb.String()
	}
	fmt.Fprintf(w, "Definition OB : list (list bool) := [%s].\n", strings.Join(book, "; "))
	fmt.Fprintln(w, "Definition O : list string := [")
	for i, r := range orows {
		sep := ";"
		if i == opsN-1 {
			sep = ""
		}
		fmt.Fprintf(w, " \"%s\"%s\n", CoqEscape(r), sep)
	}
	fmt.Fprintln(w, "]%string.")
	// SORT / SORTED
	sortProg, err := c.Compile(`FOR x IN V(@i) SORT x RETURN x`)
	Must(err)
	_ = sortProg
	var sIdx, pIdx []interface{}
	fmt.Fprintln(w, "Definition S : list (list value * list value * list value) := [")
	// directed inputs first: arrays whose lengths differ by two and more, in both orders
	arrOf := func(n int) core.Value {
		for _, v := range U {
			if a, ok := v.(*values.Array); ok && int(a.Length()) == n {
				return v
			}
		}
		return values.NewArray(0)
	}
	a0, a1, a2, a3 := arrOf(0), arrOf(1), arrOf(2), arrOf(3)
	directedSort := [][]core.Value{{a3, a1}, {a1, a3}, {a3, a0, a2}, {a0, a3, a1, a2}, {a3, a3, a0}, {a2, a0},
		{values.NewArrayWith(a3), values.NewArrayWith(a1)}, {values.NewArrayWith(a0), values.NewArrayWith(a3), values.NewArrayWith(a2)}}
	for k := 0; k < nSort; k++ {
		n := rng.Intn(7)
		in := make([]core.Value, n)
		for i := range in {
			in[i] = U[rng.Intn(len(U))]
		}
		if k < len(directedSort) {
			in = directedSort[k]
			n = len(in)
		}
		inArr := values.NewArrayWith(in...)
		o1 := sortViaQuery(c, inArr)
		o2 := sortViaLib(inArr)
		sep := ";"
		if k == nSort-1 {
			sep = ""
		}
		fmt.Fprintf(w, " (%s, %s, %s)%s\n", coqList(in), o1, o2, sep)
		sIdx = append(sIdx, map[string]interface{}{"input": coqList(in), "out": []string{o1, o2}, "kinds": kindsOf(in)})
		m.Evaluations += 2
		m.Count(fmt.Sprintf("sort:len%d", n))
	}
	fmt.Fprintln(w, "].")
	fmt.Fprintln(w, "Definition P : list (list value * value * Z) := [")
	for k := 0; k < nSort; k++ {
		n := rng.Intn(6)
		in := make([]core.Value, n)
		for i := range in {
			in[i] = U[rng.Intn(len(U))]
		}
		var x core.Value
		if n > 0 && rng.Intn(3) > 0 {
			x = in[rng.Intn(n)]
		} else {
			x = U[rng.Intn(len(U))]
		}
		pos := int64(-99)
		func() {
			defer func() { recover() }()
			r, err := arrays.Position(ctx, values.NewArrayWith(in...), x, values.True)
			if err == nil {
				pos = int64(r.(values.Int))
			}
		}()
		sep := ";"
		if k == nSort-1 {
			sep = ""
		}
		fmt.Fprintf(w, " (%s, %s, %s)%s\n", coqList(in), CoqValue(x), CoqZ(pos), sep)
		pIdx = append(pIdx, map[string]interface{}{"arr": coqList(in), "x": CoqValue(x), "pos": pos, "kinds": kindsOf(append(in, x))})
		m.Evaluations++
		m.Count("position")
	}
	fmt.Fprintln(w, "].")
	fmt.Fprintln(w, "Definition M := Eval vm_compute in mismatches U R OB O S P.")
	fmt.Fprintln(w, "Print M.")
	Must(w.Flush())
	Must(f.Close())
	m.Files = []string{"cases.v"}
	m.Index["U"] = rendered
	m.Index["Ukind"] = kindsOf(U)
	m.Index["S"] = sIdx
	m.Index["P"] = pIdx
	for _, i := range []int{3, 20, len(U) / 2, len(U) - 1} {
		m.Samples = append(m.Samples, map[string]string{"a": rendered[i], "b": rendered[(i*7+5)%len(U)],
			"impl_sign": string(safeCompare(U[i], U[(i*7+5)%len(U)]))})
	}
	m.Write(out)
}

func kindsOf(xs []core.Value) []string {
	k := make([]string, len(xs))
	for i, x := range xs {
		k[i] = KindOf(x)
	}
	return k
}

func coqList(xs []core.Value) string {
	parts := make([]string, len(xs))
	for i, x := range xs {
		parts[i] = CoqValue(x)
	}
	return "[" + strings.Join(parts, "; ") + "]"
}

func parseBoolArray(b []byte) []bool {
	s := strings.TrimSpace(string(b))
	s = strings.TrimSuffix(strings.TrimPrefix(s, "["), "]")
	var out []bool
	for _, p := range strings.Split(s, ",") {
		switch strings.TrimSpace(p) {
		case "true":
			out = append(out, true)
		case "false":
			out = append(out, false)
		default:
			return nil
		}
	}
	return out
}

// sortViaQuery runs FOR x IN arr SORT x RETURN x, capturing the run-time values
// through a collecting function so that no JSON round trip is involved.
func sortViaQuery(c *compiler.Compiler, in *values.Array) (res string) {
	defer func() {
		if r := recover(); r != nil {
			res = "[VStr (hx \"70616e6963\")]" // "panic": makes the case fail
		}
	}()
	var got []core.Value
	cc := compiler.New()
	Must(cc.RegisterFunction("SRC", func(_ context.Context, _ ...core.Value) (core.Value, error) { return in, nil }))
	Must(cc.RegisterFunction("TAKE", func(_ context.Context, args ...core.Value) (core.Value, error) {
		got = append(got, args[0])
		return values.None, nil
	}))
	p, err := cc.Compile(`FOR x IN SRC() SORT x RETURN TAKE(x)`)
	Must(err)
	_, err = p.Run(context.Background(), runtime.WithLog(Discard))
	if err != nil {
		return "[VStr (hx \"6572726f72\")]"
	}
	return coqList(got)
}

func sortViaLib(in *values.Array) (res string) {
	defer func() {
		if r := recover(); r != nil {
			res = "[VStr (hx \"70616e6963\")]"
		}
	}()
	r, err := arrays.Sorted(context.Background(), in)
	if err != nil {
		return "[VStr (hx \"6572726f72\")]"
	}
	a := r.(*values.Array)
	var got []core.Value
	a.ForEach(func(x core.Value, _ int) bool { got = append(got, x); return true })
	return coqList(got)
}
