package main

// C15: no registered in-memory library function modifies its arguments; equal
// arguments give equal results (outside the clock/random family, up to the
// order of set-valued results).
//
// The parent enumerates the registry, splits it into chunks and runs each
// chunk in a worker process (a hanging or crashing library function must not
// take the harness down).  For every function the worker calls it on argument
// tuples of arity 0-4: before the call every argument is rendered deeply
// (common.CoqValue), after the call it is rendered again and compared; then
// the function is called on a second, freshly built equal tuple and the two
// results are compared.

import (
	"bufio"
	"context"
	"encoding/json"
	"flag"
	"fmt"
	"hash/fnv"
	"math"
	"math/rand"
	"os"
	"os/exec"
	"path/filepath"
	"sort"
	"strings"
	"sync"
	"time"

	. "verif/harness/common"

	"github.com/MontFerret/ferret/pkg/compiler"
	"github.com/MontFerret/ferret/pkg/runtime/core"
	"github.com/MontFerret/ferret/pkg/runtime/values"
	"github.com/MontFerret/ferret/pkg/runtime/values/types"
	"github.com/MontFerret/ferret/pkg/stdlib/arrays"
	"github.com/MontFerret/ferret/pkg/stdlib/collections"
	"github.com/MontFerret/ferret/pkg/stdlib/datetime"
	smath "github.com/MontFerret/ferret/pkg/stdlib/math"
	"github.com/MontFerret/ferret/pkg/stdlib/objects"
	"github.com/MontFerret/ferret/pkg/stdlib/path"
	sstrings "github.com/MontFerret/ferret/pkg/stdlib/strings"
	"github.com/MontFerret/ferret/pkg/stdlib/testing"
	stypes "github.com/MontFerret/ferret/pkg/stdlib/types"
)

// collector implements core.Namespace and keeps the function values
type collector struct {
	prefix string
	fns    map[string]core.Function
}

func (c *collector) Namespace(name string) core.Namespace {
	p := strings.ToUpper(name)
	if c.prefix != "" {
		p = c.prefix + "::" + p
	}
	return &collector{p, c.fns}
}
func (c *collector) full(name string) string {
	if c.prefix == "" {
		return name
	}
	return c.prefix + "::" + name
}
func (c *collector) RegisterFunction(name string, fun core.Function) error {
	c.fns[c.full(name)] = fun
	return nil
}
func (c *collector) RegisterFunctions(funs *core.Functions) error {
	for _, n := range funs.Names() {
		f, _ := funs.Get(n)
		c.fns[c.full(n)] = f
	}
	return nil
}
func (c *collector) RegisteredFunctions() []string {
	var out []string
	for n := range c.fns {
		out = append(out, n)
	}
	return out
}
func (c *collector) RemoveFunction(name string) { delete(c.fns, c.full(name)) }

// the in-memory families of pkg/stdlib; html, io and utils (WAIT, PRINT) are
// the I/O, page-interaction and sleeping families and are left out
func inMemoryRegistry() map[string]core.Function {
	c := &collector{"", map[string]core.Function{}}
	for _, reg := range []func(core.Namespace) error{stypes.RegisterLib, sstrings.RegisterLib, smath.RegisterLib,
		collections.RegisterLib, datetime.RegisterLib, arrays.RegisterLib, objects.RegisterLib, path.RegisterLib,
		testing.RegisterLib} {
		Must(reg(c))
	}
	return c.fns
}

// documented clock / random functions: results differ from call to call
var clockRandom = map[string]bool{"NOW": true, "RAND": true, "RANDOM_TOKEN": true}

// set-valued results: element order is not specified
var setValued = map[string]bool{"UNION": true, "UNION_DISTINCT": true, "INTERSECTION": true, "MINUS": true,
	"OUTERSECTION": true, "KEYS": true, "VALUES": true, "ATTRIBUTES": true, "TO_ARRAY": true}

// ---------------------------------------------------------------- values

func tame(v core.Value) bool {
	switch t := v.(type) {
	case values.Int:
		return t > -100000 && t < 100000
	case values.Float:
		f := float64(t)
		return !math.IsNaN(f) && math.Abs(f) < 1e5
	case *values.Array:
		ok := true
		t.ForEach(func(x core.Value, _ int) bool { ok = ok && tame(x); return ok })
		return ok
	case *values.Object:
		ok := true
		t.ForEach(func(x core.Value, _ string) bool { ok = ok && tame(x); return ok })
		return ok
	}
	return true
}

func fresh(v core.Value) core.Value {
	if c, ok := v.(core.Cloneable); ok {
		return c.Clone()
	}
	return v
}

func freshAll(xs []core.Value) []core.Value {
	out := make([]core.Value, len(xs))
	for i, x := range xs {
		out[i] = fresh(x)
	}
	return out
}

func I(i int64) core.Value  { return values.NewInt(int(i)) }
func S(s string) core.Value { return values.NewString(s) }

// directed pool: nested containers sharing keys, strings, small numbers
func directedPool() []core.Value {
	return []core.Value{
		Arr(I(3), I(1), I(2), I(1)),
		Arr(Arr(I(1)), Arr(I(2), Arr(I(3))), Obj("a", I(1))),
		Arr(S("b"), S("a")),
		Obj("a", Obj("x", I(1)), "b", Arr(I(1))),
		Obj("a", Obj("y", I(2)), "c", I(3)),
		Obj("a", Obj("x", Obj("z", I(1)))),
		S("a"), S("a,b"), I(1), I(0), I(-1), values.NewFloat(1.5), values.True, values.None,
		Arr(), Obj(), values.False, I(50), S("day"), S("yyyy"), Date(1700000000, 5, -1), Date(86400, 0, 60),
		values.NewBinary([]byte{1, 2}), Arr(I(2), I(4), values.NewFloat(0.5)),
		// objects with the same keys that differ in several members in opposite directions
		// (their order must not depend on how Go happens to range over a map), and an
		// object with more members than any small-object fast path would handle
		Arr(Obj("a", I(1), "b", I(2), "c", I(3)), Obj("a", I(2), "b", I(1), "c", I(3)), Obj("a", I(3), "b", I(2), "c", I(1)),
			Obj("a", I(1), "b", I(3), "c", I(2)), Obj("a", I(2), "b", I(3), "c", I(1)), Obj("a", I(3), "b", I(1), "c", I(2)), Obj("a", I(1), "b", I(2), "c", I(3))),
		bigObject(24),
		// empty containers nested under keys that other arguments share (a shortcut for "nothing to
		// copy" must not hand out the argument's own container), and a string long enough to grow
		// any pooled buffer past its reset threshold
		Obj("a", Obj(), "c", Arr()), Obj("a", Obj("x", I(1)), "c", Arr(I(1))), Arr(Arr(), Obj()),
		S(strings.Repeat("xy", 3000)),
		// already sorted, with duplicates (nothing to reorder: a function must still not hand out or edit the argument)
		Arr(I(1), I(1), I(2), I(3), I(3), I(4)), Arr(S("a"), S("a"), S("b")),
	}
}

func bigObject(n int) core.Value {
	o := values.NewObject()
	for i := 0; i < n; i++ {
		o.Set(values.NewString(fmt.Sprintf("k%02d", (i*7)%n)), values.NewInt(i))
	}
	return o
}

type tuple []core.Value

func tuples(rng *rand.Rand, uni []core.Value, nRandom int) []tuple {
	d := directedPool()
	out := []tuple{{}}
	for _, a := range d {
		out = append(out, tuple{a})
	}
	for _, a := range d {
		for _, b := range d {
			out = append(out, tuple{a, b})
		}
	}
	// triples: containers first, then small scalars
	for _, a := range d[:6] {
		for _, b := range d[:6] {
			for _, c := range []core.Value{d[0], d[3], S("a"), I(1), values.True} {
				out = append(out, tuple{a, b, c})
			}
		}
	}
	// dates, units, numbers, date strings: the datetime family takes (date, int|date, unit)
	e := []core.Value{Date(1700000000, 5, -1), Date(86400, 0, 60), I(1), S("day"), S("2020-01-02T03:04:05Z"), S("a")}
	for _, a := range e {
		out = append(out, tuple{a})
		for _, b := range e {
			for _, c := range e {
				out = append(out, tuple{a, b, c})
			}
		}
	}
	// the same (text, pattern[, replacement]) with and without the flags that change the meaning:
	// flag-true first in list order, flag-less first in reverse order
	out = append(out, tuple{S("Ab"), S("ab"), values.True}, tuple{S("Ab"), S("ab")}, tuple{S("Ab"), S("ab"), values.False},
		tuple{S("Ab"), S("ab"), S("x"), values.True}, tuple{S("Ab"), S("ab"), S("x")}, tuple{S("Ab"), S("ab"), S("x"), values.False},
		tuple{S("a,B"), S("b"), values.True}, tuple{S("a,B"), S("b")}, tuple{S("a,B"), S("b"), values.False})
	for i := 0; i < nRandom; i++ {
		n := rng.Intn(5)
		t := make(tuple, n)
		for j := range t {
			if rng.Intn(3) == 0 {
				t[j] = d[rng.Intn(len(d))]
			} else {
				t[j] = uni[rng.Intn(len(uni))]
			}
		}
		out = append(out, t)
	}
	return out
}

func render(xs []core.Value) []string {
	out := make([]string, len(xs))
	for i, x := range xs {
		out[i] = CoqValue(x)
	}
	return out
}

type outcome struct {
	class byte
	val   string
	elems []string
}

func callOnce(f core.Function, args []core.Value) (o outcome) {
	defer func() {
		if r := recover(); r != nil {
			o = outcome{class: 'p'}
		}
	}()
	v, err := f(context.Background(), args...)
	if err != nil {
		return outcome{class: 'e'}
	}
	if v == nil {
		v = values.None
	}
	o = outcome{class: 'o', val: CoqValue(v)}
	if v.Type() == types.Array {
		if arr, ok := v.(*values.Array); ok {
			arr.ForEach(func(x core.Value, _ int) bool { o.elems = append(o.elems, CoqValue(x)); return true })
			sort.Strings(o.elems)
		}
	}
	return o
}

type fnResult struct {
	Name      string            `json:"name"`
	Calls     int               `json:"calls"`
	Ok        int               `json:"ok"`
	Errors    int               `json:"errors"`
	Panics    int               `json:"panics"`
	Distinct  int               `json:"distinct"`
	FirstMut  int               `json:"first_mut"` // 1 + tuple index, 0 = none
	FirstND   int               `json:"first_nd"`
	MutCount  int               `json:"mut_count"`
	NDCount   int               `json:"nd_count"`
	OrderOnly int               `json:"order_only"`
	Mut       map[string]string `json:"mut,omitempty"`
	ND        map[string]string `json:"nd,omitempty"`
	Det       bool              `json:"det"`
	Sig       []string          `json:"sig,omitempty"` // per tuple: digest of the first call's outcome
}

// orderRequested: KEYS(obj, true) asks for sorted keys — the element order is then part of the result
func orderRequested(name string, t tuple) bool {
	return name == "KEYS" && len(t) >= 2 && t[1] == values.True
}

func digest(name string, o outcome) string {
	h := fnv.New64a()
	h.Write([]byte{o.class})
	if setValued[name] && o.class == 'o' && o.elems != nil {
		h.Write([]byte(strings.Join(o.elems, "|")))
	} else {
		h.Write([]byte(o.val))
	}
	return fmt.Sprintf("%x", h.Sum64())
}

// observe calls f on every tuple, in list order or (rev) in the opposite order;
// the two orders run in different processes and their outcomes are compared per
// tuple by the parent (a result that depends on what was called before)
func observe(name string, f core.Function, ts []tuple, rev bool) fnResult {
	r := fnResult{Name: name, Det: !clockRandom[name], Sig: make([]string, len(ts))}
	seen := map[string]struct{}{}
	for k := range ts {
		ti := k
		if rev {
			ti = len(ts) - 1 - k
		}
		t := ts[ti]
		a := freshAll(t)
		b := freshAll(t)
		before := render(a)
		o1 := callOnce(f, a)
		after := render(a)
		r.Calls++
		if orderRequested(name, t) {
			r.Sig[ti] = digest("", o1) // the order of the result is specified: compared as it is
		} else {
			r.Sig[ti] = digest(name, o1)
		}
		switch o1.class {
		case 'o':
			r.Ok++
			seen[strings.Join(before, ";")] = struct{}{}
		case 'e':
			r.Errors++
		default:
			r.Panics++
		}
		for i := range before {
			if before[i] != after[i] {
				r.MutCount++
				if r.FirstMut == 0 || ti+1 < r.FirstMut {
					r.FirstMut = ti + 1
					r.Mut = map[string]string{"args": "[" + strings.Join(before, "; ") + "]", "arg_index": fmt.Sprint(i),
						"before": before[i], "after": after[i], "outcome": string(o1.class)}
				}
				break
			}
		}
		o2 := callOnce(f, b)
		r.Calls++
		same := o1.class == o2.class && o1.val == o2.val
		if !same && o1.class == o2.class && setValued[name] && !orderRequested(name, t) && strings.Join(o1.elems, "|") == strings.Join(o2.elems, "|") {
			same = true
			r.OrderOnly++
		}
		if !same {
			r.NDCount++
			if r.FirstND == 0 || ti+1 < r.FirstND {
				r.FirstND = ti + 1
				r.ND = map[string]string{"args": "[" + strings.Join(before, "; ") + "]", "first": string(o1.class) + " " + o1.val,
					"second": string(o2.class) + " " + o2.val}
			}
		}
	}
	r.Distinct = len(seen)
	return r
}

func sortedNames(m map[string]core.Function) []string {
	var ns []string
	for n := range m {
		ns = append(ns, n)
	}
	sort.Strings(ns)
	return ns
}

// ---------------------------------------------------------------- worker

func makeTuples(tier string, seed int64) []tuple {
	rng := rand.New(rand.NewSource(seed))
	nUni, nRandom := 40, 40
	if tier == "thorough" {
		nUni, nRandom = 300, 4000
	}
	var uni []core.Value
	for _, v := range Universe(rng, nUni, tier) {
		if tame(v) {
			uni = append(uni, v)
		}
	}
	return tuples(rng, uni, nRandom)
}

func worker(tier string, seed int64, lo, hi int, rev bool) {
	reg := inMemoryRegistry()
	names := sortedNames(reg)
	ts := makeTuples(tier, seed)
	w := bufio.NewWriter(os.Stdout)
	for k := lo; k < hi && (rev || k < len(names)); k++ {
		i := k
		if rev {
			i = lo + hi - 1 - k
			if i >= len(names) {
				continue
			}
		}
		fmt.Fprintf(w, "START %s\n", names[i])
		w.Flush()
		r := observe(names[i], reg[names[i]], ts, rev)
		b, _ := json.Marshal(r)
		fmt.Fprintf(w, "RESULT %s\n", b)
		w.Flush()
	}
}

// ---------------------------------------------------------------- parent

func main() {
	isWorker := false
	for _, a := range os.Args[1:] {
		if a == "-worker" {
			isWorker = true
		}
	}
	if isWorker {
		fs := flag.NewFlagSet("worker", flag.ExitOnError)
		_ = fs.Bool("worker", true, "")
		tier := fs.String("tier", "quick", "")
		seed := fs.Int64("seed", 1, "")
		lo := fs.Int("lo", 0, "")
		hi := fs.Int("hi", 0, "")
		rev := fs.Bool("rev", false, "")
		Must(fs.Parse(os.Args[1:]))
		worker(*tier, *seed, *lo, *hi, *rev)
		return
	}
	out, tier, seed, _ := Args()
	m := NewMeta("C15", tier, seed)
	m.Rule = "every function registered by the in-memory packages of pkg/stdlib (types, strings, math, collections, datetime, arrays, objects, path, testing) x argument tuples of arity 0-4: all tuples of arity <= 2 and a block of triples over a directed pool of nested containers, plus seeded random tuples over the bounded universe; each tuple is two calls (snapshot before/after; repeat on fresh equal arguments), and the whole tuple list is called a second time in the opposite order by a fresh process and the outcomes compared per tuple (results must not depend on earlier calls). A tuple is non-trivial for a function when the call returns a value (passes argument validation); distinct = distinct rendered argument tuples per function"
	reg := inMemoryRegistry()
	names := sortedNames(reg)
	// cross-check with the compiler's own registry
	all := compiler.New().RegisteredFunctions()
	allSet := map[string]bool{}
	for _, n := range all {
		allSet[n] = true
	}
	missing := []string{}
	for _, n := range names {
		if !allSet[n] {
			missing = append(missing, n)
		}
	}
	excluded := []string{}
	inMem := map[string]bool{}
	for _, n := range names {
		inMem[n] = true
	}
	for _, n := range all {
		if !inMem[n] {
			excluded = append(excluded, n)
		}
	}
	sort.Strings(excluded)
	m.Extra["registered_total"] = len(all)
	m.Extra["in_memory_functions"] = len(names)
	m.Extra["excluded_io_page_sleep"] = excluded
	m.Extra["clock_random_family"] = []string{"NOW", "RAND", "RANDOM_TOKEN"}
	m.Extra["not_in_compiler_registry"] = missing

	exe, err := os.Executable()
	Must(err)
	const chunk = 16
	type chunkRes struct {
		results []fnResult
		failed  string // function in progress when the worker died / timed out
		err     string
	}
	nChunks := (len(names) + chunk - 1) / chunk
	res := make([]chunkRes, 2*nChunks) // [0,nChunks): list order; [nChunks,2nChunks): reverse order, own processes
	var wg sync.WaitGroup
	sem := make(chan struct{}, 12)
	limit := 240 * time.Second
	if tier == "thorough" {
		limit = 1200 * time.Second
	}
	for c := 0; c < 2*nChunks; c++ {
		wg.Add(1)
		go func(c int) {
			defer wg.Done()
			sem <- struct{}{}
			defer func() { <-sem }()
			ctx, cancel := context.WithTimeout(context.Background(), limit)
			defer cancel()
			cc := c % nChunks
			args := []string{"-worker", "-tier", tier, "-seed", fmt.Sprint(seed), "-lo", fmt.Sprint(cc * chunk), "-hi", fmt.Sprint((cc + 1) * chunk)}
			if c >= nChunks {
				args = append(args, "-rev")
			}
			cmd := exec.CommandContext(ctx, exe, args...)
			outb, err := cmd.Output()
			cur := ""
			sc := bufio.NewScanner(strings.NewReader(string(outb)))
			sc.Buffer(make([]byte, 1<<20), 1<<26)
			for sc.Scan() {
				line := sc.Text()
				switch {
				case strings.HasPrefix(line, "START "):
					cur = line[6:]
				case strings.HasPrefix(line, "RESULT "):
					var r fnResult
					if json.Unmarshal([]byte(line[7:]), &r) == nil {
						res[c].results = append(res[c].results, r)
						cur = ""
					}
				}
			}
			if err != nil {
				res[c].failed = cur
				res[c].err = err.Error()
			}
		}(c)
	}
	wg.Wait()

	var rows []fnResult
	var direct []interface{}
	done := map[string]bool{}
	revRows := map[string]fnResult{}
	for _, cr := range res[nChunks:] {
		for _, r := range cr.results {
			revRows[r.Name] = r
		}
	}
	ts := makeTuples(tier, seed)
	crossOrder := 0
	for ci, cr := range res {
		for _, r := range cr.results {
			if ci >= nChunks {
				continue
			}
			// the same tuples called in the opposite order by another process
			if q, ok := revRows[r.Name]; ok {
				r.Calls += q.Calls
				if q.FirstMut != 0 && (r.FirstMut == 0 || q.FirstMut < r.FirstMut) {
					r.FirstMut, r.Mut = q.FirstMut, q.Mut
				}
				r.MutCount += q.MutCount
				if q.FirstND != 0 && (r.FirstND == 0 || q.FirstND < r.FirstND) {
					r.FirstND, r.ND = q.FirstND, q.ND
				}
				r.NDCount += q.NDCount
				r.OrderOnly += q.OrderOnly
				for ti := range r.Sig {
					if ti < len(q.Sig) && r.Sig[ti] != q.Sig[ti] && !clockRandom[r.Name] {
						crossOrder++
						r.NDCount++
						if r.FirstND == 0 || ti+1 < r.FirstND {
							r.FirstND = ti + 1
							r.ND = map[string]string{"args": "[" + strings.Join(render(ts[ti]), "; ") + "]",
								"first":  "outcome digest " + r.Sig[ti] + " when the tuples are called in list order",
								"second": "outcome digest " + q.Sig[ti] + " in a fresh process calling the same tuples in the opposite order (the result depends on earlier calls)"}
						}
					}
				}
			} else {
				direct = append(direct, map[string]interface{}{"key": "worker-rev|" + r.Name, "fn": r.Name, "tags": []string{"crash-or-hang"},
					"what": fmt.Sprintf("no result for %s from the worker that calls the tuples in reverse order", r.Name)})
			}
			r.Sig = nil
			rows = append(rows, r)
			done[r.Name] = true
		}
		if cr.err != "" {
			direct = append(direct, map[string]interface{}{"key": "worker|" + cr.failed, "fn": cr.failed, "tags": []string{"crash-or-hang"},
				"what": fmt.Sprintf("worker died or timed out while calling %s (%s)", cr.failed, cr.err)})
		}
	}
	sort.Slice(rows, func(i, j int) bool { return rows[i].Name < rows[j].Name })
	notRun := []string{}
	for _, n := range names {
		if !done[n] {
			notRun = append(notRun, n)
		}
	}
	m.Extra["functions_not_observed"] = notRun
	m.Distribution["cross-order-differences"] = crossOrder

	f, err := os.Create(filepath.Join(out, "cases.v"))
	Must(err)
	w := bufio.NewWriter(f)
	fmt.Fprintln(w, "From Ferret Require Import Check.C15.")
	fmt.Fprintln(w, "Definition T : list row := [")
	var idx []interface{}
	panics := 0
	for i, r := range rows {
		sep := ";"
		if i == len(rows)-1 {
			sep = ""
		}
		fmt.Fprintf(w, " (\"%s\"%%string, %d%%N, %d%%N, %d%%N, %v)%s\n", r.Name, r.Calls, r.FirstMut, r.FirstND, r.Det, sep)
		m.Evaluations += r.Calls
		m.DistinctNontrivial += r.Distinct
		m.Distribution["calls:ok"] += r.Ok
		m.Distribution["calls:error"] += r.Errors
		m.Distribution["calls:panic"] += r.Panics
		m.Distribution["order-only-differences"] += r.OrderOnly
		if r.Ok == 0 {
			m.Count("functions-never-past-validation")
		}
		panics += r.Panics
		idx = append(idx, r)
	}
	fmt.Fprintln(w, "].")
	fmt.Fprintln(w, "Definition M := Eval vm_compute in mismatches T.")
	fmt.Fprintln(w, "Print M.")
	fmt.Fprintln(w, "Definition D := Eval vm_compute in drift T.")
	fmt.Fprintln(w, "Print D.")
	Must(w.Flush())
	Must(f.Close())
	m.Files = []string{"cases.v"}
	m.Index["functions"] = idx
	m.Distribution["functions"] = len(rows)
	never := []string{}
	for _, r := range rows {
		if r.Ok == 0 {
			never = append(never, r.Name)
		}
	}
	m.Extra["functions_never_past_validation"] = never
	m.Extra["tie"] = "dynamic snapshot comparison only (tie 1); the go/ast fact translator facts_mutators / GenMutators.v (tie 2) is not implemented"
	if len(direct) > 0 {
		m.Extra["direct_violations"] = direct
	}
	for _, r := range rows {
		if len(m.Samples) < 5 && r.Ok > 0 && (r.Name == "APPEND" || r.Name == "MERGE_RECURSIVE" || r.Name == "SORTED" || r.Name == "UPPER" || r.Name == "KEYS") {
			m.Samples = append(m.Samples, map[string]interface{}{"fn": r.Name, "calls": r.Calls, "returned_value": r.Ok, "argument_changed": r.MutCount, "results_differ": r.NDCount})
		}
	}
	m.Write(out)
}
