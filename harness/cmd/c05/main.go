package main

// C05: only complete, well-formed query text is accepted.
//
// Cases (all derived from one seeded PRNG):
//   A. generated well-formed programs P (fqlast generator, canonical text with
//      one space between tokens); for every P
//        - P itself must compile,
//        - every single-token deletion and duplication inside P,
//        - P followed by every suffix of a list that covers every token class
//          of the lexer (plus a few multi-token suffixes);
//      the reference parser (coq/theories/Parser.v) decides which of these are
//      well-formed, the implementation's Compile must agree on accept/reject.
//   B. listed texts: the regression inputs of the property, programs that use
//      reserved words as parameter / variable / property names, random
//      lexical probes (identifier shapes, numbers, strings, comments), and the
//      repository's .fql files (must be accepted in full).
// Observation: one character per text, see surface.Classify.

import (
	"bufio"
	"encoding/hex"
	"fmt"
	"math/rand"
	"os"
	"path/filepath"
	"sort"
	"strings"
	"unicode"

	"github.com/MontFerret/ferret/pkg/compiler"

	"verif/harness/cmd/c05/surface"
	. "verif/harness/common"
	"verif/harness/fqlast"
	"verif/harness/fqlrun"
)

// one suffix per token class of FqlLexer.g4, then multi-token suffixes
var suffixes = []string{":", ";", ".", ",", "[", "]", "(", ")", "{", "}", ">", "<", "==", ">=", "<=", "!=", "*", "/", "%", "+", "-",
	"--", "++", "AND", "&&", "OR", "||", "..", "=", "?", "!~", "=~", "FOR", "RETURN", "WAITFOR", "OPTIONS", "TIMEOUT", "DISTINCT",
	"FILTER", "CURRENT", "SORT", "LIMIT", "LET", "COLLECT", "ASC", "DESC", "NONE", "NULL", "TRUE", "false", "USE", "INTO", "KEEP",
	"WITH", "COUNT", "ALL", "ANY", "AGGREGATE", "EVENT", "LIKE", "NOT", "!", "IN", "DO", "WHILE", "@", "foo", "_", `"s"`, `'s'`, "`s`",
	"´s´", "7", "1.5", "NS::", "#", "$", "é",
	"RETURN 2", "2 3 foo", "[0]", ".a", "+ 1", "== 1", "? 1 : 2", "FOR i IN [1] RETURN i", "LET z = 1", "F()", "(1)", "{a: 1}", "@p",
	"IN [1]", "NOT IN [1]", "AND true", "/* c */", "// c", "/* c", `"s`, "ALL == 1", "LIKE 'a'", "=~ 'a'", "..3", "?.a", "::x"}

type obsFn func(text string) byte

func hexs(s string) string { return `(hx "` + hex.EncodeToString([]byte(s)) + `")` }

func asciiLit(b byte) string {
	return fmt.Sprintf(`"%s"%%char`, CoqEscape(string([]byte{b})))
}

func main() {
	out, tier, seed, _ := Args()
	surface.SilenceConsole()
	rng := rand.New(rand.NewSource(seed))
	nProg, depth, per, nProbe := 260, 3, 20, 500
	if tier == "thorough" {
		nProg, depth, per, nProbe = 2600, 5, 40, 4000
	}
	m := NewMeta("C05", tier, seed)
	m.Rule = "generated well-formed programs (fqlast generator: literals, operators of all three precedence tiers, ternary, member access, calls, error suppression, FOR with FILTER/SORT/LIMIT/COLLECT, sub-queries) x {itself, every single-token deletion, every single-token duplication, every suffix of a list covering each token class of the lexer}; plus listed regression texts, reserved-word names, random lexical probes and the repository's .fql files. A text counts as non-trivial when it has at least three tokens; distinct = distinct texts."
	c := compiler.New()
	fqlrun.Register(c)
	observe := func(text string) byte {
		_, err := c.Compile(text)
		return surface.Classify(err)
	}
	distinct := map[string]struct{}{}
	note := func(text string, ntok int) {
		m.Evaluations++
		if ntok >= 3 {
			distinct[text] = struct{}{}
		}
	}
	sufToks := make([]int, len(suffixes))
	for i, s := range suffixes {
		sufToks[i] = len(surface.Lex(s))
	}

	var files []string
	index := map[string]interface{}{}
	progIndex := map[string][]interface{}{}
	header := func(w *bufio.Writer) {
		fmt.Fprintln(w, "From Ferret Require Import Render Check.C05.\nOpen Scope string_scope.")
		fmt.Fprintln(w, "Definition sufs : list bytes := [")
		for i, s := range suffixes {
			sep := ";"
			if i == len(suffixes)-1 {
				sep = ""
			}
			fmt.Fprintf(w, " %s%s\n", hexs(s), sep)
		}
		fmt.Fprintln(w, "].")
	}

	// ---------------------------------------------------------------- A
	var w *bufio.Writer
	var f *os.File
	inFile := 0
	openFile := func() {
		name := fmt.Sprintf("cases%03d.v", len(files))
		var err error
		f, err = os.Create(filepath.Join(out, name))
		Must(err)
		w = bufio.NewWriterSize(f, 1<<20)
		header(w)
		fmt.Fprintln(w, "Definition progs : list (bytes * string * string) := [")
		files = append(files, name)
	}
	closeFile := func() {
		fmt.Fprintln(w, "].")
		fmt.Fprintln(w, "Definition M := Eval vm_compute in mismatches sufs progs [].")
		fmt.Fprintln(w, "Print M.")
		Must(w.Flush())
		Must(f.Close())
	}
	for i := 0; i < nProg; i++ {
		if inFile == 0 {
			openFile()
		}
		g := fqlast.NewGen(rng, 1+rng.Intn(depth))
		p := g.Program()
		if rng.Intn(2) == 0 {
			m.Distribution["P:injected ')' '?' shapes"] += surface.InjectQ(p, rng, 1+rng.Intn(3))
		}
		surface.Sanitize(p)
		if rng.Intn(3) == 0 {
			surface.ReplaceStrings(p, rng)
		}
		for k, v := range g.Stats {
			m.Distribution[k] += v
		}
		toks := surface.Lex(surface.Canon.Program(p))
		texts := surface.Texts(toks)
		n := len(texts)
		text := strings.Join(texts, " ")
		obs := make([]byte, 0, 1+2*n+len(suffixes))
		base := observe(text)
		obs = append(obs, base)
		note(text, n)
		m.Count("P:class" + string(base))
		for k := 0; k < n; k++ {
			v := strings.Join(append(append([]string{}, texts[:k]...), texts[k+1:]...), " ")
			o := observe(v)
			obs = append(obs, o)
			note(v, n-1)
			m.Count("deletion:class" + string(o))
		}
		for k := 0; k < n; k++ {
			d := append(append(append([]string{}, texts[:k+1]...), texts[k]), texts[k+1:]...)
			v := strings.Join(d, " ")
			o := observe(v)
			obs = append(obs, o)
			note(v, n+1)
			m.Count("duplication:class" + string(o))
		}
		for j, s := range suffixes {
			v := text + " " + s
			o := observe(v)
			obs = append(obs, o)
			note(v, n+sufToks[j])
			m.Count("suffix:class" + string(o))
		}
		sep := ";"
		if inFile == per-1 || i == nProg-1 {
			sep = ""
		}
		fmt.Fprintf(w, " (%s, \"%s\", \"%s\")%s\n", hexs(text), CoqEscape(surface.KindString(toks)), string(obs), sep)
		fn := files[len(files)-1]
		progIndex[fn] = append(progIndex[fn], map[string]interface{}{"tokens": texts, "obs": string(obs)})
		if i < 3 {
			m.Samples = append(m.Samples, map[string]interface{}{"program": text, "observations": string(obs)})
		}
		inFile++
		if inFile == per || i == nProg-1 {
			closeFile()
			inFile = 0
		}
	}

	// ---------------------------------------------------------------- B
	type listed struct {
		Text string
		Must bool
		Fam  string
	}
	var ls []listed
	for _, t := range []string{
		"RETURN 1 RETURN 2", "RETURN 1 2 3 foo", "RETURN (FOR i IN [1] RETURN i)[0]", `RETURN "abc"[1]`,
		"LET a1 = 1 RETURN a1_b", "RETURN 2 --3", "RETURN 1;", "RETURN 1)", "RETURN (1).a", "RETURN 1.a", `RETURN "a".b`,
		"RETURN (1", "RETURN", "RETURN 1 +", "RETURN 2 - -3", "RETURN [1][0]?", `RETURN "a`, "RETURN 1 /* x", "LET x = 1",
		"RETURN 1 ]", "RETURN [1,2,]", "RETURN {a:1,}", "RETURN [,]", "RETURN {,}", "RETURN 1 ? 2", "RETURN 1 ? : 2", "RETURN 1 ?: 2",
		"FOR i IN [1] RETURN i RETURN i", "FOR i IN [1] LIMIT 1, 2, 3 RETURN i", "FOR i IN 5 RETURN i", "FOR i IN (1) RETURN i",
		"FOR i IN [1] LIMIT (1) RETURN i", "RETURN 1..2..3", "RETURN 1 IN", "RETURN NOT", "RETURN - - 1", "RETURN !!true", "RETURN 1 NOT 2",
		"RETURN T::", "RETURN T::X", "RETURN 9223372036854775808", "RETURN 9223372036854775807", "RETURN 1e999", "RETURN 1e-999",
		"RETURN 01", "RETURN 1.", "RETURN .5", "RETURN 1.e5", "RETURN 1e", "RETURN 1e+5", "RETURN 0x10", "RETURN 1_000",
	} {
		ls = append(ls, listed{t, false, "regression"})
	}
	// pairs whose texts differ only in layout, the first well-formed and the second not
	// (a line break ends a // comment; an exotic space is not white space), compiled
	// one after the other on the same compiler
	for _, t := range []string{"RETURN 1 // done )", "RETURN 1 // done\n)", "RETURN 1 // c RETURN 2", "RETURN 1 // c\nRETURN 2", "RETURN 1", "RETURN 1\u2003", "RETURN\u00a01",
		"RETURN 1 /* a */", "RETURN 1 /* a\n*/ )", "RETURN [1, 2] // ]\n", "RETURN [1, 2 // ]\n", "LET a = 1 // x\nRETURN a", "LET a = 1 // x RETURN a"} {
		ls = append(ls, listed{t, false, "layout-pairs"})
	}
	for _, t := range []string{
		"RETURN @count", "RETURN @filter + @limit", "LET count = 1 RETURN count", "LET options = 1 LET timeout = 2 RETURN options + timeout",
		"RETURN {filter: 1, sort: 2, return: 3, for: 4, in: 5, not: 6, true: 7, none: 8}", "LET x = {all: 1, any: 2} RETURN x.all + x.any",
		"LET x = {return: 1} RETURN x.return", "RETURN {current: 1}.current", "FOR i IN [1] COLLECT WITH COUNT INTO c RETURN c",
		"LET keep = [1] FOR i IN keep RETURN i", "LET aggregate = 2 RETURN aggregate * 2", "RETURN {@count: 1}", "LET event = 1 RETURN [event, event][0]",
		"LET _ = 1 RETURN 2", "LET desc = 1 FOR i IN [2,1] SORT i DESC RETURN i + desc", "RETURN 1..@count", "LET with = 1 RETURN with..3",
		"LET current = {a: 1} RETURN current.a", "LET Current = [1] RETURN Current[0]", "LET CURRENT = {a: 1} RETURN CURRENT.a", "LET filter = {a: 1} RETURN filter.a", "LET Count = [1] RETURN Count[0].x",
		"LET a_b1_c = 1 RETURN a_b1_c", "LET a__b = 1 RETURN a__b", "LET a_1 = 1 RETURN a_1", "LET ab1c_d = 1 RETURN ab1c_d",
	} {
		ls = append(ls, listed{t, true, "reserved-names"})
	}
	// well-formed by construction: '?' directly after ')' (shorthand / full ternary after a
	// call or a parenthesised operand, error operator followed by a ternary) and integer
	// literals with leading zeros -- must be accepted whatever look-ahead the parser uses
	for _, t := range []string{
		"RETURN LENGTH([1,2]) ?: 5", "RETURN (0) ? : 7", "RETURN (0) ?: 2", "RETURN (1 > 0) ? -1 : 2", "RETURN (1) ? 2 : 3",
		"RETURN LENGTH([1]) ? 1 : 2", "RETURN LENGTH([1])? ?: 1", "RETURN LENGTH([1])? ? 1 : 2", "RETURN (1) ? (2) ?: 3 : 4",
		"RETURN (0) ?: (0) ?: 3", "FOR i IN [0,1] RETURN (i) ?: 9", "FOR i IN [0,1] FILTER LENGTH([i]) ?: 0 RETURN i",
		"LET a = (1) ? -2 : +3 RETURN a", "RETURN [(1) ?: 2, LENGTH([]) ? 1 : 0]", "RETURN {a: (1) ? 2 : 3}", "RETURN (1) ? !true : NOT false",
		"RETURN 08", "RETURN 0019", "RETURN 00", "RETURN 007", "RETURN 09 + 010", "FOR i IN 08..09 RETURN i", "RETURN [08, 0.5, 010]",
	} {
		ls = append(ls, listed{t, true, "must-accept"})
	}
	// redundant parentheses directly after a clause keyword (recorded finding:
	// the grammar lets every reserved word be a function name, and ALL(*)
	// prefers the function-call statement)
	for _, t := range []string{"FOR i IN [1,2] FILTER (i > 1) RETURN i", "FOR i IN [2,1] SORT (i) RETURN i", "FOR i IN [1,2] FILTER (i > 1) AND true RETURN i",
		"FOR i IN [2,1] SORT (i) DESC RETURN i", "FOR i IN [1,2] FILTER ((i > 1)) RETURN (i)"} {
		ls = append(ls, listed{t, true, "clause-paren"})
	}
	// '?' shapes: random expressions over operands ending in ')', error
	// operators, shorthand and full ternaries, unary operators and nesting,
	// and one random single-token deletion of each (the reference parser
	// decides by trying every reading of the '?' tokens)
	for i := 0; i < nProbe; i++ {
		t := "RETURN " + surface.QText(rng, 1+rng.Intn(3))
		ls = append(ls, listed{t, false, "question-shape"})
		if toks := surface.Texts(surface.Lex(t)); len(toks) > 2 {
			k := 1 + rng.Intn(len(toks)-1)
			ls = append(ls, listed{strings.Join(append(append([]string{}, toks[:k]...), toks[k+1:]...), " "), false, "question-shape"})
		}
	}
	// random lexical probes: RETURN / LET followed by a short string over a lexer-relevant alphabet
	alphabet := []string{"a", "B", "x", "0", "1", "9", "_", ".", "e", "E", "+", "-", `"`, "'", `\`, "`", "´", "/", "*", ":", "@", "?", "!", "=", "~",
		"&", "|", " ", "\n", "n", "é", "(", ")", "[", "]", ",", "<", ">", "%"}
	for i := 0; i < nProbe; i++ {
		k := 1 + rng.Intn(7)
		var b strings.Builder
		for j := 0; j < k; j++ {
			b.WriteString(alphabet[rng.Intn(len(alphabet))])
		}
		switch rng.Intn(4) {
		case 0:
			ls = append(ls, listed{"LET " + b.String() + " = 1 RETURN 1", false, "lexical-probe"})
		case 1:
			ls = append(ls, listed{"RETURN [" + b.String() + "]", false, "lexical-probe"})
		default:
			ls = append(ls, listed{"RETURN " + b.String(), false, "lexical-probe"})
		}
	}
	// identifier shapes, declared and used
	for i := 0; i < nProbe/4; i++ {
		k := 2 + rng.Intn(7)
		id := []byte{"abXY"[rng.Intn(4)]}
		for j := 1; j < k; j++ {
			id = append(id, "ab1_2_Z"[rng.Intn(7)])
		}
		ls = append(ls, listed{"LET " + string(id) + " = 1 RETURN " + string(id), false, "identifier-shape"})
	}
	// repository files
	repo := os.Getenv("VERIF_REPO")
	if repo == "" {
		repo = "/repo"
	}
	var fqls []string
	filepath.Walk(repo, func(path string, info os.FileInfo, err error) error {
		if err == nil && !info.IsDir() && strings.HasSuffix(path, ".fql") {
			fqls = append(fqls, path)
		}
		return nil
	})
	sort.Strings(fqls)
	var direct []interface{}
	for _, path := range fqls {
		b, err := os.ReadFile(path)
		Must(err)
		rel, _ := filepath.Rel(repo, path)
		if rel == "examples/redirects.fql" {
			// WAITFOR EVENT ... IN doc { target: ... } without OPTIONS: not a program of the grammar
			// (the property text counts 230 of the 231 files)
			m.Count("fql:excluded-ill-formed-example")
			continue
		}
		ls = append(ls, listed{string(b), true, "fql:" + rel})
	}
	m.Extra["fql_files"] = len(fqls)

	perT := 120
	var tIndex []interface{}
	for start := 0; start < len(ls); start += perT {
		end := start + perT
		if end > len(ls) {
			end = len(ls)
		}
		name := fmt.Sprintf("texts%03d.v", start/perT)
		f, err := os.Create(filepath.Join(out, name))
		Must(err)
		w := bufio.NewWriterSize(f, 1<<20)
		fmt.Fprintln(w, "From Ferret Require Import Render Check.C05.\nOpen Scope string_scope.")
		fmt.Fprintln(w, "Definition texts : list (bytes * string * ascii * bool) := [")
		for i := start; i < end; i++ {
			l := ls[i]
			toks := surface.Lex(l.Text)
			o := observe(l.Text)
			note(l.Text, len(toks))
			fam := l.Fam
			if strings.HasPrefix(fam, "fql:") {
				fam = "fql"
			}
			m.Count(fam + ":class" + string(o))
			if l.Must && o != '0' {
				_, err := c.Compile(l.Text)
				direct = append(direct, map[string]interface{}{"key": "must-accept|" + l.Fam + "|" + l.Text, "kind": "input", "mkind": 1, "family": l.Fam, "text": l.Text,
					"what": fmt.Sprintf("well-formed program rejected by Compile (%v): %q", err, clip(l.Text, 160)), "tags": tagsFor(l.Text, err)})
			}
			sep := ";"
			if i == end-1 {
				sep = ""
			}
			must := "false"
			if l.Must {
				must = "true"
			}
			fmt.Fprintf(w, " (%s, \"%s\", %s, %s)%s\n", hexs(l.Text), CoqEscape(surface.KindString(toks)), asciiLit(o), must, sep)
			tIndex = append(tIndex, map[string]interface{}{"file": name, "i": i - start, "text": l.Text, "family": l.Fam, "obs": string(o)})
		}
		fmt.Fprintln(w, "].")
		fmt.Fprintln(w, "Definition M := Eval vm_compute in mismatches [] [] texts.")
		fmt.Fprintln(w, "Print M.")
		Must(w.Flush())
		Must(f.Close())
		files = append(files, name)
	}
	checkFoldTable(&direct)
	m.Extra["direct_violations"] = direct
	m.DistinctNontrivial = len(distinct)
	m.Files = files
	index["suffixes"] = suffixes
	index["progs"] = progIndex
	index["texts"] = tIndex
	m.Index = index
	m.Write(out)
}

func clip(s string, n int) string {
	if len(s) > n {
		return s[:n] + "..."
	}
	return s
}

func tagsFor(text string, err error) []string {
	var tags []string
	if err != nil && strings.Contains(err.Error(), "nil pointer") && strings.Contains(text, "@") {
		tags = append(tags, "param-reserved-word")
	}
	if err != nil && (strings.Contains(err.Error(), "not found: function: 'FILTER'") || strings.Contains(err.Error(), "not found: function: 'SORT'")) {
		tags = append(tags, "paren-after-clause-keyword")
	}
	return tags
}

// checkFoldTable re-derives from Go's unicode tables the assumption of
// Lexer.v: the only non-ASCII runes whose upper case is a character the
// grammar mentions are U+0131 and U+017F.
func checkFoldTable(direct *[]interface{}) {
	special := map[rune]bool{0xA0: true, 0xB4: true, 0x2028: true, 0x2029: true}
	var bad []string
	for r := rune(128); r <= unicode.MaxRune; r++ {
		u := unicode.ToUpper(r)
		if u == r {
			continue
		}
		if (u < 128 || special[u]) && r != 0x131 && r != 0x17F {
			bad = append(bad, fmt.Sprintf("U+%04X->U+%04X", r, u))
		}
		if special[r] {
			bad = append(bad, fmt.Sprintf("U+%04X changes under ToUpper", r))
		}
	}
	if unicode.ToUpper(0x131) != 'I' || unicode.ToUpper(0x17F) != 'S' {
		bad = append(bad, "U+0131/U+017F no longer fold to I/S")
	}
	if len(bad) > 0 {
		*direct = append(*direct, map[string]interface{}{"key": "fold-table", "no_input": true, "kind": "no-input",
			"what": "the case-folding assumption of Lexer.v no longer matches unicode.ToUpper: " + strings.Join(bad, ", ")})
	}
}
