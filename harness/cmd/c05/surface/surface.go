// Package surface: what the C05 and C06 harnesses share — the implementation's
// lexer as a token source, the projection of compile errors to classes, the
// preparation of generated programs (so that the generator's tree is exactly
// what the visitor builds), string-literal writers for the four quote styles
// and the token-level re-rendering of a query text.
package surface

import (
	"math/rand"
	"os"
	"strings"
	"unicode"

	"github.com/antlr/antlr4/runtime/Go/antlr/v4"

	"github.com/MontFerret/ferret/pkg/parser/fql"

	"verif/harness/fqlast"
)

// Tok is one default-channel token of the generated lexer.
type Tok struct {
	Name string // symbolic name of the lexer rule
	Code int    // kind code of coq/theories/Lexer.v (by name, not by ANTLR number)
	Text string
}

// codes of Lexer.v's kind_code, keyed by the symbolic rule name so that a
// re-generated lexer with other numbers is still read correctly.
var kindNames = []string{"Colon", "SemiColon", "Dot", "Comma", "OpenBracket", "CloseBracket", "OpenParen", "CloseParen",
	"OpenBrace", "CloseBrace", "Gt", "Lt", "Eq", "Gte", "Lte", "Neq", "Multi", "Div", "Mod", "Plus", "Minus",
	"MinusMinus", "PlusPlus", "And", "Or", "Range", "Assign", "QuestionMark", "RegexNotMatch", "RegexMatch",
	"For", "Return", "Waitfor", "Options", "Timeout", "Distinct", "Filter", "Current", "Sort", "Limit", "Let",
	"Collect", "SortDirection", "None", "Null", "BooleanLiteral", "Use", "Into", "Keep", "With", "Count", "All",
	"Any", "Aggregate", "Event", "Like", "Not", "In", "Do", "While", "Param", "Identifier", "IgnoreIdentifier",
	"StringLiteral", "IntegerLiteral", "FloatLiteral", "NamespaceSegment", "UnknownIdentifier"}

var KindCode = map[string]int{}

func init() {
	for i, n := range kindNames {
		KindCode[n] = 5 + i
	}
}

// upperStream mirrors pkg/parser/case_changing_stream.go (unexported there):
// the lexer sees unicode.ToUpper of every rune.
type upperStream struct{ antlr.CharStream }

func (s *upperStream) LA(offset int) int {
	in := s.CharStream.LA(offset)
	if in < 0 {
		return in
	}
	return int(unicode.ToUpper(rune(in)))
}

// Lex runs the generated lexer (behind the upper-casing stream) over text.
func Lex(text string) []Tok {
	lx := fql.NewFqlLexer(&upperStream{antlr.NewInputStream(text)})
	lx.RemoveErrorListeners()
	names := lx.SymbolicNames
	var out []Tok
	for {
		t := lx.NextToken()
		if t.GetTokenType() == antlr.TokenEOF {
			break
		}
		if t.GetChannel() != antlr.TokenDefaultChannel {
			continue
		}
		name := ""
		if tt := t.GetTokenType(); tt >= 0 && tt < len(names) {
			name = names[tt]
		}
		out = append(out, Tok{Name: name, Code: KindCode[name], Text: t.GetText()})
	}
	return out
}

// KindString packs the kinds of a token list, one printable character each.
func KindString(ts []Tok) string {
	b := make([]byte, len(ts))
	for i, t := range ts {
		b[i] = byte(48 + t.Code)
	}
	return string(b)
}

func Texts(ts []Tok) []string {
	out := make([]string, len(ts))
	for i, t := range ts {
		out[i] = t.Text
	}
	return out
}

// Classify projects a compile error: '0' accepted, '1' syntax error (reported
// by the parser's error listener: "<ANTLR message> at line:col"), '2' the
// program is grammatical but statically wrong (unknown variable / function,
// duplicate declaration, bad regular expression or literal), '3' anything else
// (recovered panics, invalid operator, ...).
func Classify(err error) byte {
	if err == nil {
		return '0'
	}
	m := err.Error()
	for _, p := range []string{"mismatched input", "extraneous input", "no viable alternative", "missing ", "token recognition error", "expecting"} {
		if strings.Contains(m, p) {
			return '1'
		}
	}
	for _, p := range []string{"variable not found", "variable is already defined", "not found: function", "not unique",
		"error parsing regexp", "expected a string literal or a function call", "strconv.", "missed argument",
		"invalid data source", "empty query"} {
		if strings.Contains(m, p) {
			return '2'
		}
	}
	return '3'
}

// ---------------------------------------------------------------- programs

// WalkE visits every expression node of a program (pre-order).
func WalkProgram(p *fqlast.Program, f func(*fqlast.E)) {
	for i := range p.Stmts {
		walkE(p.Stmts[i].E, f)
	}
	if p.Ret != nil {
		walkE(p.Ret, f)
	}
	if p.For != nil {
		walkFor(p.For, f)
	}
}

func walkE(e *fqlast.E, f func(*fqlast.E)) {
	if e == nil {
		return
	}
	f(e)
	walkE(e.A, f)
	walkE(e.B, f)
	walkE(e.C, f)
	for _, x := range e.L {
		walkE(x, f)
	}
	for i := range e.Props {
		walkE(e.Props[i].Key, f)
		walkE(e.Props[i].Val, f)
	}
	for i := range e.Path {
		walkE(e.Path[i].Expr, f)
	}
	if e.Q != nil {
		walkFor(e.Q, f)
	}
}

func walkFor(q *fqlast.For, f func(*fqlast.E)) {
	walkE(q.Src, f)
	walkE(q.Cond, f)
	for i := range q.Body {
		c := &q.Body[i]
		walkE(c.E, f)
		for j := range c.Keys {
			walkE(c.Keys[j].E, f)
		}
		walkE(c.Offset, f)
		walkE(c.Count, f)
		for j := range c.Groups {
			walkE(c.Groups[j].E, f)
		}
		walkE(c.Tail.Proj, f)
		for j := range c.Tail.Sels {
			for _, a := range c.Tail.Sels[j].Args {
				walkE(a, f)
			}
		}
	}
	if q.Ret != nil {
		walkE(q.Ret.E, f)
		if q.Ret.For != nil {
			walkFor(q.Ret.For, f)
		}
	}
}

// Sanitize rewrites negative numeric literals into the unary minus the grammar
// reads them as (there is no negative literal in FQL), so that the tree sent
// to the model is the tree the visitor builds.
func Sanitize(p *fqlast.Program) {
	WalkProgram(p, func(e *fqlast.E) {
		switch {
		case e.K == "int" && e.Int < 0 && e.Int != -9223372036854775808:
			*e = *fqlast.Un("-", fqlast.Int(-e.Int))
		case e.K == "float" && (e.Float < 0):
			*e = *fqlast.Un("-", fqlast.Float(-e.Float))
		}
	})
}

// ------------------------------------------------------------------ strings

// StringPool: contents for string literals — multi-byte, combining, keyword
// look-alikes, quote characters of the other styles, layout characters,
// comment look-alikes.  No backslashes (those are exercised separately).
var StringPool = []string{"", "a", "ab", "10", "-3", "x y", "é", "é", "A", "abc", "7", "return", "RETURN 1", "for", "and", "not",
	"日本語", "😀", "a'b", `a"b`, "tab\there", "line\nbreak", "ıſ", "İstanbul", " ", " x", "/* c */", "// x", "´", "`q`", "ß", "Ǆ",
	"ạ̈", "null", "TRUE", "@p", "x::y", "1..2", "\U0001F468‍\U0001F469‍\U0001F467",
	"cr\r\nlf", "a\rb", "\r\n", "x\u2028y", "x\u0085y", "two  spaces", "two spaces", "two\tspaces", "two\nspaces", "tab\t\ttab", "tab\ttab", "\n",
	// supplementary-plane characters whose low 16 bits are a quote, a backslash, a line feed or a comment delimiter
	"a\U00020022b", "a\U00020027b", "a\U00020060b", "a\U0002005Cb", "a\U0002000Ab", "\U0002002A\U0002002F", "\U000200B4"}

var quoteChars = []string{`"`, `'`, "`", "´"}

// Admissible reports whether content s can be written in quote style q
// (0 " 1 ' 2 ` 3 ´) so that the literal's value is s under the documented
// rules: the content must not contain the quote character, and no backslash.
func Admissible(s string, q int) bool {
	return !strings.Contains(s, quoteChars[q]) && !strings.Contains(s, `\`)
}

// Quote writes s raw between quotes of style q.
func Quote(s string, q int) string { return quoteChars[q] + s + quoteChars[q] }

// CanonQuote: the first admissible style.
func CanonQuote(s string) string {
	for q := 0; q < 4; q++ {
		if Admissible(s, q) {
			return Quote(s, q)
		}
	}
	panic("surface: no quote style admits " + s)
}

// RandQuote: a random admissible style.
func RandQuote(rng *rand.Rand) func(string) string {
	return func(s string) string {
		var ok []int
		for q := 0; q < 4; q++ {
			if Admissible(s, q) {
				ok = append(ok, q)
			}
		}
		if len(ok) == 0 {
			panic("surface: no quote style admits " + s)
		}
		return Quote(s, ok[rng.Intn(len(ok))])
	}
}

// Canon is the canonical style: keywords upper-case, single spaces, no
// redundant parentheses, first admissible quote style.
var Canon = &fqlast.Style{
	ExtraParens: func() bool { return false },
	Kw:          func(s string) string { return s },
	Sep:         func() string { return " " },
	Quote:       CanonQuote,
}

// ReplaceStrings substitutes the generator's string literals and quoted
// property names by contents from StringPool.
func ReplaceStrings(p *fqlast.Program, rng *rand.Rand) {
	WalkProgram(p, func(e *fqlast.E) {
		if e.K == "str" && rng.Intn(2) == 0 {
			e.Str = StringPool[rng.Intn(len(StringPool))]
		}
		if e.K == "obj" {
			seen := map[string]bool{}
			for i := range e.Props {
				if e.Props[i].Kind == "named" && rng.Intn(3) == 0 {
					n := StringPool[1+rng.Intn(len(StringPool)-1)]
					if !seen[n] {
						e.Props[i].Name = n
					}
				}
				seen[e.Props[i].Name] = true
			}
		}
	})
}

// ---------------------------------------------------------------- rendering

var seps = []string{" ", " ", " ", "  ", "\t", "\n", "\r\n", "\u00a0", "\u2028", "\u2029", "\v", "\f", " /* c */ ", "/**/", "/* RETURN 1 */",
	"/* \" ' ` */", " // c\n", "//\n", "// RETURN x\u2028", "/* a\nb */", "\n\n\t", " /*\u00b4*/ ", "\u00a0\u00a0", "// \u00b4 `\r"}

func recaseWord(rng *rand.Rand, s string) string {
	switch rng.Intn(4) {
	case 0:
		return strings.ToUpper(s)
	case 1:
		return strings.ToLower(s)
	}
	b := []rune(s)
	for i, r := range b {
		if rng.Intn(2) == 0 {
			b[i] = unicode.ToLower(r)
		} else {
			b[i] = unicode.ToUpper(r)
		}
		// now and then the two non-ASCII letters whose upper case is ASCII
		if rng.Intn(40) == 0 {
			switch unicode.ToUpper(r) {
			case 'I':
				b[i] = 'ı'
			case 'S':
				b[i] = 'ſ'
			}
		}
	}
	return string(b)
}

var keywordKinds = map[string]bool{}

func init() {
	for _, n := range []string{"And", "Or", "For", "Return", "Distinct", "Filter", "Sort", "Limit", "Let", "Collect", "SortDirection",
		"None", "Null", "BooleanLiteral", "Into", "Keep", "With", "Count", "All", "Any", "Aggregate", "Like", "Not", "In", "Do", "While"} {
		keywordKinds[n] = true
	}
}

// Rerender writes the token list with random layout between the tokens and,
// when recase is set, random letter case for keywords, function names and
// namespace segments.  The result is re-lexed; if it does not give back the
// same tokens (kinds, and texts up to case) single spaces are used instead.
func Rerender(rng *rand.Rand, ts []Tok, recase bool) string {
	texts := make([]string, len(ts))
	for i, t := range ts {
		texts[i] = t.Text
		if !recase {
			continue
		}
		isFn := t.Name == "Identifier" && i+1 < len(ts) && ts[i+1].Name == "OpenParen"
		if keywordKinds[t.Name] || isFn || t.Name == "NamespaceSegment" {
			texts[i] = recaseWord(rng, t.Text)
		}
	}
	var b strings.Builder
	lead := func() {
		if rng.Intn(4) == 0 {
			b.WriteString(seps[rng.Intn(len(seps))])
		}
	}
	lead()
	for i, s := range texts {
		if i > 0 {
			switch rng.Intn(6) {
			case 0:
				// nothing, if that is safe (checked below)
			case 1:
				b.WriteString(seps[rng.Intn(len(seps))])
				b.WriteString(seps[rng.Intn(len(seps))])
			default:
				b.WriteString(seps[rng.Intn(len(seps))])
			}
		}
		b.WriteString(s)
	}
	lead()
	out := b.String()
	if sameTokens(Lex(out), ts, texts) {
		return out
	}
	// fall back: empty separators replaced by spaces
	out = strings.Join(texts, " ")
	return out
}

func sameTokens(got []Tok, want []Tok, texts []string) bool {
	if len(got) != len(want) {
		return false
	}
	for i := range got {
		if got[i].Name != want[i].Name || got[i].Text != texts[i] {
			return false
		}
	}
	return true
}

// ParenAfterClauseKeyword: a FILTER or SORT token is directly followed by '('.
func ParenAfterClauseKeyword(ts []Tok) bool {
	for i := 0; i+1 < len(ts); i++ {
		if (ts[i].Name == "Filter" || ts[i].Name == "Sort") && ts[i+1].Name == "OpenParen" {
			return true
		}
	}
	return false
}

// SilenceConsole: ANTLR's default ConsoleErrorListener prints every syntax
// error of the parser under test on os.Stderr; the harness makes thousands of
// ill-formed texts on purpose.
func SilenceConsole() {
	if dn, err := os.OpenFile(os.DevNull, os.O_WRONLY, 0); err == nil {
		os.Stderr = dn
	}
}

// ------------------------------------------------------- '?' after ')' shapes

// slot is a place in the tree where any expression may stand.
type slot struct {
	get func() *fqlast.E
	set func(*fqlast.E)
}

func exprSlots(e *fqlast.E, out *[]slot) {
	if e == nil {
		return
	}
	add := func(pp **fqlast.E) {
		if *pp != nil {
			*out = append(*out, slot{func() *fqlast.E { return *pp }, func(x *fqlast.E) { *pp = x }})
			exprSlots(*pp, out)
		}
	}
	switch e.K {
	case "member": // the source of a member path must stay a name / call / literal
		exprSlots(e.A, out)
	case "range": // operands are integer literals, names or parameters
	default:
		add(&e.A)
		add(&e.B)
		add(&e.C)
	}
	for i := range e.L {
		add(&e.L[i])
	}
	for i := range e.Props {
		add(&e.Props[i].Key)
		add(&e.Props[i].Val)
	}
	for i := range e.Path {
		add(&e.Path[i].Expr)
	}
	if e.Q != nil {
		forSlots(e.Q, out)
	}
}

func forSlots(q *fqlast.For, out *[]slot) {
	add := func(pp **fqlast.E) {
		if *pp != nil {
			*out = append(*out, slot{func() *fqlast.E { return *pp }, func(x *fqlast.E) { *pp = x }})
			exprSlots(*pp, out)
		}
	}
	exprSlots(q.Src, out)
	for i := range q.Body {
		c := &q.Body[i]
		switch c.K {
		case "let":
			add(&c.E)
		case "collect":
			for j := range c.Groups {
				add(&c.Groups[j].E)
			}
			add(&c.Tail.Proj)
		case "call":
			exprSlots(c.E, out)
		default:
			// FILTER / SORT expressions are left alone: a rewritten left-most
			// operand would be parenthesised and put '(' directly after the
			// keyword (recorded finding); LIMIT values are restricted
		}
	}
	if q.Ret != nil {
		if q.Ret.For != nil {
			forSlots(q.Ret.For, out)
		} else {
			add(&q.Ret.E)
		}
	}
}

// InjectQ rewrites up to max randomly chosen sub-expressions into shapes that
// put a '?' directly after ')': shorthand and full ternaries whose condition
// is a call or a parenthesised operand, with unary minus / plus / NOT / NONE /
// a call as the then-branch, nested in then- and else-branches, the error
// operator followed by a ternary, by ':' and by a binary operator.
func InjectQ(p *fqlast.Program, rng *rand.Rand, max int) int {
	var slots []slot
	for i := range p.Stmts {
		if p.Stmts[i].Let {
			pp := &p.Stmts[i].E
			slots = append(slots, slot{func() *fqlast.E { return *pp }, func(x *fqlast.E) { *pp = x }})
			exprSlots(*pp, &slots)
		} else {
			exprSlots(p.Stmts[i].E, &slots)
		}
	}
	if p.Ret != nil {
		slots = append(slots, slot{func() *fqlast.E { return p.Ret }, func(x *fqlast.E) { p.Ret = x }})
		exprSlots(p.Ret, &slots)
	}
	if p.For != nil {
		forSlots(p.For, &slots)
	}
	if len(slots) == 0 {
		return 0
	}
	n := 0
	for k := 0; k < max; k++ {
		s := slots[rng.Intn(len(slots))]
		s.set(QShape(rng, s.get()))
		n++
	}
	return n
}

var qid = 0

func qLit(rng *rand.Rand) *fqlast.E {
	switch rng.Intn(6) {
	case 0:
		return fqlast.Param("n")
	case 1:
		return fqlast.Bool(rng.Intn(2) == 0)
	case 2:
		return fqlast.Str("a")
	case 3:
		return fqlast.None()
	}
	return fqlast.Int(int64(rng.Intn(6)))
}

func qCall(rng *rand.Rand) *fqlast.E {
	qid++
	if rng.Intn(3) == 0 {
		return fqlast.Call("ARR", qLit(rng))
	}
	return fqlast.Call("T", fqlast.Int(int64(5000+qid)), qLit(rng))
}

// QShape builds one of the shapes around x.
func QShape(rng *rand.Rand, x *fqlast.E) *fqlast.E {
	lit := func() *fqlast.E { return qLit(rng) }
	call := func() *fqlast.E { return qCall(rng) }
	par := func() *fqlast.E { return fqlast.Suppress(fqlast.Math("+", lit(), lit())) } // (a + b)?
	un := func() *fqlast.E { return fqlast.Un([]string{"-", "+", "NOT", "!", "-"}[rng.Intn(5)], lit()) }
	switch rng.Intn(16) {
	case 0:
		return fqlast.Cond(call(), un(), x) // F() ? -a : x
	case 1:
		return fqlast.Cond(call(), nil, x) // F() ?: x
	case 2:
		return fqlast.Cond(fqlast.Suppress(call()), lit(), x) // F()? ? a : x
	case 3:
		return fqlast.Cond(x, fqlast.Cond(call(), nil, lit()), lit()) // x ? F() ?: a : b
	case 4:
		return fqlast.Cond(x, fqlast.Suppress(call()), lit()) // x ? F()? : b
	case 5:
		return fqlast.Cond(lit(), fqlast.Math("-", fqlast.Suppress(call()), lit()), x) // a ? F()? - b : x
	case 6:
		return fqlast.Cond(call(), fqlast.None(), x) // F() ? NONE : x
	case 7:
		return fqlast.Cond(call(), fqlast.Cond(call(), un(), lit()), x) // F() ? G() ? -a : b : x
	case 8:
		return fqlast.Cond(par(), un(), x) // (a + b)? ? -c : x
	case 9:
		return fqlast.Cond(call(), x, fqlast.Cond(call(), un(), lit())) // F() ? x : (G() ? -a : b)
	case 10:
		return fqlast.Math("-", fqlast.Suppress(call()), x) // F()? - x
	case 11:
		return fqlast.Cond(fqlast.Math("*", lit(), fqlast.Math("+", lit(), lit())), un(), x) // a * (b + c) ? -d : x
	case 12:
		return fqlast.Cond(call(), call(), x) // F() ? G() : x
	case 13:
		return fqlast.Cond(fqlast.Cond(call(), un(), lit()), nil, x) // F() ? -a : b ?: x
	case 14:
		return fqlast.Cond(lit(), fqlast.Cond(fqlast.Suppress(par()), nil, lit()), x) // a ? ((b + c)?)? ?: d : x
	}
	return fqlast.Log("AND", fqlast.Suppress(call()), x) // F()? AND x
}

// QText writes a random expression text over a small grammar of '?' shapes
// (operands ending in ')', error operators, shorthand and full ternaries,
// unary operators, NONE, nesting); many of the texts are ill-formed or have
// more than one reading.
func QText(rng *rand.Rand, d int) string {
	operand := func() string {
		switch rng.Intn(6) {
		case 0:
			return "(" + []string{"0", "1", "2"}[rng.Intn(3)] + ")"
		case 1:
			return "LENGTH([" + []string{"", "1", "1, 2"}[rng.Intn(3)] + "])"
		case 2:
			return "T(1, " + []string{"0", "1", "NONE"}[rng.Intn(3)] + ")"
		case 3:
			return "@n"
		case 4:
			return "NONE"
		}
		return []string{"0", "1", "7"}[rng.Intn(3)]
	}
	if d <= 0 {
		return operand()
	}
	sub := func() string { return QText(rng, d-1) }
	switch rng.Intn(14) {
	case 0:
		return operand()
	case 1, 2:
		return sub() + "?"
	case 3, 4:
		t := sub()
		switch rng.Intn(5) {
		case 0:
			t = "-" + t
		case 1:
			t = "NOT " + t
		case 2:
			t = "+ " + t
		}
		return sub() + " ? " + t + " : " + sub()
	case 5, 6:
		return sub() + " ?: " + sub()
	case 7:
		return "-" + sub()
	case 8:
		return "NOT " + sub()
	case 9:
		return sub() + []string{" + ", " - ", " AND ", " == ", " IN "}[rng.Intn(5)] + sub()
	case 10:
		return "(" + sub() + ")"
	case 11:
		return "[" + sub() + ", " + sub() + "]"
	case 12:
		return sub() + " ? " + sub() + "? : " + sub()
	}
	return "(" + sub() + ")?"
}
