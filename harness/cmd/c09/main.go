package main

// C09: results serialize to faithful, canonical JSON.
//
// For every generated value the harness records the bytes of Value.MarshalJSON,
// the bytes Program.Run returns for `RETURN @p` with the value passed as a
// parameter, and how many distinct byte strings the same value yields when it
// is rebuilt in other insertion orders.  The model (Check/C09.v) evaluates the
// property's predicates on these bytes: valid UTF-8 JSON (its own RFC 8259
// parser), parses back to the value, canonical, keys sorted, markup unescaped.
// Byte equality with the model's serializer is a drift diagnostic only.

import (
	"bufio"
	"context"
	"encoding/hex"
	"encoding/json"
	"fmt"
	"math"
	"math/rand"
	"os"
	"os/exec"
	"path/filepath"
	"reflect"
	"regexp"
	"sort"
	"strings"
	"sync"
	"time"
	"unicode/utf8"

	. "verif/harness/common"

	"github.com/MontFerret/ferret/pkg/compiler"
	"github.com/MontFerret/ferret/pkg/runtime"
	"github.com/MontFerret/ferret/pkg/runtime/core"
	"github.com/MontFerret/ferret/pkg/runtime/values"
	"github.com/MontFerret/ferret/pkg/runtime/values/types"
)

func main() {
	out, tier, seed, _ := Args()
	run(out, tier, seed)
}

// ---- adversarial pools

func stringPool() []string {
	p := []string{
		"", "a", "key", "hello world", `"`, `\`, `\"`, `"quoted"`, `back\slash`, `A`, `\n`, "/", "</script>",
		"<", ">", "&", "<a href=\"x\">&amp;</a>", "\x7f", "a\x7fb",
		"\u2028", "\u2029", "x\u2028y\u2029z", "\ufeff", "\ufeffbom", "\ufffd", "é", "ü", "日本語", "\U0001F600", "a\U0001F600b", "\U0010FFFF",
		"\xed\xa0\x80", "\xed\xbf\xbf", "\xed\xa0\xbd\xed\xb8\x80", // lone surrogates, a surrogate pair encoded as two 3-byte forms
		"\xff", "\xfe", "\xc0\x80", "\xc1\xbf", "\xe2\x82", "\xe2", "\xf0\x9f\x98", "\xf5\x80\x80\x80", "\xf4\x90\x80\x80", "\xe0\x80\x80",
		"\x80", "\xbf", "ok\xffok", "\xe2\x80", "\xe2\x80\xa8\xff",
		"0", "1", "true", "null", "[]", "{}", "a:b", "k,", "a b", " ", "\t", "\n", "\r", "\r\n", "\b", "\f", "\x00", "\x1f", "\x1b[0m",
		"A", "B", "a\x01", "a!", "Z", "[", "~", "{", "\x00a", "\x01", "!",
	}
	for c := 0; c < 0x20; c++ {
		p = append(p, string([]byte{byte(c)}), "c"+string([]byte{byte(c)})+"d")
	}
	return p
}

func floatPool() []float64 {
	return []float64{0, math.Copysign(0, -1), 1, -1, 0.5, 1.5, 0.1, 0.2, 0.3, 1.0 / 3, 2.5, 100, 1e6, 1e20, 1e21, 1.5e21, 1e22, 1e-6, 1e-7, 9.999999e-7,
		1e300, -1e300, 5e-324, -5e-324, 1e-323, 2.2250738585072014e-308, 2.225073858507201e-308, math.MaxFloat64, -math.MaxFloat64,
		float64(1 << 53), float64(1<<53 + 2), 123456789.123, 3.141592653589793, 2.718281828459045, 1e15, 1e16, 1e17, 123456789012345680000,
		4.35, 0.000001234, 6.02214076e23, 1.7976931348623157e308, 4.9406564584124654e-324, 9007199254740993, 0.1 + 0.2}
}

func intPool() []int64 {
	return []int64{0, 1, -1, 7, 10, 99, 100, -100, 1 << 31, -(1 << 31), 1 << 53, 1<<53 + 1, math.MaxInt64, math.MinInt64, math.MaxInt64 - 1, math.MinInt64 + 1,
		1000000007, -999999999999}
}

func datePool() []core.Value {
	return []core.Value{
		Date(0, 0, -1), Date(0, 0, 0), Date(0, 0, 60), Date(0, 1, -1), Date(1, 0, -1), Date(-1, 999999999, -1),
		Date(1700000000, 5, -120), Date(1700000000, 500000000, 330), Date(1700000000, 120000000, 345), Date(253402300799, 0, -1),
		Date(253402300799, 999999999, -1), Date(-62135596800, 0, -1), Date(-62135596800, 1, -1), Date(951782400, 0, -1), // 2000-02-29
		Date(1709164800, 0, -1), Date(4107542400, 0, 840), Date(-2208988800, 0, -720), Date(1e9, 100, 1), Date(1e9, 999999000, -1),
	}
}

type gen struct {
	rng  *rand.Rand
	strs []string
	fls  []float64
	ints []int64
	dts  []core.Value
}

func (g *gen) str() string {
	switch g.rng.Intn(5) {
	case 0: // concatenation of pool fragments
		n := 1 + g.rng.Intn(3)
		var sb strings.Builder
		for i := 0; i < n; i++ {
			sb.WriteString(g.strs[g.rng.Intn(len(g.strs))])
		}
		return sb.String()
	case 1: // random bytes (mostly invalid UTF-8)
		n := g.rng.Intn(6)
		b := make([]byte, n)
		for i := range b {
			b[i] = byte(g.rng.Intn(256))
		}
		return string(b)
	case 2: // random runes
		n := g.rng.Intn(5)
		var sb strings.Builder
		for i := 0; i < n; i++ {
			switch g.rng.Intn(4) {
			case 0:
				sb.WriteRune(rune(g.rng.Intn(0x80)))
			case 1:
				sb.WriteRune(rune(0x80 + g.rng.Intn(0x800)))
			case 2:
				sb.WriteRune(rune(0x2020 + g.rng.Intn(0x20)))
			default:
				sb.WriteRune(rune(0x10000 + g.rng.Intn(0x100000)))
			}
		}
		return sb.String()
	default:
		return g.strs[g.rng.Intn(len(g.strs))]
	}
}

func (g *gen) scalar() core.Value {
	switch g.rng.Intn(9) {
	case 0:
		return values.None
	case 1:
		return values.NewBoolean(g.rng.Intn(2) == 0)
	case 2:
		if g.rng.Intn(3) == 0 {
			return values.Int(int64(g.rng.Uint64()))
		}
		return values.Int(g.ints[g.rng.Intn(len(g.ints))])
	case 3:
		if g.rng.Intn(3) == 0 { // any finite double
			for {
				f := math.Float64frombits(g.rng.Uint64())
				if !math.IsNaN(f) && !math.IsInf(f, 0) {
					return values.Float(f)
				}
			}
		}
		return values.Float(g.fls[g.rng.Intn(len(g.fls))])
	case 4:
		return g.dts[g.rng.Intn(len(g.dts))]
	case 5:
		n := g.rng.Intn(8)
		b := make([]byte, n)
		for i := range b {
			b[i] = byte(g.rng.Intn(256))
		}
		return values.NewBinary(b)
	default:
		return values.NewString(g.str())
	}
}

func (g *gen) value(depth int) core.Value {
	if depth == 0 || g.rng.Intn(3) == 0 {
		return g.scalar()
	}
	n := g.rng.Intn(5)
	if g.rng.Intn(2) == 0 {
		xs := make([]core.Value, n)
		for i := range xs {
			xs[i] = g.value(depth - 1)
		}
		return Arr(xs...)
	}
	o := values.NewObject()
	for i := 0; i < n; i++ {
		o.Set(values.NewString(g.str()), g.value(depth-1))
	}
	return o
}

// nested: depth levels of single-element containers around a scalar
func (g *gen) nested(depth int) core.Value {
	v := g.scalar()
	for i := 0; i < depth; i++ {
		if g.rng.Intn(2) == 0 {
			v = Arr(v)
		} else {
			v = Obj(g.str(), v)
		}
	}
	return v
}

func clipS(s string, n int) string {
	if len(s) > n {
		return s[:n] + "..."
	}
	return s
}

// staleSerialisation: the bytes are a function of the value's content.  Serialise a private
// deep copy (and an array around it), change a container nested in it in place, serialise
// again: both must equal the serialisation of freshly built equal values.
func staleSerialisation(v core.Value) string {
	cl, ok := v.(core.Cloneable)
	if !ok {
		return ""
	}
	var ft feature
	features(v, &ft)
	if ft.invalidUTF8 {
		return "" // member order among keys that are not valid UTF-8 is not canonical (only validity is required there)
	}
	c := cl.Clone()
	outer := values.NewArrayWith(c)
	if _, failed, _ := safeMarshal(c); failed {
		return ""
	}
	safeMarshal(outer)
	_ = c.String()
	var inner core.Value
	pick := func(x core.Value) {
		if inner != nil {
			return
		}
		switch x.(type) {
		case *values.Array, *values.Object:
			inner = x
		}
	}
	switch cv := c.(type) {
	case *values.Array:
		cv.ForEach(func(x core.Value, _ int) bool { pick(x); return true })
	case *values.Object:
		cv.ForEach(func(x core.Value, _ string) bool { pick(x); return true })
	}
	switch iv := inner.(type) {
	case *values.Array:
		iv.Push(values.NewString("__nested"))
	case *values.Object:
		iv.Set(values.NewString("__nested"), values.NewInt(1))
	default:
		return ""
	}
	b1, f1, _ := safeMarshal(c)
	o1, f2, _ := safeMarshal(outer)
	fresh := c.(core.Cloneable).Clone()
	b2, f3, _ := safeMarshal(fresh)
	o2, f4, _ := safeMarshal(values.NewArrayWith(fresh))
	if f1 || f2 || f3 || f4 {
		return ""
	}
	if string(b1) != string(b2) {
		return fmt.Sprintf("got %s, a freshly built equal value gives %s", clipS(string(b1), 120), clipS(string(b2), 120))
	}
	if string(o1) != string(o2) {
		return fmt.Sprintf("the array around it gives %s, a freshly built one %s", clipS(string(o1), 120), clipS(string(o2), 120))
	}
	if c.String() != fresh.String() {
		return "String() differs from that of a freshly built equal value"
	}
	return ""
}

// plainNested: depth levels of containers (arrays and objects alternating, ASCII
// keys) around an integer, so that "parses back to the value" is decisive
func plainNested(depth int) core.Value {
	var v core.Value = values.Int(7)
	for i := 0; i < depth; i++ {
		if i%2 == 0 {
			v = Arr(v)
		} else {
			v = Obj("k", v)
		}
	}
	return v
}

// rebuild: the same value with the members of every object inserted in the
// order chosen by pick (a permutation of 0..n-1)
func rebuild(v core.Value, pick func(n int) []int) core.Value {
	switch x := v.(type) {
	case *values.Array:
		out := values.NewArray(int(x.Length()))
		x.ForEach(func(e core.Value, _ int) bool {
			out.Push(rebuild(e, pick))
			return true
		})
		return out
	case *values.Object:
		var keys []string
		var vs []core.Value
		x.ForEach(func(e core.Value, k string) bool {
			keys = append(keys, k)
			vs = append(vs, e)
			return true
		})
		idx := make([]int, len(keys))
		for i := range idx {
			idx[i] = i
		}
		sort.Slice(idx, func(a, b int) bool { return keys[idx[a]] < keys[idx[b]] })
		out := values.NewObject()
		for _, p := range pick(len(keys)) {
			out.Set(values.NewString(keys[idx[p]]), rebuild(vs[idx[p]], pick))
		}
		return out
	}
	return v
}

func permutations(n int) [][]int {
	if n == 0 {
		return [][]int{{}}
	}
	var res [][]int
	for _, p := range permutations(n - 1) {
		for pos := 0; pos <= len(p); pos++ {
			q := make([]int, 0, n)
			q = append(q, p[:pos]...)
			q = append(q, n-1)
			q = append(q, p[pos:]...)
			res = append(res, q)
		}
	}
	return res
}

// native: the Go value to pass as a parameter so that values.Parse gives v back
func native(v core.Value) interface{} {
	switch x := v.(type) {
	case *values.Array:
		out := make([]interface{}, 0, int(x.Length()))
		x.ForEach(func(e core.Value, _ int) bool {
			out = append(out, native(e))
			return true
		})
		return out
	case *values.Object:
		out := map[string]interface{}{}
		x.ForEach(func(e core.Value, k string) bool {
			out[k] = native(e)
			return true
		})
		return out
	case values.Int:
		return int64(x)
	case values.Float:
		return float64(x)
	case values.String:
		return string(x)
	case values.Boolean:
		return bool(x)
	case values.DateTime:
		return x.Time
	case values.Binary:
		return []byte(x)
	}
	return nil
}

func safeMarshal(v core.Value) (b []byte, failed bool, note string) {
	defer func() {
		if r := recover(); r != nil {
			b, failed, note = nil, true, fmt.Sprint("panic: ", r)
		}
	}()
	out, err := v.MarshalJSON()
	if err != nil {
		return nil, true, "error"
	}
	return out, false, ""
}

func collectFloats(v core.Value, into map[uint64]string) {
	switch x := v.(type) {
	case values.Float:
		if b, failed, _ := safeMarshal(x); !failed {
			into[math.Float64bits(float64(x))] = string(b)
		}
	case *values.Array:
		x.ForEach(func(e core.Value, _ int) bool { collectFloats(e, into); return true })
	case *values.Object:
		x.ForEach(func(e core.Value, _ string) bool { collectFloats(e, into); return true })
	}
}

type feature struct{ invalidUTF8, escapes, nonASCII, markup, float, date, binary, bigint, multiKey, nilSlice bool }

func features(v core.Value, f *feature) {
	str := func(s string) {
		if !utf8.ValidString(s) {
			f.invalidUTF8 = true
		}
		for i := 0; i < len(s); i++ {
			c := s[i]
			if c < 0x20 || c == '"' || c == '\\' {
				f.escapes = true
			}
			if c >= 0x80 {
				f.nonASCII = true
			}
			if c == '<' || c == '>' || c == '&' {
				f.markup = true
			}
		}
		if strings.Contains(s, "\u2028") || strings.Contains(s, "\u2029") {
			f.escapes = true
		}
	}
	switch x := v.(type) {
	case values.String:
		str(string(x))
	case values.Float:
		f.float = true
	case values.DateTime:
		f.date = true
	case values.Binary:
		f.binary = true
		if []byte(x) == nil {
			f.nilSlice = true // values.NewBinary(nil), values.Parse([]byte(nil))
		}
	case values.Int:
		if x > 1<<53 || x < -(1<<53) {
			f.bigint = true
		}
	case *values.Array:
		if it := reflect.ValueOf(x).Elem().FieldByName("items"); it.IsValid() && it.Kind() == reflect.Slice && it.IsNil() {
			f.nilSlice = true // values.NewArrayWith(), values.NewArrayOf(nil)
		}
		x.ForEach(func(e core.Value, _ int) bool { features(e, f); return true })
	case *values.Object:
		if x.Length() > 1 {
			f.multiKey = true
		}
		x.ForEach(func(e core.Value, k string) bool { str(k); features(e, f); return true })
	}
}

func findTheories() string {
	dir, _ := os.Getwd()
	for i := 0; i < 8; i++ {
		p := filepath.Join(dir, "coq", "theories")
		if st, err := os.Stat(filepath.Join(p, "Check", "C09.vo")); err == nil && !st.IsDir() {
			return p
		}
		dir = filepath.Dir(dir)
	}
	return ""
}

func coqc(dir, theories, file string, timeout time.Duration) (string, error) {
	ctx, cancel := context.WithTimeout(context.Background(), timeout)
	defer cancel()
	cmd := exec.CommandContext(ctx, "coqc", "-Q", theories, "Ferret", file)
	cmd.Dir = dir
	out, err := cmd.CombinedOutput()
	return string(out), err
}

func hxb(b []byte) string { return `(hx "` + hex.EncodeToString(b) + `")` }

func run(out, tier string, seed int64) {
	rng := rand.New(rand.NewSource(seed))
	nRandom, nNested, perFile := 1300, 60, 140
	if tier == "thorough" {
		nRandom, nNested, perFile = 24000, 400, 900
	}
	m := NewMeta("C09", tier, seed)
	m.Rule = "cases = every entry of the adversarial string pool as a string and as an object key, every pool float / int / datetime, the C07 universe, objects in every insertion order (<= 4 keys) or 6 shuffles, deep single-path nestings, seeded random values (depth <= 4) over the pools, random byte strings, random finite doubles and random int64; one evaluation = one serialization (MarshalJSON, Run with the value as a parameter, or one rebuilt insertion order); non-trivial = the value contains a string or key that needs escaping or is not ASCII, a float, a datetime, a binary, an integer beyond 2^53, or an object with at least two members; distinct = distinct rendered values among those"
	g := &gen{rng: rng, strs: stringPool(), fls: floatPool(), ints: intPool(), dts: datePool()}

	var vals []core.Value
	for _, s := range g.strs {
		vals = append(vals, values.NewString(s), Obj(s, values.Int(1)), Obj(s, values.NewString(s), "z", values.None))
	}
	for _, f := range g.fls {
		vals = append(vals, values.Float(f))
	}
	for _, i := range g.ints {
		vals = append(vals, values.Int(i))
	}
	vals = append(vals, g.dts...)
	vals = append(vals, Universe(rng, 30, "quick")...)
	// keys whose escaped order differs from their raw order; many keys; markup keys
	vals = append(vals,
		Obj("\x01", values.Int(1), "A", values.Int(2), "a", values.Int(3), "\"", values.Int(4), "\\", values.Int(5), "[", values.Int(6), "~", values.Int(7)),
		Obj("<b>", values.NewString("&"), "a&b", values.NewString("<>"), ">", values.None),
		Obj("\u2028", values.Int(1), "\u2027", values.Int(2), "\u2029", values.Int(3), "\u202a", values.Int(4)),
		Obj("é", values.Int(1), "e", values.Int(2), "z", values.Int(3), "\U0001F600", values.Int(4), "\uffff", values.Int(5)),
		Arr(values.Float(0.1), values.Int(1), values.NewString("1"), values.None, values.True, Arr(), Obj()),
		// empty containers as the Go API can build them: nil item slice, nil byte slice (values.Parse([]byte(nil)))
		values.NewArrayOf(nil), values.NewArrayWith(), values.NewArray(0), Arr(values.NewArrayOf(nil)), Obj("a", values.NewArrayOf(nil)),
		values.NewBinary(nil), values.NewBinary([]byte{}), Arr(values.NewBinary(nil)), values.NewObject(), Arr(values.NewObject()),
	)
	for i := 0; i < nNested; i++ {
		vals = append(vals, g.nested(3+rng.Intn(40)))
	}
	// fixed deep nestings (beyond any small recursion guard), arrays and objects alternating
	vals = append(vals, plainNested(33), plainNested(48), plainNested(64), plainNested(100))
	// floats at the edges of the int64 range (2^63 is a float, not an int64) and just inside
	vals = append(vals, values.Float(9223372036854775808.0), values.Float(-9223372036854775808.0), values.Float(9223372036854774784.0), values.Float(18446744073709551616.0),
		Arr(values.Float(9223372036854775808.0)), Obj("k", values.Float(-9223372036854775808.0)))
	// objects with many members (17, 40, 300): member order is canonical whatever the size
	for _, n := range []int{17, 40, 300} {
		o := values.NewObject()
		for i := 0; i < n; i++ {
			o.Set(values.NewString(fmt.Sprintf("k%03d", (i*7)%n)), values.NewInt(i))
		}
		vals = append(vals, o, Arr(o))
	}
	for i := 0; i < nRandom; i++ {
		vals = append(vals, g.value(4))
	}

	c := compiler.New()
	prog, err := c.Compile(`RETURN @p`)
	Must(err)
	ctx := context.Background()

	type caseRec struct {
		Value    string   `json:"value"`
		Bytes    string   `json:"bytes"`
		RunBytes string   `json:"run_bytes,omitempty"`
		Variants int      `json:"variants"`
		Tags     []string `json:"tags"`
		Kind     string   `json:"kind"`
	}
	var recs []caseRec
	var lines []string
	floats := map[uint64]string{}
	distinct := map[string]struct{}{}
	var direct []interface{}
	goRejects, runDiffers := 0, 0

	for _, v := range vals {
		rendered := CoqValue(v)
		b1, failed1, note1 := safeMarshal(v)
		m.Evaluations++
		if why := staleSerialisation(v); why != "" {
			direct = append(direct, map[string]interface{}{"key": "stale|" + rendered, "what": "serialising " + clipS(rendered, 200) + ", changing a container nested in it in place and serialising again: " + why, "kinds": []string{KindOf(v)}, "tags": []string{"stale-serialisation"}})
		}
		if strings.HasPrefix(note1, "panic") {
			direct = append(direct, map[string]interface{}{"key": "panic|" + rendered, "what": "MarshalJSON panics on " + rendered + ": " + note1, "kinds": []string{KindOf(v)}})
		}
		// end to end
		var b2 []byte
		failed2 := false
		func() {
			defer func() {
				if r := recover(); r != nil {
					failed2 = true
				}
			}()
			o, err := prog.Run(ctx, runtime.WithParam("p", native(v)), runtime.WithLog(Discard))
			if err != nil {
				failed2 = true
				return
			}
			b2 = o
		}()
		m.Evaluations++
		runField := "None"
		if failed2 != failed1 || string(b1) != string(b2) {
			runDiffers++
			runField = fmt.Sprintf("(Some (%v, %s))", failed2, hxb(b2))
		}
		// other insertion orders
		outs := map[string]struct{}{string(b1): {}}
		var picks []func(int) []int
		top, isObj := v.(*values.Object)
		if isObj && top.Length() >= 2 && top.Length() <= 4 {
			for _, p := range permutations(int(top.Length())) {
				p := p
				first := true
				picks = append(picks, func(n int) []int {
					if first && n == len(p) {
						first = false
						return p
					}
					return rng.Perm(n)
				})
			}
		} else if v.Type() == types.Object || v.Type() == types.Array {
			for i := 0; i < 6; i++ {
				picks = append(picks, func(n int) []int { return rng.Perm(n) })
			}
		}
		for _, pick := range picks {
			b, failed, _ := safeMarshal(rebuild(v, pick))
			if failed {
				outs["<error>"] = struct{}{}
			} else {
				outs[string(b)] = struct{}{}
			}
			m.Evaluations++
		}
		if !failed1 && (!json.Valid(b1) || !utf8.Valid(b1)) {
			goRejects++
		}
		collectFloats(v, floats)
		var ft feature
		features(v, &ft)
		tags := []string{}
		for name, on := range map[string]bool{"invalid-utf8": ft.invalidUTF8, "escapes": ft.escapes, "non-ascii": ft.nonASCII, "markup": ft.markup,
			"float": ft.float, "datetime": ft.date, "binary": ft.binary, "int>2^53": ft.bigint, "object>=2": ft.multiKey,
			"built-from-nil-slice (NewArrayWith() / NewArrayOf(nil) / NewBinary(nil))": ft.nilSlice} {
			if on {
				tags = append(tags, name)
				m.Count("feature:" + name)
			}
		}
		sort.Strings(tags)
		if len(tags) > 0 {
			distinct[rendered] = struct{}{}
		}
		m.Count("kind:" + KindOf(v))
		if failed1 {
			m.Count("outcome:marshal-error")
		}
		lines = append(lines, fmt.Sprintf(" (%s, %v, %s, %s, %d%%N)", rendered, failed1, hxb(b1), runField, len(outs)))
		rec := caseRec{Value: rendered, Bytes: string(b1), Variants: len(outs), Tags: tags, Kind: KindOf(v)}
		if runField != "None" {
			rec.RunBytes = string(b2)
		}
		recs = append(recs, rec)
	}
	m.DistinctNontrivial = len(distinct)

	// ---- data modules (compiled here, in parallel, so that the verdict files
	// and the drift files share one parse), verdict files, drift files
	theories := findTheories()
	nFiles := (len(lines) + perFile - 1) / perFile
	starts := map[string]int{}
	dataOK := make([]bool, nFiles)
	var wg sync.WaitGroup
	sem := make(chan struct{}, 12)
	for k := 0; k < nFiles; k++ {
		lo, hi := k*perFile, (k+1)*perFile
		if hi > len(lines) {
			hi = len(lines)
		}
		body := "Definition CS : list case := [\n" + strings.Join(lines[lo:hi], ";\n") + "\n]."
		dname := fmt.Sprintf("c09d%03d.v", k)
		Must(os.WriteFile(filepath.Join(out, dname), []byte("From Ferret Require Import Json Check.C09.\n"+body+"\n"), 0o644))
		if theories != "" {
			wg.Add(1)
			go func(k int, dname string) {
				defer wg.Done()
				sem <- struct{}{}
				defer func() { <-sem }()
				if _, err := coqc(out, theories, dname, 20*time.Minute); err == nil {
					dataOK[k] = true
				}
			}(k, dname)
		}
	}
	wg.Wait()
	// float table
	var ft []string
	bitsSorted := make([]uint64, 0, len(floats))
	for b := range floats {
		bitsSorted = append(bitsSorted, b)
	}
	sort.Slice(bitsSorted, func(i, j int) bool { return bitsSorted[i] < bitsSorted[j] })
	for _, b := range bitsSorted {
		ft = append(ft, fmt.Sprintf("(%d%%N, %s)", b, hxb([]byte(floats[b]))))
	}
	allData := theories != ""
	for k := 0; k < nFiles; k++ {
		allData = allData && dataOK[k]
	}
	if allData {
		Must(os.WriteFile(filepath.Join(out, "c09ft.v"), []byte("From Ferret Require Import Base.\nDefinition FT : list (N * bytes) := [\n"+strings.Join(ft, ";\n")+"\n].\n"), 0o644))
		if _, err := coqc(out, theories, "c09ft.v", 10*time.Minute); err != nil {
			allData = false
		}
	}
	driftTotal, driftOK := 0, allData
	var dmu sync.Mutex
	for k := 0; k < nFiles; k++ {
		lo, hi := k*perFile, (k+1)*perFile
		if hi > len(lines) {
			hi = len(lines)
		}
		name := fmt.Sprintf("cases%03d.v", k)
		f, err := os.Create(filepath.Join(out, name))
		Must(err)
		w := bufio.NewWriter(f)
		fmt.Fprintln(w, "From Ferret Require Import Json Check.C09.")
		if dataOK[k] {
			fmt.Fprintf(w, "Require Import c09d%03d.\n", k)
		} else {
			fmt.Fprintln(w, "Definition CS : list case := [\n"+strings.Join(lines[lo:hi], ";\n")+"\n].")
		}
		fmt.Fprintln(w, "Definition M := Eval vm_compute in mismatches CS.\nPrint M.")
		Must(w.Flush())
		Must(f.Close())
		m.Files = append(m.Files, name)
		starts[name] = lo
		if allData {
			wg.Add(1)
			go func(k int) {
				defer wg.Done()
				sem <- struct{}{}
				defer func() { <-sem }()
				dn := fmt.Sprintf("drift%03d.v", k)
				src := fmt.Sprintf("From Ferret Require Import Json Check.C09.\nRequire Import c09d%03d c09ft.\nDefinition DR := Eval vm_compute in drift FT CS.\nPrint DR.\n", k)
				if os.WriteFile(filepath.Join(out, dn), []byte(src), 0o644) != nil {
					return
				}
				o, err := coqc(out, theories, dn, 20*time.Minute)
				mm := regexp.MustCompile(`DR = (\d+)%N`).FindStringSubmatch(strings.Join(strings.Fields(o), " "))
				dmu.Lock()
				defer dmu.Unlock()
				if err != nil || mm == nil {
					driftOK = false
					return
				}
				var n int
				fmt.Sscan(mm[1], &n)
				driftTotal += n
			}(k)
		}
	}
	wg.Wait()
	if driftOK {
		m.Extra["byte_drift_vs_model_serializer"] = map[string]interface{}{"cases_compared": len(lines), "cases_differing": driftTotal,
			"float_texts_taken_from_implementation": len(floats),
			"note":                                  "diagnostic only: an equivalent encoder (other valid escapes, other float digits that round to the same double) keeps the property"}
	} else {
		m.Extra["byte_drift_vs_model_serializer"] = "not evaluated (coqc or Check/C09.vo not reachable from the harness)"
	}
	m.Extra["encoding_json_or_utf8_rejects_output"] = goRejects
	m.Extra["run_bytes_differ_from_marshal_bytes"] = runDiffers
	if len(direct) > 0 {
		m.Extra["direct_violations"] = direct
	}
	m.Index["cases"] = recs
	m.Index["starts"] = starts
	for _, i := range []int{1, 40, len(recs) / 2, len(recs) - 1} {
		m.Samples = append(m.Samples, recs[i])
	}
	m.Write(out)
}
