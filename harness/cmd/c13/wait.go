package main

// WAIT and WAITFOR EVENT against a fake observable: scripted messages (value,
// error, closed stream) at scripted delays x filters x timeouts x cancellation
// times.  The expected outcome follows from the script (first matching value
// before the deadline; error message; closed stream; deadline), and the
// subscription must be closed exactly once.  Failures are reported as direct
// violations.

import (
	"context"
	"errors"
	"fmt"
	"io"
	"math/rand"
	"os"
	"path/filepath"
	"strings"
	"sync"
	"sync/atomic"
	"time"

	"github.com/MontFerret/ferret/pkg/compiler"
	"github.com/MontFerret/ferret/pkg/runtime"
	"github.com/MontFerret/ferret/pkg/runtime/core"
	"github.com/MontFerret/ferret/pkg/runtime/events"
	"github.com/MontFerret/ferret/pkg/runtime/values"

	. "verif/harness/common"
)

type scriptMsg struct {
	At   int    // ms after subscribe
	Kind string // val err close
	Val  int
}

type fakeObs struct {
	flood      bool // a busy source: non-matching events (value 0) are always queued
	script     []scriptMsg
	subscribes int32
	closes     int32
	failSub    bool
}

var obsType = core.NewType("fakeobs")

func (o *fakeObs) MarshalJSON() ([]byte, error) { return []byte(`"obs"`), nil }
func (o *fakeObs) Type() core.Type              { return obsType }
func (o *fakeObs) String() string               { return "obs" }
func (o *fakeObs) Compare(core.Value) int64     { return 1 }
func (o *fakeObs) Unwrap() interface{}          { return o }
func (o *fakeObs) Hash() uint64                 { return 1 }
func (o *fakeObs) Copy() core.Value             { return o }

type fakeStream struct {
	o    *fakeObs
	ch   chan events.Message
	once sync.Once
	done chan struct{}
}

func (s *fakeStream) Close(context.Context) error {
	atomic.AddInt32(&s.o.closes, 1)
	s.once.Do(func() { close(s.done) })
	return nil
}
func (s *fakeStream) Read(context.Context) <-chan events.Message { return s.ch }

func (o *fakeObs) Subscribe(ctx context.Context, _ events.Subscription) (events.Stream, error) {
	atomic.AddInt32(&o.subscribes, 1)
	if o.failSub {
		return nil, errors.New("subscribe failed")
	}
	s := &fakeStream{o: o, ch: make(chan events.Message), done: make(chan struct{})}
	if o.flood {
		s.ch = make(chan events.Message, 1<<16)
		for len(s.ch) < cap(s.ch) { // full before anyone reads; the producers only have to keep up
			s.ch <- events.WithValue(values.NewInt(0))
		}
		for p := 0; p < 8; p++ {
			go func() {
				for {
					select {
					case s.ch <- events.WithValue(values.NewInt(0)):
					case <-s.done:
						return
					}
				}
			}()
		}
		return s, nil
	}
	go func() {
		start := time.Now()
		for _, m := range o.script {
			d := time.Duration(m.At)*time.Millisecond - time.Since(start)
			if d > 0 {
				select {
				case <-time.After(d):
				case <-s.done:
					return
				}
			}
			if m.Kind == "close" {
				close(s.ch)
				return
			}
			var msg events.Message
			if m.Kind == "err" {
				msg = events.WithErr(errors.New("event error"))
			} else {
				msg = events.WithValue(values.NewInt(m.Val))
			}
			select {
			case s.ch <- msg:
			case <-s.done:
				return
			}
		}
		<-s.done
	}()
	return s, nil
}

// expected outcome of a script: "val:<n>", "error", "timeout"
func expect(script []scriptMsg, filterMin int, hasFilter bool, deadline int) string {
	for _, m := range script {
		if m.At >= deadline {
			return "timeout"
		}
		switch m.Kind {
		case "err", "close":
			return "error"
		default:
			if !hasFilter || m.Val >= filterMin {
				return fmt.Sprintf("val:%d", m.Val)
			}
		}
	}
	return "timeout"
}

func waitScripts(m *Meta, tier string, rng *rand.Rand, out string) {
	n := 60
	if tier == "thorough" {
		n = 600
	}
	var direct []interface{}
	var wcases []string
	var widx []interface{}
	var mu sync.Mutex
	var wg sync.WaitGroup
	sem := make(chan struct{}, 16)
	report := func(d map[string]interface{}) {
		mu.Lock()
		direct = append(direct, d)
		mu.Unlock()
	}
	for i := 0; i < n; i++ {
		// events 40 ms apart; deadlines fall between events (20 ms margins)
		ne := rng.Intn(4)
		script := make([]scriptMsg, 0, ne)
		for j := 0; j < ne; j++ {
			k := "val"
			switch rng.Intn(8) {
			case 0:
				k = "err"
			case 1:
				k = "close"
			}
			script = append(script, scriptMsg{At: 40 * (j + 1), Kind: k, Val: rng.Intn(5)})
			if k != "val" {
				break
			}
		}
		hasFilter := rng.Intn(2) == 0
		filterMin := rng.Intn(5)
		timeout := 20 + 40*rng.Intn(5)
		cancelAt := -1
		if rng.Intn(3) == 0 {
			cancelAt = 20 + 40*rng.Intn(4)
		}
		failSub := rng.Intn(15) == 0
		// half of the cases take the timeout from a parameter, and the compiled program has
		// already been run once with another timeout (5 ms, no event) before the measured run
		viaParam := rng.Intn(2) == 0
		wg.Add(1)
		sem <- struct{}{}
		go func(i int) {
			defer wg.Done()
			defer func() { <-sem }()
			obs := &fakeObs{script: script, failSub: failSub}
			var curObs atomic.Value
			curObs.Store(obs)
			c := compiler.New()
			Must(c.RegisterFunction("OBS", func(context.Context, ...core.Value) (core.Value, error) { return curObs.Load().(*fakeObs), nil }))
			tm := fmt.Sprint(timeout)
			if viaParam {
				tm = "@t"
			}
			q := fmt.Sprintf(`LET o = OBS() LET e = (WAITFOR EVENT "x" IN o TIMEOUT %s) RETURN e`, tm)
			if hasFilter {
				q = fmt.Sprintf(`LET o = OBS() LET e = (WAITFOR EVENT "x" IN o FILTER CURRENT >= %d TIMEOUT %s) RETURN e`, filterMin, tm)
			}
			prog, err := c.Compile(q)
			if err != nil {
				report(map[string]interface{}{"key": "waitfor-compile|" + q, "what": "WAITFOR query does not compile: " + err.Error(), "tags": []string{"waitfor"}})
				return
			}
			opts := []runtime.Option{runtime.WithLog(io.Discard)}
			if viaParam {
				// the earlier run of the same program: another observable, another timeout
				curObs.Store(&fakeObs{})
				func() {
					defer func() { recover() }()
					prog.Run(context.Background(), runtime.WithLog(io.Discard), runtime.WithParam("t", 5))
				}()
				curObs.Store(obs)
				opts = append(opts, runtime.WithParam("t", timeout))
			}
			ctx, cancel := context.WithCancel(context.Background())
			defer cancel()
			if cancelAt >= 0 {
				time.AfterFunc(time.Duration(cancelAt)*time.Millisecond, cancel)
			}
			start := time.Now()
			var outb []byte
			var rerr error
			func() {
				defer func() {
					if r := recover(); r != nil {
						rerr = fmt.Errorf("panic escaped: %v", r)
					}
				}()
				outb, rerr = prog.Run(ctx, opts...)
			}()
			el := int(time.Since(start) / time.Millisecond)
			deadline := timeout
			if cancelAt >= 0 && cancelAt < deadline {
				deadline = cancelAt
			}
			exp := expect(script, filterMin, hasFilter, deadline)
			if failSub {
				exp = "error"
			}
			got := "error"
			gotCoq := "WOErr"
			if rerr == nil {
				got = "val:" + string(outb)
				gotCoq = "(WOVal (" + string(outb) + "))"
			}
			desc := map[string]interface{}{"timeout_via_parameter_after_an_earlier_run_with_5ms": viaParam, "script": script, "filter": hasFilter, "filter_min": filterMin, "timeout_ms": timeout, "cancel_ms": cancelAt, "fail_subscribe": failSub, "got": got, "elapsed_ms": el}
			key := fmt.Sprintf("waitfor|%v|%v|%d|%d|%d|%v", script, hasFilter, filterMin, timeout, cancelAt, failSub)
			// promptness: must return within the deadline (+ generous slack)
			limit := deadline + 400
			if exp != "timeout" {
				limit = 40*len(script) + 400
			}
			if el > limit {
				report(map[string]interface{}{"key": key + "|late", "what": fmt.Sprintf("WAITFOR EVENT returned after %d ms (bound %d): %v", el, limit, desc), "case": desc, "tags": []string{"waitfor", "late"}})
			}
			time.Sleep(30 * time.Millisecond)
			subs, closes := atomic.LoadInt32(&obs.subscribes), atomic.LoadInt32(&obs.closes)
			sc := make([]string, len(script))
			for j, ms := range script {
				k := fmt.Sprintf("WVal (%d)", ms.Val)
				if ms.Kind == "err" {
					k = "WErr"
				} else if ms.Kind == "close" {
					k = "WClose"
				}
				sc[j] = fmt.Sprintf("((%d), %s)", ms.At, k)
			}
			fm := "None"
			if hasFilter {
				fm = fmt.Sprintf("(Some (%d))", filterMin)
			}
			line := fmt.Sprintf("(%v, [%s], %s, (%d), %s, %d%%nat, %d%%nat)", failSub, strings.Join(sc, "; "), fm, deadline, gotCoq, subs, closes)
			mu.Lock()
			wcases = append(wcases, line)
			widx = append(widx, map[string]interface{}{"key": key, "case": desc, "subscribes": subs, "closes": closes})
			mu.Unlock()
			mu.Lock()
			m.Evaluations++
			m.Count("waitfor:" + exp[:3])
			mu.Unlock()
		}(i)
	}
	// WAIT released by cancellation / deadline
	// a busy source (an event that does not pass the filter is always queued): TIMEOUT, a deadline and
	// a cancel must still release the pending WAITFOR promptly, with an error
	// (the "-quiet-suppressed" variants: no event at all, and the WAITFOR wrapped in an error-suppressing
	// (...)? as the last thing evaluated — a cut-short wait is still an error of the run)
	for fi, how := range []string{"timeout", "deadline", "cancel", "deadline-quiet-suppressed", "cancel-quiet-suppressed", "cancel-quiet-suppressed-nofilter"} {
		wg.Add(1)
		go func(fi int, how string) {
			defer wg.Done()
			obs := &fakeObs{flood: !strings.Contains(how, "quiet")}
			c := compiler.New()
			Must(c.RegisterFunction("OBS", func(context.Context, ...core.Value) (core.Value, error) { return obs, nil }))
			q := `LET o = OBS() LET e = (WAITFOR EVENT "x" IN o FILTER CURRENT > 5 TIMEOUT 5000) RETURN e`
			if strings.Contains(how, "suppressed") {
				q = `LET o = OBS() RETURN (WAITFOR EVENT "x" IN o FILTER CURRENT > 5 TIMEOUT 5000)?`
				if strings.Contains(how, "nofilter") {
					q = `LET o = OBS() RETURN (WAITFOR EVENT "x" IN o TIMEOUT 5000)?`
				}
			}
			ctx, cancel := context.WithCancel(context.Background())
			switch strings.SplitN(how, "-", 2)[0] {
			case "timeout":
				q = `LET o = OBS() LET e = (WAITFOR EVENT "x" IN o FILTER CURRENT > 5 TIMEOUT 100) RETURN e`
			case "deadline":
				ctx, cancel = context.WithTimeout(context.Background(), 100*time.Millisecond)
			default:
				time.AfterFunc(100*time.Millisecond, cancel)
			}
			defer cancel()
			prog, err := c.Compile(q)
			Must(err)
			done := make(chan error, 1)
			start := time.Now()
			go func() {
				defer func() {
					if r := recover(); r != nil {
						done <- fmt.Errorf("panic escaped: %v", r)
					}
				}()
				_, rerr := prog.Run(ctx, runtime.WithLog(io.Discard))
				done <- rerr
			}()
			var rerr error
			released := true
			select {
			case rerr = <-done:
			case <-time.After(3 * time.Second):
				released = false
				cancel()
			}
			el := int(time.Since(start) / time.Millisecond)
			if !released || rerr == nil || el > 1500 {
				report(map[string]interface{}{"key": "waitfor-busy|" + how, "what": fmt.Sprintf("WAITFOR EVENT with a filter on a busy source (non-matching events always queued) and a 100 ms %s: released=%v err=%v after %d ms", how, released, rerr, el), "tags": []string{"waitfor", "busy"}})
			}
			if released {
				time.Sleep(30 * time.Millisecond)
				if cl := atomic.LoadInt32(&obs.closes); cl != 1 {
					report(map[string]interface{}{"key": "waitfor-busy-close|" + how, "what": fmt.Sprintf("WAITFOR EVENT on a busy source (%s): subscription closed %d times", how, cl), "tags": []string{"waitfor", "busy"}})
				}
			}
			mu.Lock()
			m.Evaluations++
			m.Count("waitfor-busy-source")
			mu.Unlock()
		}(fi, how)
	}
	// (the WAIT is cut short: Run must report an error whether or not anything is evaluated after it,
	// and whether the context ends by its deadline or by an explicit cancel)
	for wi, wq := range []string{`WAIT(5000) RETURN 1`, `RETURN WAIT(5000)`, `FOR i IN [1] RETURN WAIT(5000)`, `RETURN true ? WAIT(5000) : 0`, `LET x = WAIT(5000) RETURN x`, `RETURN [WAIT(5000)]`} {
		for _, d := range []int{10, 50, 120} {
			for _, byCancel := range []bool{false, true} {
				wg.Add(1)
				go func(wi int, wq string, d int, byCancel bool) {
					defer wg.Done()
					c := compiler.New()
					prog, err := c.Compile(wq)
					Must(err)
					var ctx context.Context
					var cancel context.CancelFunc
					if byCancel {
						ctx, cancel = context.WithCancel(context.Background())
						time.AfterFunc(time.Duration(d)*time.Millisecond, cancel)
					} else {
						ctx, cancel = context.WithTimeout(context.Background(), time.Duration(d)*time.Millisecond)
					}
					defer cancel()
					start := time.Now()
					_, rerr := prog.Run(ctx, runtime.WithLog(io.Discard))
					el := int(time.Since(start) / time.Millisecond)
					if rerr == nil || el > d+600 {
						how := "deadline"
						if byCancel {
							how = "cancel"
						}
						report(map[string]interface{}{"key": fmt.Sprintf("wait|%d|%d|%v", wi, d, byCancel), "what": fmt.Sprintf("%s with a %d ms %s returned err=%v after %d ms (a cut-short run must return an error, promptly)", wq, d, how, rerr, el), "tags": []string{"wait"}})
					}
					mu.Lock()
					m.Evaluations++
					m.Count("wait-" + map[bool]string{false: "deadline", true: "cancel"}[byCancel])
					mu.Unlock()
				}(wi, wq, d, byCancel)
			}
		}
	}
	wg.Wait()
	f, err := os.Create(filepath.Join(out, "casesw.v"))
	Must(err)
	fmt.Fprintln(f, "From Ferret Require Import Waitfor Check.C13.")
	fmt.Fprintln(f, "Definition cases : list (bool * script * option Z * Z * wobs * nat * nat) := [")
	fmt.Fprintln(f, " "+strings.Join(wcases, ";\n "))
	fmt.Fprintln(f, "].")
	fmt.Fprintln(f, "Definition M := Eval vm_compute in wmismatches cases.")
	fmt.Fprintln(f, "Print M.")
	Must(f.Close())
	m.Files = append(m.Files, "casesw.v")
	m.Index["waitfor"] = widx
	m.Extra["direct_violations"] = direct
	m.Extra["waitfor_scripts"] = n
}
