package main

// C13: cancellation injected inside every instrumented call of generated loop
// programs, and before the run; WAIT / WAITFOR EVENT with a fake observable.

import (
	"bufio"
	"fmt"
	"math/rand"
	"os"
	"path/filepath"

	"github.com/MontFerret/ferret/pkg/compiler"

	. "verif/harness/common"
	"verif/harness/fqlast"
	"verif/harness/fqlrun"
)

func obsOf(o fqlrun.Outcome) string {
	switch o.Class {
	case "ok":
		v, err := fqlrun.JSONToCoq(o.JSON)
		if err != nil {
			return "OEscaped"
		}
		return "(OVal " + v + " " + fqlrun.TraceCoq(o.Trace) + ")"
	case "error":
		return "(OErr " + fqlrun.TraceCoq(o.Trace) + ")"
	case "compile-error":
		return "OCompileErr"
	case "nil-nil":
		return "ONilNil"
	}
	return "OEscaped"
}

func main() {
	out, tier, seed, _ := Args()
	rng := rand.New(rand.NewSource(seed))
	nprog, depth, per, maxK := 1500, 4, 300, 12
	if tier == "thorough" {
		nprog, depth, per, maxK = 5000, 6, 400, 40
	}
	m := NewMeta("C13", tier, seed)
	m.Rule = "generated loop programs (nested FOR, FOR-WHILE, sub-queries, clauses, COLLECT AGGREGATE, error suppression and optional chaining around calls) whose bodies call instrumented functions; each program is run once uncancelled to count its calls N, then with the context cancelled inside the k-th call for every k < min(N, cap), and once with the context cancelled before Run; plus WAIT/WAITFOR scripts (see extra); a case is non-trivial when the program makes at least one call; distinct = distinct (query, k)"
	c := compiler.New()
	fqlrun.Register(c)
	params := map[string]interface{}{"n": 2, "arr": []interface{}{3, 1, 2, 1}, "obj": map[string]interface{}{"a": 1, "list": []interface{}{1, 2}}, "s": "k", "f": 1.5, "big": []interface{}{2, 1, 2, 1}}
	pcoq := `[(hx "626967", VArr [VInt 2; VInt 1; VInt 2; VInt 1]); (hx "6e", VInt 2); (hx "617272", VArr [VInt 3; VInt 1; VInt 2; VInt 1]); (hx "6f626a", VObj [(hx "61", VInt 1); (hx "6c697374", VArr [VInt 1; VInt 2])]); (hx "73", VStr (hx "6b")); (hx "66", VFloat 4609434218613702656%N)]`
	distinct := map[string]struct{}{}
	var files []string
	var idx []interface{}
	var w *bufio.Writer
	var f *os.File
	inFile := 0
	open := func() {
		name := fmt.Sprintf("cases%03d.v", len(files))
		var err error
		f, err = os.Create(filepath.Join(out, name))
		Must(err)
		w = bufio.NewWriterSize(f, 1<<20)
		fmt.Fprintln(w, "From Ferret Require Import Eval Check.C02 Check.C13.")
		fmt.Fprintln(w, "Definition cases : list (program * list (name * value) * option N * obs) := [")
		files = append(files, name)
		inFile = 0
	}
	closeFile := func() {
		fmt.Fprintln(w, "].")
		fmt.Fprintln(w, "Definition M := Eval vm_compute in mismatches cases.")
		fmt.Fprintln(w, "Print M.")
		Must(w.Flush())
		Must(f.Close())
	}
	emit := func(p *fqlast.Program, q string, k string, o fqlrun.Outcome) {
		if w == nil || inFile >= per {
			if w != nil {
				closeFile()
			}
			open()
		}
		sep := ""
		if inFile > 0 {
			sep = ";"
		}
		fmt.Fprintf(w, "%s (%s,\n  %s, %s,\n  %s)\n", sep, p.Coq(), pcoq, k, obsOf(o))
		idx = append(idx, map[string]interface{}{"file": files[len(files)-1], "i": inFile, "query": q, "cancel": k, "class": o.Class, "err": o.Err, "json": string(o.JSON), "calls": len(o.Trace)})
		inFile++
		m.Evaluations++
		m.Count("outcome:" + o.Class)
		distinct[q+"|"+k] = struct{}{}
	}
	for i := 0; i < nprog; i++ {
		g := fqlast.NewGen(rng, 2+rng.Intn(depth-1))
		g.Faulty = 15
		p := g.Program()
		if i%4 == 0 {
			p = tower(rng)
			g.Stats["tower"]++
		}
		for k, v := range g.Stats {
			m.Distribution[k] += v
		}
		q := p.FQL()
		prog, err := c.Compile(q)
		if err != nil {
			m.Count("compile-error")
			continue
		}
		base := fqlrun.RunProgram(prog, params, -1, false)
		ncalls := 0
		for _, e := range base.Trace {
			if e.Kind == "call" {
				ncalls++
			}
		}
		if ncalls == 0 {
			m.Count("no-calls")
			continue
		}
		m.Count(fmt.Sprintf("calls:%d", min(ncalls, 20)))
		emit(p, q, "None", fqlrun.RunProgram(prog, params, -1, true))
		for k := 0; k < ncalls && k < maxK; k++ {
			emit(p, q, fmt.Sprintf("(Some %d%%N)", k), fqlrun.RunProgram(prog, params, k, false))
		}
		if i < 3 {
			m.Samples = append(m.Samples, map[string]interface{}{"query": q, "calls": ncalls})
		}
	}
	if w != nil {
		closeFile()
	}
	m.DistinctNontrivial = len(distinct)
	m.Files = files
	m.Index["cases"] = idx
	waitScripts(m, tier, rng, out)
	m.Write(out)
}

func min(a, b int) int {
	if a < b {
		return a
	}
	return b
}

// tower: nested calls with several arguments and error suppression / optional
// chaining at a random level, so that a cancellation inside an inner argument
// surfaces through one, two or three enclosing calls before it meets a '?'.
func tower(rng *rand.Rand) *fqlast.Program {
	n := int64(0)
	t := func() *fqlast.E { n++; return fqlast.Call("T", fqlast.Int(n)) }
	e := fqlast.Call("ARR", t(), t())
	depth := 1 + rng.Intn(4)
	for d := 0; d < depth; d++ {
		if rng.Intn(3) == 0 {
			e = fqlast.Suppress(e)
		}
		switch rng.Intn(3) {
		case 0:
			e = fqlast.Call("ARR", t(), e)
		case 1:
			e = fqlast.Call("ARR", e, t())
		default:
			e = fqlast.Call("T", t(), e)
		}
	}
	switch rng.Intn(3) {
	case 0:
		e = fqlast.Suppress(e)
	case 1:
		e = fqlast.Member(fqlast.Call("ARR", e), fqlast.Seg{Optional: true, Expr: fqlast.Int(0)})
	}
	switch rng.Intn(4) {
	case 0:
		return &fqlast.Program{Ret: e}
	case 1:
		return &fqlast.Program{Ret: fqlast.Arr(e, fqlast.Int(7))}
	case 2:
		return &fqlast.Program{Stmts: []fqlast.Stmt{{Let: true, Name: "x", E: e}}, Ret: fqlast.Var("x")}
	}
	return &fqlast.Program{For: &fqlast.For{Val: "i", Src: fqlast.Range(fqlast.Int(1), fqlast.Int(2)), Ret: &fqlast.Ret{E: e}}}
}
