package main

// C02: differential check of the implementation against the reference
// evaluator (coq/theories/Eval.v) on generated core-language programs.

import (
	"bufio"
	"fmt"
	"math/rand"
	"os"
	"path/filepath"
	"strings"

	"github.com/MontFerret/ferret/pkg/compiler"

	. "verif/harness/common"
	"verif/harness/fqlast"
	"verif/harness/fqlrun"
)

type paramSet struct {
	go_ map[string]interface{}
	coq string
}

func bigField(f string) *fqlast.E { return fqlast.Member(fqlast.Var("x"), fqlast.Seg{Name: f}) }

// FOR x IN @big SORT keys RETURN x.k
func sortBig(keys []fqlast.SortKey) *fqlast.Program {
	return &fqlast.Program{For: &fqlast.For{Val: "x", Src: fqlast.Param("big"),
		Body: []fqlast.Clause{{K: "sort", Keys: keys}}, Ret: &fqlast.Ret{E: bigField("k")}}}
}

// FOR x IN [1, 2, 3] LIMIT <count> RETURN x
func limitBy(count *fqlast.E) *fqlast.Program {
	return &fqlast.Program{For: &fqlast.For{Val: "x", Src: fqlast.Arr(fqlast.Int(1), fqlast.Int(2), fqlast.Int(3)),
		Body: []fqlast.Clause{{K: "limit", Count: count}}, Ret: &fqlast.Ret{E: fqlast.Var("x")}}}
}

func paramSets() []paramSet {
	mk := func(n int, arr []interface{}, obj map[string]interface{}, s string, f float64) paramSet {
		big := make([]interface{}, 30)
		for i := range big {
			big[i] = map[string]interface{}{"a": (i * 7) % 3, "b": i % 2, "k": i}
		}
		g := map[string]interface{}{"n": n, "arr": arr, "obj": obj, "s": s, "f": f, "big": big}
		coq := fmt.Sprintf(`[(hx "6e", %s); (hx "617272", %s); (hx "6f626a", %s); (hx "73", %s); (hx "66", %s); (hx "626967", %s)]`,
			goToCoq(n), goToCoq(arr), goToCoq(obj), goToCoq(s), goToCoq(f), goToCoq(big))
		return paramSet{g, coq}
	}
	return []paramSet{
		mk(2, []interface{}{3, 1, 2, 1}, map[string]interface{}{"a": 1, "b": "x", "list": []interface{}{1, 2}, "k": map[string]interface{}{"a": 5}}, "k", 1.5),
		mk(0, []interface{}{}, map[string]interface{}{}, "", 0.5),
		mk(3, []interface{}{"b", 2, nil, true, 2.5, []interface{}{1}, map[string]interface{}{"a": 1}}, map[string]interface{}{"a": []interface{}{10, 20}, "list": []interface{}{"p", "q", "p"}, "c": nil}, "a", -2.0),
		mk(1, []interface{}{map[string]interface{}{"a": 2, "b": 1}, map[string]interface{}{"a": 1, "b": 1}, map[string]interface{}{"a": 2, "b": 0}}, map[string]interface{}{"list": []interface{}{5, 4, 5, 3}, "k": "v", "b": 7}, "b", 4.0),
	}
}

func main() {
	out, tier, seed, _ := Args()
	rng := rand.New(rand.NewSource(seed))
	n, depth, per := 4000, 4, 250
	if tier == "thorough" {
		n, depth, per = 40000, 6, 400
	}
	m := NewMeta("C02", tier, seed)
	m.Rule = "typed-ish random generator over the core grammar (literals, arithmetic, comparison, logical, ternary, range, IN, quantifiers, member access with optional chaining, error suppression, LET, parameters, instrumented calls, FOR with FILTER/SORT/LIMIT/COLLECT/DISTINCT, sub-queries, nesting), printed with minimal parentheses; a case is non-trivial when the program contains at least one operator, call or clause; distinct = distinct (query text, parameter set)"
	c := compiler.New()
	fqlrun.Register(c)
	psets := paramSets()
	distinct := map[string]struct{}{}
	var w *bufio.Writer
	var f *os.File
	var files []string
	var idx []interface{}
	open := func(k int) {
		name := fmt.Sprintf("cases%03d.v", k)
		var err error
		f, err = os.Create(filepath.Join(out, name))
		Must(err)
		w = bufio.NewWriterSize(f, 1<<20)
		fmt.Fprintln(w, "From Ferret Require Import Eval Check.C02.")
		fmt.Fprintln(w, "Definition cases : list (program * list (name * value) * obs) := [")
		files = append(files, name)
	}
	closeFile := func() {
		fmt.Fprintln(w, "].")
		fmt.Fprintln(w, "Definition M := Eval vm_compute in mismatches cases.")
		fmt.Fprintln(w, "Print M.")
		Must(w.Flush())
		Must(f.Close())
	}
	inFile := 0
	// corpus of earlier failures, always run first
	corpus := []*fqlast.Program{
		{Ret: &fqlast.E{K: "like", A: fqlast.Str(""), B: fqlast.Str("?")}},
		{For: &fqlast.For{Val: "i", Src: fqlast.Range(fqlast.Int(1), fqlast.Int(2)), Ret: &fqlast.Ret{For: &fqlast.For{Val: "j", Src: fqlast.Range(fqlast.Int(1), fqlast.Int(2)),
			Ret: &fqlast.Ret{E: fqlast.Arr(fqlast.Var("i"), fqlast.Var("j"))}}}}},
		{Ret: fqlast.Math("%", fqlast.Int(1), fqlast.Int(0))},
		{Ret: fqlast.Member(fqlast.Arr(fqlast.Int(1), fqlast.Int(2)), fqlast.Seg{Expr: fqlast.Int(-1)})},
		{Ret: fqlast.Arr(fqlast.Un("NOT", fqlast.Log("AND", fqlast.Int(1), fqlast.Int(2))), fqlast.Math("+", fqlast.Un("-", fqlast.Int(2)), fqlast.Int(3)))},
		// 30 rows with tied sort keys: SORT keeps tied rows in source order (stable)
		sortBig([]fqlast.SortKey{{E: bigField("a")}}),
		sortBig([]fqlast.SortKey{{E: bigField("b"), Desc: true, Dir: "DESC"}}),
		sortBig([]fqlast.SortKey{{E: bigField("a"), Dir: "ASC"}, {E: bigField("b"), Desc: true, Dir: "DESC"}}),
		sortBig([]fqlast.SortKey{{E: fqlast.Int(0)}}),
		// a key without a direction is ascending whatever the direction of the key before it
		sortBig([]fqlast.SortKey{{E: bigField("a"), Desc: true, Dir: "DESC"}, {E: bigField("b")}}),
		sortBig([]fqlast.SortKey{{E: bigField("b"), Desc: true, Dir: "DESC"}, {E: bigField("a")}, {E: bigField("k"), Desc: true, Dir: "DESC"}}),
		sortBig([]fqlast.SortKey{{E: bigField("a"), Dir: "ASC"}, {E: bigField("b"), Desc: true, Dir: "DESC"}, {E: bigField("k")}}),
		// LIMIT operands that are not numbers at run time are an error, not a coercion
		limitBy(fqlast.Param("s")), limitBy(fqlast.Param("arr")), limitBy(fqlast.Member(fqlast.Param("obj"), fqlast.Seg{Name: "nope"})), limitBy(fqlast.Param("n")), limitBy(fqlast.Param("f")),
		// integer literals are decimal whatever their spelling (leading zeros)
		{Ret: fqlast.Arr(&fqlast.E{K: "int", Int: 10, Str: "010"}, &fqlast.E{K: "int", Int: 7, Str: "007"},
			fqlast.Math("+", &fqlast.E{K: "int", Int: 10, Str: "0010"}, fqlast.Int(1)), &fqlast.E{K: "int", Int: 0, Str: "00"})},
	}
	n += len(corpus)
	for i := 0; i < n; i++ {
		if inFile == 0 {
			open(len(files))
		}
		g := fqlast.NewGen(rng, 1+rng.Intn(depth))
		p := g.Program()
		if i < len(corpus) {
			p = corpus[i]
		}
		for k, v := range g.Stats {
			m.Distribution[k] += v
		}
		q := p.FQL()
		ps := psets[rng.Intn(len(psets))]
		o := fqlrun.Run(c, q, ps.go_, -1, false)
		obs := ""
		switch o.Class {
		case "ok":
			v, err := fqlrun.JSONToCoq(o.JSON)
			if err != nil {
				obs = "OEscaped"
			} else {
				obs = "(OVal " + v + " " + fqlrun.TraceCoq(o.Trace) + ")"
			}
		case "error":
			obs = "(OErr " + fqlrun.TraceCoq(o.Trace) + ")"
		case "compile-error":
			obs = "OCompileErr"
		case "nil-nil":
			obs = "ONilNil"
		default:
			obs = "OEscaped"
		}
		m.Count("outcome:" + o.Class)
		sep := ";"
		if inFile == per-1 || i == n-1 {
			sep = ""
		}
		fmt.Fprintf(w, " (%s,\n  %s,\n  %s)%s\n", p.Coq(), ps.coq, obs, sep)
		idx = append(idx, map[string]interface{}{"file": files[len(files)-1], "i": inFile, "query": q, "params": ps.go_, "class": o.Class, "err": o.Err, "json": string(o.JSON)})
		m.Evaluations++
		if strings.ContainsAny(q, "+-*/%<>=!?.(") || strings.Contains(q, "FOR") {
			distinct[q+"|"+ps.coq] = struct{}{}
		}
		if i < 4 {
			m.Samples = append(m.Samples, map[string]interface{}{"query": q, "outcome": o.Class, "json": string(o.JSON)})
		}
		inFile++
		if inFile == per || i == n-1 {
			closeFile()
			inFile = 0
		}
	}
	m.DistinctNontrivial = len(distinct)
	m.Files = files
	m.Index["cases"] = idx
	m.Write(out)
}

// goToCoq renders plain Go data (ints, floats, strings, nil, bools, slices,
// string-keyed maps) as a model value.
func goToCoq(v interface{}) string {
	return CoqValue(valuesParse(v))
}
