package main

// C17: encoders / decoders / inverse operations round-trip.  Every pair of FQL
// functions is run through compiled one-line queries on an adversarial string
// pool plus seeded random strings, on JSON-domain values and on dates across
// the years 1..9999; the property's predicate is evaluated on the
// implementation's output (did the round trip return the original? is the
// second application equal to the first?) and written, with the cases, into
// cases<k>.v, where the Coq model predicts for each case whether the round
// trip must hold.  Intermediate results (encoded texts, DATE_ADD results,
// renderings) are sent as well and feed a drift diagnostic only.
//
// With -repo the command runs in fact mode (see facts.go).

import (
	"bufio"
	"context"
	"encoding/hex"
	"flag"
	"fmt"
	"math"
	"math/rand"
	"os"
	"path/filepath"
	"strings"
	"time"
	"unicode/utf8"

	. "verif/harness/common"

	"github.com/MontFerret/ferret/pkg/compiler"
	"github.com/MontFerret/ferret/pkg/runtime"
	"github.com/MontFerret/ferret/pkg/runtime/core"
	"github.com/MontFerret/ferret/pkg/runtime/values"
	"github.com/MontFerret/ferret/pkg/runtime/values/types"
)

func main() {
	for _, a := range os.Args[1:] {
		if a == "-repo" || a == "--repo" {
			fs := flag.NewFlagSet("c17-facts", flag.ExitOnError)
			out := fs.String("out", ".", "output directory (coq/theories/Generated)")
			_ = fs.String("repo", "/repo", "repository (unused: the facts come from the Go toolchain's unicode package)")
			_ = fs.Parse(os.Args[1:])
			writeFacts(*out)
			return
		}
	}
	out, tier, seed, _ := Args()
	runC17(out, tier, seed)
}

// ---------------------------------------------------------------- the runner

// taker lets a query hand run-time values to the harness without a JSON round
// trip (invalid UTF-8, exact instants): TAKE(x) records x and returns it.
type runner struct {
	c     *compiler.Compiler
	taken []core.Value
	vals  []core.Value
	progs map[string]*runtime.Program
}

func newRunner() *runner {
	r := &runner{c: compiler.New(), progs: map[string]*runtime.Program{}}
	Must(r.c.RegisterFunction("TAKE", func(_ context.Context, args ...core.Value) (core.Value, error) {
		r.taken = append(r.taken, args[0])
		return args[0], nil
	}))
	Must(r.c.RegisterFunction("V", func(_ context.Context, args ...core.Value) (core.Value, error) {
		return r.vals[int(args[0].(values.Int))], nil
	}))
	return r
}

// run executes the query; it returns the values handed to TAKE, the JSON
// output and whether the run completed without error or panic.
func (r *runner) run(q string, params map[string]interface{}) (taken []core.Value, out []byte, ok bool) {
	p, found := r.progs[q]
	if !found {
		var err error
		p, err = r.c.Compile(q)
		Must(err)
		r.progs[q] = p
	}
	r.taken = nil
	defer func() {
		if rec := recover(); rec != nil {
			taken, out, ok = r.taken, nil, false
		}
	}()
	opts := []runtime.Option{runtime.WithLog(Discard)}
	for k, v := range params {
		opts = append(opts, runtime.WithParam(k, v))
	}
	o, err := p.Run(context.Background(), opts...)
	return r.taken, o, err == nil
}

func str(v core.Value) (string, bool) {
	if v == nil || v.Type() != types.String {
		return "", false
	}
	return string(v.(values.String)), true
}

// roundTrip runs LET e = TAKE(ENC(@s)) LET d = TAKE(DEC(e)) and reports the
// encoded text and whether d == s.
func (r *runner) roundTrip(enc, dec, s string) (encoded string, haveEnc, ok bool) {
	tk, _, fin := r.run("LET e = TAKE("+enc+"(@s)) LET d = TAKE("+dec+"(e)) RETURN 1", map[string]interface{}{"s": s})
	if len(tk) >= 1 {
		encoded, haveEnc = str(tk[0])
	}
	if !fin || len(tk) != 2 {
		return encoded, haveEnc, false
	}
	d, isStr := str(tk[1])
	return encoded, haveEnc, isStr && d == s
}

// idem runs LET a = TAKE(F(@s)) LET b = TAKE(F(a)) and reports a and a == b.
func (r *runner) idem(call1, call2 string, params map[string]interface{}) (first string, have, ok bool) {
	tk, _, fin := r.run("LET a = TAKE("+call1+") LET b = TAKE("+call2+") RETURN 1", params)
	if len(tk) >= 1 {
		first, have = str(tk[0])
	}
	if !fin || len(tk) != 2 {
		return first, have, false
	}
	b, isStr := str(tk[1])
	return first, have, have && isStr && first == b
}

// ---------------------------------------------------------------- generators

var fragments = []string{
	"a", "b", "Z", "z", "0", "9", " ", "  ", "\t", "\n", "\r\n", "\x00", "\"", "\\", "'", "%", "%41", "%zz", "%2", "+", "&",
	"&amp;", "&lt", "&#39;", "&#x27;", "&aacute;", "<", ">", ";", "#", ",", ",,", "::", ":", "ab", "x", "xx", "/", "?", "=", "~", "-", "_", ".",
	"\\u0026", "\\n", "\\x41", "\\", "é", "É", "ß", "İ", "ı", "ǅ", "Σ", "ς", "ﬁ", "ῼ", "Ⅷ", "\u00a0", "\u2003", "\u3000", "\u0085", "\ufffd", "\u2028",
	"😀", "𝒜", "𐐨", "\U0010ffff", "\xff", "\xc3", "\xe2\x82", "\xed\xa0\x80", "\xf8", "\x80", "\xc0\xaf", "日本", "д", "Ω",
}

func basePool() []string {
	p := []string{"", "a", "abc", "hello world", "Hello, World!", "foobar", "fo", "foo", "f", " ", "  x  ", "\t x\n",
		"\"", "a\"b", "\\", "a\\b", "a\\tb", "\\u0026", "say \"hi\"", "line1\nline2", "%", "100%", "a%20b", "%41", "%zz", "a+b", "a b",
		"&", "a&b", "&amp;", "&amp;lt;", "&lt", "<script>alert('x')</script>", "<a href=\"x\">&</a>", "'", "&#39;", "&#34;", "&#x27;", "&aacute;",
		",", ",a,,b,", "a,b,c", "::a::b::", "abab", "ababab", "aaa", "xxayxx", "xax", "x",
		"é", "café", "CAFÉ", "Straße", "İstanbul", "ıi", "ǅ", "ΣΑΣ", "σας", "ﬁn", "ῼ", "Ⅷ", "日本語", "дом", "Ω",
		"\u00a0x\u00a0", "\u3000x\u3000", "\u2003", "\u0085x", "\ufffd", "x\ufffd", "a\u2028b",
		"😀", "a😀b", "𝒜𝒷", "𐐨𐐀", "\U0010ffff",
		"\xff", "a\xffb", "\xc3", "\xc3(", "\xe2\x82", "\xed\xa0\x80", "\xf8\x88\x80\x80", "\x80", "\xc0\xaf", "ok\xe2\x82",
		"\x00", "a\x00b", strings.Repeat("A", 100), strings.Repeat("ab,", 30), strings.Repeat("é", 40),
		"https://example.com/a b?x=1&y=\"2\"#frag", "key=value&other=a+b%20c", "{\"a\":[1,2,{\"b\":null}]}",
		"https://thedomain/alphabet=M&borough=Bronx&a=b",
	}
	return p
}

func randString(rng *rand.Rand) string {
	var sb strings.Builder
	n := rng.Intn(7)
	for i := 0; i < n; i++ {
		switch rng.Intn(10) {
		case 0:
			sb.WriteByte(byte(rng.Intn(256)))
		case 1:
			sb.WriteRune(rune(rng.Intn(0x3000)))
		case 2:
			sb.WriteByte(byte(32 + rng.Intn(95)))
		default:
			sb.WriteString(fragments[rng.Intn(len(fragments))])
		}
	}
	return sb.String()
}

var sepPool = []string{",", "", " ", "ab", "::", "é", "a", "\n", "%", "&", "\xff", ",,", "😀", "x"}

// cutsets: valid UTF-8, no U+FFFD (see Codec/Trim.v); nil = argument not given
var cutPool = []*string{nil, sp(" "), sp("x"), sp("ab"), sp(" \t\n"), sp("é"), sp("éa"), sp("\u00a0"), sp("😀x"), sp(","), sp(""), sp("\"\\")}

func sp(s string) *string { return &s }

var unitNames = [][]string{
	{"f", "millisecond", "milliseconds", "F"},
	{"s", "second", "seconds", "S"},
	{"i", "minute", "minutes", "Minute"},
	{"h", "hour", "hours", "HOURS"},
	{"d", "day", "days", "D"},
	{"w", "week", "weeks", "Week"},
}
var unitNs = []int64{1e6, 1e9, 6e10, 36e11, 864e11, 6048e11}

var zonePool = []int{0, 0, 0, 60, -120, 330, 345, -570, 840, -720, 1}

const (
	minSec = -62135596800 + 90000 // 0001-01-02T01:00:00Z
	maxSec = 253402300799 - 90000 // 9999-12-30T22:59:59Z
)

func specialInstants() [][2]int64 {
	var r [][2]int64
	for _, s := range []string{
		"0001-01-02T01:00:00Z", "0004-02-29T12:00:00Z", "0100-02-28T23:59:59Z", "0400-02-29T00:00:00Z",
		"1582-10-15T00:00:00Z", "1600-02-29T23:59:59Z", "1899-12-31T23:59:59Z", "1900-02-28T23:59:59Z", "1900-03-01T00:00:00Z",
		"1969-12-31T23:59:59Z", "1970-01-01T00:00:00Z", "1999-12-31T23:59:59Z", "2000-02-29T12:34:56Z", "2000-03-01T00:00:00Z",
		"2001-01-31T00:00:00Z", "2023-04-30T23:59:59Z", "2024-02-29T23:59:59Z", "2024-12-31T23:59:59Z", "2038-01-19T03:14:08Z",
		"2100-02-28T12:00:00Z", "2262-04-11T23:47:16Z", "2400-02-29T00:00:00Z", "9999-12-30T22:59:59Z", "5000-06-15T06:07:08Z",
	} {
		t, err := time.Parse(time.RFC3339, s)
		Must(err)
		r = append(r, [2]int64{t.Unix(), 0})
	}
	return r
}

var nsecPool = []int64{0, 0, 0, 1, 999999999, 500000000, 123456789, 1000, 100, 120000000, 999000000, 10}

func randInstant(rng *rand.Rand, sp [][2]int64) (int64, int64) {
	var sec int64
	switch rng.Intn(4) {
	case 0:
		sec = sp[rng.Intn(len(sp))][0]
	case 1: // recent
		sec = 946684800 + rng.Int63n(1577836800)
	default:
		sec = minSec + rng.Int63n(maxSec-minSec)
	}
	ns := nsecPool[rng.Intn(len(nsecPool))]
	if rng.Intn(3) == 0 {
		ns = rng.Int63n(1000000000)
	}
	return sec, ns
}

var amountPool = []int64{0, 1, -1, 2, 7, 59, 60, 61, 1000, -1000, 86400, 1000000, -1000000, 999999, 106751, 106752, -106752, 15250, 15251, 500000, -3, 365, 366, 146097, 52}

// the very ends of the years 1..9999
const (
	year1Sec    = -62135596800 // 0001-01-01T00:00:00Z
	year9999Sec = 253402300799 // 9999-12-31T23:59:59Z
)

type fixedDate struct {
	sec, ns, n int64
	unit       int
}

// fixedDates: the cases DATE_DIFF must get exactly right whatever the random
// draw is: amounts of +-10^6 (and one less) of every unit from the first and
// the last instant of the years 1..9999 and from the epoch; day and week
// amounts around and far beyond the 292.47 years a time.Duration can hold
// (106751 days, 15250 weeks), up to spans of almost the whole range; and
// millisecond amounts whose sub-second parts need a borrow from the seconds
// (the later instant has the smaller nanosecond field).
func fixedDates() []fixedDate {
	var r []fixedDate
	ends := [][2]int64{{year1Sec, 999999999}, {year9999Sec, 1}, {0, 0}}
	for u := 0; u < 6; u++ {
		for _, n := range []int64{1000000, -1000000, 999999, -999999} {
			for _, e := range ends {
				r = append(r, fixedDate{e[0], e[1], n, u})
			}
		}
	}
	for _, n := range []int64{106751, 106752, -106751, -106752, 213504, 500000, -500000, 730119, 146097 * 6} {
		r = append(r, fixedDate{year1Sec, 0, n, 4}, fixedDate{year9999Sec, 999999999, -n, 4}, fixedDate{951825600, 123456789, n, 4})
	}
	for _, n := range []int64{15250, 15251, -15250, -15251, 30502, 104303, 500000, -500000, 521722, -521722} {
		r = append(r, fixedDate{year1Sec, 0, n, 5}, fixedDate{year9999Sec, 999999999, -n, 5}, fixedDate{951825600, 123456789, n, 5})
	}
	// later.Nanosecond() < earlier.Nanosecond(): borrow across the second
	for _, c := range [][2]int64{{999999999, 1}, {999000000, 1}, {0, -1}, {1, -1}, {500000000, 500}, {500000000, -501}, {123456789, 999},
		{123456789, -124}, {999999999, 1000000}, {0, -1000000}, {10, -999999}, {999000000, 999999}, {999999, -1}, {1000000, -2}, {999000001, 1999}} {
		r = append(r, fixedDate{year1Sec, c[0], c[1], 0}, fixedDate{year9999Sec, c[0], c[1], 0}, fixedDate{1709251199, c[0], c[1], 0})
	}
	return r
}

func mkTime(sec, ns int64, offMin int) time.Time {
	t := time.Unix(sec, ns).UTC()
	if offMin != 0 {
		t = t.In(time.FixedZone("", offMin*60))
	}
	return t
}

// JSON-domain values: none, booleans, integers within +-2^53, finite floats,
// valid-UTF-8 strings, arrays and objects of those.
func jsonScalar(rng *rand.Rand, pool []string) core.Value {
	switch rng.Intn(9) {
	case 0:
		return values.None
	case 1:
		return values.NewBoolean(rng.Intn(2) == 0)
	case 2:
		return values.NewInt(int(rng.Int63n(2001) - 1000))
	case 3:
		return values.NewInt([]int{0, 1, -1, 1 << 53, -(1 << 53), 1<<53 - 1, 1 << 31, 1000000}[rng.Intn(8)])
	case 4:
		return values.NewFloat(float64(rng.Int63n(4001)-2000) / 8)
	case 5:
		return values.NewFloat([]float64{0, math.Copysign(0, -1), 0.1, 1e21, 1e-7, 1e300, -1e300, 5e-324, math.MaxFloat64, 1.5, 123456789.125, 1e6}[rng.Intn(12)])
	default:
		for {
			s := pool[rng.Intn(len(pool))]
			if utf8.ValidString(s) {
				return values.NewString(s)
			}
		}
	}
}

func jsonValue(rng *rand.Rand, depth int, pool []string) core.Value {
	if depth == 0 || rng.Intn(3) == 0 {
		return jsonScalar(rng, pool)
	}
	n := rng.Intn(4)
	if rng.Intn(2) == 0 {
		xs := make([]core.Value, n)
		for i := range xs {
			xs[i] = jsonValue(rng, depth-1, pool)
		}
		return values.NewArrayWith(xs...)
	}
	o := values.NewObject()
	for i := 0; i < n; i++ {
		var k string
		for {
			k = pool[rng.Intn(len(pool))]
			if utf8.ValidString(k) && len(k) < 40 {
				break
			}
		}
		o.Set(values.NewString(k), jsonValue(rng, depth-1, pool))
	}
	return o
}

// ---------------------------------------------------------------- Coq output

func hxs(s string) string { return `(hx "` + hex.EncodeToString([]byte(s)) + `")` }

func bitsChar(bs ...bool) byte {
	n := 0
	for i, b := range bs {
		if b {
			n |= 1 << uint(i)
		}
	}
	return byte(48 + n)
}

type strObs struct {
	s                      string
	single                 byte
	enc                    [5]string // base64, uri, html, upper, lower
	haveEnc                bool
	splitRow, trimRow      string
	changed                bool // some encoder / case / trim changed the text, or a split had >= 2 pieces
}

type dateCase struct {
	sec, ns int64
	off     int
	n       int64
	unit    int
	uname   string
	obs     byte
	addSec  int64
	addNs   int64
	haveAdd bool
	diff    string
}

type rfcCase struct {
	sec, ns int64
	off     int
	obs     byte
	text    string
	text2   string
}

func runC17(out, tier string, seed int64) {
	rng := rand.New(rand.NewSource(seed))
	nRandom, nDates, nRfc, nJSON, chunk, splitN, driftN := 330, 320, 320, 240, 230, 1 << 30, 1 << 30
	if tier == "thorough" {
		nRandom, nDates, nRfc, nJSON, chunk = 5000, 6000, 6000, 4000, 400
	}
	_ = splitN
	_ = driftN
	m := NewMeta("C17", tier, seed)
	m.Rule = "cases = adversarial string pool + seeded random strings (fragments: quotes, backslashes, %, &, entities, separators, non-ASCII letters with case, Unicode spaces, astral runes, invalid UTF-8) x {base64, URI, HTML, UPPER, LOWER, SPLIT/CONCAT_SEPARATOR x separators, TRIM/LTRIM/RTRIM x cutsets}; JSON-domain values; dates in years 1..9999 (leap days, month ends, sub-second parts, zones, the first and the last instant) x amounts in [-10^6,10^6] x units ms,s,min,h,d,w, with a fixed block of +-10^6 of every unit, day/week amounts around and far beyond 292.47 years and millisecond amounts that borrow across a second; RFC 3339 renderings. One evaluation = one round trip / double application through a compiled query. Non-trivial = the first function changed its input (encoders, case, trim), the split produced >= 2 pieces, the amount is non-zero, the JSON value is not a scalar, the instant has a sub-second part or a zone; distinct = distinct (pair, input) texts"
	r := newRunner()
	distinct := map[string]struct{}{}
	count := func(nontrivial bool, key string) {
		m.Evaluations++
		if nontrivial {
			distinct[key] = struct{}{}
		}
	}

	// ---- strings
	pool := basePool()
	seen := map[string]bool{}
	for _, s := range pool {
		seen[s] = true
	}
	for len(pool) < len(basePool())+nRandom {
		s := randString(rng)
		if !seen[s] {
			seen[s] = true
			pool = append(pool, s)
		}
	}
	obs := make([]strObs, len(pool))
	for i, s := range pool {
		o := &obs[i]
		o.s = s
		switch {
		case s == "":
			m.Count("string:empty")
		case !utf8.ValidString(s):
			m.Count("string:invalid-utf8")
		case isASCII(s):
			m.Count("string:ascii")
		default:
			m.Count("string:unicode")
		}
		e1, h1, k1 := r.roundTrip("TO_BASE64", "FROM_BASE64", s)
		e2, h2, k2 := r.roundTrip("ENCODE_URI_COMPONENT", "DECODE_URI_COMPONENT", s)
		e3, h3, k3 := r.roundTrip("ESCAPE_HTML", "UNESCAPE_HTML", s)
		e4, h4, k4 := r.idem("UPPER(@s)", "UPPER(a)", map[string]interface{}{"s": s})
		e5, h5, k5 := r.idem("LOWER(@s)", "LOWER(a)", map[string]interface{}{"s": s})
		o.single = bitsChar(k1, k2, k3, k4, k5)
		o.enc = [5]string{e1, e2, e3, e4, e5}
		o.haveEnc = h1 && h2 && h3 && h4 && h5
		for pi, pr := range []struct {
			name string
			ok   bool
			e    string
		}{{"base64", k1, e1}, {"uri", k2, e2}, {"html", k3, e3}, {"upper", k4, e4}, {"lower", k5, e5}} {
			count(pr.e != s, fmt.Sprintf("%d|%x", pi, s))
			m.Count("pair:" + pr.name)
			if !pr.ok {
				m.Count("impl-predicate-false:" + pr.name)
			}
		}
		// SPLIT / CONCAT_SEPARATOR
		row := make([]byte, len(sepPool))
		for j, sep := range sepPool {
			tk, _, fin := r.run("LET p = TAKE(SPLIT(@s, @sep)) LET j = TAKE(CONCAT_SEPARATOR(@sep, p)) RETURN 1",
				map[string]interface{}{"s": s, "sep": sep})
			ok := false
			pieces := 0
			if len(tk) >= 1 && tk[0].Type() == types.Array {
				pieces = int(tk[0].(*values.Array).Length())
			}
			if fin && len(tk) == 2 {
				j, isStr := str(tk[1])
				ok = isStr && j == s
			}
			row[j] = '0'
			if ok {
				row[j] = '1'
			} else {
				m.Count("impl-predicate-false:split-join")
			}
			count(pieces >= 2, fmt.Sprintf("split|%x|%x", s, sep))
			m.Count("pair:split-join")
		}
		o.splitRow = string(row)
		// TRIM / LTRIM / RTRIM
		trow := make([]byte, len(cutPool))
		for j, c := range cutPool {
			var ks [3]bool
			for fn, name := range []string{"TRIM", "LTRIM", "RTRIM"} {
				var first string
				var have bool
				if c == nil {
					first, have, ks[fn] = r.idem(name+"(@s)", name+"(a)", map[string]interface{}{"s": s})
				} else {
					first, have, ks[fn] = r.idem(name+"(@s, @c)", name+"(a, @c)", map[string]interface{}{"s": s, "c": *c})
				}
				cs := "<default>"
				if c != nil {
					cs = *c
				}
				count(have && first != s, fmt.Sprintf("trim%d|%x|%x", fn, s, cs))
				m.Count("pair:" + strings.ToLower(name))
				if !ks[fn] {
					m.Count("impl-predicate-false:" + strings.ToLower(name))
				}
			}
			trow[j] = bitsChar(ks[0], ks[1], ks[2])
		}
		o.trimRow = string(trow)
	}

	// ---- JSON stringify / parse
	jsonVals := make([]core.Value, nJSON)
	jsonText := make([]string, nJSON)
	jsonObs := make([]byte, nJSON)
	for i := range jsonVals {
		jsonVals[i] = jsonValue(rng, 3, pool)
	}
	r.vals = jsonVals
	for i, v := range jsonVals {
		tk, _, fin := r.run("LET t = TAKE(JSON_STRINGIFY(V(@i))) LET p = TAKE(JSON_PARSE(t)) RETURN 1", map[string]interface{}{"i": i})
		ok := false
		if len(tk) >= 1 {
			jsonText[i], _ = str(tk[0])
		}
		if fin && len(tk) == 2 {
			ok = safeCompare(tk[1], v) == 0 && safeCompare(v, tk[1]) == 0
		}
		jsonObs[i] = '0'
		if ok {
			jsonObs[i] = '1'
		} else {
			m.Count("impl-predicate-false:json")
		}
		count(v.Type() == types.Array || v.Type() == types.Object, "json|"+jsonText[i])
		m.Count("pair:json")
		m.Count("json:" + v.Type().String())
	}

	// ---- dates
	spi := specialInstants()
	fixed := fixedDates()
	nDates += len(fixed)
	dates := make([]dateCase, 0, nDates)
	for i0 := 0; i0 < nDates; i0++ {
		var d dateCase
		i := i0 - len(fixed)
		if i < 0 {
			d.sec, d.ns = fixed[i0].sec, fixed[i0].ns
		} else if i < len(spi)*2 {
			d.sec, d.ns = spi[i%len(spi)][0], nsecPool[rng.Intn(len(nsecPool))]
		} else {
			d.sec, d.ns = randInstant(rng, spi)
		}
		d.off = zonePool[rng.Intn(len(zonePool))]
		if i < 0 {
			d.n, d.unit = fixed[i0].n, fixed[i0].unit
		} else if i < len(amountPool)*6 {
			d.n, d.unit = amountPool[i%len(amountPool)], (i/len(amountPool))%6
		} else {
			d.unit = rng.Intn(6)
			if rng.Intn(4) == 0 {
				d.n = amountPool[rng.Intn(len(amountPool))]
			} else if rng.Intn(3) == 0 {
				d.n = rng.Int63n(2001) - 1000
			} else {
				d.n = rng.Int63n(2000001) - 1000000
			}
		}
		d.uname = unitNames[d.unit][rng.Intn(len(unitNames[d.unit]))]
		t := mkTime(d.sec, d.ns, d.off)
		tk, _, fin := r.run("LET a = TAKE(DATE_ADD(@d, @n, @u)) LET b = TAKE(DATE_SUBTRACT(a, @n, @u)) LET x = TAKE(DATE_DIFF(@d, a, @u)) RETURN 1",
			map[string]interface{}{"d": t, "n": d.n, "u": d.uname})
		okAS, okDiff, okAbs := false, false, false
		if len(tk) >= 1 && tk[0].Type() == types.DateTime {
			a := tk[0].(values.DateTime).Time
			d.addSec, d.addNs, d.haveAdd = a.Unix(), int64(a.Nanosecond()), true
			if d.n != 0 && d.addNs != d.ns && (d.n > 0) == (d.addNs < d.ns) {
				m.Count("date-diff:borrow-across-second")
			}
		}
		if fin && len(tk) == 3 {
			if tk[1].Type() == types.DateTime {
				okAS = tk[1].(values.DateTime).Time.Equal(t)
			}
			d.diff = tk[2].String()
			if tk[2].Type() == types.Int {
				okDiff = int64(tk[2].(values.Int)) == d.n
				okAbs = int64(tk[2].(values.Int)) == d.n || int64(tk[2].(values.Int)) == -d.n
			}
		}
		d.obs = bitsChar(okAS, okDiff, okAbs)
		dates = append(dates, d)
		key := fmt.Sprintf("%d.%d|%d|%d", d.sec, d.ns, d.n, d.unit)
		count(d.n != 0, "addsub|"+key)
		count(d.n != 0, "diff|"+key)
		m.Count("pair:date-add-subtract")
		m.Count("pair:date-diff")
		m.Count("unit:" + unitNames[d.unit][0])
		if !okAS {
			m.Count("impl-predicate-false:date-add-subtract")
		}
		if !okDiff {
			m.Count("impl-predicate-false:date-diff")
		}
		beyond := math.Abs(float64(d.n))*float64(unitNs[d.unit]) > 9.223372036854775807e18
		switch {
		case d.n < 0 && beyond:
			m.Count("amount:negative-beyond-292y")
		case d.n < 0:
			m.Count("amount:negative")
		case d.n == 0:
			m.Count("amount:zero")
		case beyond:
			m.Count("amount:positive-beyond-292y")
		default:
			m.Count("amount:positive")
		}
		if d.n >= 100000 || d.n <= -100000 {
			m.Count("amount:|n|>=10^5:" + unitNames[d.unit][0])
		}
		if y := time.Unix(d.sec, 0).UTC().Year(); y <= 1 || y >= 9999 {
			m.Count("instant:year-1-or-9999")
		}
		if d.haveAdd {
			if y := time.Unix(d.addSec, 0).UTC().Year(); y >= 1 && y <= 9999 && beyond {
				m.Count("date-diff:both-instants-in-1..9999-beyond-292y")
			}
		}
	}

	// ---- RFC 3339
	rfcs := make([]rfcCase, 0, nRfc)
	for i := 0; i < nRfc; i++ {
		var c rfcCase
		if i < len(spi)*2 {
			c.sec, c.ns = spi[i%len(spi)][0], nsecPool[(i/len(spi)+i)%len(nsecPool)]
		} else {
			c.sec, c.ns = randInstant(rng, spi)
		}
		c.off = zonePool[rng.Intn(len(zonePool))]
		if i < 2 { // the first instant of year 1 exactly (the zero time.Time), in two zones
			c.sec, c.ns = year1Sec, 0
		}
		t := mkTime(c.sec, c.ns, c.off)
		ok0, ok1 := false, false
		_, o, fin := r.run("RETURN @d", map[string]interface{}{"d": t})
		if fin {
			c.text = strings.Trim(strings.TrimSpace(string(o)), "\"")
			tk, _, fin2 := r.run("LET x = TAKE(DATE(@t)) RETURN 1", map[string]interface{}{"t": c.text})
			if fin2 && len(tk) == 1 && tk[0].Type() == types.DateTime {
				ok0 = tk[0].(values.DateTime).Time.Equal(t)
			}
		}
		tk, _, fin := r.run("LET f = TAKE(DATE_FORMAT(@d, '2006-01-02T15:04:05.999999999Z07:00')) LET x = TAKE(DATE(f)) RETURN 1",
			map[string]interface{}{"d": t})
		if len(tk) >= 1 {
			c.text2, _ = str(tk[0])
		}
		if fin && len(tk) == 2 && tk[1].Type() == types.DateTime {
			ok1 = tk[1].(values.DateTime).Time.Equal(t)
		}
		c.obs = bitsChar(ok0, ok1)
		rfcs = append(rfcs, c)
		key := fmt.Sprintf("%d.%d|%d", c.sec, c.ns, c.off)
		count(c.ns != 0 || c.off != 0, "rfc-json|"+key)
		count(c.ns != 0 || c.off != 0, "rfc-format|"+key)
		m.Count("pair:rfc3339")
		if c.ns != 0 {
			m.Count("rfc3339:sub-second")
		}
		if c.off != 0 {
			m.Count("rfc3339:zone")
		}
		if !ok0 || !ok1 {
			m.Count("impl-predicate-false:rfc3339")
		}
	}

	// ---- write the case files
	nChunks := (len(obs) + chunk - 1) / chunk
	files := []string{}
	index := map[string]interface{}{}
	part := func(n, k int) (int, int) { // the k-th of nChunks slices of [0,n)
		return n * k / nChunks, n * (k + 1) / nChunks
	}
	for k := 0; k < nChunks; k++ {
		name := fmt.Sprintf("cases%d.v", k)
		f, err := os.Create(filepath.Join(out, name))
		Must(err)
		w := bufio.NewWriterSize(f, 1<<20)
		fmt.Fprintln(w, "From Ferret Require Import Check.C17.")
		fmt.Fprintln(w, "Open Scope Z_scope.")
		s0, s1 := part(len(obs), k)
		sl := obs[s0:s1]
		var sIdx []string
		fmt.Fprintln(w, "Definition S : list bytes := [")
		for i, o := range sl {
			fmt.Fprintf(w, " %s%s\n", hxs(o.s), semi(i, len(sl)))
			sIdx = append(sIdx, hex.EncodeToString([]byte(o.s)))
		}
		fmt.Fprintln(w, "].")
		var sb strings.Builder
		for _, o := range sl {
			sb.WriteByte(o.single)
		}
		fmt.Fprintf(w, "Definition OS : string := \"%s\"%%string.\n", CoqEscape(sb.String()))
		fmt.Fprintf(w, "Definition SEPS : list bytes := [%s].\n", joinMap(sepPool, hxs))
		fmt.Fprintln(w, "Definition OSP : list string := [")
		for i, o := range sl {
			fmt.Fprintf(w, " \"%s\"%s\n", o.splitRow, semi(i, len(sl)))
		}
		w.WriteString("]%string.\n")
		cuts := make([]string, len(cutPool))
		for i, c := range cutPool {
			if c == nil {
				cuts[i] = "None"
			} else {
				cuts[i] = "Some " + hxs(*c)
			}
		}
		fmt.Fprintf(w, "Definition CUTS : list (option bytes) := [%s].\n", strings.Join(cuts, "; "))
		fmt.Fprintln(w, "Definition OTR : list string := [")
		for i, o := range sl {
			fmt.Fprintf(w, " \"%s\"%s\n", CoqEscape(o.trimRow), semi(i, len(sl)))
		}
		w.WriteString("]%string.\n")
		j0, j1 := part(nJSON, k)
		fmt.Fprintf(w, "Definition OJ : string := \"%s\"%%string.\n", string(jsonObs[j0:j1]))
		d0, d1 := part(len(dates), k)
		var dIdx []interface{}
		fmt.Fprintln(w, "Definition D : list (Z * Z * Z * N) := [")
		sb.Reset()
		for i, d := range dates[d0:d1] {
			fmt.Fprintf(w, " (%d, %d, %d, %d%%N)%s\n", d.sec, d.ns, d.n, d.unit, semi(i, d1-d0))
			sb.WriteByte(d.obs)
			dIdx = append(dIdx, map[string]interface{}{"date": mkTime(d.sec, d.ns, d.off).Format(time.RFC3339Nano), "sec": d.sec, "nsec": d.ns,
				"amount": d.n, "unit": d.uname, "unit_code": d.unit, "diff": d.diff})
		}
		fmt.Fprintln(w, "].")
		fmt.Fprintf(w, "Definition OD : string := \"%s\"%%string.\n", sb.String())
		r0, r1 := part(len(rfcs), k)
		var rIdx []interface{}
		fmt.Fprintln(w, "Definition R : list (Z * Z * Z) := [")
		sb.Reset()
		for i, c := range rfcs[r0:r1] {
			fmt.Fprintf(w, " (%d, %d, %d)%s\n", c.sec, c.ns, c.off, semi(i, r1-r0))
			sb.WriteByte(c.obs)
			rIdx = append(rIdx, map[string]interface{}{"sec": c.sec, "nsec": c.ns, "zone_minutes": c.off, "json_rendering": c.text, "date_format_rendering": c.text2})
		}
		fmt.Fprintln(w, "].")
		fmt.Fprintf(w, "Definition OR : string := \"%s\"%%string.\n", sb.String())
		fmt.Fprintln(w, "Definition M := Eval vm_compute in mismatches S OS SEPS OSP CUTS OTR OJ D OD R OR.")
		fmt.Fprintln(w, "Print M.")
		// drift diagnostic (not part of the verdict)
		fmt.Fprintln(w, "Definition E : list (bytes * bytes * bytes * bytes * bytes) := [")
		nE := 0
		for _, o := range sl {
			if !o.haveEnc {
				break
			}
			nE++
		}
		for i, o := range sl[:nE] {
			fmt.Fprintf(w, " (%s, %s, %s, %s, %s)%s\n", hxs(o.enc[0]), hxs(o.enc[1]), hxs(o.enc[2]), hxs(o.enc[3]), hxs(o.enc[4]), semi(i, nE))
		}
		fmt.Fprintln(w, "].")
		fmt.Fprintln(w, "Definition A : list (Z * Z) := [")
		nA := 0
		for _, d := range dates[d0:d1] {
			if !d.haveAdd {
				break
			}
			nA++
		}
		for i, d := range dates[d0 : d0+nA] {
			fmt.Fprintf(w, " (%d, %d)%s\n", d.addSec, d.addNs, semi(i, nA))
		}
		fmt.Fprintln(w, "].")
		fmt.Fprintln(w, "Definition P : list bytes := [")
		for i, c := range rfcs[r0:r1] {
			fmt.Fprintf(w, " %s%s\n", hxs(c.text), semi(i, r1-r0))
		}
		fmt.Fprintln(w, "].")
		fmt.Fprintln(w, "Definition DRIFT := Eval vm_compute in drift S E D A R P.")
		fmt.Fprintln(w, "Print DRIFT.")
		Must(w.Flush())
		Must(f.Close())
		files = append(files, name)
		cutIdx := make([]interface{}, len(cutPool))
		for i, c := range cutPool {
			if c != nil {
				cutIdx[i] = hex.EncodeToString([]byte(*c))
			}
		}
		index[name] = map[string]interface{}{"S": sIdx, "seps": mapHex(sepPool), "cuts": cutIdx, "json": jsonText[j0:j1], "D": dIdx, "R": rIdx}
	}
	m.Files = files
	m.Index = index
	m.DistinctNontrivial = len(distinct)
	for _, i := range []int{5, 16, 30, len(pool) - 1} {
		o := obs[i]
		m.Samples = append(m.Samples, map[string]interface{}{"string_hex": hex.EncodeToString([]byte(o.s)), "string": fmt.Sprintf("%q", o.s),
			"to_base64": o.enc[0], "encode_uri_component": o.enc[1], "escape_html": o.enc[2], "upper": fmt.Sprintf("%q", o.enc[3]),
			"predicates(base64,uri,html,upper,lower)": fmt.Sprintf("%05b", o.single-48), "split_row": o.splitRow})
	}
	for _, i := range []int{0, 72, len(dates) / 2} {
		d := dates[i]
		m.Samples = append(m.Samples, map[string]interface{}{"date": mkTime(d.sec, d.ns, d.off).Format(time.RFC3339Nano), "amount": d.n, "unit": d.uname,
			"date_add": time.Unix(d.addSec, d.addNs).UTC().Format(time.RFC3339Nano), "date_diff": d.diff, "predicates(addsub,diff,|diff|)": fmt.Sprintf("%03b", d.obs-48)})
	}
	m.Samples = append(m.Samples, map[string]interface{}{"rfc3339_json_rendering": rfcs[len(rfcs)/2].text, "rfc3339_date_format": rfcs[len(rfcs)/2].text2,
		"json_stringify": jsonText[len(jsonText)/2]})
	m.Write(out)
}

func semi(i, n int) string {
	if i == n-1 {
		return ""
	}
	return ";"
}

func joinMap(xs []string, f func(string) string) string {
	ps := make([]string, len(xs))
	for i, x := range xs {
		ps[i] = f(x)
	}
	return strings.Join(ps, "; ")
}

func mapHex(xs []string) []string {
	ps := make([]string, len(xs))
	for i, x := range xs {
		ps[i] = hex.EncodeToString([]byte(x))
	}
	return ps
}

func isASCII(s string) bool {
	for i := 0; i < len(s); i++ {
		if s[i] >= 0x80 {
			return false
		}
	}
	return true
}

func safeCompare(a, b core.Value) (c int64) {
	defer func() {
		if r := recover(); r != nil {
			c = 99
		}
	}()
	return a.Compare(b)
}
