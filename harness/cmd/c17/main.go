package main

import (
	"flag"
	"os"
)

func main() {
	for _, a := range os.Args[1:] {
		if a == "-repo" || a == "--repo" {
			fs := flag.NewFlagSet("c17-facts", flag.ExitOnError)
			out := fs.String("out", ".", "output directory (coq/theories/Generated)")
			_ = fs.String("repo", "/repo", "repository (unused: the facts come from the Go toolchain's unicode package)")
			_ = fs.Parse(os.Args[1:])
			writeFacts(*out)
			return
		}
	}
}
