package main

// C06: surface syntax never changes the meaning of a query.
//
// Every case is a program with its canonical text (keywords upper-case, one
// space between tokens, no redundant parentheses, first admissible quote
// style) and k alternative renderings of the same program:
//   - per-token upper / lower / mixed letter case for keywords, function
//     names and namespace segments (now and then U+0131 / U+017F, whose upper
//     case is an ASCII letter),
//   - spaces, tabs, VT, FF, U+00A0, line terminators incl. U+2028/U+2029,
//     line and block comments (or nothing where the tokens stay apart) at
//     every token boundary,
//   - redundant parentheses around sub-expressions,
//   - string literals in every quote style that admits their content.
// Observation: Run outcome (bytes or failure class) of the canonical text vs
// each rendering.  The model (coq/theories/Lexer.v, Parser.v) lexes and
// parses all texts and says whether they are the same program; for generated
// programs it also checks that it reads the canonical text as the generator's
// tree, and for the echo families (string contents, names) the harness checks
// the implementation's result against the value the program denotes.

import (
	"bufio"
	"bytes"
	"encoding/hex"
	"encoding/json"
	"fmt"
	"math/rand"
	"os"
	"path/filepath"
	"reflect"
	"sort"
	"strings"
	"unicode"

	"github.com/MontFerret/ferret/pkg/compiler"

	"verif/harness/cmd/c05/surface"
	. "verif/harness/common"
	"verif/harness/fqlast"
	"verif/harness/fqlrun"
)

func hexs(s string) string { return `(hx "` + hex.EncodeToString([]byte(s)) + `")` }

type alt struct {
	Text string
	How  string
	Same bool
	Out  string
}

type kase struct {
	Canon  string
	AST    string // Coq term or ""
	Expect int    // 0 none, 1 as expected, 2 differs
	Alts   []alt
	Fam    string
	Out    string
	Want   string
}

func outcomeKey(o fqlrun.Outcome) string {
	switch o.Class {
	case "ok":
		return "ok:" + string(o.JSON)
	case "error":
		return "error:" + o.ErrKind
	}
	return o.Class
}

var params = map[string]interface{}{"n": 2, "arr": []interface{}{3, 1, 2, 1}, "s": "k", "f": 1.5,
	"obj": map[string]interface{}{"a": 1, "b": "x", "list": []interface{}{1, 2}, "k": map[string]interface{}{"a": 5}}}

func init() {
	big := make([]interface{}, 30)
	for i := range big {
		big[i] = map[string]interface{}{"a": (i * 7) % 3, "b": i % 2, "k": i}
	}
	params["big"] = big
}

func main() {
	out, tier, seed, _ := Args()
	surface.SilenceConsole()
	rng := rand.New(rand.NewSource(seed))
	nProg, depth, k, per := 420, 3, 3, 30
	if tier == "thorough" {
		nProg, depth, k, per = 4000, 5, 4, 60
	}
	m := NewMeta("C06", tier, seed)
	m.Rule = "generated programs (fqlast generator, string literals and quoted property names replaced by a pool of multi-byte / combining / keyword-look-alike / quote-bearing contents) x k random renderings (letter case of keywords, function and namespace names; layout and comments at every token boundary; redundant parentheses; quote styles), plus echo families for string contents (all four quote styles, backslash sequences) and for the spelling of variable / parameter / property names; a case is non-trivial when the rendering differs from the canonical text; distinct = distinct (canonical, rendering) pairs"
	c := compiler.New()
	fqlrun.Register(c)
	run := func(text string, extra map[string]interface{}) fqlrun.Outcome {
		ps := params
		if extra != nil {
			ps = map[string]interface{}{}
			for k, v := range params {
				ps[k] = v
			}
			for k, v := range extra {
				ps[k] = v
			}
		}
		return fqlrun.Run(c, text, ps, -1, false)
	}
	distinct := map[string]struct{}{}
	var cases []kase

	addAlt := func(ks *kase, canonOut fqlrun.Outcome, text, how string, extra map[string]interface{}) {
		o := run(text, extra)
		same := outcomeKey(o) == outcomeKey(canonOut)
		ks.Alts = append(ks.Alts, alt{Text: text, How: how, Same: same, Out: clip(outcomeKey(o), 200)})
		m.Evaluations++
		if text != ks.Canon {
			distinct[ks.Canon+"\x00"+text] = struct{}{}
		}
		m.Count("rendering:" + how)
		if !same {
			m.Count("rendering-outcome-differs")
		}
	}

	// ------------------------------------------------ generated programs
	for i := 0; i < nProg; i++ {
		g := fqlast.NewGen(rng, 1+rng.Intn(depth))
		p := g.Program()
		if rng.Intn(2) == 0 {
			m.Distribution["injected ')' '?' shapes"] += surface.InjectQ(p, rng, 1+rng.Intn(3))
		}
		surface.Sanitize(p)
		if rng.Intn(2) == 0 {
			surface.ReplaceStrings(p, rng)
		}
		for kk, v := range g.Stats {
			m.Distribution[kk] += v
		}
		canon := surface.Canon.Program(p)
		ctoks := surface.Lex(canon)
		co := run(canon, nil)
		m.Evaluations++
		m.Count("canonical:" + co.Class)
		ks := kase{Canon: canon, AST: p.Coq(), Fam: "generated", Out: clip(outcomeKey(co), 200)}
		for j := 0; j < k; j++ {
			switch rng.Intn(4) {
			case 0: // case and layout only
				addAlt(&ks, co, surface.Rerender(rng, ctoks, true), "case+layout", nil)
			case 1: // layout only
				addAlt(&ks, co, surface.Rerender(rng, ctoks, false), "layout", nil)
			default: // redundant parentheses and quote styles, then case and layout
				var text string
				for try := 0; try < 8; try++ {
					pr := 2 + rng.Intn(6)
					st := &fqlast.Style{
						ExtraParens: func() bool { return rng.Intn(pr) == 0 },
						Kw:          func(s string) string { return s },
						Sep:         func() string { return " " },
						Quote:       surface.RandQuote(rng),
					}
					t := st.Program(p)
					toks := surface.Lex(t)
					if surface.ParenAfterClauseKeyword(toks) && !surface.ParenAfterClauseKeyword(ctoks) && rng.Intn(8) != 0 {
						continue // keep the recorded finding rare
					}
					text = surface.Rerender(rng, toks, rng.Intn(3) != 0)
					break
				}
				if text == "" {
					text = surface.Rerender(rng, ctoks, true)
				}
				addAlt(&ks, co, text, "parens+quotes+case+layout", nil)
			}
		}
		cases = append(cases, ks)
	}

	// ------------------------------------------------ every registered function name in other letter cases
	// (function and namespace names are case-insensitive: the call resolves to the same function)
	fnNames := c.RegisteredFunctions()
	sort.Strings(fnNames)
	spell := func(n string, how int) string {
		r := []rune(n)
		for i := range r {
			switch how {
			case 0:
				r[i] = unicode.ToLower(r[i])
			case 1:
				if i%2 == 0 {
					r[i] = unicode.ToLower(r[i])
				} else {
					r[i] = unicode.ToUpper(r[i])
				}
			default:
				if i == 0 {
					r[i] = unicode.ToUpper(r[i])
				} else {
					r[i] = unicode.ToLower(r[i])
				}
			}
		}
		return string(r)
	}
	for _, fn := range fnNames {
		up := strings.ToUpper(fn)
		if strings.HasPrefix(up, "IO::") || up == "DOCUMENT" || up == "DOWNLOAD" || up == "PDF" || up == "SCREENSHOT" || strings.HasPrefix(up, "WAIT") || up == "PRINT" || up == "PAGINATION" || up == "NOW" || strings.HasPrefix(up, "RAND") {
			continue
		}
		p := &fqlast.Program{Ret: fqlast.Call(up)}
		canon := "RETURN " + up + "()"
		co := run(canon, nil)
		m.Evaluations++
		ks := kase{Canon: canon, AST: p.Coq(), Fam: "function-name-case", Out: clip(outcomeKey(co), 200)}
		for how := 0; how < 3; how++ {
			addAlt(&ks, co, "RETURN "+spell(fn, how)+"()", "function-name-case", nil)
		}
		cases = append(cases, ks)
	}

	// ------------------------------------------------ echo: string contents
	checkExpect := func(ks *kase, o fqlrun.Outcome, want interface{}) {
		ks.Expect = 2
		wb, _ := json.Marshal(want)
		ks.Want = string(wb)
		if o.Class == "ok" {
			var got interface{}
			if err := json.Unmarshal(o.JSON, &got); err == nil && reflect.DeepEqual(got, norm(want)) {
				ks.Expect = 1
			}
		}
		if ks.Expect == 2 {
			m.Count("echo-differs")
		}
	}
	for _, s := range surface.StringPool {
		var styles []int
		for q := 0; q < 4; q++ {
			if surface.Admissible(s, q) {
				styles = append(styles, q)
			}
		}
		if len(styles) == 0 {
			continue
		}
		canon := "RETURN " + surface.Quote(s, styles[0])
		co := run(canon, nil)
		m.Evaluations++
		p := &fqlast.Program{Ret: fqlast.Str(s)}
		ks := kase{Canon: canon, AST: p.Coq(), Fam: "echo-string", Out: clip(outcomeKey(co), 200)}
		checkExpect(&ks, co, s)
		for _, q := range styles[1:] {
			addAlt(&ks, co, "RETURN "+surface.Quote(s, q), "quote-style", nil)
		}
		addAlt(&ks, co, surface.Rerender(rng, surface.Lex(canon), true), "case+layout", nil)
		cases = append(cases, ks)
	}
	// backslash sequences: the value is the interior with \n and \t rewritten and
	// every other \X kept as two characters
	for _, in := range []string{`a\nb`, `a\tb`, `\n\t`, `a\qb`, `a\\b`, `\\`, `C:\dir\file`, `\u00e9`, `\x41`, `a\ b`, `\é`, `a\\nb`, `\r`, `\0`} {
		for q := 0; q < 4; q++ {
			canon := "RETURN " + surface.Quote(in, q)
			co := run(canon, nil)
			m.Evaluations++
			want := docUnescape(in)
			p := &fqlast.Program{Ret: fqlast.Str(want)}
			ks := kase{Canon: canon, AST: p.Coq(), Fam: "echo-escape", Out: clip(outcomeKey(co), 200)}
			checkExpect(&ks, co, want)
			cases = append(cases, ks)
		}
	}
	// an escaped quote keeps its backslash; a doubled quote stays doubled; a
	// backslash in the last position (back-tick styles only) is just a backslash
	for _, cse := range [][2]string{{`"a\"b"`, `a\"b`}, {`'a\'b'`, `a\'b`}, {"`a\\`b`", "a\\`b"}, {"´a\\´b´", "a\\´b"}, {`"a""b"`, `a""b`}, {`'a''b'`, `a''b`},
		{"`a\\`", "a\\"}, {"´a\\´", "a\\"}, {"`C:\\dir\\`", "C:\\dir\\"}, {"`\\`", "\\"}} {
		canon := "RETURN " + cse[0]
		co := run(canon, nil)
		m.Evaluations++
		p := &fqlast.Program{Ret: fqlast.Str(cse[1])}
		ks := kase{Canon: canon, AST: p.Coq(), Fam: "echo-escape", Out: clip(outcomeKey(co), 200)}
		checkExpect(&ks, co, cse[1])
		cases = append(cases, ks)
	}

	// ------------------------------------------------ echo: names
	nNames := 60
	if tier == "thorough" {
		nNames = 400
	}
	for i := 0; i < nNames; i++ {
		n1 := randName(rng)
		n2 := otherSpelling(rng, n1)
		if n1 == n2 {
			continue
		}
		p := &fqlast.Program{
			Stmts: []fqlast.Stmt{{Let: true, Name: n1, E: fqlast.Int(1)}, {Let: true, Name: n2, E: fqlast.Int(2)}},
			Ret: fqlast.Obj(fqlast.Prop{Kind: "named", Name: n1, Val: fqlast.Var(n1)}, fqlast.Prop{Kind: "named", Name: n2, Val: fqlast.Var(n2)},
				fqlast.Prop{Kind: "named", Name: "p", Val: fqlast.Param(n1)},
				fqlast.Prop{Kind: "named", Name: "m", Val: fqlast.Member(fqlast.Obj(fqlast.Prop{Kind: "named", Name: n1, Val: fqlast.Int(4)}, fqlast.Prop{Kind: "named", Name: n2, Val: fqlast.Int(5)}), fqlast.Seg{Name: n1})}),
		}
		extra := map[string]interface{}{n1: 3, n2: 30}
		canon := surface.Canon.Program(p)
		co := run(canon, extra)
		m.Evaluations++
		ks := kase{Canon: canon, AST: p.Coq(), Fam: "echo-names", Out: clip(outcomeKey(co), 200)}
		checkExpect(&ks, co, map[string]interface{}{n1: 1, n2: 2, "p": 3, "m": 4})
		addAlt(&ks, co, surface.Rerender(rng, surface.Lex(canon), true), "case+layout", extra)
		cases = append(cases, ks)
	}

	// ------------------------------------------------ variables named like a safe reserved word, in any
	// letter case, declared, read and used as the source of member paths: a name is exactly its spelling
	for _, wd := range []string{"distinct", "filter", "sort", "limit", "collect", "into", "keep", "with", "count", "all", "any", "aggregate", "event", "timeout", "options", "current", "asc", "desc"} {
		for _, sp := range []string{wd, strings.ToUpper(wd), strings.ToUpper(wd[:1]) + wd[1:]} {
			other := strings.ToUpper(sp)
			if other == sp {
				other = strings.ToLower(sp)
			}
			canon := fmt.Sprintf("LET %s = {a: 1, b: [10, 20]} LET %s = {a: 2, b: [30, 40]} RETURN [%s.a, %s.b[1], %s[\"a\"], %s.a, %s.b[0], %s]", sp, other, sp, sp, sp, other, other, sp)
			co := run(canon, nil)
			m.Evaluations++
			mk := func(n string) *fqlast.E { return fqlast.Var(n) }
			obj := func(a, b0, b1 int64) *fqlast.E {
				return fqlast.Obj(fqlast.Prop{Kind: "named", Name: "a", Val: fqlast.Int(a)}, fqlast.Prop{Kind: "named", Name: "b", Val: fqlast.Arr(fqlast.Int(b0), fqlast.Int(b1))})
			}
			p := &fqlast.Program{Stmts: []fqlast.Stmt{{Let: true, Name: sp, E: obj(1, 10, 20)}, {Let: true, Name: other, E: obj(2, 30, 40)}},
				Ret: fqlast.Arr(fqlast.Member(mk(sp), fqlast.Seg{Name: "a"}), fqlast.Member(mk(sp), fqlast.Seg{Name: "b"}, fqlast.Seg{Expr: fqlast.Int(1)}), fqlast.Member(mk(sp), fqlast.Seg{Expr: fqlast.Str("a")}),
					fqlast.Member(mk(other), fqlast.Seg{Name: "a"}), fqlast.Member(mk(other), fqlast.Seg{Name: "b"}, fqlast.Seg{Expr: fqlast.Int(0)}), mk(sp))}
			ks := kase{Canon: canon, AST: p.Coq(), Fam: "reserved-word-variables", Out: clip(outcomeKey(co), 200)}
			checkExpect(&ks, co, []interface{}{1.0, 20.0, 1.0, 2.0, 30.0, map[string]interface{}{"a": 1.0, "b": []interface{}{10.0, 20.0}}})
			cases = append(cases, ks)
		}
	}

	// ------------------------------------------------ many redundant parentheses around one operand
	for _, depth := range []int{8, 31, 40, 120} {
		p := &fqlast.Program{Ret: fqlast.Arr(fqlast.Math("+", fqlast.Int(1), fqlast.Int(2)), fqlast.Str("x"))}
		canon := `RETURN [1 + 2, "x"]`
		co := run(canon, nil)
		m.Evaluations++
		ks := kase{Canon: canon, AST: p.Coq(), Fam: "deep-parentheses", Out: clip(outcomeKey(co), 200)}
		o, c := strings.Repeat("(", depth), strings.Repeat(")", depth)
		addAlt(&ks, co, "RETURN ["+o+"1"+c+" + 2, \"x\"]", "redundant-parentheses", nil)
		addAlt(&ks, co, "RETURN [1 + 2, "+o+"\"x\""+c+"]", "redundant-parentheses", nil)
		addAlt(&ks, co, "RETURN "+o+"[1 + 2, \"x\"]"+c, "redundant-parentheses", nil)
		cases = append(cases, ks)
	}

	// ------------------------------------------------ echo: property names written as string literals
	// (object keys and .name path segments) in each of the four quote styles
	for _, nm := range []string{"a b", "é", "日本", "x-y", "", "k", "RETURN", "ß ü", "a.b", "😀", "1", "with space and ´"} {
		for q := 0; q < 4; q++ {
			if !surface.Admissible(nm, q) {
				continue
			}
			qn := surface.Quote(nm, q)
			canon := "RETURN {" + qn + ": 1, k2: {" + qn + ": 2}." + qn + "}"
			co := run(canon, nil)
			m.Evaluations++
			p := &fqlast.Program{Ret: fqlast.Obj(fqlast.Prop{Kind: "named", Name: nm, Val: fqlast.Int(1)},
				fqlast.Prop{Kind: "named", Name: "k2", Val: fqlast.Member(fqlast.Obj(fqlast.Prop{Kind: "named", Name: nm, Val: fqlast.Int(2)}), fqlast.Seg{Name: nm})})}
			ks := kase{Canon: canon, AST: p.Coq(), Fam: "echo-quoted-names", Out: clip(outcomeKey(co), 200)}
			checkExpect(&ks, co, map[string]interface{}{nm: 1, "k2": 2})
			cases = append(cases, ks)
		}
	}

	// ------------------------------------------------ write
	var files []string
	var idx []interface{}
	for start := 0; start < len(cases); start += per {
		end := start + per
		if end > len(cases) {
			end = len(cases)
		}
		name := fmt.Sprintf("cases%03d.v", start/per)
		f, err := os.Create(filepath.Join(out, name))
		Must(err)
		w := bufio.NewWriterSize(f, 1<<20)
		fmt.Fprintln(w, "From Ferret Require Import Render Check.C06.\nOpen Scope string_scope.")
		fmt.Fprintln(w, "Definition cases : list c06case := [")
		for i := start; i < end; i++ {
			ks := cases[i]
			ast := "None"
			if ks.AST != "" {
				ast = "(Some " + ks.AST + ")"
			}
			var ab bytes.Buffer
			for j, a := range ks.Alts {
				if j > 0 {
					ab.WriteString(";\n    ")
				}
				same := "false"
				if a.Same {
					same = "true"
				}
				fmt.Fprintf(&ab, "(%s, \"%s\", %s)", hexs(a.Text), CoqEscape(surface.KindString(surface.Lex(a.Text))), same)
			}
			sep := ";"
			if i == end-1 {
				sep = ""
			}
			fmt.Fprintf(w, " (%s, \"%s\",\n  %s,\n  %d%%N,\n   [%s])%s\n", hexs(ks.Canon), CoqEscape(surface.KindString(surface.Lex(ks.Canon))), ast, ks.Expect, ab.String(), sep)
			alts := make([]interface{}, len(ks.Alts))
			for j, a := range ks.Alts {
				alts[j] = map[string]interface{}{"text": a.Text, "how": a.How, "same": a.Same, "out": a.Out}
			}
			idx = append(idx, map[string]interface{}{"file": name, "i": i - start, "canon": ks.Canon, "family": ks.Fam, "out": ks.Out, "want": ks.Want, "alts": alts})
		}
		fmt.Fprintln(w, "].")
		fmt.Fprintln(w, "Definition M := Eval vm_compute in mismatches cases.")
		fmt.Fprintln(w, "Print M.")
		Must(w.Flush())
		Must(f.Close())
		files = append(files, name)
	}
	for i := 0; i < 3 && i < len(cases); i++ {
		a := cases[i].Alts
		if len(a) > 0 {
			m.Samples = append(m.Samples, map[string]interface{}{"canonical": cases[i].Canon, "rendering": a[0].Text, "same_outcome": a[0].Same, "outcome": cases[i].Out})
		}
	}
	m.DistinctNontrivial = len(distinct)
	m.Files = files
	m.Index["cases"] = idx
	m.Write(out)
}

func clip(s string, n int) string {
	if len(s) > n {
		return s[:n] + "..."
	}
	return s
}

// norm turns Go ints into the float64 encoding/json produces.
func norm(v interface{}) interface{} {
	switch x := v.(type) {
	case int:
		return float64(x)
	case map[string]interface{}:
		o := map[string]interface{}{}
		for k, e := range x {
			o[k] = norm(e)
		}
		return o
	}
	return v
}

// docUnescape: the documented reading of a string literal's interior —
// \n and \t are the only escapes, any other \X stays as the two characters.
func docUnescape(s string) string {
	var b strings.Builder
	r := []rune(s)
	for i := 0; i < len(r); i++ {
		if r[i] == '\\' && i+1 < len(r) {
			switch r[i+1] {
			case 'n':
				b.WriteRune('\n')
			case 't':
				b.WriteRune('\t')
			default:
				b.WriteRune('\\')
				b.WriteRune(r[i+1])
			}
			i++
			continue
		}
		b.WriteRune(r[i])
	}
	return b.String()
}

var reservedUpper = map[string]bool{}

func init() {
	for _, k := range strings.Fields("AND OR FOR RETURN WAITFOR OPTIONS TIMEOUT DISTINCT FILTER CURRENT SORT LIMIT LET COLLECT ASC DESC NONE NULL TRUE FALSE USE INTO KEEP WITH COUNT ALL ANY AGGREGATE EVENT LIKE NOT IN DO WHILE") {
		reservedUpper[k] = true
	}
}

// randName: an identifier of the grammar in mixed case: letters, then
// underscore groups, then digit groups (nested identifiers after them).
func randName(rng *rand.Rand) string {
	letters := "abcXYZqRs"
	for {
		var b []byte
		n := 1 + rng.Intn(4)
		for i := 0; i < n; i++ {
			b = append(b, letters[rng.Intn(len(letters))])
		}
		for g := rng.Intn(3); g > 0; g-- {
			b = append(b, '_')
			for i := rng.Intn(3); i > 0; i-- {
				b = append(b, letters[rng.Intn(len(letters))])
			}
		}
		for g := rng.Intn(3); g > 0; g-- {
			b = append(b, "0123456789"[rng.Intn(10)])
			for i := rng.Intn(3); i > 0; i-- {
				b = append(b, letters[rng.Intn(len(letters))])
			}
		}
		s := string(b)
		if !reservedUpper[strings.ToUpper(s)] && s != "p" && s != "m" {
			return s
		}
	}
}

// otherSpelling: the same name with the case of some letters changed.
func otherSpelling(rng *rand.Rand, s string) string {
	b := []byte(s)
	for try := 0; try < 10; try++ {
		i := rng.Intn(len(b))
		switch {
		case b[i] >= 'a' && b[i] <= 'z':
			b[i] -= 32
			return string(b)
		case b[i] >= 'A' && b[i] <= 'Z':
			b[i] += 32
			return string(b)
		}
	}
	return s
}
