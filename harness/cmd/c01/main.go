package main

// C01: Compile and Run are total. Every case runs in an isolated worker process
// (this binary re-executed with -worker) under a per-case watchdog, so that a
// fatal runtime error (stack overflow, concurrent map writes) or a wedged run is
// an observation, not the end of the check.

import (
	"bufio"
	"context"
	"encoding/json"
	"fmt"
	"io"
	"math/rand"
	"os"
	"os/exec"
	"path/filepath"
	"sort"
	"strings"
	"sync"
	"time"

	"github.com/MontFerret/ferret/pkg/compiler"
	"github.com/MontFerret/ferret/pkg/drivers"
	httpdrv "github.com/MontFerret/ferret/pkg/drivers/http"
	"github.com/MontFerret/ferret/pkg/runtime"

	. "verif/harness/common"
	"verif/harness/fqlast"
	"verif/harness/fqlrun"
)

type task struct {
	ID     int    `json:"id"`
	Kind   string `json:"kind"` // query | param
	Query  string `json:"query"`
	Param  int    `json:"param"`  // index into exoticParams (kind param)
	NoRun  bool   `json:"norun"`  // compile only
	Origin string `json:"origin"` // generator that produced it
	Twice  bool   `json:"twice"`  // compile and run twice in the same process; the second outcome is reported
	Coq    string `json:"-"`      // program in model syntax, when there is one
}

type result struct {
	ID       int    `json:"id"`
	Compiled bool   `json:"compiled"`
	Class    string `json:"class"` // compile-error ok error nil-nil panic-escaped crash hang compile-panic
	Err      string `json:"err"`
	JSONOK   bool   `json:"json_ok"` // result bytes are valid JSON
}

func worker() {
	in := bufio.NewScanner(os.Stdin)
	in.Buffer(make([]byte, 1<<20), 1<<24)
	out := bufio.NewWriter(os.Stdout)
	c := compiler.New()
	fqlrun.Register(c)
	params := map[string]interface{}{"n": 2, "arr": []interface{}{3, 1, 2, 1}, "obj": map[string]interface{}{"a": 1, "list": []interface{}{1, 2}}, "s": "k", "f": 1.5, "big": []interface{}{2, 1, 2, 1},
		"html": `<html><body><div id="a" class="c" style="color: red"><p>one</p><p>two</p></div><ul><li>x</li><li>y</li></ul></body></html>`}
	for in.Scan() {
		var t task
		if json.Unmarshal(in.Bytes(), &t) != nil {
			continue
		}
		r := result{ID: t.ID}
		reps := 1
		if t.Twice {
			reps = 2
		}
		for rep := 0; rep < reps; rep++ {
			r = result{ID: t.ID}
			func() {
				defer func() {
					if rec := recover(); rec != nil {
						r.Class = "compile-panic"
						r.Err = fmt.Sprint(rec)
					}
				}()
				prog, err := c.Compile(t.Query)
				if (prog == nil) == (err == nil) {
					r.Class = "compile-neither"
					return
				}
				if err != nil {
					r.Class = "compile-error"
					r.Err = err.Error()
					return
				}
				r.Compiled = true
				if t.NoRun {
					r.Class = "ok"
					r.JSONOK = true
					return
				}
				ctx, cancel := context.WithTimeout(context.Background(), 3*time.Second)
				defer cancel()
				ctx = drivers.WithContext(ctx, httpdrv.NewDriver(), drivers.AsDefault())
				func() {
					defer func() {
						if rec := recover(); rec != nil {
							r.Class = "panic-escaped"
							r.Err = fmt.Sprint(rec)
						}
					}()
					opts := []runtime.Option{runtime.WithLog(io.Discard)}
					if t.Kind == "param" {
						opts = append(opts, runtime.WithParam("p", exoticParams()[t.Param].v))
					} else {
						for k, v := range params {
							opts = append(opts, runtime.WithParam(k, v))
						}
					}
					b, err := prog.Run(fqlrun.WithSession(ctx, &fqlrun.Session{CancelAt: -1, FailAt: -1}), opts...)
					switch {
					case err != nil:
						r.Class = "error"
						r.Err = err.Error()
					case len(b) == 0:
						r.Class = "nil-nil"
					default:
						r.Class = "ok"
						r.JSONOK = json.Valid(b)
					}
				}()
			}()
		}
		if len(r.Err) > 300 {
			r.Err = r.Err[:300]
		}
		b, _ := json.Marshal(r)
		out.Write(b)
		out.WriteByte('\n')
		out.Flush()
	}
}

type proc struct {
	cmd *exec.Cmd
	in  io.WriteCloser
	out *bufio.Scanner
}

func startWorker() *proc {
	cmd := exec.Command(os.Args[0], "-worker")
	cmd.Stderr = io.Discard
	in, err := cmd.StdinPipe()
	Must(err)
	outp, err := cmd.StdoutPipe()
	Must(err)
	Must(cmd.Start())
	sc := bufio.NewScanner(outp)
	sc.Buffer(make([]byte, 1<<20), 1<<24)
	return &proc{cmd, in, sc}
}

func (p *proc) kill() {
	p.in.Close()
	p.cmd.Process.Kill()
	p.cmd.Wait()
}

// runAll distributes tasks over worker processes with a watchdog per task.
func runAll(tasks []task, nworkers int) []result {
	results := make([]result, len(tasks))
	ch := make(chan int)
	var wg sync.WaitGroup
	for w := 0; w < nworkers; w++ {
		wg.Add(1)
		go func() {
			defer wg.Done()
			p := startWorker()
			defer func() { p.kill() }()
			for i := range ch {
				b, _ := json.Marshal(tasks[i])
				if _, err := p.in.Write(append(b, '\n')); err != nil {
					p.kill()
					p = startWorker()
					p.in.Write(append(b, '\n'))
				}
				done := make(chan *result, 1)
				go func(sc *bufio.Scanner) {
					for sc.Scan() {
						line := sc.Bytes()
						if len(line) == 0 || line[0] != '{' || !strings.Contains(string(line), `"id"`) {
							continue // stray output of the code under test
						}
						var r result
						if json.Unmarshal(line, &r) == nil && r.Class != "" {
							done <- &r
							return
						}
					}
					done <- nil
				}(p.out)
				select {
				case r := <-done:
					if r == nil {
						results[i] = result{ID: tasks[i].ID, Class: "crash", Err: "worker process died"}
						p.kill()
						p = startWorker()
					} else {
						results[i] = *r
					}
				case <-time.After(10 * time.Second):
					results[i] = result{ID: tasks[i].ID, Class: "hang", Err: "no answer within 10 s"}
					p.kill()
					p = startWorker()
				}
			}
		}()
	}
	for i := range tasks {
		ch <- i
	}
	close(ch)
	wg.Wait()
	return results
}

func main() {
	if len(os.Args) > 1 && os.Args[1] == "-worker" {
		worker()
		return
	}
	out, tier, seed, _ := Args()
	rng := rand.New(rand.NewSource(seed))
	m := NewMeta("C01", tier, seed)
	m.Rule = "query texts: the repository's .fql files (compile only), token- and byte-level mutations of them, random bytes, generated well-formed programs steered towards run-time faults (negative / out-of-range indexes, division and modulo by zero, failing and panicking library functions with string / error / other panic values, empty collections), every registered library function called with 0-4 arguments of wrong types, DOM accessors on a parsed page; parameter values of every Go kind; each case in an isolated worker process with a watchdog; non-trivial = the text is not empty; distinct = distinct text"
	scale := 1
	if tier == "thorough" {
		scale = 12
	}
	var tasks []task
	add := func(t task) { t.ID = len(tasks); tasks = append(tasks, t) }
	// a. corpus
	repo := os.Getenv("VERIF_REPO")
	if repo == "" {
		repo = "/repo"
	}
	var corpus []string
	filepath.Walk(repo, func(p string, info os.FileInfo, err error) error {
		if err == nil && !info.IsDir() && strings.HasSuffix(p, ".fql") {
			if b, e := os.ReadFile(p); e == nil {
				corpus = append(corpus, string(b))
			}
		}
		return nil
	})
	sort.Strings(corpus)
	for _, q := range corpus {
		add(task{Kind: "query", Query: q, NoRun: true, Origin: "corpus"})
	}
	// b. mutations
	for i := 0; i < 500*scale && len(corpus) > 0; i++ {
		q := corpus[rng.Intn(len(corpus))]
		if len(q) > 1500 {
			q = q[:1500]
		}
		if rng.Intn(2) == 0 {
			toks := strings.Fields(q)
			if len(toks) > 2 {
				j := rng.Intn(len(toks))
				switch rng.Intn(4) {
				case 0:
					toks = append(toks[:j], toks[j+1:]...)
				case 1:
					toks = append(toks[:j], append([]string{toks[j]}, toks[j:]...)...)
				case 2:
					k := rng.Intn(len(toks))
					toks[j], toks[k] = toks[k], toks[j]
				default:
					toks[j] = []string{"RETURN", "FOR", ")", "(", "[", "}", "?", ":", "..", "@", "::", "-1", "0", "NONE", "\"", "IN"}[rng.Intn(16)]
				}
				q = strings.Join(toks, " ")
			}
			add(task{Kind: "query", Query: q, NoRun: strings.Contains(q, "DOCUMENT") || strings.Contains(q, "WAIT"), Origin: "token-mutation"})
		} else {
			b := []byte(q)
			if len(b) > 0 {
				j := rng.Intn(len(b))
				switch rng.Intn(3) {
				case 0:
					b[j] = byte(rng.Intn(256))
				case 1:
					b = append(b[:j], b[j+1:]...)
				default:
					b = append(b[:j], append([]byte{byte(rng.Intn(256))}, b[j:]...)...)
				}
			}
			add(task{Kind: "query", Query: string(b), NoRun: strings.Contains(q, "DOCUMENT") || strings.Contains(q, "WAIT"), Origin: "byte-mutation"})
		}
	}
	// c. random bytes / random token soup
	for i := 0; i < 150*scale; i++ {
		n := 1 + rng.Intn(40)
		b := make([]byte, n)
		for j := range b {
			b[j] = byte(rng.Intn(256))
		}
		add(task{Kind: "query", Query: string(b), Origin: "random-bytes"})
		var sb strings.Builder
		for j := 0; j < 1+rng.Intn(12); j++ {
			sb.WriteString([]string{"RETURN", "FOR", "x", "IN", "[", "]", "(", ")", "1", "..", "LET", "=", "+", "{", "}", ":", ",", "\"a\"", "@p", "FILTER", "COLLECT", "?", "NOT", "T", "."}[rng.Intn(25)])
			sb.WriteByte(' ')
		}
		add(task{Kind: "query", Query: sb.String(), Origin: "token-soup"})
	}
	// d. fault-steered well-formed programs (the model predicts their class)
	faultLeaves := []*fqlast.E{
		fqlast.Math("%", fqlast.Int(1), fqlast.Int(0)), fqlast.Math("/", fqlast.Int(1), fqlast.Int(0)),
		fqlast.Member(fqlast.Arr(fqlast.Int(1), fqlast.Int(2)), fqlast.Seg{Expr: fqlast.Int(-1)}),
		fqlast.Member(fqlast.Param("s"), fqlast.Seg{Expr: fqlast.Int(5)}),
		fqlast.Member(fqlast.Param("arr"), fqlast.Seg{Expr: fqlast.Int(-2)}),
		fqlast.Call("PANIC_S"), fqlast.Call("PANIC_E"), fqlast.Call("PANIC_O"), fqlast.Call("PANIC_N"), fqlast.Call("PANIC_C"), fqlast.Call("FAIL"),
		fqlast.Math("%", fqlast.Float(2.5), fqlast.Float(0.5)),
		fqlast.Member(fqlast.Arr(), fqlast.Seg{Expr: fqlast.Int(0)}),
		fqlast.Math("/", fqlast.Float(1.5), fqlast.Float(0.0)),
	}
	for i := 0; i < 400*scale; i++ {
		g := fqlast.NewGen(rng, 1+rng.Intn(3))
		g.Faulty = 6
		p := g.Program()
		// plant a fault somewhere it will be evaluated: as an extra statement or in the result
		fl := faultLeaves[rng.Intn(len(faultLeaves))]
		switch rng.Intn(3) {
		case 0:
			p.Stmts = append(p.Stmts, fqlast.Stmt{Let: true, Name: "_", E: fl})
		case 1:
			if p.Ret != nil {
				p.Ret = fqlast.Arr(p.Ret, fl)
			} else {
				p.Stmts = append([]fqlast.Stmt{{Let: true, Name: "_", E: fqlast.Suppress(fl)}}, p.Stmts...)
			}
		}
		add(task{Kind: "query", Query: p.FQL(), Origin: "fault-program", Coq: p.Coq()})
	}
	// e. every registered function with wrong arities / types
	names := compiler.New().RegisteredFunctions()
	sort.Strings(names)
	argPool := []string{"NONE", "1", "-1", "\"a\"", "[]", "{}", "1.5", "true", "[1, \"a\"]", "{a: 1}", "\"\"", "0", "[[1]]", "9223372036854775807", "PARSE(@html)"}
	nfn := 0
	for _, fn := range names {
		up := strings.ToUpper(fn)
		if strings.HasPrefix(up, "IO::") || up == "DOCUMENT" || up == "DOWNLOAD" || up == "PDF" || up == "SCREENSHOT" || up == "WAIT" || strings.HasPrefix(up, "WAIT_") || up == "PRINT" || up == "PAGINATION" {
			continue
		}
		nfn++
		reps := 4 * scale
		add(task{Kind: "query", Query: "RETURN " + fn + "()", Origin: "fn-arity"})
		for r := 0; r < reps; r++ {
			n := 1 + rng.Intn(4)
			args := make([]string, n)
			for j := range args {
				args[j] = argPool[rng.Intn(len(argPool))]
			}
			add(task{Kind: "query", Query: "RETURN " + fn + "(" + strings.Join(args, ", ") + ")", Origin: "fn-arity"})
		}
	}
	// e2. a fault must not leave the library in a state that wedges or crashes the next call:
	// every function with hostile arguments, twice in the same process
	hostile := []string{"-1", "9223372036854775807", "NONE", "\"\"", "[]", "-1.5"}
	for _, fn := range names {
		up := strings.ToUpper(fn)
		if strings.HasPrefix(up, "IO::") || up == "DOCUMENT" || up == "DOWNLOAD" || up == "PDF" || up == "SCREENSHOT" || up == "WAIT" || strings.HasPrefix(up, "WAIT_") || up == "PRINT" || up == "PAGINATION" {
			continue
		}
		for _, a := range hostile {
			for n := 1; n <= 2+scale/12; n++ {
				args := make([]string, n)
				for j := range args {
					args[j] = a
				}
				add(task{Kind: "query", Query: "RETURN " + fn + "(" + strings.Join(args, ", ") + ")", Origin: "fn-fault-then-reuse", Twice: true})
			}
		}
	}
	// e2b. arguments that share structure: the same container reachable from two arguments (and
	// twice from one); a function that writes into an argument can tie a knot and never finish
	for _, fn := range names {
		up := strings.ToUpper(fn)
		if strings.HasPrefix(up, "IO::") || up == "DOCUMENT" || up == "DOWNLOAD" || up == "PDF" || up == "SCREENSHOT" || up == "WAIT" || strings.HasPrefix(up, "WAIT_") || up == "PRINT" || up == "PAGINATION" {
			continue
		}
		for _, pre := range []string{"LET i = {} LET a = {k: i} LET b = {k: {loop: i}} ", "LET i = [] LET a = [i] LET b = [[i], i] ", "LET i = {x: 1} LET a = {k: i, l: i} LET b = {k: {k: i}, l: [i]} "} {
			for _, call := range []string{"(a, b)", "(b, a)", "(a, a)", "(a, b, a)", "([a, b])"} {
				add(task{Kind: "query", Query: pre + "RETURN [" + fn + call + ", a, b]", Origin: "fn-aliased-args"})
			}
		}
	}
	// e3. numeric functions with degenerate steps / bounds / counts (zero, negative, NaN-producing)
	for _, q := range []string{"RANGE(1, 2, 0)", "RANGE(1, 5, -1)", "RANGE(5, 1, -1)", "RANGE(5, 1)", "RANGE(-5, -1)", "RANGE(1, 2, 0.0)", "RANGE(0, 1, 0.3)", "RANGE(1, 2, -0.5)", "RANGE(2, 1, 0)",
		"RANGE(1, 3, 1e-320)", "RANDOM_TOKEN(-1)", "RANDOM_TOKEN(0)", "SUBSTRING(\"abc\", -1, 5)", "SUBSTRING(\"abc\", 2, -1)", "LEFT(\"abc\", -1)", "RIGHT(\"abc\", -1)", "SLICE([1,2,3], 5, -2)",
		"REMOVE_NTH([1], 5)", "NTH([1], 9223372036854775807)", "PERCENTILE([1,2,3], 0)", "PERCENTILE([1,2,3], 101)", "PERCENTILE([], 50)", "FLATTEN([1,[2]], -1)", "POW(0, -1)", "LOG(0)", "SQRT(-1)", "1..0", "5..1",
		"DATE_ADD(NOW(), 9223372036854775807, \"y\")", "DATE_DIFF(NOW(), NOW(), \"f\")", "REPEAT(\"a\", -1)", "LPAD(\"a\", -1, \"b\")", "RPAD(\"a\", 5, \"\")", "FIRST([])", "LAST([])", "MEDIAN([])", "AVERAGE([])",
		"VARIANCE_SAMPLE([1])", "STDDEV_SAMPLE([1])", "SPLIT(\"abc\", \"\", -1)", "SPLIT(\"abc\", \"\", 0)", "JSON_PARSE(\"\")", "FROM_BASE64(\"!\")", "DECODE_URI_COMPONENT(\"%zz\")", "REGEX_TEST(\"a\", \"(\")", "\"a\" =~ \"(\"", "\"a\" LIKE \"[\""} {
		add(task{Kind: "query", Query: "RETURN " + q, Origin: "fn-degenerate", Twice: true})
	}
	m.Extra["functions_exercised"] = nfn
	// f. DOM accessors on a parsed page
	for _, q := range []string{
		`LET d = PARSE(@html) RETURN INNER_TEXT(d, "p")`, `LET d = PARSE(@html) RETURN ELEMENTS_COUNT(d, "li")`,
		`LET d = PARSE(@html) LET e = ELEMENT(d, "#a") RETURN STYLE_GET(e, "color")`, `LET d = PARSE(@html) LET e = ELEMENT(d, "#a") RETURN e.style`,
		`LET d = PARSE(@html) LET e = ELEMENT(d, "#a") RETURN e.attributes`, `LET d = PARSE(@html) RETURN ELEMENT(d, "#zz")`,
		`LET d = PARSE(@html) LET e = ELEMENT(d, "p") RETURN [e.parentElement.nodeName, e.nextElementSibling, e.previousElementSibling, e.children, e.innerText, e.innerHTML]`,
		`LET d = PARSE(@html) RETURN XPATH(d, "//li")`, `LET d = PARSE(@html) RETURN XPATH(d, "count(//li)")`, `LET d = PARSE(@html) RETURN XPATH(d, "//[")`,
		`LET d = PARSE(@html) LET e = ELEMENT(d, "div") LET x = STYLE_SET(e, "color", "blue") RETURN STYLE_GET(e, "color")`,
		`LET d = PARSE(@html) LET e = ELEMENT(d, "div") LET x = ATTR_SET(e, "k", "v") RETURN ATTR_GET(e, "k")`,
		`LET d = PARSE(@html) RETURN d.title`, `LET d = PARSE(@html) RETURN d[0]`, `LET d = PARSE(@html) RETURN ELEMENTS(d, "p")[5].innerText`,
		`LET d = PARSE("") RETURN INNER_HTML(d, "body")`, `LET d = PARSE(@html) RETURN INNER_TEXT_ALL(d, "")`, `LET d = PARSE(@html) RETURN ELEMENT_EXISTS(d, "[")`,
	} {
		add(task{Kind: "query", Query: q, Origin: "dom"})
	}
	// f1. style attributes the CSS scanner chokes on (unclosed quotes / brackets / comments,
	// stray delimiters): reading them must end, with styles or with an error
	for _, st := range []string{"content: 'abc", `content: \"abc`, "color: red; content: 'x", "background: url(", "background: url('a", "/* open", "color: /* c", "a:b:c", ";;;", ":", "color:", ": red",
		"color red", "{}", "}", "width: 10px; }{", "\\", "color: r\\", "@media", "!important", "font: 12px/1.5 'A B", "x: \u0000", "é: ü", "--v: 1", "w: 1e999", "w: -", "w: 1.", "w: .5;h:0"} {
		page := "`<div id=\"a\" style=\"" + strings.ReplaceAll(strings.ReplaceAll(st, "`", ""), `"`, "&quot;") + "\">x</div>`"
		add(task{Kind: "query", Query: "LET d = PARSE(" + page + `) LET e = ELEMENT(d, "#a") RETURN [e.style, STYLE_GET(e, "color"), e.attributes]`, Origin: "dom-style"})
	}
	// f2. member access on DOM values: known and unknown property names, indexes, chains
	domSrc := []string{"d", `ELEMENT(d, "div")`, `ELEMENT(d, "p")`, `ELEMENTS(d, "li")[0]`, `ELEMENTS(d, "li")`, `d.body`, `d.head`, `ELEMENT(d, "div").attributes`, `ELEMENT(d, "div").style`, `ELEMENT(d, "p").parentElement`}
	domProps := []string{"foo", "className", "innerText", "innerHTML", "nodeName", "nodeType", "children", "length", "value", "attributes", "style", "parentElement", "previousElementSibling", "nextElementSibling", "title", "url", "URL", "body", "head", "document", "cookies", "frames", "isDetached", "x y", "", "0", "class", "id", "color"}
	ndom := 150 * scale
	for i := 0; i < ndom; i++ {
		e := domSrc[rng.Intn(len(domSrc))]
		for j := 0; j < 1+rng.Intn(3); j++ {
			switch rng.Intn(5) {
			case 0:
				e += fmt.Sprintf("[%d]", rng.Intn(4)-1)
			case 1:
				e += fmt.Sprintf("[%q]", domProps[rng.Intn(len(domProps))])
			default:
				pn := domProps[rng.Intn(len(domProps))]
				if pn == "" || strings.ContainsAny(pn, " 0123456789") {
					e += fmt.Sprintf("[%q]", pn)
				} else {
					e += "." + pn
				}
			}
			if rng.Intn(6) == 0 {
				e = "(" + e + ")?"
				break
			}
		}
		add(task{Kind: "query", Query: "LET d = PARSE(@html) RETURN " + e, Origin: "dom-member"})
	}
	// g. parameter values of every Go kind
	for i := range exoticParams() {
		add(task{Kind: "param", Query: "RETURN @p", Param: i, Origin: "go-param"})
	}

	res := runAll(tasks, 12)
	// case files for the model
	per := 400
	var files []string
	var w *bufio.Writer
	var f *os.File
	distinct := map[string]struct{}{}
	idx := make([]interface{}, 0, len(tasks))
	for i, t := range tasks {
		if i%per == 0 {
			name := fmt.Sprintf("cases%03d.v", len(files))
			var err error
			f, err = os.Create(filepath.Join(out, name))
			Must(err)
			w = bufio.NewWriterSize(f, 1<<20)
			fmt.Fprintln(w, "From Ferret Require Import RunApi Check.C01.")
			fmt.Fprintln(w, "Definition cases : list (option program * cls) := [")
			files = append(files, name)
		}
		r := res[i]
		cls := map[string]string{"compile-error": "KCompileErr", "ok": "KOk", "error": "KErr", "nil-nil": "KNilNil", "panic-escaped": "KEscaped",
			"crash": "KCrash", "hang": "KHang", "compile-panic": "KCompilePanic", "compile-neither": "KCompileNeither"}[r.Class]
		if cls == "" {
			cls = "KCrash"
		}
		if r.Class == "ok" && !r.JSONOK {
			cls = "KBadJson"
		}
		prog := "None"
		if t.Coq != "" {
			prog = "(Some " + t.Coq + ")"
		}
		sep := ";"
		if i%per == per-1 || i == len(tasks)-1 {
			sep = ""
		}
		fmt.Fprintf(w, " (%s, %s)%s\n", prog, cls, sep)
		if i%per == per-1 || i == len(tasks)-1 {
			fmt.Fprintln(w, "].")
			fmt.Fprintln(w, "Definition M := Eval vm_compute in mismatches cases.")
			fmt.Fprintln(w, "Print M.")
			Must(w.Flush())
			Must(f.Close())
		}
		q := t.Query
		if len(q) > 400 {
			q = q[:400]
		}
		e := map[string]interface{}{"file": files[len(files)-1], "i": i % per, "origin": t.Origin, "query": q, "class": r.Class, "err": r.Err}
		if t.Kind == "param" {
			e["param"] = exoticParams()[t.Param].name
		}
		idx = append(idx, e)
		m.Evaluations++
		m.Count("origin:" + t.Origin)
		m.Count("class:" + r.Class)
		if strings.TrimSpace(t.Query) != "" {
			distinct[t.Query+fmt.Sprint(t.Param)] = struct{}{}
		}
	}
	for _, i := range []int{0, len(corpus) + 1, len(tasks) / 2, len(tasks) - 1} {
		if i < len(tasks) {
			m.Samples = append(m.Samples, idx[i])
		}
	}
	m.DistinctNontrivial = len(distinct)
	m.Files = files
	m.Index["cases"] = idx
	m.Write(out)
}
