package main

import (
	"encoding/json"
	"net"
	"time"
)

type exotic struct {
	name string
	v    interface{}
}

type withUnexported struct {
	A int
	b string
}
type nested struct {
	P *int
	M map[string]interface{}
	S []withUnexported
}
type myInt int
type Label string
type NestedPub struct{ Q int }

// exoticParams: values of the Go kinds the embedding API may be handed.
func exoticParams() []exotic {
	var np *int
	one := 1
	var nm map[string]int
	var ns []string
	var ni interface{}
	var ne error
	return []exotic{
		{"nil", nil}, {"bool", true}, {"int", 1}, {"int8", int8(-8)}, {"int16", int16(16)}, {"int32", int32(32)}, {"int64", int64(-64)},
		{"uint", uint(7)}, {"uint8", uint8(8)}, {"uint16", uint16(16)}, {"uint32", uint32(32)}, {"uint64", uint64(1 << 63)}, {"uintptr", uintptr(9)},
		{"float32", float32(1.5)}, {"float64", 2.5}, {"string", "s"}, {"time", time.Unix(0, 0).UTC()}, {"bytes", []byte{1, 2}},
		{"slice", []interface{}{1, "a", nil}}, {"typed-slice", []int{1, 2}}, {"array", [2]string{"a", "b"}}, {"map", map[string]interface{}{"a": 1}},
		{"int-key-map", map[int]string{1: "a"}}, {"nil-pointer", np}, {"pointer", &one}, {"nil-map", nm}, {"nil-slice", ns}, {"nil-interface", ni},
		{"nil-error", ne}, {"struct", struct{ A, B int }{1, 2}}, {"struct-unexported", withUnexported{1, "x"}}, {"pointer-struct-unexported", &withUnexported{1, "x"}},
		{"nested", nested{nil, nil, []withUnexported{{1, "y"}}}}, {"defined-int", myInt(3)}, {"chan", make(chan int)}, {"func", func() {}},
		{"complex", complex(1, 2)}, {"slice-of-chan", []chan int{make(chan int)}}, {"map-of-func", map[string]func(){"f": func() {}}},
		{"deep", []interface{}{[]interface{}{[]interface{}{map[string]interface{}{"k": []int{1}}}}}},
		{"empty-struct", struct{}{}},
		{"byte-array", [4]byte{1, 2, 3, 4}}, {"empty-byte-array", [0]byte{}}, {"uint16-array", [2]uint16{1, 2}},
		{"struct-with-byte-array", struct{ ID [4]byte }{[4]byte{9, 9, 9, 9}}}, {"slice-of-byte-array", []interface{}{[2]byte{1, 2}}},
		{"map-of-byte-array", map[string][3]byte{"k": {1, 2, 3}}}, {"pointer-byte-array", &[4]byte{1, 2, 3, 4}}, {"nested-byte-array", [2][2]byte{{1, 2}, {3, 4}}},
		{"raw-message", json.RawMessage(`{"a":1}`)}, {"net-ip", net.IPv4(127, 0, 0, 1)}, {"duration", time.Second}, {"array-of-struct", [1]withUnexported{{1, "z"}}},
		{"slice-of-pointers", []*int{nil}}, {"map-of-nil-interface", map[string]interface{}{"n": nil}}, {"interface-slice-of-typed-nil", []interface{}{(*int)(nil), (map[string]int)(nil), ([]byte)(nil)}},
		{"bool-key-map", map[bool]int{true: 1}}, {"float-key-map", map[float64]int{1.5: 1}}, {"struct-key-map", map[struct{ A int }]int{{1}: 1}},
		// embedded fields (a nil pointer to a struct, a named non-struct type, a filled struct), strings with control characters
		{"embedded-nil-pointer", struct {
			*NestedPub
			N int
		}{nil, 1}}, {"embedded-named-string", struct {
			Label
			N int
		}{"l", 2}}, {"embedded-struct", struct {
			NestedPub
			N int
		}{NestedPub{7}, 3}}, {"embedded-pointer", struct{ *NestedPub }{&NestedPub{8}}},
		{"control-chars", "a\x1bb\x00c\x0cd\x08e\x7f"}, {"control-chars-nested", map[string]interface{}{"k\x1b": []interface{}{"\x00", "\x1b[31mred\x1b[0m"}}},
		{"rune", 'x'}, {"byte", byte(7)}, {"error-value", errForParam{}}, {"stringer", net.IPMask{255, 0, 0, 0}}, {"time-pointer", func() *time.Time { t := time.Unix(1, 0); return &t }()},
	}
}

type errForParam struct{}

func (errForParam) Error() string { return "e" }
