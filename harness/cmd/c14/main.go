package main

// C14: closable values bound by a query are released on every exit path.

import (
	"bufio"
	"fmt"
	"math/rand"
	"os"
	"path/filepath"
	"strings"

	"github.com/MontFerret/ferret/pkg/compiler"

	. "verif/harness/common"
	"verif/harness/fqlast"
	"verif/harness/fqlrun"
)

// inject places calls of CLOSER(id) at binding sites: top-level LET (named or
// ignore variable), LET inside loops, loop sources, and in the returned value
// (not bound: must be serialised, not closed by the scope).
func inject(rng *rand.Rand, p *fqlast.Program, next *int64) {
	closer := func() *fqlast.E { *next++; return fqlast.Call("CLOSER", fqlast.Int(*next)) }
	name := func() string {
		if rng.Intn(3) == 0 {
			return "_"
		}
		return fmt.Sprintf("c%d", *next+1)
	}
	n := 1 + rng.Intn(3)
	for i := 0; i < n; i++ {
		pos := rng.Intn(len(p.Stmts) + 1)
		st := fqlast.Stmt{Let: true, Name: name(), E: closer()}
		p.Stmts = append(p.Stmts[:pos], append([]fqlast.Stmt{st}, p.Stmts[pos:]...)...)
	}
	var walk func(q *fqlast.For)
	walk = func(q *fqlast.For) {
		if rng.Intn(2) == 0 {
			// before any COLLECT so that the position is always legal
			pos := 0
			cl := fqlast.Clause{K: "let", Name: name(), E: closer()}
			q.Body = append(q.Body[:pos], append([]fqlast.Clause{cl}, q.Body[pos:]...)...)
		}
		if q.Ret.For != nil {
			walk(q.Ret.For)
		}
	}
	if p.For != nil {
		walk(p.For)
		if rng.Intn(3) == 0 {
			// an outer loop over closables: the loop variable binds each of them
			outer := &fqlast.For{Val: fmt.Sprintf("c%d", *next+1), Src: fqlast.Arr(closer(), closer()), Ret: &fqlast.Ret{For: p.For}}
			if rng.Intn(3) == 0 {
				outer.Val = "_" // the ignore variable binds (and thereby registers) each element too
			}
			if rng.Intn(2) == 0 {
				// ... and a LIMIT with an offset right behind the source: the rows it skips were bound too
				outer.Src = fqlast.Arr(closer(), closer(), closer())
				outer.Body = []fqlast.Clause{{K: "limit", Offset: fqlast.Int(int64(1 + rng.Intn(3))), Count: fqlast.Int(int64(rng.Intn(3)))}}
			}
			p.For = outer
		}
	} else if rng.Intn(3) == 0 {
		p.Ret = fqlast.Arr(p.Ret, closer())
	}
}

func main() {
	out, tier, seed, _ := Args()
	rng := rand.New(rand.NewSource(seed))
	nprog, depth, per, maxK := 250, 3, 300, 8
	if tier == "thorough" {
		nprog, depth, per, maxK = 3000, 5, 400, 30
	}
	m := NewMeta("C14", tier, seed)
	m.Rule = "generated programs with calls of CLOSER(id) (a tracked closable) injected at binding sites: top-level LET, LET _ , LET inside loops, loop sources, the returned value; each program is run with no injection, with the context cancelled before the run, and for every k below min(calls, cap) with a cancellation / an error / a string panic / an error panic / another panic at the k-th instrumented call; a case is non-trivial when at least one closable is bound; distinct = distinct (query, injection)"
	c := compiler.New()
	fqlrun.Register(c)
	params := map[string]interface{}{"n": 2, "arr": []interface{}{3, 1, 2, 1}, "obj": map[string]interface{}{"a": 1, "list": []interface{}{1, 2}}, "s": "k", "f": 1.5, "big": []interface{}{2, 1, 2, 1}}
	pcoq := `[(hx "626967", VArr [VInt 2; VInt 1; VInt 2; VInt 1]); (hx "6e", VInt 2); (hx "617272", VArr [VInt 3; VInt 1; VInt 2; VInt 1]); (hx "6f626a", VObj [(hx "61", VInt 1); (hx "6c697374", VArr [VInt 1; VInt 2])]); (hx "73", VStr (hx "6b")); (hx "66", VFloat 4609434218613702656%N)]`
	distinct := map[string]struct{}{}
	var files []string
	var idx []interface{}
	var w *bufio.Writer
	var f *os.File
	inFile := 0
	closeFile := func() {
		fmt.Fprintln(w, "].")
		fmt.Fprintln(w, "Definition M := Eval vm_compute in mismatches cases.")
		fmt.Fprintln(w, "Print M.")
		Must(w.Flush())
		Must(f.Close())
	}
	emit := func(p *fqlast.Program, q, inj string, o fqlrun.Outcome) {
		if w == nil || inFile >= per {
			if w != nil {
				closeFile()
			}
			name := fmt.Sprintf("cases%03d.v", len(files))
			var err error
			f, err = os.Create(filepath.Join(out, name))
			Must(err)
			w = bufio.NewWriterSize(f, 1<<20)
			fmt.Fprintln(w, "From Ferret Require Import RunApi Check.C14.")
			fmt.Fprintln(w, "Definition cases : list (program * list (name * value) * inj * aobs * list Z * bool) := [")
			files = append(files, name)
			inFile = 0
		}
		obs := "AOEscaped"
		switch o.Class {
		case "ok":
			if v, err := fqlrun.JSONToCoq(o.JSON); err == nil {
				obs = "(AOJson " + v + ")"
			}
		case "error":
			obs = "AOErr"
		case "nil-nil":
			obs = "AONilNil"
		case "compile-error":
			obs = "AOCompileErr"
		}
		var closed []string
		lastOK := true
		seenClose := false
		nb := 0
		for _, e := range o.Trace {
			switch e.Kind {
			case "close":
				seenClose = true
				closed = append(closed, fmt.Sprintf("(%d)", e.ID))
			default:
				if seenClose {
					lastOK = false
				}
				if e.Kind == "call" && e.Fn == "CLOSER" {
					nb++
				}
			}
		}
		sep := ""
		if inFile > 0 {
			sep = ";"
		}
		fmt.Fprintf(w, "%s (%s,\n  %s, %s, %s, [%s], %v)\n", sep, p.Coq(), pcoq, inj, obs, strings.Join(closed, "; "), lastOK)
		idx = append(idx, map[string]interface{}{"file": files[len(files)-1], "i": inFile, "query": q, "inject": inj, "class": o.Class, "err": o.Err, "json": string(o.JSON), "closed": closed, "closes_last": lastOK})
		inFile++
		m.Evaluations++
		m.Count("outcome:" + o.Class)
		m.Count(fmt.Sprintf("closed:%d", len(closed)))
		if nb > 0 {
			distinct[q+"|"+inj] = struct{}{}
		}
	}
	var nextID int64
	for i := 0; i < nprog; i++ {
		g := fqlast.NewGen(rng, 1+rng.Intn(depth))
		g.Faulty = 20
		p := g.Program()
		inject(rng, p, &nextID)
		q := p.FQL()
		prog, err := c.Compile(q)
		if err != nil {
			m.Count("compile-error")
			continue
		}
		base := fqlrun.RunProgram(prog, params, -1, false)
		ncalls := 0
		for _, e := range base.Trace {
			if e.Kind == "call" {
				ncalls++
			}
		}
		emit(p, q, "INone", base)
		emit(p, q, "IPre", fqlrun.RunProgram(prog, params, -1, true))
		for k := 0; k < ncalls && k < maxK; k++ {
			emit(p, q, fmt.Sprintf("(ICancel %d%%N)", k), fqlrun.RunProgramInj(prog, params, k, false, -1, 0))
			kind := (k + i) % 5
			emit(p, q, fmt.Sprintf("(IFail %d%%N %d%%N)", k, kind), fqlrun.RunProgramInj(prog, params, -1, false, k, kind))
			if tier == "thorough" {
				for kk := 0; kk < 5; kk++ {
					if kk != kind {
						emit(p, q, fmt.Sprintf("(IFail %d%%N %d%%N)", k, kk), fqlrun.RunProgramInj(prog, params, -1, false, k, kk))
					}
				}
			}
		}
		if i < 3 {
			m.Samples = append(m.Samples, map[string]interface{}{"query": q, "calls": ncalls})
		}
	}
	if w != nil {
		closeFile()
	}
	m.DistinctNontrivial = len(distinct)
	m.Files = files
	m.Index["cases"] = idx
	m.Write(out)
}
