package main

// facts_looplocks — fact translator for C20 (DESIGN.md §2.4, GenLoopLocks.v).
//
// Reads <repo>/pkg/drivers/cdp/events/loop.go with go/parser and, for every
// method of Loop, records each read or write of the listener table together
// with the mode of loop.mu that is held at that point, and each call of a
// listener's handler.  The walk is a straight-line abstract interpretation of
// the statement list: `recv.mu.Lock()` / `RLock()` set the mode, `Unlock()` /
// `RUnlock()` clear it, a deferred unlock keeps the mode to the end of the
// function, nested blocks must leave the mode as they found it (otherwise it
// becomes LUnknown), accesses in a helper method that takes no lock itself are
// attributed to every call site with the mode held there (one level).
// Anything the translator does not understand is emitted as LUnknown, so that
// the Coq obligation `check_locks table = true` fails instead of passing
// silently.
//
// Output: <out>/GenLoopLocks.v
//   Definition table : list lock_access := [ mkAccess "Method" AWrite LW 87; ... ].

import (
	"flag"
	"fmt"
	"go/ast"
	"go/parser"
	"go/token"
	"os"
	"path/filepath"
	"sort"
	"strings"
)

type mode int

const (
	mNone mode = iota
	mR
	mW
	mUnknown
)

func (m mode) coq() string { return [...]string{"LNone", "LR", "LW", "LUnknown"}[m] }

type access struct {
	method string
	kind   string // ARead | AWrite | ACall
	lock   mode
	line   int
	note   string
}

type walker struct {
	fset     *token.FileSet
	recv     string            // receiver identifier of the current method
	method   string            // current method
	muField  string            // name of the sync.RWMutex field
	tblField string            // name of the listener-table field
	alias    map[string]bool   // local identifiers aliasing (part of) the table
	snap     map[string]bool   // local identifiers holding copies of listeners (handler calls go through them)
	out      []access          // accesses of the current method
	calls    map[string][]call // helper -> call sites (with mode)
	methods  map[string]bool
	lockFree bool // the current method contains no call on the mutex at all
	// methods of Loop of the shape  func (l *Loop) h(fn func()) { l.mu.Lock(); defer l.mu.Unlock(); fn() }
	// (or RLock/RUnlock, or an explicit unlock after the call): a call h(func() {...}) made while
	// nothing is held runs the literal under that lock, in line
	lockHelpers map[string]mode
}

type call struct {
	from string
	lock mode
	line int
}

func (w *walker) pos(n ast.Node) int { return w.fset.Position(n.Pos()).Line }

// isRecvField: expr is recv.<field>
func (w *walker) isRecvField(e ast.Expr, field string) bool {
	s, ok := e.(*ast.SelectorExpr)
	if !ok {
		return false
	}
	id, ok := s.X.(*ast.Ident)
	return ok && id.Name == w.recv && s.Sel.Name == field
}

// rootsInTable: expression denotes the table, an inner map of it, or an alias
func (w *walker) rootsInTable(e ast.Expr) bool {
	switch x := e.(type) {
	case *ast.SelectorExpr:
		return w.isRecvField(x, w.tblField)
	case *ast.IndexExpr:
		return w.rootsInTable(x.X)
	case *ast.Ident:
		return w.alias[x.Name]
	case *ast.ParenExpr:
		return w.rootsInTable(x.X)
	}
	return false
}

// muCall recognises recv.mu.<Lock|RLock|Unlock|RUnlock>()
func (w *walker) muCall(e ast.Expr) string {
	c, ok := e.(*ast.CallExpr)
	if !ok {
		return ""
	}
	s, ok := c.Fun.(*ast.SelectorExpr)
	if !ok {
		return ""
	}
	if w.isRecvField(s.X, w.muField) {
		return s.Sel.Name
	}
	return ""
}

func (w *walker) add(kind string, m mode, n ast.Node, note string) {
	w.out = append(w.out, access{w.method, kind, m, w.pos(n), note})
}

// reads: every table-rooted sub-expression of e is a read at mode m; handler
// calls and helper calls are recorded as well.
func (w *walker) reads(e ast.Node, m mode) {
	if e == nil {
		return
	}
	ast.Inspect(e, func(n ast.Node) bool {
		switch x := n.(type) {
		case *ast.FuncLit:
			// a closure: analysed where it is started (go / defer / call)
			return false
		case *ast.CallExpr:
			if w.muCall(x) != "" {
				return false
			}
			if id, ok := x.Fun.(*ast.Ident); ok && id.Name == "delete" && len(x.Args) == 2 && w.rootsInTable(x.Args[0]) {
				w.add("AWrite", m, x, "delete")
				// evaluating the map operand reads the outer table when it is indexed
				if ix, ok := x.Args[0].(*ast.IndexExpr); ok {
					w.add("ARead", m, ix, "index")
				}
				w.reads(x.Args[1], m)
				return false
			}
			if s, ok := x.Fun.(*ast.SelectorExpr); ok {
				// helper method on the receiver
				if id, ok := s.X.(*ast.Ident); ok && id.Name == w.recv && w.methods[s.Sel.Name] {
					w.calls[s.Sel.Name] = append(w.calls[s.Sel.Name], call{w.method, m, w.pos(x)})
				}
				// handler call: <listener>.Handler(...)
				if s.Sel.Name == "Handler" {
					w.add("ACall", m, x, "handler")
				}
			}
			return true
		case *ast.IndexExpr:
			if w.rootsInTable(x.X) {
				w.add("ARead", m, x, "index")
				w.reads(x.Index, m)
				return false
			}
		case *ast.SelectorExpr:
			if w.isRecvField(x, w.tblField) {
				w.add("ARead", m, x, "table")
				return false
			}
		case *ast.Ident:
			if w.alias[x.Name] {
				w.add("ARead", m, x, "alias "+x.Name)
			}
		}
		return true
	})
}

func (w *walker) block(stmts []ast.Stmt, m mode) mode {
	for _, st := range stmts {
		m = w.stmt(st, m)
	}
	return m
}

// nested: a nested block has to be lock-balanced
func (w *walker) nested(b *ast.BlockStmt, m mode) mode {
	if b == nil {
		return m
	}
	after := w.block(b.List, m)
	if after != m {
		// a return inside the block ends the function: look at the last statement
		if n := len(b.List); n > 0 {
			if _, ok := b.List[n-1].(*ast.ReturnStmt); ok {
				return m
			}
		}
		return mUnknown
	}
	return m
}

func (w *walker) closure(f *ast.FuncLit, m mode) {
	saveA, saveS := w.alias, w.snap
	w.nested(f.Body, m)
	w.alias, w.snap = saveA, saveS
}

func (w *walker) stmt(st ast.Stmt, m mode) mode {
	switch x := st.(type) {
	case *ast.ExprStmt:
		switch w.muCall(x.X) {
		case "Lock":
			if m != mNone {
				return mUnknown
			}
			return mW
		case "RLock":
			if m != mNone {
				return mUnknown
			}
			return mR
		case "Unlock":
			if m != mW {
				return mUnknown
			}
			return mNone
		case "RUnlock":
			if m != mR {
				return mUnknown
			}
			return mNone
		}
		if c, ok := x.X.(*ast.CallExpr); ok {
			if f, ok := c.Fun.(*ast.FuncLit); ok {
				w.closure(f, m)
			}
			if sel, ok := c.Fun.(*ast.SelectorExpr); ok && len(c.Args) == 1 {
				if id, ok := sel.X.(*ast.Ident); ok && id.Name == w.recv {
					if hm, isHelper := w.lockHelpers[sel.Sel.Name]; isHelper {
						if lit, ok := c.Args[0].(*ast.FuncLit); ok {
							if m != mNone {
								hm = mUnknown // a lock helper called while a lock is held
							}
							w.nested(lit.Body, hm) // in line: what it assigns to outer variables stays known
							return m
						}
						return mUnknown
					}
				}
			}
		}
		w.reads(x.X, m)
	case *ast.DeferStmt:
		switch w.muCall(x.Call) {
		case "Unlock", "RUnlock":
			return m // held until the function returns
		case "Lock", "RLock":
			return mUnknown
		}
		// runs at function exit: the mode held then is the current one when
		// the enclosing method never touches the mutex, otherwise not tracked
		dm := mUnknown
		if w.lockFree {
			dm = m
		}
		if f, ok := x.Call.Fun.(*ast.FuncLit); ok {
			w.closure(f, dm)
		} else {
			w.reads(x.Call, dm)
		}
	case *ast.GoStmt:
		if f, ok := x.Call.Fun.(*ast.FuncLit); ok {
			w.closure(f, mNone) // a new goroutine holds nothing
		} else {
			w.reads(x.Call, mNone)
		}
	case *ast.AssignStmt:
		for _, r := range x.Rhs {
			w.reads(r, m)
			if f, ok := r.(*ast.FuncLit); ok {
				w.closure(f, mUnknown)
			}
		}
		for i, l := range x.Lhs {
			switch lx := l.(type) {
			case *ast.IndexExpr:
				if w.rootsInTable(lx.X) {
					w.add("AWrite", m, lx, "store")
					w.reads(lx.Index, m)
					if inner, ok := lx.X.(*ast.IndexExpr); ok {
						w.reads(inner, m)
					}
					continue
				}
				w.reads(lx, m)
			case *ast.SelectorExpr:
				if w.isRecvField(lx, w.tblField) {
					w.add("AWrite", m, lx, "replace table")
					continue
				}
				w.reads(lx, m)
			case *ast.Ident:
				// alias / snapshot tracking
				var rhs ast.Expr
				if len(x.Rhs) == len(x.Lhs) {
					rhs = x.Rhs[i]
				} else if len(x.Rhs) == 1 && i == 0 {
					rhs = x.Rhs[0] // v, ok := m[k]
				}
				if rhs != nil && lx.Name != "_" {
					if w.rootsInTable(rhs) {
						w.alias[lx.Name] = true
					} else if c, ok := rhs.(*ast.CallExpr); ok {
						if id, ok := c.Fun.(*ast.Ident); ok && id.Name == "make" {
							// a fresh map that is about to be stored into the
							// table: writes through it are table writes
							if _, isMap := c.Args[0].(*ast.MapType); isMap {
								w.alias[lx.Name] = true
							}
						}
					}
				}
			}
		}
	case *ast.IncDecStmt:
		if ix, ok := x.X.(*ast.IndexExpr); ok && w.rootsInTable(ix.X) {
			w.add("AWrite", m, ix, "incdec")
		} else {
			w.reads(x.X, m)
		}
	case *ast.DeclStmt:
		w.reads(x, m)
	case *ast.ReturnStmt:
		for _, r := range x.Results {
			w.reads(r, m)
		}
	case *ast.IfStmt:
		if x.Init != nil {
			m = w.stmt(x.Init, m)
		}
		w.reads(x.Cond, m)
		a := w.nested(x.Body, m)
		b := m
		switch e := x.Else.(type) {
		case *ast.BlockStmt:
			b = w.nested(e, m)
		case *ast.IfStmt:
			b = w.stmt(e, m)
		}
		if a != m || b != m {
			return mUnknown
		}
	case *ast.ForStmt:
		if x.Init != nil {
			m = w.stmt(x.Init, m)
		}
		w.reads(x.Cond, m)
		if x.Post != nil {
			w.stmt(x.Post, m)
		}
		return w.nested(x.Body, m)
	case *ast.RangeStmt:
		if w.rootsInTable(x.X) {
			w.add("ARead", m, x.X, "range")
			if ix, ok := x.X.(*ast.IndexExpr); ok {
				w.reads(ix.Index, m)
			}
			// the loop body runs while the map is being iterated: every
			// statement of the body is a read of the table as well, at the
			// mode held there
			if id, ok := x.Value.(*ast.Ident); ok && id.Name != "_" {
				w.snap[id.Name] = true
			}
			after := w.block(x.Body.List, m)
			if after != m {
				return mUnknown
			}
			// iterating the live map while the lock is released inside the body
			// would show up as after != m or as an unlock in the body
			return m
		}
		w.reads(x.X, m)
		return w.nested(x.Body, m)
	case *ast.BlockStmt:
		return w.nested(x, m)
	case *ast.SwitchStmt:
		if x.Init != nil {
			m = w.stmt(x.Init, m)
		}
		w.reads(x.Tag, m)
		return w.clauses(x.Body, m)
	case *ast.TypeSwitchStmt:
		return w.clauses(x.Body, m)
	case *ast.SelectStmt:
		return w.clauses(x.Body, m)
	case *ast.LabeledStmt:
		return w.stmt(x.Stmt, m)
	case *ast.BranchStmt, *ast.EmptyStmt:
	case *ast.SendStmt:
		w.reads(x.Chan, m)
		w.reads(x.Value, m)
	default:
		// unsupported statement shape
		w.add("ARead", mUnknown, st, fmt.Sprintf("unsupported %T", st))
	}
	return m
}

func (w *walker) clauses(b *ast.BlockStmt, m mode) mode {
	res := m
	for _, c := range b.List {
		var body []ast.Stmt
		switch cc := c.(type) {
		case *ast.CaseClause:
			for _, e := range cc.List {
				w.reads(e, m)
			}
			body = cc.Body
		case *ast.CommClause:
			if cc.Comm != nil {
				w.stmt(cc.Comm, m)
			}
			body = cc.Body
		}
		after := w.block(body, m)
		if after != m {
			if n := len(body); n > 0 {
				if _, ok := body[n-1].(*ast.ReturnStmt); ok {
					continue
				}
			}
			res = mUnknown
		}
	}
	return res
}

func main() {
	out := flag.String("out", "", "directory of Generated/*.v")
	repo := flag.String("repo", "/repo", "repository root")
	flag.Parse()
	if *out == "" {
		fmt.Fprintln(os.Stderr, "facts_looplocks: -out required")
		os.Exit(2)
	}
	src := filepath.Join(*repo, "pkg/drivers/cdp/events/loop.go")
	var table []access
	var notes []string
	fail := func(msg string) {
		table = append(table, access{"?", "AWrite", mUnknown, 0, msg})
		notes = append(notes, msg)
	}
	fset := token.NewFileSet()
	f, err := parser.ParseFile(fset, src, nil, parser.ParseComments)
	if err != nil {
		fail("cannot parse " + src + ": " + err.Error())
	} else {
		table, notes = analyse(fset, f)
	}
	var sb strings.Builder
	sb.WriteString("(* GENERATED by harness/cmd/facts_looplocks from pkg/drivers/cdp/events/loop.go — do not edit.\n")
	sb.WriteString("   One row per access to the listener table (or handler call) in a method of Loop:\n")
	sb.WriteString("   method, kind, mode of Loop.mu held there, source line. *)\n")
	sb.WriteString("From Ferret Require Import Base Loop.\nLocal Open Scope string_scope.\n")
	sb.WriteString("Definition table : list lock_access := [\n")
	for i, a := range table {
		sep := ";"
		if i == len(table)-1 {
			sep = ""
		}
		fmt.Fprintf(&sb, "  mkAccess \"%s\" %s %s %d%%N%s  (* %s *)\n", a.method, a.kind, a.lock.coq(), a.line, sep, a.note)
	}
	sb.WriteString("].\n")
	for _, n := range notes {
		fmt.Fprintf(&sb, "(* note: %s *)\n", strings.ReplaceAll(n, "*)", "* )"))
	}
	if err := os.MkdirAll(*out, 0o755); err != nil {
		fmt.Fprintln(os.Stderr, err)
		os.Exit(2)
	}
	p := filepath.Join(*out, "GenLoopLocks.v")
	old, _ := os.ReadFile(p)
	if string(old) != sb.String() { // keep the timestamp when nothing changed (no needless rebuild)
		if err := os.WriteFile(p, []byte(sb.String()), 0o644); err != nil {
			fmt.Fprintln(os.Stderr, err)
			os.Exit(2)
		}
	}
	fmt.Printf("facts_looplocks: %d accesses from %s\n", len(table), src)
	for _, a := range table {
		fmt.Printf("  %-16s %-6s %-8s line %d (%s)\n", a.method, a.kind, a.lock.coq(), a.line, a.note)
	}
}

// lockHelperMode recognises  func (l *Loop) h(fn func()) { l.mu.Lock(); defer l.mu.Unlock(); fn() }
// and its RLock / explicit-unlock variants: nothing else may be in the body.
func lockHelperMode(fd *ast.FuncDecl, mu string) (mode, bool) {
	if fd.Type.Params == nil || len(fd.Type.Params.List) != 1 || len(fd.Type.Params.List[0].Names) != 1 || (fd.Type.Results != nil && len(fd.Type.Results.List) > 0) {
		return mNone, false
	}
	ft, ok := fd.Type.Params.List[0].Type.(*ast.FuncType)
	if !ok || (ft.Params != nil && len(ft.Params.List) > 0) || (ft.Results != nil && len(ft.Results.List) > 0) {
		return mNone, false
	}
	param := fd.Type.Params.List[0].Names[0].Name
	recv := ""
	if len(fd.Recv.List[0].Names) == 1 {
		recv = fd.Recv.List[0].Names[0].Name
	}
	muOp := func(e ast.Expr) string {
		c, ok := e.(*ast.CallExpr)
		if !ok || len(c.Args) != 0 {
			return ""
		}
		s, ok := c.Fun.(*ast.SelectorExpr)
		if !ok {
			return ""
		}
		f, ok := s.X.(*ast.SelectorExpr)
		if !ok || f.Sel.Name != mu {
			return ""
		}
		if id, ok := f.X.(*ast.Ident); !ok || id.Name != recv {
			return ""
		}
		return s.Sel.Name
	}
	var ops []string
	for _, st := range fd.Body.List {
		switch x := st.(type) {
		case *ast.ExprStmt:
			if op := muOp(x.X); op != "" {
				ops = append(ops, op)
				continue
			}
			if c, ok := x.X.(*ast.CallExpr); ok && len(c.Args) == 0 {
				if id, ok := c.Fun.(*ast.Ident); ok && id.Name == param {
					ops = append(ops, "call")
					continue
				}
			}
			return mNone, false
		case *ast.DeferStmt:
			if op := muOp(x.Call); op != "" {
				ops = append(ops, "defer "+op)
				continue
			}
			return mNone, false
		default:
			return mNone, false
		}
	}
	switch strings.Join(ops, ";") {
	case "Lock;defer Unlock;call", "Lock;call;Unlock":
		return mW, true
	case "RLock;defer RUnlock;call", "RLock;call;RUnlock":
		return mR, true
	}
	return mNone, false
}

func analyse(fset *token.FileSet, f *ast.File) ([]access, []string) {
	var notes []string
	// the struct: find the RWMutex field and the map-of-map field
	mu, tbl := "", ""
	for _, d := range f.Decls {
		gd, ok := d.(*ast.GenDecl)
		if !ok {
			continue
		}
		for _, sp := range gd.Specs {
			ts, ok := sp.(*ast.TypeSpec)
			if !ok || ts.Name.Name != "Loop" {
				continue
			}
			st, ok := ts.Type.(*ast.StructType)
			if !ok {
				continue
			}
			for _, fld := range st.Fields.List {
				if len(fld.Names) == 0 {
					continue
				}
				switch t := fld.Type.(type) {
				case *ast.SelectorExpr:
					if id, ok := t.X.(*ast.Ident); ok && id.Name == "sync" && (t.Sel.Name == "RWMutex" || t.Sel.Name == "Mutex") {
						mu = fld.Names[0].Name
						if t.Sel.Name == "Mutex" {
							notes = append(notes, "Loop.mu is a sync.Mutex: Lock is exclusive (LW)")
						}
					}
				case *ast.MapType:
					if _, inner := t.Value.(*ast.MapType); inner {
						tbl = fld.Names[0].Name
					}
				}
			}
		}
	}
	if mu == "" || tbl == "" {
		return []access{{"?", "AWrite", mUnknown, 0, "Loop struct: mutex or listener table field not found"}},
			[]string{"Loop struct: mutex or listener table field not found"}
	}
	methods := map[string]*ast.FuncDecl{}
	names := map[string]bool{}
	for _, d := range f.Decls {
		fd, ok := d.(*ast.FuncDecl)
		if !ok || fd.Recv == nil || len(fd.Recv.List) != 1 || fd.Body == nil {
			continue
		}
		t := fd.Recv.List[0].Type
		if s, ok := t.(*ast.StarExpr); ok {
			t = s.X
		}
		if id, ok := t.(*ast.Ident); !ok || id.Name != "Loop" {
			continue
		}
		methods[fd.Name.Name] = fd
		names[fd.Name.Name] = true
	}
	helpers := map[string]mode{}
	for name, fd := range methods {
		if hm, ok := lockHelperMode(fd, mu); ok {
			helpers[name] = hm
			notes = append(notes, fmt.Sprintf("Loop.%s runs its argument under %s", name, hm.coq()))
		}
	}
	per := map[string][]access{}
	calls := map[string][]call{}
	var order []string
	for name := range methods {
		order = append(order, name)
	}
	sort.Slice(order, func(i, j int) bool { return methods[order[i]].Pos() < methods[order[j]].Pos() })
	for _, name := range order {
		fd := methods[name]
		recv := "_"
		if len(fd.Recv.List[0].Names) == 1 {
			recv = fd.Recv.List[0].Names[0].Name
		}
		w := &walker{fset: fset, recv: recv, method: name, muField: mu, tblField: tbl,
			alias: map[string]bool{}, snap: map[string]bool{}, calls: calls, methods: names, lockHelpers: helpers}
		w.lockFree = true
		ast.Inspect(fd.Body, func(n ast.Node) bool {
			if e, ok := n.(ast.Expr); ok && w.muCall(e) != "" {
				w.lockFree = false
			}
			return true
		})
		w.block(fd.Body.List, mNone)
		per[name] = w.out
	}
	var table []access
	for _, name := range order {
		for _, a := range per[name] {
			exported := ast.IsExported(name)
			if a.lock == mNone && a.kind != "ACall" && !exported && len(calls[name]) > 0 {
				// helper without its own lock: attribute to the call sites
				for _, c := range calls[name] {
					table = append(table, access{c.from + ">" + name, a.kind, c.lock, a.line, a.note + fmt.Sprintf(", called at line %d", c.line)})
				}
				continue
			}
			if a.kind == "ACall" && !exported && len(calls[name]) > 0 {
				// a handler call in a helper is outside the lock only if every caller holds nothing
				worst := a.lock
				for _, c := range calls[name] {
					if c.lock != mNone && worst == mNone {
						worst = c.lock
					}
				}
				a.lock = worst
			}
			table = append(table, a)
		}
	}
	if len(table) == 0 {
		table = append(table, access{"?", "AWrite", mUnknown, 0, "no access to the listener table found"})
		notes = append(notes, "no access to the listener table found")
	}
	return table, notes
}
