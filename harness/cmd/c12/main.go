package main

// C12 — correspondence check: a compiled program is immutable, reusable and
// safe to run concurrently.
//
// A generator of core-language programs (literals, arithmetic, comparison,
// logical, ternary, ranges, member access, LET, FOR with FILTER / SORT / LIMIT /
// COLLECT / DISTINCT, sub-queries, a sample of library calls, @params) feeds
// one shared compiler.  Each program is compiled once and run
//   - 5 times in sequence with equal parameters,
//   - from 2-16 goroutines, several times each, with equal parameters,
//   - from 2-16 goroutines with a distinct parameter value per goroutine,
// while another goroutine keeps compiling the other programs on the same
// compiler.  Observations per program (sent to Coq, where the model predicts
// true for each): all sequential reruns returned the bytes of the first run;
// all concurrent equal-parameter runs returned those bytes; every
// distinct-parameter run returned exactly what a solo run with that value
// returns and echoed its own value; concurrent compilation agreed with
// sequential compilation.  Programs that draw random numbers (RANDOM_TOKEN,
// RAND) are run concurrently too but are outside the byte comparison.
//
// All of this happens in a child process; with a -race build (thorough tier)
// every race-detector report is a direct violation, as is a crash.

import (
	"bufio"
	"bytes"
	"context"
	"crypto/sha1"
	"encoding/hex"
	"encoding/json"
	"flag"
	"fmt"
	"math/rand"
	"os"
	"os/exec"
	"path/filepath"
	"regexp"
	"runtime"
	"sort"
	"strings"
	"sync"
	"time"

	. "verif/harness/common"

	"github.com/MontFerret/ferret/pkg/compiler"
	fruntime "github.com/MontFerret/ferret/pkg/runtime"
)

// ---------- program generator ----------

type gen struct {
	r     *rand.Rand
	nums  []string // numeric variables in scope
	arrs  []string // array variables in scope
	strs  []string
	kinds map[string]int
	seq   int
}

func (g *gen) pick(xs ...string) string { return xs[g.r.Intn(len(xs))] }
func (g *gen) use(k string)             { g.kinds[k]++ }
func (g *gen) fresh(p string) string    { g.seq++; return fmt.Sprintf("%s%d", p, g.seq) }

func (g *gen) num(d int) string {
	if d <= 0 {
		switch g.r.Intn(5) {
		case 0:
			g.use("param")
			return "@p"
		case 1:
			if len(g.nums) > 0 {
				g.use("var")
				return g.nums[g.r.Intn(len(g.nums))]
			}
		case 2:
			g.use("float")
			return g.pick("0.5", "1.25", "2.0", "3.75", "10.5")
		}
		g.use("int")
		return fmt.Sprint(g.r.Intn(20))
	}
	switch g.r.Intn(12) {
	case 0, 1:
		g.use("arith")
		return "(" + g.num(d-1) + " " + g.pick("+", "-", "*") + " " + g.num(d-1) + ")"
	case 2:
		g.use("arith")
		return "(" + g.num(d-1) + " % " + fmt.Sprint(2+g.r.Intn(5)) + ")"
	case 3:
		g.use("ternary")
		return "(" + g.boolean(d-1) + " ? " + g.num(d-1) + " : " + g.num(d-1) + ")"
	case 4:
		g.use("call")
		return "LENGTH(" + g.arr(d-1) + ")"
	case 5:
		g.use("call")
		return g.pick("SUM", "MAX", "MIN", "AVERAGE") + "(" + g.numArr(d-1) + ")"
	case 6:
		g.use("member")
		a := g.numArr(d - 1)
		if strings.HasPrefix(a, "[") || (len(a) > 0 && a[0] >= 'a' && a[0] <= 'z') {
			return a + "[" + fmt.Sprint(g.r.Intn(3)) + "]" // literal or variable
		}
		// (FOR …)[i] and a..b[i] are not in the grammar
		if g.r.Intn(3) == 0 {
			return "NTH(" + a + ", " + fmt.Sprint(g.r.Intn(3)) + ")"
		}
		return g.pick("FIRST(", "LAST(") + a + ")"
	case 7:
		g.use("member")
		return "{a: " + g.num(d-1) + ", b: " + g.num(d-1) + "}." + g.pick("a", "b")
	case 8:
		g.use("call")
		return g.pick("ABS", "FLOOR", "CEIL") + "(" + g.num(d-1) + ")"
	case 9:
		g.use("subquery")
		return "LENGTH(" + g.forq(d-1) + ")"
	case 10:
		g.use("call")
		return "LENGTH(" + g.str(d-1) + ")"
	case 11:
		if g.r.Intn(6) == 0 { // fails at run time exactly when @p = 7 (the value of the equal-parameter runs)
			g.use("runtime-error")
			return "(" + g.num(d-1) + " / (@p - 7))"
		}
	}
	return g.num(0)
}

func (g *gen) boolean(d int) string {
	if d <= 0 {
		g.use("bool")
		return g.pick("true", "false", "@p > 3", "@p % 2 == 0")
	}
	switch g.r.Intn(8) {
	case 0, 1, 2:
		g.use("compare")
		return "(" + g.num(d-1) + " " + g.pick("<", "<=", ">", ">=", "==", "!=") + " " + g.num(d-1) + ")"
	case 3:
		g.use("logical")
		return "(" + g.boolean(d-1) + " " + g.pick("AND", "OR", "&&", "||") + " " + g.boolean(d-1) + ")"
	case 4:
		g.use("logical")
		return "(NOT " + g.boolean(d-1) + ")"
	case 5:
		g.use("in")
		return "(" + g.num(d-1) + " " + g.pick("IN", "NOT IN") + " " + g.numArr(d-1) + ")"
	case 6:
		g.use("call")
		return "CONTAINS(" + g.str(d-1) + ", " + g.pick(`"a"`, `"b"`, `"1"`) + ")"
	}
	g.use("arrayop")
	return "(" + g.numArr(d-1) + " " + g.pick("ALL", "ANY", "NONE") + " " + g.pick("<", ">", "==") + " " + g.num(d-1) + ")"
}

func (g *gen) str(d int) string {
	if d <= 0 {
		switch g.r.Intn(4) {
		case 0:
			g.use("param")
			return "@q"
		case 1:
			if len(g.strs) > 0 {
				g.use("var")
				return g.strs[g.r.Intn(len(g.strs))]
			}
		}
		g.use("string")
		return g.pick(`"a"`, `"ab"`, `"Hello"`, `"x1"`, `""`)
	}
	switch g.r.Intn(6) {
	case 0:
		g.use("call")
		return "CONCAT(" + g.str(d-1) + ", " + g.str(d-1) + ")"
	case 1:
		g.use("call")
		return g.pick("UPPER", "LOWER", "TRIM") + "(" + g.str(d-1) + ")"
	case 2:
		g.use("call")
		return "SUBSTRING(" + g.str(d-1) + ", 0, " + fmt.Sprint(1+g.r.Intn(3)) + ")"
	case 3:
		g.use("call")
		return "TO_STRING(" + g.num(d-1) + ")"
	case 4:
		g.use("ternary")
		return "(" + g.boolean(d-1) + " ? " + g.str(d-1) + " : " + g.str(d-1) + ")"
	}
	return g.str(0)
}

func (g *gen) numArr(d int) string {
	if d <= 0 {
		if len(g.arrs) > 0 && g.r.Intn(2) == 0 {
			g.use("var")
			return g.arrs[g.r.Intn(len(g.arrs))]
		}
		if g.r.Intn(3) == 0 {
			g.use("range")
			if g.r.Intn(3) == 0 {
				return fmt.Sprintf("%d..@p", g.r.Intn(3))
			}
			return fmt.Sprintf("%d..%d", g.r.Intn(3), 3+g.r.Intn(5))
		}
		g.use("array")
		n := 3 + g.r.Intn(3)
		parts := make([]string, n)
		for i := range parts {
			parts[i] = g.num(0)
		}
		return "[" + strings.Join(parts, ", ") + "]"
	}
	switch g.r.Intn(7) {
	case 0:
		g.use("call")
		return g.pick("SORTED", "UNIQUE", "REVERSE", "SORTED_UNIQUE") + "(" + g.numArr(d-1) + ")"
	case 1:
		g.use("call")
		return g.pick("APPEND", "PUSH") + "(" + g.numArr(d-1) + ", " + g.num(d-1) + ")"
	case 2:
		g.use("call")
		// the element order of INTERSECTION / MINUS / OUTERSECTION is documented as undefined: sorted
		return "SORTED(" + g.pick("UNION", "UNION_DISTINCT", "INTERSECTION", "MINUS", "OUTERSECTION") + "(" + g.numArr(d-1) + ", " + g.numArr(d-1) + "))"
	case 3, 4:
		g.use("subquery")
		return g.forq(d - 1)
	case 5:
		g.use("call")
		return "SLICE(" + g.numArr(d-1) + ", " + fmt.Sprint(g.r.Intn(2)) + ", " + fmt.Sprint(1+g.r.Intn(3)) + ")"
	}
	return g.numArr(0)
}

func (g *gen) arr(d int) string {
	if g.r.Intn(4) == 0 {
		g.use("call")
		return "FLATTEN([" + g.numArr(d) + ", " + g.numArr(0) + "])"
	}
	return g.numArr(d)
}

// forq: a FOR sub-query over a numeric array, returning a numeric array
func (g *gen) forq(d int) string {
	x := g.fresh("x")
	var sb strings.Builder
	src := g.numArr(d)
	if strings.HasPrefix(src, "(") { // FOR x IN (FOR …) is not in the grammar
		src = "REVERSE(" + src + ")"
	}
	sb.WriteString("(FOR " + x + " IN " + src)
	saved := g.nums
	g.nums = append(append([]string{}, g.nums...), x)
	g.use("for")
	if g.r.Intn(2) == 0 {
		g.use("filter")
		sb.WriteString(" FILTER " + unparen(g.boolean(min(d, 1)))) // FILTER ( … is read as a call of FILTER
	}
	if g.r.Intn(4) == 0 {
		y := g.fresh("y")
		g.use("let-in-for")
		sb.WriteString(" LET " + y + " = " + g.num(min(d, 1)))
		g.nums = append(g.nums, y)
	}
	collected := false
	if g.r.Intn(5) == 0 {
		collected = true
		k := g.fresh("k")
		switch g.r.Intn(3) {
		case 0:
			g.use("collect")
			sb.WriteString(" COLLECT " + k + " = " + x + " % 3")
			g.nums = append(append([]string{}, saved...), k)
		case 1:
			c := g.fresh("c")
			g.use("collect-count")
			sb.WriteString(" COLLECT " + k + " = " + x + " % 3 WITH COUNT INTO " + c)
			g.nums = append(append([]string{}, saved...), k, c)
		default:
			m := g.fresh("m")
			g.use("collect-aggregate")
			sb.WriteString(" COLLECT " + k + " = " + x + " % 2 AGGREGATE " + m + " = MAX(" + x + ")")
			g.nums = append(append([]string{}, saved...), k, m)
		}
	}
	if g.r.Intn(3) == 0 {
		g.use("sort")
		sb.WriteString(" SORT " + g.nums[len(g.nums)-1] + g.pick("", " DESC", " ASC"))
	}
	if g.r.Intn(3) == 0 {
		g.use("limit")
		if g.r.Intn(2) == 0 {
			sb.WriteString(fmt.Sprintf(" LIMIT %d", 1+g.r.Intn(4)))
		} else {
			sb.WriteString(fmt.Sprintf(" LIMIT %d, %d", g.r.Intn(2), 1+g.r.Intn(4)))
		}
	}
	ret := g.num(min(d, 1))
	if !collected && g.r.Intn(2) == 0 {
		ret = x
	}
	if g.r.Intn(4) == 0 {
		g.use("distinct")
		sb.WriteString(" RETURN DISTINCT " + ret + ")")
	} else {
		sb.WriteString(" RETURN " + ret + ")")
	}
	g.nums = saved
	return sb.String()
}

// unparen strips one pair of parentheses that wraps the whole expression
func unparen(s string) string {
	if len(s) < 2 || s[0] != '(' || s[len(s)-1] != ')' {
		return s
	}
	depth := 0
	for i := 0; i < len(s); i++ {
		switch s[i] {
		case '(':
			depth++
		case ')':
			depth--
			if depth == 0 && i != len(s)-1 {
				return s
			}
		}
	}
	inner := s[1 : len(s)-1]
	if strings.HasPrefix(inner, "(") {
		return "true AND " + s
	}
	return inner
}

func min(a, b int) int {
	if a < b {
		return a
	}
	return b
}

type program struct {
	Text   string   `json:"text"`
	Random bool     `json:"random"`
	Kinds  []string `json:"kinds"`
}

func genProgram(r *rand.Rand, depth int, random bool) program {
	g := &gen{r: r, kinds: map[string]int{}}
	var sb strings.Builder
	nLet := r.Intn(4)
	for i := 0; i < nLet; i++ {
		switch r.Intn(3) {
		case 0:
			v := g.fresh("n")
			sb.WriteString("LET " + v + " = " + g.num(depth-1) + "\n")
			g.nums = append(g.nums, v)
		case 1:
			v := g.fresh("a")
			sb.WriteString("LET " + v + " = " + g.numArr(depth-1) + "\n")
			g.arrs = append(g.arrs, v)
		default:
			v := g.fresh("s")
			sb.WriteString("LET " + v + " = " + g.str(depth-1) + "\n")
			g.strs = append(g.strs, v)
		}
		g.use("let")
	}
	var body string
	switch r.Intn(4) {
	case 0:
		body = g.num(depth)
	case 1:
		body = g.arr(depth)
	case 2:
		body = g.str(depth)
	default:
		body = "[" + g.num(depth-1) + ", " + g.boolean(depth-1) + ", " + g.str(depth-1) + "]"
	}
	if random {
		g.use("random")
		sb.WriteString("RETURN { p: @p, q: @q, r: " + body + ", t: RANDOM_TOKEN(8), u: LENGTH(RANDOM_TOKEN(@p % 5 + 1)), v: (FOR i IN 1..3 RETURN RANDOM_TOKEN(4)), w: RAND() < 2, x: (FOR i IN 1..3 RETURN RAND(5, 1) >= 1) }")
	} else {
		// regular expressions with patterns that depend on the run's parameters (a shared
		// cache of compiled patterns shows up under concurrent runs); one program in four,
		// compiling a pattern is slow under the race detector
		rx := ""
		if g.r.Intn(4) == 0 {
			g.use("regex-dynamic-pattern")
			rx = `, rx: (FOR i IN 1..3 RETURN CONCAT(@q, TO_STRING(@p + i)) =~ CONCAT("^", @q, TO_STRING(@p + i), "x*$")), rn: @q !~ CONCAT("^zz", @q, TO_STRING(@p), "+$")`
		}
		// besides the generated body: node kinds whose per-run state depends on the
		// run's own parameters (computed member paths, LIMIT operands, DISTINCT
		// tables, glob patterns) - a cache on the expression tree shows up here
		sb.WriteString("RETURN { p: @p, q: @q, r: " + body + `, m: [11,22,33,44,55,66,77,88][@p % 8], mm: [[1,2],[3,4],[5,6]][@p % 3][@p % 2], mo: {k0: 1, k1: 2, k2: 3}[CONCAT("k", TO_STRING(@p % 3))], lw: (FOR i IN 1..9 LIMIT @p, 2 RETURN i), dw: (FOR i IN [1, 2, 2, @p, @p] RETURN DISTINCT i), lk: @q LIKE CONCAT(SUBSTRING(@q, 0, 1), "*")` + rx + " }")
	}
	var kinds []string
	for k := range g.kinds {
		kinds = append(kinds, k)
	}
	sort.Strings(kinds)
	return program{Text: sb.String(), Random: random, Kinds: kinds}
}

// ---------- observation ----------

type outcome struct {
	Bytes string
	Err   bool
}

func run(p *fruntime.Program, pv int, qv string) (o outcome) {
	defer func() {
		if r := recover(); r != nil {
			o = outcome{"panic-escaped", true}
		}
	}()
	b, err := p.Run(context.Background(), fruntime.WithParam("p", pv), fruntime.WithParam("q", qv), fruntime.WithLog(Discard))
	return outcome{string(b), err != nil}
}

type result struct {
	Idx        int    `json:"idx"`
	Compiled   bool   `json:"compiled"`
	Seq        bool   `json:"seq"`
	Conc       bool   `json:"conc"`
	Param      bool   `json:"param"`
	CompileOK  bool   `json:"compile_ok"`
	Goroutines int    `json:"goroutines"`
	Runs       int    `json:"runs"`
	First      string `json:"first"`
	Detail     string `json:"detail,omitempty"`
	ErrRun     bool   `json:"err_run"`
}

func echoOK(out string, pv int, qv string) bool {
	var m map[string]interface{}
	if json.Unmarshal([]byte(out), &m) != nil {
		return false
	}
	p, ok1 := m["p"].(float64)
	q, ok2 := m["q"].(string)
	return ok1 && ok2 && int(p) == pv && q == qv
}

// one second compiler per process for the reference copies (building a compiler
// registers the whole library, which is slow under the race detector); every
// reference still is the first run of its own freshly compiled program
var seqKnown = map[int]bool{} // program index -> compiles (on the second compiler, sequentially)
var refCompilerOnce sync.Once
var refCompilerV *compiler.Compiler

func refCompiler() *compiler.Compiler {
	refCompilerOnce.Do(func() { refCompilerV = compiler.New() })
	return refCompilerV
}

func observe(c *compiler.Compiler, progs []program, seqOK []bool, i int, seed int64) result {
	pr := progs[i]
	rng := rand.New(rand.NewSource(seed))
	res := result{Idx: i, Seq: true, Conc: true, Param: true, CompileOK: true}
	p, err := c.Compile(pr.Text)
	if err != nil {
		res.Detail = "compile: " + err.Error()
		return res
	}
	res.Compiled = true
	p0, q0 := 7, "q0"
	ref := run(p, p0, q0)
	res.First = ref.Bytes
	res.ErrRun = ref.Err
	res.Runs++
	note := func(s string) {
		if res.Detail == "" {
			res.Detail = s
		}
	}
	// 1. sequential reruns
	for k := 0; k < 4; k++ {
		o := run(p, p0, q0)
		res.Runs++
		if !pr.Random && o != ref {
			res.Seq = false
			note(fmt.Sprintf("sequential rerun %d returned %q (err=%v), first run returned %q (err=%v)", k+2, o.Bytes, o.Err, ref.Bytes, ref.Err))
		}
	}
	if !ref.Err && !echoOK(ref.Bytes, p0, q0) {
		res.Param = false
		note(fmt.Sprintf("first run with @p=%d @q=%q returned %q", p0, q0, ref.Bytes))
	}
	G := 2 + rng.Intn(15)
	K := 1 + rng.Intn(3)
	res.Goroutines = G
	// solo references for the distinct-parameter phase
	// each reference comes from its own first run of a program compiled afresh on
	// another compiler: a value cached on the shared program's expression tree by
	// the runs above cannot leak into the reference
	refs := make([]outcome, G)
	for g := 0; g < G; g++ {
		fp, ferr := refCompiler().Compile(pr.Text)
		if ferr != nil {
			fp = p
		}
		refs[g] = run(fp, 100+g, fmt.Sprintf("g%d", g))
		res.Runs++
		if !pr.Random {
			if o := run(p, 100+g, fmt.Sprintf("g%d", g)); o != refs[g] {
				res.Param = false
				note(fmt.Sprintf("a later sequential run with @p=%d @q=%q returned %q (err=%v); the first run of a freshly compiled copy with these parameters returns %q (err=%v)", 100+g, fmt.Sprintf("g%d", g), o.Bytes, o.Err, refs[g].Bytes, refs[g].Err))
			}
			res.Runs++
		}
	}
	// a goroutine that keeps compiling on the same compiler: six programs near this
	// one, whose sequential verdict comes from the second compiler (computed here, so
	// that a restarted worker does not have to compile every program first)
	var cands []int
	for d := 1; d <= 6; d++ {
		j := (i + d*7) % len(progs)
		if _, done := seqKnown[j]; !done {
			q, err := refCompiler().Compile(progs[j].Text)
			seqKnown[j] = err == nil && q != nil
		}
		seqOK[j] = seqKnown[j]
		cands = append(cands, j)
	}
	stop := make(chan struct{})
	var cwg sync.WaitGroup
	var cmu sync.Mutex
	cwg.Add(1)
	go func() {
		defer cwg.Done()
		crng := rand.New(rand.NewSource(seed ^ 0x5bd1e995))
		for n := 0; ; n++ {
			select {
			case <-stop:
				return
			default:
			}
			j := cands[crng.Intn(len(cands))]
			q, err := c.Compile(progs[j].Text)
			if (err == nil && q != nil) != seqOK[j] {
				cmu.Lock()
				res.CompileOK = false
				if res.Detail == "" {
					res.Detail = fmt.Sprintf("compilation of program %d concurrently with runs: ok=%v (%v), sequentially: ok=%v", j, err == nil, err, seqOK[j])
				}
				cmu.Unlock()
			}
			if n%4 == 0 {
				runtime.Gosched()
			}
		}
	}()
	// 2. concurrent, equal parameters
	var wg sync.WaitGroup
	var mu sync.Mutex
	start := make(chan struct{})
	for g := 0; g < G; g++ {
		wg.Add(1)
		go func(g int) {
			defer wg.Done()
			<-start
			for k := 0; k < K; k++ {
				if (g+k)%3 == 0 {
					runtime.Gosched()
				}
				o := run(p, p0, q0)
				mu.Lock()
				res.Runs++
				if !pr.Random && o != ref {
					res.Conc = false
					if res.Detail == "" {
						res.Detail = fmt.Sprintf("goroutine %d of %d, concurrent run %d with equal parameters returned %q (err=%v), first run returned %q (err=%v)", g, G, k, o.Bytes, o.Err, ref.Bytes, ref.Err)
					}
				}
				mu.Unlock()
			}
		}(g)
	}
	close(start)
	wg.Wait()
	// 3. concurrent, one parameter value per goroutine
	start = make(chan struct{})
	for g := 0; g < G; g++ {
		wg.Add(1)
		go func(g int) {
			defer wg.Done()
			<-start
			pv, qv := 100+g, fmt.Sprintf("g%d", g)
			for k := 0; k < K; k++ {
				if (g+k)%2 == 0 {
					runtime.Gosched()
				}
				o := run(p, pv, qv)
				mu.Lock()
				res.Runs++
				bad := false
				if !o.Err && !echoOK(o.Bytes, pv, qv) {
					bad = true
				}
				if !pr.Random && o != refs[g] {
					bad = true
				}
				if bad {
					res.Param = false
					if res.Detail == "" {
						res.Detail = fmt.Sprintf("goroutine %d of %d ran with @p=%d @q=%q and got %q (err=%v); a solo run with these parameters returns %q (err=%v)", g, G, pv, qv, o.Bytes, o.Err, refs[g].Bytes, refs[g].Err)
					}
				}
				mu.Unlock()
			}
		}(g)
	}
	close(start)
	wg.Wait()
	// 4. concurrent first use of parameter values this process has never seen (the
	// references above were run one after the other and would have warmed any
	// process-wide cache keyed by a value): only the parameter echo is compared;
	// what this phase exposes is a race / crash on shared state
	start = make(chan struct{})
	for g := 0; g < G; g++ {
		wg.Add(1)
		go func(g int) {
			defer wg.Done()
			<-start
			pv, qv := 100+g, fmt.Sprintf("n%dx%d", i, g) // @p stays small (it bounds ranges), @q is new
			o := run(p, pv, qv)
			mu.Lock()
			res.Runs++
			if !o.Err && !echoOK(o.Bytes, pv, qv) {
				res.Param = false
				if res.Detail == "" {
					res.Detail = fmt.Sprintf("goroutine %d of %d ran with fresh parameters @p=%d @q=%q and got %q", g, G, pv, qv, o.Bytes)
				}
			}
			mu.Unlock()
		}(g)
	}
	close(start)
	wg.Wait()
	// 5. cold start: a freshly compiled copy that has never run is started from all goroutines
	// at once (whatever a node initialises lazily on its first execution happens concurrently)
	if cold, cerr := refCompiler().Compile(pr.Text); cerr == nil {
		start = make(chan struct{})
		for g := 0; g < G; g++ {
			wg.Add(1)
			go func(g int) {
				defer wg.Done()
				<-start
				o := run(cold, p0, q0)
				mu.Lock()
				res.Runs++
				if !pr.Random && o != ref {
					res.Conc = false
					if res.Detail == "" {
						res.Detail = fmt.Sprintf("goroutine %d of %d, first concurrent run of a freshly compiled copy returned %q (err=%v), a run alone returns %q (err=%v)", g, G, o.Bytes, o.Err, ref.Bytes, ref.Err)
					}
				}
				mu.Unlock()
			}(g)
		}
		close(start)
		wg.Wait()
	}
	close(stop)
	cwg.Wait()
	_ = note
	return res
}

// ---------- worker / parent ----------

func worker(args []string) {
	fs := flag.NewFlagSet("worker", flag.ExitOnError)
	in := fs.String("i", "", "")
	outp := fs.String("o", "", "")
	from := fs.Int("from", 0, "")
	to := fs.Int("to", -1, "")
	seed := fs.Int64("seed", 1, "")
	Must(fs.Parse(args))
	b, err := os.ReadFile(*in)
	Must(err)
	var progs []program
	Must(json.Unmarshal(b, &progs))
	c := compiler.New()
	seqOK := make([]bool, len(progs))
	f, err := os.OpenFile(*outp, os.O_APPEND|os.O_CREATE|os.O_WRONLY, 0o644)
	Must(err)
	w := bufio.NewWriter(f)
	for i := *from; i < len(progs) && (*to < 0 || i < *to); i++ {
		fmt.Fprintf(os.Stderr, "@program %d\n", i)
		r := observe(c, progs, seqOK, i, *seed*7919+int64(i))
		jb, _ := json.Marshal(r)
		w.Write(jb)
		w.WriteByte('\n')
		w.Flush()
	}
	Must(f.Close())
}

var raceHead = regexp.MustCompile(`(?m)^WARNING: DATA RACE`)
var frameRe = regexp.MustCompile(`(?m)^\s+(github\.com/MontFerret/ferret/[^\s(]+(?:\([^)]*\))?[^\s(]*)\(`)
var progRe = regexp.MustCompile(`@program (\d+)`)

type raceRep struct {
	key, text string
	prog      int
}

func raceReports(stderr string) []raceRep {
	var res []raceRep
	seen := map[string]bool{}
	idx := raceHead.FindAllStringIndex(stderr, -1)
	for i, m := range idx {
		end := len(stderr)
		if i+1 < len(idx) {
			end = idx[i+1][0]
		}
		rep := stderr[m[0]:end]
		if j := strings.Index(rep, "=================="); j > 0 {
			rep = rep[:j]
		}
		var tops []string
		for _, sec := range strings.Split(rep, "\n\n") {
			t := strings.TrimSpace(sec)
			if strings.HasPrefix(t, "Goroutine") {
				continue
			}
			if fm := frameRe.FindStringSubmatch(sec); fm != nil {
				name := fm[1]
				if k := strings.LastIndex(name, "/"); k >= 0 {
					name = name[k+1:]
				}
				tops = append(tops, name)
			}
		}
		sort.Strings(tops)
		var ded []string
		for i, x := range tops {
			if i == 0 || x != tops[i-1] {
				ded = append(ded, x)
			}
		}
		key := strings.Join(ded, " / ")
		if key == "" {
			key = "outside ferret"
		}
		if seen[key] {
			continue
		}
		seen[key] = true
		prog := -1
		for _, mm := range progRe.FindAllStringSubmatch(stderr[:m[0]], -1) {
			fmt.Sscan(mm[1], &prog)
		}
		if len(rep) > 2500 {
			rep = rep[:2500]
		}
		res = append(res, raceRep{key, rep, prog})
	}
	return res
}

func main() {
	if len(os.Args) > 1 && os.Args[1] == "-worker" {
		worker(os.Args[2:])
		return
	}
	out, tier, seed, _ := Args()
	nProg, depth := 260, 3
	if tier == "thorough" {
		nProg, depth = 8000, 4
	}
	rng := rand.New(rand.NewSource(seed))
	m := NewMeta("C12", tier, seed)
	m.Rule = "one evaluation = one generated program compiled once on the shared compiler and run 5 times sequentially, from 2-16 goroutines (1-3 runs each) with equal parameters and again with one parameter value per goroutine, and once more with parameter values never used before in the process, and a never-run freshly compiled copy started from all goroutines at once, while another goroutine compiles other programs on the same compiler; non-trivial = the program compiles, its first run succeeds and it is inside the byte comparison; distinct = distinct program texts"
	progs := make([]program, nProg)
	for i := range progs {
		d := 1 + rng.Intn(depth)
		progs[i] = genProgram(rng, d, i%12 == 5)
	}
	pb, _ := json.Marshal(progs)
	pin := filepath.Join(out, "programs.json")
	Must(os.WriteFile(pin, pb, 0o644))
	rout := filepath.Join(out, "results.jsonl")
	os.Remove(rout)

	var direct []map[string]interface{}
	addDirect := func(d map[string]interface{}) {
		for _, e := range direct {
			if e["key"] == d["key"] {
				return
			}
		}
		direct = append(direct, d)
	}
	env := append(os.Environ(), "GORACE=halt_on_error=0 exitcode=0 history_size=2")
	// the programs are split into contiguous shards, one worker process each (a worker
	// is restarted after the program that killed it); compiling is slow under the race
	// detector and a worker runs its programs one after the other
	nShards := 1
	if tier == "thorough" {
		nShards = 6
	}
	var dmu sync.Mutex
	var swg sync.WaitGroup
	for sh := 0; sh < nShards; sh++ {
		swg.Add(1)
		go func(lo, hi int, rout string) {
			defer swg.Done()
			os.Remove(rout)
			from := lo
			for attempts := 0; from < hi && attempts < 12; attempts++ {
				ctx, cancel := context.WithTimeout(context.Background(), 20*time.Minute)
				cmd := exec.CommandContext(ctx, os.Args[0], "-worker", "-i", pin, "-o", rout, "-from", fmt.Sprint(from), "-to", fmt.Sprint(hi), "-seed", fmt.Sprint(seed))
				cmd.Env = env
				var eb bytes.Buffer
				cmd.Stderr = &eb
				cmd.Stdout = &eb
				err := cmd.Run()
				timedOut := ctx.Err() == context.DeadlineExceeded
				cancel()
				stderr := eb.String()
				dmu.Lock()
				for _, r := range raceReports(stderr) {
					text := ""
					if r.prog >= 0 && r.prog < len(progs) {
						text = progs[r.prog].Text
					}
					addDirect(map[string]interface{}{"key": "race: " + r.key, "kind": "schedule-log", "kinds": []string{"race"}, "tags": []string{"race"},
						"what":   fmt.Sprintf("data race reported by the race detector (%s) while program %d was run from several goroutines: %s", r.key, r.prog, oneLine(text, 300)),
						"report": r.text, "program": text, "seed": seed})
					m.Count("direct:race")
				}
				last := -1
				for _, mm := range progRe.FindAllStringSubmatch(stderr, -1) {
					fmt.Sscan(mm[1], &last)
				}
				if err == nil && !timedOut {
					dmu.Unlock()
					break
				}
				what := "crash"
				line := ""
				if timedOut {
					what, line = "hang", "no result within 20 minutes"
				} else {
					for _, l := range strings.Split(stderr, "\n") {
						if strings.HasPrefix(l, "fatal error:") || strings.HasPrefix(l, "panic:") {
							line = l
							break
						}
					}
					if line == "" {
						line = err.Error()
					}
				}
				text := ""
				if last >= 0 && last < len(progs) {
					text = progs[last].Text
				}
				snippet := stderr
				if j := strings.Index(snippet, line); j >= 0 {
					snippet = snippet[j:]
				}
				if len(snippet) > 3000 {
					snippet = snippet[:3000]
				}
				addDirect(map[string]interface{}{"key": what + ": " + line, "kind": "input", "kinds": []string{what}, "tags": []string{what},
					"what": fmt.Sprintf("%s while program %d was run concurrently: %s", line, last, oneLine(text, 300)), "program": text, "output": snippet, "seed": seed})
				m.Count("direct:" + what)
				if last < from {
					last = from
				}
				from = last + 1
				dmu.Unlock()
			}
		}(sh*nProg/nShards, (sh+1)*nProg/nShards, fmt.Sprintf("%s.%d", rout, sh))
	}
	swg.Wait()

	// collect the observations
	results := map[int]result{}
	for sh := 0; sh < nShards; sh++ {
		if f, err := os.Open(fmt.Sprintf("%s.%d", rout, sh)); err == nil {
			sc := bufio.NewScanner(f)
			sc.Buffer(make([]byte, 1<<20), 1<<26)
			for sc.Scan() {
				var r result
				if json.Unmarshal(sc.Bytes(), &r) == nil {
					results[r.Idx] = r
				}
			}
			f.Close()
		}
	}
	var obs strings.Builder
	distinct := map[string]struct{}{}
	var index []interface{}
	for i, pr := range progs {
		r, ok := results[i]
		code := 0
		switch {
		case !ok:
			code = 8 // killed the worker: reported as a direct violation, outside the comparison
			m.Count("outcome:no-result")
		case !r.Compiled:
			code = 8
			m.Count("outcome:compile-error")
		default:
			if r.Seq {
				code |= 1
			}
			if r.Conc {
				code |= 2
			}
			if r.Param {
				code |= 4
			}
			if r.CompileOK {
				code |= 16
			}
			if pr.Random {
				m.Count("outcome:random (outside the byte comparison)")
			} else if r.ErrRun {
				m.Count("outcome:runtime-error")
			} else {
				m.Count("outcome:ok")
				sum := sha1.Sum([]byte(pr.Text))
				distinct[hex.EncodeToString(sum[:])] = struct{}{}
			}
			m.Evaluations++
			m.Count(fmt.Sprintf("goroutines:%s", gbucket(r.Goroutines)))
			m.Extra["runs"] = asInt(m.Extra["runs"]) + r.Runs
		}
		obs.WriteByte(byte(48 + code))
		for _, k := range pr.Kinds {
			m.Count("uses:" + k)
		}
		index = append(index, map[string]interface{}{"text": pr.Text, "kinds": pr.Kinds, "random": pr.Random,
			"detail": r.Detail, "first": oneLine(r.First, 200), "goroutines": r.Goroutines})
	}
	f, err := os.Create(filepath.Join(out, "cases.v"))
	Must(err)
	w := bufio.NewWriter(f)
	fmt.Fprintln(w, "From Ferret Require Import Check.C12.")
	w.WriteString("Definition OBS : string := \"" + CoqEscape(obs.String()) + "\"%string.\n")
	fmt.Fprintln(w, "Definition M := Eval vm_compute in mismatches OBS.")
	fmt.Fprintln(w, "Print M.")
	Must(w.Flush())
	Must(f.Close())
	m.Files = []string{"cases.v"}
	m.DistinctNontrivial = len(distinct)
	m.Index["programs"] = index
	for _, i := range []int{0, 5, nProg / 2} {
		if i < len(progs) {
			r := results[i]
			m.Samples = append(m.Samples, map[string]interface{}{"program": progs[i].Text, "first_run": oneLine(r.First, 200),
				"goroutines": r.Goroutines, "runs": r.Runs, "seq": r.Seq, "conc": r.Conc, "param": r.Param})
		}
	}
	m.Extra["direct_violations"] = direct
	m.Extra["race_detector"] = raceEnabled
	m.Write(out)
}

func asInt(x interface{}) int {
	if v, ok := x.(int); ok {
		return v
	}
	return 0
}

func gbucket(g int) string {
	switch {
	case g <= 4:
		return "2-4"
	case g <= 8:
		return "5-8"
	}
	return "9-16"
}

func oneLine(s string, n int) string {
	s = strings.Join(strings.Fields(s), " ")
	if len(s) > n {
		s = s[:n] + "…"
	}
	return s
}
