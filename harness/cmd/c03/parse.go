package main

import (
	"github.com/MontFerret/ferret/pkg/runtime/core"
	"github.com/MontFerret/ferret/pkg/runtime/values"
)

// valuesParse builds the run-time value the harness expects a parameter to
// become, independently of values.Parse (only the plain kinds used here).
func valuesParse(v interface{}) core.Value {
	switch x := v.(type) {
	case nil:
		return values.None
	case bool:
		return values.NewBoolean(x)
	case int:
		return values.NewInt(x)
	case float64:
		return values.NewFloat(x)
	case string:
		return values.NewString(x)
	case []interface{}:
		a := values.NewArray(len(x))
		for _, e := range x {
			a.Push(valuesParse(e))
		}
		return a
	case map[string]interface{}:
		o := values.NewObject()
		for k, e := range x {
			o.Set(values.NewString(k), valuesParse(e))
		}
		return o
	}
	return values.None
}
