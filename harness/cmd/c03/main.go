package main

// C03: static name resolution. Programs whose variable references are drawn
// inside or outside the visible set; observation: compiled? scope error at run time?

import (
	"bufio"
	"fmt"
	"math/rand"
	"os"
	"path/filepath"
	"strings"

	"github.com/MontFerret/ferret/pkg/compiler"

	. "verif/harness/common"
	"verif/harness/fqlast"
	"verif/harness/fqlrun"
)

type paramSet struct {
	go_ map[string]interface{}
	coq string
}

func paramSets() []paramSet {
	mk := func(n int, arr []interface{}, obj map[string]interface{}, s string, f float64) paramSet {
		big := make([]interface{}, 30)
		for i := range big {
			big[i] = map[string]interface{}{"a": (i * 7) % 3, "b": i % 2, "k": i}
		}
		g := map[string]interface{}{"n": n, "arr": arr, "obj": obj, "s": s, "f": f, "big": big}
		coq := fmt.Sprintf(`[(hx "6e", %s); (hx "617272", %s); (hx "6f626a", %s); (hx "73", %s); (hx "66", %s); (hx "626967", %s)]`,
			goToCoq(n), goToCoq(arr), goToCoq(obj), goToCoq(s), goToCoq(f), goToCoq(big))
		return paramSet{g, coq}
	}
	return []paramSet{
		mk(2, []interface{}{3, 1, 2, 1}, map[string]interface{}{"a": 1, "b": "x", "list": []interface{}{1, 2}, "k": map[string]interface{}{"a": 5}}, "k", 1.5),
		mk(0, []interface{}{}, map[string]interface{}{}, "", 0.5),
		mk(3, []interface{}{"b", 2, nil, true, 2.5, []interface{}{1}, map[string]interface{}{"a": 1}}, map[string]interface{}{"a": []interface{}{10, 20}, "list": []interface{}{"p", "q", "p"}, "c": nil}, "a", -2.0),
		mk(1, []interface{}{map[string]interface{}{"a": 2, "b": 1}, map[string]interface{}{"a": 1, "b": 1}, map[string]interface{}{"a": 2, "b": 0}}, map[string]interface{}{"list": []interface{}{5, 4, 5, 3}, "k": "v", "b": 7}, "b", 4.0),
	}
}

func main() {
	out, tier, seed, _ := Args()
	rng := rand.New(rand.NewSource(seed))
	n, depth, per := 3000, 4, 250
	if tier == "thorough" {
		n, depth, per = 40000, 6, 400
	}
	m := NewMeta("C03", tier, seed)
	m.Rule = "random nesting of FOR / FOR-WHILE / LET / COLLECT (six forms) / sub-queries; every variable reference is drawn from the visible set or (1 in 6) from all names declared anywhere or nowhere; declarations reuse existing names (1 in 7: legal shadowing or illegal redeclaration); ignore variable _ as loop variable / LET target; LIMIT operands that are variables; a case is non-trivial when it declares a variable; distinct = distinct query text; plus WAITFOR EVENT queries (compiled only) whose operands mention declared variables, undeclared ones and the pseudo variable CURRENT"
	c := compiler.New()
	fqlrun.Register(c)
	psets := paramSets()
	distinct := map[string]struct{}{}
	var w *bufio.Writer
	var f *os.File
	var files []string
	var idx []interface{}
	open := func(k int) {
		name := fmt.Sprintf("cases%03d.v", k)
		var err error
		f, err = os.Create(filepath.Join(out, name))
		Must(err)
		w = bufio.NewWriterSize(f, 1<<20)
		fmt.Fprintln(w, "From Ferret Require Import Eval StaticScope Check.C03.")
		fmt.Fprintln(w, "Definition cases : list (program * list (name * value) * cobs) := [")
		files = append(files, name)
	}
	closeFile := func() {
		fmt.Fprintln(w, "].")
		fmt.Fprintln(w, "Definition M := Eval vm_compute in mismatches cases.")
		fmt.Fprintln(w, "Print M.")
		Must(w.Flush())
		Must(f.Close())
	}
	inFile := 0
	for i := 0; i < n; i++ {
		if inFile == 0 {
			open(len(files))
		}
		g := fqlast.NewGen(rng, 1+rng.Intn(depth))
		g.Wild, g.Redecl, g.Ignore, g.LimitVar, g.Faulty = 6, 7, 8, 3, 0
		if i%5 == 0 {
			g.Wild, g.Redecl = 0, 0 // a share of certainly well-scoped programs
		}
		p := g.Program()
		for k, v := range g.Stats {
			m.Distribution[k] += v
		}
		q := p.FQL()
		ps := psets[rng.Intn(len(psets))]
		o := fqlrun.Run(c, q, ps.go_, -1, false)
		obs := "CAcceptRunOk"
		switch {
		case o.Class == "compile-error" && (strings.Contains(o.Err, "variable not found") || strings.Contains(o.Err, "variable is already defined") || strings.Contains(o.Err, "not found: variable") || strings.Contains(o.Err, "not unique")):
			obs = "CRejectScope"
		case o.Class == "compile-error":
			obs = "CRejectOther"
		case o.ErrKind == "scope-notfound" || o.ErrKind == "scope-notunique" || o.ErrKind == "scope-unnamed":
			obs = "CAcceptRunScopeErr"
		}
		m.Count("obs:" + obs)
		m.Count("outcome:" + o.Class)
		sep := ";"
		if inFile == per-1 || i == n-1 {
			sep = ""
		}
		fmt.Fprintf(w, " (%s,\n  %s,\n  %s)%s\n", p.Coq(), ps.coq, obs, sep)
		idx = append(idx, map[string]interface{}{"file": files[len(files)-1], "i": inFile, "query": q, "params": ps.go_, "class": o.Class, "err": o.Err, "json": string(o.JSON)})
		m.Evaluations++
		if strings.Contains(q, "LET") || strings.Contains(q, "FOR") {
			distinct[q+"|"+ps.coq] = struct{}{}
		}
		if i < 4 {
			m.Samples = append(m.Samples, map[string]interface{}{"query": q, "outcome": o.Class, "json": string(o.JSON)})
		}
		inFile++
		if inFile == per || i == n-1 {
			closeFile()
			inFile = 0
		}
	}
	m.DistinctNontrivial = len(distinct)
	nWait := 400
	if tier == "thorough" {
		nWait = 4000
	}
	m.Index["waitfor"] = waitCases(c, out, m, rng, nWait)
	m.Files = append(files, "casesw.v")
	m.Index["cases"] = idx
	m.Write(out)
}

// goToCoq renders plain Go data (ints, floats, strings, nil, bools, slices,
// string-keyed maps) as a model value.
func goToCoq(v interface{}) string {
	return CoqValue(valuesParse(v))
}
