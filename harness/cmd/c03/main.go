package main

// C03: static name resolution. Programs whose variable references are drawn
// inside or outside the visible set; observation: compiled? scope error at run time?

import (
	"bufio"
	"fmt"
	"math/rand"
	"os"
	"path/filepath"
	"strings"

	"github.com/MontFerret/ferret/pkg/compiler"

	. "verif/harness/common"
	"verif/harness/fqlast"
	"verif/harness/fqlrun"
)

type paramSet struct {
	go_ map[string]interface{}
	coq string
}

func paramSets() []paramSet {
	mk := func(n int, arr []interface{}, obj map[string]interface{}, s string, f float64) paramSet {
		big := make([]interface{}, 30)
		for i := range big {
			big[i] = map[string]interface{}{"a": (i * 7) % 3, "b": i % 2, "k": i}
		}
		g := map[string]interface{}{"n": n, "arr": arr, "obj": obj, "s": s, "f": f, "big": big}
		coq := fmt.Sprintf(`[(hx "6e", %s); (hx "617272", %s); (hx "6f626a", %s); (hx "73", %s); (hx "66", %s); (hx "626967", %s)]`,
			goToCoq(n), goToCoq(arr), goToCoq(obj), goToCoq(s), goToCoq(f), goToCoq(big))
		return paramSet{g, coq}
	}
	return []paramSet{
		mk(2, []interface{}{3, 1, 2, 1}, map[string]interface{}{"a": 1, "b": "x", "list": []interface{}{1, 2}, "k": map[string]interface{}{"a": 5}}, "k", 1.5),
		mk(0, []interface{}{}, map[string]interface{}{}, "", 0.5),
		mk(3, []interface{}{"b", 2, nil, true, 2.5, []interface{}{1}, map[string]interface{}{"a": 1}}, map[string]interface{}{"a": []interface{}{10, 20}, "list": []interface{}{"p", "q", "p"}, "c": nil}, "a", -2.0),
		mk(1, []interface{}{map[string]interface{}{"a": 2, "b": 1}, map[string]interface{}{"a": 1, "b": 1}, map[string]interface{}{"a": 2, "b": 0}}, map[string]interface{}{"list": []interface{}{5, 4, 5, 3}, "k": "v", "b": 7}, "b", 4.0),
	}
}

func main() {
	out, tier, seed, _ := Args()
	rng := rand.New(rand.NewSource(seed))
	n, depth, per := 3000, 4, 250
	if tier == "thorough" {
		n, depth, per = 40000, 6, 400
	}
	m := NewMeta("C03", tier, seed)
	m.Rule = "random nesting of FOR / FOR-WHILE / LET / COLLECT (six forms) / sub-queries; every variable reference is drawn from the visible set or (1 in 6) from all names declared anywhere or nowhere; declarations reuse existing names (1 in 7: legal shadowing or illegal redeclaration); ignore variable _ as loop variable / LET target; LIMIT operands that are variables; a case is non-trivial when it declares a variable; distinct = distinct query text; plus WAITFOR EVENT queries (compiled only) whose operands mention declared variables, undeclared ones and the pseudo variable CURRENT"
	c := compiler.New()
	fqlrun.Register(c)
	psets := paramSets()
	distinct := map[string]struct{}{}
	var w *bufio.Writer
	var f *os.File
	var files []string
	var idx []interface{}
	open := func(k int) {
		name := fmt.Sprintf("cases%03d.v", k)
		var err error
		f, err = os.Create(filepath.Join(out, name))
		Must(err)
		w = bufio.NewWriterSize(f, 1<<20)
		fmt.Fprintln(w, "From Ferret Require Import Eval StaticScope Check.C03.")
		fmt.Fprintln(w, "Definition cases : list (program * list (name * value) * cobs) := [")
		files = append(files, name)
	}
	closeFile := func() {
		fmt.Fprintln(w, "].")
		fmt.Fprintln(w, "Definition M := Eval vm_compute in mismatches cases.")
		fmt.Fprintln(w, "Print M.")
		Must(w.Flush())
		Must(f.Close())
	}
	inFile := 0
	// directed programs, always run first: the default INTO projection after an earlier COLLECT
	// of the same loop, FOR-WHILE conditions that mention the loop's own counter, the ignore variable
	arr122 := fqlast.Arr(fqlast.Int(1), fqlast.Int(2), fqlast.Int(2))
	collect := func(groups []fqlast.Group, tail fqlast.Tail) fqlast.Clause {
		return fqlast.Clause{K: "collect", Groups: groups, Tail: tail}
	}
	forIn := func(v string, body []fqlast.Clause, ret *fqlast.E) *fqlast.Program {
		return &fqlast.Program{For: &fqlast.For{Val: v, Src: arr122, Body: body, Ret: &fqlast.Ret{E: ret}}}
	}
	while := func(v string, do bool, cond *fqlast.E, stmts ...fqlast.Stmt) *fqlast.Program {
		return &fqlast.Program{Stmts: stmts, For: &fqlast.For{While: true, DoFirst: do, Val: v, Cond: cond, Ret: &fqlast.Ret{E: fqlast.Var(v)}}}
	}
	corpus := []*fqlast.Program{
		forIn("i", []fqlast.Clause{collect([]fqlast.Group{{Name: "a", E: fqlast.Var("i")}}, fqlast.Tail{}), collect([]fqlast.Group{{Name: "b", E: fqlast.Var("a")}}, fqlast.Tail{K: "into", Name: "g"})}, fqlast.Arr(fqlast.Var("b"), fqlast.Var("g"))),
		forIn("i", []fqlast.Clause{collect([]fqlast.Group{{Name: "a", E: fqlast.Var("i")}}, fqlast.Tail{K: "into", Name: "g"})}, fqlast.Arr(fqlast.Var("a"), fqlast.Var("g"))),
		forIn("i", []fqlast.Clause{collect(nil, fqlast.Tail{K: "count", Name: "c"}), collect([]fqlast.Group{{Name: "x", E: fqlast.Var("c")}}, fqlast.Tail{K: "into", Name: "g"})}, fqlast.Var("g")),
		forIn("i", []fqlast.Clause{collect([]fqlast.Group{{Name: "a", E: fqlast.Var("i")}}, fqlast.Tail{}), collect([]fqlast.Group{{Name: "b", E: fqlast.Var("a")}}, fqlast.Tail{K: "into", Name: "g", Proj: fqlast.Var("a")})}, fqlast.Arr(fqlast.Var("b"), fqlast.Var("g"))),
		forIn("_", []fqlast.Clause{collect([]fqlast.Group{{Name: "a", E: fqlast.Int(1)}}, fqlast.Tail{K: "into", Name: "g"})}, fqlast.Var("g")),
		while("i", false, fqlast.Cmp("<", fqlast.Var("i"), fqlast.Int(3))),
		while("i", true, fqlast.Cmp("<", fqlast.Var("i"), fqlast.Int(0))),
		while("i", false, fqlast.Cmp("<", fqlast.Var("i"), fqlast.Int(3)), fqlast.Stmt{Let: true, Name: "i", E: fqlast.Int(5)}),
		while("j", false, fqlast.Cmp("<", fqlast.Var("i"), fqlast.Int(3)), fqlast.Stmt{Let: true, Name: "i", E: fqlast.Int(5)}),
		{Stmts: []fqlast.Stmt{{Let: true, Name: "r", E: &fqlast.E{K: "sub", Q: while("i", false, fqlast.Cmp("<", fqlast.Var("i"), fqlast.Int(3))).For}}}, Ret: fqlast.Var("r")},
	}
	for i := 0; i < n; i++ {
		if inFile == 0 {
			open(len(files))
		}
		g := fqlast.NewGen(rng, 1+rng.Intn(depth))
		g.Wild, g.Redecl, g.Ignore, g.LimitVar, g.Faulty = 6, 7, 8, 3, 0
		if i%5 == 0 {
			g.Wild, g.Redecl = 0, 0 // a share of certainly well-scoped programs
		}
		p := g.Program()
		if i < len(corpus) {
			p = corpus[i]
		}
		for k, v := range g.Stats {
			m.Distribution[k] += v
		}
		q := p.FQL()
		ps := psets[rng.Intn(len(psets))]
		o := fqlrun.Run(c, q, ps.go_, -1, false)
		obs := "CAcceptRunOk"
		switch {
		case o.Class == "compile-error" && (strings.Contains(o.Err, "variable not found") || strings.Contains(o.Err, "variable is already defined") || strings.Contains(o.Err, "not found: variable") || strings.Contains(o.Err, "not unique")):
			obs = "CRejectScope"
		case o.Class == "compile-error":
			obs = "CRejectOther"
		case o.ErrKind == "scope-notfound" || o.ErrKind == "scope-notunique" || o.ErrKind == "scope-unnamed":
			obs = "CAcceptRunScopeErr"
		}
		m.Count("obs:" + obs)
		m.Count("outcome:" + o.Class)
		sep := ";"
		if inFile == per-1 || i == n-1 {
			sep = ""
		}
		fmt.Fprintf(w, " (%s,\n  %s,\n  %s)%s\n", p.Coq(), ps.coq, obs, sep)
		idx = append(idx, map[string]interface{}{"file": files[len(files)-1], "i": inFile, "query": q, "params": ps.go_, "class": o.Class, "err": o.Err, "json": string(o.JSON)})
		m.Evaluations++
		if strings.Contains(q, "LET") || strings.Contains(q, "FOR") {
			distinct[q+"|"+ps.coq] = struct{}{}
		}
		if i < 4 {
			m.Samples = append(m.Samples, map[string]interface{}{"query": q, "outcome": o.Class, "json": string(o.JSON)})
		}
		inFile++
		if inFile == per || i == n-1 {
			closeFile()
			inFile = 0
		}
	}
	m.DistinctNontrivial = len(distinct)
	nWait := 400
	if tier == "thorough" {
		nWait = 4000
	}
	m.Index["waitfor"] = waitCases(c, out, m, rng, nWait)
	m.Files = append(files, "casesw.v")
	m.Index["cases"] = idx
	m.Write(out)
}

// goToCoq renders plain Go data (ints, floats, strings, nil, bools, slices,
// string-keyed maps) as a model value.
func goToCoq(v interface{}) string {
	return CoqValue(valuesParse(v))
}
