package main

// WAITFOR EVENT name IN source [OPTIONS o] [FILTER f] [TIMEOUT t]: which names
// each operand may mention.  Every operand is drawn from declared variables,
// undeclared ones and the pseudo variable CURRENT (which exists in the filter
// only, unless the program declares a variable of that name); the query is only
// compiled.  The model (coq/theories/WaitforScope.v) decides accept / reject from
// the names declared and the names each operand mentions.

import (
	"bufio"
	"encoding/hex"
	"fmt"
	"math/rand"
	"os"
	"path/filepath"
	"strings"

	"github.com/MontFerret/ferret/pkg/compiler"

	. "verif/harness/common"
)

type wopt struct {
	text string
	refs []string
}

func hxs(s string) string { return `(hx "` + hex.EncodeToString([]byte(s)) + `")` }

func nameList(xs []string) string {
	out := make([]string, len(xs))
	for i, x := range xs {
		out[i] = hxs(x)
	}
	return "[" + strings.Join(out, "; ") + "]"
}

func waitCases(c *compiler.Compiler, out string, m *Meta, rng *rand.Rand, n int) []interface{} {
	names := []wopt{{`"e"`, nil}, {"ev", []string{"ev"}}, {"CURRENT", []string{"CURRENT"}}, {"zz", []string{"zz"}}, {"ev.name", []string{"ev"}}, {"CURRENT.name", []string{"CURRENT"}}, {"@p", nil}}
	srcs := []wopt{{"obs", []string{"obs"}}, {"CURRENT", []string{"CURRENT"}}, {"zz", []string{"zz"}}, {"obs.inner", []string{"obs"}}, {"CURRENT.inner", []string{"CURRENT"}}}
	optss := []wopt{{"", nil}, {" OPTIONS {k: 1}", nil}, {" OPTIONS {k: t1}", []string{"t1"}}, {" OPTIONS {k: CURRENT}", []string{"CURRENT"}}, {" OPTIONS {k: zz}", []string{"zz"}}}
	filters := []wopt{{"", nil}, {" FILTER CURRENT > 1", []string{"CURRENT"}}, {" FILTER CURRENT.x == t1", []string{"CURRENT", "t1"}}, {" FILTER zz > 1", []string{"zz"}},
		{" FILTER t1 > 0", []string{"t1"}}, {" FILTER CURRENT > zz", []string{"CURRENT", "zz"}}, {" FILTER true", nil}, {" FILTER ev == CURRENT.name", []string{"ev", "CURRENT"}}}
	timeouts := []wopt{{"", nil}, {" TIMEOUT 10", nil}, {" TIMEOUT t1", []string{"t1"}}, {" TIMEOUT CURRENT", []string{"CURRENT"}}, {" TIMEOUT zz", []string{"zz"}},
		{" TIMEOUT CURRENT.ms", []string{"CURRENT"}}, {" TIMEOUT t1.ms", []string{"t1"}}, {" TIMEOUT @p", nil}}
	f, err := os.Create(filepath.Join(out, "casesw.v"))
	Must(err)
	w := bufio.NewWriter(f)
	fmt.Fprintln(w, "From Ferret Require Import WaitforScope Check.C03.")
	fmt.Fprintln(w, "Definition cases : list (list bytes * wf_refs * bool) := [")
	var idx []interface{}
	seen := map[string]bool{}
	first := true
	for i := 0; i < n; i++ {
		vis := []string{"ev", "obs", "t1"}
		decl := "LET ev = \"e\" LET obs = {} LET t1 = 10 "
		if rng.Intn(4) == 0 {
			vis = append(vis, "CURRENT")
			decl += "LET CURRENT = 100 "
		}
		// an operand that mentions an invisible name is redrawn two times out of three,
		// so that about half of the queries are well-scoped
		pick := func(opts []wopt, inFilter bool) wopt {
			for try := 0; ; try++ {
				o := opts[rng.Intn(len(opts))]
				bad := false
				for _, r := range o.refs {
					ok := (r == "CURRENT" && inFilter)
					for _, v := range vis {
						ok = ok || v == r
					}
					bad = bad || !ok
				}
				if !bad || try >= 4 || rng.Intn(3) == 0 {
					return o
				}
			}
		}
		nm, sr, op, fl, to := pick(names, false), pick(srcs, false), pick(optss, false), pick(filters, true), pick(timeouts, false)
		wrap := rng.Intn(3)
		var q string
		wf := "WAITFOR EVENT " + nm.text + " IN " + sr.text + op.text + fl.text + to.text
		switch wrap {
		case 0:
			q = decl + "LET r = (" + wf + ") RETURN r"
		case 1:
			q = decl + "RETURN (" + wf + ")"
		default:
			q = decl + "FOR i IN [1] LET r = (" + wf + ") RETURN r"
		}
		if seen[q] {
			continue
		}
		seen[q] = true
		_, cerr := c.Compile(q)
		accepted := cerr == nil
		filt := "None"
		if fl.text != "" {
			filt = "(Some " + nameList(fl.refs) + ")"
		}
		sep := ";"
		if first {
			sep = " "
			first = false
		}
		fmt.Fprintf(w, " %s(%s, {| wf_name := %s; wf_src := %s; wf_opts := %s; wf_filter := %s; wf_timeout := %s |}, %v)\n",
			sep, nameList(vis), nameList(nm.refs), nameList(sr.refs), nameList(op.refs), filt, nameList(to.refs), accepted)
		e := ""
		if cerr != nil {
			e = cerr.Error()
		}
		idx = append(idx, map[string]interface{}{"query": q, "accepted": accepted, "err": e})
		m.Evaluations++
		m.Count(fmt.Sprintf("waitfor:accepted=%v", accepted))
	}
	fmt.Fprintln(w, "].")
	fmt.Fprintln(w, "Definition M := Eval vm_compute in wmismatches cases.")
	fmt.Fprintln(w, "Print M.")
	Must(w.Flush())
	Must(f.Close())
	m.DistinctNontrivial += len(idx)
	return idx
}
