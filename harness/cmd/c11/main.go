package main

// C11: histories of Compile calls on ONE compiler compared call by call with
// compiling the same query on a FRESH identically configured compiler and with
// the model's compile_spec; RegisteredFunctions() before/after; registration
// outcomes; the same kind of histories from concurrent goroutines (in a child
// process, because the pinned tree can die of "concurrent map writes").

import (
	"bufio"
	"bytes"
	"context"
	"crypto/sha1"
	"encoding/json"
	"fmt"
	"math/rand"
	"os"
	"os/exec"
	"path/filepath"
	"sort"
	"strconv"
	"strings"
	"sync"
	"time"

	. "verif/harness/common"

	"github.com/MontFerret/ferret/pkg/compiler"
	"github.com/MontFerret/ferret/pkg/runtime"
	"github.com/MontFerret/ferret/pkg/runtime/core"
	"github.com/MontFerret/ferret/pkg/runtime/values"
	"github.com/MontFerret/ferret/pkg/stdlib"
)

// ---------------------------------------------------------------- worlds

type regop struct {
	Rem  bool
	Path []string // Namespace(p1).Namespace(p2)...
	Name string
	ID   int
}

type query struct {
	OK    bool
	Uses  []string
	Calls []string
	Text  string
}

type world struct {
	Kind       string // "tree" | "stdlib-ids" | "stdlib-real"
	Ops        []regop
	Observable bool
	Histories  [][]*query
	Conc       [][][]*query // runs -> threads -> queries
	stdIDs     map[string]int
}

func idFn(id int) core.Function {
	return func(_ context.Context, _ ...core.Value) (core.Value, error) { return values.NewInt(id), nil }
}

// recorder wraps a namespace of a compiler: stdlib.RegisterLib registers the
// real stdlib NAMES through it, bound to functions that return their id.
type recorder struct {
	ns   core.Namespace
	path []string
	ids  map[string]int
	seen *[]regop
}

func (r *recorder) Namespace(name string) core.Namespace {
	return &recorder{r.ns.Namespace(name), append(append([]string{}, r.path...), name), r.ids, r.seen}
}
func (r *recorder) RegisterFunction(name string, _ core.Function) error {
	key := strings.Join(append(append([]string{}, r.path...), name), "\x00")
	*r.seen = append(*r.seen, regop{Path: r.path, Name: name})
	return r.ns.RegisterFunction(name, idFn(r.ids[key]))
}
func (r *recorder) RegisterFunctions(funs *core.Functions) error {
	for _, n := range funs.Names() {
		if err := r.RegisterFunction(n, nil); err != nil {
			return err
		}
	}
	return nil
}
func (r *recorder) RegisteredFunctions() []string { return r.ns.RegisteredFunctions() }
func (r *recorder) RemoveFunction(name string)    { r.ns.RemoveFunction(name) }

func opKey(o regop) string { return strings.Join(append(append([]string{}, o.Path...), o.Name), "\x00") }

// stdlibOps: the (path, name) pairs stdlib.RegisterLib registers, sorted, with ids
func stdlibOps() ([]regop, map[string]int) {
	var seen []regop
	c := compiler.New(compiler.WithoutStdlib())
	Must(stdlib.RegisterLib(&recorder{c, nil, map[string]int{}, &seen}))
	sort.Slice(seen, func(i, j int) bool { return opKey(seen[i]) < opKey(seen[j]) })
	ids := map[string]int{}
	for i := range seen {
		seen[i].ID = 1000 + i
		ids[opKey(seen[i])] = seen[i].ID
	}
	return seen, ids
}

func applyOp(c *compiler.Compiler, o regop) (ok bool) {
	var ns core.Namespace = c
	for _, p := range o.Path {
		ns = ns.Namespace(p)
	}
	if o.Rem {
		ns.RemoveFunction(o.Name)
		return true
	}
	return ns.RegisterFunction(o.Name, idFn(o.ID)) == nil
}

// build returns a fresh compiler configured as the world says and the
// outcome of every registration call.
func (w *world) build() (*compiler.Compiler, []bool) {
	var c *compiler.Compiler
	oks := make([]bool, len(w.Ops))
	switch w.Kind {
	case "stdlib-real":
		c = compiler.New()
		for i, o := range w.Ops {
			oks[i] = applyOp(c, o)
		}
	case "stdlib-ids":
		c = compiler.New(compiler.WithoutStdlib())
		var seen []regop
		Must(stdlib.RegisterLib(&recorder{c, nil, w.stdIDs, &seen}))
		for i, o := range w.Ops {
			if i < len(w.stdIDs) { // the stdlib part was registered by RegisterLib above
				oks[i] = true
				continue
			}
			oks[i] = applyOp(c, o)
		}
	default:
		c = compiler.New(compiler.WithoutStdlib())
		for i, o := range w.Ops {
			oks[i] = applyOp(c, o)
		}
	}
	return c, oks
}

var segPool = []string{"A", "B", "C", "X", "Y", "IO", "NET", "Lib", "P1", "Ab_c"}
var fnPool = []string{"F", "G", "H", "K", "BASE", "GET", "F1", "Q_r", "Zed"}
var badNames = []string{"a::b", "1x", "a-b", "", "a b", "_x", "x::", "a:b"}
var reserved = map[string]bool{}

func init() {
	for _, w := range strings.Fields("AND OR DISTINCT FILTER SORT LIMIT COLLECT ASC DESC INTO KEEP WITH COUNT ALL ANY AGGREGATE EVENT TIMEOUT OPTIONS CURRENT RETURN NONE NULL LET USE WAITFOR WHILE DO IN LIKE NOT FOR TRUE FALSE") {
		reserved[w] = true
	}
}

func randCase(rng *rand.Rand, s string) string {
	switch rng.Intn(4) {
	case 0:
		return strings.ToUpper(s)
	case 1:
		return strings.ToLower(s)
	case 2:
		return s
	}
	b := []byte(s)
	for i := range b {
		if rng.Intn(2) == 0 {
			b[i] = strings.ToUpper(string(b[i]))[0]
		} else {
			b[i] = strings.ToLower(string(b[i]))[0]
		}
	}
	return string(b)
}

func genTreeOps(rng *rand.Rand) []regop {
	n := 4 + rng.Intn(15)
	var ops []regop
	var done []regop
	for i := 0; i < n; i++ {
		id := i + 1
		r := rng.Intn(100)
		switch {
		case r < 10 && len(done) > 0: // duplicate registration (maybe in another case)
			o := done[rng.Intn(len(done))]
			p := make([]string, len(o.Path))
			for k := range p {
				p[k] = randCase(rng, o.Path[k])
			}
			ops = append(ops, regop{Path: p, Name: randCase(rng, o.Name), ID: id})
			continue
		case r < 15 && len(done) > 0:
			o := done[rng.Intn(len(done))]
			ops = append(ops, regop{Rem: true, Path: o.Path, Name: randCase(rng, o.Name)})
			continue
		}
		depth := []int{0, 0, 0, 1, 1, 1, 1, 1, 2, 2, 2, 3}[rng.Intn(12)]
		var path []string
		for d := 0; d < depth; d++ {
			path = append(path, randCase(rng, segPool[rng.Intn(len(segPool))]))
		}
		if len(path) >= 1 && rng.Intn(8) == 0 { // double prefix A::A::F
			path = append([]string{path[0]}, path...)
		}
		if len(path) >= 2 && rng.Intn(6) == 0 { // Namespace("A::B")
			path = append([]string{path[0] + "::" + path[1]}, path[2:]...)
		}
		name := randCase(rng, fnPool[rng.Intn(len(fnPool))])
		if rng.Intn(100) < 8 {
			name = badNames[rng.Intn(len(badNames))]
		}
		o := regop{Path: path, Name: name, ID: id}
		ops = append(ops, o)
		done = append(done, o)
	}
	return ops
}

func extraOps(rng *rand.Rand, base int) []regop {
	// collide with stdlib names on purpose
	cand := []regop{
		{Path: []string{"X"}, Name: "LENGTH"}, {Path: []string{"X"}, Name: "Zed"}, {Path: []string{"Y"}, Name: "zed"},
		{Path: []string{"PATH"}, Name: "ZED"}, {Path: []string{"path"}, Name: "Base"}, {Path: nil, Name: "BASE"},
		{Path: []string{"X", "PATH"}, Name: "BASE"}, {Path: []string{"IO", "NET", "HTTP"}, Name: "PING"},
		{Path: []string{"T"}, Name: "Q"}, {Path: nil, Name: "LENGTH"}, {Path: []string{"Y"}, Name: "FIRST"},
		{Path: []string{"Y", "Y"}, Name: "First"}, {Path: nil, Name: "a::b"},
	}
	var ops []regop
	for i, o := range cand {
		if rng.Intn(3) > 0 {
			o.ID = base + i
			ops = append(ops, o)
		}
	}
	return ops
}

// names registered (upper-cased, qualified) and their namespaces
func nsOf(registered []string) []string {
	set := map[string]bool{}
	for _, n := range registered {
		segs := strings.Split(n, "::")
		for k := 1; k < len(segs); k++ {
			set[strings.Join(segs[:k], "::")] = true
			// relative namespaces too (reachable after another USE)
			for j := 1; j < k; j++ {
				set[strings.Join(segs[j:k], "::")] = true
			}
		}
	}
	var out []string
	for n := range set {
		segs := strings.Split(n, "::")
		if reserved[strings.ToUpper(segs[len(segs)-1])] {
			continue // USE T::NOT is not in the grammar (namespaceIdentifier ends in Identifier)
		}
		out = append(out, n)
	}
	sort.Strings(out)
	return out
}

func genQuery(rng *rand.Rand, registered, nss []string) *query {
	q := &query{OK: true}
	nUses := []int{0, 0, 0, 0, 1, 1, 1, 1, 2, 2, 3}[rng.Intn(11)]
	for i := 0; i < nUses; i++ {
		r := rng.Intn(100)
		switch {
		case r < 12 && len(q.Uses) > 0:
			q.Uses = append(q.Uses, randCase(rng, q.Uses[rng.Intn(len(q.Uses))]))
		case r < 22 || len(nss) == 0:
			q.Uses = append(q.Uses, randCase(rng, []string{"NOPE", "A::NOPE", "Zz"}[rng.Intn(3)]))
		default:
			q.Uses = append(q.Uses, randCase(rng, nss[rng.Intn(len(nss))]))
		}
	}
	nCalls := rng.Intn(5)
	for i := 0; i < nCalls; i++ {
		r := rng.Intn(100)
		var name string
		switch {
		case len(registered) == 0 || r < 6:
			name = []string{"NOPE", "X::NOPE", "F", "A::F"}[rng.Intn(4)]
		case r < 40:
			name = registered[rng.Intn(len(registered))]
		case r < 85:
			// a suffix of a registered name, preferably under a namespace this query uses
			cand := registered
			if len(q.Uses) > 0 && rng.Intn(3) > 0 {
				pfx := strings.ToUpper(q.Uses[rng.Intn(len(q.Uses))]) + "::"
				var under []string
				for _, n := range registered {
					if strings.HasPrefix(n, pfx) {
						under = append(under, n)
					}
				}
				if len(under) > 0 {
					cand = under
					n := under[rng.Intn(len(under))]
					name = strings.TrimPrefix(n, pfx)
					break
				}
			}
			segs := strings.Split(cand[rng.Intn(len(cand))], "::")
			name = strings.Join(segs[rng.Intn(len(segs)):], "::")
		default:
			name = fnPool[rng.Intn(len(fnPool))]
		}
		q.Calls = append(q.Calls, randCase(rng, name))
	}
	var sb strings.Builder
	for _, u := range q.Uses {
		sb.WriteString("USE " + u + " ")
	}
	sb.WriteString("RETURN [")
	for i, c := range q.Calls {
		if i > 0 {
			sb.WriteString(", ")
		}
		sb.WriteString(c + "()")
	}
	if rng.Intn(100) < 6 {
		q.OK = false
		switch rng.Intn(3) {
		case 0:
			q.Text = ""
		case 1:
			q.Text = sb.String() + ", ("
		default:
			q.Text = strings.Replace(sb.String(), "RETURN", "RETURN RETURN", 1) + "]"
		}
		return q
	}
	sb.WriteString("]")
	q.Text = sb.String()
	return q
}

func genHistory(rng *rand.Rand, registered, nss []string) []*query {
	k := 2 + rng.Intn(3)
	pool := make([]*query, k)
	for i := range pool {
		pool[i] = genQuery(rng, registered, nss)
	}
	n := 1 + rng.Intn(8)
	h := make([]*query, n)
	for i := range h {
		h[i] = pool[rng.Intn(k)]
	}
	return h
}

func genWorlds(seed int64, tier string) []*world {
	rng := rand.New(rand.NewSource(seed))
	nTree, hTree, nStd, hStd, cTree, cStd := 40, 10, 1, 30, 1, 6
	if tier == "thorough" {
		nTree, hTree, nStd, hStd, cTree, cStd = 300, 14, 3, 120, 2, 30
	}
	stdOps, stdIDs := stdlibOps()
	var ws []*world
	add := func(w *world, nh, nc int) {
		c, _ := w.build()
		reg := c.RegisteredFunctions()
		sort.Strings(reg)
		nss := nsOf(reg)
		if w.Kind != "tree" { // the shortest known shapes first: they make the most readable failing inputs
			usePath := &query{OK: true, Uses: []string{"PATH"}, Calls: []string{"BASE"}, Text: "USE PATH RETURN [BASE()]"}
			plain := &query{OK: true, Calls: []string{"BASE"}, Text: "RETURN [BASE()]"}
			nested := &query{OK: true, Uses: []string{"IO"}, Calls: []string{"NET::HTTP::GET", "FS::READ"}, Text: "USE IO RETURN [NET::HTTP::GET(), FS::READ()]"}
			w.Histories = append(w.Histories, []*query{usePath, usePath}, []*query{usePath, plain}, []*query{plain, usePath, plain}, []*query{nested, nested})
		}
		for i := 0; i < nh; i++ {
			w.Histories = append(w.Histories, genHistory(rng, reg, nss))
		}
		for i := 0; i < nc; i++ {
			nt := 2 + rng.Intn(3)
			run := make([][]*query, nt)
			// threads share a pool so that the same USE is compiled by several goroutines
			pool := genHistory(rng, reg, nss)
			for t := range run {
				n := 1 + rng.Intn(8)
				for j := 0; j < n; j++ {
					if rng.Intn(3) == 0 {
						run[t] = append(run[t], genQuery(rng, reg, nss))
					} else {
						run[t] = append(run[t], pool[rng.Intn(len(pool))])
					}
				}
			}
			w.Conc = append(w.Conc, run)
		}
		ws = append(ws, w)
	}
	for i := 0; i < nStd; i++ {
		ops := append(append([]regop{}, stdOps...), extraOps(rng, 5000)...)
		add(&world{Kind: "stdlib-ids", Ops: ops, Observable: true, stdIDs: stdIDs}, hStd, cStd)
	}
	for i := 0; i < nStd; i++ {
		add(&world{Kind: "stdlib-real", Ops: extraOps(rng, 5000)}, hStd, cStd)
	}
	for i := 0; i < nTree; i++ {
		add(&world{Kind: "tree", Ops: genTreeOps(rng), Observable: true}, hTree, cTree)
	}
	return ws
}

// ---------------------------------------------------------------- observation

type obs struct {
	Cls int    `json:"c"`
	IDs []int  `json:"i,omitempty"`
	Err string `json:"e,omitempty"`
}

func (o obs) String() string {
	switch o.Cls {
	case 0:
		return fmt.Sprintf("compiled, calls resolved to %v", o.IDs)
	case 1:
		return "compile error (" + o.Err + ")"
	case 2:
		return "panic escaped Compile (" + o.Err + ")"
	case 3:
		return "compiled but the run failed (" + o.Err + ")"
	}
	return "compiled"
}
func (o obs) coq() string {
	ids := make([]string, len(o.IDs))
	for i, x := range o.IDs {
		ids[i] = strconv.Itoa(x)
	}
	return fmt.Sprintf("(%d, [%s])", o.Cls, strings.Join(ids, ";"))
}

func observe(c *compiler.Compiler, q *query, observable bool) (o obs) {
	defer func() {
		if r := recover(); r != nil {
			o = obs{Cls: 2, Err: fmt.Sprint(r)}
		}
	}()
	p, err := c.Compile(q.Text)
	if err != nil {
		msg := err.Error()
		if len(msg) > 90 {
			msg = msg[:90]
		}
		return obs{Cls: 1, Err: msg}
	}
	if !observable {
		return obs{Cls: 4}
	}
	out, err := p.Run(context.Background(), runtime.WithLog(Discard))
	if err != nil {
		return obs{Cls: 3, Err: err.Error()}
	}
	var ids []int
	if json.Unmarshal(out, &ids) != nil {
		return obs{Cls: 3, Err: "output " + string(out)}
	}
	return obs{Cls: 0, IDs: ids}
}

func sortedReg(c *compiler.Compiler) []string {
	r := c.RegisteredFunctions()
	sort.Strings(r)
	return r
}

func diff(a, b []string) (onlyB, onlyA []string) {
	ma, mb := map[string]bool{}, map[string]bool{}
	for _, x := range a {
		ma[x] = true
	}
	for _, x := range b {
		mb[x] = true
		if !ma[x] {
			onlyB = append(onlyB, x)
		}
	}
	for _, x := range a {
		if !mb[x] {
			onlyA = append(onlyA, x)
		}
	}
	return
}

// ---------------------------------------------------------------- concurrent worker

type concResult struct {
	World, Run int
	Obs        [][]obs
	Gained     []string
	Lost       []string
}

func concRun(w *world, run [][]*query) concResult {
	c, _ := w.build()
	// the registry listing "before" is taken from a second, identically built
	// compiler: nothing may touch c before the goroutines start (a lazily built
	// cache inside the registry would otherwise be warmed up by the listing)
	c2, _ := w.build()
	before := sortedReg(c2)
	res := make([][]obs, len(run))
	var wg sync.WaitGroup
	startCh := make(chan struct{})
	for t := range run {
		res[t] = make([]obs, len(run[t]))
		wg.Add(1)
		go func(t int) {
			defer wg.Done()
			<-startCh
			for j, q := range run[t] {
				res[t][j] = observe(c, q, w.Observable)
			}
		}(t)
	}
	close(startCh)
	wg.Wait()
	g, l := diff(before, sortedReg(c))
	return concResult{Obs: res, Gained: g, Lost: l}
}

// worker: prints one JSON line per finished concurrent run, starting at run number skip
func worker(seed int64, tier string, skip int) {
	ws := genWorlds(seed, tier)
	w := bufio.NewWriter(os.Stdout)
	n := 0
	for wi, wd := range ws {
		for ri, run := range wd.Conc {
			if n >= skip {
				fmt.Fprintf(os.Stderr, "@@run %d\n", n)
				r := concRun(wd, run)
				r.World, r.Run = wi, ri
				b, _ := json.Marshal(r)
				w.Write(b)
				w.WriteByte('\n')
				w.Flush()
			}
			n++
		}
	}
}

// ---------------------------------------------------------------- main

type nameBook struct {
	names []string
	idx   map[string]int
}

func (nb *nameBook) id(s string) int {
	if i, ok := nb.idx[s]; ok {
		return i
	}
	nb.idx[s] = len(nb.names)
	nb.names = append(nb.names, s)
	return nb.idx[s]
}
func (nb *nameBook) ids(ss []string) string {
	p := make([]string, len(ss))
	for i, s := range ss {
		p[i] = strconv.Itoa(nb.id(s))
	}
	return "[" + strings.Join(p, ";") + "]"
}
func coqNames(ss []string) string {
	p := make([]string, len(ss))
	for i, s := range ss {
		p[i] = `bs "` + CoqEscape(s) + `"`
	}
	return "[" + strings.Join(p, "; ") + "]"
}
func (nb *nameBook) q(q *query) string {
	return fmt.Sprintf("(%v, %s, %s)", q.OK, nb.ids(q.Uses), nb.ids(q.Calls))
}

func texts(h []*query) []string {
	t := make([]string, len(h))
	for i, q := range h {
		t[i] = q.Text
	}
	return t
}

func main() {
	out, tier, seed, _ := Args()
	if os.Getenv("C11_WORKER") != "" {
		skip, _ := strconv.Atoi(os.Getenv("C11_SKIP"))
		worker(seed, tier, skip)
		return
	}
	t0 := time.Now()
	ws := genWorlds(seed, tier)
	m := NewMeta("C11", tier, seed)
	m.Rule = "one evaluation = one observed Compile call (on the shared compiler, on a fresh identically configured compiler, or from a concurrent goroutine) or one registration call, each compared with the model; non-trivial = a Compile call on the shared compiler with at least one earlier Compile call in its history; distinct = distinct (registry, preceding query texts, query text)"
	var direct []map[string]interface{}

	// concurrent runs in a child process
	totalConc := 0
	for _, w := range ws {
		totalConc += len(w.Conc)
	}
	conc := map[[2]int]concResult{}
	skip, restarts := 0, 0
	for skip < totalConc && restarts < 12 {
		cmd := exec.Command(os.Args[0], "-tier", tier, "-seed", strconv.FormatInt(seed, 10))
		cmd.Env = append(os.Environ(), "C11_WORKER=1", "C11_SKIP="+strconv.Itoa(skip), "GORACE=halt_on_error=0")
		var so, se bytes.Buffer
		cmd.Stdout, cmd.Stderr = &so, &se
		done := make(chan error, 1)
		Must(cmd.Start())
		go func() { done <- cmd.Wait() }()
		var werr error
		select {
		case werr = <-done:
		case <-time.After(20 * time.Minute):
			cmd.Process.Kill()
			werr = fmt.Errorf("timeout")
		}
		got := 0
		for _, line := range strings.Split(so.String(), "\n") {
			var r concResult
			if line != "" && json.Unmarshal([]byte(line), &r) == nil && r.Obs != nil {
				conc[[2]int{r.World, r.Run}] = r
				got++
			}
		}
		stderr := se.String()
		// race reports: attribute each to the run that was in progress
		if strings.Contains(stderr, "DATA RACE") {
			cur := -1
			seen := map[int]bool{}
			for _, chunk := range strings.Split(stderr, "@@run ") {
				if nl := strings.IndexByte(chunk, '\n'); nl > 0 {
					if k, err := strconv.Atoi(chunk[:nl]); err == nil {
						cur = k
					}
				}
				if cur < 0 {
					cur = skip
				}
				if strings.Contains(chunk, "DATA RACE") && !seen[cur] && m.Distribution["conc:race-report"] < 8 {
					seen[cur] = true
					wi, ri := locate(ws, cur)
					i := strings.Index(chunk, "WARNING: DATA RACE")
					rep := chunk[i:]
					if len(rep) > 1500 {
						rep = rep[:1500]
					}
					direct = append(direct, map[string]interface{}{
						"key":  fmt.Sprintf("race|%s", threadsKey(ws[wi], ri)),
						"what": fmt.Sprintf("race detector report while goroutines compile on one compiler (%s): threads=%v", ws[wi].Kind, threadTexts(ws[wi].Conc[ri])),
						"kind": "schedule-log", "threads": threadTexts(ws[wi].Conc[ri]), "registry": regDesc(ws[wi]), "report": rep, "tags": []string{"race"},
					})
					m.Count("conc:race-report")
				}
			}
		}
		if skip+got >= totalConc {
			break
		}
		// the child died (or stopped) in run skip+got
		wi, ri := locate(ws, skip+got)
		tail := stderr
		if i := strings.Index(tail, "fatal error"); i >= 0 {
			tail = tail[i:]
		}
		if len(tail) > 600 {
			tail = tail[:600]
		}
		direct = append(direct, map[string]interface{}{
			"key":  fmt.Sprintf("crash|%s", threadsKey(ws[wi], ri)),
			"what": fmt.Sprintf("process died while goroutines compile on one compiler (%s; %v): threads=%v: %s", ws[wi].Kind, werr, threadTexts(ws[wi].Conc[ri]), firstLine(tail)),
			"kind": "schedule-log", "threads": threadTexts(ws[wi].Conc[ri]), "registry": regDesc(ws[wi]), "stderr": tail, "tags": []string{"crash"},
		})
		m.Count("conc:crash")
		skip += got + 1
		restarts++
	}

	// sequential histories, and the case files
	distinct := map[[20]byte]struct{}{}
	var files []string
	histIndex := map[string]interface{}{}
	concIndex := map[string]interface{}{}
	worldIndex := []interface{}{}
	hid, rid := 0, 0
	perFile := 8
	var f *os.File
	var wr *bufio.Writer
	closeFile := func() {
		if f != nil {
			fmt.Fprintln(wr, "].")
			fmt.Fprintln(wr, "Definition M := Eval vm_compute in mismatches FIRST WS.")
			fmt.Fprintln(wr, "Local Close Scope N_scope.")
			fmt.Fprintln(wr, "Print M.")
			Must(wr.Flush())
			Must(f.Close())
			f = nil
		}
	}
	inFile := 0
	for wi, w := range ws {
		big := w.Kind != "tree"
		if f == nil || inFile >= perFile || big || (wi > 0 && ws[wi-1].Kind != "tree") {
			closeFile()
			name := fmt.Sprintf("cases%d.v", len(files))
			files = append(files, name)
			var err error
			f, err = os.Create(filepath.Join(out, name))
			Must(err)
			wr = bufio.NewWriterSize(f, 1<<20)
			fmt.Fprintln(wr, "From Ferret Require Import Registry Check.C11.")
			fmt.Fprintln(wr, "Local Open Scope N_scope.")
			fmt.Fprintf(wr, "Definition FIRST := %d.\n", wi)
			fmt.Fprintln(wr, "Definition WS : list world := [")
			inFile = 0
		} else {
			fmt.Fprintln(wr, ";")
		}
		inFile++
		nb := &nameBook{idx: map[string]int{}}
		c0, oks := w.build()
		reg0 := sortedReg(c0)
		regHash := sha1.Sum([]byte(strings.Join(reg0, ",")))
		var base []string
		ops := w.Ops
		if w.Kind == "stdlib-real" {
			base = sortedReg(compiler.New())
		}
		var opsC []string
		for i, o := range ops {
			if o.Rem {
				opsC = append(opsC, fmt.Sprintf("Rem %s %d", nb.ids(o.Path), nb.id(o.Name)))
			} else {
				opsC = append(opsC, fmt.Sprintf("Reg %s %d %d %v", nb.ids(o.Path), nb.id(o.Name), o.ID, oks[i]))
				m.Evaluations++
				if oks[i] {
					m.Count("register:ok")
				} else {
					m.Count("register:refused")
				}
			}
		}
		m.Count("world:" + w.Kind)
		var histC []string
		for _, h := range w.Histories {
			shared, _ := w.build()
			before := sortedReg(shared)
			var calls []string
			var callIdx []interface{}
			prefix := ""
			for j, q := range h {
				so := observe(shared, q, w.Observable)
				fresh, _ := w.build()
				fo := observe(fresh, q, w.Observable)
				calls = append(calls, fmt.Sprintf("(%s, %s, %s)", nb.q(q), so.coq(), fo.coq()))
				callIdx = append(callIdx, map[string]string{"q": q.Text, "shared": so.String(), "fresh": fo.String()})
				m.Evaluations += 2
				m.Count(fmt.Sprintf("shared:class%d", so.Cls))
				m.Count(fmt.Sprintf("fresh:class%d", fo.Cls))
				if so.Cls != fo.Cls || fmt.Sprint(so.IDs) != fmt.Sprint(fo.IDs) {
					m.Count("shared-differs-from-fresh")
				}
				if j > 0 {
					distinct[sha1.Sum([]byte(string(regHash[:])+prefix+"\x01"+q.Text))] = struct{}{}
				}
				prefix += "\x00" + q.Text
				m.Count(fmt.Sprintf("query:uses%d", len(q.Uses)))
				if !q.OK {
					m.Count("query:malformed")
				}
			}
			m.Count(fmt.Sprintf("history:len%d", len(h)))
			gained, lost := diff(before, sortedReg(shared))
			if len(gained)+len(lost) > 0 {
				m.Count("history:registry-changed")
			}
			histC = append(histC, fmt.Sprintf("(%d, [%s], %s, %s)", hid, strings.Join(calls, "; "), coqNames(gained), coqNames(lost)))
			histIndex[strconv.Itoa(hid)] = map[string]interface{}{"world": wi, "calls": callIdx, "gained": gained, "lost": lost}
			if len(m.Samples) < 4 && len(h) >= 3 && hid%7 == 3 {
				m.Samples = append(m.Samples, map[string]interface{}{"registry": regDesc(w), "history": callIdx})
			}
			hid++
		}
		var concC []string
		for ri, run := range w.Conc {
			r, ok := conc[[2]int{wi, ri}]
			if !ok {
				rid++
				continue
			}
			var ths []string
			var thIdx []interface{}
			for t, th := range run {
				var cs []string
				var ci []interface{}
				for j, q := range th {
					cs = append(cs, fmt.Sprintf("(%s, %s)", nb.q(q), r.Obs[t][j].coq()))
					ci = append(ci, map[string]string{"q": q.Text, "observed": r.Obs[t][j].String()})
					m.Evaluations++
					m.Count(fmt.Sprintf("conc:class%d", r.Obs[t][j].Cls))
				}
				ths = append(ths, "["+strings.Join(cs, "; ")+"]")
				thIdx = append(thIdx, ci)
			}
			concC = append(concC, fmt.Sprintf("(%d, [%s])", rid, strings.Join(ths, "; ")))
			concIndex[strconv.Itoa(rid)] = map[string]interface{}{"world": wi, "threads": thIdx, "gained": r.Gained, "lost": r.Lost}
			if len(r.Gained)+len(r.Lost) > 0 {
				m.Count("conc:registry-changed")
			}
			if len(r.Gained)+len(r.Lost) > 0 && m.Distribution["conc:registry-changed"] <= 8 {
				direct = append(direct, map[string]interface{}{
					"key":  fmt.Sprintf("conc-registry|%s", threadsKey(w, ri)),
					"what": fmt.Sprintf("RegisteredFunctions() changed while goroutines compiled on one compiler: gained=%v lost=%v threads=%v", r.Gained, r.Lost, threadTexts(run)),
					"kind": "schedule-log", "threads": threadTexts(run), "registry": regDesc(w), "tags": []string{"registry-changed"},
				})
			}
			rid++
		}
		fmt.Fprintf(wr, " (World %s\n  %s\n  [%s]\n  %s\n  [%s]\n  [%s])", coqNames(nb.names), coqNames(base),
			strings.Join(opsC, "; "), coqNames(reg0), strings.Join(histC, ";\n   "), strings.Join(concC, ";\n   "))
		worldIndex = append(worldIndex, map[string]interface{}{"kind": w.Kind, "registry": regDesc(w), "ops": opsDesc(w, oks)})
	}
	closeFile()
	m.DistinctNontrivial = len(distinct)
	m.Files = files
	m.Index["hist"] = histIndex
	m.Index["conc"] = concIndex
	m.Index["world"] = worldIndex
	m.Extra["direct_violations"] = direct
	m.Extra["concurrent_runs"] = totalConc
	m.Extra["concurrent_runs_completed"] = len(conc)
	m.Extra["harness_wall_s"] = time.Since(t0).Seconds()
	m.Write(out)
}

func locate(ws []*world, n int) (int, int) {
	k := 0
	for wi, w := range ws {
		if n < k+len(w.Conc) {
			return wi, n - k
		}
		k += len(w.Conc)
	}
	return len(ws) - 1, 0
}

func threadTexts(run [][]*query) [][]string {
	t := make([][]string, len(run))
	for i, th := range run {
		t[i] = texts(th)
	}
	return t
}

func threadsKey(w *world, ri int) string {
	h := sha1.Sum([]byte(fmt.Sprint(regDesc(w), threadTexts(w.Conc[ri]))))
	return fmt.Sprintf("%s|%x", w.Kind, h[:6])
}

func regDesc(w *world) string {
	c, _ := w.build()
	reg := sortedReg(c)
	if w.Kind == "tree" {
		return strings.Join(reg, " ")
	}
	var extra []string
	for _, o := range w.Ops {
		if o.ID >= 5000 {
			extra = append(extra, strings.Join(append(append([]string{}, o.Path...), o.Name), "::"))
		}
	}
	return fmt.Sprintf("%s (%d functions) + attempted %v", w.Kind, len(reg), extra)
}

func opsDesc(w *world, oks []bool) map[string]string {
	d := map[string]string{}
	for i, o := range w.Ops {
		if w.Kind == "stdlib-ids" && o.ID >= 1000 && o.ID < 5000 {
			continue
		}
		verb := "Register"
		if o.Rem {
			verb = "Remove"
		}
		d[strconv.Itoa(i)] = fmt.Sprintf("%s(namespace path=%q, name=%q) ok=%v", verb, o.Path, o.Name, oks[i])
	}
	return d
}

func firstLine(s string) string {
	if i := strings.IndexByte(s, '\n'); i >= 0 {
		return s[:i]
	}
	return s
}
