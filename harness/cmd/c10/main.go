package main

// C10: (1) programs mentioning 0-5 parameters in every syntactic position,
// run with every subset supplied (plus extras): Program.Params() and the
// refusal / start of Run; (2) Go values of every kind passed as @p: what
// values.Parse returns, what the query sees, and the JSON of RETURN @p.

import (
	"bufio"
	"bytes"
	"context"
	"encoding/json"
	"fmt"
	"math"
	"math/rand"
	"os"
	"path/filepath"
	"regexp"
	"sort"
	"strconv"
	"strings"
	"time"
	"unsafe"

	. "verif/harness/common"

	"github.com/MontFerret/ferret/pkg/compiler"
	"github.com/MontFerret/ferret/pkg/runtime"
	"github.com/MontFerret/ferret/pkg/runtime/core"
	"github.com/MontFerret/ferret/pkg/runtime/values"
)

// ------------------------------------------------------------ part 1: programs

type nameBook struct {
	names []string
	idx   map[string]int
}

func (nb *nameBook) id(s string) int {
	if i, ok := nb.idx[s]; ok {
		return i
	}
	nb.idx[s] = len(nb.names)
	nb.names = append(nb.names, s)
	return nb.idx[s]
}
func (nb *nameBook) ids(ss []string) string {
	p := make([]string, len(ss))
	for i, s := range ss {
		p[i] = strconv.Itoa(nb.id(s))
	}
	return "[" + strings.Join(p, ";") + "]"
}

// plain parameter names, and names that are "safe reserved words" of the grammar
var plainNames = []string{"a", "b", "n", "obj", "k", "p", "A", "Val", "x1", "long_name", "e", "t"}
var reservedNames = []string{"count", "limit", "filter", "options", "timeout", "current", "sort", "all"}

type pgen struct {
	rng   *rand.Rand
	nb    *nameBook
	names []string // the parameter names this program may mention
	pos   map[string]int
	vars  int
}

type frag struct {
	text, shape string
}

func (g *pgen) param(position string) frag {
	n := g.names[g.rng.Intn(len(g.names))]
	g.pos[position]++
	return frag{"@" + n, fmt.Sprintf("P %d", g.nb.id(n))}
}

func node(kids ...frag) string {
	s := make([]string, len(kids))
	for i, k := range kids {
		s[i] = k.shape
	}
	return "Nd [" + strings.Join(s, "; ") + "]"
}

// atom: something that can stand as an operand without parentheses
func (g *pgen) atom(depth int) frag {
	if len(g.names) == 0 || g.rng.Intn(3) == 0 {
		return frag{[]string{"1", "'s'", "true", "[1, 2]", "2.5"}[g.rng.Intn(5)], "L"}
	}
	if depth <= 0 {
		return g.param("operand")
	}
	switch g.rng.Intn(11) {
	case 0, 1:
		return g.param("operand")
	case 2: // array literal
		a, b := g.expr(depth-1), g.expr(depth-1)
		return frag{"[" + a.text + ", " + b.text + "]", node(a, b)}
	case 3: // call argument
		a := g.expr(depth - 1)
		return frag{"ID(" + a.text + ")", node(a)}
	case 4: // member source, static property
		p := g.param("member-source")
		return frag{p.text + ".name", node(p)}
	case 5: // member source with computed property
		p, k := g.param("member-source"), g.expr(depth-1)
		g.pos["computed-property"]++
		return frag{p.text + "[" + k.text + "]", node(p, k)}
	case 6: // parameter as property name
		p, k := g.param("member-source"), g.param("property-name")
		return frag{p.text + "." + k.text, node(p, k)}
	case 7: // object literal: parameter as key, computed key, value
		k, v, ck, v2 := g.param("object-key"), g.expr(depth-1), g.expr(depth-1), g.expr(depth-1)
		g.pos["computed-key"]++
		return frag{"{ " + k.text + ": " + v.text + ", [" + ck.text + "]: " + v2.text + ", plain: 1 }", node(k, v, ck, v2)}
	case 8: // range with parameter bounds
		var l, r frag
		if g.rng.Intn(2) == 0 {
			l = frag{"1", "L"}
		} else {
			l = g.param("range-bound")
		}
		r = g.param("range-bound")
		return frag{"ID(" + l.text + ".." + r.text + ")", "Nd [" + node(l, r) + "]"}
	default: // sub-query
		return g.forExpr(depth - 1)
	}
}

func (g *pgen) expr(depth int) frag {
	switch g.rng.Intn(6) {
	case 0:
		a, b := g.atom(depth), g.atom(depth)
		op := []string{"+", "-", "*", "==", "<", "AND", "OR", "IN", "LIKE"}[g.rng.Intn(8)]
		return frag{a.text + " " + op + " " + b.text, node(a, b)}
	case 1:
		a, b, c := g.atom(depth), g.atom(depth), g.atom(depth)
		return frag{a.text + " ? " + b.text + " : " + c.text, node(a, b, c)}
	}
	return g.atom(depth)
}

func (g *pgen) forExpr(depth int) frag {
	g.vars++
	v := fmt.Sprintf("v%d", g.vars)
	var src frag
	switch g.rng.Intn(4) {
	case 0:
		src = g.param("loop-source")
	case 1:
		b := g.param("range-bound")
		src = frag{"1.." + b.text, node(b)}
	case 2:
		a, b := g.param("range-bound"), g.param("range-bound")
		src = frag{a.text + ".." + b.text, node(a, b)}
	default:
		src = frag{"[1, 2, 3]", "L"}
	}
	parts := []frag{src}
	text := "(FOR " + v + " IN " + src.text
	if g.rng.Intn(3) == 0 {
		f := g.expr(depth)
		parts = append(parts, f)
		text += " FILTER " + f.text
	}
	switch g.rng.Intn(4) {
	case 0:
		n := g.param("limit")
		parts = append(parts, n)
		text += " LIMIT " + n.text
	case 1:
		o, n := g.param("limit"), g.param("limit")
		parts = append(parts, o, n)
		text += " LIMIT " + o.text + ", " + n.text
	case 2:
		n := g.param("limit")
		parts = append(parts, n)
		text += " LIMIT 1, " + n.text
	}
	if g.rng.Intn(4) == 0 {
		s := g.atom(0)
		parts = append(parts, s)
		text += " SORT " + s.text
	}
	r := g.expr(depth)
	parts = append(parts, r)
	text += " RETURN " + r.text + ")"
	return frag{text, node(parts...)}
}

func (g *pgen) waitfor() frag {
	var parts []frag
	text := "WAITFOR EVENT "
	if g.rng.Intn(2) == 0 {
		e := g.param("waitfor-event")
		parts = append(parts, e)
		text += e.text
	} else {
		text += "'x'"
	}
	text += " IN o"
	if g.rng.Intn(2) == 0 {
		v := g.atom(0)
		parts = append(parts, v)
		text += " OPTIONS { a: " + v.text + " }"
		g.pos["waitfor-options"]++
	}
	if g.rng.Intn(2) == 0 {
		f := g.atom(0)
		parts = append(parts, f)
		text += " FILTER " + f.text
		g.pos["waitfor-filter"]++
	}
	if g.rng.Intn(2) == 0 {
		t := g.param("waitfor-timeout")
		parts = append(parts, t)
		text += " TIMEOUT " + t.text
	} else {
		text += " TIMEOUT 5"
	}
	return frag{text, node(parts...)}
}

type program struct {
	text, shape string
	names       []string
	positions   map[string]int
}

func genProgram(rng *rand.Rand, nb *nameBook) *program {
	k := []int{0, 1, 1, 2, 2, 3, 3, 4, 5}[rng.Intn(9)]
	pool := append([]string{}, plainNames...)
	rng.Shuffle(len(pool), func(i, j int) { pool[i], pool[j] = pool[j], pool[i] })
	names := pool[:k]
	if k > 0 && rng.Intn(8) == 0 { // a parameter named like a (safe) reserved word
		names[rng.Intn(k)] = reservedNames[rng.Intn(len(reservedNames))]
	}
	g := &pgen{rng: rng, nb: nb, names: names, pos: map[string]int{}}
	var parts []frag
	text := "LET m = MARK()\nLET o = {}\n"
	ns := rng.Intn(3)
	for i := 0; i < ns; i++ {
		if len(names) > 0 && rng.Intn(4) == 0 {
			w := g.waitfor()
			parts = append(parts, w)
			text += w.text + "\n"
		} else {
			e := g.expr(2)
			parts = append(parts, e)
			text += fmt.Sprintf("LET s%d = %s\n", i, e.text)
		}
	}
	r := g.expr(2)
	parts = append(parts, r)
	if rng.Intn(2) == 0 || len(names) == 0 {
		text += "RETURN " + r.text
	} else {
		// the whole program is a FOR
		f := g.forExpr(1)
		parts[len(parts)-1] = f
		text += strings.TrimSuffix(strings.TrimPrefix(f.text, "("), ")")
	}
	return &program{text: text, shape: node(parts...), names: names, positions: g.pos}
}

var atName = regexp.MustCompile(`@([A-Za-z][A-Za-z0-9_]*)`)

// ------------------------------------------------------------ part 2: Go values

type (
	MyInt  int
	MyI8   int8
	MyU32  uint32
	MyStr  string
	MyBool bool
	MyF64  float64

	Inner struct {
		N int
		S string
	}
	Pub struct {
		A  int
		B  string
		C  []int
		D  map[string]int
		E  *Inner
		F  Inner
		G  interface{}
		H  float32
		I  uint16
		T  time.Time
		Bs []byte
		U  MyInt
	}
	Mixed struct {
		A      int
		hidden string
		B      bool
		secret *Inner
	}
	OnlyHidden struct {
		x int
		y []string
	}
	Deep struct {
		P   *Pub
		M   *Mixed
		L   []Inner
		Mp  map[string]Inner
		Arr [2]Inner
		PP  **int
		Any []interface{}
	}
	Empty    struct{}
	Embedded struct {
		Inner
		Z uint8
	}
)

type gv struct {
	v   interface{}
	coq string
	tag string
}

type vgen struct{ rng *rand.Rand }

func cb(b bool) string {
	if b {
		return "true"
	}
	return "false"
}
func gInt(named bool, w string, z int64) string {
	return fmt.Sprintf("(GInt %s %s %s)", cb(named), w, CoqZ(z))
}
func gUint(named bool, w string, z uint64) string {
	return fmt.Sprintf("(GUint %s %s (%d))", cb(named), w, z)
}
func gFloat(named, single bool, f float64) string {
	return fmt.Sprintf("(GFloat %s %s %d%%N)", cb(named), cb(single), math.Float64bits(f))
}
func gStr(named bool, s string) string { return fmt.Sprintf("(GString %s %s)", cb(named), Hx([]byte(s))) }
func gList(c string, xs []string) string {
	return "(" + c + " [" + strings.Join(xs, "; ") + "])"
}
func gField(name string, exported bool, v string) string {
	return fmt.Sprintf("(bs \"%s\", %s, %s)", name, cb(exported), v)
}
func gStruct(fs ...string) string { return gList("GStruct", fs) }

func (g *vgen) i64() int64 {
	switch g.rng.Intn(6) {
	case 0:
		return 0
	case 1:
		return []int64{1, -1, 127, -128, 255, 32767, -32768, 1 << 31, -(1 << 31), 1<<53 + 1, math.MaxInt64, math.MinInt64}[g.rng.Intn(12)]
	}
	return g.rng.Int63n(2001) - 1000
}
func (g *vgen) f64() float64 {
	switch g.rng.Intn(6) {
	case 0:
		return 0
	case 1:
		return []float64{1, -1, 0.5, 2.5, 1e21, 1e-7, 5e-324, math.MaxFloat64, -2.25, 1 << 53, math.Copysign(0, -1), 100, 0.1}[g.rng.Intn(13)]
	}
	return float64(g.rng.Int63n(4001)-2000) / 8
}
func (g *vgen) str() string {
	return []string{"", "a", "ab", "A b", "é", "k,", "a:b", "\"q\"", "line\nbreak", "<tag>&", "\U0001F600", "0", "true"}[g.rng.Intn(13)]
}
var tmCalls int

func (g *vgen) tm() (time.Time, string) {
	tmCalls++
	if tmCalls <= 3 { // the zero time.Time, certainly
		return time.Time{}, fmt.Sprintf("(GTime %s %s %s)", CoqZ(-62135596800), CoqZ(0), CoqZ(-1))
	}
	sec := []int64{0, 1, -1, 1700000000, 951782400, -2208988800, 32503680000, -62135596800}[g.rng.Intn(8)] // the last one: the zero time.Time (with nsec 0, UTC)
	nsec := []int64{0, 0, 1, 500000000, 999999999, 123456789}[g.rng.Intn(6)]
	offs := []int{-1, -1, 0, 60, -300, 330, 765}
	off := offs[g.rng.Intn(len(offs))]
	t := time.Unix(sec, nsec)
	if off == -1 {
		t = t.UTC()
	} else {
		t = t.In(time.FixedZone("", off*60))
	}
	return t, fmt.Sprintf("(GTime %s %s %s)", CoqZ(sec), CoqZ(nsec), CoqZ(int64(off)))
}
func (g *vgen) bytes() ([]byte, string) {
	switch g.rng.Intn(4) {
	case 0:
		return nil, "(GBytes [])"
	case 1:
		return []byte{}, "(GBytes [])"
	}
	n := 1 + g.rng.Intn(5)
	b := make([]byte, n)
	g.rng.Read(b)
	return b, "(GBytes " + Hx(b) + ")"
}

func (g *vgen) inner() (Inner, string) {
	n, s := g.i64(), g.str()
	return Inner{int(n), s}, gStruct(gField("N", true, gInt(false, "WInt", n)), gField("S", true, gStr(false, s)))
}

func (g *vgen) scalar() gv {
	switch g.rng.Intn(26) {
	case 0:
		return gv{nil, "GNil", "nil"}
	case 1:
		b := g.rng.Intn(2) == 0
		return gv{b, "(GBool false " + cb(b) + ")", "bool"}
	case 2:
		z := g.i64()
		return gv{int(z), gInt(false, "WInt", z), "int"}
	case 3:
		z := int8(g.i64())
		return gv{z, gInt(false, "W8", int64(z)), "int8"}
	case 4:
		z := int16(g.i64())
		return gv{z, gInt(false, "W16", int64(z)), "int16"}
	case 5:
		z := int32(g.i64())
		return gv{z, gInt(false, "W32", int64(z)), "int32"}
	case 6:
		z := g.i64()
		return gv{z, gInt(false, "W64", z), "int64"}
	case 7:
		z := uint(g.i64()) >> 1
		return gv{z, gUint(false, "WInt", uint64(z)), "uint"}
	case 8:
		z := uint8(g.i64())
		return gv{z, gUint(false, "W8", uint64(z)), "uint8"}
	case 9:
		z := uint16(g.i64())
		return gv{z, gUint(false, "W16", uint64(z)), "uint16"}
	case 10:
		z := uint32(g.i64())
		return gv{z, gUint(false, "W32", uint64(z)), "uint32"}
	case 11:
		z := uint64(g.i64()) >> 1
		return gv{z, gUint(false, "W64", z), "uint64"}
	case 12:
		z := uintptr(g.i64()) >> 1
		return gv{z, gUint(false, "WPtr", uint64(z)), "uintptr"}
	case 13:
		f := float32(g.f64())
		if math.IsInf(float64(f), 0) {
			f = 1.5
		}
		return gv{f, gFloat(false, true, float64(f)), "float32"}
	case 14:
		f := g.f64()
		return gv{f, gFloat(false, false, f), "float64"}
	case 15:
		s := g.str()
		return gv{s, gStr(false, s), "string"}
	case 16:
		t, c := g.tm()
		return gv{t, c, "time"}
	case 17:
		b, c := g.bytes()
		return gv{b, c, "bytes"}
	case 18:
		z := g.i64()
		return gv{MyInt(z), gInt(true, "WInt", z), "named-int"}
	case 19:
		z := int8(g.i64())
		return gv{MyI8(z), gInt(true, "W8", int64(z)), "named-int8"}
	case 20:
		z := uint32(g.i64())
		return gv{MyU32(z), gUint(true, "W32", uint64(z)), "named-uint32"}
	case 21:
		s := g.str()
		return gv{MyStr(s), gStr(true, s), "named-string"}
	case 22:
		b := g.rng.Intn(2) == 0
		return gv{MyBool(b), "(GBool true " + cb(b) + ")", "named-bool"}
	case 23:
		f := g.f64()
		return gv{MyF64(f), gFloat(true, false, f), "named-float64"}
	case 24:
		switch g.rng.Intn(4) {
		case 0:
			return gv{make(chan int), "(GOther 1)", "chan"}
		case 1:
			return gv{func() {}, "(GOther 2)", "func"}
		case 2:
			return gv{complex(1, 2), "(GOther 3)", "complex"}
		}
		return gv{unsafe.Pointer(nil), "(GOther 4)", "unsafe-pointer"}
	}
	t, c := g.tm()
	return gv{&t, "(GPtr (Some " + c + "))", "ptr-time"}
}

func (g *vgen) ints(n int) ([]int, []string) {
	xs := make([]int, n)
	cs := make([]string, n)
	for i := range xs {
		z := g.i64()
		xs[i], cs[i] = int(z), gInt(false, "WInt", z)
	}
	return xs, cs
}

func (g *vgen) value(depth int) gv {
	if depth <= 0 || g.rng.Intn(3) == 0 {
		return g.scalar()
	}
	n := g.rng.Intn(4)
	switch g.rng.Intn(30) {
	case 0: // []interface{}
		if g.rng.Intn(5) == 0 {
			return gv{[]interface{}(nil), "(GSlice [])", "nil-slice-iface"}
		}
		xs := make([]interface{}, n)
		cs := make([]string, n)
		for i := range xs {
			e := g.value(depth - 1)
			xs[i], cs[i] = e.v, "(GIface "+e.coq+")"
		}
		return gv{xs, gList("GSlice", cs), "slice-iface"}
	case 1: // []int
		if g.rng.Intn(4) == 0 {
			return gv{[]int(nil), "(GSlice [])", "nil-slice"}
		}
		xs, cs := g.ints(n)
		return gv{xs, gList("GSlice", cs), "slice-int"}
	case 2: // []string
		xs := make([]string, n)
		cs := make([]string, n)
		for i := range xs {
			xs[i] = g.str()
			cs[i] = gStr(false, xs[i])
		}
		return gv{xs, gList("GSlice", cs), "slice-string"}
	case 3: // []MyInt, []uint16
		if g.rng.Intn(2) == 0 {
			xs := make([]MyInt, n)
			cs := make([]string, n)
			for i := range xs {
				z := g.i64()
				xs[i], cs[i] = MyInt(z), gInt(true, "WInt", z)
			}
			return gv{xs, gList("GSlice", cs), "slice-named-int"}
		}
		xs := make([]uint16, n)
		cs := make([]string, n)
		for i := range xs {
			xs[i] = uint16(g.i64())
			cs[i] = gUint(false, "W16", uint64(xs[i]))
		}
		return gv{xs, gList("GSlice", cs), "slice-uint16"}
	case 4: // [][]int
		xs := make([][]int, n)
		cs := make([]string, n)
		for i := range xs {
			a, c := g.ints(g.rng.Intn(3))
			xs[i], cs[i] = a, gList("GSlice", c)
		}
		return gv{xs, gList("GSlice", cs), "slice-slice"}
	case 5: // []*int
		xs := make([]*int, n)
		cs := make([]string, n)
		for i := range xs {
			if g.rng.Intn(2) == 0 {
				cs[i] = "(GPtr None)"
			} else {
				z := int(g.i64())
				xs[i], cs[i] = &z, "(GPtr (Some "+gInt(false, "WInt", int64(z))+"))"
			}
		}
		return gv{xs, gList("GSlice", cs), "slice-ptr"}
	case 6: // arrays
		switch g.rng.Intn(4) {
		case 0:
			a, c := g.ints(2)
			return gv{[2]int{a[0], a[1]}, gList("GArray", c), "array-int"}
		case 1:
			return gv{[0]int{}, "(GArray [])", "array-empty"}
		case 2:
			a, b := g.value(depth-1), g.value(depth-1)
			return gv{[2]interface{}{a.v, b.v}, gList("GArray", []string{"(GIface " + a.coq + ")", "(GIface " + b.coq + ")"}), "array-iface"}
		}
		s1, s2, s3 := g.str(), g.str(), g.str()
		return gv{[3]string{s1, s2, s3}, gList("GArray", []string{gStr(false, s1), gStr(false, s2), gStr(false, s3)}), "array-string"}
	case 7: // map[string]interface{}
		if g.rng.Intn(5) == 0 {
			return gv{map[string]interface{}(nil), "(GMap [])", "nil-map-iface"}
		}
		m := map[string]interface{}{}
		var cs []string
		for i := 0; i < n; i++ {
			k := g.str()
			if _, dup := m[k]; dup {
				continue
			}
			e := g.value(depth - 1)
			m[k] = e.v
			cs = append(cs, "("+gStr(false, k)+", GIface "+e.coq+")")
		}
		return gv{m, gList("GMap", cs), "map-string-iface"}
	case 8: // map[string]int
		if g.rng.Intn(4) == 0 {
			return gv{map[string]int(nil), "(GMap [])", "nil-map"}
		}
		m := map[string]int{}
		var cs []string
		for i := 0; i < n; i++ {
			k := g.str()
			if _, dup := m[k]; dup {
				continue
			}
			z := g.i64()
			m[k] = int(z)
			cs = append(cs, "("+gStr(false, k)+", "+gInt(false, "WInt", z)+")")
		}
		return gv{m, gList("GMap", cs), "map-string-int"}
	case 9: // map[int]string
		m := map[int]string{}
		var cs []string
		for i := 0; i < n; i++ {
			k := int(g.i64())
			if _, dup := m[k]; dup {
				continue
			}
			s := g.str()
			m[k] = s
			cs = append(cs, "("+gInt(false, "WInt", int64(k))+", "+gStr(false, s)+")")
		}
		return gv{m, gList("GMap", cs), "map-int-key"}
	case 10: // map[MyStr]int, map[uint8]bool, map[bool]int, map[int64]interface{}
		switch g.rng.Intn(4) {
		case 0:
			m := map[MyStr]int{}
			var cs []string
			for i := 0; i < n; i++ {
				k := g.str()
				if _, dup := m[MyStr(k)]; dup {
					continue
				}
				z := g.i64()
				m[MyStr(k)] = int(z)
				cs = append(cs, "("+gStr(true, k)+", "+gInt(false, "WInt", z)+")")
			}
			return gv{m, gList("GMap", cs), "map-named-string-key"}
		case 1:
			m := map[uint8]bool{}
			var cs []string
			for i := 0; i < n; i++ {
				k := uint8(g.i64())
				if _, dup := m[k]; dup {
					continue
				}
				m[k] = i%2 == 0
				cs = append(cs, "("+gUint(false, "W8", uint64(k))+", (GBool false "+cb(i%2 == 0)+"))")
			}
			return gv{m, gList("GMap", cs), "map-uint-key"}
		case 2:
			return gv{map[bool]int{true: 1, false: 0}, "(GMap [((GBool false true), " + gInt(false, "WInt", 1) + "); ((GBool false false), " + gInt(false, "WInt", 0) + ")])", "map-bool-key"}
		}
		m := map[int64]interface{}{}
		var cs []string
		for i := 0; i < n; i++ {
			k := g.i64()
			if _, dup := m[k]; dup {
				continue
			}
			e := g.value(depth - 1)
			m[k] = e.v
			cs = append(cs, "("+gInt(false, "W64", k)+", GIface "+e.coq+")")
		}
		return gv{m, gList("GMap", cs), "map-int64-key-iface"}
	case 11: // *int, *string, **int, nil pointers
		switch g.rng.Intn(6) {
		case 0:
			return gv{(*int)(nil), "(GPtr None)", "nil-ptr"}
		case 1:
			z := int(g.i64())
			return gv{&z, "(GPtr (Some " + gInt(false, "WInt", int64(z)) + "))", "ptr-int"}
		case 2:
			s := g.str()
			return gv{&s, "(GPtr (Some " + gStr(false, s) + "))", "ptr-string"}
		case 3:
			z := int(g.i64())
			p := &z
			return gv{&p, "(GPtr (Some (GPtr (Some " + gInt(false, "WInt", int64(z)) + "))))", "ptr-ptr"}
		case 4:
			var p *int
			return gv{&p, "(GPtr (Some (GPtr None)))", "ptr-nil-ptr"}
		}
		var i interface{}
		return gv{&i, "(GPtr (Some (GIface GNil)))", "ptr-nil-iface"}
	case 12, 13: // Inner, *Inner
		in, c := g.inner()
		if g.rng.Intn(2) == 0 {
			return gv{in, c, "struct"}
		}
		return gv{&in, "(GPtr (Some " + c + "))", "ptr-struct"}
	case 14, 15, 16: // Pub
		return g.pub(depth)
	case 17, 18: // Mixed (unexported fields)
		a, s := g.i64(), g.str()
		b := g.rng.Intn(2) == 0
		m := Mixed{A: int(a), hidden: s, B: b}
		sec := "(GPtr None)"
		if g.rng.Intn(2) == 0 {
			in, c := g.inner()
			m.secret, sec = &in, "(GPtr (Some "+c+"))"
		}
		c := gStruct(gField("A", true, gInt(false, "WInt", a)), gField("hidden", false, gStr(false, s)),
			gField("B", true, "(GBool false "+cb(b)+")"), gField("secret", false, sec))
		if g.rng.Intn(2) == 0 {
			return gv{m, c, "struct-unexported"}
		}
		return gv{&m, "(GPtr (Some " + c + "))", "ptr-struct-unexported"}
	case 19:
		x, ys := g.i64(), []string{g.str()}
		return gv{OnlyHidden{int(x), ys}, gStruct(gField("x", false, gInt(false, "WInt", x)), gField("y", false, gList("GSlice", []string{gStr(false, ys[0])}))), "struct-only-unexported"}
	case 20, 21: // Deep
		return g.deep(depth)
	case 22:
		return gv{Empty{}, "(GStruct [])", "struct-empty"}
	case 23:
		in, c := g.inner()
		z := uint8(g.i64())
		return gv{Embedded{in, z}, gStruct(gField("Inner", true, c), gField("Z", true, gUint(false, "W8", uint64(z)))), "struct-embedded"}
	case 24: // slice of structs / map of structs
		xs := make([]Inner, n)
		cs := make([]string, n)
		for i := range xs {
			xs[i], cs[i] = g.inner()
		}
		return gv{xs, gList("GSlice", cs), "slice-struct"}
	case 25: // anonymous struct with time and interface
		t, tc := g.tm()
		e := g.value(depth - 1)
		return gv{struct {
			T time.Time
			I interface{}
			E struct{}
		}{t, e.v, struct{}{}}, gStruct(gField("T", true, tc), gField("I", true, "(GIface "+e.coq+")"), gField("E", true, "(GStruct [])")), "struct-anon"}
	case 26: // map[string][]int
		m := map[string][]int{}
		var cs []string
		for i := 0; i < n; i++ {
			k := g.str()
			if _, dup := m[k]; dup {
				continue
			}
			a, c := g.ints(g.rng.Intn(3))
			m[k] = a
			cs = append(cs, "("+gStr(false, k)+", "+gList("GSlice", c)+")")
		}
		return gv{m, gList("GMap", cs), "map-string-slice"}
	case 27: // pointer to slice / map
		a, c := g.ints(n)
		return gv{&a, "(GPtr (Some " + gList("GSlice", c) + "))", "ptr-slice"}
	}
	return g.scalar()
}

func (g *vgen) pub(depth int) gv {
	a, b := g.i64(), g.str()
	c, cc := g.ints(g.rng.Intn(3))
	d := map[string]int{}
	var dc []string
	for i := 0; i < g.rng.Intn(3); i++ {
		k := g.str()
		if _, dup := d[k]; dup {
			continue
		}
		z := g.i64()
		d[k] = int(z)
		dc = append(dc, "("+gStr(false, k)+", "+gInt(false, "WInt", z)+")")
	}
	p := Pub{A: int(a), B: b, C: c, D: d}
	ec := "(GPtr None)"
	if g.rng.Intn(2) == 0 {
		in, c := g.inner()
		p.E, ec = &in, "(GPtr (Some "+c+"))"
	}
	var fc string
	p.F, fc = g.inner()
	e := g.value(depth - 1)
	p.G = e.v
	h := float32(g.f64())
	if math.IsInf(float64(h), 0) {
		h = 2
	}
	p.H = h
	p.I = uint16(g.i64())
	var tc, bc string
	p.T, tc = g.tm()
	p.Bs, bc = g.bytes()
	u := g.i64()
	p.U = MyInt(u)
	coq := gStruct(gField("A", true, gInt(false, "WInt", a)), gField("B", true, gStr(false, b)), gField("C", true, gList("GSlice", cc)),
		gField("D", true, gList("GMap", dc)), gField("E", true, ec), gField("F", true, fc), gField("G", true, "(GIface "+e.coq+")"),
		gField("H", true, gFloat(false, true, float64(h))), gField("I", true, gUint(false, "W16", uint64(p.I))), gField("T", true, tc),
		gField("Bs", true, bc), gField("U", true, gInt(true, "WInt", u)))
	if g.rng.Intn(2) == 0 {
		return gv{p, coq, "struct-wide"}
	}
	return gv{&p, "(GPtr (Some " + coq + "))", "ptr-struct-wide"}
}

func (g *vgen) deep(depth int) gv {
	var d Deep
	pc, mc, ppc := "(GPtr None)", "(GPtr None)", "(GPtr None)"
	if g.rng.Intn(2) == 0 {
		p := g.pub(depth - 1)
		switch pv := p.v.(type) {
		case Pub:
			d.P, pc = &pv, "(GPtr (Some "+p.coq+"))"
		case *Pub:
			d.P, pc = pv, p.coq
		}
	}
	if g.rng.Intn(3) == 0 {
		a := g.i64()
		d.M = &Mixed{A: int(a)}
		mc = "(GPtr (Some " + gStruct(gField("A", true, gInt(false, "WInt", a)), gField("hidden", false, gStr(false, "")),
			gField("B", true, "(GBool false false)"), gField("secret", false, "(GPtr None)")) + "))"
	}
	var lc []string
	for i := 0; i < g.rng.Intn(3); i++ {
		in, c := g.inner()
		d.L = append(d.L, in)
		lc = append(lc, c)
	}
	d.Mp = map[string]Inner{}
	var mpc []string
	for i := 0; i < g.rng.Intn(3); i++ {
		k := g.str()
		if _, dup := d.Mp[k]; dup {
			continue
		}
		in, c := g.inner()
		d.Mp[k] = in
		mpc = append(mpc, "("+gStr(false, k)+", "+c+")")
	}
	var a0, a1 string
	d.Arr[0], a0 = g.inner()
	d.Arr[1], a1 = g.inner()
	if g.rng.Intn(2) == 0 {
		z := int(g.i64())
		p := &z
		d.PP, ppc = &p, "(GPtr (Some (GPtr (Some "+gInt(false, "WInt", int64(z))+"))))"
	}
	var anyc []string
	for i := 0; i < g.rng.Intn(3); i++ {
		e := g.value(depth - 1)
		d.Any = append(d.Any, e.v)
		anyc = append(anyc, "(GIface "+e.coq+")")
	}
	coq := gStruct(gField("P", true, pc), gField("M", true, mc), gField("L", true, gList("GSlice", lc)), gField("Mp", true, gList("GMap", mpc)),
		gField("Arr", true, gList("GArray", []string{a0, a1})), gField("PP", true, ppc), gField("Any", true, gList("GSlice", anyc)))
	return gv{d, coq, "struct-deep"}
}

// decoded JSON rendered as a model value
func jsonToCoq(x interface{}) string {
	switch v := x.(type) {
	case nil:
		return "VNone"
	case bool:
		return "(VBool " + cb(v) + ")"
	case json.Number:
		s := string(v)
		if !strings.ContainsAny(s, ".eE") {
			if z, err := strconv.ParseInt(s, 10, 64); err == nil {
				return "(VInt " + CoqZ(z) + ")"
			}
		}
		f, _ := strconv.ParseFloat(s, 64)
		return fmt.Sprintf("(VFloat %d%%N)", math.Float64bits(f))
	case string:
		return "(VStr " + Hx([]byte(v)) + ")"
	case []interface{}:
		p := make([]string, len(v))
		for i, e := range v {
			p[i] = jsonToCoq(e)
		}
		return "(VArr [" + strings.Join(p, "; ") + "])"
	case map[string]interface{}:
		keys := make([]string, 0, len(v))
		for k := range v {
			keys = append(keys, k)
		}
		sort.Strings(keys)
		p := make([]string, len(keys))
		for i, k := range keys {
			p[i] = "(" + Hx([]byte(k)) + ", " + jsonToCoq(v[k]) + ")"
		}
		return "(VObj [" + strings.Join(p, "; ") + "])"
	}
	return "VNone"
}

type vobs struct{ coq, text string }

func observeParse(v interface{}) (o vobs) {
	defer func() {
		if r := recover(); r != nil {
			o = vobs{"OP", "panic: " + fmt.Sprint(r)}
		}
	}()
	r := values.Parse(v)
	return vobs{"(OV " + CoqValue(r) + ")", r.String()}
}

func short(s string, n int) string {
	if len(s) > n {
		return s[:n] + "..."
	}
	return s
}

// supplyOptions hands the same parameter set to Run in one of five ways (one
// WithParams; one WithParam per name; WithParam for the first half then
// WithParams for the rest; two WithParams; WithParams then WithParam): what is
// supplied is the union, whatever the options used
func supplyOptions(ps map[string]interface{}, style int) []runtime.Option {
	var names []string
	for n := range ps {
		names = append(names, n)
	}
	sort.Strings(names)
	half := len(names) / 2
	sub := func(ns []string) map[string]interface{} {
		out := map[string]interface{}{}
		for _, n := range ns {
			out[n] = ps[n]
		}
		return out
	}
	var opts []runtime.Option
	switch style % 5 {
	case 0:
		opts = append(opts, runtime.WithParams(ps))
	case 1:
		for _, n := range names {
			opts = append(opts, runtime.WithParam(n, ps[n]))
		}
	case 2:
		for _, n := range names[:half] {
			opts = append(opts, runtime.WithParam(n, ps[n]))
		}
		opts = append(opts, runtime.WithParams(sub(names[half:])))
	case 3:
		opts = append(opts, runtime.WithParams(sub(names[:half])), runtime.WithParams(sub(names[half:])))
	default:
		opts = append(opts, runtime.WithParams(sub(names[:half])))
		for _, n := range names[half:] {
			opts = append(opts, runtime.WithParam(n, ps[n]))
		}
	}
	return opts
}

func main() {
	out, tier, seed, _ := Args()
	rng := rand.New(rand.NewSource(seed))
	nProg, nVal := 260, 1600
	if tier == "thorough" {
		nProg, nVal = 2500, 12000
	}
	m := NewMeta("C10", tier, seed)
	m.Rule = "part 1: one evaluation = one Run of a generated program with one set of supplied parameter names (all subsets of the mentioned names, each also with extras) or one Params() call; non-trivial = the program mentions at least one parameter; part 2: one evaluation = one Go value converted three ways (values.Parse, seen by the query as @p, JSON of RETURN @p); non-trivial = not a bare scalar; distinct = distinct (program text, supplied set) / distinct rendered Go values"
	ctx := context.Background()
	started := false
	var taken core.Value
	c := compiler.New()
	Must(c.RegisterFunction("MARK", func(_ context.Context, _ ...core.Value) (core.Value, error) {
		started = true
		return values.None, nil
	}))
	Must(c.RegisterFunction("ID", func(_ context.Context, args ...core.Value) (core.Value, error) {
		if len(args) > 0 {
			return args[0], nil
		}
		return values.None, nil
	}))
	Must(c.RegisterFunction("TAKE", func(_ context.Context, args ...core.Value) (core.Value, error) {
		taken = args[0]
		return values.None, nil
	}))

	distinct := map[string]struct{}{}
	nb := &nameBook{idx: map[string]int{}}
	var progC []string
	var progIdx []interface{}
	for i := 0; i < nProg; i++ {
		p := genProgram(rng, nb)
		for k, v := range p.positions {
			m.Distribution["position:"+k] += v
		}
		m.Count(fmt.Sprintf("program:params%d", len(p.names)))
		entry := map[string]interface{}{"text": p.text, "names": p.names}
		var prog *runtime.Program
		var cerr error
		func() {
			defer func() {
				if r := recover(); r != nil {
					cerr = fmt.Errorf("panic: %v", r)
				}
			}()
			prog, cerr = c.Compile(p.text)
		}()
		if cerr != nil {
			m.Count("program:compile-error")
			entry["compile_error"] = short(cerr.Error(), 200)
			reservedUsed := []string{}
			for _, n := range p.names {
				for _, r := range reservedNames {
					if n == r && strings.Contains(p.text, "@"+n) {
						reservedUsed = append(reservedUsed, n)
					}
				}
			}
			entry["reserved"] = reservedUsed
			progC = append(progC, fmt.Sprintf("(%s, false, [], [])", p.shape))
			progIdx = append(progIdx, entry)
			m.Evaluations++
			continue
		}
		// the slice Params() returns belongs to the caller: scribbling on it must change neither what a
		// later Params() reports nor what Run requires
		scratch := prog.Params()
		for j := range scratch {
			scratch[j] = "@" + scratch[j]
		}
		if len(scratch) > 1 {
			scratch[0], scratch[len(scratch)-1] = scratch[len(scratch)-1], scratch[0]
			scratch = scratch[:1]
		}
		_ = scratch
		params := append([]string{}, prog.Params()...)
		sort.Strings(params)
		entry["params"] = params
		m.Evaluations++
		// every subset of the names the generator was allowed to mention, with and without extras
		k := len(p.names)
		var runsC []string
		var runsIdx []interface{}
		for mask := 0; mask < 1<<uint(k); mask++ {
			for extra := 0; extra < 2; extra++ {
				if extra == 1 && mask%3 != 0 && k > 2 {
					continue
				}
				sup := []string{}
				ps := map[string]interface{}{}
				for j := 0; j < k; j++ {
					if mask&(1<<uint(j)) != 0 {
						sup = append(sup, p.names[j])
						ps[p.names[j]] = 1
					}
				}
				if extra == 1 {
					for _, e := range []string{"zz", "extra", "Zq"} {
						sup = append(sup, e)
						ps[e] = "x"
					}
					if k > 0 { // the same name in another case is a different parameter
						alt := strings.ToUpper(p.names[0])
						if alt == p.names[0] {
							alt = strings.ToLower(alt)
						}
						dup := false
						for _, n := range p.names {
							dup = dup || n == alt
						}
						if !dup {
							sup = append(sup, alt)
							ps[alt] = 2
						}
					}
				}
				cls, names, errText := 0, []string{}, ""
				func() {
					defer func() {
						if r := recover(); r != nil {
							cls, errText = 3, fmt.Sprint(r)
						}
					}()
					started = false
					rctx, cancel := context.WithTimeout(ctx, 2*time.Second)
					defer cancel()
					_, err := prog.Run(rctx, append(supplyOptions(ps, len(runsC)), runtime.WithLog(Discard))...)
					switch {
					case started:
						cls = 0
					case err == nil:
						cls, errText = 2, "no error and not started"
					default:
						errText = err.Error()
						seen := map[string]bool{}
						for _, mm := range atName.FindAllStringSubmatch(errText, -1) {
							if !seen[mm[1]] {
								seen[mm[1]] = true
								names = append(names, mm[1])
							}
						}
						cls = 1
						if len(names) == 0 {
							cls = 2
						}
					}
				}()
				runsC = append(runsC, fmt.Sprintf("(%s, (%d, %s))", nb.ids(sup), cls, nb.ids(names)))
				runsIdx = append(runsIdx, map[string]interface{}{"supplied": sup, "class": []string{"started", "refused", "failed-before-start", "panic-escaped"}[cls], "named": names, "error": short(errText, 160)})
				m.Evaluations++
				m.Count("run:" + []string{"started", "refused", "failed-before-start", "panic-escaped"}[cls])
				if k > 0 {
					sort.Strings(sup)
					distinct[p.text+"|"+strings.Join(sup, ",")] = struct{}{}
				}
			}
		}
		entry["runs"] = runsIdx
		progC = append(progC, fmt.Sprintf("(%s, true, %s,\n   [%s])", p.shape, nb.ids(params), strings.Join(runsC, "; ")))
		progIdx = append(progIdx, entry)
		if len(m.Samples) < 3 && k >= 2 && i%5 == 0 {
			m.Samples = append(m.Samples, map[string]interface{}{"program": p.text, "params": params, "runs": runsIdx[:3]})
		}
	}

	// part 2
	takeProg, err := c.Compile("RETURN TAKE(@p)")
	Must(err)
	retProg, err := c.Compile("RETURN @p")
	Must(err)
	vg := &vgen{rng}
	var valC []string
	var valIdx []interface{}
	for i := 0; i < nVal; i++ {
		g := vg.value(3)
		m.Count("value:" + g.tag)
		op := observeParse(g.v)
		var os_, oj vobs
		func() {
			defer func() {
				if r := recover(); r != nil {
					os_ = vobs{"OP", "panic escaped Run: " + fmt.Sprint(r)}
				}
			}()
			taken = nil
			_, err := takeProg.Run(ctx, runtime.WithParam("p", g.v), runtime.WithLog(Discard))
			if err != nil || taken == nil {
				os_ = vobs{"OE", fmt.Sprint("error: ", err)}
				return
			}
			os_ = vobs{"(OV " + CoqValue(taken) + ")", taken.String()}
		}()
		func() {
			defer func() {
				if r := recover(); r != nil {
					oj = vobs{"OP", "panic escaped Run: " + fmt.Sprint(r)}
				}
			}()
			outb, err := retProg.Run(ctx, runtime.WithParam("p", g.v), runtime.WithLog(Discard))
			if err != nil {
				oj = vobs{"OE", "error: " + err.Error()}
				return
			}
			dec := json.NewDecoder(bytes.NewReader(outb))
			dec.UseNumber()
			var x interface{}
			if err := dec.Decode(&x); err != nil {
				oj = vobs{"OE", "invalid JSON: " + string(outb)}
				return
			}
			oj = vobs{"(OV " + jsonToCoq(x) + ")", string(outb)}
		}()
		for _, o := range []vobs{op, os_, oj} {
			if o.coq == "OP" {
				m.Count("value-outcome:panic")
			}
		}
		valC = append(valC, fmt.Sprintf("(%s,\n  %s,\n  %s,\n  %s)", g.coq, op.coq, os_.coq, oj.coq))
		valIdx = append(valIdx, map[string]interface{}{"go": short(fmt.Sprintf("%#v", g.v), 400), "model": short(g.coq, 600), "tag": g.tag,
			"parse": short(op.text, 300), "seen": short(os_.text, 300), "json": short(oj.text, 300)})
		m.Evaluations++
		if !strings.HasPrefix(g.coq, "(GInt") && !strings.HasPrefix(g.coq, "(GUint") && !strings.HasPrefix(g.coq, "(GBool") && g.coq != "GNil" &&
			!strings.HasPrefix(g.coq, "(GFloat") && !strings.HasPrefix(g.coq, "(GString") {
			distinct["v|"+g.coq] = struct{}{}
		}
		if len(m.Samples) < 6 && i%97 == 11 {
			m.Samples = append(m.Samples, valIdx[len(valIdx)-1])
		}
	}
	m.DistinctNontrivial = len(distinct)

	// case files: programs in chunks of 70, values in chunks of 250
	var files []string
	write := func(progs []string, firstProg int, vals []string, firstVal int) {
		name := fmt.Sprintf("cases%d.v", len(files))
		files = append(files, name)
		f, err := os.Create(filepath.Join(out, name))
		Must(err)
		w := bufio.NewWriterSize(f, 1<<20)
		fmt.Fprintln(w, "From Ferret Require Import Params Check.C10.")
		fmt.Fprintln(w, "Local Open Scope N_scope.")
		nbc := make([]string, len(nb.names))
		for i, n := range nb.names {
			nbc[i] = `bs "` + CoqEscape(n) + `"`
		}
		fmt.Fprintf(w, "Definition NB : list bytes := [%s].\n", strings.Join(nbc, "; "))
		fmt.Fprintln(w, "Definition P (i : N) := SParam (nm_of NB i).\nDefinition L := SLeaf.\nDefinition Nd := SNode.")
		fmt.Fprintf(w, "Definition PROGS : list prog_case := [\n %s\n].\n", strings.Join(progs, ";\n "))
		fmt.Fprintln(w, "Local Close Scope N_scope.")
		fmt.Fprintf(w, "Definition VALS : list val_case := [\n %s\n].\n", strings.Join(vals, ";\n "))
		fmt.Fprintf(w, "Definition M := Eval vm_compute in mismatches NB %d%%N PROGS %d%%N VALS.\nPrint M.\n", firstProg, firstVal)
		Must(w.Flush())
		Must(f.Close())
	}
	for i := 0; i < len(progC); i += 70 {
		j := i + 70
		if j > len(progC) {
			j = len(progC)
		}
		write(progC[i:j], i, nil, 0)
	}
	for i := 0; i < len(valC); i += 250 {
		j := i + 250
		if j > len(valC) {
			j = len(valC)
		}
		write(nil, 0, valC[i:j], i)
	}
	m.Files = files
	m.Index["prog"] = progIdx
	m.Index["val"] = valIdx
	m.Write(out)
}
