package fqlast

import (
	"fmt"
	"math/rand"
)

// Gen is a seeded generator of well-scoped core-language programs.
type Gen struct {
	R        *rand.Rand
	MaxDepth int
	Params   []string // parameter names that will be supplied
	NoCalls  bool     // do not generate library calls
	Faulty   int      // 1 in Faulty calls is FAIL(); 0 = never
	Wild     int      // C03: 1 in Wild variable references ignores the scoping rules (0 = never)
	Redecl   int      // C03: 1 in Redecl declarations reuses an existing name (0 = never)
	Ignore   int      // C03: 1 in Ignore loop variables / LET targets is the ignore variable _
	LimitVar int      // C03: 1 in LimitVar LIMIT operands is a variable
	scopes   [][]string
	fresh    int
	inSort   int // inside a sort / group key: no calls (comparator call counts are not part of the semantics)
	Stats    map[string]int
}

func NewGen(r *rand.Rand, depth int) *Gen {
	return &Gen{R: r, MaxDepth: depth, Params: []string{"n", "arr", "obj", "s", "f", "big"}, Faulty: 12,
		scopes: [][]string{{}}, Stats: map[string]int{}}
}

func (g *Gen) push()            { g.scopes = append(g.scopes, []string{}) }
func (g *Gen) pop()             { g.scopes = g.scopes[:len(g.scopes)-1] }
func (g *Gen) declare(x string) { g.scopes[len(g.scopes)-1] = append(g.scopes[len(g.scopes)-1], x) }
func (g *Gen) clearTop()        { g.scopes[len(g.scopes)-1] = []string{} }
func (g *Gen) visible() []string {
	var out []string
	for _, f := range g.scopes {
		out = append(out, f...)
	}
	return out
}
func (g *Gen) freshName() string {
	if g.Redecl > 0 && g.fresh > 0 && g.pick(g.Redecl) == 0 {
		g.count("decl:reused-name")
		return fmt.Sprintf("x%d", 1+g.pick(g.fresh))
	}
	g.fresh++
	return fmt.Sprintf("x%d", g.fresh)
}

// wildName: any name the program declares somewhere (before or after this
// point, in any scope) or never declares.
func (g *Gen) wildName() string {
	g.count("ref:wild")
	return fmt.Sprintf("x%d", 1+g.pick(g.fresh+3))
}

func (g *Gen) loopVar() string {
	if g.Ignore > 0 && g.pick(g.Ignore) == 0 {
		g.count("decl:ignore")
		return "_"
	}
	return g.freshName()
}

// shadowName: a name for a variable declared in a NEW scope (loop variable,
// COLLECT output): 1 in 4 reuses a name visible from outside, which is legal
// shadowing and must neither be rejected nor collide at run time.
func (g *Gen) shadowName(avoid ...string) string {
	vis := g.visible()
	if len(vis) > 0 && g.pick(4) == 0 {
		x := vis[g.pick(len(vis))]
		for _, a := range avoid {
			if a == x {
				return g.freshName()
			}
		}
		g.count("decl:shadow")
		return x
	}
	return g.freshName()
}
func (g *Gen) pick(n int) int { return g.R.Intn(n) }
func (g *Gen) count(k string) { g.Stats[k]++ }

var intPool = []int64{0, 1, 2, 3, 5, 10, -1, -3, 7, 100, 2147483648, 9223372036854775807}
var floatPool = []float64{0.5, 1.5, 2.0, -0.25, 3.0, 0.0, 1024.0, 2.5}
var strPool = []string{"", "a", "b", "ab", "10", "-3", "x y", "é", "A", "abc", "7"}
var keyPool = []string{"a", "b", "c", "k"}

func (g *Gen) Leaf() *E {
	vis := g.visible()
	if g.Wild > 0 && g.pick(g.Wild) == 0 {
		return Var(g.wildName())
	}
	switch n := g.pick(12); {
	case n < 3 && len(vis) > 0:
		g.count("leaf:var")
		return Var(vis[g.pick(len(vis))])
	case n < 5:
		g.count("leaf:param")
		return Param(g.Params[g.pick(len(g.Params))])
	case n < 8:
		g.count("leaf:int")
		return Int(intPool[g.pick(len(intPool))])
	case n == 8:
		g.count("leaf:float")
		return Float(floatPool[g.pick(len(floatPool))])
	case n == 9:
		g.count("leaf:str")
		return Str(strPool[g.pick(len(strPool))])
	case n == 10:
		g.count("leaf:bool")
		return Bool(g.pick(2) == 0)
	}
	g.count("leaf:none")
	return None()
}

// rangeOperand / limit operands: integer literal, variable, parameter only.
func (g *Gen) smallInt() *E { return Int(int64(g.pick(6))) }
func (g *Gen) rangeOperand() *E {
	if g.pick(5) == 0 {
		return Param("n")
	}
	return g.smallInt()
}

func (g *Gen) memberSource(d int) *E {
	vis := g.visible()
	switch n := g.pick(6); {
	case n == 0 && len(vis) > 0:
		return Var(vis[g.pick(len(vis))])
	case n == 1:
		return Param([]string{"arr", "obj", "s"}[g.pick(3)])
	case n == 2:
		return g.arrayLit(d)
	case n == 3:
		return g.objectLit(d)
	case n == 4 && !g.NoCalls && g.inSort == 0:
		return Call("ARR", g.Expr(d-1), g.Expr(d-1))
	}
	return Param("obj")
}

func (g *Gen) arrayLit(d int) *E {
	n := g.pick(4)
	l := make([]*E, n)
	for i := range l {
		l[i] = g.Expr(d - 1)
	}
	return Arr(l...)
}

func (g *Gen) objectLit(d int) *E {
	n := g.pick(3)
	ps := make([]Prop, 0, n)
	for i := 0; i < n; i++ {
		vis := g.visible()
		switch k := g.pick(8); {
		case k == 0 && len(vis) > 0:
			ps = append(ps, Prop{Kind: "short", Name: vis[g.pick(len(vis))]})
		case k == 1:
			ps = append(ps, Prop{Kind: "computed", Key: g.Expr(d - 1), Val: g.Expr(d - 1)})
		case k == 2:
			ps = append(ps, Prop{Kind: "computed", Key: Param("s"), Val: g.Expr(d - 1)})
		case k == 3:
			ps = append(ps, Prop{Kind: "named", Name: strPool[1+g.pick(len(strPool)-1)], Val: g.Expr(d - 1)})
		default:
			ps = append(ps, Prop{Kind: "named", Name: keyPool[g.pick(len(keyPool))], Val: g.Expr(d - 1)})
		}
	}
	return Obj(ps...)
}

func (g *Gen) call(d int) *E {
	if g.Faulty > 0 && g.pick(g.Faulty) == 0 {
		g.count("call:FAIL")
		return Call("FAIL")
	}
	if g.pick(3) == 0 {
		g.count("call:ARR")
		return Call("ARR", g.Expr(d-1), g.Expr(d-1))
	}
	g.count("call:T")
	g.fresh++
	return Call("T", Int(int64(1000+g.fresh)), g.Expr(d-1))
}

var cmpOps = []string{"==", "!=", "<", "<=", ">", ">="}
var mathOps = []string{"+", "-", "*", "/", "%", "+", "-", "*"}

// Expr generates an expression of nesting depth at most d.
func (g *Gen) Expr(d int) *E {
	if d <= 0 || g.pick(5) == 0 {
		return g.Leaf()
	}
	switch n := g.pick(28); {
	case n < 5:
		g.count("expr:math")
		return Math(mathOps[g.pick(len(mathOps))], g.Expr(d-1), g.Expr(d-1))
	case n < 8:
		g.count("expr:cmp")
		return Cmp(cmpOps[g.pick(6)], g.Expr(d-1), g.Expr(d-1))
	case n < 10:
		g.count("expr:log")
		return Log([]string{"AND", "OR", "&&", "||"}[g.pick(4)], g.Expr(d-1), g.Expr(d-1))
	case n == 10:
		g.count("expr:un")
		return Un([]string{"!", "NOT", "-", "+"}[g.pick(4)], g.Expr(d-1))
	case n == 11:
		g.count("expr:cond")
		if g.pick(4) == 0 {
			return Cond(g.Expr(d-1), nil, g.Expr(d-1))
		}
		return Cond(g.Expr(d-1), g.Expr(d-1), g.Expr(d-1))
	case n == 12:
		g.count("expr:in")
		return In(g.pick(3) == 0, g.Expr(d-1), g.arrayLit(d))
	case n == 13:
		g.count("expr:quant")
		e := &E{K: "quant", Op: []string{"ALL", "ANY", "NONE"}[g.pick(3)], A: g.arrayLit(d), B: g.Expr(d - 1)}
		if g.pick(3) == 0 {
			e.QIn = true
			e.Neg = g.pick(3) == 0
			e.B = g.arrayLit(d)
		} else {
			e.Str = cmpOps[g.pick(6)]
		}
		return e
	case n == 14:
		g.count("expr:range")
		return Range(g.rangeOperand(), g.rangeOperand())
	case n < 17:
		g.count("expr:arr")
		return g.arrayLit(d)
	case n == 17:
		g.count("expr:obj")
		return g.objectLit(d)
	case n < 20:
		g.count("expr:member")
		np := 1 + g.pick(2)
		path := make([]Seg, np)
		for i := range path {
			opt := g.pick(4) == 0
			switch g.pick(4) {
			case 0:
				path[i] = Seg{Optional: opt, Name: keyPool[g.pick(len(keyPool))]}
			case 1:
				path[i] = Seg{Optional: opt, Expr: Int(int64(g.pick(4) - (g.pick(8) / 7)))}
			case 2:
				path[i] = Seg{Optional: opt, Expr: g.Expr(d - 1)}
			default:
				path[i] = Seg{Optional: opt, Expr: Str(keyPool[g.pick(len(keyPool))])}
			}
		}
		return Member(g.memberSource(d), path...)
	case n < 23:
		if g.NoCalls || g.inSort > 0 {
			return g.Leaf()
		}
		c := g.call(d)
		if g.pick(4) == 0 {
			g.count("expr:suppress-call")
			return Suppress(c)
		}
		return c
	case n == 23:
		g.count("expr:suppress-paren")
		return Suppress(g.Expr(d - 1))
	case n == 24:
		// LIKE / NOT LIKE with a glob from the modelled subset (* ? literals)
		g.count("expr:like")
		subj := []*E{Str("abc"), Str("a"), Str(""), Str("abbc"), Param("s"), Str("x y"), Str("10"), g.Leaf()}[g.pick(8)]
		pat := []string{"a*", "*c", "a?c", "*", "??", "abc", "a*c", "", "x*y", "1?", "*b*"}[g.pick(11)]
		var pe *E = Str(pat)
		if vis := g.visible(); len(vis) > 0 && g.pick(3) == 0 {
			pe = Var(vis[len(vis)-1-g.pick(min(2, len(vis)))]) // a recently bound variable: loops over patterns exercise one LIKE node with many patterns
			g.count("like:variable-pattern")
		}
		return &E{K: "like", Neg: g.pick(3) == 0, A: subj, B: pe}
	case n == 25:
		// =~ / !~ with a regular expression from the modelled subset
		g.count("expr:regex")
		subj := []*E{Str("abc"), Str("a"), Str(""), Str("abbc"), Param("s"), Str("x y"), Str("10"), Int(105)}[g.pick(8)]
		pat := []string{"a", "b+c", "^a", "c$", "^a.*c$", "x?a", "a.c", "10*", "^$", " ", "b*", "^b"}[g.pick(12)]
		return &E{K: "regex", Neg: g.pick(3) == 0, A: subj, B: Str(pat)}
	default:
		if d < 2 {
			return g.Leaf()
		}
		g.count("expr:subquery")
		return Sub(g.For(d - 1))
	}
}

func min(a, b int) int {
	if a < b {
		return a
	}
	return b
}

func (g *Gen) forSource(d int) *E {
	vis := g.visible()
	if g.pick(14) == 0 {
		// patterns, for LIKE with a variable pattern
		return Arr(Str("a*"), Str("*c"), Str("??"), Str("*"), Str("abc"))
	}
	if g.pick(12) == 0 {
		g.count("for:big-source")
		return Param("big")
	}
	switch n := g.pick(10); {
	case n < 3:
		k := g.pick(4)
		l := make([]*E, k)
		for i := range l {
			l[i] = g.Expr(d - 2)
		}
		return Arr(l...)
	case n < 5:
		return Range(g.smallInt(), g.smallInt())
	case n < 7:
		return Param("arr")
	case n == 7 && len(vis) > 0:
		return Var(vis[g.pick(len(vis))])
	case n == 8 && !g.NoCalls:
		return Call("ARR", g.Expr(d-2), g.Expr(d-2), g.Expr(d-2))
	}
	return Member(Param("obj"), Seg{Name: "list"})
}

// For generates a loop; the generator's scope discipline mirrors the
// language's: the loop opens a scope, COLLECT hides what the loop declared.
func (g *Gen) For(d int) *For {
	q := &For{}
	g.count("for")
	if g.pick(9) == 0 {
		// FOR x WHILE cond: the condition is compiled in the enclosing scope;
		// keep it terminating: a comparison with the counter is impossible, so use
		// a constant false / a DO loop running once.
		q.While = true
		q.DoFirst = g.pick(2) == 0
		q.Cond = Bool(false)
		if g.pick(3) == 0 {
			q.Cond = Cmp("<", Int(3), Int(int64(g.pick(3))))
		}
		g.count("for:while")
	} else {
		q.Src = g.forSource(d)
	}
	if g.Ignore > 0 && g.pick(g.Ignore) == 0 {
		q.Val = "_"
	} else {
		q.Val = g.shadowName()
	}
	g.push()
	defer g.pop()
	if q.Val != "_" {
		g.declare(q.Val)
	}
	if !q.While && g.pick(4) == 0 {
		q.Key = g.shadowName(q.Val)
		g.declare(q.Key)
	}
	nb := g.pick(6)
	for i := 0; i < nb; i++ {
		switch k := g.pick(12); {
		case k < 3:
			x := g.loopVar()
			e := g.Expr(d - 1)
			if x != "_" {
				g.declare(x)
			}
			q.Body = append(q.Body, Clause{K: "let", Name: x, E: e})
			g.count("clause:let")
		case k == 3 && !g.NoCalls:
			q.Body = append(q.Body, Clause{K: "call", E: g.call(d)})
			g.count("clause:call")
		case k < 6:
			q.Body = append(q.Body, Clause{K: "filter", E: noLeadingParen(g.filterExpr(d))})
			g.count("clause:filter")
		case k < 8:
			nk := 1 + g.pick(2)
			keys := make([]SortKey, nk)
			g.inSort++
			for j := range keys {
				keys[j] = SortKey{E: noLeadingParen(g.sortKey(d))}
				switch g.pick(3) {
				case 0:
					keys[j].Dir, keys[j].Desc = "DESC", true
				case 1:
					keys[j].Dir = "ASC"
				}
			}
			g.inSort--
			q.Body = append(q.Body, Clause{K: "sort", Keys: keys})
			g.count("clause:sort")
		case k < 10:
			c := Clause{K: "limit", Count: g.smallInt()}
			if g.pick(2) == 0 {
				c.Offset = g.smallInt()
			}
			if g.pick(6) == 0 {
				c.Count = Param("n")
			}
			if g.LimitVar > 0 && g.pick(g.LimitVar) == 0 {
				vis := g.visible()
				if len(vis) > 0 && g.pick(3) > 0 {
					c.Count = Var(vis[g.pick(len(vis))])
				} else {
					c.Count = Var(g.wildName())
				}
				g.count("limit:var")
			}
			q.Body = append(q.Body, c)
			g.count("clause:limit")
		default:
			q.Body = append(q.Body, g.collect(d, q.Val))
		}
	}
	if d >= 2 && g.pick(5) == 0 {
		q.Ret = &Ret{For: g.For(d - 1)}
		g.count("for:nested")
	} else {
		q.Ret = &Ret{Distinct: g.pick(5) == 0, E: g.Expr(d - 1)}
		if g.pick(40) == 0 {
			q.Ret.E = None()
		}
	}
	return q
}

func (g *Gen) filterExpr(d int) *E {
	vis := g.visible()
	if len(vis) == 0 {
		return g.Expr(d - 1)
	}
	v := Var(vis[len(vis)-1])
	switch g.pick(4) {
	case 0:
		return Cmp(cmpOps[g.pick(6)], v, g.Leaf())
	case 1:
		return Cmp("==", Math("%", v, Int(2)), Int(int64(g.pick(2))))
	}
	return g.Expr(d - 1)
}

func (g *Gen) sortKey(d int) *E {
	vis := g.visible()
	if len(vis) == 0 {
		return g.Leaf()
	}
	v := Var(vis[g.pick(len(vis))])
	switch g.pick(4) {
	case 0:
		return Math("%", v, Int(int64(2+g.pick(2))))
	case 1:
		return Member(v, Seg{Name: keyPool[g.pick(len(keyPool))]})
	}
	return v
}

func (g *Gen) collect(d int, valVar string) Clause {
	c := Clause{K: "collect"}
	form := g.pick(6)
	g.count(fmt.Sprintf("clause:collect%d", form))
	var newVars []string
	if form != 0 && form != 1 {
		ng := 1 + g.pick(2)
		g.inSort++
		for i := 0; i < ng; i++ {
			x := g.shadowName(newVars...)
			c.Groups = append(c.Groups, Group{Name: x, E: g.sortKey(d)})
			newVars = append(newVars, x)
		}
		g.inSort--
	}
	switch form {
	case 0, 2: // COLLECT WITH COUNT INTO c  /  COLLECT g = .. WITH COUNT INTO c
		x := g.shadowName(newVars...)
		c.Tail = Tail{K: "count", Name: x}
		newVars = append(newVars, x)
	case 1, 3: // COLLECT AGGREGATE ..  /  COLLECT g = .. AGGREGATE ..
		x := g.shadowName(newVars...)
		g.inSort++
		c.Tail = Tail{K: "aggr", Sels: []AggSel{{Name: x, Fn: "ARR", Args: []*E{g.sortKey(d)}}}}
		g.inSort--
		newVars = append(newVars, x)
	case 4: // COLLECT g = .. INTO x [= proj]
		x := g.shadowName(newVars...)
		c.Tail = Tail{K: "into", Name: x}
		valVisible := false
		for _, v := range g.visible() {
			if v == valVar {
				valVisible = true
			}
		}
		// the default projection { v: v } needs the loop variable to be visible
		// (when it is hidden, e.g. by an earlier COLLECT of the same loop, the default form is
		// ill-scoped: generated now and then when references outside the visible set are allowed)
		if (!valVisible && !(g.Wild > 0 && g.pick(3) == 0)) || (valVisible && g.pick(2) == 0) {
			g.inSort++
			c.Tail.Proj = g.sortKey(d)
			g.inSort--
		}
		newVars = append(newVars, x)
	}
	g.clearTop()
	for _, x := range newVars {
		g.declare(x)
	}
	return c
}

// directed: one pattern-operator node evaluated repeatedly with different
// pattern values (loop variable, LET inside the loop, member of the row).
func (g *Gen) directed() *Program {
	pats := Arr(Str("a*"), Str("*c"), Str("??"), Str("*"), Str("abc"), Str("b*"), Str(""))
	rx := Arr(Str("^a"), Str("c$"), Str("b+"), Str("x?a"), Str("^$"), Str("a.c"))
	subj := []*E{Str("abc"), Str("ab"), Param("s"), Str(""), Str("bc")}[g.pick(5)]
	neg := g.pick(3) == 0
	q := &For{Val: "p", Src: pats}
	var test *E
	if g.pick(3) == 0 {
		q.Src = rx
		test = &E{K: "regex", Neg: neg, A: subj, B: Var("p")}
		g.count("directed:regex-variable-pattern")
	} else {
		test = &E{K: "like", Neg: neg, A: subj, B: Var("p")}
		g.count("directed:like-variable-pattern")
	}
	switch g.pick(3) {
	case 0:
		q.Ret = &Ret{E: test}
	case 1:
		q.Body = []Clause{{K: "filter", E: test}}
		q.Ret = &Ret{E: Var("p")}
	default:
		q.Body = []Clause{{K: "let", Name: "m", E: test}}
		q.Ret = &Ret{E: Arr(Var("p"), Var("m"))}
	}
	return &Program{For: q}
}

// Program generates LET statements followed by RETURN expr or a FOR loop.
func (g *Gen) Program() *Program {
	if g.Wild == 0 && g.pick(30) == 0 {
		return g.directed()
	}
	p := &Program{}
	ns := g.pick(3)
	for i := 0; i < ns; i++ {
		if !g.NoCalls && g.pick(6) == 0 {
			p.Stmts = append(p.Stmts, Stmt{E: g.call(g.MaxDepth)})
			continue
		}
		x := g.loopVar()
		e := g.Expr(g.MaxDepth - 1)
		if x != "_" {
			g.declare(x)
		}
		p.Stmts = append(p.Stmts, Stmt{Let: true, Name: x, E: e})
	}
	if g.pick(2) == 0 {
		p.For = g.For(g.MaxDepth)
	} else {
		p.Ret = g.Expr(g.MaxDepth)
	}
	return p
}

// noLeadingParen: FILTER (x) and SORT (x) are read by the grammar as calls of
// functions named FILTER / SORT (a recorded finding of C05/C06); the generator
// keeps such clauses out by rewriting e to true AND e, which has the same value
// and the same call trace.
func noLeadingParen(e *E) *E {
	if len(Plain.at(e, 1)) > 0 && Plain.at(e, 1)[0] == '(' {
		return Log("AND", Bool(true), e)
	}
	return e
}
