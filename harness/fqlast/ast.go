// Package fqlast: the harness' own abstract syntax of the FQL core language
// (mirrors coq/theories/Syntax.v), with two renderings of every tree — the
// constructor syntax of the Coq model and FQL text with minimal parentheses —
// and seeded generators.
package fqlast

import (
	"encoding/hex"
	"fmt"
	"math"
	"strconv"
	"strings"
)

// E is an expression node. K selects the constructor.
type E struct {
	K     string // none bool int float str arr obj var param un log cond cmp in quant like regex math range member call suppress sub
	Bool  bool
	Int   int64
	Float float64
	Str   string // string literal, variable / parameter / function name
	Op    string // operator spelling: ! - + AND OR == != < <= > >= + - * / % ALL ANY NONE
	QIn   bool   // quant: comparator is IN
	Neg   bool   // NOT IN / NOT LIKE / !~ ; quant+QIn: NOT IN
	A     *E
	B     *E
	C     *E // cond: else branch (A cond, B then or nil, C else)
	L     []*E
	Props []Prop
	Path  []Seg
	Q     *For
}

type Prop struct {
	Kind string // named computed short
	Name string
	Key  *E
	Val  *E
}

type Seg struct {
	Optional bool
	Name     string // when Expr == nil: .Name
	Expr     *E
}

type For struct {
	While   bool
	Val     string
	Key     string // "" = none
	Src     *E
	DoFirst bool
	Cond    *E
	Body    []Clause
	Ret     *Ret
}

type Clause struct {
	K      string // let call filter sort limit collect
	Name   string
	E      *E
	Keys   []SortKey
	Offset *E
	Count  *E
	Groups []Group
	Tail   Tail
}

type SortKey struct {
	E    *E
	Desc bool
	Dir  string // spelling: "", "ASC", "DESC"
}
type Group struct {
	Name string
	E    *E
}
type Tail struct {
	K    string // none into count aggr
	Name string
	Proj *E
	Keep string
	Sels []AggSel
}
type AggSel struct {
	Name string
	Fn   string
	Args []*E
}

type Ret struct {
	Distinct bool
	E        *E
	For      *For
}

type Stmt struct {
	Let  bool
	Name string
	E    *E
}

type Program struct {
	Stmts []Stmt
	Ret   *E
	For   *For
}

// ------------------------------------------------------------ constructors
func None() *E           { return &E{K: "none"} }
func Bool(b bool) *E     { return &E{K: "bool", Bool: b} }
func Int(z int64) *E     { return &E{K: "int", Int: z} }
func Float(f float64) *E { return &E{K: "float", Float: f} }
func Str(s string) *E    { return &E{K: "str", Str: s} }
func Arr(l ...*E) *E     { return &E{K: "arr", L: l} }
func Var(x string) *E    { return &E{K: "var", Str: x} }
func Param(x string) *E  { return &E{K: "param", Str: x} }
func Un(op string, a *E) *E {
	return &E{K: "un", Op: op, A: a}
}
func Log(op string, a, b *E) *E  { return &E{K: "log", Op: op, A: a, B: b} }
func Cond(c, t, f *E) *E         { return &E{K: "cond", A: c, B: t, C: f} }
func Cmp(op string, a, b *E) *E  { return &E{K: "cmp", Op: op, A: a, B: b} }
func In(neg bool, a, b *E) *E    { return &E{K: "in", Neg: neg, A: a, B: b} }
func Math(op string, a, b *E) *E { return &E{K: "math", Op: op, A: a, B: b} }
func Range(a, b *E) *E           { return &E{K: "range", A: a, B: b} }
func Call(f string, args ...*E) *E {
	return &E{K: "call", Str: f, L: args}
}
func Suppress(a *E) *E { return &E{K: "suppress", A: a} }
func Sub(q *For) *E    { return &E{K: "sub", Q: q} }
func Member(src *E, path ...Seg) *E {
	return &E{K: "member", A: src, Path: path}
}
func Obj(ps ...Prop) *E { return &E{K: "obj", Props: ps} }

// ------------------------------------------------------------ Coq rendering
func hx(s string) string { return `(hx "` + hex.EncodeToString([]byte(s)) + `")` }
func coqBool(b bool) string {
	if b {
		return "true"
	}
	return "false"
}
func coqList(xs []string) string { return "[" + strings.Join(xs, "; ") + "]" }

var cmpCoq = map[string]string{"==": "CEq", "!=": "CNe", "<": "CLt", "<=": "CLe", ">": "CGt", ">=": "CGe"}
var mathCoq = map[string]string{"+": "MAdd", "-": "MSub", "*": "MMul", "/": "MDiv", "%": "MMod"}

func (e *E) Coq() string {
	switch e.K {
	case "none":
		return "ENone"
	case "bool":
		return "(EBool " + coqBool(e.Bool) + ")"
	case "int":
		return fmt.Sprintf("(EInt (%d))", e.Int)
	case "float":
		return fmt.Sprintf("(EFloat %d%%N)", math.Float64bits(e.Float))
	case "str":
		return "(EStr " + hx(e.Str) + ")"
	case "arr":
		return "(EArr " + coqList(mapE(e.L)) + ")"
	case "obj":
		ps := make([]string, len(e.Props))
		for i, p := range e.Props {
			switch p.Kind {
			case "named":
				ps[i] = "(PNamed " + hx(p.Name) + " " + p.Val.Coq() + ")"
			case "computed":
				ps[i] = "(PComputed " + p.Key.Coq() + " " + p.Val.Coq() + ")"
			default:
				ps[i] = "(PShort " + hx(p.Name) + ")"
			}
		}
		return "(EObj " + coqList(ps) + ")"
	case "var":
		return "(EVar " + hx(e.Str) + ")"
	case "param":
		return "(EParam " + hx(e.Str) + ")"
	case "un":
		op := map[string]string{"!": "UNot", "NOT": "UNot", "-": "UNeg", "+": "UPos"}[strings.ToUpper(e.Op)]
		return "(EUn " + op + " " + e.A.Coq() + ")"
	case "log":
		op := "LAnd"
		if u := strings.ToUpper(e.Op); u == "OR" || u == "||" {
			op = "LOr"
		}
		return "(ELog " + op + " " + e.A.Coq() + " " + e.B.Coq() + ")"
	case "cond":
		t := "None"
		if e.B != nil {
			t = "(Some " + e.B.Coq() + ")"
		}
		return "(ECond " + e.A.Coq() + " " + t + " " + e.C.Coq() + ")"
	case "cmp":
		return "(ECmp " + cmpCoq[e.Op] + " " + e.A.Coq() + " " + e.B.Coq() + ")"
	case "in":
		return "(EIn " + coqBool(e.Neg) + " " + e.A.Coq() + " " + e.B.Coq() + ")"
	case "quant":
		q := map[string]string{"ALL": "QAll", "ANY": "QAny", "NONE": "QNone"}[strings.ToUpper(e.Op)]
		c := "(QCmp " + cmpCoq[e.Str] + ")"
		if e.QIn {
			c = "(QIn " + coqBool(e.Neg) + ")"
		}
		return "(EQuant " + q + " " + c + " " + e.A.Coq() + " " + e.B.Coq() + ")"
	case "like":
		return "(ELike " + coqBool(e.Neg) + " " + e.A.Coq() + " " + e.B.Coq() + ")"
	case "regex":
		return "(ERegex " + coqBool(e.Neg) + " " + e.A.Coq() + " " + e.B.Coq() + ")"
	case "math":
		return "(EMath " + mathCoq[e.Op] + " " + e.A.Coq() + " " + e.B.Coq() + ")"
	case "range":
		return "(ERange " + e.A.Coq() + " " + e.B.Coq() + ")"
	case "member":
		ss := make([]string, len(e.Path))
		for i, s := range e.Path {
			x := s.Expr
			if x == nil {
				x = Str(s.Name)
			}
			ss[i] = "(Seg " + coqBool(s.Optional) + " " + x.Coq() + ")"
		}
		return "(EMember " + e.A.Coq() + " " + coqList(ss) + ")"
	case "call":
		return "(ECall " + hx(strings.ToUpper(e.Str)) + " " + coqList(mapE(e.L)) + ")"
	case "suppress":
		return "(ESuppress " + e.A.Coq() + ")"
	case "sub":
		return "(ESub " + e.Q.Coq() + ")"
	}
	panic("fqlast: unknown expr kind " + e.K)
}

func mapE(l []*E) []string {
	out := make([]string, len(l))
	for i, x := range l {
		out[i] = x.Coq()
	}
	return out
}

func coqOptName(s string) string {
	if s == "" {
		return "None"
	}
	return "(Some " + hx(s) + ")"
}

func (q *For) Coq() string {
	body := make([]string, len(q.Body))
	for i, c := range q.Body {
		body[i] = c.Coq()
	}
	ret := ""
	if q.Ret.For != nil {
		ret = "(RFor " + q.Ret.For.Coq() + ")"
	} else {
		ret = "(RReturn " + coqBool(q.Ret.Distinct) + " " + q.Ret.E.Coq() + ")"
	}
	if q.While {
		return "(ForWhile " + hx(q.Val) + " " + coqBool(q.DoFirst) + " " + q.Cond.Coq() + " " + coqList(body) + " " + ret + ")"
	}
	return "(ForIn " + hx(q.Val) + " " + coqOptName(q.Key) + " " + q.Src.Coq() + " " + coqList(body) + " " + ret + ")"
}

func (c Clause) Coq() string {
	switch c.K {
	case "let":
		return "(CLet " + hx(c.Name) + " " + c.E.Coq() + ")"
	case "call":
		return "(CCall " + c.E.Coq() + ")"
	case "filter":
		return "(CFilter " + c.E.Coq() + ")"
	case "sort":
		ks := make([]string, len(c.Keys))
		for i, k := range c.Keys {
			ks[i] = "(" + k.E.Coq() + ", " + coqBool(k.Desc) + ")"
		}
		return "(CSort " + coqList(ks) + ")"
	case "limit":
		off := "None"
		if c.Offset != nil {
			off = "(Some " + c.Offset.Coq() + ")"
		}
		return "(CLimit " + off + " " + c.Count.Coq() + ")"
	case "collect":
		gs := make([]string, len(c.Groups))
		for i, g := range c.Groups {
			gs[i] = "(" + hx(g.Name) + ", " + g.E.Coq() + ")"
		}
		t := "CTNone"
		switch c.Tail.K {
		case "into":
			p := "None"
			if c.Tail.Proj != nil {
				p = "(Some " + c.Tail.Proj.Coq() + ")"
			}
			t = "(CTInto " + hx(c.Tail.Name) + " " + p + ")"
		case "count":
			t = "(CTCount " + hx(c.Tail.Name) + ")"
		case "aggr":
			ss := make([]string, len(c.Tail.Sels))
			for i, s := range c.Tail.Sels {
				ss[i] = "(" + hx(s.Name) + ", " + hx(strings.ToUpper(s.Fn)) + ", " + coqList(mapE(s.Args)) + ")"
			}
			t = "(CTAggr " + coqList(ss) + ")"
		}
		return "(CCollect " + coqList(gs) + " " + t + ")"
	}
	panic("fqlast: unknown clause " + c.K)
}

func (p *Program) Coq() string {
	ss := make([]string, len(p.Stmts))
	for i, s := range p.Stmts {
		if s.Let {
			ss[i] = "(SLet " + hx(s.Name) + " " + s.E.Coq() + ")"
		} else {
			ss[i] = "(SCall " + s.E.Coq() + ")"
		}
	}
	ret := ""
	if p.For != nil {
		ret = "(BFor " + p.For.Coq() + ")"
	} else {
		ret = "(BReturn " + p.Ret.Coq() + ")"
	}
	return "{| p_stmts := " + coqList(ss) + "; p_ret := " + ret + " |}"
}

// ------------------------------------------------------------ FQL rendering
// One precedence scale over the three tiers of the grammar (higher binds
// tighter): ternary 1, OR 2, AND 3, unary 4 | LIKE 5, IN 6, array op 7,
// equality 8 | regexp 9, additive 10, multiplicative 11 | primary 12.
func (e *E) level() int {
	switch e.K {
	case "cond":
		return 1
	case "log":
		if u := strings.ToUpper(e.Op); u == "OR" || u == "||" {
			return 2
		}
		return 3
	case "un":
		return 4
	case "int":
		if e.Int < 0 {
			return 4
		}
	case "float":
		if e.Float < 0 || (e.Float == 0 && math.Signbit(e.Float)) {
			return 4
		}
	case "like":
		return 5
	case "in":
		return 6
	case "quant":
		return 7
	case "cmp":
		return 8
	case "regex":
		return 9
	case "math":
		if e.Op == "+" || e.Op == "-" {
			return 10
		}
		return 11
	}
	return 12
}

// Style controls the surface choices the printer makes (C06 varies them).
type Style struct {
	ExtraParens func() bool // wrap a sub-expression in redundant parentheses?
	Kw          func(string) string
	Sep         func() string // token separator
	Quote       func(s string) string
}

var Plain = &Style{
	ExtraParens: func() bool { return false },
	Kw:          func(s string) string { return s },
	Sep:         func() string { return " " },
	Quote:       QuoteDouble,
}

// QuoteDouble renders a string literal in double quotes. Newline and tab are
// written as \n and \t; the caller guarantees there is no quote or backslash.
func QuoteDouble(s string) string {
	s = strings.ReplaceAll(s, "\n", `\n`)
	s = strings.ReplaceAll(s, "\t", `\t`)
	return `"` + s + `"`
}

func fmtFloat(f float64) string {
	s := strconv.FormatFloat(math.Abs(f), 'f', -1, 64)
	if !strings.Contains(s, ".") {
		s += ".0"
	}
	if f < 0 || (f == 0 && math.Signbit(f)) {
		s = "-" + s
	}
	return s
}

func isIdent(s string) bool {
	if s == "" {
		return false
	}
	for i := 0; i < len(s); i++ {
		c := s[i]
		if !(c >= 'a' && c <= 'z' || c >= 'A' && c <= 'Z') {
			return false
		}
	}
	return !reserved[strings.ToUpper(s)]
}

var reserved = map[string]bool{}

func init() {
	for _, k := range strings.Fields("AND OR FOR RETURN WAITFOR OPTIONS TIMEOUT DISTINCT FILTER CURRENT SORT LIMIT LET COLLECT ASC DESC NONE NULL TRUE FALSE USE INTO KEEP WITH COUNT ALL ANY AGGREGATE EVENT LIKE NOT IN DO WHILE") {
		reserved[k] = true
	}
}

func (st *Style) at(e *E, min int) string {
	s := st.expr(e)
	if e.level() < min || st.ExtraParens() {
		return "(" + s + ")"
	}
	return s
}

func (st *Style) join(parts ...string) string {
	out := ""
	for i, p := range parts {
		if i > 0 {
			out += st.Sep()
		}
		out += p
	}
	return out
}

func (st *Style) list(l []*E) string {
	parts := make([]string, len(l))
	for i, x := range l {
		parts[i] = st.at(x, 1)
	}
	return strings.Join(parts, ","+st.Sep())
}

func (st *Style) expr(e *E) string {
	switch e.K {
	case "none":
		return st.Kw("NONE")
	case "bool":
		if e.Bool {
			return "true"
		}
		return "false"
	case "int":
		if e.Str != "" && e.Int >= 0 { // a chosen spelling of the literal (leading zeros)
			return e.Str
		}
		return strconv.FormatInt(e.Int, 10)
	case "float":
		return fmtFloat(e.Float)
	case "str":
		return st.Quote(e.Str)
	case "arr":
		return "[" + st.list(e.L) + "]"
	case "obj":
		ps := make([]string, len(e.Props))
		for i, p := range e.Props {
			switch p.Kind {
			case "named":
				k := p.Name
				if !isIdent(k) {
					k = st.Quote(k)
				}
				ps[i] = k + ":" + st.Sep() + st.at(p.Val, 1)
			case "computed":
				if p.Key.K == "param" {
					ps[i] = "@" + p.Key.Str + ":" + st.Sep() + st.at(p.Val, 1)
				} else {
					ps[i] = "[" + st.at(p.Key, 1) + "]:" + st.Sep() + st.at(p.Val, 1)
				}
			default:
				ps[i] = p.Name
			}
		}
		return "{" + strings.Join(ps, ","+st.Sep()) + "}"
	case "var":
		return e.Str
	case "param":
		return "@" + e.Str
	case "un":
		op := e.Op
		inner := st.at(e.A, 4)
		if u := strings.ToUpper(op); u == "NOT" {
			return st.Kw("NOT") + " " + inner
		}
		if (op == "-" || op == "+") && (strings.HasPrefix(inner, "-") || strings.HasPrefix(inner, "+")) {
			inner = "(" + st.expr(e.A) + ")"
		}
		return op + inner
	case "log":
		lv := e.level()
		op := e.Op
		if u := strings.ToUpper(op); u == "AND" || u == "OR" {
			op = st.Kw(u)
		}
		return st.join(st.at(e.A, lv), op, st.at(e.B, lv+1))
	case "cond":
		if e.B == nil {
			return st.join(st.at(e.A, 1), "?:", st.at(e.C, 2))
		}
		return st.join(st.at(e.A, 1), "?", st.at(e.B, 1), ":", st.at(e.C, 2))
	case "cmp":
		return st.join(st.at(e.A, 8), e.Op, st.at(e.B, 9))
	case "in":
		op := st.Kw("IN")
		if e.Neg {
			op = st.Kw("NOT") + " " + st.Kw("IN")
		}
		return st.join(st.at(e.A, 6), op, st.at(e.B, 7))
	case "quant":
		op := e.Str
		if e.QIn {
			op = st.Kw("IN")
			if e.Neg {
				op = st.Kw("NOT") + " " + st.Kw("IN")
			}
		}
		return st.join(st.at(e.A, 7), st.Kw(strings.ToUpper(e.Op)), op, st.at(e.B, 8))
	case "like":
		op := st.Kw("LIKE")
		if e.Neg {
			op = st.Kw("NOT") + " " + st.Kw("LIKE")
		}
		return st.join(st.at(e.A, 5), op, st.at(e.B, 6))
	case "regex":
		op := "=~"
		if e.Neg {
			op = "!~"
		}
		return st.join(st.at(e.A, 9), op, st.at(e.B, 10))
	case "math":
		lv := e.level()
		return st.join(st.at(e.A, lv), e.Op, st.at(e.B, lv+1))
	case "range":
		return st.expr(e.A) + ".." + st.expr(e.B)
	case "member":
		s := st.expr(e.A)
		for _, seg := range e.Path {
			if seg.Expr == nil && isIdent(seg.Name) {
				if seg.Optional {
					s += "?"
				}
				s += "." + seg.Name
			} else {
				x := seg.Expr
				if x == nil {
					x = Str(seg.Name)
				}
				if seg.Optional {
					s += "?."
				}
				s += "[" + st.at(x, 1) + "]"
			}
		}
		return s
	case "call":
		return st.Kw(e.Str) + "(" + st.list(e.L) + ")"
	case "suppress":
		if e.A.K == "call" {
			return st.expr(e.A) + "?"
		}
		return "(" + st.expr(e.A) + ")?"
	case "sub":
		return "(" + st.forq(e.Q) + ")"
	}
	panic("fqlast: unknown expr kind " + e.K)
}

func (st *Style) forq(q *For) string {
	parts := []string{st.Kw("FOR"), q.Val}
	if q.While {
		if q.DoFirst {
			parts = append(parts, st.Kw("DO"))
		}
		parts = append(parts, st.Kw("WHILE"), st.at(q.Cond, 1))
	} else {
		if q.Key != "" {
			parts[1] = q.Val + ","
			parts = append(parts, q.Key)
		}
		parts = append(parts, st.Kw("IN"), st.expr(q.Src))
	}
	for _, c := range q.Body {
		parts = append(parts, st.clause(c))
	}
	if q.Ret.For != nil {
		parts = append(parts, st.forq(q.Ret.For))
	} else {
		parts = append(parts, st.Kw("RETURN"))
		if q.Ret.Distinct {
			parts = append(parts, st.Kw("DISTINCT"))
		}
		parts = append(parts, st.at(q.Ret.E, 1))
	}
	return st.join(parts...)
}

func (st *Style) clause(c Clause) string {
	switch c.K {
	case "let":
		return st.join(st.Kw("LET"), c.Name, "=", st.at(c.E, 1))
	case "call":
		return st.expr(c.E)
	case "filter":
		return st.join(st.Kw("FILTER"), st.at(c.E, 1))
	case "sort":
		ks := make([]string, len(c.Keys))
		for i, k := range c.Keys {
			ks[i] = st.at(k.E, 1)
			if k.Dir != "" {
				ks[i] += " " + st.Kw(k.Dir)
			}
		}
		return st.join(st.Kw("SORT"), strings.Join(ks, ","+st.Sep()))
	case "limit":
		if c.Offset != nil {
			return st.join(st.Kw("LIMIT"), st.expr(c.Offset)+",", st.expr(c.Count))
		}
		return st.join(st.Kw("LIMIT"), st.expr(c.Count))
	case "collect":
		parts := []string{st.Kw("COLLECT")}
		gs := make([]string, len(c.Groups))
		for i, g := range c.Groups {
			gs[i] = st.join(g.Name, "=", st.at(g.E, 1))
		}
		if len(gs) > 0 {
			parts = append(parts, strings.Join(gs, ","+st.Sep()))
		}
		switch c.Tail.K {
		case "into":
			parts = append(parts, st.Kw("INTO"), c.Tail.Name)
			if c.Tail.Proj != nil {
				parts = append(parts, "=", st.at(c.Tail.Proj, 1))
			} else if c.Tail.Keep != "" {
				parts = append(parts, st.Kw("KEEP"), c.Tail.Keep)
			}
		case "count":
			parts = append(parts, st.Kw("WITH"), st.Kw("COUNT"), st.Kw("INTO"), c.Tail.Name)
		case "aggr":
			ss := make([]string, len(c.Tail.Sels))
			for i, s := range c.Tail.Sels {
				ss[i] = st.join(s.Name, "=", st.Kw(s.Fn)+"("+st.list(s.Args)+")")
			}
			parts = append(parts, st.Kw("AGGREGATE"), strings.Join(ss, ","+st.Sep()))
		}
		return st.join(parts...)
	}
	panic("fqlast: unknown clause " + c.K)
}

func (st *Style) Program(p *Program) string {
	parts := []string{}
	for _, s := range p.Stmts {
		if s.Let {
			parts = append(parts, st.join(st.Kw("LET"), s.Name, "=", st.at(s.E, 1)))
		} else {
			parts = append(parts, st.expr(s.E))
		}
	}
	if p.For != nil {
		parts = append(parts, st.forq(p.For))
	} else {
		parts = append(parts, st.join(st.Kw("RETURN"), st.at(p.Ret, 1)))
	}
	return st.join(parts...)
}

func (p *Program) FQL() string { return Plain.Program(p) }
func (e *E) FQL() string       { return Plain.at(e, 1) }
