(* StdMath.v — mirrors of the numeric aggregates of pkg/stdlib/math (min, max,
   sum, average, mean, median, variance, stddev, percentile) and their
   reference definitions (C16).  Definitions only.

   Numbers are exact: an Int z is the rational z (float64(int64) is exact within
   +-2^53; beyond it the model rounds like Go does, Value.round53), a finite
   Float with bits b is the rational fscaled b / 2^1074.  All arithmetic of the
   mirrors is exact rational arithmetic — the float64 roundings of + * / and
   the square root are NOT modelled.  The correspondence check therefore
   compares exactly where the exact result is a double that the Go code reaches
   without rounding (SUM, MIN, MAX, MEDIAN on the generated dyadic inputs) and
   through rational brackets elsewhere (see Check/C16.v).  NaN / Inf inputs are
   outside the model. *)
From Coq Require Export QArith.
From Ferret Require Export StdArrays.

Definition two1074 : positive := (2 ^ 1074)%positive.

Definition num_of (v : value) : option Q :=
  match v with
  | VInt z => Some (inject_Z (round53 z))
  | VFloat b => if f_finite b then Some (Qred (Qmake (fscaled b) two1074)) else None
  | _ => None
  end.
Definition is_num (v : value) : bool :=
  match v with VInt _ | VFloat _ => true | _ => false end.
Definition non_finite (v : value) : bool :=
  match v with VFloat b => negb (f_finite b) | _ => false end.

Definition Qltb (a b : Q) : bool := negb (Qle_bool b a).

Inductive mres : Type :=
| MQ (q : Q)          (* a number with this exact value (Int or Float) *)
| MSqrt (q : Q)       (* the Float sqrt(q), q >= 0 *)
| MNaN                (* the Float NaN *)
| MVal (v : value)    (* this value as it is (None, or a non-numeric element) *)
| MErr
| MPanic
| MUnmodelled.

(* the numeric prefix of a list: numbers up to the first non-numeric element *)
Fixpoint num_prefix (l : list value) : list Q :=
  match l with
  | [] => []
  | v :: r => match num_of v with Some q => q :: num_prefix r | None => [] end
  end.
Definition all_num (l : list value) : bool := forallb is_num l.
Definition nums (l : list value) : list Q := num_prefix l.

(* shape of every aggregate over [VArr l]: validation, unmodelled inputs *)
Definition with_array (args : list value) (k : list value -> mres) : mres :=
  match args with
  | [VArr l] => if existsb non_finite l then MUnmodelled else k l
  | _ => MErr
  end.

(* ---- MIN: min = fv when min > fv or idx == 0 *)
Fixpoint loop_min (l : list Q) (idx : Z) (min : Q) : Q :=
  match l with
  | [] => min
  | fv :: r => loop_min r (idx + 1) (if Qltb fv min || (idx =? 0) then fv else min)
  end.
Definition m_min (args : list value) : mres :=
  with_array args (fun l =>
    match l with
    | [] => MVal VNone
    | _ => if all_num l then MQ (loop_min (nums l) 0 0%Q) else MVal VNone
    end).

(* ---- MAX: var max float64 (= 0); max = fv when fv > max *)
Fixpoint loop_max (l : list Q) (max : Q) : Q :=
  match l with
  | [] => max
  | fv :: r => loop_max r (if Qltb max fv then fv else max)
  end.
Definition m_max (args : list value) : mres :=
  with_array args (fun l =>
    match l with
    | [] => MVal VNone
    | _ => if all_num l then MQ (loop_max (nums l) 0%Q) else MVal VNone
    end).

(* MAX after proposed_fixes/C16-max-seed: max = fv when fv > max or idx == 0 *)
Fixpoint loop_max_fx (l : list Q) (idx : Z) (max : Q) : Q :=
  match l with
  | [] => max
  | fv :: r => loop_max_fx r (idx + 1) (if Qltb max fv || (idx =? 0) then fv else max)
  end.
Definition m_max_fx (args : list value) : mres :=
  with_array args (fun l =>
    match l with
    | [] => MVal VNone
    | _ => if all_num l then MQ (loop_max_fx (nums l) 0 0%Q) else MVal VNone
    end).

(* ---- SUM / AVERAGE / mean *)
Definition loop_sum (l : list Q) : Q := fold_left Qplus l 0%Q.
Definition m_sum (args : list value) : mres :=
  with_array args (fun l =>
    match l with
    | [] => MVal VNone
    | _ => if all_num l then MQ (loop_sum (nums l)) else MVal VNone
    end).
Definition qlen (l : list Q) : Q := inject_Z (Z.of_nat (List.length l)).
Definition m_average (args : list value) : mres :=
  with_array args (fun l =>
    match l with
    | [] => MVal VNone
    | _ => if all_num l then MQ (loop_sum (nums l) / qlen (nums l))%Q else MVal VNone
    end).
(* mean.go: (NaN, nil) on empty, (0, err) on a non-number *)
Definition mean_of (l : list value) : option Q :=
  if all_num l then Some (loop_sum (nums l) / qlen (nums l))%Q else None.

(* ---- MEDIAN: sort by Compare; odd -> the middle element itself; even -> mean
   of the two middle elements (None when one of them is not a number) *)
Definition m_median (args : list value) : mres :=
  with_array args (fun l =>
    let sorted := sort_values l in
    let n := List.length sorted in
    match n with
    | O => MNaN
    | _ =>
        if Nat.even n then
          match arr_slice sorted (Z.of_nat (n / 2) - 1) (Z.of_nat (n / 2) + 1) with
          | Some two => match mean_of two with Some q => MQ q | None => MVal VNone end
          | None => MPanic
          end
        else match arr_get sorted (Z.of_nat (n / 2)) with
             | Ok v => match num_of v with Some q => MQ q | None => MVal v end
             | _ => MPanic
             end
    end).

(* ---- variance(input, sample): m = mean (0 when mean fails); the loop stops at
   the first non-number; the sum of squares so far is divided by n - sample *)
Definition sq (q : Q) : Q := (q * q)%Q.
Definition loop_var (l : list Q) (m : Q) : Q :=
  fold_left (fun acc n => acc + sq (n - m))%Q l 0%Q.
Definition variance_of (l : list value) (sample : Z) : mres :=
  let m := match mean_of l with Some q => q | None => 0%Q end in
  let ss := loop_var (num_prefix l) m in
  let d := zlen l - sample in
  if d =? 0 then (if Qeq_bool ss 0%Q then MNaN else MUnmodelled (* +Inf *))
  else MQ (ss / inject_Z d)%Q.
Definition m_variance (sample : Z) (args : list value) : mres :=
  with_array args (fun l => match l with [] => MNaN | _ => variance_of l sample end).
Definition m_variance_population := m_variance 0.
Definition m_variance_sample := m_variance 1.
(* math.Pow(v, 0.5) = Sqrt(v) *)
Definition m_stddev (sample : Z) (args : list value) : mres :=
  match m_variance sample args with
  | MQ q => MSqrt q
  | r => r
  end.
Definition m_stddev_population := m_stddev 0.
Definition m_stddev_sample := m_stddev 1.

(* ---- PERCENTILE(arr, p): index = p/100 * len (exact here); whole -> the
   element of rank index; otherwise, when index > 1, the mean of the elements
   of ranks floor(index) and floor(index)+1; otherwise an error *)
Definition as_mres (r : res) : mres :=
  match r with
  | Ok v => match num_of v with Some q => MQ q | None => MVal v end
  | Err => MErr | Panic => MPanic | Unmodelled => MUnmodelled
  end.
Definition m_percentile (args : list value) : mres :=
  match args with
  | VArr l :: VInt p :: rest =>
      if 1 <? zlen rest then MErr            (* ValidateArgs(args, 2, 3) *)
      else if existsb non_finite l then MUnmodelled
      else
        match l with
        | [] => MNaN
        | _ =>
            if (p <=? 0) || (p >? 100) then MErr
            else
              let sorted := sort_values l in
              let n := zlen sorted in
              let i := (p * n) / 100 in
              if (p * n) mod 100 =? 0 then as_mres (arr_get sorted (i - 1))
              else if 100 <? p * n then
                match arr_get sorted (i - 1), arr_get sorted i with
                | Ok a, Ok b => match mean_of [a; b] with Some q => MQ q | None => MQ 0%Q end
                | _, _ => MPanic
                end
              else MErr
        end
  | _ => MErr
  end.

(* ================================================================== *)
(* Reference definitions over lists of rationals                       *)

Definition Qminb (a b : Q) : Q := if Qle_bool a b then a else b.
Definition Qmaxb (a b : Q) : Q := if Qle_bool a b then b else a.
Fixpoint q_min (x : Q) (l : list Q) : Q :=
  match l with [] => x | y :: r => Qminb x (q_min y r) end.
Fixpoint q_max (x : Q) (l : list Q) : Q :=
  match l with [] => x | y :: r => Qmaxb x (q_max y r) end.
Definition q_sum (l : list Q) : Q := fold_right Qplus 0%Q l.
Definition q_sumsq (l : list Q) : Q := fold_right (fun x a => x * x + a)%Q 0%Q l.
Definition q_sort (l : list Q) : list Q := isort Qle_bool l.
(* median: middle order statistic, or the midpoint of the two middle ones *)
Definition q_median (l : list Q) : Q :=
  let s := q_sort l in
  let n := List.length s in
  if Nat.even n then ((nth (n / 2 - 1) s 0 + nth (n / 2) s 0) / 2)%Q
  else nth (n / 2) s 0%Q.
(* variance by the sum-of-squares identity: (sum x^2 - (sum x)^2 / n) / (n - s) *)
Definition q_variance (sample : Z) (l : list Q) : Q :=
  let n := qlen l in
  ((q_sumsq l - sq (q_sum l) / n) / (n - inject_Z sample))%Q.

Inductive nsres : Type :=
| NSExact (q : Q)      (* a number with exactly this value *)
| NSAvg (s : Q) (n : Q)  (* the quotient s / n, correctly rounded *)
| NSApprox (q : Q)     (* the number q, computed in floating point *)
| NSSqrt (q : Q)       (* sqrt q, computed in floating point *)
| NSNoValue            (* no numeric result exists: NONE or NaN *)
| NSUnspec.

Definition numeric_input (args : list value) : option (list Q) :=
  match args with
  | [VArr l] => if all_num l && negb (existsb non_finite l) then Some (nums l) else None
  | _ => None
  end.
Definition on_nums (args : list value) (k : Q -> list Q -> nsres) : nsres :=
  match numeric_input args with
  | Some [] => NSNoValue
  | Some (x :: r) => k x r
  | None => NSUnspec
  end.
Definition s_min args := on_nums args (fun x r => NSExact (q_min x r)).
Definition s_max args := on_nums args (fun x r => NSExact (q_max x r)).
Definition s_sum args := on_nums args (fun x r => NSExact (q_sum (x :: r))).
Definition s_average args := on_nums args (fun x r => NSAvg (q_sum (x :: r)) (qlen (x :: r))).
Definition s_median args := on_nums args (fun x r => NSExact (q_median (x :: r))).
Definition s_variance (sample : Z) args :=
  on_nums args (fun x r =>
    if Z.of_nat (List.length (x :: r)) - sample =? 0 then NSNoValue
    else NSApprox (q_variance sample (x :: r))).
Definition s_stddev (sample : Z) args :=
  on_nums args (fun x r =>
    if Z.of_nat (List.length (x :: r)) - sample =? 0 then NSNoValue
    else NSSqrt (q_variance sample (x :: r))).
