(* Proofs/CancelProofs.v — cancellation laws of the (strict) reference
   evaluator and of the WAITFOR model. *)
From Ferret Require Import Eval Waitfor Proofs.EvalProofs.
From Coq Require Import Lia.

(* ---------- a context cancelled before Run: an error, and nothing happens *)
Lemma run_precancelled fuel p w :
  w_cancelled w = true -> run_body fuel p w = (Err ETerminated, w).
Proof. intro H. unfold run_body_g, bind, check_ctx. rewrite H. reflexivity. Qed.

Lemma precancel_no_calls fuel p params :
  run_body fuel p (init_world params true None) = (Err ETerminated, init_world params true None) /\
  w_trace (snd (run_body fuel p (init_world params true None))) = [].
Proof. rewrite run_precancelled by reflexivity. split; reflexivity. Qed.

(* ---------- once cancelled, no statement / loop / call / return starts *)
Lemma for_cancelled f q sc w :
  w_cancelled w = true -> eval_for (S f) q sc w = (Err ETerminated, w).
Proof. intro H. cbn [eval_for_g]. unfold bind, check_ctx. rewrite H. reflexivity. Qed.

Lemma for_in_source_cancelled f vv kv e sc w :
  w_cancelled w = true -> iterate (S f) (DIn vv kv e) sc w = (Err ETerminated, w).
Proof. intro H. cbn [iterate_g]. unfold bind, check_ctx. rewrite H. reflexivity. Qed.

Lemma block_cancelled f d ss sc w :
  w_cancelled w = true -> iterate (S f) (DBlock d ss) sc w = (Err ETerminated, w).
Proof. intro H. cbn [iterate_g]. unfold bind, check_ctx. rewrite H. reflexivity. Qed.

(* the k-th call cancels from inside: the call itself completes *)
Lemma call_cancels_from_inside f args w :
  w_cancelled w = false -> w_cancel_at w = Some (w_ncalls w) -> w_fail_at w = None ->
  f = bs "T" ->
  let '(r, w') := call_fn f args w in
  r = Ok (last args VNone) /\ w_cancelled w' = true /\ w_ncalls w' = (w_ncalls w + 1)%N.
Proof.
  intros C K F ->. unfold call_fn, bind, log, count_call, injected_failure. cbn.
  rewrite K, F, N.eqb_refl, Bool.orb_true_r. repeat split.
Qed.

(* ---------- WAITFOR *)
(* a returned value is the first one satisfying the filter, it arrived before
   the deadline, and nothing before it was an error, a close, or a match *)
Lemma consume_first_match s filter d v :
  consume s filter d = WROk v ->
  exists pre t post, s = pre ++ (t, WVal v) :: post /\ filter v = true /\ t < d /\
    forall t' m, In (t', m) pre -> exists u, m = WVal u /\ filter u = false /\ t' < d.
Proof.
  induction s as [|[t m] r IH]; cbn; [discriminate|].
  destruct (Z.leb_spec d t) as [L|L]; [discriminate|].
  destruct m as [u| |]; try discriminate.
  destruct (filter u) eqn:F.
  - intro H; inversion H; subst. exists [], t, r. repeat split; auto. intros ? ? [].
  - intro H. destruct (IH H) as (pre & t0 & post & E & Fv & Lt & Hpre).
    exists ((t, WVal u) :: pre), t0, post. subst. repeat split; auto.
    intros t' m [Hin|Hin]; [inversion Hin; subst; eauto|eauto].
Qed.

(* if no matching value (and no error / close) arrives before the deadline the
   wait fails with a timeout *)
Lemma consume_timeout s filter d :
  (forall t m, In (t, m) s -> t < d -> exists u, m = WVal u /\ filter u = false) ->
  consume s filter d = WRTimeout.
Proof.
  induction s as [|[t m] r IH]; intro H; cbn; [reflexivity|].
  destruct (Z.leb_spec d t) as [L|L]; [reflexivity|].
  destruct (H t m (or_introl eq_refl) L) as (u & -> & F). rewrite F.
  apply IH. intros t' m' Hin. apply H. right; exact Hin.
Qed.

Lemma waitfor_closes_once sub_fails s filter d :
  let o := waitfor sub_fails s filter d in
  w_subs o = 1%nat /\ w_closes o = (if sub_fails then 0 else 1)%nat.
Proof. unfold waitfor. destruct sub_fails; split; reflexivity. Qed.
