(* Proofs/HashProofs.v — lemmas about the hash model (C08). *)
From Ferret Require Import Hash Proofs.ValueInd Proofs.SortProofs Proofs.CompareProofs.
From Coq Require Import Permutation Lia.

(* ------------------------------------------------------------------ sorting *)
Section SortMore.
  Context {A : Type} (leb : A -> A -> bool).

  Lemma isort_sorted_id l : adj_sorted leb l = true -> isort leb l = l.
  Proof.
    induction l as [|x xs IH]; intro S; [reflexivity|].
    cbn [isort]. destruct xs as [|y ys]; [reflexivity|].
    cbn [adj_sorted] in S. apply andb_prop in S as [Sxy Sr].
    rewrite (IH Sr). cbn [insert_sorted]. rewrite Sxy. reflexivity.
  Qed.

  Context {B : Type} (leb' : B -> B -> bool) (f : A -> B).
  Hypothesis f_leb : forall a b, leb' (f a) (f b) = leb a b.

  Lemma map_insert x l : map f (insert_sorted leb x l) = insert_sorted leb' (f x) (map f l).
  Proof.
    induction l as [|y ys IH]; [reflexivity|]. cbn [insert_sorted map].
    rewrite f_leb. destruct (leb x y); cbn [map]; [reflexivity|]. rewrite IH; reflexivity.
  Qed.
  Lemma map_isort l : map f (isort leb l) = isort leb' (map f l).
  Proof. induction l as [|x xs IH]; [reflexivity|]. cbn [isort map]. rewrite map_insert, IH; reflexivity. Qed.
End SortMore.

(* key order on members, for any payload type *)
Definition kleb {V} (a b : bytes * V) : bool :=
  match lexcmp (fst a) (fst b) with Gt => false | _ => true end.

Lemma key_leb_kleb : key_leb = @kleb value. Proof. reflexivity. Qed.
Lemma hkey_leb_kleb : hkey_leb = @kleb N. Proof. reflexivity. Qed.

Lemma kleb_total {V} (a b : bytes * V) : kleb a b = true \/ kleb b a = true.
Proof.
  unfold kleb. rewrite (lexcmp_antisym (fst a) (fst b)).
  destruct (lexcmp (fst a) (fst b)); cbn; auto.
Qed.

Lemma kleb_trans {V} (a b c : bytes * V) : kleb a b = true -> kleb b c = true -> kleb a c = true.
Proof.
  unfold kleb. intros H1 H2.
  destruct (lexcmp (fst a) (fst b)) eqn:E1; try discriminate;
  destruct (lexcmp (fst b) (fst c)) eqn:E2; try discriminate.
  - apply lexcmp_eq in E1. rewrite E1, E2. reflexivity.
  - apply lexcmp_eq in E1. rewrite E1, E2. reflexivity.
  - apply lexcmp_eq in E2. rewrite <- E2, E1. reflexivity.
  - rewrite (lexcmp_trans_lt _ _ _ E1 E2). reflexivity.
Qed.

Lemma kleb_antisym_key {V} (a b : bytes * V) : kleb a b = true -> kleb b a = true -> fst a = fst b.
Proof.
  unfold kleb. rewrite (lexcmp_antisym (fst a) (fst b)).
  destruct (lexcmp (fst a) (fst b)) eqn:E; cbn; try discriminate.
  intros _ _. apply lexcmp_eq; exact E.
Qed.

Lemma isort_kleb_sorted {V} (l : list (bytes * V)) : adj_sorted kleb (isort kleb l) = true.
Proof.
  apply (isort_adj_sorted kleb (fun _ => True)).
  - intros a b _ _. apply kleb_total.
  - apply Forall_forall; auto.
Qed.

Lemma isort_kleb_idem {V} (l : list (bytes * V)) : isort kleb (isort kleb l) = isort kleb l.
Proof. apply isort_sorted_id, isort_kleb_sorted. Qed.

(* ------------------------------------------------- hash is blind to norm *)
Definition hmember (kv : bytes * value) : bytes * N := (fst kv, hash (snd kv)).
Definition nmember (kv : bytes * value) : bytes * value := (fst kv, norm (snd kv)).

Lemma hash_obj m : hash (VObj m) = fnv (preimage (ShObj (sort_members (map hmember m)))).
Proof. reflexivity. Qed.
Lemma norm_obj m : norm (VObj m) = VObj (isort key_leb (map nmember m)).
Proof. reflexivity. Qed.

Lemma hash_norm : forall v, hash (norm v) = hash v.
Proof.
  induction v as [| | | | | |l IH|m IH|] using value_ind'; try reflexivity.
  - cbn [norm hash]. rewrite map_map. do 3 f_equal.
    induction IH as [|x xs Hx _ IHxs]; [reflexivity|]. cbn [map]. rewrite Hx, IHxs; reflexivity.
  - rewrite norm_obj, !hash_obj. do 3 f_equal. unfold sort_members.
    rewrite hkey_leb_kleb, key_leb_kleb.
    rewrite (map_isort (@kleb value) (@kleb N) hmember) by reflexivity.
    rewrite isort_kleb_idem. f_equal. rewrite map_map.
    induction IH as [|x xs Hx _ IHxs]; [reflexivity|]. cbn [map]. rewrite IHxs. f_equal.
    unfold hmember, nmember; cbn [fst snd]. rewrite Hx; reflexivity.
Qed.

(* C08, first half: structurally identical values have the same hash *)
Lemma hash_struct_eq_sound a b : struct_eq a b -> hash a = hash b.
Proof. unfold struct_eq. intro H. rewrite <- (hash_norm a), <- (hash_norm b), H. reflexivity. Qed.

(* ------------------- sorting two permutations of a key-unique member list *)
Lemma adj_sorted_tail {A} (leb : A -> A -> bool) x l : adj_sorted leb (x :: l) = true -> adj_sorted leb l = true.
Proof. destruct l as [|y ys]; [reflexivity|]. cbn [adj_sorted]. intro H; apply andb_prop in H as [_ H]; exact H. Qed.

Lemma adj_sorted_head {V} (x : bytes * V) l :
  adj_sorted kleb (x :: l) = true -> Forall (fun y => kleb x y = true) l.
Proof.
  revert x. induction l as [|y ys IH]; intros x S; [constructor|].
  cbn [adj_sorted] in S. apply andb_prop in S as [Sxy Sr].
  constructor; [exact Sxy|].
  eapply Forall_impl; [|apply (IH y Sr)]. intros z Hyz. eapply kleb_trans; eassumption.
Qed.

Lemma sorted_perm_unique {V} (l1 : list (bytes * V)) : forall l2,
  adj_sorted kleb l1 = true -> adj_sorted kleb l2 = true ->
  Permutation l1 l2 -> NoDup (map fst l1) -> l1 = l2.
Proof.
  induction l1 as [|x xs IH]; intros l2 S1 S2 P ND.
  - apply Permutation_nil in P. subst; reflexivity.
  - destruct l2 as [|y ys]; [apply Permutation_sym, Permutation_nil in P; discriminate|].
    assert (Hxy : x = y).
    { assert (Hx : In x (y :: ys)) by (eapply Permutation_in; [exact P|left; reflexivity]).
      assert (Hy : In y (x :: xs)) by (eapply Permutation_in; [apply Permutation_sym, P|left; reflexivity]).
      destruct Hx as [Hx|Hx]; [symmetry; exact Hx|].
      destruct Hy as [Hy|Hy]; [exact Hy|].
      exfalso.
      pose proof (adj_sorted_head _ _ S1) as F1. pose proof (adj_sorted_head _ _ S2) as F2.
      rewrite Forall_forall in F1, F2.
      pose proof (kleb_antisym_key _ _ (F1 _ Hy) (F2 _ Hx)) as K.
      inversion ND as [|? ? Hnin _]; subst. apply Hnin. rewrite K. apply in_map; exact Hy. }
    subst y. f_equal. apply IH.
    + eapply adj_sorted_tail; exact S1.
    + eapply adj_sorted_tail; exact S2.
    + eapply Permutation_cons_inv; exact P.
    + inversion ND; assumption.
Qed.

Lemma isort_perm_unique {V} (l l' : list (bytes * V)) :
  Permutation l l' -> NoDup (map fst l) -> isort kleb l = isort kleb l'.
Proof.
  intros P ND. apply sorted_perm_unique; try apply isort_kleb_sorted.
  - rewrite <- (isort_perm kleb l), <- (isort_perm kleb l'). exact P.
  - eapply Permutation_NoDup; [|exact ND]. apply Permutation_map, isort_perm.
Qed.

Lemma nodup_keys_NoDup ks : nodup_keys ks = true -> NoDup ks.
Proof.
  induction ks as [|k r IH]; intro H; [constructor|].
  cbn [nodup_keys] in H. apply andb_prop in H as [H1 H2]. constructor; [|apply IH; exact H2].
  intro Hin. apply negb_true_iff in H1.
  assert (E : existsb (bytes_eqb k) r = true).
  { apply existsb_exists. exists k. split; [exact Hin|]. unfold bytes_eqb. rewrite lexcmp_refl. reflexivity. }
  congruence.
Qed.

Lemma map_fst_nmember m : map fst (map nmember m) = map fst m.
Proof. rewrite map_map. reflexivity. Qed.

(* "regardless of the order in which object members were inserted" *)
Lemma struct_eq_perm m m' :
  NoDup (map fst m) -> Permutation m m' -> struct_eq (VObj m) (VObj m').
Proof.
  intros ND P. unfold struct_eq. rewrite !norm_obj. f_equal. rewrite key_leb_kleb.
  apply isort_perm_unique; [apply Permutation_map; exact P|].
  rewrite map_fst_nmember; exact ND.
Qed.

Lemma hash_perm_invariant m m' :
  NoDup (map fst m) -> Permutation m m' -> hash (VObj m) = hash (VObj m').
Proof. intros ND P. apply hash_struct_eq_sound, struct_eq_perm; assumption. Qed.

Lemma wfb_obj_NoDup m : wfb (VObj m) = true -> NoDup (map fst m).
Proof. cbn [wfb]. intro H. apply andb_prop in H as [_ H]. apply nodup_keys_NoDup; exact H. Qed.

(* ------------------------------------------------------------ Copy / Clone *)
Section CopyCloneProofs.
  Variable ord : list (bytes * value) -> list (bytes * value).
  Hypothesis ord_perm : forall m, Permutation m (ord m).

  Lemma vcopy_struct_eq v : wfb v = true -> struct_eq v (vcopy ord v).
  Proof.
    destruct v; try reflexivity. intro W. cbn [vcopy].
    apply struct_eq_perm; [apply wfb_obj_NoDup; exact W|apply ord_perm].
  Qed.

  Lemma wfb_obj_members m : wfb (VObj m) = true -> Forall (fun kv => wfb (snd kv) = true) m.
  Proof.
    cbn [wfb]. intro H. apply andb_prop in H as [H _]. rewrite forallb_forall in H.
    apply Forall_forall. intros kv Hin. specialize (H kv Hin). apply andb_prop in H as [_ H]; exact H.
  Qed.

  Lemma vclone_struct_eq : forall v, wfb v = true -> norm (vclone ord v) = norm v.
  Proof.
    induction v as [| | | | | |l IH|m IH|] using value_ind'; intro W; try reflexivity.
    - cbn [vclone norm]. f_equal. rewrite map_map. cbn [wfb] in W. rewrite forallb_forall in W.
      apply map_ext_in. intros x Hx. rewrite Forall_forall in IH. apply IH; [exact Hx|apply W; exact Hx].
    - cbn [vclone]. rewrite !norm_obj. f_equal. rewrite key_leb_kleb.
      assert (E : map nmember (map (fun kv => (fst kv, vclone ord (snd kv))) m) = map nmember m).
      { rewrite map_map. apply map_ext_in. intros kv Hin. unfold nmember; cbn [fst snd]. f_equal.
        rewrite Forall_forall in IH. apply IH; [exact Hin|].
        pose proof (wfb_obj_members m W) as F. rewrite Forall_forall in F. apply F; exact Hin. }
      rewrite <- E. symmetry. apply isort_perm_unique.
      + apply Permutation_map, ord_perm.
      + rewrite E, map_fst_nmember. apply wfb_obj_NoDup; exact W.
  Qed.
End CopyCloneProofs.

Lemma copy_identity ord v : (forall m, Permutation m (ord m)) -> wfb v = true ->
  struct_eq v (vcopy ord v) /\ hash (vcopy ord v) = hash v /\ vcompare v (vcopy ord v) = 0.
Proof.
  intros P W. pose proof (vcopy_struct_eq ord P v W) as S.
  split; [exact S|]. split; [symmetry; apply hash_struct_eq_sound; exact S|apply vcompare_struct_eq; exact S].
Qed.

Lemma clone_identity ord v : (forall m, Permutation m (ord m)) -> wfb v = true ->
  struct_eq v (vclone ord v) /\ hash (vclone ord v) = hash v /\ vcompare v (vclone ord v) = 0.
Proof.
  intros P W. assert (S : struct_eq v (vclone ord v)) by (symmetry; apply vclone_struct_eq; assumption).
  split; [exact S|]. split; [symmetry; apply hash_struct_eq_sound; exact S|apply vcompare_struct_eq; exact S].
Qed.

(* ---------------------------------------- value_eqb decides Leibniz equality *)
Lemma bytes_eqb_eq a b : bytes_eqb a b = true -> a = b.
Proof. unfold bytes_eqb. destruct (lexcmp a b) eqn:E; try discriminate. intros _. apply lexcmp_eq; exact E. Qed.
Lemma bytes_eqb_refl a : bytes_eqb a a = true.
Proof. unfold bytes_eqb. rewrite lexcmp_refl. reflexivity. Qed.

Lemma value_eqb_eq : forall a b, value_eqb a b = true -> a = b.
Proof.
  induction a as [|x|x|x|x|s n o|l IH|m IH|x] using value_ind'; intros b H; destruct b; try discriminate H.
  - reflexivity.
  - cbn in H. apply eqb_prop in H. subst; reflexivity.
  - cbn in H. apply Z.eqb_eq in H. subst; reflexivity.
  - cbn in H. apply N.eqb_eq in H. subst; reflexivity.
  - cbn in H. apply bytes_eqb_eq in H. subst; reflexivity.
  - cbn in H. apply andb_prop in H as [H H3]. apply andb_prop in H as [H1 H2].
    apply Z.eqb_eq in H1, H2, H3. subst; reflexivity.
  - f_equal. cbn [value_eqb] in H. revert l0 H.
    induction IH as [|x xs Hx _ IHxs]; intros [|y ys] H; try discriminate H; [reflexivity|].
    apply andb_prop in H as [H1 H2]. f_equal; [apply Hx; exact H1|apply IHxs; exact H2].
  - f_equal. cbn [value_eqb] in H. revert m0 H.
    induction IH as [|[k x] xs Hx _ IHxs]; intros [|[k' y] ys] H; try discriminate H; [reflexivity|].
    apply andb_prop in H as [H H3]. apply andb_prop in H as [H1 H2].
    apply bytes_eqb_eq in H1. cbn [snd] in Hx. apply Hx in H2. subst. f_equal. apply IHxs; exact H3.
  - cbn in H. apply bytes_eqb_eq in H. subst; reflexivity.
Qed.

Lemma value_eqb_refl : forall a, value_eqb a a = true.
Proof.
  induction a as [|x|x|x|x|s n o|l IH|m IH|x] using value_ind'; cbn [value_eqb]; try reflexivity.
  - apply eqb_reflx.
  - apply Z.eqb_refl.
  - apply N.eqb_refl.
  - apply bytes_eqb_refl.
  - rewrite !Z.eqb_refl; reflexivity.
  - induction IH as [|x xs Hx _ IHxs]; [reflexivity|]. rewrite Hx, IHxs; reflexivity.
  - induction IH as [|[k x] xs Hx _ IHxs]; [reflexivity|]. cbn [snd] in Hx.
    rewrite bytes_eqb_refl, Hx, IHxs; reflexivity.
  - apply bytes_eqb_refl.
Qed.

Lemma struct_eqb_spec a b : struct_eqb a b = true <-> struct_eq a b.
Proof.
  unfold struct_eqb, struct_eq. split; [apply value_eqb_eq|]. intro H; rewrite H; apply value_eqb_refl.
Qed.
Lemma struct_eqb_true a b : struct_eqb a b = true -> struct_eq a b. Proof. apply struct_eqb_spec. Qed.
Lemma struct_eq_eqb a b : struct_eq a b -> struct_eqb a b = true. Proof. apply struct_eqb_spec. Qed.

Lemma struct_eq_refl a : struct_eq a a. Proof. reflexivity. Qed.
Lemma struct_eq_sym a b : struct_eq a b -> struct_eq b a. Proof. unfold struct_eq; congruence. Qed.
Lemma struct_eq_trans a b c : struct_eq a b -> struct_eq b c -> struct_eq a c.
Proof. unfold struct_eq; congruence. Qed.

(* ------------------------------- bounded converse on the enumerated universe *)
Definition hash_injective_on (U : list value) : Prop :=
  forall a b, In a U -> In b U -> hash a = hash b -> struct_eq a b.

Lemma inj_tri_sound H : inj_tri H = true ->
  forall x y, In x H -> In y H -> x = y \/ inj_chk x y = true \/ inj_chk y x = true.
Proof.
  induction H as [|a r IH]; intros T x y Hx Hy; [destruct Hx|].
  cbn [inj_tri] in T. apply andb_prop in T as [T1 T2]. rewrite forallb_forall in T1.
  destruct Hx as [Hx|Hx], Hy as [Hy|Hy]; subst.
  - left; reflexivity.
  - right; left. apply T1; exact Hy.
  - right; right. apply T1; exact Hx.
  - apply IH; assumption.
Qed.

Lemma hash_injective_onb_sound U : hash_injective_onb U = true -> hash_injective_on U.
Proof.
  unfold hash_injective_onb, hash_injective_on. intros H a b Ha Hb E.
  assert (Ia : In (hash a, norm a) (map (fun v => (hash v, norm v)) U)) by (apply (in_map (fun v => (hash v, norm v))); exact Ha).
  assert (Ib : In (hash b, norm b) (map (fun v => (hash v, norm v)) U)) by (apply (in_map (fun v => (hash v, norm v))); exact Hb).
  destruct (inj_tri_sound _ H _ _ Ia Ib) as [P|[P|P]].
  - unfold struct_eq. congruence.
  - unfold inj_chk in P. cbn [fst snd] in P. rewrite E, N.eqb_refl in P. apply value_eqb_eq; exact P.
  - unfold inj_chk in P. cbn [fst snd] in P. rewrite E, N.eqb_refl in P. symmetry. apply value_eqb_eq; exact P.
Qed.

Lemma hash_injective_on_universe_1 : hash_injective_on (universe 1).
Proof. apply hash_injective_onb_sound. vm_cast_no_check (eq_refl true). Qed.

(* ------------------------------------------------------------ FNV and bytes *)
Lemma fnv_step_mod h b : fnv_step h b = ((N.lxor h b * fnv_prime) mod 2 ^ 64)%N.
Proof.
  unfold fnv_step. change mask64 with (N.ones 64). rewrite N.land_ones. rewrite N.mul_comm. reflexivity.
Qed.

Lemma le_bytes_length k n : length (le_bytes k n) = k.
Proof. revert n. induction k as [|k IH]; intro n; [reflexivity|]. cbn [le_bytes length]. rewrite IH; reflexivity. Qed.

Lemma le_bytes_inj k : forall n n', (n < 256 ^ N.of_nat k)%N -> (n' < 256 ^ N.of_nat k)%N ->
  le_bytes k n = le_bytes k n' -> n = n'.
Proof.
  induction k as [|k IH]; intros n n' Hn Hn' E.
  - cbn in Hn, Hn'. lia.
  - cbn [le_bytes] in E. injection E as E0 E1.
    rewrite Nat2N.inj_succ, N.pow_succ_r' in Hn, Hn'.
    assert (Hq : (n / 256 = n' / 256)%N).
    { apply IH; [| |exact E1]; apply N.div_lt_upper_bound; lia. }
    rewrite (N.div_mod n 256), (N.div_mod n' 256) by lia. rewrite E0, Hq. reflexivity.
Qed.

Lemma le_bytes_wf k : forall n, Forall (fun b => (b < 256)%N) (le_bytes k n).
Proof. induction k as [|k IH]; intro n; constructor; [apply N.mod_lt; lia|apply IH]. Qed.

Lemma app_inv_len {A} (a a' r r' : list A) : length a = length a' -> a ++ r = a' ++ r' -> a = a' /\ r = r'.
Proof.
  revert a'. induction a as [|x xs IH]; intros [|y ys] L E; try discriminate L.
  - split; [reflexivity|exact E].
  - cbn in E. injection E as E0 E1. injection L as L. destruct (IH ys L E1) as [P Q]. subst. split; reflexivity.
Qed.

Lemma le64_app_inj h h' r r' : (h < 2 ^ 64)%N -> (h' < 2 ^ 64)%N ->
  le64 h ++ r = le64 h' ++ r' -> h = h' /\ r = r'.
Proof.
  intros Hh Hh' E. apply app_inv_len in E as [E1 E2]; [|unfold le64; rewrite !le_bytes_length; reflexivity].
  split; [|exact E2]. eapply (le_bytes_inj 8); [exact Hh|exact Hh'|exact E1].
Qed.

Lemma split_at_colon (k k' r r' : bytes) : ~ In colon k -> ~ In colon k' ->
  k ++ colon :: r = k' ++ colon :: r' -> k = k' /\ r = r'.
Proof.
  revert k'. induction k as [|x xs IH]; intros [|y ys] Nk Nk' E.
  - injection E as E. split; [reflexivity|exact E].
  - exfalso. cbn in E. injection E as E0 _. apply Nk'. left. symmetry; exact E0.
  - exfalso. cbn in E. injection E as E0 _. apply Nk. left. exact E0.
  - cbn in E. injection E as E0 E1. subst y.
    destruct (IH ys) as [P Q]; [intro H; apply Nk; right; exact H|intro H; apply Nk'; right; exact H|exact E1|].
    subst. split; reflexivity.
Qed.

(* ---------------------- the pre-image determines the value modulo children *)
Definition close_sq : N := 93%N.
Definition close_br : N := 125%N.
Definition elems_str (hs : list N) : bytes := join_comma (map le64 hs) ++ [close_sq].
Definition members_str (ms : list (bytes * N)) : bytes := join_comma (map member_bytes ms) ++ [close_br].

Lemma elems_str_cons h r :
  elems_str (h :: r) = le64 h ++ match r with [] => [close_sq] | _ => comma :: elems_str r end.
Proof. unfold elems_str. destruct r as [|h2 r]; [reflexivity|]. cbn [map join_comma]. rewrite <- !app_assoc. reflexivity. Qed.

Lemma members_str_cons m r :
  members_str (m :: r) =
  le64 (key_len (fst m)) ++ fst m ++ colon :: le64 (snd m) ++ match r with [] => [close_br] | _ => comma :: members_str r end.
Proof.
  unfold members_str, member_bytes. destruct r as [|m2 r]; cbn [map join_comma];
  rewrite <- !app_assoc; cbn [app]; rewrite <- ?app_assoc; reflexivity.
Qed.

Lemma le64_cons h : exists a t, le64 h = a :: t /\ t <> [].
Proof. unfold le64. cbn [le_bytes]. eexists; eexists; split; [reflexivity|discriminate]. Qed.

Lemma elems_str_inj hs : forall hs', Forall (fun h => (h < 2 ^ 64)%N) hs -> Forall (fun h => (h < 2 ^ 64)%N) hs' ->
  elems_str hs = elems_str hs' -> hs = hs'.
Proof.
  induction hs as [|h r IH]; intros [|h' r'] F F' E.
  - reflexivity.
  - exfalso. rewrite elems_str_cons in E. destruct (le64_cons h') as (a & t & Ea & Nt). rewrite Ea in E.
    cbn in E. injection E as _ E. destruct t; [congruence|discriminate E].
  - exfalso. rewrite elems_str_cons in E. destruct (le64_cons h) as (a & t & Ea & Nt). rewrite Ea in E.
    cbn in E. injection E as _ E. destruct t; [congruence|discriminate E].
  - rewrite !elems_str_cons in E. inversion F as [|? ? Hh Fr]; inversion F' as [|? ? Hh' Fr']; subst.
    apply le64_app_inj in E as [E1 E2]; [|assumption|assumption]. subst h'. f_equal.
    destruct r as [|h2 r], r' as [|h2' r']; try discriminate E2; [reflexivity|].
    injection E2 as E2. apply IH; assumption.
Qed.

(* a member is read back unambiguously: 8 bytes of key length, that many key
   bytes (whatever they are), ':', 8 bytes of child hash.  The only conditions
   are that both numbers fit their 8 bytes: hashes always do; a key's length
   does for every string a Go program can hold *)
Definition member_ok (kh : bytes * N) : Prop := (key_len (fst kh) < 2 ^ 64)%N /\ (snd kh < 2 ^ 64)%N.

Lemma members_str_nil_cons m r : members_str [] <> members_str (m :: r).
Proof.
  rewrite members_str_cons. destruct (le64_cons (key_len (fst m))) as (a & t & Ea & Nt). rewrite Ea.
  unfold members_str. cbn [map join_comma app]. intro E. injection E as _ E.
  destruct t; [congruence|discriminate E].
Qed.

Lemma members_str_inj ms : forall ms', Forall member_ok ms -> Forall member_ok ms' ->
  members_str ms = members_str ms' -> ms = ms'.
Proof.
  induction ms as [|[k h] r IH]; intros [|[k' h'] r'] F F' E.
  - reflexivity.
  - exfalso. exact (members_str_nil_cons _ _ E).
  - exfalso. symmetry in E. exact (members_str_nil_cons _ _ E).
  - rewrite !members_str_cons in E. cbn [fst snd] in E.
    inversion F as [|? ? [Lk Hh] Fr]; inversion F' as [|? ? [Lk' Hh'] Fr']; subst. cbn [fst snd] in *.
    apply le64_app_inj in E as [E0 E]; [|assumption|assumption].
    unfold key_len in E0. apply Nat2N.inj in E0.
    apply app_inv_len in E as [E1 E2]; [|exact E0]. subst k'.
    apply (f_equal (@tl N)) in E2. cbn [tl] in E2.
    apply le64_app_inj in E2 as [E2 E3]; [|assumption|assumption]. subst h'. f_equal.
    destruct r as [|m2 r], r' as [|m2' r']; try discriminate E3; [reflexivity|].
    injection E3 as E3. apply IH; assumption.
Qed.

Definition sh_ok (s : shallow) : Prop :=
  match s with
  | ShInt z => - 2 ^ 63 <= z < 2 ^ 63
  | ShFloat f => (f < 2 ^ 64)%N
  | ShDate s n o => (0 <= s + unix_to_internal < 2 ^ 63) /\ (0 <= n < 2 ^ 31) /\ (- 2 ^ 15 <= o < 2 ^ 15)
  | ShArr hs => Forall (fun h => (h < 2 ^ 64)%N) hs
  | ShObj ms => Forall member_ok ms
  | _ => True
  end.

Lemma sh_name_nocolon s : ~ In colon (sh_name s).
Proof. destruct s; vm_compute; intuition discriminate. Qed.

Lemma uwrap_inj bits z z' : 0 < bits ->
  - 2 ^ (bits - 1) <= z < 2 ^ (bits - 1) -> - 2 ^ (bits - 1) <= z' < 2 ^ (bits - 1) ->
  uwrap bits z = uwrap bits z' -> z = z'.
Proof.
  intros Hb Hz Hz' E. unfold uwrap in E.
  assert (P : 2 ^ bits = 2 * 2 ^ (bits - 1)) by (rewrite <- Z.pow_succ_r by lia; f_equal; lia).
  assert (Q : 0 < 2 ^ (bits - 1)) by (apply Z.pow_pos_nonneg; lia).
  apply Z2N.inj in E; try (apply Z.mod_pos_bound; lia).
  rewrite P in E.
  pose proof (Z.mod_pos_bound z (2 * 2 ^ (bits - 1)) ltac:(lia)) as B.
  pose proof (Z.mod_pos_bound z' (2 * 2 ^ (bits - 1)) ltac:(lia)) as B'.
  pose proof (Z.div_mod z (2 * 2 ^ (bits - 1)) ltac:(lia)) as D.
  pose proof (Z.div_mod z' (2 * 2 ^ (bits - 1)) ltac:(lia)) as D'.
  rewrite E in D.
  set (H := 2 ^ (bits - 1)) in *. set (q := z / (2 * H)) in *. set (q' := z' / (2 * H)) in *.
  set (r := z' mod (2 * H)) in *.
  destruct (Z.lt_trichotomy q q') as [L|[L|L]]; [exfalso|subst q; rewrite L in D; lia|exfalso].
  - assert (H * (q + 1) <= H * q') by (apply Z.mul_le_mono_nonneg_l; lia). lia.
  - assert (H * (q' + 1) <= H * q) by (apply Z.mul_le_mono_nonneg_l; lia). lia.
Qed.

Lemma uwrap_lt bits z : 0 <= bits -> (uwrap bits z < 2 ^ Z.to_N bits)%N.
Proof.
  intro Hb. unfold uwrap.
  assert (Q : 0 < 2 ^ bits) by (apply Z.pow_pos_nonneg; lia).
  pose proof (Z.mod_pos_bound z (2 ^ bits) Q) as B.
  apply N2Z.inj_lt. rewrite Z2N.id by lia. rewrite N2Z.inj_pow. rewrite Z2N.id by lia. cbn. lia.
Qed.

Lemma be_bytes_app_inj k n n' r r' : (n < 256 ^ N.of_nat k)%N -> (n' < 256 ^ N.of_nat k)%N ->
  be_bytes k n ++ r = be_bytes k n' ++ r' -> n = n' /\ r = r'.
Proof.
  intros Hn Hn' E. apply app_inv_len in E as [E1 E2]; [|unfold be_bytes; rewrite !rev_length, !le_bytes_length; reflexivity].
  split; [|exact E2]. unfold be_bytes in E1. apply (f_equal (@rev N)) in E1. rewrite !rev_involutive in E1.
  eapply le_bytes_inj; eassumption.
Qed.

Lemma preimage_injective a b : sh_ok a -> sh_ok b -> preimage a = preimage b -> a = b.
Proof.
  intros Oa Ob E. unfold preimage in E.
  apply split_at_colon in E as [En Ec]; [|apply sh_name_nocolon|apply sh_name_nocolon].
  destruct a, b; try (exfalso; vm_compute in En; discriminate En); clear En; cbn [sh_content sh_ok] in *.
  - destruct b, b0; try reflexivity; vm_compute in Ec; discriminate Ec.
  - f_equal. rewrite <- (app_nil_r (le64 (uwrap 64 z))), <- (app_nil_r (le64 (uwrap 64 z0))) in Ec.
    apply le64_app_inj in Ec as [Ec _]; try apply (uwrap_lt 64); try lia.
    apply (uwrap_inj 64); try lia; assumption.
  - f_equal. rewrite <- (app_nil_r (le64 bits)), <- (app_nil_r (le64 bits0)) in Ec.
    apply le64_app_inj in Ec as [Ec _]; assumption.
  - f_equal; exact Ec.
  - destruct Oa as (Os & On & Oo). destruct Ob as (Os' & On' & Oo').
    unfold gob_time in Ec. apply (f_equal (@tl N)) in Ec. cbn [app tl] in Ec.
    apply be_bytes_app_inj in Ec as [E1 Ec]; try apply (uwrap_lt 64); try lia.
    apply be_bytes_app_inj in Ec as [E2 Ec]; try apply (uwrap_lt 32); try lia.
    rewrite <- (app_nil_r (be_bytes 2 (uwrap 16 off))), <- (app_nil_r (be_bytes 2 (uwrap 16 off0))) in Ec.
    apply be_bytes_app_inj in Ec as [E3 _]; try apply (uwrap_lt 16); try lia.
    apply (uwrap_inj 64) in E1; try lia. apply (uwrap_inj 32) in E2; try lia. apply (uwrap_inj 16) in E3; try lia.
    f_equal; lia.
  - f_equal. apply (f_equal (@tl N)) in Ec. cbn [bs app tl] in Ec. apply elems_str_inj; assumption.
  - f_equal. apply (f_equal (@tl N)) in Ec. cbn [bs app tl] in Ec. apply members_str_inj; assumption.
  - f_equal; exact Ec.
Qed.

(* hashes are 64-bit numbers *)
Lemma fnv_step_lt h b : (fnv_step h b < 2 ^ 64)%N.
Proof. rewrite fnv_step_mod. apply N.mod_lt. discriminate. Qed.
Lemma fnv_lt s : (fnv s < 2 ^ 64)%N.
Proof.
  unfold fnv. assert (G : forall h, (h < 2 ^ 64)%N -> (fold_left fnv_step s h < 2 ^ 64)%N).
  { induction s as [|b r IH]; intros h Hh; [exact Hh|]. cbn [fold_left]. apply IH, fnv_step_lt. }
  apply G. vm_compute. reflexivity.
Qed.
Lemma hash_lt v : (hash v < 2 ^ 64)%N.
Proof. destruct v; cbn [hash]; try apply fnv_lt. vm_compute; reflexivity. Qed.

(* side conditions of [preimage_injective] for the shallow view of a
   well-formed value.  Both say that a number fits the fixed-width field the
   code writes it into, i.e. that the model value is one a Go program can hold:
   dates from year 1 on with an int16 zone offset (time.Time's binary form),
   and object keys shorter than 2^64 bytes (uint64(len(key)); a Go string's
   length is an int).  Nothing is asked of the bytes a key contains. *)
Definition top_ok (v : value) : Prop :=
  match v with
  | VDate s _ o => (0 <= s + unix_to_internal < 2 ^ 63) /\ (- 2 ^ 15 <= o < 2 ^ 15)
  | VObj m => Forall (fun kv => (key_len (fst kv) < 2 ^ 64)%N) m
  | _ => True
  end.

Lemma shallow_ok v s : wfb v = true -> top_ok v -> shallow_of v = Some s -> sh_ok s.
Proof.
  intros W T E. destruct v; cbn [shallow_of] in E; try discriminate E; injection E as E; subst s; cbn [sh_ok]; try exact I.
  - cbn [wfb] in W. apply andb_prop in W as [W1 W2]. lia.
  - cbn [wfb] in W. unfold f_finite in W. apply andb_prop in W as [_ W]. apply N.ltb_lt in W. exact W.
  - cbn [wfb] in W. cbn [top_ok] in T. apply andb_prop in W as [W1 W2]. lia.
  - apply Forall_forall. intros h Hin. apply in_map_iff in Hin as (x & Hx & _). subst h. apply hash_lt.
  - cbn [top_ok] in T. unfold sort_members.
    eapply Permutation_Forall; [apply isort_perm|].
    apply Forall_forall. intros kh Hin. apply in_map_iff in Hin as (kv & Hkv & Hin). subst kh.
    rewrite Forall_forall in T. split; cbn [fst snd]; [apply T; exact Hin|apply hash_lt].
Qed.

Lemma preimage_injective_values a b sa sb :
  wfb a = true -> wfb b = true -> top_ok a -> top_ok b ->
  shallow_of a = Some sa -> shallow_of b = Some sb -> preimage sa = preimage sb -> sa = sb.
Proof.
  intros Wa Wb Ta Tb Sa Sb E. apply preimage_injective; [apply (shallow_ok a)|apply (shallow_ok b)|]; assumption.
Qed.

(* objects alone: the sorted (key, child hash) list is determined by the bytes *)
Lemma object_preimage_injective m m' :
  Forall (fun kv => (N.of_nat (List.length (fst kv)) < 2 ^ 64)%N) m ->
  Forall (fun kv => (N.of_nat (List.length (fst kv)) < 2 ^ 64)%N) m' ->
  preimage (ShObj (sort_members (map (fun kv => (fst kv, hash (snd kv))) m))) =
  preimage (ShObj (sort_members (map (fun kv => (fst kv, hash (snd kv))) m'))) ->
  sort_members (map (fun kv => (fst kv, hash (snd kv))) m) =
  sort_members (map (fun kv => (fst kv, hash (snd kv))) m').
Proof.
  intros F F' E.
  assert (G : forall m0, Forall (fun kv => (N.of_nat (List.length (fst kv)) < 2 ^ 64)%N) m0 ->
            sh_ok (ShObj (sort_members (map (fun kv => (fst kv, hash (snd kv))) m0)))).
  { intros m0 F0. cbn [sh_ok]. unfold sort_members. eapply Permutation_Forall; [apply isort_perm|].
    apply Forall_forall. intros kh Hin. apply in_map_iff in Hin as (kv & Hkv & Hin). subst kh.
    rewrite Forall_forall in F0. split; cbn [fst snd]; [apply (F0 kv Hin)|apply hash_lt]. }
  apply preimage_injective in E; [|apply G; exact F|apply G; exact F'].
  congruence.
Qed.

(* ----------------------------- the former delimiter collision is gone *)
Lemma collide_key_len h : key_len (collide_key h) = 12%N.
Proof.
  unfold key_len, collide_key. rewrite app_length. cbn [length]. rewrite app_length.
  unfold le64. rewrite le_bytes_length. reflexivity.
Qed.

Lemma collide_not_struct_eq v w : ~ struct_eq (collide_left v w) (collide_right v w).
Proof.
  unfold struct_eq, collide_left, collide_right. rewrite !norm_obj. intro H.
  apply (f_equal (fun x => match x with VObj m => length m | _ => O end)) in H.
  rewrite !isort_length in H. discriminate H.
Qed.

Lemma sort_members_ok ms : Forall member_ok ms -> Forall member_ok (sort_members ms).
Proof. intro F. unfold sort_members. eapply Permutation_Forall; [apply isort_perm|exact F]. Qed.

(* {a: v, b: w} and {"a:" ++ le64 (hash v) ++ ",b": w}: different values, and now
   different byte strings — for all v, w, well-formed or not *)
Lemma collide_preimage_differs v w sa sb :
  shallow_of (collide_left v w) = Some sa -> shallow_of (collide_right v w) = Some sb ->
  preimage sa <> preimage sb.
Proof.
  unfold collide_left, collide_right. cbn [shallow_of map fst snd]. intros Ea Eb E.
  assert (Sa : ShObj (sort_members [(bs "a", hash v); (bs "b", hash w)]) = sa) by congruence.
  assert (Sb : ShObj (sort_members [(collide_key (hash v), hash w)]) = sb) by congruence.
  clear Ea Eb. subst sa sb.
  apply preimage_injective in E.
  - apply (f_equal (fun s => match s with ShObj ms => length ms | _ => O end)) in E.
    cbv beta iota in E. unfold sort_members in E. rewrite !isort_length in E. discriminate E.
  - cbn [sh_ok]. apply sort_members_ok.
    apply Forall_cons; [|apply Forall_cons; [|apply Forall_nil]];
      (split; cbn [fst snd]; [vm_compute; reflexivity|apply hash_lt]).
  - cbn [sh_ok]. apply sort_members_ok.
    apply Forall_cons; [|apply Forall_nil].
    split; cbn [fst snd]; [rewrite collide_key_len; reflexivity|apply hash_lt].
Qed.

(* the recorded witness, evaluated: the two hashes differ *)
Lemma collide_witness_hash_differs :
  hash (collide_left (VInt 5578) (VInt 2)) <> hash (collide_right (VInt 5578) (VInt 2)) /\
  collect_key (bs "k") (collide_left (VInt 5578) (VInt 2)) <> collect_key (bs "k") (collide_right (VInt 5578) (VInt 2)) /\
  map_hash [(bs "a", VInt 5578); (bs "b", VInt 2)] <> map_hash [(collide_key (hash (VInt 5578)), VInt 2)].
Proof. repeat split; intro H; vm_compute in H; discriminate H. Qed.

(* --------------------------------------------------- exact de-duplication *)
From Coq Require Import SetoidList.

Lemma existsb_struct_eqb x l : existsb (struct_eqb x) l = true <-> exists y, In y l /\ struct_eq x y.
Proof.
  rewrite existsb_exists. split; intros (y & Hy & E); exists y; (split; [exact Hy|]); apply struct_eqb_spec; exact E.
Qed.

Section DedupProofs.
  Variable key : value -> N.
  Hypothesis key_sound : forall a b, struct_eq a b -> key a = key b.
  (* the no-collision hypothesis, on the values that occur *)
  Variable P : value -> Prop.
  Hypothesis no_collision : forall a b, P a -> P b -> key a = key b -> struct_eq a b.

  Lemma dedup_aux_firsts l : forall seenK prefix,
    Forall P prefix -> Forall P l ->
    (forall k, In k seenK <-> In k (map key prefix)) ->
    dedup_aux key seenK l = firsts_aux prefix l.
  Proof.
    induction l as [|x r IH]; intros seenK prefix Fp Fl Inv; [reflexivity|].
    inversion Fl as [|? ? Px Fr]; subst. cbn [dedup_aux firsts_aux].
    assert (E : existsb (N.eqb (key x)) seenK = existsb (struct_eqb x) prefix).
    { apply eq_true_iff_eq. rewrite existsb_struct_eqb, existsb_exists. split.
      - intros (k & Hk & Ek). apply N.eqb_eq in Ek. subst k. apply Inv in Hk.
        apply in_map_iff in Hk as (y & Ey & Hy). exists y. split; [exact Hy|].
        rewrite Forall_forall in Fp. apply no_collision; [exact Px|apply Fp; exact Hy|symmetry; exact Ey].
      - intros (y & Hy & Ey). exists (key x). split; [|apply N.eqb_refl].
        apply Inv. rewrite (key_sound _ _ Ey). apply in_map; exact Hy. }
    rewrite E. destruct (existsb (struct_eqb x) prefix) eqn:Ex.
    - cbn [app]. apply IH; [constructor; assumption|exact Fr|].
      intro k. rewrite Inv. cbn [map In]. split; [intro H; right; exact H|].
      intros [H|H]; [|exact H]. subst k.
      apply existsb_struct_eqb in Ex as (y & Hy & Ey). rewrite (key_sound _ _ Ey). apply in_map; exact Hy.
    - cbn [app]. f_equal. apply IH; [constructor; assumption|exact Fr|].
      intro k. cbn [map In]. rewrite Inv. reflexivity.
  Qed.

  Lemma dedup_firsts l : Forall P l -> dedup key l = firsts l.
  Proof. intro F. apply dedup_aux_firsts; [constructor|exact F|]. intro k; cbn; reflexivity. Qed.
End DedupProofs.

(* properties of the specification [firsts] *)
Lemma firsts_aux_complete l : forall prefix x, In x (prefix ++ l) ->
  exists y, In y (prefix ++ firsts_aux prefix l) /\ struct_eq x y.
Proof.
  induction l as [|x0 r IH]; intros prefix x Hx.
  - exists x. split; [exact Hx|reflexivity].
  - cbn [firsts_aux].
    assert (Hx' : In x ((x0 :: prefix) ++ r)).
    { apply in_app_or in Hx as [H|[H|H]]; [right; apply in_or_app; left; exact H|left; exact H|right; apply in_or_app; right; exact H]. }
    destruct (IH (x0 :: prefix) x Hx') as (y & Hy & Ey).
    destruct (existsb (struct_eqb x0) prefix) eqn:Ex; cbn [app] in *.
    + destruct Hy as [Hy|Hy].
      * subst y. apply existsb_struct_eqb in Ex as (y' & Hy' & Ey'). exists y'.
        split; [apply in_or_app; left; exact Hy'|eapply struct_eq_trans; eassumption].
      * exists y. split; [exact Hy|exact Ey].
    + exists y. split; [|exact Ey]. destruct Hy as [Hy|Hy].
      * subst y. apply in_or_app; right; left; reflexivity.
      * apply in_app_or in Hy as [Hy|Hy]; apply in_or_app; [left; exact Hy|right; right; exact Hy].
Qed.

(* no value is dropped: every input value has a structurally identical representative *)
Lemma firsts_complete l x : In x l -> exists y, In y (firsts l) /\ struct_eq x y.
Proof. intro Hx. apply (firsts_aux_complete l [] x Hx). Qed.

Lemma firsts_aux_fresh l : forall prefix y, In y (firsts_aux prefix l) ->
  In y l /\ forall p, In p prefix -> ~ struct_eq y p.
Proof.
  induction l as [|x r IH]; intros prefix y Hy; [destruct Hy|].
  cbn [firsts_aux] in Hy. apply in_app_or in Hy as [Hy|Hy].
  - destruct (existsb (struct_eqb x) prefix) eqn:Ex; [destruct Hy|]. destruct Hy as [Hy|[]]. subst y.
    split; [left; reflexivity|]. intros p Hp E.
    assert (T : existsb (struct_eqb x) prefix = true) by (apply existsb_struct_eqb; exists p; split; assumption).
    congruence.
  - destruct (IH _ _ Hy) as [Hin Hf]. split; [right; exact Hin|]. intros p Hp. apply Hf. right; exact Hp.
Qed.

(* no two kept values are structurally identical *)
Lemma firsts_aux_nodup l : forall prefix, NoDupA struct_eq (firsts_aux prefix l).
Proof.
  induction l as [|x r IH]; intro prefix; [constructor|]. cbn [firsts_aux].
  destruct (existsb (struct_eqb x) prefix); cbn [app]; [apply IH|].
  constructor; [|apply IH]. intro H. apply InA_alt in H as (y & Exy & Hy).
  apply firsts_aux_fresh in Hy as [_ Hf]. apply (Hf x); [left; reflexivity|apply struct_eq_sym; exact Exy].
Qed.
Lemma firsts_nodup l : NoDupA struct_eq (firsts l).
Proof. apply firsts_aux_nodup. Qed.

(* the occurrence kept is the first: the output is the input with exactly those
   positions removed that have a structurally identical predecessor *)
Lemma firsts_aux_app l1 : forall prefix l2,
  firsts_aux prefix (l1 ++ l2) = firsts_aux prefix l1 ++ firsts_aux (rev l1 ++ prefix) l2.
Proof.
  induction l1 as [|x r IH]; intros prefix l2; [reflexivity|].
  cbn [app firsts_aux rev]. rewrite IH, <- !app_assoc. reflexivity.
Qed.

Lemma firsts_first_occurrence l1 x l2 :
  firsts (l1 ++ x :: l2) =
  firsts l1 ++ (if existsb (struct_eqb x) l1 then [] else [x]) ++ firsts_aux (x :: rev l1) l2.
Proof.
  unfold firsts. rewrite firsts_aux_app. cbn [firsts_aux]. rewrite app_nil_r.
  f_equal. f_equal. clear. 
  assert (G : forall l, existsb (struct_eqb x) (rev l) = existsb (struct_eqb x) l).
  { intro l. apply eq_true_iff_eq. rewrite !existsb_exists. split; intros (y & Hy & E); exists y; (split; [|exact E]);
    [apply in_rev; exact Hy|apply in_rev in Hy; exact Hy]. }
  rewrite G. reflexivity.
Qed.

(* the key of COLLECT groups respects structural identity as well *)
Lemma collect_key_sound var a b : struct_eq a b -> collect_key var a = collect_key var b.
Proof. intro E. unfold collect_key, map_hash. cbn [map fst snd]. rewrite (hash_struct_eq_sound a b E). reflexivity. Qed.

Lemma dedup_hash_exact (P : value -> Prop) l :
  (forall a b, P a -> P b -> hash a = hash b -> struct_eq a b) -> Forall P l -> dedup hash l = firsts l.
Proof. intros NC F. eapply dedup_firsts; [exact hash_struct_eq_sound|exact NC|exact F]. Qed.

Lemma dedup_collect_exact var (P : value -> Prop) l :
  (forall a b, P a -> P b -> collect_key var a = collect_key var b -> struct_eq a b) ->
  Forall P l -> dedup (collect_key var) l = firsts l.
Proof. intros NC F. eapply dedup_firsts; [exact (collect_key_sound var)|exact NC|exact F]. Qed.
