(* Proofs/CodecUtf8Proofs.v — facts about the UTF-8 segmentation used by the
   C17 codec models. *)
From Ferret Require Import Codec.CUtf8.
From Coq Require Import Lia ZifyBool ZifyN.
Open Scope N_scope.

Ltac break_if :=
  match goal with
  | |- context [if ?b then _ else _] => destruct b eqn:?
  | |- context [match ?l with [] => _ | _ :: _ => _ end] => destruct l
  end.

Lemma utf8_decode_width : forall b r,
  (1 <= snd (utf8_decode (b :: r)) <= List.length (b :: r))%nat.
Proof.
  intros b r. unfold utf8_decode. repeat break_if; cbn [snd List.length]; lia.
Qed.

Lemma utf8_decode_ascii : forall b r, b < 128 -> utf8_decode (b :: r) = (b, 1%nat).
Proof. intros b r H. unfold utf8_decode. destruct (b <? 128) eqn:E; [reflexivity | lia]. Qed.

Lemma skipn_all_nil : forall {A} k, skipn k (@nil A) = [].
Proof. intros A k. destruct k; reflexivity. Qed.

Lemma valid_go_skipn : forall s k, valid_go k s = valid_go 0 (skipn k s).
Proof.
  induction s as [|b r IH]; intros k.
  - rewrite skipn_all_nil. destruct k; reflexivity.
  - destruct k as [|k]; [reflexivity|]. cbn [valid_go skipn]. apply IH.
Qed.

Lemma units_go_concat : forall s k, concat (units_go k s) = skipn k s.
Proof.
  induction s as [|b r IH]; intros k.
  - rewrite skipn_all_nil. destruct k; reflexivity.
  - destruct k as [|k].
    + cbn [units_go concat skipn].
      pose proof (utf8_decode_width b r) as W.
      remember (snd (utf8_decode (b :: r))) as w eqn:Ew. clear Ew.
      destruct w as [|w]; [lia|].
      rewrite IH. cbn [firstn]. replace (S w - 1)%nat with w by lia.
      cbn [app]. f_equal. apply firstn_skipn.
    + cbn [units_go skipn]. apply IH.
Qed.

Lemma utf8_units_concat : forall s, concat (utf8_units s) = s.
Proof. intros s. unfold utf8_units. rewrite units_go_concat. reflexivity. Qed.

(* a valid string: the first unit is well formed and the rest is valid *)
Lemma utf8_valid_cons : forall b r,
  utf8_valid (b :: r) = true ->
  utf8_first_ok (b :: r) = true /\
  utf8_valid (skipn (snd (utf8_decode (b :: r))) (b :: r)) = true.
Proof.
  intros b r H. unfold utf8_valid in *. cbn [valid_go] in H.
  apply andb_true_iff in H. destruct H as [H1 H2]. split; [exact H1|].
  pose proof (utf8_decode_width b r) as W.
  remember (snd (utf8_decode (b :: r))) as w eqn:Ew. clear Ew.
  destruct w as [|w]; [lia|]. cbn [skipn].
  replace (S w - 1)%nat with w in H2 by lia.
  rewrite valid_go_skipn in H2. exact H2.
Qed.

Lemma is_ascii_valid : forall s, is_ascii s = true -> utf8_valid s = true.
Proof.
  unfold utf8_valid. induction s as [|b r IH]; intros H; [reflexivity|].
  cbn [is_ascii forallb] in H. apply andb_true_iff in H. destruct H as [Hb Hr].
  cbn [valid_go]. unfold utf8_first_ok. rewrite utf8_decode_ascii by lia.
  cbn [snd Nat.sub].
  assert (E : (b =? rune_error) = false) by (unfold rune_error; lia).
  rewrite E. cbn [negb andb]. apply IH. exact Hr.
Qed.

(* ---- decoding what AppendRune wrote gives the rune back *)
Ltac Zify.zify_post_hook ::= Z.div_mod_to_equations.
Ltac brk := match goal with |- context [if ?b then _ else _] =>
  lazymatch b with context [if _ then _ else _] => fail | _ => destruct b eqn:? end end.

Lemma utf8_decode_encode : forall r t, valid_rune r = true ->
  utf8_decode (utf8_encode r ++ t) = (r, List.length (utf8_encode r)).
Proof.
  intros r t Hv0. pose proof Hv0 as Hv. unfold valid_rune in Hv. unfold utf8_encode.
  destruct (r <? 128) eqn:E1.
  - cbn [app]. rewrite utf8_decode_ascii by lia. reflexivity.
  - destruct (r <? 2048) eqn:E2.
    + cbn [app List.length]. unfold utf8_decode, cont, in_rng. cbv beta iota.
      repeat brk; try lia; f_equal; lia.
    + rewrite Hv0. cbn [negb]. destruct (r <? 65536) eqn:E3.
      * cbn [app List.length]. unfold utf8_decode, cont, in_rng. cbv beta iota.
        repeat brk; try lia; f_equal; lia.
      * cbn [app List.length]. unfold utf8_decode, cont, in_rng. cbv beta iota.
        repeat brk; try lia; f_equal; lia.
Qed.

Lemma utf8_encode_nonempty : forall r, utf8_encode r <> [].
Proof. intros r. unfold utf8_encode. repeat brk; discriminate. Qed.

(* every decoded rune is a valid rune (U+FFFD for invalid input) *)
Lemma utf8_decode_valid : forall s, valid_rune (fst (utf8_decode s)) = true.
Proof.
  intros s. unfold utf8_decode, valid_rune, cont, in_rng, rune_error.
  destruct s as [|b0 [|b1 [|b2 [|b3 r]]]]; cbv beta iota; repeat brk; cbn [fst]; lia.
Qed.

Lemma runes_go_skipn : forall s k, runes_go k s = runes_go 0 (skipn k s).
Proof.
  induction s as [|b r IH]; intros k.
  - rewrite skipn_all_nil. destruct k; reflexivity.
  - destruct k as [|k]; [reflexivity|]. cbn [runes_go skipn]. apply IH.
Qed.

Lemma utf8_runes_encode : forall r t, valid_rune r = true ->
  utf8_runes (utf8_encode r ++ t) = r :: utf8_runes t.
Proof.
  intros r t Hv. unfold utf8_runes.
  pose proof (utf8_decode_encode r t Hv) as D.
  pose proof (utf8_encode_nonempty r) as NE.
  destruct (utf8_encode r) as [|b rest] eqn:E; [congruence|].
  cbn [app] in *. cbn [runes_go]. rewrite D. f_equal.
  rewrite runes_go_skipn. cbn [List.length]. replace (S (List.length rest) - 1)%nat with (List.length rest) by lia.
  rewrite skipn_app. rewrite skipn_all. rewrite Nat.sub_diag. reflexivity.
Qed.

Lemma utf8_runes_flat_encode : forall rs, Forall (fun r => valid_rune r = true) rs ->
  utf8_runes (flat_map utf8_encode rs) = rs.
Proof.
  induction rs as [|r rs IH]; intros H; [reflexivity|].
  inversion H as [|? ? Hr Hrs]; subst. cbn [flat_map].
  rewrite utf8_runes_encode by assumption. rewrite IH by assumption. reflexivity.
Qed.

Lemma runes_go_valid : forall s k, Forall (fun r => valid_rune r = true) (runes_go k s).
Proof.
  induction s as [|b r IH]; intros k; [destruct k; constructor|].
  destruct k as [|k]; cbn [runes_go]; [|apply IH].
  pose proof (utf8_decode_valid (b :: r)) as V.
  destruct (utf8_decode (b :: r)) as [c w]. constructor; [exact V|apply IH].
Qed.

Lemma utf8_runes_valid : forall s, Forall (fun r => valid_rune r = true) (utf8_runes s).
Proof. intros s. apply runes_go_valid. Qed.

Lemma utf8_runes_ascii : forall s, is_ascii s = true -> utf8_runes s = s.
Proof.
  unfold utf8_runes. induction s as [|b r IH]; intros H; [reflexivity|].
  cbn [is_ascii forallb] in H. apply andb_true_iff in H. destruct H as [Hb Hr].
  cbn [runes_go]. rewrite utf8_decode_ascii by lia. cbn [Nat.sub]. rewrite IH by exact Hr. reflexivity.
Qed.
