(* Proofs/IterProofs.v — the iterator state machines refine the list-level
   specifications of FILTER, LIMIT, SORT, DISTINCT and COLLECT. *)
From Ferret Require Import Iter.
From Coq Require Import Lia Permutation.

Section IterProofs.
  Context {A : Type}.
  Arguments s_next {A St}. Arguments s_drain {A St}.
  Arguments l_cnt {St}. Arguments l_off {St}. Arguments l_cur {St}. Arguments l_src {St}.

  Lemma list_source_lawful : lawful (@list_source A).
  Proof. intros [|x r]; reflexivity. Qed.

  (* ------------------------------------------------------------ FILTER *)
  Section Filter.
    Context {St : Type} (src : source (A := A) St) (Hlaw : lawful src) (p : A -> bool).

    Lemma filter_next_spec : forall fuel s, (length (s_drain src s) < fuel)%nat ->
      filter p (s_drain src s) =
      match filter_next src p fuel s with
      | None => []
      | Some (a, s') => a :: filter p (s_drain src s')
      end.
    Proof.
      induction fuel as [|k IH]; intros s Hf; [lia|].
      cbn [filter_next]. rewrite (Hlaw s) in Hf |- *.
      destruct (s_next src s) as [[a s']|]; [|reflexivity].
      cbn [filter]. cbn [length] in Hf.
      destruct (p a); [reflexivity|]. apply IH. lia.
    Qed.

    (* the FilterIterator is again a lawful iterator and produces exactly the
       elements satisfying the predicate, in order *)
    Lemma filter_source_lawful : lawful (filter_source src p).
    Proof. intro s. unfold filter_source. cbn [s_next s_drain]. apply filter_next_spec. lia. Qed.
  End Filter.

  (* ------------------------------------------------------------ LIMIT *)
  Section Limit.
    Context {St : Type} (src : source (A := A) St) (Hlaw : lawful src).

    (* taking phase: the offset has been consumed *)
    Lemma limit_take : forall l fuel s c o cur,
      s_drain src s = l -> (length l < fuel)%nat -> (o = 0 \/ o <= cur) -> 0 <= cur ->
      limit_drain src fuel {| l_cnt := c; l_off := o; l_cur := cur; l_src := s |} =
      firstn (Z.to_nat (c - (cur - o))) l.
    Proof.
      induction l as [|x r IH]; intros fuel s c o cur Hd Hf Ho Hc.
      - destruct fuel as [|k]; [lia|]. cbn [limit_drain]. unfold limit_next. cbn [l_src l_cnt l_off l_cur].
        rewrite Hd. cbn [length verify_offset l_off l_cur l_src l_cnt].
        assert (E : (o =? 0) || negb (cur <? o) = true).
        { destruct Ho as [->|Ho]; [reflexivity|]. destruct (Z.ltb_spec cur o); [lia|].
          rewrite Bool.orb_true_r; reflexivity. }
        rewrite E. cbn [l_off l_cur l_src l_cnt].
        rewrite (Hlaw s) in Hd.
        destruct (s_next src s) as [[a s']|]; [discriminate|].
        destruct (cur + 1 - o <=? c); rewrite firstn_nil; reflexivity.
      - destruct fuel as [|k]; [cbn in Hf; lia|]. cbn [limit_drain]. unfold limit_next. cbn [l_src l_cnt l_off l_cur].
        rewrite Hd. cbn [length verify_offset l_off l_cur l_src l_cnt].
        assert (E : (o =? 0) || negb (cur <? o) = true).
        { destruct Ho as [->|Ho]; [reflexivity|]. destruct (Z.ltb_spec cur o); [lia|].
          rewrite Bool.orb_true_r; reflexivity. }
        rewrite E. cbn [l_off l_cur l_src l_cnt].
        pose proof (Hlaw s) as Hs. rewrite Hd in Hs.
        destruct (s_next src s) as [[a s']|] eqn:En; [|discriminate].
        inversion Hs as [[Ha H1]]; subst a.
        destruct (Z.leb_spec (cur + 1 - o) c) as [Hle|Hgt].
        + rewrite (IH k s' c o (cur + 1)); try lia; [|symmetry; assumption| cbn in Hf; lia].
          replace (Z.to_nat (c - (cur - o))) with (S (Z.to_nat (c - (cur + 1 - o)))) by lia.
          rewrite <- H1. reflexivity.
        + replace (Z.to_nat (c - (cur - o))) with O by lia. reflexivity.
    Qed.

    (* skipping phase *)
    Lemma verify_skip : forall l fuel s c o cur,
      s_drain src s = l -> (length l < fuel)%nat -> 0 <= cur -> cur <= o ->
      match verify_offset src fuel {| l_cnt := c; l_off := o; l_cur := cur; l_src := s |} with
      | None => (length l < Z.to_nat (o - cur))%nat
      | Some st => (Z.to_nat (o - cur) <= length l)%nat /\ l_cnt st = c /\ l_off st = o /\
                   l_cur st = o /\ s_drain src (l_src st) = skipn (Z.to_nat (o - cur)) l
      end.
    Proof.
      induction l as [|x r IH]; intros fuel s c o cur Hd Hf Hc Ho.
      - destruct fuel as [|k]; [lia|]. cbn [verify_offset l_off l_cur l_src l_cnt].
        destruct (Z.eqb_spec o 0) as [E0|E0].
        + cbn. subst o. assert (cur = 0) by lia. subst. cbn. repeat split; auto.
        + destruct (Z.ltb_spec cur o) as [Hlt|Hge]; cbn [orb negb].
          * rewrite (Hlaw s) in Hd. destruct (s_next src s) as [[a s']|]; [discriminate|].
            cbn. lia.
          * assert (cur = o) by lia. subst. replace (o - o) with 0 by lia. cbn. repeat split; auto.
      - destruct fuel as [|k]; [cbn in Hf; lia|]. cbn [verify_offset l_off l_cur l_src l_cnt].
        destruct (Z.eqb_spec o 0) as [E0|E0].
        + cbn. subst o. assert (cur = 0) by lia. subst. cbn. repeat split; auto. lia.
        + destruct (Z.ltb_spec cur o) as [Hlt|Hge]; cbn [orb negb].
          * pose proof (Hlaw s) as Hs. rewrite Hd in Hs.
            destruct (s_next src s) as [[a s']|] eqn:En; [|discriminate]. inversion Hs as [[Ha Hr]]; subst a.
            specialize (IH k s' c o (cur + 1)).
            assert (Hd' : s_drain src s' = r) by (symmetry; assumption).
            specialize (IH Hd'). cbn in Hf.
            assert (Hk : (length r < k)%nat) by lia. specialize (IH Hk).
            assert (G1 : 0 <= cur + 1) by lia. assert (G2 : cur + 1 <= o) by lia.
            specialize (IH G1 G2).
            destruct (verify_offset src k _) as [st|].
            -- destruct IH as (L & C1 & C2 & C3 & C4). cbn [length].
               replace (Z.to_nat (o - cur)) with (S (Z.to_nat (o - (cur + 1)))) by lia.
               cbn [skipn]. rewrite ?Hd'. repeat split; auto. lia.
            -- cbn [length]. rewrite ?Hd'. lia.
          * assert (cur = o) by lia. subst. replace (o - o) with 0 by lia. cbn.
            repeat split; auto. lia.
    Qed.

    Theorem limit_refines_slice_gen : forall s o c, 0 <= o -> 0 <= c ->
      run_limit src o c s = firstn (Z.to_nat c) (skipn (Z.to_nat o) (s_drain src s)).
    Proof.
      intros s o c Ho Hc. unfold run_limit.
      set (l := s_drain src s).
      cbn [limit_drain]. unfold limit_next. cbn [l_src].
      pose proof (verify_skip l (S (length l)) s c o 0 eq_refl (Nat.lt_succ_diag_r _) (Z.le_refl 0) Ho) as V.
      fold l. destruct (verify_offset src (S (length l)) _) as [st|].
      - destruct V as (L & C1 & C2 & C3 & C4). replace (o - 0) with o in * by lia.
        rewrite C1, C2, C3.
        destruct (Z.leb_spec (o + 1 - o) c) as [Hle|Hgt].
        + pose proof (Hlaw (l_src st)) as Hs. rewrite C4 in Hs.
          destruct (s_next src (l_src st)) as [[a s']|] eqn:En.
          * rewrite Hs.
            rewrite (limit_take (s_drain src s') (length l) s' c o (o + 1) eq_refl); try lia.
            -- replace (Z.to_nat c) with (S (Z.to_nat (c - (o + 1 - o)))) by lia. reflexivity.
            -- assert (length (skipn (Z.to_nat o) l) <= length l)%nat by (rewrite skipn_length; lia).
               rewrite Hs in H. cbn in H. lia.
          * rewrite Hs. rewrite firstn_nil. reflexivity.
        + replace c with 0 by lia. reflexivity.
      - rewrite skipn_all2 by (replace (o - 0) with o in V by lia; lia).
        rewrite firstn_nil. reflexivity.
    Qed.
  End Limit.

  Theorem limit_refines_slice : forall (l : list A) o c, 0 <= o -> 0 <= c ->
    run_limit list_source o c l = firstn (Z.to_nat c) (skipn (Z.to_nat o) l).
  Proof. intros. apply (limit_refines_slice_gen list_source list_source_lawful); assumption. Qed.


  (* ------------------------------------------------------------ SORT *)
  Section SortLaws.
    Variable lt : A -> A -> bool.

    Lemma insert_le_perm x l : Permutation (x :: l) (insert_le lt x l).
    Proof.
      induction l as [|y r IH]; cbn; [reflexivity|].
      destruct (lt y x); cbn; [|reflexivity].
      rewrite perm_swap. constructor. exact IH.
    Qed.
    Lemma sort_by_perm l : Permutation l (sort_by lt l).
    Proof.
      induction l as [|x r IH]; cbn; [constructor|].
      rewrite <- insert_le_perm. constructor. exact IH.
    Qed.

    (* no inversion between neighbours: the later one is never smaller *)
    Fixpoint no_inversion (l : list A) : bool :=
      match l with
      | a :: ((b :: _) as r) => negb (lt b a) && no_inversion r
      | _ => true
      end.

    Hypothesis lt_asym : forall a b, lt a b = true -> lt b a = false.

    Lemma insert_le_sorted x l : no_inversion l = true -> no_inversion (insert_le lt x l) = true.
    Proof.
      induction l as [|y r IH]; intro S; [reflexivity|].
      cbn [insert_le]. destruct (lt y x) eqn:E; cbn [negb].
      - destruct r as [|z r'].
        + cbn. rewrite (lt_asym _ _ E). reflexivity.
        + cbn [no_inversion] in S. apply andb_prop in S as [S1 S2].
          specialize (IH S2). cbn [insert_le] in *.
          destruct (lt z x) eqn:E2; cbn [negb] in *; cbn [no_inversion] in *.
          * rewrite S1. exact IH.
          * rewrite (lt_asym _ _ E). cbn. exact IH.
      - cbn [no_inversion]. rewrite E. cbn. exact S.
    Qed.
    Lemma sort_by_sorted l : no_inversion (sort_by lt l) = true.
    Proof. induction l as [|x r IH]; [reflexivity|]. cbn [sort_by]. apply insert_le_sorted; exact IH. Qed.

    (* stability: the members of any class of mutually tied elements come out
       in source order *)
    Lemma insert_le_class (c : A -> bool) x l :
      (forall a b, c a = true -> c b = true -> lt a b = false) ->
      filter c (insert_le lt x l) = (if c x then [x] else []) ++ filter c l.
    Proof.
      intro H. induction l as [|y r IH]; cbn [insert_le filter]; [destruct (c x); reflexivity|].
      destruct (lt y x) eqn:E; cbn [negb filter].
      - rewrite IH. destruct (c y) eqn:Cy; [|reflexivity].
        destruct (c x) eqn:Cx; [|reflexivity].
        rewrite (H y x Cy Cx) in E. discriminate.
      - destruct (c x); reflexivity.
    Qed.
    Lemma sort_by_stable (c : A -> bool) l :
      (forall a b, c a = true -> c b = true -> lt a b = false) ->
      filter c (sort_by lt l) = filter c l.
    Proof.
      intro H. induction l as [|x r IH]; [reflexivity|].
      cbn [sort_by]. rewrite insert_le_class by exact H. rewrite IH.
      cbn [filter]. destruct (c x); reflexivity.
    Qed.
  End SortLaws.

  (* ------------------------------------------------------------ DISTINCT *)
  Section Distinct.
    Variable eqb : A -> A -> bool.

    Lemma dedup_acc_incl seen l x : In x (dedup_acc eqb seen l) -> In x l.
    Proof.
      revert seen; induction l as [|y r IH]; intros seen H; [exact H|].
      cbn [dedup_acc] in H. destruct (existsb (eqb y) seen).
      - right. eapply IH; exact H.
      - destruct H as [->|H]; [left; reflexivity|right; eapply IH; exact H].
    Qed.

    (* every element is represented: by a kept element or by one seen before *)
    Lemma dedup_acc_complete seen l x : In x l ->
      existsb (eqb x) seen = true \/ exists y, In y (dedup_acc eqb seen l) /\ (y = x \/ eqb x y = true).
    Proof.
      revert seen; induction l as [|y r IH]; intros seen H; [destruct H|].
      cbn [dedup_acc]. destruct H as [->|H].
      - destruct (existsb (eqb x) seen) eqn:E; [left; reflexivity|].
        right. exists x. split; [left; reflexivity|left; reflexivity].
      - destruct (existsb (eqb y) seen) eqn:E.
        + apply IH; exact H.
        + destruct (IH (y :: seen) H) as [S|[z [Hz Hx]]].
          * cbn [existsb] in S. apply Bool.orb_prop in S as [S|S].
            -- right. exists y. split; [left; reflexivity|right; exact S].
            -- left; exact S.
          * right. exists z. split; [right; exact Hz|exact Hx].
    Qed.

    (* kept elements are pairwise different, and different from everything seen *)
    Lemma dedup_acc_fresh seen l x : In x (dedup_acc eqb seen l) -> existsb (eqb x) seen = false.
    Proof.
      revert seen; induction l as [|y r IH]; intros seen H; [destruct H|].
      cbn [dedup_acc] in H. destruct (existsb (eqb y) seen) eqn:E.
      - apply IH; exact H.
      - destruct H as [->|H]; [exact E|].
        specialize (IH _ H). cbn [existsb] in IH. apply Bool.orb_false_elim in IH as [_ IH]. exact IH.
    Qed.
    Lemma dedup_acc_nodup seen l :
      ForallOrdPairs (fun a b => eqb b a = false) (dedup_acc eqb seen l).
    Proof.
      revert seen; induction l as [|y r IH]; intros seen; [constructor|].
      cbn [dedup_acc]. destruct (existsb (eqb y) seen) eqn:E; [apply IH|].
      constructor; [|apply IH].
      apply Forall_forall. intros z Hz. apply dedup_acc_fresh in Hz.
      cbn [existsb] in Hz. apply Bool.orb_false_elim in Hz as [Hz _]. exact Hz.
    Qed.

    (* the first element with no earlier equal one is the one that is kept *)
    Lemma dedup_acc_first seen l1 x l2 :
      existsb (eqb x) seen = false -> (forall y, In y l1 -> eqb x y = false) ->
      In x (dedup_acc eqb seen (l1 ++ x :: l2)).
    Proof.
      revert seen; induction l1 as [|y r IH]; intros seen Hs Hl; cbn [app dedup_acc].
      - rewrite Hs. left; reflexivity.
      - destruct (existsb (eqb y) seen).
        + apply IH; [exact Hs|]. intros z Hz; apply Hl; right; exact Hz.
        + right. apply IH.
          * cbn [existsb]. rewrite (Hl y (or_introl eq_refl)), Hs. reflexivity.
          * intros z Hz; apply Hl; right; exact Hz.
    Qed.
  End Distinct.

  (* ------------------------------------------------------------ COLLECT *)
  Section CollectLaws.
    Context {K : Type} (key : A -> K) (keqb : K -> K -> bool).
    Hypothesis keqb_spec : forall a b, keqb a b = true <-> a = b.

    Lemma keqb_refl a : keqb a a = true. Proof. apply keqb_spec; reflexivity. Qed.

    Definition member_of (k : K) (x : A) : bool := keqb (key x) k.

    (* invariant of the group table after the rows in [done_] *)
    Definition ginv (done_ : list A) (gs : list (K * list A)) : Prop :=
      NoDup (map fst gs) /\
      (forall k m, In (k, m) gs -> m = filter (member_of k) done_ /\ m <> []) /\
      (forall x, In x done_ -> In (key x) (map fst gs)).

    Lemma add_to_group_keys x gs :
      map fst (add_to_group key keqb x gs) =
      if existsb (fun k => keqb (key x) k) (map fst gs) then map fst gs else map fst gs ++ [key x].
    Proof.
      induction gs as [|[k m] r IH]; cbn; [reflexivity|].
      destruct (keqb (key x) k); cbn; [reflexivity|]. rewrite IH.
      destruct (existsb _ (map fst r)); reflexivity.
    Qed.

    Lemma existsb_key_in k ks : existsb (fun k' => keqb k k') ks = true <-> In k ks.
    Proof.
      induction ks as [|a r IH]; cbn; [split; [discriminate|tauto]|].
      rewrite Bool.orb_true_iff, IH, keqb_spec. split; intros [H|H]; auto.
    Qed.

    Lemma add_to_group_in x gs k m :
      NoDup (map fst gs) ->
      In (k, m) (add_to_group key keqb x gs) ->
      (k = key x /\ ((exists m0, In (k, m0) gs /\ m = m0 ++ [x]) \/ (~ In k (map fst gs) /\ m = [x])))
      \/ (k <> key x /\ In (k, m) gs).
    Proof.
      induction gs as [|[k0 m0] r IH]; intros ND H; cbn in H.
      - destruct H as [H|[]]. inversion H; subst. left. split; [reflexivity|]. right. split; [tauto|reflexivity].
      - inversion ND as [|? ? Hn ND']; subst.
        destruct (keqb (key x) k0) eqn:E.
        + apply keqb_spec in E. destruct H as [H|H].
          * inversion H; subst. left. split; [reflexivity|]. left. exists m0. split; [left; reflexivity|reflexivity].
          * right. split; [|right; exact H].
            intro Hk; subst k. apply Hn. rewrite <- E. apply in_map_iff. exists (key x, m). split; [reflexivity|exact H].
        + destruct H as [H|H].
          * inversion H; subst. right. split; [|left; reflexivity].
            intro Hk. rewrite Hk, keqb_refl in E. discriminate.
          * destruct (IH ND' H) as [[Hk [[m1 [Hin Hm]]|[Hnin Hm]]]|[Hk Hin]].
            -- left. split; [exact Hk|]. left. exists m1. split; [right; exact Hin|exact Hm].
            -- left. split; [exact Hk|]. right. split; [|exact Hm].
               cbn. intros [Hc|Hc]; [|tauto]. subst k0. rewrite Hk, keqb_refl in E. discriminate.
            -- right. split; [exact Hk|right; exact Hin].
    Qed.

    Lemma filter_app_last (p : A -> bool) l x : filter p (l ++ [x]) = filter p l ++ (if p x then [x] else []).
    Proof. rewrite filter_app. reflexivity. Qed.

    Lemma ginv_step done_ gs x : ginv done_ gs -> ginv (done_ ++ [x]) (add_to_group key keqb x gs).
    Proof.
      intros (ND & HM & HC). split; [|split].
      - rewrite add_to_group_keys. destruct (existsb _ (map fst gs)) eqn:E; [exact ND|].
        apply Permutation_NoDup with (l := key x :: map fst gs).
        + apply Permutation_cons_append.
        + constructor; [|exact ND]. intro Hin. apply existsb_key_in in Hin. congruence.
      - intros k m Hin. apply add_to_group_in in Hin; [|exact ND].
        rewrite filter_app_last. unfold member_of at 2.
        destruct Hin as [[Hk [[m0 [Hin Hm]]|[Hnin Hm]]]|[Hk Hin]].
        + subst k. rewrite keqb_refl. destruct (HM _ _ Hin) as [E _]. subst m. rewrite <- E.
          split; [reflexivity|]. destruct m0; discriminate.
        + subst k. rewrite keqb_refl. subst m.
          assert (F : filter (member_of (key x)) done_ = []).
          { destruct (filter (member_of (key x)) done_) as [|y r] eqn:F; [reflexivity|].
            assert (Hy : In y (filter (member_of (key x)) done_)) by (rewrite F; left; reflexivity).
            apply filter_In in Hy as [Hy1 Hy2]. unfold member_of in Hy2. apply keqb_spec in Hy2.
            exfalso. apply Hnin. rewrite <- Hy2. apply HC. exact Hy1. }
          rewrite F. split; [reflexivity|discriminate].
        + destruct (HM _ _ Hin) as [E Hne].
          destruct (keqb (key x) k) eqn:E2; [apply keqb_spec in E2; congruence|].
          rewrite app_nil_r. split; assumption.
      - intros y Hy. rewrite add_to_group_keys.
        apply in_app_or in Hy as [Hy|[<-|[]]].
        + specialize (HC y Hy). destruct (existsb _ (map fst gs)); [exact HC|apply in_or_app; left; exact HC].
        + destruct (existsb _ (map fst gs)) eqn:E.
          * apply existsb_key_in. exact E.
          * apply in_or_app. right. left. reflexivity.
    Qed.

    Lemma collect_fold_inv : forall l done_ gs, ginv done_ gs ->
      ginv (done_ ++ l) (fold_left (fun gs x => add_to_group key keqb x gs) l gs).
    Proof.
      induction l as [|x r IH]; intros done_ gs H; cbn [fold_left].
      - rewrite app_nil_r. exact H.
      - replace (done_ ++ x :: r) with ((done_ ++ [x]) ++ r) by (rewrite <- app_assoc; reflexivity).
        apply IH. apply ginv_step. exact H.
    Qed.

    Theorem collect_partition l : ginv l (collect_groups key keqb l).
    Proof.
      unfold collect_groups. apply (collect_fold_inv l [] []).
      split; [constructor|split]; [intros k m []|intros x []].
    Qed.
  End CollectLaws.

End IterProofs.
