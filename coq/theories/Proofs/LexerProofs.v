(* Proofs/LexerProofs.v — properties of the reference lexer, over rune
   sequences (the UTF-8 layer is [runes_of] / [bytes_of]):
   * the lexer is total (never out of fuel);
   * hidden-channel material (white space, line terminators, comments) yields
     no token and does not change what follows;
   * a word (identifier or reserved word) in any letter case is one token
     whose KIND is that of its upper-cased spelling and whose TEXT is the
     original spelling;
   * [lex_render]: a token list written with layout between the tokens lexes
     back to exactly that token list. *)
From Ferret Require Import Lexer.
Require Import Lia.
Local Open Scope N_scope.

(* ------------------------------------------------------------- fuel *)
Lemma lex_go_indep : forall f f' s,
  (List.length s < f)%nat -> (List.length s < f')%nat -> lex_go f s = lex_go f' s.
Proof.
  induction f as [|f IH]; intros f' s H H'; [lia|].
  destruct f' as [|f']; [lia|].
  destruct s as [|c r]; [reflexivity|].
  cbn [lex_go]. destruct (next_token (c :: r)) as [k n].
  set (n' := match n with O => 1%nat | _ => n end).
  assert (Hn : (1 <= n')%nat) by (unfold n'; destruct n; lia).
  assert (Hl : (List.length (skipn n' (c :: r)) < List.length (c :: r))%nat).
  { rewrite skipn_length. cbn [List.length]. lia. }
  rewrite (IH f' (skipn n' (c :: r))); [reflexivity| |]; simpl in *; lia.
Qed.

Theorem lex_total : forall q, exists ts, lex q = Some ts.
Proof.
  intros q. unfold lex, lex_runes. generalize (runes_of q). intros s.
  remember (List.length s) as m eqn:Hm. revert s Hm.
  induction m as [m IH] using lt_wf_ind. intros s Hm.
  destruct s as [|c r]; [exists []; reflexivity|].
  cbn [lex_go]. destruct (next_token (c :: r)) as [k n].
  set (n' := match n with O => 1%nat | _ => n end).
  assert (Hn : (1 <= n')%nat) by (unfold n'; destruct n; lia).
  assert (Hl : (List.length (skipn n' (c :: r)) < m)%nat).
  { subst m. rewrite skipn_length. cbn [List.length]. lia. }
  destruct (IH _ Hl (skipn n' (c :: r)) eq_refl) as [ts Hts].
  rewrite (lex_go_indep _ (S (List.length (skipn n' (c :: r))))); try lia;
    try (subst m; cbn [List.length] in *; lia).
  unfold lex_runes in Hts. rewrite Hts. destruct k; eexists; reflexivity.
Qed.

(* the defining equation of the lexer, without fuel *)
Lemma lex_runes_step : forall s, s <> [] ->
  lex_runes s =
  let '(k, n) := next_token s in
  let n' := match n with O => 1%nat | _ => n end in
  match lex_runes (skipn n' s) with
  | None => None
  | Some ts =>
      match k with
      | None => Some ts
      | Some k => Some ((k, bytes_of (firstn n' s)) :: ts)
      end
  end.
Proof.
  intros s Hs. destruct s as [|c r]; [congruence|].
  unfold lex_runes at 1. cbn [lex_go]. destruct (next_token (c :: r)) as [k n].
  set (n' := match n with O => 1%nat | _ => n end).
  assert (Hn : (1 <= n')%nat) by (unfold n'; destruct n; lia).
  unfold lex_runes.
  rewrite (lex_go_indep (List.length (c :: r)) (S (List.length (skipn n' (c :: r))))); try lia.
  - reflexivity.
  - rewrite skipn_length. cbn [List.length]. lia.
Qed.

Lemma skipn_app_exact : forall A (u s : list A), skipn (List.length u) (u ++ s) = s.
Proof. induction u; intros; simpl; auto. Qed.
Lemma firstn_app_exact : forall A (u s : list A), firstn (List.length u) (u ++ s) = u.
Proof. induction u; intros; simpl; [reflexivity|f_equal; auto]. Qed.

(* a hidden unit in front of [s] disappears *)
Lemma lex_hidden_front : forall u s,
  u <> [] -> next_token (u ++ s) = (None, List.length u) -> lex_runes (u ++ s) = lex_runes s.
Proof.
  intros u s Hu Hn. rewrite lex_runes_step by (destruct u; [congruence|discriminate]).
  rewrite Hn. destruct u as [|c u']; [congruence|]. cbn [List.length].
  change (S (List.length u')) with (List.length (c :: u')).
  rewrite skipn_app_exact. destruct (lex_runes s); reflexivity.
Qed.

(* a token in front of [s] is emitted with its original text *)
Lemma lex_token_front : forall k w s,
  w <> [] -> next_token (w ++ s) = (Some k, List.length w) ->
  lex_runes (w ++ s) =
  match lex_runes s with Some ts => Some ((k, bytes_of w) :: ts) | None => None end.
Proof.
  intros k w s Hw Hn. rewrite lex_runes_step by (destruct w; [congruence|discriminate]).
  rewrite Hn. destruct w as [|c w']; [congruence|]. cbn [List.length].
  change (S (List.length w')) with (List.length (c :: w')).
  rewrite skipn_app_exact, firstn_app_exact. reflexivity.
Qed.

(* -------------------------------------------------- separators *)
Definition sep_char (c : N) : bool := is_ws c || is_nl c.
(* what may directly follow a token in a rendering: the end of the text or a
   white-space / line-terminator character *)
Definition sep_start (s : list N) : Prop :=
  match s with [] => True | c :: _ => sep_char c = true end.

Lemma sep_char_cases : forall c, sep_char c = true ->
  c = 9 \/ c = 11 \/ c = 12 \/ c = 32 \/ c = 160 \/ c = 10 \/ c = 13 \/ c = 8232 \/ c = 8233.
Proof.
  intros c H. unfold sep_char, is_ws, is_nl in H.
  repeat (apply Bool.orb_prop in H; destruct H as [H|H]);
    apply N.eqb_eq in H; subst; tauto.
Qed.

Lemma sep_hidden : forall c s, sep_char c = true -> next_token (c :: s) = (None, 1%nat).
Proof. intros c s H. unfold next_token. unfold sep_char in H. rewrite H. reflexivity. Qed.

Theorem lex_skip_sep : forall c s, sep_char c = true -> lex_runes (c :: s) = lex_runes s.
Proof.
  intros c s H. apply (lex_hidden_front [c] s); [discriminate|].
  apply sep_hidden. exact H.
Qed.

(* block comment: "/*" body "*/" where the first "*/" is the closing one *)
Lemma block_end_found : forall body s n,
  block_end (body ++ 42 :: 47 :: s) n = Some (n + List.length body + 2)%nat ->
  True.
Proof. trivial. Qed.

Fixpoint no_close (b : list N) : Prop :=          (* "*/" does not start inside b ++ "*" *)
  match b with
  | [] => True
  | c :: r => match r with
              | d :: _ => ~ (c = 42 /\ d = 47) /\ no_close r
              | [] => c <> 42 \/ True
              end
  end.

Lemma block_end_spec : forall body s n,
  (forall i, (i < List.length body)%nat ->
     ~ (nth i (body ++ [42]) 0 = 42 /\ nth (S i) (body ++ [42]) 0 = 47)) ->
  block_end (body ++ 42 :: 47 :: s) n = Some (n + List.length body + 2)%nat.
Proof.
  induction body as [|c body IH]; intros s n H.
  - simpl. f_equal. lia.
  - cbn [app block_end].
    destruct (body ++ 42 :: 47 :: s) as [|d r] eqn:E; [destruct body; discriminate|].
    assert (Hd : d = nth 1 ((c :: body) ++ [42]) 0).
    { destruct body; simpl in *; inversion E; reflexivity. }
    assert (Hno : ((c =? 42) && (d =? 47)) = false).
    { apply Bool.andb_false_iff.
      destruct (N.eqb_spec c 42) as [Ec|]; [|left; reflexivity]. right.
      apply N.eqb_neq. intros Ed. apply (H 0%nat); [simpl; lia|]. split; [exact Ec|].
      rewrite <- Hd. exact Ed. }
    rewrite Hno. rewrite <- E. rewrite IH.
    + f_equal. simpl. lia.
    + intros i Hi. specialize (H (S i)). simpl in H. apply H. lia.
Qed.

Theorem lex_skip_block_comment : forall body s,
  (forall i, (i < List.length body)%nat ->
     ~ (nth i (body ++ [42]) 0 = 42 /\ nth (S i) (body ++ [42]) 0 = 47)) ->
  lex_runes (47 :: 42 :: body ++ 42 :: 47 :: s) = lex_runes s.
Proof.
  intros body s H.
  replace (47 :: 42 :: body ++ 42 :: 47 :: s) with ((47 :: 42 :: body ++ [42; 47]) ++ s)
    by (simpl; rewrite <- app_assoc; reflexivity).
  apply lex_hidden_front; [discriminate|].
  simpl. rewrite <- app_assoc. simpl.
  rewrite block_end_spec by exact H.
  rewrite app_length. simpl. f_equal; try lia.
Qed.

(* line comment up to (not including) the line terminator *)
Lemma line_end_spec : forall body s n c,
  (forall x, In x body -> is_nl x = false) -> is_nl c = true ->
  line_end (body ++ c :: s) n = (n + List.length body)%nat.
Proof.
  induction body as [|b body IH]; intros s n c Hb Hc.
  - simpl. rewrite Hc. lia.
  - cbn [app line_end]. rewrite (Hb b (or_introl eq_refl)).
    rewrite IH; auto. simpl. lia. intros x Hx. apply Hb. right. exact Hx.
Qed.

Theorem lex_skip_line_comment : forall body c s,
  (forall x, In x body -> is_nl x = false) -> is_nl c = true ->
  lex_runes (47 :: 47 :: body ++ c :: s) = lex_runes s.
Proof.
  intros body c s Hb Hc.
  replace (47 :: 47 :: body ++ c :: s) with ((47 :: 47 :: body) ++ c :: s) by reflexivity.
  rewrite lex_hidden_front.
  - apply lex_skip_sep. unfold sep_char. rewrite Hc. apply Bool.orb_true_r.
  - discriminate.
  - simpl. rewrite (line_end_spec body s 2 c Hb Hc). reflexivity.
Qed.

(* ---------------------------------------------------------- words *)
(* the identifier machine run over a whole word: the final state when every
   rune is consumed *)
Fixpoint ident_run (w : list N) (p : bool) (st : list bool) : option (bool * list bool) :=
  match w with
  | [] => Some (p, st)
  | c :: r =>
      let u := up c in
      if is_letter u then ident_run r true (if p then st else true :: st)
      else if is_digit u then ident_run r false (match st with _ :: t => false :: t | [] => [] end)
      else if u =? 95 then
        match drop_d st with
        | [] => None
        | st' => ident_run r false st'
        end
      else None
  end.

Lemma ident_go_app : forall w s p st n p' st',
  ident_run w p st = Some (p', st') ->
  ident_go (w ++ s) p st n = ident_go s p' st' (n + List.length w)%nat.
Proof.
  induction w as [|c w IH]; intros s p st n p' st' H.
  - simpl in H. inversion H; subst. simpl. f_equal. lia.
  - cbn [app ident_go]. cbn [ident_run] in H.
    destruct (is_letter (up c)).
    + rewrite (IH _ _ _ _ _ _ H). f_equal. simpl. lia.
    + destruct (is_digit (up c)).
      * rewrite (IH _ _ _ _ _ _ H). f_equal. simpl. lia.
      * destruct (up c =? 95); [|discriminate].
        destruct (drop_d st) as [|b st0]; [discriminate|].
        rewrite (IH _ _ _ _ _ _ H). f_equal. simpl. lia.
Qed.

Lemma sep_not_ident : forall c, sep_char c = true ->
  is_letter (up c) = false /\ is_digit (up c) = false /\ (up c =? 95) = false /\ (c =? 58) = false.
Proof.
  intros c H. destruct (sep_char_cases c H) as [E|[E|[E|[E|[E|[E|[E|[E|E]]]]]]]]; subst; repeat split; reflexivity.
Qed.

Lemma ident_go_stop : forall s p st n, sep_start s -> ident_go s p st n = n.
Proof.
  intros s p st n H. destruct s as [|c s]; [reflexivity|].
  simpl in H. destruct (sep_not_ident c H) as (H1 & H2 & H3 & _).
  cbn [ident_go]. rewrite H1, H2, H3. reflexivity.
Qed.

Definition word_ok (w : list N) : Prop :=
  match w with
  | c :: _ => is_letter (up c) = true /\ ident_run w false [] <> None
  | [] => False
  end.

Lemma letter_not_sep : forall c, is_letter (up c) = true -> is_ws c || is_nl c = false.
Proof.
  intros c H. destruct (is_ws c || is_nl c) eqn:E; [|reflexivity].
  destruct (sep_not_ident c E) as (H1 & _). congruence.
Qed.

Lemma next_token_word : forall w s, word_ok w -> sep_start s ->
  next_token (w ++ s) = (Some (word_kind w), List.length w).
Proof.
  intros w s Hw Hs. destruct w as [|c w]; [destruct Hw|].
  destruct Hw as [Hl Hr].
  destruct (ident_run (c :: w) false []) as [[p' st']|] eqn:E; [|congruence].
  assert (Hn : ident_len ((c :: w) ++ s) = List.length (c :: w)).
  { unfold ident_len. rewrite (ident_go_app _ _ _ _ _ _ _ E). rewrite ident_go_stop by exact Hs. reflexivity. }
  unfold next_token. cbn [app]. change (c :: w ++ s) with ((c :: w) ++ s).
  rewrite (letter_not_sep c Hl). rewrite Hl. rewrite Hn.
  rewrite skipn_app_exact, firstn_app_exact.
  destruct s as [|c0 s0]; [reflexivity|].
  simpl in Hs. destruct (sep_char_cases c0 Hs) as [E0|[E0|[E0|[E0|[E0|[E0|[E0|[E0|E0]]]]]]]]; subst; reflexivity.
Qed.

Lemma ident_run_up : forall w w' p st, map up w' = map up w -> ident_run w' p st = ident_run w p st.
Proof.
  induction w as [|c w IH]; intros w' p st H; destruct w' as [|c' w']; try discriminate; [reflexivity|].
  simpl in H. inversion H as [[Hc Hw]]. cbn [ident_run]. rewrite Hc.
  destruct (is_letter (up c)); [apply IH; exact Hw|].
  destruct (is_digit (up c)); [apply IH; exact Hw|].
  destruct (up c =? 95); [|reflexivity].
  destruct (drop_d st); [reflexivity|apply IH; exact Hw].
Qed.

Lemma word_ok_up : forall w w', map up w' = map up w -> word_ok w -> word_ok w'.
Proof.
  intros w w' H Hw. destruct w as [|c w]; [destruct Hw|]. destruct w' as [|c' w']; [discriminate|].
  destruct Hw as [Hl Hr]. simpl in H. inversion H as [[Hc Hw']].
  split; [rewrite Hc; exact Hl|]. rewrite (ident_run_up (c :: w) (c' :: w')); [exact Hr|exact H].
Qed.

Lemma word_kind_up : forall w w', map up w' = map up w -> word_kind w' = word_kind w.
Proof. intros w w' H. unfold word_kind. rewrite H. reflexivity. Qed.

(* keywords and names in any letter case: the kind is that of the upper-cased
   spelling, the text is the spelling of the query *)
Theorem word_any_case : forall w w' s,
  map up w' = map up w -> word_ok w -> sep_start s ->
  lex_runes (w' ++ s) =
  match lex_runes s with Some ts => Some ((word_kind w, bytes_of w') :: ts) | None => None end.
Proof.
  intros w w' s H Hw Hs.
  rewrite <- (word_kind_up w w' H).
  apply lex_token_front.
  - destruct w'; [destruct w; [destruct Hw|discriminate]|discriminate].
  - apply next_token_word; [apply (word_ok_up w w' H Hw)|exact Hs].
Qed.

(* ------------------------------------------- punctuation and operators *)
Definition fixed_tokens : list (kind * list N) :=
  [ (KColon, [58]); (KSemi, [59]); (KDot, [46]); (KComma, [44]); (KLBrack, [91]); (KRBrack, [93]);
    (KLParen, [40]); (KRParen, [41]); (KLBrace, [123]); (KRBrace, [125]); (KGt, [62]); (KLt, [60]);
    (KEq, [61; 61]); (KGte, [62; 61]); (KLte, [60; 61]); (KNeq, [33; 61]); (KMulti, [42]);
    (KDiv, [47]); (KMod, [37]); (KPlus, [43]); (KMinus, [45]); (KMinusMinus, [45; 45]);
    (KPlusPlus, [43; 43]); (KAnd, [38; 38]); (KOr, [124; 124]); (KRange, [46; 46]);
    (KAssign, [61]); (KQuestion, [63]); (KRegexNotMatch, [33; 126]); (KRegexMatch, [61; 126]);
    (KNot, [33]); (KParam, [64]); (KIgnore, [95]) ].

Lemma fixed_stable : forall k w s, In (k, w) fixed_tokens -> sep_start s ->
  next_token (w ++ s) = (Some k, List.length w).
Proof.
  intros k w s Hin Hs. unfold fixed_tokens in Hin.
  repeat (destruct Hin as [Hin|Hin];
          [inversion Hin; subst; clear Hin;
           destruct s as [|c0 s0]; [reflexivity|];
           simpl in Hs;
           destruct (sep_char_cases c0 Hs) as [E0|[E0|[E0|[E0|[E0|[E0|[E0|[E0|E0]]]]]]]]; subst; reflexivity|]).
  destruct Hin.
Qed.

(* ------------------------------------------------------ integers *)
Lemma digit_facts : forall c, is_digit c = true ->
  is_ws c || is_nl c = false /\ is_letter (up c) = false.
Proof.
  intros c H. unfold is_digit in H. apply andb_prop in H. destruct H as [H1 H2].
  apply N.leb_le in H1. apply N.leb_le in H2.
  assert (E : c = 48 \/ c = 49 \/ c = 50 \/ c = 51 \/ c = 52 \/ c = 53 \/ c = 54 \/ c = 55 \/ c = 56 \/ c = 57) by lia.
  destruct E as [E|[E|[E|[E|[E|[E|[E|[E|[E|E]]]]]]]]]; subst; split; reflexivity.
Qed.

Lemma digits_len_app : forall w s, forallb is_digit w = true -> sep_start s ->
  digits_len (w ++ s) = List.length w.
Proof.
  induction w as [|c w IH]; intros s Hw Hs.
  - destruct s as [|c0 s0]; [reflexivity|]. simpl in Hs.
    destruct (sep_char_cases c0 Hs) as [E0|[E0|[E0|[E0|[E0|[E0|[E0|[E0|E0]]]]]]]]; subst; reflexivity.
  - simpl in Hw. apply andb_prop in Hw. destruct Hw as [Hc Hw].
    cbn [app digits_len List.length]. rewrite Hc. f_equal. apply IH; assumption.
Qed.

Lemma next_token_int : forall w s, w <> [] -> forallb is_digit w = true -> sep_start s ->
  next_token (w ++ s) = (Some KInt, List.length w).
Proof.
  intros w s Hne Hw Hs. destruct w as [|c w]; [congruence|].
  assert (Hc : is_digit c = true) by (simpl in Hw; apply andb_prop in Hw; tauto).
  destruct (digit_facts c Hc) as [H1 H2].
  assert (Hn : number_len ((c :: w) ++ s) = (false, List.length (c :: w))).
  { unfold number_len. rewrite (digits_len_app (c :: w) s Hw Hs).
    cbn [app]. destruct ((c =? 48) && (1 <? List.length (c :: w))%nat); [reflexivity|].
    change (c :: w ++ s) with ((c :: w) ++ s). rewrite skipn_app_exact.
    destruct s as [|c0 s0]; [reflexivity|]. simpl in Hs.
    destruct (sep_char_cases c0 Hs) as [E0|[E0|[E0|[E0|[E0|[E0|[E0|[E0|E0]]]]]]]]; subst; reflexivity. }
  unfold next_token. cbn [app]. change (c :: w ++ s) with ((c :: w) ++ s).
  rewrite H1, H2, Hc, Hn. reflexivity.
Qed.

(* -------------------------------------- double-quoted string literals *)
Lemma str_q_plain : forall body s n,
  forallb (fun c => negb (c =? 34) && negb (c =? 92)) body = true -> sep_start s ->
  str_q 34 (body ++ 34 :: s) n None = Some (S (n + List.length body)).
Proof.
  induction body as [|c body IH]; intros s n Hb Hs.
  - cbn [app str_q]. change (34 =? 92) with false. change (34 =? 34) with true. cbn iota.
    destruct s as [|c0 s0]; [f_equal; simpl; lia|]. simpl in Hs.
    destruct (sep_char_cases c0 Hs) as [E0|[E0|[E0|[E0|[E0|[E0|[E0|[E0|E0]]]]]]]]; subst;
      simpl; f_equal; lia.
  - simpl in Hb. apply andb_prop in Hb. destruct Hb as [Hc Hb].
    apply andb_prop in Hc. destruct Hc as [Hq Hbs].
    cbn [app str_q].
    destruct (c =? 92); [discriminate|]. destruct (c =? 34); [discriminate|].
    rewrite IH by assumption. f_equal. simpl. lia.
Qed.

Lemma next_token_dq : forall body s,
  forallb (fun c => negb (c =? 34) && negb (c =? 92)) body = true -> sep_start s ->
  next_token ((34 :: body ++ [34]) ++ s) = (Some KString, List.length (34 :: body ++ [34])).
Proof.
  intros body s Hb Hs. cbn [app]. rewrite <- app_assoc. cbn [app].
  unfold next_token. change (is_ws 34 || is_nl 34) with false. cbn iota.
  change (is_letter (up 34)) with false. change (is_digit 34) with false.
  change (34 =? 47) with false. change (34 =? 34) with true. cbn iota.
  rewrite str_q_plain by assumption. cbn [List.length]. rewrite app_length. simpl. f_equal. lia.
Qed.

(* ------------------------------------------------------- renderings *)
Definition rtoken := (kind * list N)%type.

(* the token stands alone in front of the end of the text or a separator *)
Definition stable (t : rtoken) : Prop :=
  snd t <> [] /\ forall s, sep_start s -> next_token (snd t ++ s) = (Some (fst t), List.length (snd t)).

(* layout: a sequence of white-space characters, line terminators, block
   comments and line comments (each ended by a line terminator) *)
Inductive hidden_str : list N -> Prop :=
| H_nil : hidden_str []
| H_sep : forall c l, sep_char c = true -> hidden_str l -> hidden_str (c :: l)
| H_block : forall body l,
    (forall i, (i < List.length body)%nat ->
       ~ (nth i (body ++ [42]) 0 = 42 /\ nth (S i) (body ++ [42]) 0 = 47)) ->
    hidden_str l -> hidden_str (47 :: 42 :: body ++ 42 :: 47 :: l)
| H_line : forall body c l,
    (forall x, In x body -> is_nl x = false) -> is_nl c = true ->
    hidden_str l -> hidden_str (47 :: 47 :: body ++ c :: l).

Lemma lex_hidden_str : forall l s, hidden_str l -> lex_runes (l ++ s) = lex_runes s.
Proof.
  intros l s H. induction H.
  - reflexivity.
  - cbn [app]. rewrite lex_skip_sep by assumption. exact IHhidden_str.
  - cbn [app]. rewrite <- app_assoc. cbn [app]. rewrite lex_skip_block_comment by assumption.
    exact IHhidden_str.
  - cbn [app]. rewrite <- app_assoc. cbn [app]. rewrite lex_skip_line_comment by assumption.
    exact IHhidden_str.
Qed.

(* a layout that separates: empty, or starting with a white-space character
   or a line terminator *)
Definition sep_layout (l : list N) : Prop := hidden_str l /\ sep_start l.

Fixpoint rrender (i : nat) (lay : nat -> list N) (ts : list rtoken) : list N :=
  match ts with
  | [] => lay i
  | t :: r => lay i ++ snd t ++ rrender (S i) lay r
  end.

Definition emitted (ts : list rtoken) : list token := map (fun t => (fst t, bytes_of (snd t))) ts.

Lemma sep_start_app : forall l s, l <> [] -> sep_start l -> sep_start (l ++ s).
Proof. intros l s Hne H. destruct l; [congruence|exact H]. Qed.

Theorem lex_render_lemma : forall ts lay i,
  Forall stable ts ->
  (forall j, sep_layout (lay j)) ->
  (forall j, (i < j < i + List.length ts)%nat -> lay j <> []) ->
  lex_runes (rrender i lay ts) = Some (emitted ts).
Proof.
  induction ts as [|t r IH]; intros lay i Hst Hlay Hne.
  - cbn [rrender emitted map]. rewrite <- (app_nil_r (lay i)).
    rewrite lex_hidden_str by (apply Hlay). reflexivity.
  - inversion Hst as [|? ? [Hw Hk] Hr]; subst.
    cbn [rrender]. rewrite lex_hidden_str by (apply Hlay).
    assert (Hs : sep_start (rrender (S i) lay r)).
    { destruct r as [|t' r'].
      - cbn [rrender]. apply Hlay.
      - cbn [rrender]. apply sep_start_app; [|apply Hlay].
        apply Hne. cbn [List.length]. lia. }
    rewrite (lex_token_front (fst t) (snd t)); [|exact Hw|apply Hk; exact Hs].
    rewrite (IH lay (S i)); auto.
    intros j Hj. apply Hne. cbn [List.length]. lia.
Qed.

(* the token classes proved stable *)
Lemma stable_word : forall w, word_ok w -> stable (word_kind w, w).
Proof.
  intros w H. split; [destruct w; [destruct H|discriminate]|].
  intros s Hs. apply next_token_word; assumption.
Qed.
Lemma stable_word_case : forall w w', map up w' = map up w -> word_ok w -> stable (word_kind w, w').
Proof.
  intros w w' H Hw. rewrite <- (word_kind_up w w' H). apply stable_word. apply (word_ok_up w w' H Hw).
Qed.
Lemma stable_fixed : forall k w, In (k, w) fixed_tokens -> stable (k, w).
Proof.
  intros k w H. split.
  - unfold fixed_tokens in H.
    repeat (destruct H as [H|H]; [inversion H; discriminate|]). destruct H.
  - intros s Hs. apply fixed_stable; assumption.
Qed.
Lemma stable_int : forall w, w <> [] -> forallb is_digit w = true -> stable (KInt, w).
Proof. intros w Hne H. split; [exact Hne|]. intros s Hs. apply next_token_int; assumption. Qed.
Lemma stable_dq : forall body,
  forallb (fun c => negb (c =? 34) && negb (c =? 92)) body = true ->
  stable (KString, 34 :: body ++ [34]).
Proof.
  intros body H. split; [discriminate|]. intros s Hs. apply next_token_dq; assumption.
Qed.

Theorem stable_classes_lemma :
  (forall w w', map up w' = map up w -> word_ok w -> stable (word_kind w, w')) /\
  (forall k w, In (k, w) fixed_tokens -> stable (k, w)) /\
  (forall w, w <> [] -> forallb is_digit w = true -> stable (KInt, w)) /\
  (forall body, forallb (fun c => negb (c =? 34) && negb (c =? 92)) body = true ->
                stable (KString, 34 :: body ++ [34])).
Proof.
  split; [exact stable_word_case|]. split; [exact stable_fixed|].
  split; [exact stable_int|exact stable_dq].
Qed.
