(* Proofs/ValueInd.v — nested induction principle for [value]. *)
From Ferret Require Import Value.

Section ValueInd.
  Variable P : value -> Prop.
  Hypothesis HNone : P VNone.
  Hypothesis HBool : forall b, P (VBool b).
  Hypothesis HInt : forall z, P (VInt z).
  Hypothesis HFloat : forall f, P (VFloat f).
  Hypothesis HStr : forall s, P (VStr s).
  Hypothesis HDate : forall s n o, P (VDate s n o).
  Hypothesis HArr : forall l, Forall P l -> P (VArr l).
  Hypothesis HObj : forall m, Forall (fun kv => P (snd kv)) m -> P (VObj m).
  Hypothesis HBin : forall b, P (VBin b).

  Fixpoint value_ind' (v : value) : P v :=
    match v with
    | VNone => HNone
    | VBool b => HBool b
    | VInt z => HInt z
    | VFloat f => HFloat f
    | VStr s => HStr s
    | VDate s n o => HDate s n o
    | VArr l =>
        HArr l ((fix go (l : list value) : Forall P l :=
                   match l with
                   | [] => Forall_nil _
                   | x :: xs => Forall_cons _ (value_ind' x) (go xs)
                   end) l)
    | VObj m =>
        HObj m ((fix go (m : list (bytes * value)) : Forall (fun kv => P (snd kv)) m :=
                   match m with
                   | [] => Forall_nil _
                   | kv :: xs => Forall_cons _ (value_ind' (snd kv)) (go xs)
                   end) m)
    | VBin b => HBin b
    end.
End ValueInd.
