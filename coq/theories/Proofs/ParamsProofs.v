(* Proofs/ParamsProofs.v — lemmas about Params.v (C10). *)
From Ferret Require Import Params Proofs.RegistryProofs.
From Coq Require Import Lia.

(* ---------- nested induction principles *)
Section ShapeInd.
  Variable P : shape -> Prop.
  Hypothesis HParam : forall n, P (SParam n).
  Hypothesis HLeaf : P SLeaf.
  Hypothesis HNode : forall kids, Forall P kids -> P (SNode kids).
  Fixpoint shape_ind' (s : shape) : P s :=
    match s with
    | SParam n => HParam n
    | SLeaf => HLeaf
    | SNode kids =>
        HNode kids ((fix go (l : list shape) : Forall P l :=
                       match l with
                       | [] => Forall_nil _
                       | x :: xs => Forall_cons _ (shape_ind' x) (go xs)
                       end) kids)
    end.
End ShapeInd.

Section GovalInd.
  Variable P : goval -> Prop.
  Hypothesis HNil : P GNil.
  Hypothesis HBool : forall n b, P (GBool n b).
  Hypothesis HInt : forall n w z, P (GInt n w z).
  Hypothesis HUint : forall n w z, P (GUint n w z).
  Hypothesis HFloat : forall n s b, P (GFloat n s b).
  Hypothesis HString : forall n s, P (GString n s).
  Hypothesis HTime : forall s n o, P (GTime s n o).
  Hypothesis HBytes : forall b, P (GBytes b).
  Hypothesis HSlice : forall l, Forall P l -> P (GSlice l).
  Hypothesis HArray : forall l, Forall P l -> P (GArray l).
  Hypothesis HMap : forall m, Forall (fun kv => P (fst kv) /\ P (snd kv)) m -> P (GMap m).
  Hypothesis HPtrNil : P (GPtr None).
  Hypothesis HPtr : forall x, P x -> P (GPtr (Some x)).
  Hypothesis HStruct : forall fs, Forall (fun f => P (snd f)) fs -> P (GStruct fs).
  Hypothesis HIface : forall x, P x -> P (GIface x).
  Hypothesis HOther : forall k, P (GOther k).
  Fixpoint goval_ind' (g : goval) : P g :=
    match g with
    | GNil => HNil
    | GBool n b => HBool n b
    | GInt n w z => HInt n w z
    | GUint n w z => HUint n w z
    | GFloat n s b => HFloat n s b
    | GString n s => HString n s
    | GTime s n o => HTime s n o
    | GBytes b => HBytes b
    | GSlice l =>
        HSlice l ((fix go (l : list goval) : Forall P l :=
                     match l with
                     | [] => Forall_nil _
                     | x :: xs => Forall_cons _ (goval_ind' x) (go xs)
                     end) l)
    | GArray l =>
        HArray l ((fix go (l : list goval) : Forall P l :=
                     match l with
                     | [] => Forall_nil _
                     | x :: xs => Forall_cons _ (goval_ind' x) (go xs)
                     end) l)
    | GMap m =>
        HMap m ((fix go (m : list (goval * goval)) : Forall (fun kv => P (fst kv) /\ P (snd kv)) m :=
                   match m with
                   | [] => Forall_nil _
                   | kv :: xs => Forall_cons _ (conj (goval_ind' (fst kv)) (goval_ind' (snd kv))) (go xs)
                   end) m)
    | GPtr None => HPtrNil
    | GPtr (Some x) => HPtr x (goval_ind' x)
    | GStruct fs =>
        HStruct fs ((fix go (fs : list (bytes * bool * goval)) : Forall (fun f => P (snd f)) fs :=
                       match fs with
                       | [] => Forall_nil _
                       | f :: xs => Forall_cons _ (goval_ind' (snd f)) (go xs)
                       end) fs)
    | GIface x => HIface x (goval_ind' x)
    | GOther k => HOther k
    end.
End GovalInd.

(* ---------- part 1: the required-parameter set *)
Lemma mem_In n l : mem n l = true <-> In n l.
Proof.
  unfold mem. rewrite existsb_exists. split.
  - intros (x & Hx & He). apply bytes_eqb_true in He. now subst.
  - intros H. exists n. split; [assumption|apply bytes_eqb_refl].
Qed.
Lemma mem_not_In n l : mem n l = false <-> ~ In n l.
Proof. rewrite <- mem_In. destruct (mem n l); split; congruence. Qed.

Lemma add_param_In n acc x : In x (add_param n acc) <-> x = n \/ In x acc.
Proof.
  unfold add_param. destruct (mem n acc) eqn:E.
  - apply mem_In in E. split; [tauto|]. intros [->|H]; assumption.
  - rewrite in_app_iff. cbn. split; [intros [H|[H|[]]]; auto|intros [H|H]; auto].
Qed.
Lemma add_param_NoDup n acc : NoDup acc -> NoDup (add_param n acc).
Proof.
  unfold add_param. intros H. destruct (mem n acc) eqn:E; [assumption|].
  apply mem_not_In in E. apply NoDup_rev in H.
  rewrite <- (rev_involutive (acc ++ [n])). apply NoDup_rev. rewrite rev_app_distr. cbn.
  constructor; [|assumption]. now rewrite <- in_rev.
Qed.

Lemma visit_In : forall s acc x, In x (visit s acc) <-> In x acc \/ In x (mentions s).
Proof.
  induction s as [n| |kids IH] using shape_ind'; intros acc x.
  - cbn. rewrite add_param_In. intuition.
  - cbn. tauto.
  - cbn. revert acc. induction kids as [|k r IHr]; intros acc.
    + cbn. tauto.
    + inversion IH as [|? ? Hk Hr]; subst. specialize (IHr Hr).
      rewrite IHr. rewrite Hk. rewrite in_app_iff. tauto.
Qed.
Lemma visit_NoDup : forall s acc, NoDup acc -> NoDup (visit s acc).
Proof.
  induction s as [n| |kids IH] using shape_ind'; intros acc Hnd.
  - now apply add_param_NoDup.
  - assumption.
  - cbn. revert acc Hnd. induction kids as [|k r IHr]; intros acc Hnd; [assumption|].
    inversion IH as [|? ? Hk Hr]; subst. apply IHr; [assumption|]. now apply Hk.
Qed.

Lemma params_reported_exact p :
  NoDup (params_of p) /\ forall n, In n (params_of p) <-> In n (mentions p).
Proof.
  split.
  - apply visit_NoDup. constructor.
  - intros n. unfold params_of. rewrite visit_In. cbn. tauto.
Qed.

Definition is_missing (p : shape) (supplied : list bytes) (n : bytes) : Prop :=
  In n (mentions p) /\ ~ In n supplied.

Lemma validate_filter p supplied n :
  In n (filter (fun n => negb (mem n supplied)) (params_of p)) <-> is_missing p supplied n.
Proof.
  rewrite filter_In. destruct (params_reported_exact p) as [_ H]. rewrite H.
  unfold is_missing. rewrite Bool.negb_true_iff, mem_not_In. tauto.
Qed.

Lemma validate_started p supplied :
  validate p supplied = Started <-> forall n, In n (mentions p) -> In n supplied.
Proof.
  unfold validate.
  destruct (filter (fun n => negb (mem n supplied)) (params_of p)) as [|m ms] eqn:E.
  - split; [|reflexivity]. intros _ n Hn.
    destruct (mem n supplied) eqn:Em; [now apply mem_In|].
    apply mem_not_In in Em.
    assert (In n []) as []. rewrite <- E. apply validate_filter. now split.
  - split; [discriminate|]. intros H. exfalso.
    assert (is_missing p supplied m) as [H1 H2].
    { apply validate_filter. rewrite E. now left. }
    apply H2. now apply H.
Qed.

Lemma validate_refused p supplied ms :
  validate p supplied = Refused ms ->
  ms <> [] /\ NoDup ms /\ forall n, In n ms <-> is_missing p supplied n.
Proof.
  unfold validate.
  destruct (filter (fun n => negb (mem n supplied)) (params_of p)) as [|m r] eqn:E; [discriminate|].
  intros H; inversion H; subst ms. split; [discriminate|]. split.
  - rewrite <- E. apply NoDup_filter. apply (params_reported_exact p).
  - intros n. rewrite <- E. apply validate_filter.
Qed.

Lemma missing_exact p supplied :
  (exists ms, validate p supplied = Refused ms) <-> exists n, is_missing p supplied n.
Proof.
  split.
  - intros [ms H]. destruct (validate_refused _ _ _ H) as (Hne & _ & Hm).
    destruct ms as [|m r]; [congruence|]. exists m. apply Hm. now left.
  - intros [n [H1 H2]]. destruct (validate p supplied) as [|ms] eqn:E; [|now exists ms].
    exfalso. apply H2. now apply (proj1 (validate_started p supplied) E).
Qed.

(* ---------- part 2: Parse *)
Lemma wrap64_small z : 0 <= z < 2 ^ 63 -> wrap64 z = z.
Proof. intros H. unfold wrap64. rewrite Z.mod_small; lia. Qed.

Lemma existsb_bytes k l : existsb (bytes_eqb k) l = true <-> In k l.
Proof. apply (mem_In k l). Qed.

Lemma nodup_keys_NoDup l : nodup_keys l = true -> NoDup l.
Proof.
  induction l as [|k r IH]; cbn; intros H; constructor.
  - apply andb_prop in H as [H _]. apply Bool.negb_true_iff in H.
    intros Hin. apply existsb_bytes in Hin. congruence.
  - apply andb_prop in H as [_ H]. now apply IH.
Qed.

Lemma obj_set_fresh m k v : ~ In k (map fst m) -> obj_set m k v = m ++ [(k, v)].
Proof.
  induction m as [|[k' v'] r IH]; cbn; intros H; [reflexivity|].
  destruct (bytes_eqb k' k) eqn:E.
  - apply bytes_eqb_true in E. tauto.
  - f_equal. apply IH. tauto.
Qed.

Definition exp_fields :=
  fix go (fs : list (bytes * bool * goval)) : list (bytes * value) :=
    match fs with
    | [] => []
    | (n, true, v) :: r => (n, expected v) :: go r
    | (_, false, _) :: r => go r
    end.
Lemma exp_fields_names fs : map fst (exp_fields fs) = exported_names fs.
Proof. induction fs as [|[[n [|]] v] r IH]; cbn; [reflexivity| |assumption]. now rewrite IH. Qed.

Lemma parse_go_faithful : forall g, supported g -> parse_go_spec g = POk (expected g).
Proof.
  unfold supported, parse_go_spec.
  induction g as [ | | | | | | | |l IH|l IH|m IH| |x IH|fs IH|x IH| ] using goval_ind';
    intros Hs; try reflexivity;
    try (cbn [parse_go expected negb]; rewrite Bool.andb_false_r; reflexivity).
  - (* unsigned *) cbn in *. f_equal. f_equal. apply wrap64_small.
    apply andb_prop in Hs as [Hs H3]. apply andb_prop in Hs as [H1 H2]. lia.
  - (* slice *) cbn in *.
    assert ((fix go (l : list goval) : pout (list value) :=
               match l with
               | [] => POk []
               | x :: r => match parse_go true x with
                           | POk v => match go r with POk vs => POk (v :: vs) | PPanic => PPanic end
                           | PPanic => PPanic
                           end
               end) l = POk (map expected l)) as ->; [|reflexivity].
    induction l as [|x r IHr]; [reflexivity|]. cbn in Hs. apply andb_prop in Hs as [Hx Hr].
    inversion IH as [|? ? Px Pr]; subst. rewrite (Px Hx). rewrite (IHr Pr Hr). reflexivity.
  - (* array *) cbn in *.
    assert ((fix go (l : list goval) : pout (list value) :=
               match l with
               | [] => POk []
               | x :: r => match parse_go true x with
                           | POk v => match go r with POk vs => POk (v :: vs) | PPanic => PPanic end
                           | PPanic => PPanic
                           end
               end) l = POk (map expected l)) as ->; [|reflexivity].
    induction l as [|x r IHr]; [reflexivity|]. cbn in Hs. apply andb_prop in Hs as [Hx Hr].
    inversion IH as [|? ? Px Pr]; subst. rewrite (Px Hx). rewrite (IHr Pr Hr). reflexivity.
  - (* map *) cbn in *. apply andb_prop in Hs as [Hall Hnd]. apply nodup_keys_NoDup in Hnd.
    set (kf := fun kv : goval * goval => (key_string (expected (fst kv)), expected (snd kv))) in *.
    assert (forall acc, NoDup (map fst acc ++ map (fun kv => key_string (expected (fst kv))) m) ->
      (fix go (m : list (goval * goval)) (acc : list (bytes * value)) : pout (list (bytes * value)) :=
         match m with
         | [] => POk acc
         | (k, v) :: r =>
             match parse_go true k with
             | POk kv => match parse_go true v with
                         | POk vv => go r (obj_set acc (key_string kv) vv)
                         | PPanic => PPanic
                         end
             | PPanic => PPanic
             end
         end) m acc = POk (acc ++ map kf m)) as Hgo.
    { clear Hnd. induction m as [|[k v] r IHr]; intros acc Hnd.
      - cbn. now rewrite app_nil_r.
      - cbn in Hall. apply andb_prop in Hall as [Hkv Hr]. apply andb_prop in Hkv as [Hkv Hv].
        apply andb_prop in Hkv as [_ Hk].
        inversion IH as [|? ? [Pk Pv] Pr]; subst. cbn [fst snd] in *.
        rewrite (Pk Hk), (Pv Hv). cbn [map] in Hnd.
        rewrite obj_set_fresh.
        + rewrite (IHr Pr Hr).
          * rewrite <- app_assoc. reflexivity.
          * rewrite map_app. cbn. rewrite <- app_assoc. exact Hnd.
        + intros Hin. apply NoDup_remove_2 in Hnd. apply Hnd. apply in_or_app. now left. }
    rewrite (Hgo []); [reflexivity|exact Hnd].
  - (* pointer *) cbn in *. now apply IH.
  - (* struct *) cbn in *. apply andb_prop in Hs as [Hall Hnd]. apply nodup_keys_NoDup in Hnd.
    fold exp_fields.
    assert (forall acc, NoDup (map fst acc ++ exported_names fs) ->
      (fix go (fs : list (bytes * bool * goval)) (acc : list (bytes * value)) : pout (list (bytes * value)) :=
         match fs with
         | [] => POk acc
         | (n, exported, v) :: r =>
             if exported then
               match parse_go true v with
               | POk vv => go r (obj_set acc n vv)
               | PPanic => PPanic
               end
             else go r acc
         end) fs acc = POk (acc ++ exp_fields fs)) as Hgo.
    { clear Hnd. induction fs as [|[[n e] v] r IHr]; intros acc Hnd.
      - cbn. now rewrite app_nil_r.
      - cbn in Hall. apply andb_prop in Hall as [Hv Hr].
        inversion IH as [|? ? Pv Pr]; subst. cbn [fst snd] in *. destruct e.
        + rewrite (Pv Hv). cbn [exported_names] in Hnd. rewrite obj_set_fresh.
          * rewrite (IHr Pr Hr).
            -- cbn [exp_fields]. rewrite <- app_assoc. reflexivity.
            -- rewrite map_app. cbn. rewrite <- app_assoc. exact Hnd.
          * intros Hin. apply NoDup_remove_2 in Hnd. apply Hnd. apply in_or_app. now left.
        + cbn [exported_names exp_fields] in *. now apply IHr. }
    rewrite (Hgo []); [reflexivity|exact Hnd].
  - (* interface *) cbn in *. now apply IH.
Qed.

(* the pinned tree is not faithful: unsigned integers, values of defined
   scalar types, structs with an unexported field *)
Lemma parse_go_pinned_refuted_uint :
  exists g, supported g /\ parse_go_pinned g = POk VNone /\ expected g = VInt 3.
Proof. exists (GUint false W64 3). repeat split. Qed.
Lemma parse_go_pinned_refuted_named :
  exists g, supported g /\ parse_go_pinned g = POk VNone /\ expected g = VInt 3.
Proof. exists (GInt true WInt 3). repeat split. Qed.
Lemma parse_go_pinned_refuted_unexported :
  exists g, supported g /\ parse_go_pinned g = PPanic /\
            expected g = VObj [(bs "A", VInt 1)].
Proof. exists (GStruct [(bs "A", true, GInt false WInt 1); (bs "b", false, GString false (bs "x"))]). repeat split. Qed.
Lemma parse_go_pinned_refuted : exists g, supported g /\ parse_go_pinned g <> POk (expected g).
Proof. exists (GUint false W8 200). split; [reflexivity|]. vm_compute. discriminate. Qed.

(* the repaired Parse never panics on a supported value *)
Lemma parse_go_spec_total g : supported g -> parse_go_spec g <> PPanic.
Proof. intros H. rewrite (parse_go_faithful g H). discriminate. Qed.

(* expected values respond to json_match with themselves (sanity of the check's comparison) *)
Example json_match_example :
  json_match (VObj [(bs "a", VArr [VInt 1; VFloat 4609434218613702656%N; VNone]); (bs "t", VDate 0 0 (-1))])
             (VObj [(bs "t", VStr (bs "1970-01-01T00:00:00Z")); (bs "a", VArr [VInt 1; VFloat 4609434218613702656%N; VNone])]) = true.
Proof. reflexivity. Qed.
