(* Proofs/StdMathProofs.v — the numeric aggregates (C16), over exact rationals.
   MIN / MAX: the loops return a member that bounds every element (MAX only
   when some element is >= 0; refuted otherwise; the repaired loop always).
   SUM: left fold = sum.  AVERAGE: result * n = sum.  VARIANCE: the two-pass
   loop equals the sum-of-squares identity used by the reference.
   Not proved here (checked by the correspondence only): the MEDIAN mirror
   against the order-statistic reference, the PERCENTILE laws on the mirror. *)
From Ferret Require Import Value Compare StdArrays StdMath.
From Coq Require Import Lia ZifyBool Lqa QArith Qfield.

Local Open Scope Q_scope.

Lemma Qltb_true a b : Qltb a b = true <-> a < b.
Proof.
  unfold Qltb. rewrite negb_true_iff. split.
  - intros H. apply Qnot_le_lt. intros L. apply Qle_bool_iff in L. congruence.
  - intros H. destruct (Qle_bool b a) eqn:E; [|reflexivity]. apply Qle_bool_iff in E. lra.
Qed.
Lemma Qltb_false a b : Qltb a b = false <-> b <= a.
Proof.
  unfold Qltb. rewrite negb_false_iff. apply Qle_bool_iff.
Qed.

(* ---- MIN *)
Lemma loop_min_inv l : forall idx m, (0 < idx)%Z ->
  let r := loop_min l idx m in
  r <= m /\ (forall y, In y l -> r <= y) /\ (r = m \/ In r l).
Proof.
  induction l as [|y t IH]; intros idx m Hi; cbn [loop_min].
  - split; [lra|]. split; [intros ? []|now left].
  - destruct (idx =? 0)%Z eqn:E0; [exfalso; lia|]. rewrite orb_false_r.
    specialize (IH (idx + 1)%Z (if Qltb y m then y else m)). cbv zeta in IH.
    destruct IH as [H1 [H2 H3]]; [lia|].
    destruct (Qltb y m) eqn:E.
    + apply Qltb_true in E. split; [lra|]. split.
      * intros z [<-|Hz]; [exact H1 | now apply H2].
      * destruct H3 as [->|H3]; right; [now left | now right].
    + apply Qltb_false in E. split; [exact H1|]. split.
      * intros z [<-|Hz]; [lra | now apply H2].
      * destruct H3 as [H3|H3]; [now left | right; now right].
Qed.
Theorem min_loop_spec x t :
  let r := loop_min (x :: t) 0 0 in In r (x :: t) /\ forall y, In y (x :: t) -> r <= y.
Proof.
  cbn [loop_min]. rewrite orb_true_r. cbn zeta.
  pose proof (loop_min_inv t (0 + 1)%Z x) as H. cbv zeta in H. destruct H as [H1 [H2 H3]]; [lia|].
  split.
  - destruct H3 as [->|H3]; [now left | now right].
  - intros y [<-|Hy]; [exact H1 | now apply H2].
Qed.
Lemma Qminb_spec a b : Qminb a b <= a /\ Qminb a b <= b /\ (Qminb a b = a \/ Qminb a b = b).
Proof.
  unfold Qminb. destruct (Qle_bool a b) eqn:E.
  - apply Qle_bool_iff in E. repeat split; auto; lra.
  - assert (~ a <= b) by (intros L; apply Qle_bool_iff in L; congruence).
    repeat split; auto; lra.
Qed.
Theorem q_min_spec t : forall x,
  In (q_min x t) (x :: t) /\ forall y, In y (x :: t) -> q_min x t <= y.
Proof.
  induction t as [|z t IH]; intros x; cbn [q_min].
  - split; [now left|]. intros y [<-|[]]. lra.
  - destruct (IH z) as [H1 H2]. destruct (Qminb_spec x (q_min z t)) as [A [B C]]. split.
    + destruct C as [->| ->]; [now left | now right].
    + intros y [<-|Hy]; [exact A|]. specialize (H2 y Hy). lra.
Qed.
(* hence the loop and the reference agree (as numbers) *)
Corollary min_meets_spec x t : loop_min (x :: t) 0 0 == q_min x t.
Proof.
  destruct (min_loop_spec x t) as [A1 A2]. destruct (q_min_spec t x) as [B1 B2].
  specialize (A2 _ B1). specialize (B2 _ A1). lra.
Qed.

(* ---- MAX *)
Lemma loop_max_inv l : forall m,
  let r := loop_max l m in
  m <= r /\ (forall y, In y l -> y <= r) /\ (r = m \/ In r l).
Proof.
  induction l as [|y t IH]; intros m; cbn [loop_max].
  - split; [lra|]. split; [intros ? []|now left].
  - specialize (IH (if Qltb m y then y else m)). cbv zeta in IH. destruct IH as [H1 [H2 H3]].
    destruct (Qltb m y) eqn:E.
    + apply Qltb_true in E. split; [lra|]. split.
      * intros z [<-|Hz]; [exact H1 | now apply H2].
      * destruct H3 as [->|H3]; right; [now left | now right].
    + apply Qltb_false in E. split; [exact H1|]. split.
      * intros z [<-|Hz]; [lra | now apply H2].
      * destruct H3 as [H3|H3]; [now left | right; now right].
Qed.
Theorem max_loop_spec_guarded l : (exists y, In y l /\ 0 <= y) ->
  let r := loop_max l 0 in (exists z, In z l /\ r == z) /\ forall y, In y l -> y <= r.
Proof.
  intros [y [Hy Hy0]]. pose proof (loop_max_inv l 0) as H. cbv zeta in *. destruct H as [H1 [H2 H3]].
  split; [|exact H2]. destruct H3 as [H3|H3].
  - exists y. split; [exact Hy|]. specialize (H2 y Hy). rewrite H3 in *. lra.
  - exists (loop_max l 0). split; [exact H3 | reflexivity].
Qed.
Theorem max_refuted :
  m_max [VArr [VInt (-1); VInt (-2)]] = MQ 0 /\ s_max [VArr [VInt (-1); VInt (-2)]] = NSExact (-1).
Proof. split; vm_compute; reflexivity. Qed.
Lemma loop_max_fx_inv l : forall idx m, (0 < idx)%Z ->
  let r := loop_max_fx l idx m in
  m <= r /\ (forall y, In y l -> y <= r) /\ (r = m \/ In r l).
Proof.
  induction l as [|y t IH]; intros idx m Hi; cbn [loop_max_fx].
  - split; [lra|]. split; [intros ? []|now left].
  - destruct (idx =? 0)%Z eqn:E0; [exfalso; lia|]. rewrite orb_false_r.
    specialize (IH (idx + 1)%Z (if Qltb m y then y else m)). cbv zeta in IH.
    destruct IH as [H1 [H2 H3]]; [lia|].
    destruct (Qltb m y) eqn:E.
    + apply Qltb_true in E. split; [lra|]. split.
      * intros z [<-|Hz]; [exact H1 | now apply H2].
      * destruct H3 as [->|H3]; right; [now left | now right].
    + apply Qltb_false in E. split; [exact H1|]. split.
      * intros z [<-|Hz]; [lra | now apply H2].
      * destruct H3 as [H3|H3]; [now left | right; now right].
Qed.
Theorem max_fx_loop_spec x t :
  let r := loop_max_fx (x :: t) 0 0 in In r (x :: t) /\ forall y, In y (x :: t) -> y <= r.
Proof.
  cbn [loop_max_fx]. rewrite orb_true_r. cbn zeta.
  pose proof (loop_max_fx_inv t (0 + 1)%Z x) as H. cbv zeta in H. destruct H as [H1 [H2 H3]]; [lia|].
  split.
  - destruct H3 as [->|H3]; [now left | now right].
  - intros y [<-|Hy]; [exact H1 | now apply H2].
Qed.
Lemma Qmaxb_spec a b : a <= Qmaxb a b /\ b <= Qmaxb a b /\ (Qmaxb a b = a \/ Qmaxb a b = b).
Proof.
  unfold Qmaxb. destruct (Qle_bool a b) eqn:E.
  - apply Qle_bool_iff in E. repeat split; auto; lra.
  - assert (~ a <= b) by (intros L; apply Qle_bool_iff in L; congruence).
    repeat split; auto; lra.
Qed.
Theorem q_max_spec t : forall x,
  In (q_max x t) (x :: t) /\ forall y, In y (x :: t) -> y <= q_max x t.
Proof.
  induction t as [|z t IH]; intros x; cbn [q_max].
  - split; [now left|]. intros y [<-|[]]. lra.
  - destruct (IH z) as [H1 H2]. destruct (Qmaxb_spec x (q_max z t)) as [A [B C]]. split.
    + destruct C as [->| ->]; [now left | now right].
    + intros y [<-|Hy]; [exact A|]. specialize (H2 y Hy). lra.
Qed.
Corollary max_fx_meets_spec x t : loop_max_fx (x :: t) 0 0 == q_max x t.
Proof.
  destruct (max_fx_loop_spec x t) as [A1 A2]. destruct (q_max_spec t x) as [B1 B2].
  specialize (A2 _ B1). specialize (B2 _ A1). lra.
Qed.
Corollary max_meets_spec_guarded x t : (exists y, In y (x :: t) /\ 0 <= y) ->
  loop_max (x :: t) 0 == q_max x t.
Proof.
  intros G. destruct (max_loop_spec_guarded (x :: t) G) as [[z [Hz Ez]] A2]. cbv zeta in *.
  destruct (q_max_spec t x) as [B1 B2]. specialize (A2 _ B1). specialize (B2 _ Hz). lra.
Qed.

(* ---- SUM / AVERAGE *)
Lemma fold_sum l : forall a, fold_left Qplus l a == a + q_sum l.
Proof.
  induction l as [|x t IH]; intros a; cbn [fold_left q_sum fold_right]; [ring|].
  rewrite IH. unfold q_sum. ring.
Qed.
Theorem sum_meets_spec l : loop_sum l == q_sum l.
Proof. unfold loop_sum. rewrite fold_sum. ring. Qed.

Lemma qlen_cons x (l : list Q) : qlen (x :: l) == qlen l + 1.
Proof.
  unfold qlen. cbn [List.length]. rewrite Nat2Z.inj_succ. unfold Z.succ. rewrite inject_Z_plus. reflexivity.
Qed.
Lemma qlen_pos (l : list Q) : l <> [] -> 0 < qlen l.
Proof.
  destruct l as [|x t]; [congruence|]. intros _. unfold qlen.
  replace 0 with (inject_Z 0) by reflexivity. rewrite <- Zlt_Qlt. cbn [List.length]. lia.
Qed.
Theorem average_meets_spec l : l <> [] -> (loop_sum l / qlen l) * qlen l == q_sum l.
Proof.
  intros H. pose proof (qlen_pos l H). rewrite sum_meets_spec. field. lra.
Qed.

(* ---- VARIANCE: sum (x - m)^2 = sum x^2 - (sum x)^2 / n  when m = sum x / n *)
Lemma fold_var l m : forall a,
  fold_left (fun acc n => acc + sq (n - m)) l a == a + q_sumsq l - 2 * m * q_sum l + qlen l * m * m.
Proof.
  induction l as [|x t IH]; intros a; cbn [fold_left].
  - unfold q_sumsq, q_sum, qlen. cbn. ring.
  - rewrite IH. rewrite qlen_cons. unfold q_sumsq, q_sum, sq. cbn [fold_right]. ring.
Qed.
Theorem variance_two_pass_identity l : l <> [] ->
  loop_var l (loop_sum l / qlen l) == q_sumsq l - sq (q_sum l) / qlen l.
Proof.
  intros H. pose proof (qlen_pos l H). unfold loop_var. rewrite fold_var, sum_meets_spec.
  unfold sq. field. lra.
Qed.
Theorem variance_meets_spec sample l : l <> [] -> ~ qlen l - inject_Z sample == 0 ->
  loop_var l (loop_sum l / qlen l) / (qlen l - inject_Z sample) == q_variance sample l.
Proof.
  intros H Hd. unfold q_variance. rewrite variance_two_pass_identity by exact H. reflexivity.
Qed.
