(* Proofs/HttpProofs.v — lemmas about the HTTP driver model (C19).  All
   statements are for arbitrary configurations; no size bound. *)
From Ferret Require Import Base Http Proofs.DomProofs.
From Coq Require Import Lia.

(* ---------- canonical names *)
Lemma up_dash b : (up b =? 45)%N = (b =? 45)%N.
Proof.
  unfold up, is_lower. destruct (97 <=? b)%N eqn:A; destruct (b <=? 122)%N eqn:B; cbn; try reflexivity.
  apply N.leb_le in A. apply N.leb_le in B.
  destruct (N.eqb_spec (b - 32) 45); destruct (N.eqb_spec b 45); try reflexivity; lia.
Qed.

Lemma low_dash b : (low b =? 45)%N = (b =? 45)%N.
Proof.
  unfold low, is_upper. destruct (65 <=? b)%N eqn:A; destruct (b <=? 90)%N eqn:B; cbn; try reflexivity.
  apply N.leb_le in A. apply N.leb_le in B.
  destruct (N.eqb_spec (b + 32) 45); destruct (N.eqb_spec b 45); try reflexivity; lia.
Qed.

Lemma up_up b : up (up b) = up b.
Proof.
  unfold up. destruct (is_lower b) eqn:L; [|rewrite L; reflexivity].
  assert (F : is_lower (b - 32) = false).
  { unfold is_lower in *. apply andb_prop in L. destruct L as [A B].
    apply N.leb_le in A. apply N.leb_le in B.
    destruct (N.leb_spec 97 (b - 32)); [lia|reflexivity]. }
  rewrite F. reflexivity.
Qed.

Lemma low_low b : low (low b) = low b.
Proof.
  unfold low. destruct (is_upper b) eqn:L; [|rewrite L; reflexivity].
  assert (F : is_upper (b + 32) = false).
  { unfold is_upper in *. apply andb_prop in L. destruct L as [A B].
    apply N.leb_le in A. apply N.leb_le in B.
    destruct (N.leb_spec (b + 32) 90); [lia|]. apply andb_false_r. }
  rewrite F. reflexivity.
Qed.

Lemma canon_aux_idem : forall s u, canon_aux u (canon_aux u s) = canon_aux u s.
Proof.
  induction s as [|b r IH]; intros u; cbn; [reflexivity|].
  destruct u.
  - rewrite up_up, up_dash, IH. reflexivity.
  - rewrite low_low, low_dash, IH. reflexivity.
Qed.

Lemma canon_idem s : canon (canon s) = canon s.
Proof. apply canon_aux_idem. Qed.

(* the name that reaches the wire is the configured name up to letter case *)
Lemma ci_eqb_canon k : ci_eqb (canon k) k = true.
Proof. unfold ci_eqb. rewrite canon_idem. apply bytes_eqb_refl. Qed.

Lemma ci_eqb_refl k : ci_eqb k k = true.
Proof. apply bytes_eqb_refl. Qed.

Lemma ci_eqb_sym a b : ci_eqb a b = ci_eqb b a.
Proof.
  unfold ci_eqb. destruct (bytes_eqb (canon a) (canon b)) eqn:A.
  - apply bytes_eqb_true in A. rewrite A. symmetry. apply bytes_eqb_refl.
  - destruct (bytes_eqb (canon b) (canon a)) eqn:B; [|reflexivity].
    apply bytes_eqb_true in B. rewrite B, bytes_eqb_refl in A. discriminate.
Qed.

Lemma ci_find_canon n c : ci_find (canon n) c = ci_find n c.
Proof.
  induction c as [|[k vs] r IH]; cbn; [reflexivity|].
  unfold ci_eqb. rewrite canon_idem, IH. reflexivity.
Qed.

(* ---------- configured names pairwise different as header names *)
Fixpoint ci_distinct (c : cfg) : Prop :=
  match c with
  | [] => True
  | (k, _) :: r => (forall k' vs', In (k', vs') r -> ci_eqb k' k = false) /\ ci_distinct r
  end.

Lemma ci_find_in c : ci_distinct c -> forall k vs, In (k, vs) c -> ci_find k c = Some vs.
Proof.
  induction c as [|[k0 vs0] r IH]; intros D k vs H; [destruct H|].
  destruct D as [D1 D2]. cbn [ci_find]. destruct H as [H|H].
  - inversion H; subst. rewrite ci_eqb_refl. reflexivity.
  - rewrite (D1 k vs H). apply IH; assumption.
Qed.

(* ---------- merge: parameters win, defaults fill in, nothing is lost *)
Lemma merge_params_win d p name vs : ci_find name p = Some vs -> wire_spec d p name = vs.
Proof. intros H. unfold wire_spec, effective. rewrite H. reflexivity. Qed.

Lemma merge_default_used d p name vs :
  ci_find name p = None -> ci_find name d = Some vs -> wire_spec d p name = vs.
Proof. intros H1 H2. unfold wire_spec, effective. rewrite H1, H2. reflexivity. Qed.

Lemma unconfigured_is_base d p name :
  ci_find name p = None -> ci_find name d = None ->
  wire_spec d p name = match lookup (canon name) base_headers with Some vs => vs | None => [] end.
Proof. intros H1 H2. unfold wire_spec, effective. rewrite H1, H2. reflexivity. Qed.

Lemma request_carries_exactly d p : ci_distinct d -> ci_distinct p ->
  (forall k vs, In (k, vs) p -> ci_eqb (canon k) k = true /\ wire_spec d p (canon k) = vs) /\
  (forall k vs, In (k, vs) d -> ci_find k p = None -> ci_eqb (canon k) k = true /\ wire_spec d p (canon k) = vs).
Proof.
  intros Dd Dp. split.
  - intros k vs H. split; [apply ci_eqb_canon|].
    apply merge_params_win. rewrite ci_find_canon. apply ci_find_in; assumption.
  - intros k vs H N. split; [apply ci_eqb_canon|].
    apply merge_default_used; rewrite ci_find_canon; [exact N|apply ci_find_in; assumption].
Qed.

(* ---------- cookies and user agent *)
Lemma cookie_find_app n a b :
  cookie_find n (a ++ b) = match cookie_find n a with Some v => Some v | None => cookie_find n b end.
Proof.
  induction a as [|[k v] a IH]; cbn; [reflexivity|]. destruct (bytes_eqb n k); [reflexivity|exact IH].
Qed.

Lemma cookie_find_filter n f c : (forall v, f (n, v) = true) -> cookie_find n (filter f c) = cookie_find n c.
Proof.
  intros Hf. induction c as [|[k v] c IH]; cbn; [reflexivity|].
  destruct (bytes_eqb n k) eqn:E.
  - apply bytes_eqb_true in E. subst k. rewrite Hf. cbn. rewrite bytes_eqb_refl. reflexivity.
  - destruct (f (k, v)); cbn; [rewrite E|]; exact IH.
Qed.

Lemma cookies_merge d p n :
  cookie_find n (cookies_spec d p) =
  match cookie_find n p with Some v => Some v | None => cookie_find n d end.
Proof.
  unfold cookies_spec. rewrite cookie_find_app. destruct (cookie_find n p) eqn:E; [reflexivity|].
  apply cookie_find_filter. intros v. cbn. rewrite E. reflexivity.
Qed.

Lemma ua_merge d p : ua_spec d p = match p with [] => d | _ => p end.
Proof. destruct p; reflexivity. Qed.

(* ---------- status acceptance *)
Lemma rule_matches_iff code url r :
  rule_matches code url r = true <->
  fst r = code /\ (snd r = None \/ exists p, snd r = Some p /\ glob_match p url = true).
Proof.
  unfold rule_matches. rewrite andb_true_iff, Z.eqb_eq. destruct (snd r) as [p|]; split; intros [A B]; split; auto.
  - right. exists p. auto.
  - destruct B as [B|[p' [B1 B2]]]; [discriminate|]. inversion B1. subst. exact B2.
Qed.

Lemma status_accept_iff code qr dr url :
  accepted code qr dr url = true <->
  (200 <= code <= 299) \/ exists r, (In r qr \/ In r dr) /\ rule_matches code url r = true.
Proof.
  unfold accepted. rewrite !orb_true_iff, andb_true_iff, !Z.leb_le, !existsb_exists. split.
  - intros [[H|[r [H1 H2]]]|[r [H1 H2]]]; [left; exact H|right; exists r; auto|right; exists r; auto].
  - intros [H|[r [[H1|H1] H2]]]; [left; left; exact H|left; right; exists r; auto|right; exists r; auto].
Qed.

(* the pattern language: '*' alone accepts every URL, a literal pattern only itself *)
Lemma glob_star_all s : glob_match [GStar] s = true.
Proof. induction s as [|b s IH]; cbn; [reflexivity|]. cbn in IH. rewrite IH. reflexivity. Qed.

Lemma glob_lit_exact : forall s s', glob_match (map GLit s) s' = true <-> s = s'.
Proof.
  induction s as [|b s IH]; intros s'; cbn.
  - destruct s'; cbn; split; intros H; try reflexivity; discriminate.
  - destruct s' as [|b' s']; [split; intros H; discriminate|].
    rewrite andb_true_iff, N.eqb_eq, IH. split.
    + intros [A B]. subst. reflexivity.
    + intros H. inversion H. auto.
Qed.

(* ---------- response exposure *)
Lemma response_reported r n vs :
  lookup n (r_headers r) = Some vs ->
  reported_header r n = (match vs with v :: _ => v | [] => [] end, join_comma vs).
Proof. intros H. unfold reported_header. rewrite H. reflexivity. Qed.

Lemma response_unreported r n : lookup n (r_headers r) = None -> reported_header r n = ([], []).
Proof. intros H. unfold reported_header. rewrite H. reflexivity. Qed.

(* ---------- the pinned code *)
(* a driver-level header registered under a non-canonical name reaches the
   server with its value lost *)
Lemma header_case_pinned_refuted :
  exists d q name,
    wire_pinned d q name = [[]] /\ wire_spec (cfg_of_dopts d) (cfg_of_query q) name = [bs "secret"].
Proof. exists [DHeader (bs "x-lower") [bs "secret"]], [], (bs "x-lower"). split; vm_compute; reflexivity. Qed.

(* of a two-valued header only the first value is sent *)
Lemma multi_value_pinned_refuted :
  exists d q name,
    wire_pinned d q name = [bs "a"] /\ wire_spec (cfg_of_dopts d) (cfg_of_query q) name = [bs "a"; bs "b"].
Proof. exists [DHeader (bs "X-Multi") [bs "a"; bs "b"]], [], (bs "X-Multi"). split; vm_compute; reflexivity. Qed.

(* same for a query-level array under a canonical name *)
Lemma multi_value_query_pinned_refuted :
  exists d q name,
    wire_pinned d q name = [bs "a"] /\ wire_spec (cfg_of_dopts d) (cfg_of_query q) name = [bs "a"; bs "b"].
Proof. exists [], [(bs "X-Multi", Many [bs "a"; bs "b"])], (bs "X-Multi"). split; vm_compute; reflexivity. Qed.

(* the pinned code does let a canonical query-level scalar win over a default *)
Lemma pinned_param_wins_example :
  wire_pinned [DHeader (bs "X-A") [bs "default"]] [(bs "x-a", One (bs "mine"))] (bs "X-A") = [bs "mine"].
Proof. vm_compute. reflexivity. Qed.

Lemma cancel_pinned_refuted :
  exists c r, returns_early_spec c r = true /\ returns_early_pinned c r = false.
Proof. exists 200, 3000. split; reflexivity. Qed.

(* ---------- the page's cookie collection *)
Lemma cookie_find_set n k v c :
  cookie_find n (cookie_set k v c) = if bytes_eqb n k then Some v else cookie_find n c.
Proof.
  induction c as [|[k' x] c IH]; cbn; [reflexivity|].
  destruct (bytes_eqb k k') eqn:E; cbn.
  - apply bytes_eqb_true in E. subst k'. destruct (bytes_eqb n k); reflexivity.
  - rewrite IH. destruct (bytes_eqb n k') eqn:E'; [|reflexivity].
    apply bytes_eqb_true in E'. subst k'. destruct (bytes_eqb n k) eqn:E2; [|reflexivity].
    apply bytes_eqb_true in E2. subst k. rewrite bytes_eqb_refl in E. discriminate.
Qed.

Lemma cookie_fold_other l : forall acc n, ~ In n (map fst l) ->
  cookie_find n (fold_left (fun acc kv => cookie_set (fst kv) (snd kv) acc) l acc) = cookie_find n acc.
Proof.
  induction l as [|[k x] l IH]; intros acc n H; cbn [fold_left]; [reflexivity|].
  rewrite IH; [|intros I; apply H; right; exact I]. cbn [fst snd]. rewrite cookie_find_set.
  rewrite bytes_eqb_neq; [reflexivity|]. intros ->. apply H. left. reflexivity.
Qed.

Lemma cookie_fold_in l : forall acc n v, NoDup (map fst l) -> In (n, v) l ->
  cookie_find n (fold_left (fun acc kv => cookie_set (fst kv) (snd kv) acc) l acc) = Some v.
Proof.
  induction l as [|[k x] l IH]; intros acc n v D I; [destruct I|].
  cbn [map fst] in D. inversion D as [|? ? Hk Dl]; subst. cbn [fold_left fst snd].
  destruct I as [I|I].
  - inversion I; subst. rewrite cookie_fold_other; [|exact Hk]. rewrite cookie_find_set, bytes_eqb_refl. reflexivity.
  - apply IH; assumption.
Qed.

(* every cookie the response sets is in the collection, with its value -- the empty value included *)
Lemma cookies_reported r n v : NoDup (map fst (r_cookies r)) -> In (n, v) (r_cookies r) ->
  cookie_find n (reported_cookies r) = Some v.
Proof. apply cookie_fold_in. Qed.

(* ... and nothing else is *)
Lemma cookies_reported_only r n : ~ In n (map fst (r_cookies r)) -> cookie_find n (reported_cookies r) = None.
Proof. intros H. unfold reported_cookies, to_driver_cookies. rewrite cookie_fold_other; [reflexivity|exact H]. Qed.

(* ---------- histories through one driver: every request carries the driver's
   defaults merged with its own parameters, whatever was requested before *)
Lemma history_independent names d : forall ps, history_spec names d ps = map (fun p => snd (open_spec names d p)) ps.
Proof. induction ps as [|p ps IH]; [reflexivity|]. cbn [history_spec map open_spec fst snd]. f_equal. exact IH. Qed.

Lemma history_nth names d ps k p : nth_error ps k = Some p ->
  nth_error (history_spec names d ps) k = Some (snd (open_spec names d p)).
Proof.
  intros H. rewrite history_independent.
  exact (map_nth_error (fun p => snd (open_spec names d p)) k ps H).
Qed.

(* a later request does not see an earlier one: the same request after any prefix *)
Lemma history_prefix_irrelevant names d pre p :
  nth_error (history_spec names d (pre ++ [p])) (List.length pre) = nth_error (history_spec names d [p]) 0.
Proof.
  rewrite (history_nth names d (pre ++ [p]) (List.length pre) p).
  - reflexivity.
  - rewrite nth_error_app2, Nat.sub_diag; [reflexivity|apply le_n].
Qed.
