(* Proofs/SortProofs.v — generic facts about the specification sort [isort]. *)
From Ferret Require Import Base.
From Coq Require Import Permutation Lia.

Section Sort.
  Context {A : Type} (leb : A -> A -> bool).

  Lemma insert_perm x l : Permutation (x :: l) (insert_sorted leb x l).
  Proof.
    induction l as [|y ys IH]; cbn; [reflexivity|].
    destruct (leb x y); [reflexivity|].
    rewrite perm_swap. constructor. exact IH.
  Qed.

  Lemma isort_perm l : Permutation l (isort leb l).
  Proof.
    induction l as [|x xs IH]; cbn; [constructor|].
    rewrite <- insert_perm. constructor. exact IH.
  Qed.

  Lemma isort_length l : length (isort leb l) = length l.
  Proof. symmetry. apply Permutation_length, isort_perm. Qed.

  Fixpoint adj_sorted (l : list A) : bool :=
    match l with
    | x :: ((y :: _) as r) => leb x y && adj_sorted r
    | _ => true
    end.

  Variable P : A -> Prop.
  Hypothesis total : forall a b, P a -> P b -> leb a b = true \/ leb b a = true.

  Lemma insert_adj_sorted x l :
    P x -> Forall P l -> adj_sorted l = true -> adj_sorted (insert_sorted leb x l) = true.
  Proof.
    intros Px. induction l as [|y ys IH]; intros Pl S; [reflexivity|].
    inversion Pl as [|? ? Py Pys]; subst. cbn [insert_sorted].
    destruct (leb x y) eqn:E.
    - cbn [adj_sorted]. rewrite E. exact S.
    - assert (Hyx : leb y x = true) by (destruct (total x y Px Py) as [H|H]; [congruence|exact H]).
      destruct ys as [|z zs].
      + cbn. rewrite Hyx; reflexivity.
      + cbn [adj_sorted] in S. apply andb_prop in S as [Syz Sr].
        specialize (IH Pys Sr). cbn [insert_sorted] in *.
        destruct (leb x z); cbn [adj_sorted] in *.
        * rewrite Hyx. exact IH.
        * rewrite Syz. exact IH.
  Qed.

  Lemma isort_adj_sorted l : Forall P l -> adj_sorted (isort leb l) = true.
  Proof.
    induction l as [|x xs IH]; intro Pl; [reflexivity|].
    inversion Pl as [|? ? Px Pxs]; subst. cbn [isort].
    apply insert_adj_sorted; auto.
    eapply Permutation_Forall; [apply isort_perm|exact Pxs].
  Qed.

  Lemma forallb_insert (p : A -> bool) x l :
    forallb p (insert_sorted leb x l) = p x && forallb p l.
  Proof.
    induction l as [|y ys IH]; cbn; [reflexivity|].
    destruct (leb x y); cbn; [reflexivity|]. rewrite IH.
    destruct (p x), (p y); reflexivity.
  Qed.
  Lemma forallb_isort (p : A -> bool) l : forallb p (isort leb l) = forallb p l.
  Proof. induction l as [|x xs IH]; cbn; [reflexivity|]. rewrite forallb_insert, IH; reflexivity. Qed.
End Sort.
