(* Proofs/StdObjectsProofs.v — the object functions (C16).  An object result is
   characterised by its lookup function (finite maps are equal when they
   agree on every key) together with the absence of duplicate keys; this is
   the "up to member order" of the specification. *)
From Ferret Require Import Value Compare StdArrays StdObjects Proofs.CompareProofs Proofs.StdArraysProofs.
From Coq Require Import Lia Permutation SetoidList SetoidPermutation.

Definition keys_nodup (m : list (bytes * value)) : Prop := NoDup (map fst m).

Lemma beq_false_ne a b : bytes_eqb a b = false <-> a <> b.
Proof.
  split.
  - intros H E. apply bytes_eqb_eq in E. congruence.
  - intros H. destruct (bytes_eqb a b) eqn:E; [apply bytes_eqb_eq in E; congruence | reflexivity].
Qed.

(* ---- the map primitives *)
Lemma obj_get_set_same k v m : obj_get k (obj_set k v m) = Some v.
Proof.
  induction m as [|[k' v'] r IH]; cbn; [now rewrite bytes_eqb_refl|].
  destruct (bytes_eqb k' k) eqn:E; cbn; rewrite E; [reflexivity | exact IH].
Qed.
Lemma obj_get_set_other k k0 v m : k0 <> k -> obj_get k0 (obj_set k v m) = obj_get k0 m.
Proof.
  intros H. induction m as [|[k' v'] r IH]; cbn.
  - apply beq_false_ne in H. rewrite bytes_eqb_sym. now rewrite H.
  - destruct (bytes_eqb k' k) eqn:E; cbn.
    + apply bytes_eqb_eq in E. subst k'. assert (E2 : bytes_eqb k k0 = false) by (apply beq_false_ne; congruence).
      now rewrite E2.
    + destruct (bytes_eqb k' k0); [reflexivity | exact IH].
Qed.
Lemma obj_get_set k k0 v m :
  obj_get k0 (obj_set k v m) = if bytes_eqb k k0 then Some v else obj_get k0 m.
Proof.
  destruct (bytes_eqb k k0) eqn:E.
  - apply bytes_eqb_eq in E. subst. apply obj_get_set_same.
  - apply obj_get_set_other. apply beq_false_ne in E. congruence.
Qed.
Lemma obj_get_none_notin k m : obj_get k m = None <-> ~ In k (map fst m).
Proof.
  induction m as [|[k' v'] r IH]; cbn; [tauto|].
  destruct (bytes_eqb k' k) eqn:E.
  - apply bytes_eqb_eq in E. subst. split; [discriminate | intros H; exfalso; apply H; now left].
  - apply beq_false_ne in E. rewrite IH. tauto.
Qed.
Lemma keys_obj_set k v m : In k (map fst m) -> map fst (obj_set k v m) = map fst m.
Proof.
  induction m as [|[k' v'] r IH]; cbn; [tauto|]. intros H.
  destruct (bytes_eqb k' k) eqn:E; cbn; [reflexivity|]. f_equal. apply IH.
  destruct H as [H|H]; [|exact H]. apply beq_false_ne in E. congruence.
Qed.
Lemma keys_obj_set_new k v m : ~ In k (map fst m) -> map fst (obj_set k v m) = map fst m ++ [k].
Proof.
  induction m as [|[k' v'] r IH]; cbn; [reflexivity|]. intros H.
  destruct (bytes_eqb k' k) eqn:E.
  - apply bytes_eqb_eq in E. subst. exfalso. apply H. now left.
  - cbn. f_equal. apply IH. tauto.
Qed.
Lemma keys_nodup_set k v m : keys_nodup m -> keys_nodup (obj_set k v m).
Proof.
  unfold keys_nodup. intros H. destruct (in_dec (list_eq_dec N.eq_dec) k (map fst m)) as [Hin|Hin].
  - now rewrite keys_obj_set.
  - rewrite keys_obj_set_new by exact Hin.
    eapply Permutation_NoDup; [apply Permutation_cons_append|]. now constructor.
Qed.

(* ---- KEYS / VALUES / HAS *)
Lemma keys_meets args : meets (m_keys args) (s_keys args).
Proof.
  destruct args as [|a [|b [|c r]]]; cbn; try constructor.
  - destruct a; constructor. reflexivity.
  - destruct a; try constructor. destruct b as [|fl| | | | | | |]; try constructor. destruct fl.
    + apply meets_val_eq.
    + constructor. rewrite map_map. reflexivity.
  - destruct a; try constructor. destruct b as [|fl| | | | | | |]; constructor.
Qed.
Lemma values_meets args : meets (m_values args) (s_values args).
Proof.
  destruct args as [|a [|b r]]; cbn; try constructor.
  - destruct a; constructor. reflexivity.
  - destruct a; constructor.
Qed.
Lemma obj_has_spec k m : obj_has k m = existsb (bytes_eqb k) (map fst m).
Proof.
  unfold obj_has. induction m as [|[k' v] r IH]; cbn; [reflexivity|].
  rewrite (bytes_eqb_sym k k'). destruct (bytes_eqb k' k); [reflexivity | exact IH].
Qed.
Lemma has_spec m k : m_has [VObj m; VStr k] = Ok (VBool (existsb (bytes_eqb k) (map fst m))).
Proof. cbn. now rewrite obj_has_spec. Qed.

(* ---- MERGE: the value of a key is its value in the last object that has it *)
Lemma merge_two_get k m : forall acc, keys_nodup m ->
  obj_get k (merge_two acc m) = match obj_get k m with Some v => Some v | None => obj_get k acc end.
Proof.
  unfold merge_two, keys_nodup. induction m as [|[k' v'] r IH]; intros acc H; cbn [fold_left obj_get]; [reflexivity|].
  cbn [map fst] in H. inversion H as [|? ? Hk Hr]; subst. cbn [fst snd].
  rewrite IH by exact Hr. destruct (bytes_eqb k' k) eqn:E.
  - apply bytes_eqb_eq in E. subst k'.
    assert (Hn : obj_get k r = None) by (now apply obj_get_none_notin).
    rewrite Hn. apply obj_get_set_same.
  - destruct (obj_get k r); [reflexivity|]. apply obj_get_set_other. apply beq_false_ne in E. congruence.
Qed.
Lemma merge_two_nodup m : forall acc, keys_nodup acc -> keys_nodup (merge_two acc m).
Proof.
  unfold merge_two. induction m as [|[k v] r IH]; intros acc H; cbn; [exact H|].
  apply IH. now apply keys_nodup_set.
Qed.
Lemma merge_all_get_aux k objs : forall acc, Forall (fun o => keys_nodup (members o)) objs ->
  obj_get k (fold_left (fun acc o => merge_two acc (members o)) objs acc) =
  match last_binding k (map members objs) with Some v => Some v | None => obj_get k acc end.
Proof.
  induction objs as [|o r IH]; intros acc H; cbn [fold_left map last_binding]; [reflexivity|].
  inversion H as [|? ? Ho Hr]; subst. rewrite IH by exact Hr.
  destruct (last_binding k (map members r)); [reflexivity|]. now apply merge_two_get.
Qed.
Lemma merge_lookup k objs : Forall (fun o => keys_nodup (members o)) objs ->
  obj_get k (merge_all objs) = last_binding k (map members objs).
Proof.
  intros H. unfold merge_all. rewrite merge_all_get_aux by exact H.
  now destruct (last_binding k (map members objs)).
Qed.
Lemma merge_keys_nodup objs : keys_nodup (merge_all objs).
Proof.
  unfold merge_all. assert (H : keys_nodup []) by constructor. revert H. generalize (@nil (bytes * value)).
  induction objs as [|o r IH]; intros acc H; cbn; [exact H|]. apply IH. now apply merge_two_nodup.
Qed.

(* ---- KEEP_KEYS *)
Lemma keep_loop_get k m keys : forall acc,
  obj_get k (fold_left (fun acc kv => match obj_get (str_of kv) m with
                                      | Some v => obj_set (str_of kv) v acc
                                      | None => acc
                                      end) keys acc) =
  if existsb (bytes_eqb k) (map str_of keys)
  then (match obj_get k m with Some v => Some v | None => obj_get k acc end)
  else obj_get k acc.
Proof.
  induction keys as [|kv r IH]; intros acc; cbn [fold_left map existsb]; [reflexivity|].
  rewrite IH. destruct (bytes_eqb k (str_of kv)) eqn:E; cbn [orb].
  - apply bytes_eqb_eq in E. subst k. destruct (obj_get (str_of kv) m) eqn:Eg.
    + rewrite obj_get_set_same. now destruct (existsb _ _).
    + now destruct (existsb _ _).
  - destruct (obj_get (str_of kv) m) eqn:Eg; [|reflexivity].
    rewrite obj_get_set_other by (apply beq_false_ne in E; congruence). reflexivity.
Qed.
Lemma keep_keys_lookup k m keys :
  obj_get k (keep_loop m keys) =
  if existsb (bytes_eqb k) (map str_of keys) then obj_get k m else None.
Proof.
  unfold keep_loop. rewrite keep_loop_get. cbn. destruct (existsb _ _); [|reflexivity].
  now destruct (obj_get k m).
Qed.
Lemma keep_keys_spec_lookup k m keys :
  obj_get k (filter (fun kv => existsb (bytes_eqb (fst kv)) (map str_of keys)) m) =
  if existsb (bytes_eqb k) (map str_of keys) then obj_get k m else None.
Proof.
  induction m as [|[k' v] r IH]; cbn [filter obj_get fst]; [now destruct (existsb _ _)|].
  destruct (existsb (bytes_eqb k') (map str_of keys)) eqn:E1; cbn [obj_get].
  - destruct (bytes_eqb k' k) eqn:E2; [|exact IH]. apply bytes_eqb_eq in E2. subst. now rewrite E1.
  - destruct (bytes_eqb k' k) eqn:E2; [|exact IH]. apply bytes_eqb_eq in E2. subst. rewrite E1.
    rewrite IH, E1. reflexivity.
Qed.

(* ---- MERGE_RECURSIVE: the recursive lookup equation of a deep merge *)
Definition mr_go (F : value -> value -> value) :=
  fix go (dm : list (bytes * value)) (s : list (bytes * value)) {struct dm} : list (bytes * value) :=
    match dm with
    | [] => s
    | (k0, v) :: r =>
        let v' := match obj_get k0 s with Some sv => F sv v | None => v end in
        go r (obj_set k0 v' s)
    end.
Lemma mr_go_get k (F : value -> value -> value) : forall dm s, keys_nodup dm ->
  obj_get k (mr_go F dm s) =
  match obj_get k dm with
  | Some v => Some (match obj_get k s with Some sv => F sv v | None => v end)
  | None => obj_get k s
  end.
Proof.
  unfold keys_nodup. induction dm as [|[k0 v] r IH]; intros s H; [reflexivity|].
  cbn [map fst] in H. inversion H as [|? ? Hk Hr]; subst. cbn [obj_get mr_go]. fold (mr_go F).
  rewrite IH by exact Hr. destruct (bytes_eqb k0 k) eqn:E.
  - apply bytes_eqb_eq in E. subst k0.
    assert (Hn : obj_get k r = None) by (now apply obj_get_none_notin). rewrite Hn.
    now rewrite obj_get_set_same.
  - assert (Hne : k <> k0) by (apply beq_false_ne in E; congruence).
    rewrite obj_get_set_other by exact Hne. reflexivity.
Qed.
Lemma mr_merge_cons s kv r : mr_merge (VObj s) (VObj (kv :: r)) = VObj (mr_go mr_merge (kv :: r) s).
Proof. reflexivity. Qed.
Lemma mr_merge_lookup k s d : keys_nodup d ->
  obj_get k (members (mr_merge (VObj s) (VObj d))) =
  match obj_get k s, obj_get k d with
  | Some x, Some y => Some (mr_merge x y)
  | None, Some y => Some y
  | Some x, None => Some x
  | None, None => None
  end.
Proof.
  intros H. destruct d as [|kv r].
  - cbn. now destruct (obj_get k s).
  - rewrite mr_merge_cons. cbn [members]. rewrite mr_go_get by exact H.
    destruct (obj_get k (kv :: r)); destruct (obj_get k s); reflexivity.
Qed.
Lemma mr_merge_non_object a b : is_obj a && is_obj b = false -> mr_merge a b = b.
Proof. destruct a, b; cbn; intros H; try reflexivity; discriminate. Qed.

(* ---- ZIP: the value of a key is the value at the first position of the key *)
Fixpoint first_value (k : bytes) (ks : list bytes) (vs : list value) : option value :=
  match ks, vs with
  | k' :: kr, v :: vr => if bytes_eqb k' k then Some v else first_value k kr vr
  | _, _ => None
  end.
Lemma zip_spec_lookup k ks : forall vs, obj_get k (zip_spec ks vs) = first_value k ks vs.
Proof.
  induction ks as [|k' kr IH]; intros [|v vr]; cbn [zip_spec first_value obj_get fst]; try reflexivity.
  destruct (bytes_eqb k' k) eqn:E; [reflexivity|].
  rewrite <- IH. generalize (zip_spec kr vr) as m. intros m.
  induction m as [|[k2 v2] r IHm]; [reflexivity|]. cbn [filter fst].
  destruct (bytes_eqb k2 k') eqn:E2; cbn [negb obj_get].
  - apply bytes_eqb_eq in E2. subst k2. rewrite E. exact IHm.
  - destruct (bytes_eqb k2 k); [reflexivity | exact IHm].
Qed.
