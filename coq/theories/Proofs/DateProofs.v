(* Proofs/DateProofs.v — DATE_SUBTRACT undoes DATE_ADD, DATE_DIFF is the exact
   whole number of units between two instants and so the (absolute) amount
   after DATE_ADD, for every amount of the property's range; the sign
   refutation; the calendar and the RFC 3339 round trip. *)
From Ferret Require Import Date.
From Coq Require Import Lia ZifyBool.
Open Scope Z_scope.

(* ---- guards *)
(* what the amount is multiplied by in int64 arithmetic *)
Definition unit_mult (u : dunit) : Z :=
  match u with UDay => 1 | UWeek => 7 | _ => unit_ns u end.
Definition amount_ok (n : Z) (u : dunit) : Prop := Z.abs (n * unit_mult u) < 2 ^ 63.
(* DATE_DIFF after DATE_ADD: the addition itself must not wrap; the bound on the
   amount keeps the int64 seconds of diff.go far from overflow.  There is no
   bound on amount * unit any more (nothing saturates): every amount in
   [-10^6, 10^6] of every unit is inside (in_range_guard). *)
Definition diff_guard (n : Z) (u : dunit) : Prop :=
  Z.abs n <= 2 ^ 32 /\ amount_ok n u.

Lemma pow63 : 2 ^ 63 = 9223372036854775808. Proof. reflexivity. Qed.
Lemma pow64 : 2 ^ 64 = 18446744073709551616. Proof. reflexivity. Qed.
Lemma pow53 : 2 ^ 53 = 9007199254740992. Proof. reflexivity. Qed.
Lemma pow32 : 2 ^ 32 = 4294967296. Proof. reflexivity. Qed.

Lemma wrap64_id : forall z, - 2 ^ 63 <= z < 2 ^ 63 -> wrap64 z = z.
Proof.
  intros z H. unfold wrap64. rewrite pow63, pow64 in *.
  rewrite Z.mod_small by lia. lia.
Qed.

Lemma unit_mult_pos : forall u, 1 <= unit_mult u.
Proof. destruct u; cbn; lia. Qed.

Lemma amount_ok_range : forall n u, amount_ok n u -> - 2 ^ 63 < n < 2 ^ 63.
Proof.
  intros n u H. unfold amount_ok in H. pose proof (unit_mult_pos u) as P.
  rewrite Z.abs_mul in H. rewrite (Z.abs_eq (unit_mult u)) in H by lia.
  assert (Z.abs n <= Z.abs n * unit_mult u) by nia. lia.
Qed.

Lemma amount_ok_opp : forall n u, amount_ok n u -> amount_ok (- n) u.
Proof. intros n u H. unfold amount_ok in *. rewrite Z.mul_opp_l, Z.abs_opp. exact H. Qed.

(* ---- Time.Add is exact on the nanosecond line *)
Lemma time_add_spec : forall t d, inst_norm t ->
  inst_norm (time_add t d) /\ inst_ns (time_add t d) = inst_ns t + d.
Proof.
  intros [s n] d Hn. unfold inst_norm, inst_ns, time_add in *. cbn [fst snd] in *.
  assert (Q : d = 1000000000 * Z.quot d 1000000000 + Z.rem d 1000000000
              /\ - 1000000000 < Z.rem d 1000000000 < 1000000000)
    by (Z.to_euclidean_division_equations; lia).
  destruct Q as [Q R].
  destruct (n + Z.rem d 1000000000 >=? 1000000000) eqn:E1; cbn [fst snd]; [lia|].
  destruct (n + Z.rem d 1000000000 <? 0) eqn:E2; cbn [fst snd]; lia.
Qed.

Lemma inst_ns_inj : forall a b, inst_norm a -> inst_norm b -> inst_ns a = inst_ns b -> a = b.
Proof.
  intros [s n] [s' n'] Ha Hb H. unfold inst_norm, inst_ns in *. cbn [fst snd] in *.
  assert (s = s') by lia. subst s'. f_equal. lia.
Qed.

Lemma add_unit_spec : forall t n u, inst_norm t -> amount_ok n u ->
  inst_norm (add_unit t n u) /\ inst_ns (add_unit t n u) = inst_ns t + n * unit_ns u.
Proof.
  intros t n u Hn Hok. pose proof (amount_ok_range n u Hok) as Hr.
  unfold amount_ok in Hok.
  assert (small : forall U, unit_mult u = U -> unit_ns u = U ->
            inst_norm (time_add t (wrap64 (wrap64 n * U))) /\
            inst_ns (time_add t (wrap64 (wrap64 n * U))) = inst_ns t + n * U).
  { intros U HU _. rewrite HU in Hok. rewrite (wrap64_id n) by lia.
    rewrite wrap64_id by lia. apply time_add_spec. exact Hn. }
  destruct u; cbn [add_unit].
  - apply small; reflexivity.
  - apply small; reflexivity.
  - apply small; reflexivity.
  - apply small; reflexivity.
  - destruct t as [s ns]. unfold add_days, inst_norm, inst_ns in *. cbn [fst snd unit_ns] in *. lia.
  - cbn [unit_mult] in Hok. rewrite wrap64_id by lia.
    destruct t as [s ns]. unfold add_days, inst_norm, inst_ns in *. cbn [fst snd unit_ns] in *. lia.
Qed.

Theorem date_add_sub : forall t n u, inst_norm t -> amount_ok n u ->
  date_sub (date_add t n u) n u = t.
Proof.
  intros t n u Hn Hok. unfold date_sub, date_add.
  pose proof (amount_ok_range n u Hok) as Hr.
  rewrite wrap64_id by lia.
  destruct (add_unit_spec t n u Hn Hok) as [N1 E1].
  destruct (add_unit_spec _ (- n) u N1 (amount_ok_opp _ _ Hok)) as [N2 E2].
  apply inst_ns_inj; try assumption. rewrite E2, E1. lia.
Qed.

(* beyond the guard the Duration multiplication wraps: 3,000,000 hours *)
Theorem date_add_sub_wraps_beyond_guard :
  exists t n u, inst_norm t /\ inst_ns (date_add t n u) <> inst_ns t + n * unit_ns u.
Proof.
  exists (0, 0), 3000000, UHour. split; [unfold inst_norm; cbn; lia|]. vm_compute. discriminate.
Qed.

Lemma unit_ns_pos : forall u, 0 < unit_ns u.
Proof. destruct u; cbn; lia. Qed.

Lemma diff_guard_amount_ok : forall n u, diff_guard n u -> amount_ok n u.
Proof. intros n u [_ H]. exact H. Qed.

Lemma inst_eqb_ns : forall a b, inst_norm a -> inst_norm b ->
  inst_eqb a b = (inst_ns a =? inst_ns b).
Proof.
  intros [s n] [s' n'] Ha Hb. unfold inst_eqb, inst_ns, inst_norm in *. cbn [fst snd] in *.
  destruct (s =? s') eqn:E1; destruct (n =? n') eqn:E2;
  destruct (s * 1000000000 + n =? s' * 1000000000 + n') eqn:E3; cbn; try reflexivity; lia.
Qed.

Lemma inst_after_ns : forall a b, inst_norm a -> inst_norm b ->
  inst_after a b = (inst_ns a >? inst_ns b).
Proof.
  intros [s n] [s' n'] Ha Hb. unfold inst_after, inst_ns, inst_norm in *. cbn [fst snd] in *.
  destruct (s >? s') eqn:E1; destruct (s =? s') eqn:E2; destruct (n >? n') eqn:E3;
  destruct (s * 1000000000 + n >? s' * 1000000000 + n') eqn:E4; cbn; try reflexivity; lia.
Qed.

(* ---- DATE_DIFF: wholeUnits is the exact floor quotient of the nanosecond
   count by the unit *)
Lemma whole_units_exact : forall sec nsec u, 0 <= sec <= 2 ^ 53 -> 0 <= nsec < 1000000000 ->
  whole_units sec nsec (unit_ns u) = (sec * 1000000000 + nsec) / unit_ns u.
Proof.
  intros sec nsec u Hs Hn. rewrite pow53 in Hs.
  assert (big : forall k, 0 < k -> Z.quot sec k = (sec * 1000000000 + nsec) / (k * 1000000000)).
  { intros k Hk. rewrite Z.quot_div_nonneg by lia.
    rewrite (Z.mul_comm k), <- Z.div_div by lia.
    rewrite Z.div_add_l by lia. rewrite (Z.div_small nsec) by lia. f_equal. lia. }
  destruct u; unfold whole_units; cbn [unit_ns].
  - change (1000000 >=? 1000000000) with false. cbv iota.
    change (Z.quot 1000000000 1000000) with 1000.
    rewrite Z.quot_div_nonneg by lia.
    assert (0 <= nsec / 1000000 < 1000) by (split; [apply Z.div_pos; lia | apply Z.div_lt_upper_bound; lia]).
    rewrite (wrap64_id (sec * 1000)) by (rewrite pow63; lia).
    rewrite wrap64_id by (rewrite pow63; lia).
    replace (sec * 1000000000 + nsec) with (sec * 1000 * 1000000 + nsec) by lia.
    rewrite Z.div_add_l by lia. reflexivity.
  - change (1000000000 >=? 1000000000) with true. cbv iota.
    change (Z.quot 1000000000 1000000000) with 1. rewrite (big 1) by lia. reflexivity.
  - change (60000000000 >=? 1000000000) with true. cbv iota.
    change (Z.quot 60000000000 1000000000) with 60. rewrite (big 60) by lia. reflexivity.
  - change (3600000000000 >=? 1000000000) with true. cbv iota.
    change (Z.quot 3600000000000 1000000000) with 3600. rewrite (big 3600) by lia. reflexivity.
  - change (86400000000000 >=? 1000000000) with true. cbv iota.
    change (Z.quot 86400000000000 1000000000) with 86400. rewrite (big 86400) by lia. reflexivity.
  - change (604800000000000 >=? 1000000000) with true. cbv iota.
    change (Z.quot 604800000000000 1000000000) with 604800. rewrite (big 604800) by lia. reflexivity.
Qed.

(* the later instant minus the earlier one, split as diff.go splits it *)
Lemma split_exact : forall a b u, inst_norm a -> inst_norm b ->
  inst_ns a > inst_ns b -> fst a - fst b <= 2 ^ 53 ->
  (let sec := wrap64 (fst a - fst b) in
   let nsec := snd a - snd b in
   if nsec <? 0 then whole_units (wrap64 (sec - 1)) (nsec + 1000000000) (unit_ns u)
   else whole_units sec nsec (unit_ns u)) = (inst_ns a - inst_ns b) / unit_ns u.
Proof.
  intros [s n] [s' n'] u Ha Hb Hgt Hs. unfold inst_norm, inst_ns in *. cbn [fst snd] in *.
  rewrite pow53 in Hs. cbv zeta.
  assert (0 <= s - s') by lia.
  rewrite (wrap64_id (s - s')) by (rewrite pow63; lia).
  destruct (n - n' <? 0) eqn:E.
  - rewrite wrap64_id by (rewrite pow63; lia).
    rewrite whole_units_exact by (rewrite ?pow53; lia). f_equal. lia.
  - rewrite whole_units_exact by (rewrite ?pow53; lia). f_equal. lia.
Qed.

(* DATE_DIFF of ANY two instants (not only a date and what DATE_ADD made of
   it) is the whole number of units in the absolute difference; 2^53 seconds
   are about 285 million years *)
Theorem date_diff_exact : forall a b u, inst_norm a -> inst_norm b ->
  Z.abs (fst a - fst b) <= 2 ^ 53 ->
  date_diff a b u = Z.abs (inst_ns a - inst_ns b) / unit_ns u.
Proof.
  intros a b u Ha Hb Hs. unfold date_diff.
  rewrite inst_eqb_ns, inst_after_ns by assumption.
  destruct (inst_ns a =? inst_ns b) eqn:Eq.
  - replace (inst_ns a - inst_ns b) with 0 by lia. reflexivity.
  - destruct (inst_ns a >? inst_ns b) eqn:Ea.
    + rewrite split_exact by (try assumption; lia). rewrite Z.abs_eq by lia. reflexivity.
    + rewrite split_exact by (try assumption; lia). rewrite Z.abs_neq by lia. f_equal. lia.
Qed.

(* DATE_DIFF(t, DATE_ADD(t, n, u), u) = |n|: the implementation subtracts the
   earlier instant from the later one *)
Theorem date_diff_abs_amount : forall t n u, inst_norm t -> diff_guard n u ->
  date_diff t (date_add t n u) u = Z.abs n.
Proof.
  intros t n u Hn [G1 Hok].
  destruct (add_unit_spec t n u Hn Hok) as [N1 E1]. unfold date_add.
  set (t' := add_unit t n u) in *.
  pose proof (unit_ns_pos u) as Up. rewrite pow32 in G1.
  assert (Hs : Z.abs (fst t - fst t') <= 2 ^ 53).
  { rewrite pow53. destruct t as [s ns], t' as [s' ns']. unfold inst_norm, inst_ns in *.
    cbn [fst snd] in *. destruct u; cbn [unit_ns] in *; lia. }
  rewrite date_diff_exact by assumption.
  replace (inst_ns t - inst_ns t') with (- n * unit_ns u) by lia.
  rewrite Z.abs_mul, Z.abs_opp, (Z.abs_eq (unit_ns u)) by lia.
  apply Z.div_mul. lia.
Qed.

(* so for non-negative amounts DATE_DIFF returns the amount itself *)
Corollary date_diff_amount : forall t n u, inst_norm t -> diff_guard n u -> 0 <= n ->
  date_diff t (date_add t n u) u = n.
Proof.
  intros t n u Hn G Hpos. rewrite date_diff_abs_amount by assumption. apply Z.abs_eq. exact Hpos.
Qed.

(* the whole range of the property, no further guard *)
Lemma in_range_guard : forall n u, - 1000000 <= n <= 1000000 -> diff_guard n u.
Proof.
  intros n u H. unfold diff_guard, amount_ok. rewrite pow32, pow63. split; [lia|].
  destruct u; cbn [unit_mult unit_ns]; lia.
Qed.

Theorem date_diff_amount_in_range : forall t n u, inst_norm t -> 0 <= n <= 1000000 ->
  date_diff t (date_add t n u) u = n.
Proof. intros t n u Hn H. apply date_diff_amount; [assumption| apply in_range_guard; lia | lia]. Qed.

(* a negative amount comes back as its absolute value *)
Theorem date_diff_refuted_sign :
  exists t n u, inst_norm t /\ diff_guard n u /\ date_diff t (date_add t n u) u <> n.
Proof.
  exists (0, 0), (-1), UDay. split; [unfold inst_norm; cbn; lia|].
  split; [apply in_range_guard; lia|]. vm_compute. discriminate.
Qed.

(* beyond 292 years, at the ends of the years 1..9999, with a borrow *)
Lemma date_diff_large_values :
  date_diff (0, 0) (date_add (0, 0) 1000000 UDay) UDay = 1000000
  /\ date_diff (-62135596800, 999999999) (date_add (-62135596800, 999999999) 1000000 UWeek) UWeek = 1000000
  /\ date_diff (5, 999000000) (6, 0) UMs = 1
  /\ date_diff (253402300799, 999999999) (-62135596800, 0) UMs = 315537897599999.
Proof. repeat split; reflexivity. Qed.

(* ------------------------------------------------------------------ calendar *)
(* One 400-year era, day by day: the year-of-era, month and day computed by
   cfd_local are in range, the day exists in that month, and dfc_local maps
   them back to the day number.  146097 evaluations by vm_compute. *)
Definition era_ok (doe : Z) : bool :=
  let '(yoe, m, d) := cfd_local doe in
  (0 <=? yoe) && (yoe <=? 399) && (1 <=? m) && (m <=? 12) && (1 <=? d)
  && (d <=? days_in m (yoe + (if m <=? 2 then 1 else 0)))
  && (dfc_local yoe m d =? doe).

Definition sweep_of (P : Z -> bool) : bool :=
  forallb (fun i => forallb (fun j => let doe := 1000 * i + j in
                                      if doe <? 146097 then P doe else true)
                            (nat_seq_Z 1000 0))
          (nat_seq_Z 147 0).

Lemma era_sweep_true : sweep_of era_ok = true.
Proof. vm_cast_no_check (eq_refl true). Qed.

Lemma In_nat_seq_Z : forall n s z, s <= z < s + Z.of_nat n -> In z (nat_seq_Z n s).
Proof.
  induction n as [|n IH]; intros s z H; [lia|].
  cbn [nat_seq_Z]. destruct (Z.eq_dec s z) as [E|E]; [left; exact E|].
  right. apply IH. lia.
Qed.

(* lifting a two-level sweep over 147 x 1000 to every day of the era *)
Lemma sweep_lift : forall P : Z -> bool, sweep_of P = true ->
  forall doe, 0 <= doe < 146097 -> P doe = true.
Proof.
  intros P S doe H. unfold sweep_of in S.
  rewrite forallb_forall in S.
  assert (Hi : In (doe / 1000) (nat_seq_Z 147 0)).
  { apply In_nat_seq_Z. change (Z.of_nat 147) with 147. Z.to_euclidean_division_equations; lia. }
  specialize (S _ Hi). rewrite forallb_forall in S.
  assert (Hj : In (doe mod 1000) (nat_seq_Z 1000 0)).
  { apply In_nat_seq_Z. change (Z.of_nat 1000) with 1000. Z.to_euclidean_division_equations; lia. }
  specialize (S _ Hj). cbv zeta in S.
  replace (1000 * (doe / 1000) + doe mod 1000) with doe in S
    by (Z.to_euclidean_division_equations; lia).
  destruct (doe <? 146097) eqn:E; [exact S|lia].
Qed.

Lemma era_all : forall doe, 0 <= doe < 146097 -> era_ok doe = true.
Proof. exact (sweep_lift era_ok era_sweep_true). Qed.

Lemma is_leap_era : forall y e, is_leap (y + 400 * e) = is_leap y.
Proof.
  intros y e. unfold is_leap.
  replace ((y + 400 * e) mod 4) with (y mod 4) by (Z.to_euclidean_division_equations; lia).
  replace ((y + 400 * e) mod 100) with (y mod 100) by (Z.to_euclidean_division_equations; lia).
  replace ((y + 400 * e) mod 400) with (y mod 400) by (Z.to_euclidean_division_equations; lia).
  reflexivity.
Qed.

Lemma days_in_era : forall m y e, days_in m (y + 400 * e) = days_in m y.
Proof. intros m y e. unfold days_in. rewrite is_leap_era. reflexivity. Qed.

(* every day number, in every era: the civil date exists and maps back *)
Theorem civil_roundtrip : forall z,
  let '(y, m, d) := civil_from_days z in
  days_from_civil y m d = z /\ 1 <= m <= 12 /\ 1 <= d <= days_in m y.
Proof.
  intros z. unfold civil_from_days.
  set (z' := z + 719468). set (era := z' / 146097). set (doe := z' mod 146097).
  assert (Hdoe : 0 <= doe < 146097) by (unfold doe; apply Z.mod_pos_bound; lia).
  assert (Hz : z' = era * 146097 + doe)
    by (unfold era, doe; Z.to_euclidean_division_equations; lia).
  pose proof (era_all doe Hdoe) as OK. unfold era_ok in OK.
  destruct (cfd_local doe) as [[yoe m] d].
  set (c := if m <=? 2 then 1 else 0) in *.
  assert (F : 0 <= yoe <= 399 /\ 1 <= m <= 12 /\ 1 <= d /\ d <= days_in m (yoe + c)
              /\ dfc_local yoe m d = doe) by lia.
  destruct F as (F1 & F2 & F3 & F4 & F5).
  split; [|split; [exact F2|]].
  - unfold days_from_civil. fold c.
    replace (yoe + era * 400 + c - c) with (yoe + era * 400) by lia.
    replace ((yoe + era * 400) / 400) with era by (Z.to_euclidean_division_equations; lia).
    replace ((yoe + era * 400) mod 400) with yoe by (Z.to_euclidean_division_equations; lia).
    rewrite F5. unfold z' in Hz. lia.
  - replace (yoe + era * 400 + c) with ((yoe + c) + 400 * era) by lia.
    rewrite days_in_era. lia.
Qed.

(* ------------------------------------------------------------------ RFC 3339 *)
Lemma digit_dig : forall n, digit (dig n) = Some (n mod 10).
Proof.
  intros n. unfold digit, dig.
  assert (R : 0 <= n mod 10 < 10) by (apply Z.mod_pos_bound; lia).
  set (r := n mod 10) in *. clearbody r.
  destruct ((48 <=? Z.to_N (48 + r))%N && (Z.to_N (48 + r) <=? 57)%N) eqn:E.
  - f_equal. rewrite Z2N.id by lia. lia.
  - apply andb_false_iff in E. destruct E as [E|E]; apply N.leb_gt in E; lia.
Qed.

Lemma num2_digits2 : forall n, 0 <= n < 100 ->
  num2 (dig (n / 10)) (dig n) = Some n.
Proof.
  intros n H. unfold num2. rewrite !digit_dig. f_equal.
  Z.to_euclidean_division_equations; lia.
Qed.

Lemma num4_digits4 : forall n, 0 <= n < 10000 ->
  num4 (dig (n / 1000)) (dig (n / 100)) (dig (n / 10)) (dig n) = Some n.
Proof.
  intros n H. unfold num4, num2. rewrite !digit_dig. f_equal.
  Z.to_euclidean_division_equations; lia.
Qed.

Lemma in_range_some : forall lo hi x, lo <= x <= hi -> in_range lo hi (Some x) = Some x.
Proof. intros lo hi x H. unfold in_range. destruct ((lo <=? x) && (x <=? hi)) eqn:E; [reflexivity|lia]. Qed.

(* a text that does not start with a digit ends the fraction *)
Definition no_digit_head (s : bytes) : Prop :=
  match s with [] => True | c :: _ => digit c = None end.

Lemma parse_frac_stop : forall k s acc, no_digit_head s -> parse_frac k s acc = (acc, s).
Proof.
  intros k s acc H. destruct s as [|c r]; [destruct k; reflexivity|].
  cbn in H. destruct k; cbn [parse_frac]; rewrite H; reflexivity.
Qed.

Lemma parse_frac_digits : forall k v rest acc,
  0 < v < 10 ^ Z.of_nat k -> no_digit_head rest ->
  parse_frac k (frac_digits k v ++ rest) acc = (acc + v, rest).
Proof.
  induction k as [|k IH]; intros v rest acc Hv Hrest.
  - cbn in Hv. lia.
  - cbn [frac_digits]. set (p := 10 ^ Z.of_nat k).
    assert (Hp : 0 < p) by (apply Z.pow_pos_nonneg; lia).
    assert (Hv' : v < 10 * p).
    { unfold p. rewrite <- Z.pow_succ_r by lia. rewrite <- Nat2Z.inj_succ. apply Hv. }
    assert (Hd : 0 <= v / p < 10).
    { split; [apply Z.div_pos; lia|apply Z.div_lt_upper_bound; lia]. }
    pose proof (Z.div_mod v p ltac:(lia)) as DM.
    pose proof (Z.mod_pos_bound v p Hp) as MB.
    cbn [app parse_frac]. rewrite digit_dig. rewrite (Z.mod_small (v / p) 10) by lia.
    fold p.
    destruct (v mod p =? 0) eqn:E.
    + cbn [app]. rewrite parse_frac_stop by exact Hrest. f_equal. nia.
    + rewrite IH by (try exact Hrest; fold p; lia). f_equal. nia.
Qed.

Lemma parse_zone_print : forall off, -1440 < off < 1440 -> parse_zone (print_zone off) = Some off.
Proof.
  intros off H. unfold print_zone.
  destruct (off =? 0) eqn:E0; [apply Z.eqb_eq in E0; subst off; reflexivity|].
  assert (Ha : 0 < Z.abs off < 1440) by lia.
  assert (H1 : 0 <= Z.abs off / 60 <= 23) by (Z.to_euclidean_division_equations; lia).
  assert (H2 : 0 <= Z.abs off mod 60 <= 59) by (Z.to_euclidean_division_equations; lia).
  unfold digits2. cbn [app parse_zone].
  destruct (off <? 0) eqn:En.
  - rewrite !num2_digits2 by lia. rewrite !in_range_some by lia.
    cbn. f_equal. Z.to_euclidean_division_equations; lia.
  - rewrite !num2_digits2 by lia. rewrite !in_range_some by lia.
    cbn. f_equal. Z.to_euclidean_division_equations; lia.
Qed.

Lemma print_zone_no_digit : forall off, no_digit_head (print_zone off).
Proof.
  intros off. unfold print_zone.
  destruct (off =? 0); [reflexivity|]. destruct (off <? 0); reflexivity.
Qed.

Lemma print_zone_head : forall off, exists c r, print_zone off = c :: r /\ (c =? 46)%N = false.
Proof.
  intros off. unfold print_zone.
  destruct (off =? 0); [eexists; eexists; split; reflexivity|].
  destruct (off <? 0); eexists; eexists; split; reflexivity.
Qed.

Lemma frac_digits_S : forall k v, frac_digits (S k) v =
  dig (v / 10 ^ Z.of_nat k) :: (if v mod 10 ^ Z.of_nat k =? 0 then [] else frac_digits k (v mod 10 ^ Z.of_nat k)).
Proof. reflexivity. Qed.

(* the optional fraction, as rfc3339_parse reads it *)
Definition frac_section (rest : bytes) : Z * bytes :=
  match rest with
  | p :: c :: r => if (p =? 46)%N && (match digit c with Some _ => true | None => false end)
                   then parse_frac 9 (c :: r) 0 else (0, rest)
  | _ => (0, rest)
  end.

Lemma frac_section_print : forall ns off, 0 <= ns < 1000000000 ->
  frac_section (print_frac ns ++ print_zone off) = (ns, print_zone off).
Proof.
  intros ns off H. unfold print_frac. destruct (ns =? 0) eqn:E.
  - apply Z.eqb_eq in E. subst ns. cbn [app].
    destruct (print_zone_head off) as (c & r & Hz & Hc). rewrite Hz. unfold frac_section.
    destruct r as [|c2 r]; [reflexivity|]. rewrite Hc. reflexivity.
  - assert (Hns : 0 < ns < 10 ^ Z.of_nat 9) by (change (10 ^ Z.of_nat 9) with 1000000000; lia).
    pose proof (parse_frac_digits 9 ns (print_zone off) 0 Hns (print_zone_no_digit off)) as PF.
    destruct (frac_digits 9 ns) as [|c tl] eqn:FD.
    + change 9%nat with (S 8) in FD. rewrite frac_digits_S in FD. discriminate.
    + assert (Hc : exists x, digit c = Some x).
      { change 9%nat with (S 8) in FD. rewrite frac_digits_S in FD. inversion FD.
        eexists. apply digit_dig. }
      destruct Hc as [x Hx].
      cbn [app] in *. unfold frac_section. rewrite N.eqb_refl, Hx. cbn [andb].
      rewrite PF. reflexivity.
Qed.

Lemma days_in_le_31 : forall m y, days_in m y <= 31.
Proof.
  intros m y. unfold days_in.
  destruct (m =? 2); [destruct (is_leap y); lia|].
  destruct ((m =? 4) || (m =? 6) || (m =? 9) || (m =? 11)); lia.
Qed.

Lemma rfc3339_parse_frac_section : forall y0 y1 y2 y3 c1 m0 m1 c2 d0 d1 ct h0 h1 c3 i0 i1 c4 s0 s1 rest,
  rfc3339_parse (y0 :: y1 :: y2 :: y3 :: c1 :: m0 :: m1 :: c2 :: d0 :: d1 :: ct
                 :: h0 :: h1 :: c3 :: i0 :: i1 :: c4 :: s0 :: s1 :: rest) =
  match in_range 0 9999 (num4 y0 y1 y2 y3), in_range 1 12 (num2 m0 m1) with
  | Some y, Some m =>
      match in_range 1 (days_in m y) (num2 d0 d1), in_range 0 23 (num2 h0 h1),
            in_range 0 59 (num2 i0 i1), in_range 0 59 (num2 s0 s1) with
      | Some d, Some hh, Some mi, Some ss =>
          if ((c1 =? 45) && (c2 =? 45) && (ct =? 84) && (c3 =? 58) && (c4 =? 58))%N then
            let '(ns, rest') := frac_section rest in
            match parse_zone rest' with
            | Some off =>
                Some ((days_from_civil y m d * 86400 + hh * 3600 + mi * 60 + ss - off * 60, ns), off)
            | None => None
            end
          else None
      | _, _, _, _ => None
      end
  | _, _ => None
  end.
Proof. reflexivity. Qed.

Lemma parse_assembled : forall y m d hh mi ss ns off,
  0 <= y <= 9999 -> 1 <= m <= 12 -> 1 <= d <= days_in m y ->
  0 <= hh <= 23 -> 0 <= mi <= 59 -> 0 <= ss <= 59 ->
  0 <= ns < 1000000000 -> -1440 < off < 1440 ->
  rfc3339_parse (digits4 y ++ [45%N] ++ digits2 m ++ [45%N] ++ digits2 d ++ [84%N]
                 ++ digits2 hh ++ [58%N] ++ digits2 mi ++ [58%N]
                 ++ digits2 ss ++ print_frac ns ++ print_zone off)
  = Some ((days_from_civil y m d * 86400 + hh * 3600 + mi * 60 + ss - off * 60, ns), off).
Proof.
  intros y m d hh mi ss ns off Hy Hm Hd Hh Hi Hs Hns Hoff.
  pose proof (days_in_le_31 m y) as D31.
  unfold digits4, digits2. cbn [app]. rewrite rfc3339_parse_frac_section.
  rewrite num4_digits4 by lia. rewrite !num2_digits2 by lia.
  rewrite !in_range_some by lia.
  rewrite !N.eqb_refl. cbn [andb].
  rewrite frac_section_print by lia.
  rewrite parse_zone_print by lia. reflexivity.
Qed.

(* DATE(render(t)) = t: an RFC 3339 rendering of an instant whose year (as
   shown in the zone of the rendering) is 1..9999 parses back to the instant
   and to the zone offset *)
Theorem rfc3339_roundtrip : forall t off, rfc3339_guard t off = true ->
  exists s, rfc3339_print t off = Some s /\ rfc3339_parse s = Some (t, off).
Proof.
  intros [sec ns] off G. unfold rfc3339_guard, rfc3339_print in *. cbn [fst snd] in *.
  set (loc := sec + off * 60) in *.
  set (days := loc / 86400) in *. set (sod := loc mod 86400).
  pose proof (civil_roundtrip days) as C.
  destruct (civil_from_days days) as [[y m] d].
  destruct C as (C1 & C2 & C3).
  unfold inst_normb in G. cbn [snd] in G.
  assert (Gy : 1 <= y <= 9999) by lia.
  assert (Goff : -1440 < off < 1440) by lia.
  assert (Gns : 0 <= ns < 1000000000) by lia.
  destruct ((0 <=? y) && (y <=? 9999)) eqn:E; [|lia].
  eexists. split; [reflexivity|].
  assert (Hsod : 0 <= sod < 86400) by (unfold sod; apply Z.mod_pos_bound; lia).
  rewrite parse_assembled;
    try lia; try (Z.to_euclidean_division_equations; lia).
  rewrite C1.
  assert (Hloc : loc = days * 86400 + sod) by (unfold days, sod; Z.to_euclidean_division_equations; lia).
  assert (Hl : loc = sec + off * 60) by reflexivity.
  clearbody sod days loc.
  assert (X : days * 86400 + sod / 3600 * 3600 + sod mod 3600 / 60 * 60 + sod mod 60 - off * 60 = sec)
    by (Z.to_euclidean_division_equations; lia).
  rewrite X. reflexivity.
Qed.

Lemma rfc3339_examples :
  rfc3339_print (951827696, 120000000) (-120) = Some (bs "2000-02-29T10:34:56.12-02:00")
  /\ rfc3339_print (-62135596800, 0) 0 = Some (bs "0001-01-01T00:00:00Z")
  /\ rfc3339_print (253402300799, 999999999) 0 = Some (bs "9999-12-31T23:59:59.999999999Z")
  /\ rfc3339_parse (bs "2000-02-30T00:00:00Z") = None
  /\ rfc3339_print (253402300800, 0) 0 = None.
Proof. repeat split; vm_compute; reflexivity. Qed.
