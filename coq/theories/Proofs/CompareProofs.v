(* Proofs/CompareProofs.v — the model's comparison is a total preorder. *)
From Ferret Require Import Value Compare Proofs.ValueInd.
From Coq Require Import Lia Permutation.

(* ---------- Z comparison helpers *)
Lemma zcmp_range a b : zcmp a b = -1 \/ zcmp a b = 0 \/ zcmp a b = 1.
Proof. unfold zcmp; destruct (Z.compare a b); cbn; auto. Qed.
Lemma zcmp_eq a b : zcmp a b = 0 <-> a = b.
Proof. unfold zcmp; destruct (Z.compare_spec a b); cbn; split; intros; try lia; try discriminate. Qed.
Lemma zcmp_lt a b : zcmp a b = -1 <-> a < b.
Proof. unfold zcmp; destruct (Z.compare_spec a b); cbn; split; intros; try lia; try discriminate. Qed.
Lemma zcmp_eq_1 a b : zcmp a b = 0 -> a = b.
Proof. apply zcmp_eq. Qed.
Lemma zcmp_lt_1 a b : zcmp a b = -1 -> a < b.
Proof. apply zcmp_lt. Qed.
Lemma zcmp_gt a b : zcmp a b = 1 <-> b < a.
Proof. unfold zcmp; destruct (Z.compare_spec a b); cbn; split; intros; try lia; try discriminate. Qed.
Lemma zcmp_antisym a b : zcmp b a = - zcmp a b.
Proof. unfold zcmp; rewrite (Z.compare_antisym a b); destruct (Z.compare a b); reflexivity. Qed.
Lemma zcmp_refl a : zcmp a a = 0.
Proof. apply zcmp_eq; reflexivity. Qed.

Lemma cmp_to_Z_opp c : cmp_to_Z (CompOpp c) = - cmp_to_Z c.
Proof. destruct c; reflexivity. Qed.

(* ---------- lexcmp on byte strings *)
Lemma lexcmp_refl a : lexcmp a a = Eq.
Proof. induction a as [|x a IH]; cbn; [reflexivity|]. rewrite N.compare_refl; exact IH. Qed.
Lemma lexcmp_eq a : forall b, lexcmp a b = Eq -> a = b.
Proof.
  induction a as [|x a IH]; intros [|y b] H; cbn in H; try discriminate; [reflexivity|].
  destruct (N.compare_spec x y) as [E|E|E]; try discriminate. subst. f_equal; auto.
Qed.
Lemma lexcmp_antisym a : forall b, lexcmp b a = CompOpp (lexcmp a b).
Proof.
  induction a as [|x a IH]; intros [|y b]; cbn; try reflexivity.
  rewrite (N.compare_antisym x y). destruct (N.compare x y); cbn; auto.
Qed.
Lemma lexcmp_trans_lt a : forall b c, lexcmp a b = Lt -> lexcmp b c = Lt -> lexcmp a c = Lt.
Proof.
  induction a as [|x a IH]; intros [|y b] [|z c] H1 H2; cbn in *; try discriminate; try reflexivity.
  destruct (N.compare_spec x y) as [E1|E1|E1]; try discriminate;
  destruct (N.compare_spec y z) as [E2|E2|E2]; try discriminate; subst.
  - rewrite N.compare_refl. eauto.
  - destruct (N.compare_spec y z); try lia; reflexivity.
  - destruct (N.compare_spec x z); try lia; reflexivity.
  - destruct (N.compare_spec x z); try lia; reflexivity.
Qed.
Lemma lexcmp_trans_gt a b c : lexcmp a b = Gt -> lexcmp b c = Gt -> lexcmp a c = Gt.
Proof.
  intros H1 H2. rewrite (lexcmp_antisym c a).
  rewrite (lexcmp_trans_lt c b a); [reflexivity| |].
  - rewrite (lexcmp_antisym b c), H2; reflexivity.
  - rewrite (lexcmp_antisym a b), H1; reflexivity.
Qed.

(* ---------- named versions of the two inner walks of [cmp] *)
Fixpoint cmp_list (l l' : list value) : Z :=
  match l, l' with
  | x :: xs, y :: ys => let c := cmp x y in if c =? 0 then cmp_list xs ys else c
  | _, _ => 0
  end.
Fixpoint cmp_members (m m' : list (bytes * value)) : Z :=
  match m, m' with
  | (k, x) :: xs, (k', y) :: ys =>
      match lexcmp k k' with
      | Eq => let c := cmp x y in if c =? 0 then cmp_members xs ys else c
      | Lt => 1
      | Gt => -1
      end
  | _, _ => 0
  end.
Definition len_then (n n' : nat) (k : Z) : Z :=
  match Nat.compare n n' with Lt => -1 | Gt => 1 | Eq => k end.

Lemma cmp_arr l l' : cmp (VArr l) (VArr l') = len_then (length l) (length l') (cmp_list l l').
Proof.
  unfold len_then; cbn [cmp]. destruct (Nat.compare (length l) (length l')); try reflexivity.
Qed.
Lemma cmp_obj m m' : cmp (VObj m) (VObj m') = len_then (length m) (length m') (cmp_members m m').
Proof.
  unfold len_then; cbn [cmp]. destruct (Nat.compare (length m) (length m')); try reflexivity.
Qed.

(* ---------- comparison classes: int and float share one class *)
Definition cls (v : value) : Z :=
  match v with
  | VNone => 0 | VBool _ => 1 | VInt _ => 2 | VFloat _ => 2 | VStr _ => 4
  | VDate _ _ _ => 5 | VArr _ => 6 | VObj _ => 7 | VBin _ => 8
  end.

Lemma cmp_cls_ne a b : cls a <> cls b -> cmp a b = zcmp (cls a) (cls b).
Proof.
  destruct a, b; intro H; try (exfalso; apply H; reflexivity); reflexivity.
Qed.

(* numeric key: within the ±2^53 guard every numeric comparison is the
   comparison of these integers *)
Definition nkey (v : value) : Z :=
  match v with
  | VInt z => Z.shiftl z 1074
  | VFloat f => fscaled f
  | _ => 0
  end.
Definition int_ok (v : value) : Prop :=
  match v with VInt z => Z.abs z <= 2 ^ 53 | _ => True end.

Lemma round53_id z : Z.abs z <= 2 ^ 53 -> round53 z = z.
Proof. intro H; unfold round53. destruct (Z.leb_spec (Z.abs z) (2 ^ 53)); [reflexivity|lia]. Qed.

Lemma shiftl_cmp x y : Z.compare (Z.shiftl x 1074) (Z.shiftl y 1074) = Z.compare x y.
Proof.
  rewrite !Z.shiftl_mul_pow2 by lia.
  assert (0 < 2 ^ 1074) by (apply Z.pow_pos_nonneg; lia).
  destruct (Z.compare_spec x y) as [E|E|E].
  - subst; apply Z.compare_refl.
  - apply Z.compare_lt_iff; nia.
  - apply Z.compare_gt_iff; nia.
Qed.

Lemma cmp_numeric a b : cls a = 2 -> cls b = 2 -> int_ok a -> int_ok b ->
  cmp a b = zcmp (nkey a) (nkey b).
Proof.
  destruct a, b; cbn [cls]; intros Ha Hb Ia Ib; try discriminate; cbn [cmp nkey int_ok] in *;
    unfold int_as_float_key; rewrite ?round53_id by assumption; try reflexivity.
  unfold zcmp; rewrite shiftl_cmp; reflexivity.
Qed.

(* ---------- range *)
Lemma len_then_range n n' k : (k = -1 \/ k = 0 \/ k = 1) ->
  len_then n n' k = -1 \/ len_then n n' k = 0 \/ len_then n n' k = 1.
Proof. unfold len_then; destruct (Nat.compare n n'); auto. Qed.

Lemma cmp_range : forall a b, cmp a b = -1 \/ cmp a b = 0 \/ cmp a b = 1.
Proof.
  induction a as [|ba|za|fa|sa|sa na oa|l IH|m IH|ba] using value_ind'; intros b;
    destruct b as [|bb|zb|fb|sb|sb nb ob|l'|m'|bb];
    try (cbn [cmp rank_cmp type_rank]; first [apply zcmp_range | auto]; fail).
  - cbn. destruct (Bool.eqb ba bb); auto. destruct (negb ba && bb); auto.
  - cbn. destruct (lexcmp sa sb); cbn; auto.
  - cbn. unfold date_cmp. destruct (sa ?= sb); cbn; auto using zcmp_range.
  - rewrite cmp_arr. apply len_then_range.
    revert l'; induction IH as [|x xs Hx _ IHxs]; intros [|y ys]; cbn; auto.
    destruct (Z.eqb_spec (cmp x y) 0); auto.
  - rewrite cmp_obj. apply len_then_range.
    revert m'; induction IH as [|[k x] xs Hx _ IHxs]; intros [|[k' y] ys]; cbn; auto.
    destruct (lexcmp k k'); auto. cbn in Hx. destruct (Z.eqb_spec (cmp x y) 0); auto.
  - cbn. destruct (Nat.compare (length ba) (length bb)); cbn; auto.
Qed.

(* ---------- antisymmetry (no guard needed) *)
Lemma len_then_antisym n n' k k' : k' = - k -> len_then n' n k' = - len_then n n' k.
Proof.
  intro H; unfold len_then. rewrite (Nat.compare_antisym n n').
  destruct (Nat.compare n n'); cbn; auto.
Qed.

Lemma cmp_antisym : forall a b, cmp b a = - cmp a b.
Proof.
  induction a as [|ba|za|fa|sa|sa na oa|l IH|m IH|ba] using value_ind'; intros b;
    destruct b as [|bb|zb|fb|sb|sb nb ob|l'|m'|bb];
    try (cbn [cmp rank_cmp type_rank]; first [apply zcmp_antisym | reflexivity]; fail).
  - cbn. destruct ba, bb; reflexivity.
  - cbn. rewrite (lexcmp_antisym sa sb). apply cmp_to_Z_opp.
  - cbn. unfold date_cmp. rewrite (Z.compare_antisym sa sb).
    destruct (sa ?= sb); cbn; auto using zcmp_antisym.
  - rewrite !cmp_arr. apply len_then_antisym.
    revert l'; induction IH as [|x xs Hx _ IHxs]; intros [|y ys]; cbn; auto.
    rewrite (Hx y). destruct (Z.eqb_spec (cmp x y) 0) as [E|E].
    + rewrite E; cbn. apply IHxs.
    + destruct (Z.eqb_spec (- cmp x y) 0); [lia|reflexivity].
  - rewrite !cmp_obj. apply len_then_antisym.
    revert m'; induction IH as [|[k x] xs Hx _ IHxs]; intros [|[k' y] ys]; cbn; auto.
    rewrite (lexcmp_antisym k k'). destruct (lexcmp k k'); cbn; auto.
    cbn in Hx. rewrite (Hx y). destruct (Z.eqb_spec (cmp x y) 0) as [E|E].
    + rewrite E; cbn. apply IHxs.
    + destruct (Z.eqb_spec (- cmp x y) 0); [lia|reflexivity].
  - cbn. rewrite (Nat.compare_antisym (length ba) (length bb)).
    destruct (Nat.compare (length ba) (length bb)); reflexivity.
Qed.

Lemma cmp_refl a : cmp a a = 0.
Proof. pose proof (cmp_antisym a a); lia. Qed.

(* ---------- transitivity, under the ±2^53 guard of the property *)
Definition G (v : value) : Prop := ints_within_2p53 v = true.

Lemma G_int_ok v : G v -> int_ok v.
Proof. destruct v; cbn; auto. unfold G; cbn. intro H; apply Z.leb_le in H; exact H. Qed.

Lemma G_arr l : G (VArr l) -> Forall G l.
Proof. unfold G; cbn; intro H. apply Forall_forall; intros x Hx.
       rewrite forallb_forall in H; auto. Qed.
Lemma G_obj m : G (VObj m) -> Forall (fun kv => G (snd kv)) m.
Proof. unfold G; cbn; intro H. apply Forall_forall; intros x Hx.
       rewrite forallb_forall in H; auto. Qed.

(* E: values that compare equal are interchangeable on the left *)
Definition EQC (a : value) : Prop :=
  forall b c, G a -> G b -> G c -> cmp a b = 0 -> cmp b c = cmp a c.
Definition LTT (a : value) : Prop :=
  forall b c, G a -> G b -> G c -> cmp a b = -1 -> cmp b c = -1 -> cmp a c = -1.

Lemma eqc_diff a b c : cls a <> cls b \/ cls b <> cls c -> cmp a b = 0 -> cmp b c = cmp a c.
Proof.
  intros H E0.
  destruct (Z.eq_dec (cls a) (cls b)) as [E|E].
  - destruct H as [H|H]; [lia|].
    rewrite (cmp_cls_ne b c H), cmp_cls_ne by lia. rewrite E; reflexivity.
  - rewrite (cmp_cls_ne a b E) in E0. apply zcmp_eq_1 in E0; lia.
Qed.

Lemma ltt_diff a b c : cls a <> cls b \/ cls b <> cls c ->
  cmp a b = -1 -> cmp b c = -1 -> cmp a c = -1.
Proof.
  intros H L1 L2.
  destruct (Z.eq_dec (cls a) (cls b)) as [E|E].
  - destruct H as [H|H]; [lia|].
    rewrite (cmp_cls_ne b c H) in L2. apply zcmp_lt_1 in L2.
    rewrite cmp_cls_ne by lia. apply zcmp_lt; lia.
  - rewrite (cmp_cls_ne a b E) in L1. apply zcmp_lt_1 in L1.
    destruct (Z.eq_dec (cls b) (cls c)) as [E'|E'].
    + rewrite cmp_cls_ne by lia. apply zcmp_lt; lia.
    + rewrite (cmp_cls_ne b c E') in L2. apply zcmp_lt_1 in L2.
      rewrite cmp_cls_ne by lia. apply zcmp_lt; lia.
Qed.

Lemma len_then_0 n n' k : len_then n n' k = 0 -> n = n' /\ k = 0.
Proof. unfold len_then; destruct (Nat.compare_spec n n'); intros; try discriminate; auto. Qed.


Lemma cmp_eq_cong : forall a, EQC a.
Proof.
  induction a as [|ba|za|fa|sa|sa na oa|l IH|m IH|ba] using value_ind'; intros b c Ga Gb Gc E0.
  all: match goal with |- cmp ?B ?C = cmp ?A ?C =>
         destruct (Z.eq_dec (cls A) (cls B)) as [Eab|Eab];
           [|apply eqc_diff; [left; exact Eab|exact E0]];
         destruct (Z.eq_dec (cls B) (cls C)) as [Ebc|Ebc];
           [|apply eqc_diff; [right; exact Ebc|exact E0]] end.
  - destruct b, c; try discriminate. reflexivity.
  - destruct b as [|bb| | | | | | |], c as [|bc| | | | | | |]; try discriminate.
    cbn in *. destruct ba, bb, bc; cbn in *; try reflexivity; try discriminate.
  - apply G_int_ok in Ga as Ia, Gb as Ib, Gc as Ic. cbn [cls] in Eab, Ebc.
    assert (Cb : cls b = 2) by lia. assert (Cc : cls c = 2) by lia.
    rewrite (cmp_numeric (VInt za) b) in E0 by auto.
    rewrite (cmp_numeric b c), (cmp_numeric (VInt za) c) by auto.
    apply zcmp_eq_1 in E0. rewrite E0; reflexivity.
  - apply G_int_ok in Ga as Ia, Gb as Ib, Gc as Ic. cbn [cls] in Eab, Ebc.
    assert (Cb : cls b = 2) by lia. assert (Cc : cls c = 2) by lia.
    rewrite (cmp_numeric (VFloat fa) b) in E0 by auto.
    rewrite (cmp_numeric b c), (cmp_numeric (VFloat fa) c) by auto.
    apply zcmp_eq_1 in E0. rewrite E0; reflexivity.
  - destruct b as [| | | |sb| | | |], c as [| | | |sc| | | |]; try discriminate.
    cbn [cmp] in *. destruct (lexcmp sa sb) eqn:E; cbn in E0; try discriminate.
    apply lexcmp_eq in E; subst; reflexivity.
  - destruct b as [| | | | |sb nb ob| | |], c as [| | | | |sc nc oc| | |]; try discriminate.
    cbn [cmp] in *; unfold date_cmp in *.
    destruct (Z.compare_spec sa sb); cbn in E0; try discriminate. subst.
    apply zcmp_eq_1 in E0; subst; reflexivity.
  - destruct b as [| | | | | |lb| |], c as [| | | | | |lc| |]; try discriminate.
    rewrite cmp_arr in E0. rewrite !cmp_arr. apply len_then_0 in E0 as [EL E0]. rewrite EL.
    f_equal. apply G_arr in Ga, Gb, Gc. clear Eab Ebc.
    revert lb lc Ga Gb Gc E0 EL. induction IH as [|x xs Hx _ IHxs]; intros lb lc Ga Gb Gc E0 EL.
    + destruct lb; cbn in *; [reflexivity|discriminate].
    + destruct lb as [|y ys]; [discriminate|]. cbn in EL.
      inversion Ga as [|? ? Gx Gxs]; inversion Gb as [|? ? Gy Gys]; subst.
      cbn [cmp_list] in E0. destruct (Z.eqb_spec (cmp x y) 0) as [E1|E1]; [|contradiction].
      destruct lc as [|z zs]; [reflexivity|]. inversion Gc as [|? ? Gz Gzs]; subst.
      cbn [cmp_list]. rewrite (Hx y z Gx Gy Gz E1).
      destruct (cmp x z =? 0); [|reflexivity]. apply IHxs; auto.
  - destruct b as [| | | | | | |mb|], c as [| | | | | | |mc|]; try discriminate.
    rewrite cmp_obj in E0. rewrite !cmp_obj. apply len_then_0 in E0 as [EL E0]. rewrite EL.
    f_equal. apply G_obj in Ga, Gb, Gc. clear Eab Ebc.
    revert mb mc Ga Gb Gc E0 EL. induction IH as [|[k x] xs Hx _ IHxs]; intros mb mc Ga Gb Gc E0 EL.
    + destruct mb; cbn in *; [reflexivity|discriminate].
    + destruct mb as [|[k' y] ys]; [discriminate|]. cbn in EL.
      inversion Ga as [|? ? Gx Gxs]; inversion Gb as [|? ? Gy Gys]; subst. cbn in Gx, Gy, Hx.
      cbn [cmp_members] in E0. destruct (lexcmp k k') eqn:EK; try discriminate.
      apply lexcmp_eq in EK; subst k'.
      destruct (Z.eqb_spec (cmp x y) 0) as [E1|E1]; [|contradiction].
      destruct mc as [|[k'' z] zs]; [reflexivity|]. inversion Gc as [|? ? Gz Gzs]; subst. cbn in Gz.
      cbn [cmp_members]. destruct (lexcmp k k''); try reflexivity.
      rewrite (Hx y z Gx Gy Gz E1).
      destruct (cmp x z =? 0); [|reflexivity]. apply IHxs; auto.
  - destruct b as [| | | | | | | |bb], c as [| | | | | | | |bc]; try discriminate.
    cbn [cmp] in *. destruct (Nat.compare_spec (length ba) (length bb)) as [E|E|E]; cbn in E0; try discriminate.
    rewrite E; reflexivity.
Qed.

(* the mirror image: equal on the right *)
Lemma cmp_eq_cong_r a b c : G a -> G b -> G c -> cmp b c = 0 -> cmp a b = cmp a c.
Proof.
  intros Ga Gb Gc E.
  assert (E' : cmp c b = 0) by (rewrite (cmp_antisym b c), E; reflexivity).
  pose proof (cmp_eq_cong c b a Gc Gb Ga E') as H.
  rewrite (cmp_antisym a b), (cmp_antisym a c) in H. lia.
Qed.

Lemma len_then_m1 n n' k : len_then n n' k = -1 -> (n < n')%nat \/ (n = n' /\ k = -1).
Proof. unfold len_then; destruct (Nat.compare_spec n n'); intros; try discriminate; auto. Qed.
Lemma len_then_lt n n' k : (n < n')%nat -> len_then n n' k = -1.
Proof. unfold len_then; intro H. destruct (Nat.compare_spec n n'); try lia; reflexivity. Qed.
Lemma len_then_same n k : len_then n n k = k.
Proof. unfold len_then. rewrite Nat.compare_refl; reflexivity. Qed.

Lemma cmp_lt_trans : forall a, LTT a.
Proof.
  induction a as [|ba|za|fa|sa|sa na oa|l IH|m IH|ba] using value_ind'; intros b c Ga Gb Gc L1 L2.
  all: match goal with |- cmp ?A ?C = -1 => match type of L1 with cmp _ ?B = _ =>
         destruct (Z.eq_dec (cls A) (cls B)) as [Eab|Eab];
           [|apply (ltt_diff A B C); [left; exact Eab|exact L1|exact L2]];
         destruct (Z.eq_dec (cls B) (cls C)) as [Ebc|Ebc];
           [|apply (ltt_diff A B C); [right; exact Ebc|exact L1|exact L2]] end end.
  - destruct b, c; try discriminate.
  - destruct b as [|bb| | | | | | |], c as [|bc| | | | | | |]; try discriminate.
    cbn in *. destruct ba, bb, bc; cbn in *; try reflexivity; try discriminate.
  - apply G_int_ok in Ga as Ia, Gb as Ib, Gc as Ic. cbn [cls] in Eab, Ebc.
    assert (Cb : cls b = 2) by lia. assert (Cc : cls c = 2) by lia.
    rewrite (cmp_numeric (VInt za) b) in L1 by auto. rewrite (cmp_numeric b c) in L2 by auto.
    rewrite (cmp_numeric (VInt za) c) by auto.
    apply zcmp_lt_1 in L1, L2. apply zcmp_lt; lia.
  - apply G_int_ok in Ga as Ia, Gb as Ib, Gc as Ic. cbn [cls] in Eab, Ebc.
    assert (Cb : cls b = 2) by lia. assert (Cc : cls c = 2) by lia.
    rewrite (cmp_numeric (VFloat fa) b) in L1 by auto. rewrite (cmp_numeric b c) in L2 by auto.
    rewrite (cmp_numeric (VFloat fa) c) by auto.
    apply zcmp_lt_1 in L1, L2. apply zcmp_lt; lia.
  - destruct b as [| | | |sb| | | |], c as [| | | |sc| | | |]; try discriminate.
    cbn [cmp] in *. destruct (lexcmp sa sb) eqn:E1; cbn in L1; try discriminate.
    destruct (lexcmp sb sc) eqn:E2; cbn in L2; try discriminate.
    rewrite (lexcmp_trans_lt sa sb sc E1 E2); reflexivity.
  - destruct b as [| | | | |sb nb ob| | |], c as [| | | | |sc nc oc| | |]; try discriminate.
    cbn [cmp] in *; unfold date_cmp in *.
    destruct (Z.compare_spec sa sb); cbn in L1; try discriminate;
    destruct (Z.compare_spec sb sc); cbn in L2; try discriminate;
    destruct (Z.compare_spec sa sc); cbn; try lia; try reflexivity; subst.
    apply zcmp_lt_1 in L1, L2. apply zcmp_lt; lia.
  - destruct b as [| | | | | |lb| |], c as [| | | | | |lc| |]; try discriminate.
    rewrite cmp_arr in *.
    apply len_then_m1 in L1 as [L1|[EL1 L1]]; apply len_then_m1 in L2 as [L2|[EL2 L2]];
      try (apply len_then_lt; lia).
    rewrite EL1, EL2, len_then_same. apply G_arr in Ga, Gb, Gc. clear Eab Ebc.
    revert lb lc Ga Gb Gc L1 L2 EL1 EL2.
    induction IH as [|x xs Hx _ IHxs]; intros lb lc Ga Gb Gc L1 L2 EL1 EL2.
    + destruct lb; cbn in *; discriminate.
    + destruct lb as [|y ys]; [discriminate|]. destruct lc as [|z zs]; [discriminate|].
      cbn in EL1, EL2.
      inversion Ga as [|? ? Gx Gxs]; inversion Gb as [|? ? Gy Gys]; inversion Gc as [|? ? Gz Gzs]; subst.
      cbn [cmp_list] in *.
      destruct (Z.eqb_spec (cmp x y) 0) as [E1|E1]; destruct (Z.eqb_spec (cmp y z) 0) as [E2|E2].
      * rewrite <- (cmp_eq_cong x y z Gx Gy Gz E1), E2. cbn. apply IHxs with (lb := ys); auto.
      * rewrite <- (cmp_eq_cong x y z Gx Gy Gz E1).
        destruct (Z.eqb_spec (cmp y z) 0); [contradiction|exact L2].
      * rewrite <- (cmp_eq_cong_r x y z Gx Gy Gz E2).
        destruct (Z.eqb_spec (cmp x y) 0); [contradiction|exact L1].
      * rewrite (Hx y z Gx Gy Gz L1 L2). reflexivity.
  - destruct b as [| | | | | | |mb|], c as [| | | | | | |mc|]; try discriminate.
    rewrite cmp_obj in *.
    apply len_then_m1 in L1 as [L1|[EL1 L1]]; apply len_then_m1 in L2 as [L2|[EL2 L2]];
      try (apply len_then_lt; lia).
    rewrite EL1, EL2, len_then_same. apply G_obj in Ga, Gb, Gc. clear Eab Ebc.
    revert mb mc Ga Gb Gc L1 L2 EL1 EL2.
    induction IH as [|[k x] xs Hx _ IHxs]; intros mb mc Ga Gb Gc L1 L2 EL1 EL2.
    + destruct mb; cbn in *; discriminate.
    + destruct mb as [|[k' y] ys]; [discriminate|]. destruct mc as [|[k'' z] zs]; [discriminate|].
      cbn in EL1, EL2.
      inversion Ga as [|? ? Gx Gxs]; inversion Gb as [|? ? Gy Gys]; inversion Gc as [|? ? Gz Gzs]; subst.
      cbn in Gx, Gy, Gz, Hx. cbn [cmp_members] in *.
      destruct (lexcmp k k') eqn:K1; try discriminate; destruct (lexcmp k' k'') eqn:K2; try discriminate.
      * apply lexcmp_eq in K1, K2; subst. rewrite lexcmp_refl.
        destruct (Z.eqb_spec (cmp x y) 0) as [E1|E1]; destruct (Z.eqb_spec (cmp y z) 0) as [E2|E2].
        -- rewrite <- (cmp_eq_cong x y z Gx Gy Gz E1), E2. cbn. apply IHxs with (mb := ys); auto.
        -- rewrite <- (cmp_eq_cong x y z Gx Gy Gz E1).
           destruct (Z.eqb_spec (cmp y z) 0); [contradiction|exact L2].
        -- rewrite <- (cmp_eq_cong_r x y z Gx Gy Gz E2).
           destruct (Z.eqb_spec (cmp x y) 0); [contradiction|exact L1].
        -- rewrite (Hx y z Gx Gy Gz L1 L2). reflexivity.
      * apply lexcmp_eq in K1; subst. rewrite K2; reflexivity.
      * apply lexcmp_eq in K2; subst. rewrite K1; reflexivity.
      * rewrite (lexcmp_trans_gt k k' k'' K1 K2); reflexivity.
  - destruct b as [| | | | | | | |bb], c as [| | | | | | | |bc]; try discriminate.
    cbn [cmp] in *.
    destruct (Nat.compare_spec (length ba) (length bb)); cbn in L1; try discriminate;
    destruct (Nat.compare_spec (length bb) (length bc)); cbn in L2; try discriminate;
    destruct (Nat.compare_spec (length ba) (length bc)); cbn; try lia; reflexivity.
Qed.

(* ---------- lifting to [vcompare] (normal forms) *)
From Ferret Require Import Proofs.SortProofs.

Lemma G_norm : forall a, G a -> G (norm a).
Proof.
  unfold G.
  induction a as [| | | | | |l IH|m IH|] using value_ind'; cbn; auto.
  - intro H. rewrite forallb_forall in H. apply forallb_forall. intros y Hy.
    apply in_map_iff in Hy as [x [<- Hx]]. rewrite Forall_forall in IH. auto.
  - intro H. rewrite forallb_isort. rewrite forallb_forall in H. apply forallb_forall.
    intros y Hy. apply in_map_iff in Hy as [x [<- Hx]]. cbn.
    rewrite Forall_forall in IH. apply IH; auto.
Qed.

Lemma cls_norm a : cls (norm a) = cls a.
Proof. destruct a; reflexivity. Qed.

Lemma vcompare_range a b : vcompare a b = -1 \/ vcompare a b = 0 \/ vcompare a b = 1.
Proof. apply cmp_range. Qed.
Lemma vcompare_refl a : vcompare a a = 0.
Proof. apply cmp_refl. Qed.
Lemma vcompare_antisym a b : vcompare b a = - vcompare a b.
Proof. apply cmp_antisym. Qed.
Lemma vcompare_struct_eq a b : struct_eq a b -> vcompare a b = 0.
Proof. unfold struct_eq, vcompare; intros ->. apply cmp_refl. Qed.

Lemma vcompare_trans a b c : G a -> G b -> G c ->
  vcompare a b <= 0 -> vcompare b c <= 0 -> vcompare a c <= 0.
Proof.
  unfold vcompare; intros Ga Gb Gc. apply G_norm in Ga, Gb, Gc.
  set (x := norm a) in *; set (y := norm b) in *; set (z := norm c) in *.
  intros H1 H2.
  pose proof (cmp_range x y) as R1. pose proof (cmp_range y z) as R2.
  destruct R1 as [R1|[R1|R1]]; try lia; destruct R2 as [R2|[R2|R2]]; try lia.
  - rewrite (cmp_lt_trans x y z Ga Gb Gc R1 R2). lia.
  - rewrite <- (cmp_eq_cong_r x y z Ga Gb Gc R2). lia.
  - rewrite <- (cmp_eq_cong x y z Ga Gb Gc R1). lia.
  - rewrite <- (cmp_eq_cong x y z Ga Gb Gc R1). lia.
Qed.

Lemma vcompare_eq_trans a b c : G a -> G b -> G c ->
  vcompare a b = 0 -> vcompare b c = vcompare a c.
Proof. unfold vcompare; intros Ga Gb Gc. apply cmp_eq_cong; apply G_norm; assumption. Qed.

Lemma vcompare_rank a b : cls a < cls b -> vcompare a b = -1.
Proof.
  intro H. unfold vcompare. rewrite cmp_cls_ne by (rewrite !cls_norm; lia).
  rewrite !cls_norm. apply zcmp_lt; exact H.
Qed.

Lemma vcompare_numeric a b : cls a = 2 -> cls b = 2 -> int_ok a -> int_ok b ->
  vcompare a b = zcmp (nkey a) (nkey b).
Proof.
  intros Ca Cb Ia Ib. unfold vcompare.
  destruct a; try discriminate; destruct b; try discriminate; cbn [norm]; apply cmp_numeric; auto.
Qed.

Lemma vcompare_arr l l' :
  vcompare (VArr l) (VArr l') =
  len_then (length l) (length l') (cmp_list (map norm l) (map norm l')).
Proof. unfold vcompare; cbn [norm]. rewrite cmp_arr, !map_length. reflexivity. Qed.

(* sorting with the order yields a sorted permutation *)
Lemma sort_values_sorted l : sortedb (sort_values l) = true.
Proof.
  unfold sort_values.
  assert (H : forall l, sortedb l = adj_sorted value_leb l).
  { induction l0 as [|x r IH]; [reflexivity|]. destruct r as [|y r']; [reflexivity|].
    cbn [sortedb adj_sorted] in *. rewrite IH. reflexivity. }
  rewrite H. apply (isort_adj_sorted value_leb (fun _ => True)).
  - intros a b _ _. unfold value_leb. pose proof (vcompare_antisym a b).
    destruct (Z.leb_spec (vcompare a b) 0); auto. right. apply Z.leb_le. lia.
  - apply Forall_forall; auto.
Qed.
Lemma sort_values_perm l : Permutation l (sort_values l).
Proof. apply isort_perm. Qed.

(* beyond 2^53 the order is not transitive: the conversion int -> float rounds *)
Lemma vcompare_trans_refuted_beyond_2p53 :
  exists a b c, vcompare a b <= 0 /\ vcompare b c <= 0 /\ vcompare a c > 0.
Proof.
  exists (VInt (2 ^ 53 + 1)), (VFloat 4845873199050653696%N), (VInt (2 ^ 53)).
  vm_compute. repeat split; discriminate.
Qed.
