From Ferret Require Import WaitforScope.
From Coq Require Import Bool List NArith.
Import ListNotations.

Lemma bytes_eqb_eq a b : bytes_eqb a b = true -> a = b.
Proof.
  unfold bytes_eqb. revert b. induction a as [|x xs IH]; intros [|y ys]; cbn; try discriminate; [reflexivity|].
  destruct (N.compare x y) eqn:C; try discriminate. intro H. apply N.compare_eq in C. subst. f_equal. apply IH. exact H.
Qed.
Lemma bytes_eqb_refl a : bytes_eqb a a = true.
Proof. unfold bytes_eqb. induction a as [|x xs IH]; cbn; [reflexivity|]. rewrite N.compare_refl. exact IH. Qed.

Lemma mem_In x l : mem x l = true <-> exists y, In y l /\ bytes_eqb x y = true.
Proof. unfold mem. rewrite existsb_exists. reflexivity. Qed.

(* CURRENT mentioned outside the filter is an undeclared variable unless the
   program itself declared a variable of that name *)
Lemma current_outside_rejected vis w :
  mem current_var vis = false ->
  mem current_var (wf_name w ++ wf_src w ++ wf_opts w ++ wf_timeout w) = true ->
  chk_waitfor vis w = false.
Proof.
  intros Hv Hm. unfold chk_waitfor, outside_ok.
  destruct (forallb _ _) eqn:F; [|reflexivity]. exfalso.
  rewrite forallb_forall in F. apply mem_In in Hm. destruct Hm as [y [Hy E]].
  specialize (F y Hy). unfold mem in F, Hv.
  rewrite existsb_exists in F. destruct F as [z [Hz Ez]].
  assert (existsb (bytes_eqb current_var) vis = true) as C.
  { apply existsb_exists. exists z. split; [exact Hz|].
    apply bytes_eqb_eq in E. apply bytes_eqb_eq in Ez. subst. apply bytes_eqb_refl. }
  rewrite C in Hv. discriminate.
Qed.

(* inside the filter CURRENT is visible, whatever the enclosing scope declares *)
Lemma filter_sees_current vis w fs :
  outside_ok vis w = true -> wf_filter w = Some fs ->
  (forall x, In x fs -> bytes_eqb x current_var = true \/ mem x vis = true) ->
  chk_waitfor vis w = true.
Proof.
  intros Ho Hf H. unfold chk_waitfor. rewrite Ho. unfold filter_ok. rewrite Hf. cbn [andb].
  apply forallb_forall. intros x Hx. destruct (H x Hx) as [E|E].
  - unfold mem. cbn [existsb]. rewrite E. reflexivity.
  - unfold mem in *. cbn [existsb]. rewrite E. apply orb_true_r.
Qed.

(* exactness: accepted iff every outside reference is declared and every filter
   reference is declared or CURRENT *)
Lemma chk_waitfor_spec vis w :
  chk_waitfor vis w = true <->
  (forall x, In x (wf_name w ++ wf_src w ++ wf_opts w ++ wf_timeout w) -> mem x vis = true) /\
  (forall fs, wf_filter w = Some fs -> forall x, In x fs -> mem x (current_var :: vis) = true).
Proof.
  unfold chk_waitfor, outside_ok, filter_ok. rewrite andb_true_iff, forallb_forall. split.
  - intros [A B]. split; [exact A|]. intros fs E. rewrite E in B. rewrite forallb_forall in B. exact B.
  - intros [A B]. split; [exact A|]. destruct (wf_filter w) as [fs|]; [|reflexivity].
    apply forallb_forall. apply B. reflexivity.
Qed.
