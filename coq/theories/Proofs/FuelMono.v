(* Proofs/FuelMono.v — the reference evaluator is fuel-independent: once a
   computation has finished with some fuel (its outcome is not OutOfFuel), every
   larger fuel gives exactly the same outcome and the same final world, for
   every expression / query / data source / iterator / program, scope, world and
   strictness.

   Technique: [refines m1 m2] = "m2 agrees with m1 on every world where m1 has
   finished"; it is closed under bind and under the three constructs that inspect
   an outcome directly (member access with optional chaining, error suppression,
   sort keys); one step of each of the four mutual functions preserves it
   (Section Step, against named copies of the local loops), and induction on the
   smaller fuel closes the knot (mono_all).  Helpers with their own fuel: getin
   receives the evaluator's fuel and is monotone (getin_mono); digits_of_pos,
   glob_match and regex_match get a fuel that does not depend on the evaluator's.

   History: the first version of the model mapped the OutOfFuel of a non-first
   sort key to OutOfDomain (next_g / ItSort, inner fix gk), which made the
   statement false (fuel 5: OutOfDomain, fuel 9: Ok on [cex_program] below); the
   branch now propagates OutOfFuel, and the example is kept as a regression. *)
From Ferret Require Import Eval.
From Coq Require Import Lia.

Definition finished {A} (r : outcome A * world) : Prop := fst r <> OutOfFuel.

Definition stuckb {A} (o : outcome A) : bool :=
  match o with OutOfFuel => true | _ => false end.

Lemma finished_stuckb {A} (r : outcome A * world) : finished r <-> stuckb (fst r) = false.
Proof.
  unfold finished. destruct r as [o w]. cbn [fst]. split.
  - intro H. destruct o; try reflexivity; contradiction.
  - intros H E. rewrite E in H. discriminate.
Qed.

(* m2 agrees with m1 wherever m1 has finished *)
Definition refines {A} (m1 m2 : M A) : Prop :=
  forall w, stuckb (fst (m1 w)) = false -> m2 w = m1 w.

Lemma refines_refl {A} (m : M A) : refines m m.
Proof. intros w _. reflexivity. Qed.

Lemma refines_bind {A B} (m1 m2 : M A) (k1 k2 : A -> M B) :
  refines m1 m2 -> (forall a, refines (k1 a) (k2 a)) -> refines (bind m1 k1) (bind m2 k2).
Proof.
  intros Hm Hk w. unfold bind. specialize (Hm w).
  destruct (m1 w) as [o w1] eqn:E1. cbn [fst] in Hm.
  destruct o as [a|e| | | | |]; cbn [recast fst stuckb]; intro S; try discriminate S;
    rewrite (Hm eq_refl); try reflexivity.
  apply Hk. exact S.
Qed.

Lemma refines_stuck {A} (m1 m2 : M A) : (forall w, stuckb (fst (m1 w)) = true) -> refines m1 m2.
Proof. intros H w S. rewrite H in S. discriminate. Qed.
Lemma refines_oof {A} (m : M A) : refines (fail OutOfFuel) m.
Proof. apply refines_stuck. reflexivity. Qed.

(* ---------------------------------------------------------------- getin *)
Lemma getin_mono : forall n m : nat, (n <= m)%nat -> forall src path,
  getin n src path = POut OutOfFuel \/ getin m src path = getin n src path.
Proof.
  induction n as [|n IH]; intros m L src path; [left; reflexivity|].
  destruct m as [|m]; [lia|]. assert (L' : (n <= m)%nat) by lia.
  destruct path as [|s rest]; [right; reflexivity|].
  assert (K : forall first,
     (match rest with
      | [] => PVal first
      | _ :: _ => match first with
                  | VNone => PErr 1
                  | VArr _ | VObj _ => getin n first rest
                  | _ => getin_loop first rest 0
                  end
      end = POut OutOfFuel) \/
     (match rest with
      | [] => PVal first
      | _ :: _ => match first with
                  | VNone => PErr 1
                  | VArr _ | VObj _ => getin m first rest
                  | _ => getin_loop first rest 0
                  end
      end =
      match rest with
      | [] => PVal first
      | _ :: _ => match first with
                  | VNone => PErr 1
                  | VArr _ | VObj _ => getin n first rest
                  | _ => getin_loop first rest 0
                  end
      end)).
  { intro first. destruct rest as [|s2 r2]; [right; reflexivity|].
    destruct first; try (right; reflexivity); apply (IH m L'). }
  cbn [getin].
  destruct src; try (right; reflexivity).
  - destruct s; try (right; reflexivity).
    destruct (arr_get l z); try (right; reflexivity). apply K.
  - destruct (seg_to_key s); try (right; reflexivity). apply K.
Qed.

(* ---------------------------------------------------------------- named copies
   of the local loops of the evaluator, for an arbitrary strictness *)
Section Named.
Variable strict : bool.
Notation ev := (eval_g strict).
Notation evf := (eval_for_g strict).
Notation itr := (iterate_g strict).
Notation nx := (next_g strict).

Definition eval_list_f (n : nat) (sc : frames) :=
  fix go (es : list expr) : M (list value) :=
    match es with
    | [] => ret []
    | x :: r => do v <- ev n x sc; do vs <- go r; ret (v :: vs)
    end.
Definition eval_prop_f (n : nat) (sc : frames) (p : prop) : M (value * value) :=
  match p with
  | PNamed k e1 => do v <- ev n e1 sc; ret (VStr k, v)
  | PComputed k e1 => do kv <- ev n k sc; do v <- ev n e1 sc; ret (kv, v)
  | PShort x => do v <- get_var x sc; ret (VStr x, v)
  end.
Definition eval_obj_f (n : nat) (sc : frames) :=
  fix go (ps : list prop) (acc : list (bytes * value)) : M value :=
    match ps with
    | [] => ret (VObj acc)
    | p :: r =>
        do kv <- eval_prop_f n sc p;
        match kv with
        | (VStr k, v) => go r (filter (fun q => negb (bytes_eqb (fst q) k)) acc ++ [(k, v)])
        | _ => fail (Err EType)
        end
    end.
Definition eval_segs_f (n : nat) (sc : frames) :=
  fix go (p : list seg) : M (list value) :=
    match p with
    | [] => ret []
    | Seg _ se :: r => do v <- ev n se sc; do vs <- go r; ret (v :: vs)
    end.
Definition param_f (x : name) : M value :=
  fun w => match frame_get x (w_params w) with
           | Some v => (Ok v, w)
           | None => (Err EParamNotFound, w)
           end.
Definition member_f (first_optional : bool) (msrc : M value) (k : value -> M value) : M value :=
  fun w =>
    match msrc w with
    | (Ok m, w1) => k m w1
    | (Err ETerminated, w1) =>
        if first_optional && negb strict then (Ok VNone, w1) else (Err ETerminated, w1)
    | (Err _ as o, w1) => if first_optional then (Ok VNone, w1) else (o, w1)
    | (o, w1) => (o, w1)
    end.
Definition member_k (n : nat) (sc : frames) (path : list seg) (m : value) : M value :=
  do segs <- eval_segs_f n sc path;
  match getin n m segs with
  | PVal v => ret v
  | POut o => lift o
  | PErr i =>
      match nth_error path i with
      | Some (Seg true _) => ret VNone
      | _ => fail (Err EPath)
      end
  end.
Definition suppress_f (m : M value) : M value :=
  fun w => match m w with
           | (Err ETerminated, w1) => if strict then (Err ETerminated, w1) else (Ok VNone, w1)
           | (Err _, w1) => (Ok VNone, w1)
           | r => r
           end.

Lemma eval_S n e sc :
  ev (S n) e sc =
  match e with
  | ENone => ret VNone
  | EBool b => ret (VBool b)
  | EInt z => ret (VInt z)
  | EFloat f => ret (VFloat f)
  | EStr s => ret (VStr s)
  | EArr es => do vs <- eval_list_f n sc es; ret (VArr vs)
  | EObj ps => eval_obj_f n sc ps []
  | EVar x => get_var x sc
  | EParam x => param_f x
  | EUn o a => do v <- ev n a sc; ret (op_un o v)
  | ELog o a b =>
      do l <- ev n a sc;
      match o with
      | LAnd => if to_bool l then ev n b sc
                else ret (match l with VBool _ => VBool false | _ => l end)
      | LOr => if to_bool l then ret l else ev n b sc
      end
  | ECond c t f =>
      do cv <- ev n c sc;
      if to_bool cv then match t with Some t' => ev n t' sc | None => ret cv end
      else ev n f sc
  | ECmp o a b => do l <- ev n a sc; do r <- ev n b sc; ret (VBool (op_cmp o l r))
  | EIn neg a b => do l <- ev n a sc; do r <- ev n b sc; ret (op_in neg l r)
  | EQuant q c a b => do l <- ev n a sc; do r <- ev n b sc; ret (op_quant q c l r)
  | ELike neg a b =>
      do l <- ev n a sc; do r <- ev n b sc;
      match l, r with
      | VStr s, VStr p =>
          match glob_match p s with
          | Some m => ret (VBool (xorb neg m))
          | None => fail OutOfDomain
          end
      | _, _ => ret (VBool false)
      end
  | ERegex neg a b =>
      do l <- ev n a sc; do r <- ev n b sc;
      let str v := match v with
                   | VStr s => Some s
                   | VInt z => Some (int_to_string z)
                   | _ => None
                   end in
      match str l, str r with
      | Some s, Some p =>
          match regex_match p s with
          | Some m => ret (VBool (xorb neg m))
          | None => fail OutOfDomain
          end
      | _, _ => fail OutOfDomain
      end
  | EMath o a b => do l <- ev n a sc; do r <- ev n b sc; lift (op_math o l r)
  | ERange a b => do l <- ev n a sc; do r <- ev n b sc; lift (op_range l r)
  | EMember src path =>
      member_f (match path with Seg o _ :: _ => o | [] => false end) (ev n src sc) (member_k n sc path)
  | ECall f args => do _ <- check_ctx; do vs <- eval_list_f n sc args; call_fn f vs
  | ESuppress a => suppress_f (ev n a sc)
  | ESub q => evf n q sc
  end.
Proof. destruct e; reflexivity. Qed.

(* ---- FOR *)
Definition for_out_f (n : nat) (ret_ : fret) (sc' : frames) : M value :=
  match ret_ with
  | RReturn _ e => do _ <- check_ctx; ev n e sc'
  | RFor q' => evf n q' sc'
  end.
Definition for_loop_f (n : nat) (sc : frames) (ret_ : fret) (distinct spread pass : bool) :=
  fix loop (k : nat) (it : iter) (acc : fres) : M value :=
    match k with
    | O => fail OutOfFuel
    | S k' =>
        do r <- nx n it sc;
        match r with
        | None => ret (VArr (rev (fr_items acc)))
        | Some (sc', it') =>
            do out <- for_out_f n ret_ sc';
            loop k' it' (fres_push distinct spread pass out acc)
        end
    end.

Lemma eval_for_S n q sc :
  evf (S n) q sc =
  (do _ <- check_ctx;
   let '(d, ret_) :=
     match q with
     | ForIn vv kv src body r => (build_ds (DIn vv kv src) vv body, r)
     | ForWhile vv dof cond body r => (build_ds (DWhile dof vv cond) vv body, r)
     end in
   do it <- itr n d sc;
   let '(distinct, spread, pass) :=
     match ret_ with
     | RReturn dflag e => (dflag, false, match e with ENone => true | _ => false end)
     | RFor _ => (false, true, false)
     end in
   for_loop_f n sc ret_ distinct spread pass n it {| fr_items := []; fr_seen := [] |}).
Proof. reflexivity. Qed.

(* ---- data sources *)
Lemma iterate_S n d sc :
  itr (S n) d sc =
  match d with
  | DIn vv kv e =>
      do _ <- check_ctx;
      do data <- ev n e sc;
      match data with
      | VArr l => if bytes_eqb vv [] then fail (Err EScopeUnnamed) else ret (ItIndexed vv kv l 0)
      | VObj [] => if bytes_eqb vv [] then fail (Err EScopeUnnamed) else ret (ItIndexed vv kv [] 0)
      | VObj _ => fail OutOfDomain
      | _ => fail (Err EType)
      end
  | DWhile dof vv cond =>
      if bytes_eqb vv [] then fail (Err EScopeUnnamed) else ret (ItWhile dof vv cond 0)
  | DBlock d0 ss => do _ <- check_ctx; do it <- itr n d0 sc; ret (ItTap it ss)
  | DFilter d0 e => do it <- itr n d0 sc; ret (ItFilter it e)
  | DSort d0 ks => do it <- itr n d0 sc; ret (ItSort it ks None)
  | DLimit d0 cnt off =>
      do it <- itr n d0 sc;
      do c <- ev n cnt sc;
      do o <- ev n off sc;
      do ci <- lift (limit_to_int c);
      do oi <- lift (limit_to_int o);
      ret (ItLimit it ci oi 0)
  | DCollect d0 gs t vv =>
      do it <- itr n d0 sc;
      let src := match gs with
                 | [] => it
                 | _ => ItSort it (map (fun g => (snd g, false)) gs) None
                 end in
      ret (ItCollect src gs t vv None)
  end.
Proof. destruct d; reflexivity. Qed.

(* ---- iterators *)
Definition tap_f (n : nat) :=
  fix go (ss : list fclause) (s : frames) : M frames :=
    match ss with
    | [] => ret s
    | CLet x e :: r => do v <- ev n e s; do s1 <- set_var x v s; go r s1
    | CCall e :: r => do _ <- ev n e s; go r s
    | _ :: r => go r s
    end.
Definition filter_f (n : nat) (sc : frames) (e : expr) :=
  fix loop (k : nat) (src : iter) : M (option (frames * iter)) :=
    match k with
    | O => fail OutOfFuel
    | S k' =>
        do r <- nx n src (fork sc);
        match r with
        | None => ret None
        | Some (s, src') =>
            do v <- ev n e s;
            match v with
            | VBool true => ret (Some (s, ItFilter src' e))
            | _ => loop k' src'
            end
        end
    end.
Definition skip_f (n : nat) (sc : frames) (off : Z) :=
  fix skip (k : nat) (src : iter) (cur : Z) : M (option (iter * Z)) :=
    match k with
    | O => fail OutOfFuel
    | S k' =>
        if (off =? 0) || negb (cur <? off) then ret (Some (src, cur))
        else do r <- nx n src (fork sc);
             match r with
             | None => ret None
             | Some (_, src') => skip k' src' (cur + 1)
             end
    end.
Definition drain_f (n : nat) (sc : frames) :=
  fix drain (k : nat) (it : iter) (acc : list frames) : M (list frames) :=
    match k with
    | O => fail OutOfFuel
    | S k' => do r <- nx n it (fork sc);
              match r with
              | None => ret (rev acc)
              | Some (s, it') => drain k' it' (s :: acc)
              end
    end.
(* a failure of a non-first key becomes OutOfDomain -- except OutOfFuel *)
Definition key1_f (first : bool) (m : M value) : M value :=
  fun w => match m w with
           | (Ok v, w') => (Ok v, w')
           | (OutOfFuel, w') => (OutOfFuel, w')
           | (o, w') => if first then (o, w') else (OutOfDomain, w')
           end.
Definition gk_f (n : nat) (s : frames) :=
  fix gk (first : bool) (ks : list (expr * bool)) : M (list (value * bool)) :=
    match ks with
    | [] => ret []
    | (e, d) :: kr => do v <- key1_f first (ev n e s); do vs <- gk false kr; ret ((v, d) :: vs)
    end.
Definition keyed_f (n : nat) (ks : list (expr * bool)) :=
  fix go (l : list frames) : M (list (list (value * bool) * frames)) :=
    match l with
    | [] => ret []
    | s :: r => do kv <- gk_f n s true ks; do rest <- go r; ret ((kv, s) :: rest)
    end.
Definition sort_rows_f (n : nat) (sc : frames) (src : iter) (ks : list (expr * bool)) : M (list frames) :=
  do scopes <- drain_f n sc n src [];
  match scopes with
  | [] | [_] => ret scopes
  | _ =>
      do keyed <- keyed_f n ks scopes;
      ret (map snd (sort_by (fun a b => keys_lt (fst a) (fst b)) keyed))
  end.

(* COLLECT *)
Definition aggr_args_f (n : nat) (s : frames) :=
  fix args_ (as_ : list expr) (col : list (list value)) : M (list (list value)) :=
    match as_, col with
    | a :: ar, c :: cr0 => do v <- ev n a s; do rest <- args_ ar cr0; ret ((c ++ [v]) :: rest)
    | _, _ => ret []
    end.
Definition aggr_sels_f (n : nat) (s : frames) :=
  fix sels_ (ss : list (name * name * list expr)) (acc : list (list (list value)))
    : M (list (list (list value))) :=
    match ss, acc with
    | (_, _, args) :: sr, col :: cr =>
        do col' <- aggr_args_f n s args col;
        do rest <- sels_ sr cr;
        ret (col' :: rest)
    | _, _ => ret []
    end.
Definition aggr_rows_f (n : nat) (sc : frames) (sels : list (name * name * list expr)) :=
  fix rows_ (k : nat) (src : iter) (acc : list (list (list value))) (cnt : nat)
    : M (list (list (list value)) * nat) :=
    match k with
    | O => fail OutOfFuel
    | S k' =>
        do r <- nx n src (fork sc);
        match r with
        | None => ret (acc, cnt)
        | Some (s, src') =>
            do acc' <- aggr_sels_f n s sels acc;
            rows_ k' src' acc' (S cnt)
        end
    end.
Definition aggr_red_f (nrows : nat) :=
  fix red (ss : list (name * name * list expr)) (cols : list (list (list value))) (cs : frames) : M frames :=
    match ss, cols with
    | (x, f, _) :: sr, col :: cr =>
        let args := match nrows with O => [] | _ => map VArr col end in
        do _ <- (if strict then check_ctx else ret tt);
        do v <- call_fn f args;
        do cs' <- set_var x v cs;
        red sr cr cs'
    | _, _ => ret cs
    end.
Definition grp_gk_f (n : nat) (ds : frames) :=
  fix gk (gs : list (name * expr)) (cs : frames) : M (list value * frames) :=
    match gs with
    | [] => ret ([], cs)
    | (x, e) :: gr =>
        do v <- ev n e ds;
        do cs1 <- set_var x v cs;
        do rest <- gk gr cs1;
        ret (v :: fst rest, snd rest)
    end.
Definition grp_ini_f :=
  fix ini (ss : list (name * name * list expr)) (cs : frames) : M frames :=
    match ss with
    | [] => ret cs
    | (x, _, args) :: sr =>
        do cs1 <- set_var x (VArr (map (fun _ => VArr []) args)) cs;
        ini sr cs1
    end.
Definition grp_ev_f (n : nat) (ds : frames) :=
  fix ev_ (as_ : list expr) : M (list value) :=
    match as_ with
    | [] => ret []
    | a :: ar => do v <- ev n a ds; do vs <- ev_ ar; ret (v :: vs)
    end.
Definition grp_ag_f (n : nat) (ds : frames) (idx : nat) :=
  fix ag (ss : list (name * name * list expr)) (acc : list (list value * frames)) : M (list (list value * frames)) :=
    match ss with
    | [] => ret acc
    | (x, _, args) :: sr =>
        do vals <- grp_ev_f n ds args;
        ag sr (update_nth idx (fun g => (fst g, frame0_update x
                (fun m => match m with
                          | VArr cols => VArr (map (fun p => arr_push (snd p) (fst p)) (combine cols vals))
                          | o => o
                          end) (snd g))) acc)
    end.
Definition grp_new_f (t : ctail) (cs : frames) : M frames :=
  match t with
  | CTInto x _ => set_var x (VArr []) cs
  | CTCount x => set_var x (VInt 0) cs
  | CTAggr sels => grp_ini_f sels cs
  | CTNone => ret cs
  end.
Definition grp_add_f (n : nat) (ds : frames) (t : ctail) (vv : name) (idx : nat)
    (acc1 : list (list value * frames)) : M (list (list value * frames)) :=
  match t with
  | CTInto x proj =>
      do v <- (match proj with
               | Some pe => ev n pe ds
               | None => do cur <- get_var vv ds; ret (VObj [(vv, cur)])
               end);
      ret (update_nth idx (fun g => (fst g, frame0_update x (arr_push v) (snd g))) acc1)
  | CTCount x =>
      ret (update_nth idx (fun g => (fst g, frame0_update x
             (fun c => match c with VInt z => VInt (z + 1) | o => o end) (snd g))) acc1)
  | CTAggr sels => grp_ag_f n ds idx sels acc1
  | CTNone => ret acc1
  end.
Definition grp_f (n : nat) (sc : frames) (gs : list (name * expr)) (t : ctail) (vv : name) :=
  fix grp (k : nat) (src : iter) (acc : list (list value * frames)) : M (list (list value * frames)) :=
    match k with
    | O => fail OutOfFuel
    | S k' =>
        do r <- nx n src (fork sc);
        match r with
        | None => ret acc
        | Some (ds, src') =>
            do kvs <- grp_gk_f n ds gs (fork sc);
            let '(k0, cs) := kvs in
            do accidx <-
              (match find_group k0 acc 0 with
               | Some i => ret (acc, i)
               | None =>
                   do cs' <- grp_new_f t cs;
                   ret (acc ++ [(k0, cs')], length acc)
               end);
            let '(acc1, idx) := accidx in
            do acc2 <- grp_add_f n ds t vv idx acc1;
            grp k' src' acc2
        end
    end.
Definition fin_red_f :=
  fix red (ss : list (name * name * list expr)) (cs : frames) : M frames :=
    match ss with
    | [] => ret cs
    | (x, f, _) :: sr =>
        do m <- get_var x cs;
        do _ <- (if strict then check_ctx else ret tt);
        do v <- call_fn f (match m with VArr cols => cols | _ => [] end);
        red sr (frame0_update x (fun _ => v) cs)
    end.
Definition fin_f (sels : list (name * name * list expr)) :=
  fix fin (gl : list (list value * frames)) : M (list frames) :=
    match gl with
    | [] => ret []
    | (_, cs) :: gr =>
        do cs' <- fin_red_f sels cs;
        do rest <- fin gr;
        ret (cs' :: rest)
    end.

Definition collect_rows_f (n : nat) (sc : frames) (src : iter) (gs : list (name * expr)) (t : ctail) (vv : name)
  : M (list frames) :=
  match gs with
  | [] =>
      match t with
      | CTCount x =>
          do scopes <- drain_f n sc n src [];
          do cs <- set_var x (VInt (Z.of_nat (length scopes))) (fork sc);
          ret [cs]
      | CTAggr sels =>
          do colsn <- aggr_rows_f n sc sels n src (map (fun sel => map (fun _ => []) (snd sel)) sels) O;
          let '(cols, nrows) := colsn in
          do cs <- aggr_red_f nrows sels cols (fork sc);
          ret [cs]
      | _ => fail (Err EOther)
      end
  | _ =>
      do groups <- grp_f n sc gs t vv n src [];
      match t with
      | CTAggr sels => fin_f sels groups
      | _ => ret (map snd groups)
      end
  end.

Lemma next_S n it sc :
  nx (S n) it sc =
  match it with
  | ItIndexed vv kv vals pos =>
      match vals with
      | [] => ret None
      | v :: rest =>
          do s1 <- set_var vv v (fork sc);
          do s2 <- (match kv with Some k => set_var k (VInt pos) s1 | None => ret s1 end);
          ret (Some (s2, ItIndexed vv kv rest (pos + 1)))
      end
  | ItWhile dof vv cond pos =>
      do go <- (if negb dof || (0 <? pos)
                then do c <- ev n cond sc;
                     ret (match c with VBool true => true | _ => false end)
                else ret true);
      if go then
        do s1 <- set_var vv (VInt pos) (fork sc);
        ret (Some (s1, ItWhile dof vv cond (pos + 1)))
      else ret None
  | ItTap src ss =>
      do r <- nx n src sc;
      match r with
      | None => ret None
      | Some (s, src') =>
          do _ <- check_ctx;
          do s' <- tap_f n ss s;
          ret (Some (s', ItTap src' ss))
      end
  | ItFilter src e => filter_f n sc e n src
  | ItLimit src cnt off cur =>
      do st <- skip_f n sc off n src cur;
      match st with
      | None => ret None
      | Some (src1, cur1) =>
          let cur2 := cur1 + 1 in
          if cur2 - off <=? cnt then
            do r <- nx n src1 sc;
            match r with
            | None => ret None
            | Some (s, src2) => ret (Some (s, ItLimit src2 cnt off cur2))
            end
          else ret None
      end
  | ItSort src ks st =>
      do rows <- (match st with
                  | Some rows => ret rows
                  | None => sort_rows_f n sc src ks
                  end);
      match rows with
      | [] => ret None
      | s :: r => ret (Some (s, ItSort src ks (Some r)))
      end
  | ItCollect src gs t vv st =>
      do rows <- (match st with
                  | Some rows => ret rows
                  | None => collect_rows_f n sc src gs t vv
                  end);
      match rows with
      | [] => ret None
      | s :: r => ret (Some (s, ItCollect src gs t vv (Some r)))
      end
  end.
Proof. destruct it; reflexivity. Qed.

End Named.

(* ---------------------------------------------------------------- closure of
   [refines] under the three constructs that inspect an outcome directly *)
Lemma refines_member strict fo (m1 m2 : M value) (k1 k2 : value -> M value) :
  refines m1 m2 -> (forall a, refines (k1 a) (k2 a)) ->
  refines (member_f strict fo m1 k1) (member_f strict fo m2 k2).
Proof.
  intros Hm Hk w. unfold member_f. specialize (Hm w).
  destruct (m1 w) as [o w1] eqn:E1. cbn [fst] in Hm.
  destruct o as [a|e| | | | |]; cbn [stuckb fst]; intro S; try discriminate S;
    rewrite (Hm eq_refl); try reflexivity.
  apply Hk. exact S.
Qed.

Lemma refines_suppress strict (m1 m2 : M value) :
  refines m1 m2 -> refines (suppress_f strict m1) (suppress_f strict m2).
Proof.
  intros Hm w. unfold suppress_f. specialize (Hm w).
  destruct (m1 w) as [o w1] eqn:E1. cbn [fst] in Hm.
  destruct o as [a|e| | | | |]; cbn [stuckb fst]; intro S; try discriminate S;
    rewrite (Hm eq_refl); reflexivity.
Qed.

Lemma refines_key1 first (m1 m2 : M value) :
  refines m1 m2 -> refines (key1_f first m1) (key1_f first m2).
Proof.
  intros Hm w. unfold key1_f. specialize (Hm w).
  destruct (m1 w) as [o w1] eqn:E1. cbn [fst] in Hm.
  destruct o as [a|e| | | | |]; destruct first; cbn [stuckb fst]; intro S; try discriminate S;
    rewrite (Hm eq_refl); reflexivity.
Qed.

Create HintDb fmono.

Ltac mono1 :=
  first
    [ match goal with |- refines ?a ?b => constr_eq a b; apply refines_refl end
    | match goal with H : context [refines _ _] |- _ => solve [apply H; try lia] end
    | solve [eauto 2 with fmono nocore]
    | lazymatch goal with
      | |- refines (bind _ _) (bind _ _) => apply refines_bind; [|intro; cbv beta]
      | |- refines (member_f _ _ _ _) (member_f _ _ _ _) => apply refines_member; [|intro; cbv beta]
      | |- refines (suppress_f _ _) (suppress_f _ _) => apply refines_suppress
      | |- refines (key1_f _ _) (key1_f _ _) => apply refines_key1
      | |- refines (match ?x with _ => _ end) (match ?x with _ => _ end) => destruct x
      end
    | progress cbv beta zeta ].
Ltac mono := repeat mono1.

(* ---------------------------------------------------------------- one step *)
Section Step.
Variable strict : bool.
Notation ev := (eval_g strict).
Notation evf := (eval_for_g strict).
Notation itr := (iterate_g strict).
Notation nx := (next_g strict).
Variables n m : nat.
Hypothesis Hnm : (n <= m)%nat.
Hypothesis HE : forall e sc, refines (ev n e sc) (ev m e sc).
Hypothesis HF : forall q sc, refines (evf n q sc) (evf m q sc).
Hypothesis HI : forall d sc, refines (itr n d sc) (itr m d sc).
Hypothesis HN : forall it sc, refines (nx n it sc) (nx m it sc).

Lemma eval_list_mono sc es : refines (eval_list_f strict n sc es) (eval_list_f strict m sc es).
Proof. induction es as [|x r IH]; cbn [eval_list_f]; mono. Qed.
Hint Resolve eval_list_mono : fmono.

Lemma eval_obj_mono sc ps : forall acc, refines (eval_obj_f strict n sc ps acc) (eval_obj_f strict m sc ps acc).
Proof. induction ps as [|p r IH]; intro acc; cbn [eval_obj_f]; unfold eval_prop_f; mono. Qed.
Hint Resolve eval_obj_mono : fmono.

Lemma eval_segs_mono sc path : refines (eval_segs_f strict n sc path) (eval_segs_f strict m sc path).
Proof. induction path as [|[o se] r IH]; cbn [eval_segs_f]; mono. Qed.
Hint Resolve eval_segs_mono : fmono.

Lemma member_k_mono sc path a : refines (member_k strict n sc path a) (member_k strict m sc path a).
Proof.
  unfold member_k. apply refines_bind; [apply eval_segs_mono|]. intro segs.
  destruct (getin_mono n m Hnm a segs) as [G|G]; rewrite G.
  - apply refines_stuck. reflexivity.
  - apply refines_refl.
Qed.
Hint Resolve member_k_mono : fmono.

Lemma E_step e sc : refines (ev (S n) e sc) (ev (S m) e sc).
Proof. rewrite !eval_S. destruct e; mono. Qed.

(* ---- FOR *)
Lemma for_loop_mono sc ret_ di sp pa : forall k k' : nat, (k <= k')%nat -> forall it acc,
  refines (for_loop_f strict n sc ret_ di sp pa k it acc) (for_loop_f strict m sc ret_ di sp pa k' it acc).
Proof.
  induction k as [|k IH]; intros k' L it acc; [apply refines_oof|].
  destruct k' as [|k']; [lia|]. cbn [for_loop_f]. unfold for_out_f. mono.
Qed.
Hint Resolve for_loop_mono : fmono.

Lemma F_step q sc : refines (evf (S n) q sc) (evf (S m) q sc).
Proof. rewrite !eval_for_S. mono. Qed.

(* ---- data sources *)
Lemma I_step d sc : refines (itr (S n) d sc) (itr (S m) d sc).
Proof. rewrite !iterate_S. destruct d; mono. Qed.

(* ---- iterators *)
Lemma tap_mono ss : forall s, refines (tap_f strict n ss s) (tap_f strict m ss s).
Proof. induction ss as [|c r IH]; intro s; cbn [tap_f]; mono. Qed.
Hint Resolve tap_mono : fmono.

Lemma filter_mono sc e : forall k k' : nat, (k <= k')%nat -> forall src,
  refines (filter_f strict n sc e k src) (filter_f strict m sc e k' src).
Proof.
  induction k as [|k IH]; intros k' L src; [apply refines_oof|].
  destruct k' as [|k']; [lia|]. cbn [filter_f]. mono.
Qed.
Hint Resolve filter_mono : fmono.

Lemma skip_mono sc off : forall k k' : nat, (k <= k')%nat -> forall src cur,
  refines (skip_f strict n sc off k src cur) (skip_f strict m sc off k' src cur).
Proof.
  induction k as [|k IH]; intros k' L src cur; [apply refines_oof|].
  destruct k' as [|k']; [lia|]. cbn [skip_f]. mono.
Qed.
Hint Resolve skip_mono : fmono.

Lemma drain_mono sc : forall k k' : nat, (k <= k')%nat -> forall it acc,
  refines (drain_f strict n sc k it acc) (drain_f strict m sc k' it acc).
Proof.
  induction k as [|k IH]; intros k' L it acc; [apply refines_oof|].
  destruct k' as [|k']; [lia|]. cbn [drain_f]. mono.
Qed.
Hint Resolve drain_mono : fmono.

Lemma gk_mono s ks : forall first, refines (gk_f strict n s first ks) (gk_f strict m s first ks).
Proof. induction ks as [|[e d] kr IH]; intro first; cbn [gk_f]; mono. Qed.
Hint Resolve gk_mono : fmono.

Lemma keyed_mono ks l : refines (keyed_f strict n ks l) (keyed_f strict m ks l).
Proof. induction l as [|s r IH]; cbn [keyed_f]; mono. Qed.
Hint Resolve keyed_mono : fmono.

Lemma sort_rows_mono sc src ks : refines (sort_rows_f strict n sc src ks) (sort_rows_f strict m sc src ks).
Proof. unfold sort_rows_f. mono. Qed.
Hint Resolve sort_rows_mono : fmono.

(* COLLECT *)
Lemma aggr_args_mono s args : forall col, refines (aggr_args_f strict n s args col) (aggr_args_f strict m s args col).
Proof. induction args as [|a ar IH]; intro col; cbn [aggr_args_f]; mono. Qed.
Hint Resolve aggr_args_mono : fmono.

Lemma aggr_sels_mono s sels : forall acc, refines (aggr_sels_f strict n s sels acc) (aggr_sels_f strict m s sels acc).
Proof. induction sels as [|[[x f] args] sr IH]; intro acc; cbn [aggr_sels_f]; mono. Qed.
Hint Resolve aggr_sels_mono : fmono.

Lemma aggr_rows_mono sc sels : forall k k' : nat, (k <= k')%nat -> forall src acc cnt,
  refines (aggr_rows_f strict n sc sels k src acc cnt) (aggr_rows_f strict m sc sels k' src acc cnt).
Proof.
  induction k as [|k IH]; intros k' L src acc cnt; [apply refines_oof|].
  destruct k' as [|k']; [lia|]. cbn [aggr_rows_f]. mono.
Qed.
Hint Resolve aggr_rows_mono : fmono.

Lemma grp_gk_mono ds gs : forall cs, refines (grp_gk_f strict n ds gs cs) (grp_gk_f strict m ds gs cs).
Proof. induction gs as [|[x e] gr IH]; intro cs; cbn [grp_gk_f]; mono. Qed.
Hint Resolve grp_gk_mono : fmono.

Lemma grp_ev_mono ds args : refines (grp_ev_f strict n ds args) (grp_ev_f strict m ds args).
Proof. induction args as [|a ar IH]; cbn [grp_ev_f]; mono. Qed.
Hint Resolve grp_ev_mono : fmono.

Lemma grp_ag_mono ds idx sels : forall acc, refines (grp_ag_f strict n ds idx sels acc) (grp_ag_f strict m ds idx sels acc).
Proof. induction sels as [|[[x f] args] sr IH]; intro acc; cbn [grp_ag_f]; mono. Qed.
Hint Resolve grp_ag_mono : fmono.

Lemma grp_add_mono ds t vv idx acc1 : refines (grp_add_f strict n ds t vv idx acc1) (grp_add_f strict m ds t vv idx acc1).
Proof. unfold grp_add_f. mono. Qed.
Hint Resolve grp_add_mono : fmono.

Lemma grp_mono sc gs t vv : forall k k' : nat, (k <= k')%nat -> forall src acc,
  refines (grp_f strict n sc gs t vv k src acc) (grp_f strict m sc gs t vv k' src acc).
Proof.
  induction k as [|k IH]; intros k' L src acc; [apply refines_oof|].
  destruct k' as [|k']; [lia|]. cbn [grp_f]. mono.
Qed.
Hint Resolve grp_mono : fmono.

Lemma collect_rows_mono sc src gs t vv :
  refines (collect_rows_f strict n sc src gs t vv) (collect_rows_f strict m sc src gs t vv).
Proof. unfold collect_rows_f. mono. Qed.
Hint Resolve collect_rows_mono : fmono.

Lemma N_step it sc : refines (nx (S n) it sc) (nx (S m) it sc).
Proof. rewrite !next_S. destruct it; mono. Qed.

End Step.

(* ---------------------------------------------------------------- all fuels *)
Definition mono_at (strict : bool) (n m : nat) : Prop :=
  (forall e sc, refines (eval_g strict n e sc) (eval_g strict m e sc)) /\
  (forall q sc, refines (eval_for_g strict n q sc) (eval_for_g strict m q sc)) /\
  (forall d sc, refines (iterate_g strict n d sc) (iterate_g strict m d sc)) /\
  (forall it sc, refines (next_g strict n it sc) (next_g strict m it sc)).

Lemma mono_all strict : forall n m : nat, (n <= m)%nat -> mono_at strict n m.
Proof.
  induction n as [|n IH]; intros m L.
  - repeat split; intros; apply refines_oof.
  - destruct m as [|m]; [lia|]. assert (L' : (n <= m)%nat) by lia.
    destruct (IH m L') as (HE & HF & HI & HN).
    repeat split; intros.
    + apply E_step; assumption.
    + apply F_step; assumption.
    + apply I_step; assumption.
    + apply N_step; assumption.
Qed.

(* whole programs *)
Definition run_stmts_f (strict : bool) (fuel : nat) :=
  fix go (ss : list stmt) (sc : frames) : M frames :=
    match ss with
    | [] => ret sc
    | SLet x e :: r => do v <- eval_g strict fuel e sc; do sc' <- set_var x v sc; go r sc'
    | SCall e :: r => do _ <- eval_g strict fuel e sc; go r sc
    end.
Lemma run_body_eq strict fuel p :
  run_body_g strict fuel p =
  (do _ <- check_ctx;
   do sc <- run_stmts_f strict fuel (p_stmts p) [[]];
   match p_ret p with
   | BReturn e => do _ <- check_ctx; eval_g strict fuel e sc
   | BFor q => eval_for_g strict fuel q sc
   end).
Proof. reflexivity. Qed.

Lemma run_body_refines strict (n m : nat) p : (n <= m)%nat ->
  refines (run_body_g strict n p) (run_body_g strict m p).
Proof.
  intro L. destruct (mono_all strict n m L) as (HE & HF & _ & _).
  assert (St : forall ss sc, refines (run_stmts_f strict n ss sc) (run_stmts_f strict m ss sc)).
  { induction ss as [|s r IH]; intro sc; cbn [run_stmts_f]; mono. }
  rewrite !run_body_eq. mono.
Qed.

(* ---------------------------------------------------------------- theorems *)
Theorem eval_fuel_mono : forall strict (f f' : nat) e sc w, (f <= f')%nat ->
  finished (eval_g strict f e sc w) -> eval_g strict f' e sc w = eval_g strict f e sc w.
Proof.
  intros strict f f' e sc w L S. destruct (mono_all strict f f' L) as (H & _).
  apply H. apply finished_stuckb. exact S.
Qed.

Theorem eval_for_fuel_mono : forall strict (f f' : nat) q sc w, (f <= f')%nat ->
  finished (eval_for_g strict f q sc w) -> eval_for_g strict f' q sc w = eval_for_g strict f q sc w.
Proof.
  intros strict f f' q sc w L S. destruct (mono_all strict f f' L) as (_ & H & _).
  apply H. apply finished_stuckb. exact S.
Qed.

Theorem iterate_fuel_mono : forall strict (f f' : nat) d sc w, (f <= f')%nat ->
  finished (iterate_g strict f d sc w) -> iterate_g strict f' d sc w = iterate_g strict f d sc w.
Proof.
  intros strict f f' d sc w L S. destruct (mono_all strict f f' L) as (_ & _ & H & _).
  apply H. apply finished_stuckb. exact S.
Qed.

Theorem next_fuel_mono : forall strict (f f' : nat) it sc w, (f <= f')%nat ->
  finished (next_g strict f it sc w) -> next_g strict f' it sc w = next_g strict f it sc w.
Proof.
  intros strict f f' it sc w L S. destruct (mono_all strict f f' L) as (_ & _ & _ & H).
  apply H. apply finished_stuckb. exact S.
Qed.

Theorem run_body_fuel_mono : forall strict (f f' : nat) p w, (f <= f')%nat ->
  finished (run_body_g strict f p w) -> run_body_g strict f' p w = run_body_g strict f p w.
Proof.
  intros strict f f' p w L S. apply (run_body_refines strict f f' p L). apply finished_stuckb. exact S.
Qed.

Corollary run_body_deterministic_in_fuel : forall strict (f1 f2 : nat) p w,
  finished (run_body_g strict f1 p w) -> finished (run_body_g strict f2 p w) ->
  run_body_g strict f1 p w = run_body_g strict f2 p w.
Proof.
  intros strict f1 f2 p w S1 S2. destruct (Nat.le_ge_cases f1 f2) as [L|L].
  - symmetry. apply run_body_fuel_mono; assumption.
  - apply run_body_fuel_mono; assumption.
Qed.

(* ---------------------------------------------------------------- regression:
   the program on which the first version of the model was not monotone *)
Fixpoint nest_pos (n : nat) (e : expr) : expr :=
  match n with O => e | S k => EUn UPos (nest_pos k e) end.
(* FOR x IN [2, 1] SORT 0, +(+(+(+(+(+x))))) RETURN x *)
Definition cex_for : forq :=
  ForIn (bs "x") None (EArr [EInt 2; EInt 1])
        [CSort [(EInt 0, false); (nest_pos 6 (EVar (bs "x")), false)]]
        (RReturn false (EVar (bs "x"))).
Definition cex_program : program := {| p_stmts := []; p_ret := BFor cex_for |}.

(* fuels 5..8 used to give OutOfDomain (a finished outcome that more fuel changed) *)
Lemma cex_program_runs : forall strict,
  let w := init_world [] false None in
  fst (run_body_g strict 5 cex_program w) = OutOfFuel /\
  fst (run_body_g strict 8 cex_program w) = OutOfFuel /\
  run_body_g strict 9 cex_program w = (Ok (VArr [VInt 1; VInt 2]), w) /\
  run_body_g strict 40 cex_program w = (Ok (VArr [VInt 1; VInt 2]), w).
Proof. intros strict w. destruct strict; repeat split; vm_compute; reflexivity. Qed.
