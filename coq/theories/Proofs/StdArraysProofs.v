(* Proofs/StdArraysProofs.v — the mirrors of the array functions meet their
   specifications (C16); where the pinned code does not, the guarded statement,
   a refutation with its witness, and the statement for the proposed repair. *)
From Ferret Require Import Value Compare StdArrays Proofs.ValueInd Proofs.CompareProofs Proofs.SortProofs.
From Coq Require Import Lia Permutation SetoidList SetoidPermutation.

(* ================================================================== *)
(* equality tests reflect equality                                      *)
Lemma bytes_eqb_eq a b : bytes_eqb a b = true <-> a = b.
Proof.
  unfold bytes_eqb. split.
  - destruct (lexcmp a b) eqn:E; try discriminate. intros _. now apply lexcmp_eq.
  - intros ->. now rewrite lexcmp_refl.
Qed.
Lemma bytes_eqb_refl a : bytes_eqb a a = true.
Proof. now apply bytes_eqb_eq. Qed.
Lemma bytes_eqb_sym a b : bytes_eqb a b = bytes_eqb b a.
Proof.
  destruct (bytes_eqb a b) eqn:E1, (bytes_eqb b a) eqn:E2; auto.
  - apply bytes_eqb_eq in E1. subst. now rewrite bytes_eqb_refl in E2.
  - apply bytes_eqb_eq in E2. subst. now rewrite bytes_eqb_refl in E1.
Qed.

Lemma value_eqb_eq : forall a b, value_eqb a b = true <-> a = b.
Proof.
  induction a as [|b1|z1|f1|s1|s1 n1 o1|l IH|m IH|b1] using value_ind'; intros c; destruct c; cbn;
    try (split; [discriminate | intros E; discriminate E]).
  - tauto.
  - rewrite Bool.eqb_true_iff. split; [now intros -> | now intros [= ->]].
  - rewrite Z.eqb_eq. split; [now intros -> | now intros [= ->]].
  - rewrite N.eqb_eq. split; [now intros -> | now intros [= ->]].
  - rewrite bytes_eqb_eq. split; [now intros -> | now intros [= ->]].
  - rewrite !andb_true_iff, !Z.eqb_eq. split; [intros [[-> ->] ->]; reflexivity | intros [= -> -> ->]; auto].
  - rename l0 into l'. revert l'. induction IH as [|x xs Hx _ IHxs]; intros [|y ys]; cbn;
      try (split; [discriminate | intros E; discriminate E]).
    + tauto.
    + rewrite andb_true_iff, Hx. specialize (IHxs ys). split.
      * intros [-> H2]. apply IHxs in H2. now inversion H2.
      * intros [= -> ->]. split; [reflexivity|]. now apply IHxs.
  - rename m0 into m'. revert m'. induction IH as [|[k x] xs Hx _ IHxs]; intros [|[k' y] ys]; cbn;
      try (split; [discriminate | intros E; discriminate E]).
    + tauto.
    + cbn in Hx. rewrite !andb_true_iff, Hx, bytes_eqb_eq. specialize (IHxs ys). split.
      * intros [[-> ->] H2]. apply IHxs in H2. now inversion H2.
      * intros [= -> -> ->]. repeat split; auto. now apply IHxs.
  - rewrite bytes_eqb_eq. split; [now intros -> | now intros [= ->]].
Qed.

(* hash identity (modelled as structural identity) is an equivalence *)
Lemma heq_iff a b : heq a b = true <-> struct_eq a b.
Proof. unfold heq, struct_eqb, struct_eq. apply value_eqb_eq. Qed.
Lemma heq_refl a : heq a a = true.
Proof. now apply heq_iff. Qed.
Lemma heq_sym a b : heq a b = heq b a.
Proof.
  destruct (heq a b) eqn:E1, (heq b a) eqn:E2; auto.
  - apply heq_iff in E1. symmetry in E1. apply heq_iff in E1. congruence.
  - apply heq_iff in E2. symmetry in E2. apply heq_iff in E2. congruence.
Qed.
Lemma heq_trans a b c : heq a b = true -> heq b c = true -> heq a c = true.
Proof. rewrite !heq_iff. unfold struct_eq. congruence. Qed.
Lemma heq_false_trans a b c : heq a b = true -> heq a c = false -> heq b c = false.
Proof.
  intros H1 H2. destruct (heq b c) eqn:E; auto.
  rewrite (heq_trans a b c H1 E) in H2. discriminate.
Qed.
Lemma heq_cong_l a b c : heq a b = true -> heq a c = heq b c.
Proof.
  intros H. destruct (heq a c) eqn:E.
  - symmetry. rewrite heq_sym in H. now apply (heq_trans b a c).
  - symmetry. now apply (heq_false_trans a b c).
Qed.
Lemma heq_cong_r a b c : heq a b = true -> heq c a = heq c b.
Proof. intros H. rewrite (heq_sym c a), (heq_sym c b). now apply heq_cong_l. Qed.

Global Instance struct_eq_equiv : Equivalence struct_eq.
Proof. unfold struct_eq. split; congruence. Qed.

(* membership up to hash identity *)
Definition hmem (x : value) (l : list value) : Prop := exists y, In y l /\ struct_eq y x.
Lemma hmemb_iff x l : hmemb x l = true <-> hmem x l.
Proof.
  unfold hmemb, hmem. rewrite existsb_exists. split; intros [y [H1 H2]]; exists y; split; auto;
    now apply heq_iff.
Qed.
Lemma hmemb_cong x y l : heq x y = true -> hmemb x l = hmemb y l.
Proof.
  intros H. unfold hmemb. induction l as [|z l IH]; cbn; [reflexivity|].
  rewrite IH. f_equal. now apply heq_cong_r.
Qed.
Lemma hmem_nil x : ~ hmem x [].
Proof. intros [y [[] _]]. Qed.
Lemma hmem_cons x y l : hmem x (y :: l) <-> struct_eq y x \/ hmem x l.
Proof.
  unfold hmem. split.
  - intros [z [[->|H] E]]; [now left | right; now exists z].
  - intros [E|[z [H E]]]; [exists y; cbn; auto | exists z; cbn; auto].
Qed.
Lemma hmem_app x a b : hmem x (a ++ b) <-> hmem x a \/ hmem x b.
Proof.
  unfold hmem. split.
  - intros [z [H E]]. apply in_app_or in H as [H|H]; [left|right]; now exists z.
  - intros [[z [H E]]|[z [H E]]]; exists z; split; auto; apply in_or_app; auto.
Qed.
Lemma hmemb_app x a b : hmemb x (a ++ b) = hmemb x a || hmemb x b.
Proof. unfold hmemb. apply existsb_app. Qed.
Lemma hmem_in x l : In x l -> hmem x l.
Proof. intros H. exists x. split; [exact H | reflexivity]. Qed.

Definition set_eq (a b : list value) : Prop := forall x, hmem x a <-> hmem x b.
Definition nodup_h (l : list value) : Prop := NoDupA struct_eq l.

Lemma inA_hmem x l : InA struct_eq x l <-> hmem x l.
Proof.
  rewrite InA_alt. unfold hmem. split; intros [y [H1 H2]]; exists y; split; auto; now symmetry.
Qed.

(* ================================================================== *)
(* what it means for an outcome to meet a specification                 *)
Inductive meets : res -> sres -> Prop :=
| MUnspec o : meets o SUnspec
| MErr' : meets Err SErr
| MOkArray l : meets (Ok (VArr l)) SOkArray
| MVal' v w : struct_eq w v -> meets (Ok w) (SVal v)
| MPerm l r : PermutationA struct_eq l r -> meets (Ok (VArr r)) (SPerm l)
| MSet l r : set_eq l r -> meets (Ok (VArr r)) (SSet l)
| MSetNoDup l r : set_eq l r -> nodup_h r -> meets (Ok (VArr r)) (SSetNoDup l)
| MSortedPerm l r : sortedb r = true -> PermutationA struct_eq l r -> meets (Ok (VArr r)) (SSortedPerm l)
| MSortedSet l r : sortedb r = true -> set_eq l r -> nodup_h r -> meets (Ok (VArr r)) (SSortedSet l).

Lemma meets_val_eq v : meets (Ok v) (SVal v).
Proof. constructor. reflexivity. Qed.

(* ================================================================== *)
(* positional functions                                                 *)
Lemma zlen_cons {A} (x : A) l : zlen (x :: l) = zlen l + 1.
Proof. unfold zlen. cbn [List.length]. lia. Qed.
Lemma zlen_nonneg {A} (l : list A) : 0 <= zlen l.
Proof. unfold zlen. lia. Qed.
Lemma zlen_nil {A} : zlen (@nil A) = 0.
Proof. reflexivity. Qed.

Lemma arr_get_ok l i : 0 <= i < zlen l -> arr_get l i = Ok (nth (Z.to_nat i) l VNone).
Proof.
  intros H. unfold arr_get.
  destruct (zlen l - 1 <? 0) eqn:E1; [lia|].
  destruct (i >? zlen l - 1) eqn:E2; [lia|].
  destruct (i <? 0) eqn:E3; [lia|].
  rewrite (nth_error_nth' l VNone); [reflexivity|]. unfold zlen in H. lia.
Qed.
Lemma arr_get_high l i : zlen l <= i -> arr_get l i = Ok VNone.
Proof.
  intros H. unfold arr_get.
  destruct (zlen l - 1 <? 0) eqn:E1; [reflexivity|].
  destruct (i >? zlen l - 1) eqn:E2; [reflexivity|lia].
Qed.
Lemma arr_get_nil i : arr_get [] i = Ok VNone.
Proof. reflexivity. Qed.
Lemma arr_get_neg l i : i < 0 -> l <> [] -> arr_get l i = Panic.
Proof.
  intros H Hl. unfold arr_get. destruct l as [|x l]; [congruence|]. rewrite zlen_cons.
  pose proof (zlen_nonneg l).
  destruct (zlen l + 1 - 1 <? 0) eqn:E1; [lia|].
  destruct (i >? zlen l + 1 - 1) eqn:E2; [lia|].
  destruct (i <? 0) eqn:E3; [reflexivity|lia].
Qed.

Lemma last_nth {A} (l : list A) d : last l d = nth (List.length l - 1) l d.
Proof.
  induction l as [|x [|y r] IH]; try reflexivity.
  change (last (x :: y :: r) d) with (last (y :: r) d). rewrite IH. cbn [List.length nth].
  replace (S (S (List.length r)) - 1)%nat with (S (List.length r)) by lia.
  replace (S (List.length r) - 1)%nat with (List.length r) by lia. reflexivity.
Qed.

Lemma first_spec l : m_first [VArr l] = Ok (hd VNone l).
Proof.
  cbn. destruct l as [|x r]; [reflexivity|].
  rewrite arr_get_ok; [reflexivity|]. rewrite zlen_cons. pose proof (zlen_nonneg r). lia.
Qed.
Lemma last_spec l : m_last [VArr l] = Ok (last l VNone).
Proof.
  cbn. destruct l as [|x r]; [reflexivity|].
  rewrite arr_get_ok by (rewrite zlen_cons; pose proof (zlen_nonneg r); lia).
  rewrite last_nth. f_equal. f_equal. unfold zlen. lia.
Qed.

Lemma nth_spec_guarded l i : 0 <= i \/ l = [] ->
  m_nth [VArr l; VInt i] = Ok (s_nth_or_none l i).
Proof.
  intros H. cbn. unfold s_nth_or_none.
  destruct H as [H| ->]; [|rewrite arr_get_nil; destruct ((0 <=? i) && (i <? zlen [])); [destruct (Z.to_nat i)|]; reflexivity].
  destruct (Z.ltb_spec i (zlen l)) as [L|L].
  - rewrite arr_get_ok by lia. destruct (0 <=? i) eqn:E; [reflexivity|lia].
  - rewrite arr_get_high by lia. now rewrite andb_false_r.
Qed.
Lemma nth_refuted : exists l i, m_nth [VArr l; VInt i] = Panic /\ s_nth [VArr l; VInt i] = SVal VNone.
Proof. exists [VInt 1], (-1). split; reflexivity. Qed.
Lemma nth_fx_spec l i : m_nth_fx [VArr l; VInt i] = Ok (s_nth_or_none l i).
Proof.
  cbn. unfold arr_get_fx, s_nth_or_none.
  destruct (zlen l - 1 <? 0) eqn:E1.
  - destruct ((0 <=? i) && (i <? zlen l)) eqn:E; [lia|reflexivity].
  - destruct (i <? 0) eqn:E2; cbn [orb].
    + destruct (0 <=? i) eqn:E; [lia|reflexivity].
    + destruct (i >? zlen l - 1) eqn:E3.
      * destruct (i <? zlen l) eqn:E; [lia|]. now rewrite andb_false_r.
      * rewrite (nth_error_nth' l VNone) by (unfold zlen in *; lia).
        destruct (0 <=? i) eqn:E4; [|lia]. destruct (i <? zlen l) eqn:E5; [reflexivity|lia].
Qed.

(* SLICE *)
Lemma skipn_all3 {A} n (l : list A) : (List.length l <= n)%nat -> skipn n l = [].
Proof. apply skipn_all2. Qed.

Lemma slice_spec_from l s : 0 <= s ->
  m_slice [VArr l; VInt s] = Ok (VArr (s_window l s None)).
Proof.
  intros H. cbn. unfold slice_res, arr_slice, s_window.
  rewrite Z.max_l by lia.
  destruct (s >=? zlen l) eqn:E1.
  - rewrite skipn_all3 by (unfold zlen in *; lia). now rewrite firstn_nil.
  - destruct (zlen l >? zlen l) eqn:E2; [lia|].
    destruct (s <? 0) eqn:E3; [lia|]. destruct (zlen l <? s) eqn:E4; [lia|]. reflexivity.
Qed.
Lemma slice_spec_count l s n : 0 <= s -> 0 < n ->
  m_slice [VArr l; VInt s; VInt n] = Ok (VArr (s_window l s (Some n))).
Proof.
  intros H Hn. cbn. destruct (n >? 0) eqn:En; [|lia].
  unfold slice_res, arr_slice, s_window. rewrite Z.max_l by lia.
  destruct (s >=? zlen l) eqn:E1.
  - rewrite skipn_all3 by (unfold zlen in *; lia). now rewrite firstn_nil.
  - destruct (s + n >? zlen l) eqn:E2.
    + rewrite Z.min_r by lia. destruct (s <? 0) eqn:E3; [lia|]. destruct (zlen l <? s) eqn:E4; [lia|]. reflexivity.
    + rewrite Z.min_l by lia. destruct (s <? 0) eqn:E3; [lia|]. destruct (s + n <? s) eqn:E4; [lia|]. reflexivity.
Qed.
Lemma slice_refuted : exists l s, m_slice [VArr l; VInt s] = Panic /\ s_slice [VArr l; VInt s] = SVal (VArr l).
Proof. exists [VInt 1; VInt 2], (-1). split; reflexivity. Qed.
(* a window that starts before the first element is clipped, not shifted *)
Lemma slice_fx_negative_start l s n : s < 0 ->
  m_slice_fx [VArr l; VInt s] = Ok (VArr l) /\
  (0 < n -> m_slice_fx [VArr l; VInt s; VInt n] = Ok (VArr (firstn (Z.to_nat (s + n)) l))).
Proof.
  intros Hs.
  assert (Hlen : 0 <= zlen l) by (unfold zlen; lia).
  split.
  - cbn. unfold arr_slice_fx.
    destruct (s >=? zlen l) eqn:E1; [lia|].
    destruct (zlen l >? zlen l) eqn:E2; [lia|].
    destruct (s <? 0) eqn:E3; [|lia].
    destruct (zlen l <? 0) eqn:E4; [lia|].
    cbn [Z.to_nat skipn]. rewrite Z.sub_0_r. unfold zlen. rewrite Nat2Z.id. now rewrite firstn_all.
  - intros Hn. cbn. destruct (n >? 0) eqn:En; [|lia]. unfold arr_slice_fx.
    destruct (s >=? zlen l) eqn:E1; [lia|].
    destruct (s <? 0) eqn:E3; [|lia].
    cbn [Z.to_nat skipn].
    destruct (s + n >? zlen l) eqn:E2.
    + destruct (zlen l <? 0) eqn:E4; [lia|]. rewrite Z.sub_0_r. unfold zlen in *. rewrite Nat2Z.id.
      rewrite firstn_all. rewrite firstn_all2 by lia. reflexivity.
    + destruct (s + n <? 0) eqn:E4.
      * rewrite Z.sub_0_r. replace (Z.to_nat (s + n)) with 0%nat by lia. reflexivity.
      * now rewrite Z.sub_0_r.
Qed.
Lemma slice_fx_never_fails l s : exists r, m_slice_fx [VArr l; VInt s] = Ok (VArr r).
Proof. cbn. eauto. Qed.
Lemma slice_fx_spec_from l s : 0 <= s ->
  m_slice_fx [VArr l; VInt s] = Ok (VArr (s_window l s None)).
Proof.
  intros H. cbn. unfold arr_slice_fx, s_window. rewrite Z.max_l by lia.
  destruct (s >=? zlen l) eqn:E1.
  - rewrite skipn_all3 by (unfold zlen in *; lia). now rewrite firstn_nil.
  - destruct (zlen l >? zlen l) eqn:E2; [lia|].
    destruct (s <? 0) eqn:E3; [lia|]. destruct (zlen l <? s) eqn:E4; [lia|]. reflexivity.
Qed.
Lemma slice_fx_spec_count l s n : 0 < n ->
  m_slice_fx [VArr l; VInt s; VInt n] = Ok (VArr (s_window l s (Some n))).
Proof.
  intros Hn. cbn. destruct (n >? 0) eqn:En; [|lia].
  unfold arr_slice_fx, s_window. pose proof (zlen_nonneg l) as Hl.
  destruct (s >=? zlen l) eqn:E1.
  - rewrite Z.max_l by lia. rewrite skipn_all3 by (unfold zlen in *; lia). now rewrite firstn_nil.
  - destruct (s + n >? zlen l) eqn:E2; destruct (s <? 0) eqn:E3.
    + rewrite Z.min_r, Z.max_r by lia. destruct (zlen l <? 0) eqn:E4; [lia|]. reflexivity.
    + rewrite Z.min_r, Z.max_l by lia. destruct (zlen l <? s) eqn:E4; [lia|]. reflexivity.
    + rewrite Z.min_l, Z.max_r by lia. destruct (s + n <? 0) eqn:E4.
      * replace (Z.to_nat (0 - 0)) with O by lia. replace (Z.to_nat (s + n - 0)) with O by lia. reflexivity.
      * reflexivity.
    + rewrite Z.min_l, Z.max_l by lia. destruct (s + n <? s) eqn:E4; [lia|]. reflexivity.
Qed.

(* REMOVE_NTH *)
Lemma s_remove_at_out (l : list value) k : k < 0 \/ zlen l <= k -> s_remove_at l k = l.
Proof.
  intros H. unfold s_remove_at. destruct ((0 <=? k) && (k <? zlen l)) eqn:E; [lia|reflexivity].
Qed.
Lemma s_remove_at_cons x l k : k <> 0 -> s_remove_at (x :: l) k = x :: s_remove_at l (k - 1).
Proof.
  intros H. unfold s_remove_at. rewrite zlen_cons.
  destruct ((0 <=? k) && (k <? zlen l + 1)) eqn:E1; destruct ((0 <=? k - 1) && (k - 1 <? zlen l)) eqn:E2; try lia.
  - replace (Z.to_nat k) with (S (Z.to_nat (k - 1))) by lia. reflexivity.
  - reflexivity.
Qed.
Lemma loop_remove_nth_spec l : forall idx index,
  loop_remove_nth l idx index = s_remove_at l (index - idx).
Proof.
  induction l as [|x r IH]; intros idx index; cbn [loop_remove_nth].
  - unfold s_remove_at. destruct ((0 <=? index - idx) && (index - idx <? zlen [])); [now rewrite firstn_nil | reflexivity].
  - destruct (idx =? index) eqn:E.
    + rewrite IH. rewrite s_remove_at_out by lia.
      replace (index - idx) with 0 by lia. unfold s_remove_at. rewrite zlen_cons.
      pose proof (zlen_nonneg r). destruct ((0 <=? 0) && (0 <? zlen r + 1)) eqn:E2; [reflexivity|lia].
    + rewrite IH, s_remove_at_cons by lia. f_equal. f_equal. lia.
Qed.
Lemma remove_nth_spec_guarded l i : l <> [] ->
  m_remove_nth [VArr l; VInt i] = Ok (VArr (s_remove_at l i)).
Proof.
  intros H. cbn. destruct l as [|x r]; [congruence|]. rewrite zlen_cons. pose proof (zlen_nonneg r).
  destruct (zlen r + 1 - 1 <? 0) eqn:E; [lia|]. rewrite loop_remove_nth_spec. now rewrite Z.sub_0_r.
Qed.
Lemma remove_nth_refuted : exists i, m_remove_nth [VArr []; VInt i] = Panic
                                     /\ s_remove_nth [VArr []; VInt i] = SVal (VArr []).
Proof. exists 0. split; reflexivity. Qed.
Lemma remove_nth_fx_spec l i : m_remove_nth_fx [VArr l; VInt i] = Ok (VArr (s_remove_at l i)).
Proof. cbn. rewrite loop_remove_nth_spec. now rewrite Z.sub_0_r. Qed.

(* POP / SHIFT *)
Lemma loop_pop_spec l : forall idx, loop_pop l idx (idx + zlen l - 1) = removelast l.
Proof.
  induction l as [|x r IH]; intros idx; [reflexivity|]. cbn [loop_pop]. rewrite zlen_cons.
  destruct r as [|y r'].
  - rewrite zlen_nil. destruct (idx =? idx + (0 + 1) - 1) eqn:E; [reflexivity|lia].
  - pose proof (zlen_nonneg r'). rewrite zlen_cons.
    destruct (idx =? idx + (zlen r' + 1 + 1) - 1) eqn:E; [lia|].
    replace (idx + (zlen r' + 1 + 1) - 1) with ((idx + 1) + zlen (y :: r') - 1) by (rewrite zlen_cons; lia).
    rewrite IH. reflexivity.
Qed.
Lemma pop_spec l : m_pop [VArr l] = Ok (VArr (removelast l)).
Proof. cbn. replace (zlen l - 1) with (0 + zlen l - 1) by lia. now rewrite loop_pop_spec. Qed.

Lemma loop_shift_pos l : forall idx, 0 < idx -> loop_shift l idx = l.
Proof.
  induction l as [|x r IH]; intros idx H; [reflexivity|]. cbn. destruct (idx =? 0) eqn:E; [lia|].
  rewrite IH by lia. reflexivity.
Qed.
Lemma shift_spec l : m_shift [VArr l] = Ok (VArr (tl l)).
Proof. cbn. destruct l as [|x r]; [reflexivity|]. cbn. now rewrite loop_shift_pos by lia. Qed.

(* APPEND / PUSH / UNSHIFT / REMOVE_VALUES: the loops are the list expressions *)
Lemma append_spec l x : m_append [VArr l; x] = Ok (VArr (l ++ [x])).
Proof. reflexivity. Qed.
Lemma append_unique_spec l x u :
  m_append [VArr l; x; VBool u] = Ok (VArr (if u && cmemb x l then l else l ++ [x])).
Proof. reflexivity. Qed.
Lemma unshift_unique_spec l x u :
  m_unshift [VArr l; x; VBool u] = Ok (VArr (if u && cmemb x l then l else x :: l)).
Proof. reflexivity. Qed.

(* REMOVE_VALUE *)
Definition occ (x : value) (l : list value) : Z := zlen (filter (fun it => ceq it x) l).
Lemma occ_cons x it l : occ x (it :: l) = (if ceq it x then 1 else 0) + occ x l.
Proof. unfold occ. cbn. destruct (ceq it x); [rewrite zlen_cons|]; lia. Qed.
Lemma occ_nonneg x l : 0 <= occ x l.
Proof. apply zlen_nonneg. Qed.

Lemma remove_first_n_zero l x : remove_first_n l x (Some O) = l.
Proof. induction l as [|it r IH]; cbn; [reflexivity|]. destruct (ceq it x); [reflexivity|]. now rewrite IH. Qed.
Lemma loop_remove_value_all l x : forall c, 0 <= c ->
  loop_remove_value l x c (-1) = remove_first_n l x None.
Proof.
  induction l as [|it r IH]; intros c H; cbn; [reflexivity|].
  destruct (ceq it x).
  - destruct (c =? -1) eqn:E; [lia|]. apply IH. lia.
  - f_equal. now apply IH.
Qed.
Lemma loop_remove_value_none l x lim : forall c, occ x l = 0 -> loop_remove_value l x c lim = l.
Proof.
  induction l as [|it r IH]; intros c H; cbn; [reflexivity|]. rewrite occ_cons in H.
  pose proof (occ_nonneg x r). destruct (ceq it x); [lia|]. f_equal. apply IH. lia.
Qed.
Lemma loop_remove_value_limit l x lim : forall c, 0 <= c <= lim -> occ x l <= lim - c + 1 ->
  loop_remove_value l x c lim = remove_first_n l x (Some (Z.to_nat (lim - c))).
Proof.
  induction l as [|it r IH]; intros c Hc Ho; cbn; [reflexivity|]. rewrite occ_cons in Ho.
  pose proof (occ_nonneg x r). destruct (ceq it x) eqn:Ec.
  - destruct (c =? lim) eqn:E.
    + replace (Z.to_nat (lim - c)) with O by lia. f_equal. apply loop_remove_value_none. lia.
    + replace (Z.to_nat (lim - c)) with (S (Z.to_nat (lim - (c + 1)))) by lia. apply IH; lia.
  - f_equal. apply IH; lia.
Qed.
Lemma remove_value_spec_all l x : m_remove_value [VArr l; x] = Ok (VArr (remove_first_n l x None)).
Proof. cbn. now rewrite loop_remove_value_all by lia. Qed.
Lemma remove_value_spec_guarded l x lim : 0 <= lim -> occ x l <= lim + 1 ->
  m_remove_value [VArr l; x; VInt lim] = Ok (VArr (remove_first_n l x (Some (Z.to_nat lim)))).
Proof. intros H Ho. cbn. rewrite loop_remove_value_limit by lia. now rewrite Z.sub_0_r. Qed.
Lemma remove_value_refuted : exists l x lim,
  m_remove_value [VArr l; x; VInt lim] = Ok (VArr [VInt 1]) /\
  s_remove_value [VArr l; x; VInt lim] = SVal (VArr [VInt 1; VInt 1]).
Proof. exists [VInt 1; VInt 1; VInt 1], (VInt 1), 1. split; reflexivity. Qed.

Lemma loop_remove_value_fx_all l x : forall c,
  loop_remove_value_fx l x c (-1) = remove_first_n l x None.
Proof.
  induction l as [|it r IH]; intros c; cbn; [reflexivity|].
  destruct (ceq it x); [apply IH | f_equal; apply IH].
Qed.
Lemma loop_remove_value_fx_limit l x lim : forall c, 0 <= lim ->
  loop_remove_value_fx l x c lim = remove_first_n l x (Some (Z.to_nat (lim - c))).
Proof.
  induction l as [|it r IH]; intros c Hl; cbn; [reflexivity|].
  destruct (ceq it x) eqn:Ec.
  - destruct (lim >? -1) eqn:E0; [|lia]. cbn [andb]. destruct (c >=? lim) eqn:E.
    + replace (Z.to_nat (lim - c)) with O by lia. f_equal. rewrite IH by lia.
      replace (Z.to_nat (lim - (c + 1))) with O by lia. apply remove_first_n_zero.
    + replace (Z.to_nat (lim - c)) with (S (Z.to_nat (lim - (c + 1)))) by lia. apply IH; lia.
  - f_equal. apply IH; lia.
Qed.
Lemma remove_value_fx_spec_all l x : m_remove_value_fx [VArr l; x] = Ok (VArr (remove_first_n l x None)).
Proof. cbn. now rewrite loop_remove_value_fx_all. Qed.
Lemma remove_value_fx_spec l x lim : 0 <= lim ->
  m_remove_value_fx [VArr l; x; VInt lim] = Ok (VArr (remove_first_n l x (Some (Z.to_nat lim)))).
Proof. intros H. cbn. rewrite loop_remove_value_fx_limit by lia. now rewrite Z.sub_0_r. Qed.

(* REVERSE *)
Lemma firstn_S_nth {A} (l : list A) d : forall k, (k < List.length l)%nat ->
  firstn (S k) l = firstn k l ++ [nth k l d].
Proof.
  induction l as [|x r IH]; intros k H; cbn in H; [lia|].
  destruct k as [|k]; [reflexivity|].
  change (x :: firstn (S k) r = (x :: firstn k r) ++ [nth k r d]).
  rewrite (IH k) by lia. reflexivity.
Qed.
Lemma loop_reverse_spec l : forall n, (n <= List.length l)%nat ->
  loop_reverse l n = Some (rev (firstn n l)).
Proof.
  induction n as [|k IH]; intros H; [reflexivity|]. cbn [loop_reverse].
  rewrite arr_get_ok by (unfold zlen; lia). rewrite IH by lia.
  rewrite (firstn_S_nth l VNone) by lia. rewrite rev_app_distr. cbn. now rewrite Nat2Z.id.
Qed.
Lemma reverse_spec l : m_reverse [VArr l] = Ok (VArr (rev l)).
Proof. cbn. rewrite loop_reverse_spec by lia. now rewrite firstn_all. Qed.

(* LENGTH / INCLUDES / POSITION *)
Lemma ceq_sym a b : ceq a b = ceq b a.
Proof.
  unfold ceq. rewrite (vcompare_antisym a b).
  destruct (vcompare a b =? 0) eqn:E1, (- vcompare a b =? 0) eqn:E2; try reflexivity; lia.
Qed.
Lemma includes_spec l x : m_includes [VArr l; x] = Ok (VBool (cmemb x l)).
Proof.
  cbn. do 2 f_equal. unfold cmemb. induction l as [|y r IH]; cbn; [reflexivity|].
  rewrite IH. f_equal. apply (ceq_sym x y).
Qed.
Lemma index_of_aux_range {A} (p : A -> bool) l : forall i,
  index_of_aux p l i = -1 \/ i <= index_of_aux p l i.
Proof.
  induction l as [|x r IH]; intros i; cbn; [now left|].
  destruct (p x); [right; lia|]. destruct (IH (i + 1)); [now left | right; lia].
Qed.
Lemma index_of_aux_found {A} (p : A -> bool) l : forall i, 0 <= i ->
  (index_of_aux p l i >? -1) = existsb p l.
Proof.
  induction l as [|x r IH]; intros i H; cbn; [reflexivity|].
  destruct (p x); cbn; [destruct (i >? -1) eqn:E; [reflexivity|lia]|]. apply IH. lia.
Qed.
Lemma position_found l x : (position l x >? -1) = cmemb x l.
Proof. unfold position, index_of, cmemb, ceq. now apply index_of_aux_found. Qed.
Lemma position_spec_bool l x : m_position [VArr l; x] = Ok (VBool (cmemb x l)).
Proof. cbn. now rewrite position_found. Qed.

(* ================================================================== *)
(* hash tables: uniq_loop / to_unique                                   *)
Lemma hmemb_cons y x r : hmemb y (x :: r) = heq x y || hmemb y r.
Proof. reflexivity. Qed.

Lemma hmemb_uniq_loop y l : forall seen,
  hmemb y (uniq_loop l seen) = hmemb y l && negb (hmemb y seen).
Proof.
  induction l as [|x r IH]; intros seen; [reflexivity|]. cbn [uniq_loop].
  destruct (hmemb x seen) eqn:Es.
  - rewrite IH, hmemb_cons. destruct (heq x y) eqn:Exy; [|reflexivity].
    rewrite <- (hmemb_cong x y seen Exy), Es. cbn. now rewrite andb_false_r.
  - rewrite !hmemb_cons, IH, hmemb_cons. destruct (heq x y) eqn:Exy; cbn.
    + rewrite <- (hmemb_cong x y seen Exy), Es. reflexivity.
    + reflexivity.
Qed.
Lemma hmemb_true_inA y l : hmemb y l = true <-> InA struct_eq y l.
Proof. rewrite inA_hmem. apply hmemb_iff. Qed.
Lemma nodup_uniq_loop l : forall seen, nodup_h (uniq_loop l seen).
Proof.
  induction l as [|x r IH]; intros seen; cbn [uniq_loop]; [constructor|].
  destruct (hmemb x seen) eqn:Es; [apply IH|]. constructor; [|apply IH].
  rewrite <- hmemb_true_inA, hmemb_uniq_loop, hmemb_cons, heq_refl. cbn.
  rewrite andb_false_r. discriminate.
Qed.
Lemma to_unique_set l : set_eq l (to_unique l).
Proof.
  intros y. rewrite <- !hmemb_iff. unfold to_unique. rewrite hmemb_uniq_loop. cbn.
  now rewrite andb_true_r.
Qed.
Lemma to_unique_nodup l : nodup_h (to_unique l).
Proof. apply nodup_uniq_loop. Qed.

Lemma hmemb_to_unique y l : hmemb y (to_unique l) = hmemb y l.
Proof. unfold to_unique. rewrite hmemb_uniq_loop. cbn. now rewrite andb_true_r. Qed.

(* filters by a predicate that respects hash identity *)
Definition respects (p : value -> bool) : Prop := forall a b, heq a b = true -> p a = p b.
Lemma hmemb_filter p l z : respects p -> hmemb z (filter p l) = hmemb z l && p z.
Proof.
  intros Hp. induction l as [|x r IH]; [reflexivity|]. cbn [filter]. rewrite hmemb_cons.
  destruct (p x) eqn:Epx.
  - rewrite hmemb_cons, IH. destruct (heq x z) eqn:E; cbn; [|reflexivity].
    now rewrite <- (Hp x z E), Epx.
  - rewrite IH. destruct (heq x z) eqn:E; cbn; [|reflexivity].
    rewrite <- (Hp x z E), Epx. now rewrite andb_false_r.
Qed.
Lemma nodup_filter p l : nodup_h l -> nodup_h (filter p l).
Proof.
  induction 1 as [|x r Hx Hr IH]; cbn; [constructor|].
  destruct (p x); [|exact IH]. constructor; [|exact IH].
  intros Hin. apply Hx. rewrite InA_alt in *. destruct Hin as [y [E Hy]].
  apply filter_In in Hy as [Hy _]. now exists y.
Qed.
Lemma respects_negb_hmemb l : respects (fun x => negb (hmemb x l)).
Proof. intros a b H. now rewrite (hmemb_cong a b l H). Qed.

(* ---- UNIQUE, UNION, UNION_DISTINCT *)
Lemma unique_meets args : meets (m_unique args) (s_unique args).
Proof.
  destruct args as [|a [|b r]]; cbn; [constructor | | destruct a; constructor].
  destruct a; cbn; try constructor.
  - apply to_unique_set.
  - apply to_unique_nodup.
Qed.
Lemma union_meets args : meets (m_union args) (s_union args).
Proof.
  unfold m_union, s_union, arrays_of. destruct (arity_ge 2 args && all_arrays args); constructor.
  reflexivity.
Qed.
Lemma union_distinct_meets args : meets (m_union_distinct args) (s_union_distinct args).
Proof.
  unfold m_union_distinct, s_union_distinct, arrays_of.
  destruct (arity_ge 2 args && all_arrays args); constructor.
  - apply to_unique_set.
  - apply to_unique_nodup.
Qed.

(* ---- MINUS *)
Lemma hmemb_tbl_set y x t : hmemb y (tbl_set x t) = heq x y || hmemb y t.
Proof.
  induction t as [|z r IH]; cbn [tbl_set]; [now rewrite !hmemb_cons, orb_false_r|].
  destruct (heq z x) eqn:E.
  - rewrite !hmemb_cons. rewrite (heq_cong_l z x y E). now destruct (heq x y).
  - rewrite !hmemb_cons, IH. destruct (heq z y), (heq x y); reflexivity.
Qed.
Lemma nodup_tbl_set x t : nodup_h t -> nodup_h (tbl_set x t).
Proof.
  induction 1 as [|z r Hz Hr IH]; cbn [tbl_set]; [repeat constructor; now rewrite InA_nil|].
  destruct (heq z x) eqn:E.
  - constructor; [|exact Hr]. rewrite <- hmemb_true_inA in *.
    rewrite <- (hmemb_cong z x r E). exact Hz.
  - constructor; [|exact IH]. rewrite <- hmemb_true_inA in *. rewrite hmemb_tbl_set.
    rewrite heq_sym, E. exact Hz.
Qed.
Lemma hmemb_fold_tbl_set y l : forall t,
  hmemb y (fold_left (fun t x => tbl_set x t) l t) = hmemb y l || hmemb y t.
Proof.
  induction l as [|x r IH]; intros t; cbn [fold_left]; [reflexivity|].
  rewrite IH, hmemb_tbl_set, hmemb_cons. now destruct (hmemb y r), (heq x y).
Qed.
Lemma nodup_fold_tbl_set l : forall t, nodup_h t -> nodup_h (fold_left (fun t x => tbl_set x t) l t).
Proof. induction l as [|x r IH]; intros t H; cbn; [exact H|]. apply IH. now apply nodup_tbl_set. Qed.
Lemma hmemb_fold_tbl_del y l : forall t,
  hmemb y (fold_left (fun t x => tbl_del x t) l t) = hmemb y t && negb (hmemb y l).
Proof.
  induction l as [|x r IH]; intros t; cbn [fold_left]; [cbn; now rewrite andb_true_r|].
  rewrite IH. unfold tbl_del. rewrite hmemb_filter.
  - rewrite hmemb_cons. rewrite (heq_sym y x). now destruct (hmemb y t), (heq x y), (hmemb y r).
  - intros a b H. now rewrite (heq_cong_l a b x H).
Qed.
Lemma nodup_fold_tbl_del l : forall t, nodup_h t -> nodup_h (fold_left (fun t x => tbl_del x t) l t).
Proof. induction l as [|x r IH]; intros t H; cbn; [exact H|]. apply IH. now apply nodup_filter. Qed.

Lemma minus_meets args : meets (m_minus args) (s_minus args).
Proof.
  unfold m_minus, s_minus, arrays_of. destruct (arity_ge 2 args && all_arrays args) eqn:E; [|constructor].
  destruct args as [|a others]; [discriminate|]. cbn [map minus_list]. constructor.
  - intros y. rewrite <- !hmemb_iff. rewrite hmemb_fold_tbl_del, hmemb_fold_tbl_set.
    rewrite hmemb_filter by apply respects_negb_hmemb. cbn. now rewrite orb_false_r.
  - apply nodup_fold_tbl_del, nodup_fold_tbl_set. constructor.
Qed.

(* ================================================================== *)
(* sections(): hash buckets                                             *)
Fixpoint bfind (y : value) (B : list (value * nat)) : option nat :=
  match B with
  | [] => None
  | (k, n) :: r => if heq k y then Some n else bfind y r
  end.
Definition bget (y : value) (B : list (value * nat)) : nat :=
  match bfind y B with Some n => n | None => O end.
Definition hcount (y : value) (l : list value) : nat :=
  List.length (filter (fun z => heq z y) l).
Definition bkeys_ok (B : list (value * nat)) : Prop := nodup_h (map fst B).
Definition bpos (B : list (value * nat)) : Prop := Forall (fun p => (1 <= snd p)%nat) B.
Definition sel (req : nat) (B : list (value * nat)) : list value :=
  map fst (filter (fun p => Nat.eqb (snd p) req) B).

Lemma bget_bucket_add y x B :
  bget y (bucket_add x B) = ((if heq x y then 1 else 0) + bget y B)%nat.
Proof.
  unfold bget. induction B as [|[k n] r IH]; cbn [bucket_add bfind].
  - destruct (heq x y); reflexivity.
  - destruct (heq k x) eqn:Ekx; cbn [bfind].
    + rewrite (heq_cong_l k x y Ekx). destruct (heq x y); reflexivity.
    + destruct (heq k y) eqn:Eky; [|exact IH].
      destruct (heq x y) eqn:Exy; [|reflexivity].
      rewrite (heq_cong_r x y k Exy) in Ekx. congruence.
Qed.
Lemma bget_buckets y l : forall B,
  bget y (fold_left (fun b x => bucket_add x b) l B) = (hcount y l + bget y B)%nat.
Proof.
  induction l as [|x r IH]; intros B; cbn [fold_left]; [reflexivity|].
  rewrite IH, bget_bucket_add. unfold hcount. cbn [filter]. destruct (heq x y); cbn [List.length]; lia.
Qed.
Lemma hmemb_keys_bucket_add y x B :
  hmemb y (map fst (bucket_add x B)) = heq x y || hmemb y (map fst B).
Proof.
  induction B as [|[k n] r IH]; cbn [bucket_add map fst]; [now rewrite hmemb_cons|].
  destruct (heq k x) eqn:Ekx; cbn [map fst]; rewrite !hmemb_cons.
  - rewrite (heq_cong_l k x y Ekx). now destruct (heq x y).
  - rewrite IH. now destruct (heq k y), (heq x y).
Qed.
Lemma bkeys_bucket_add x B : bkeys_ok B -> bkeys_ok (bucket_add x B).
Proof.
  unfold bkeys_ok. induction B as [|[k n] r IH]; intros H; cbn [bucket_add map fst].
  - repeat constructor. now rewrite InA_nil.
  - inversion H as [|? ? Hk Hr]; subst. destruct (heq k x) eqn:Ekx; cbn [map fst].
    + now constructor.
    + constructor; [|now apply IH]. rewrite <- hmemb_true_inA in *.
      rewrite hmemb_keys_bucket_add, heq_sym, Ekx. exact Hk.
Qed.
Lemma bpos_bucket_add x B : bpos B -> bpos (bucket_add x B).
Proof.
  unfold bpos. induction B as [|[k n] r IH]; intros H; cbn [bucket_add].
  - repeat constructor.
  - inversion H; subst. destruct (heq k x); constructor; cbn in *; auto; lia.
Qed.
Lemma buckets_inv l : forall B, bkeys_ok B -> bpos B ->
  bkeys_ok (fold_left (fun b x => bucket_add x b) l B) /\ bpos (fold_left (fun b x => bucket_add x b) l B).
Proof.
  induction l as [|x r IH]; intros B H1 H2; cbn; [auto|].
  apply IH; [now apply bkeys_bucket_add | now apply bpos_bucket_add].
Qed.
Lemma bfind_none y B : hmemb y (map fst B) = false -> bfind y B = None.
Proof.
  induction B as [|[k n] r IH]; cbn [map fst bfind]; [reflexivity|]. rewrite hmemb_cons.
  destruct (heq k y); [discriminate|]. exact IH.
Qed.
Lemma hmemb_sel y req B : bkeys_ok B ->
  hmemb y (sel req B) = match bfind y B with Some n => Nat.eqb n req | None => false end.
Proof.
  unfold bkeys_ok, sel. induction B as [|[k n] r IH]; intros H; [reflexivity|].
  cbn [map fst] in H. inversion H as [|? ? Hk Hr]; subst. cbn [filter snd bfind].
  rewrite <- hmemb_true_inA in Hk.
  destruct (Nat.eqb n req) eqn:En; cbn [map fst].
  - rewrite hmemb_cons. destruct (heq k y) eqn:Eky; [now rewrite En | now apply IH].
  - destruct (heq k y) eqn:Eky; [|now apply IH]. rewrite IH by exact Hr.
    rewrite bfind_none; [now rewrite En|]. rewrite <- (hmemb_cong k y _ Eky).
    now destruct (hmemb k (map fst r)).
Qed.
Lemma nodup_sel req B : bkeys_ok B -> nodup_h (sel req B).
Proof.
  unfold bkeys_ok, sel. induction B as [|[k n] r IH]; intros H; cbn; [constructor|].
  inversion H as [|? ? Hk Hr]; subst. destruct (Nat.eqb n req); cbn; [|now apply IH].
  constructor; [|now apply IH]. intros Hin. apply Hk. rewrite InA_alt in *.
  destruct Hin as [z [E Hz]]. exists z. split; [exact E|].
  apply in_map_iff in Hz as [[k' n'] [<- Hf]]. apply filter_In in Hf as [Hf _].
  apply in_map_iff. now exists (k', n').
Qed.
Lemma bfind_bget y B : bpos B ->
  match bfind y B with Some n => (n = bget y B /\ 1 <= n)%nat | None => bget y B = O end.
Proof.
  unfold bget. induction B as [|[k n] r IH]; intros H; cbn [bfind]; [reflexivity|].
  inversion H; subst. destruct (heq k y); [cbn in *; auto|]. now apply IH.
Qed.
Lemma hmemb_sel_buckets y req L : (1 <= req)%nat ->
  hmemb y (sel req (buckets_of L)) = Nat.eqb (hcount y L) req.
Proof.
  intros Hreq. unfold buckets_of.
  destruct (buckets_inv L [] ) as [Hk Hp]; [constructor | constructor |].
  rewrite hmemb_sel by exact Hk. pose proof (bfind_bget y _ Hp) as Hb.
  pose proof (bget_buckets y L []) as Hc. unfold bget at 2 in Hc. cbn in Hc. rewrite Nat.add_0_r in Hc.
  destruct (bfind y (fold_left (fun b x => bucket_add x b) L [])) as [n|].
  - destruct Hb as [-> _]. now rewrite Hc.
  - rewrite Hc in Hb. rewrite Hb. symmetry. apply Nat.eqb_neq. lia.
Qed.

Lemma hcount_app y a b : hcount y (a ++ b) = (hcount y a + hcount y b)%nat.
Proof. unfold hcount. now rewrite filter_app, app_length. Qed.
Lemma hcount_nodup y a : nodup_h a -> hcount y a = if hmemb y a then 1%nat else O.
Proof.
  induction 1 as [|x r Hx Hr IH]; [reflexivity|]. unfold hcount in *. cbn [filter]. rewrite hmemb_cons.
  rewrite <- hmemb_true_inA in Hx.
  destruct (heq x y) eqn:E; cbn [List.length orb].
  - rewrite IH. rewrite <- (hmemb_cong x y r E). now destruct (hmemb x r).
  - exact IH.
Qed.
Lemma hcount_concat y ls : Forall nodup_h ls -> hcount y (concat ls) = occurs_in y ls.
Proof.
  unfold occurs_in. induction 1 as [|a r Ha Hr IH]; [reflexivity|]. cbn [concat filter].
  rewrite hcount_app, IH, (hcount_nodup y a Ha). destruct (hmemb y a); reflexivity.
Qed.
Lemma filter_length_le {A} (p : A -> bool) l : (List.length (filter p l) <= List.length l)%nat.
Proof. induction l as [|x r IH]; cbn; [lia|]. destruct (p x); cbn; lia. Qed.
Lemma filter_length_all {A} (p : A -> bool) l :
  Nat.eqb (List.length (filter p l)) (List.length l) = forallb p l.
Proof.
  induction l as [|x r IH]; [reflexivity|]. cbn. destruct (p x); cbn; [exact IH|].
  apply Nat.eqb_neq. pose proof (filter_length_le p r). lia.
Qed.
Lemma occurs_in_pos y ls : (1 <= occurs_in y ls)%nat -> hmemb y (concat ls) = true.
Proof.
  unfold occurs_in. induction ls as [|a r IH]; cbn [filter concat]; [cbn; lia|]. rewrite hmemb_app.
  destruct (hmemb y a); cbn [List.length orb]; [reflexivity|]. exact IH.
Qed.
Lemma respects_occurs_in ls n : respects (fun x => Nat.eqb (occurs_in x ls) n).
Proof.
  intros a b H. unfold occurs_in. f_equal. f_equal. apply filter_ext. intros l. now apply hmemb_cong.
Qed.

(* the two section functions on duplicate-free arguments *)
Lemma hmemb_inter_list y ls : (1 <= List.length ls)%nat ->
  hmemb y (inter_list ls) = Nat.eqb (occurs_in y ls) (List.length ls).
Proof.
  destruct ls as [|a r]; cbn [List.length]; [lia|]. intros _. unfold inter_list.
  rewrite hmemb_filter.
  - unfold occurs_in. change (S (List.length r)) with (List.length (a :: r)).
    rewrite filter_length_all. reflexivity.
  - intros u v H. induction r as [|b r' IHr]; [reflexivity|]. cbn [forallb].
    now rewrite IHr, (hmemb_cong u v b H).
Qed.
Lemma hmemb_outer_list y ls : hmemb y (outer_list ls) = Nat.eqb (occurs_in y ls) 1.
Proof.
  unfold outer_list. rewrite hmemb_filter by apply respects_occurs_in.
  destruct (Nat.eqb (occurs_in y ls) 1) eqn:E; [|now rewrite andb_false_r].
  apply Nat.eqb_eq in E. rewrite occurs_in_pos by lia. reflexivity.
Qed.

Lemma arity_ge_length n args : arity_ge n args = true -> (n <= List.length args)%nat.
Proof. unfold arity_ge. intros H. now apply Nat.leb_le. Qed.

Lemma intersection_meets_guarded args :
  Forall (fun a => nodup_h (items a)) args -> meets (m_intersection args) (s_intersection args).
Proof.
  intros G. unfold m_intersection, sections, s_intersection, arrays_of.
  destruct (arity_ge 2 args && all_arrays args) eqn:E; [|constructor].
  apply andb_prop in E as [E1 _]. apply arity_ge_length in E1.
  constructor.
  - intros y. rewrite <- !hmemb_iff. fold (sel (List.length args) (buckets_of (concat (map items args)))).
    rewrite hmemb_sel_buckets by lia. rewrite hcount_concat by (now apply Forall_map).
    rewrite hmemb_inter_list by (rewrite map_length; lia). now rewrite map_length.
  - apply nodup_sel. unfold buckets_of. apply buckets_inv; constructor.
Qed.
Lemma outersection_meets_guarded args :
  Forall (fun a => nodup_h (items a)) args -> meets (m_outersection args) (s_outersection args).
Proof.
  intros G. unfold m_outersection, sections, s_outersection, arrays_of.
  destruct (arity_ge 2 args && all_arrays args) eqn:E; [|constructor].
  constructor.
  - intros y. rewrite <- !hmemb_iff. fold (sel 1 (buckets_of (concat (map items args)))).
    rewrite hmemb_sel_buckets by lia. rewrite hcount_concat by (now apply Forall_map).
    now rewrite hmemb_outer_list.
  - apply nodup_sel. unfold buckets_of. apply buckets_inv; constructor.
Qed.
Lemma intersection_refuted : exists args,
  m_intersection args = Ok (VArr [VInt 1]) /\ s_intersection args = SSetNoDup [].
Proof. exists [VArr [VInt 1; VInt 1]; VArr [VInt 2]]. split; reflexivity. Qed.
Lemma outersection_refuted : exists args,
  m_outersection args = Ok (VArr [VInt 2]) /\ s_outersection args = SSetNoDup [VInt 1; VInt 1; VInt 2].
Proof. exists [VArr [VInt 1; VInt 1]; VArr [VInt 2]]. split; reflexivity. Qed.

(* after the repair: a value is added once per array *)
Lemma occurs_in_to_unique y args :
  occurs_in y (map (fun a => to_unique (items a)) args) = occurs_in y (map items args).
Proof.
  unfold occurs_in. induction args as [|a r IH]; [reflexivity|]. cbn [map filter].
  rewrite hmemb_to_unique. destruct (hmemb y (items a)); cbn [List.length]; now rewrite IH.
Qed.
Lemma intersection_fx_meets args : meets (m_intersection_fx args) (s_intersection args).
Proof.
  unfold m_intersection_fx, sections_fx, s_intersection, arrays_of.
  destruct (arity_ge 2 args && all_arrays args) eqn:E; [|constructor].
  apply andb_prop in E as [E1 _]. apply arity_ge_length in E1.
  constructor.
  - intros y. rewrite <- !hmemb_iff.
    fold (sel (List.length args) (buckets_of (concat (map (fun a => to_unique (items a)) args)))).
    rewrite hmemb_sel_buckets by lia.
    rewrite hcount_concat by (apply Forall_map, Forall_forall; intros; apply to_unique_nodup).
    rewrite occurs_in_to_unique. rewrite hmemb_inter_list by (rewrite map_length; lia). now rewrite map_length.
  - apply nodup_sel. unfold buckets_of. apply buckets_inv; constructor.
Qed.
Lemma outersection_fx_meets args : meets (m_outersection_fx args) (s_outersection args).
Proof.
  unfold m_outersection_fx, sections_fx, s_outersection, arrays_of.
  destruct (arity_ge 2 args && all_arrays args) eqn:E; [|constructor].
  constructor.
  - intros y. rewrite <- !hmemb_iff.
    fold (sel 1 (buckets_of (concat (map (fun a => to_unique (items a)) args)))).
    rewrite hmemb_sel_buckets by lia.
    rewrite hcount_concat by (apply Forall_map, Forall_forall; intros; apply to_unique_nodup).
    rewrite occurs_in_to_unique. now rewrite hmemb_outer_list.
  - apply nodup_sel. unfold buckets_of. apply buckets_inv; constructor.
Qed.

(* ================================================================== *)
(* SORTED / SORTED_UNIQUE                                               *)
Lemma sorted_meets args : meets (m_sorted args) (s_sorted args).
Proof.
  destruct args as [|a [|b r]]; cbn; [constructor | | destruct a; constructor].
  destruct a; cbn; try constructor.
  - apply sort_values_sorted.
  - apply Permutation_PermutationA; [apply struct_eq_equiv | apply sort_values_perm].
Qed.

Definition vle (a b : value) : Prop := value_leb a b = true.
Lemma vle_trans a b c : G a -> G b -> G c -> vle a b -> vle b c -> vle a c.
Proof.
  unfold vle, value_leb. intros Ga Gb Gc H1 H2. apply Z.leb_le in H1, H2. apply Z.leb_le.
  now apply (vcompare_trans a b c).
Qed.
Lemma sortedb_strongly l : Forall G l -> sortedb l = true -> StronglySorted vle l.
Proof.
  induction l as [|x r IH]; intros Hg Hs; [constructor|].
  inversion Hg as [|? ? Gx Gr]; subst.
  assert (Hr : sortedb r = true) by (destruct r; [reflexivity | cbn in Hs; now apply andb_prop in Hs]).
  specialize (IH Gr Hr). constructor; [exact IH|].
  destruct r as [|y r']; [constructor|]. cbn in Hs. apply andb_prop in Hs as [Hxy _].
  inversion IH as [|? ? _ Hy]; subst. inversion Gr as [|? ? Gy Gr']; subst.
  constructor; [exact Hxy|]. rewrite Forall_forall in *. intros z Hz.
  apply (vle_trans x y z); auto.
Qed.
Lemma strongly_sortedb l : StronglySorted vle l -> sortedb l = true.
Proof.
  induction 1 as [|x r Hr IH Hx]; [reflexivity|]. destruct r as [|y r']; [reflexivity|].
  cbn. inversion Hx; subst. apply andb_true_intro. split; assumption.
Qed.
Lemma uniq_loop_incl y l : forall seen, In y (uniq_loop l seen) -> In y l.
Proof.
  induction l as [|x r IH]; intros seen H; [exact H|]. cbn [uniq_loop] in H.
  destruct (hmemb x seen); [right; eapply IH; eauto|].
  destruct H as [->|H]; [now left | right; eapply IH; eauto].
Qed.
Lemma uniq_loop_strongly l : StronglySorted vle l -> forall seen, StronglySorted vle (uniq_loop l seen).
Proof.
  induction 1 as [|x r Hr IH Hx]; intros seen; cbn [uniq_loop]; [constructor|].
  destruct (hmemb x seen); [apply IH|]. constructor; [apply IH|].
  rewrite Forall_forall in *. intros z Hz. apply Hx. eapply uniq_loop_incl; eauto.
Qed.
Lemma sorted_unique_meets_guarded l : Forall G l ->
  meets (m_sorted_unique [VArr l]) (s_sorted_unique [VArr l]).
Proof.
  intros Hg. cbn. constructor.
  - apply strongly_sortedb, uniq_loop_strongly, sortedb_strongly; [|apply sort_values_sorted].
    eapply Permutation_Forall; [apply sort_values_perm | exact Hg].
  - intros y. rewrite <- (to_unique_set (sort_values l) y). unfold hmem.
    split; intros [z [Hz E]]; exists z; split; auto.
    + eapply Permutation_in; [apply sort_values_perm | exact Hz].
    + eapply Permutation_in; [apply Permutation_sym, sort_values_perm | exact Hz].
  - apply to_unique_nodup.
Qed.

(* ================================================================== *)
(* FLATTEN                                                              *)
Fixpoint expand (d : nat) (v : value) {struct d} : list value :=
  match v with
  | VArr i => match d with O => [v] | S d' => flat_map (expand d') i end
  | _ => [v]
  end.
Lemma expand_flatten d : forall l, flat_map (expand d) l = flatten_spec d l.
Proof.
  induction d as [|d IH]; intros l.
  - induction l as [|x r IHl]; [reflexivity|]. cbn [flat_map flatten_spec] in *. rewrite IHl.
    destruct x; reflexivity.
  - cbn [flatten_spec]. induction l as [|x r IHl]; [reflexivity|]. cbn [flat_map]. rewrite IHl.
    f_equal. destruct x; try reflexivity. cbn [expand]. apply IH.
Qed.
Lemma unwrap_val_arr level inner cl :
  unwrap_val level (VArr inner) cl =
  if cl >? level then ([VArr inner], cl)
  else let r := unwrap_list level inner (cl + 1) in (fst r, snd r - 1).
Proof.
  cbn [unwrap_val]. destruct (cl >? level); [reflexivity|].
  assert (E : forall l c,
    (fix go (l : list value) (c : Z) {struct l} : list value * Z :=
       match l with
       | [] => ([], c)
       | x :: rest =>
           let r1 := unwrap_val level x c in
           let r2 := go rest (snd r1) in (fst r1 ++ fst r2, snd r2)
       end) l c = unwrap_list level l c).
  { induction l as [|x r IH]; intros c; [reflexivity|]. cbn [unwrap_list]. now rewrite IH. }
  now rewrite E.
Qed.
Lemma unwrap_val_spec level : forall v cl,
  unwrap_val level v cl = (expand (Z.to_nat (level - cl + 1)) v, cl).
Proof.
  induction v as [|b1|z1|f1|s1|s1 n1 o1|l IH|m IH|b1] using value_ind'; intros cl;
    try (cbn; now destruct (Z.to_nat (level - cl + 1))).
  rewrite unwrap_val_arr. destruct (cl >? level) eqn:E.
  - replace (Z.to_nat (level - cl + 1)) with O by lia. reflexivity.
  - replace (Z.to_nat (level - cl + 1)) with (S (Z.to_nat (level - (cl + 1) + 1))) by lia.
    cbn [expand]. remember (cl + 1) as c eqn:Ec.
    assert (H : unwrap_list level l c = (flat_map (expand (Z.to_nat (level - c + 1))) l, c)).
    { clear E Ec. induction IH as [|x r Hx _ IHr]; [reflexivity|]. cbn [unwrap_list flat_map].
      rewrite Hx. cbn [fst snd]. rewrite IHr. reflexivity. }
    rewrite H. cbn [fst snd]. f_equal. lia.
Qed.
Lemma unwrap_list_spec level l c :
  unwrap_list level l c = (flat_map (expand (Z.to_nat (level - c + 1))) l, c).
Proof.
  induction l as [|x r IH]; [reflexivity|]. cbn [unwrap_list flat_map].
  rewrite unwrap_val_spec. cbn [fst snd]. now rewrite IH.
Qed.
Lemma flatten_spec_depth l d : m_flatten [VArr l; VInt d] = Ok (VArr (flatten_spec (Z.to_nat d) l)).
Proof.
  cbn. rewrite unwrap_list_spec. cbn [fst]. replace (d - 1 + 1) with d by lia. now rewrite expand_flatten.
Qed.
Lemma flatten_spec_default l : m_flatten [VArr l] = Ok (VArr (flatten_spec 1 l)).
Proof. cbn. rewrite unwrap_list_spec. cbn [fst]. now rewrite expand_flatten. Qed.
