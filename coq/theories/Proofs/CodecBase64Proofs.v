(* Proofs/CodecBase64Proofs.v — FROM_BASE64 (TO_BASE64 s) = s for every byte string. *)
From Ferret Require Import Codec.Base64.
From Coq Require Import Lia ZifyBool ZifyN.
Open Scope N_scope.

Ltac Zify.zify_post_hook ::= Z.div_mod_to_equations.

(* induction in steps of three bytes *)
Lemma list_ind3 {A} (P : list A -> Prop) :
  P [] -> (forall a, P [a]) -> (forall a b, P [a; b]) ->
  (forall a b c r, P r -> P (a :: b :: c :: r)) -> forall s, P s.
Proof.
  intros H0 H1 H2 H3.
  assert (H : forall s, P s /\ (forall a, P (a :: s)) /\ (forall a b, P (a :: b :: s))).
  { induction s as [|x s IH].
    - repeat split; auto.
    - destruct IH as (Ha & Hb & Hc). repeat split; auto. }
  intros s. apply (H s).
Qed.

Lemma b64_index_char : forall i, i < 64 -> b64_index (b64_char i) = Some i.
Proof.
  intros i Hi. unfold b64_char.
  destruct (i <? 26) eqn:E1;
    [|destruct (i <? 52) eqn:E2;
      [|destruct (i <? 62) eqn:E3; [|destruct (i =? 62) eqn:E4]]];
  unfold b64_index;
  repeat match goal with
         | |- context [if ?b then _ else _] => destruct b eqn:?
         end; try (f_equal; lia); try lia.
Qed.

Lemma b64_char_noskip : forall i, i < 64 -> b64_skip (b64_char i) = false.
Proof.
  intros i Hi. unfold b64_char.
  destruct (i <? 26) eqn:E1;
    [|destruct (i <? 52) eqn:E2;
      [|destruct (i <? 62) eqn:E3; [|destruct (i =? 62) eqn:E4]]];
  unfold b64_skip; lia.
Qed.

Lemma b64_pad_noindex : b64_index b64_pad = None.
Proof. reflexivity. Qed.

(* the four sextets of a 24-bit group are below 64 *)
Lemma sextets : forall v, v < 16777216 ->
  v / 262144 < 64 /\ (v / 4096) mod 64 < 64 /\ (v / 64) mod 64 < 64 /\ v mod 64 < 64.
Proof. intros v Hv. repeat split; lia. Qed.

Lemma regroup : forall a b c, a < 256 -> b < 256 -> c < 256 ->
  let v := a * 65536 + b * 256 + c in
  let w := (v / 262144) * 262144 + ((v / 4096) mod 64) * 4096 + ((v / 64) mod 64) * 64 + v mod 64 in
  w / 65536 = a /\ (w / 256) mod 256 = b /\ w mod 256 = c.
Proof. intros a b c Ha Hb Hc v w. subst v w. repeat split; lia. Qed.

Lemma regroup2 : forall a b, a < 256 -> b < 256 ->
  let v := a * 65536 + b * 256 in
  let w := (v / 262144) * 262144 + ((v / 4096) mod 64) * 4096 + ((v / 64) mod 64) * 64 in
  w / 65536 = a /\ (w / 256) mod 256 = b.
Proof. intros a b Ha Hb v w. subst v w. repeat split; lia. Qed.

Lemma regroup1 : forall a, a < 256 ->
  let v := a * 65536 in
  let w := (v / 262144) * 262144 + ((v / 4096) mod 64) * 4096 in
  w / 65536 = a.
Proof. intros a Ha v w. subst v w. lia. Qed.

Lemma b64_strip_encode : forall s, wf_bytes s -> b64_strip (b64_encode s) = b64_encode s.
Proof.
  unfold b64_strip.
  induction s as [| a | a b | a b c r IH] using list_ind3; intros Hwf.
  - reflexivity.
  - inversion Hwf as [|? ? Ha _]; subst.
    cbn [b64_encode filter].
    destruct (sextets (a * 65536) ltac:(lia)) as (S0 & S1 & _ & _).
    rewrite !b64_char_noskip by assumption. reflexivity.
  - inversion Hwf as [|? ? Ha Hr]; subst. inversion Hr as [|? ? Hb _]; subst.
    cbn [b64_encode filter].
    destruct (sextets (a * 65536 + b * 256) ltac:(lia)) as (S0 & S1 & S2 & _).
    rewrite !b64_char_noskip by assumption. reflexivity.
  - inversion Hwf as [|? ? Ha Hr]; subst. inversion Hr as [|? ? Hb Hr']; subst.
    inversion Hr' as [|? ? Hc Hr'']; subst.
    cbn [b64_encode filter].
    destruct (sextets (a * 65536 + b * 256 + c) ltac:(lia)) as (S0 & S1 & S2 & S3).
    rewrite !b64_char_noskip by assumption. cbn [negb].
    rewrite IH by assumption. reflexivity.
Qed.

Lemma b64_quads_encode : forall s, wf_bytes s -> b64_quads (b64_encode s) = Some s.
Proof.
  induction s as [| a | a b | a b c r IH] using list_ind3; intros Hwf.
  - reflexivity.
  - inversion Hwf as [|? ? Ha _]; subst.
    cbn [b64_encode b64_quads].
    destruct (sextets (a * 65536) ltac:(lia)) as (S0 & S1 & _ & _).
    rewrite !b64_index_char by assumption.
    rewrite b64_pad_noindex. rewrite N.eqb_refl. cbn [andb is_nil].
    pose proof (regroup1 a Ha) as R. cbv zeta in R. rewrite R. reflexivity.
  - inversion Hwf as [|? ? Ha Hr]; subst. inversion Hr as [|? ? Hb _]; subst.
    cbn [b64_encode b64_quads].
    destruct (sextets (a * 65536 + b * 256) ltac:(lia)) as (S0 & S1 & S2 & _).
    rewrite !b64_index_char by assumption.
    rewrite b64_pad_noindex. rewrite N.eqb_refl. cbn [andb is_nil].
    pose proof (regroup2 a b Ha Hb) as R. cbv zeta in R. destruct R as (R1 & R2).
    rewrite R1, R2. reflexivity.
  - inversion Hwf as [|? ? Ha Hr]; subst. inversion Hr as [|? ? Hb Hr']; subst.
    inversion Hr' as [|? ? Hc Hr'']; subst.
    cbn [b64_encode b64_quads].
    destruct (sextets (a * 65536 + b * 256 + c) ltac:(lia)) as (S0 & S1 & S2 & S3).
    rewrite !b64_index_char by assumption.
    rewrite IH by assumption.
    pose proof (regroup a b c Ha Hb Hc) as R. cbv zeta in R. destruct R as (R1 & R2 & R3).
    rewrite R1, R2, R3. reflexivity.
Qed.

Theorem b64_roundtrip : forall s, wf_bytes s -> b64_decode (b64_encode s) = Some s.
Proof.
  intros s Hwf. unfold b64_decode. rewrite b64_strip_encode by assumption.
  apply b64_quads_encode; assumption.
Qed.

(* every decoder failure is an explicit None: e.g. unpadded input *)
Lemma b64_decode_rejects_unpadded : b64_decode (bs "QQ") = None.
Proof. reflexivity. Qed.
