(* Proofs/CodecSplitJoinProofs.v — CONCAT_SEPARATOR(sep, SPLIT(s, sep)) = s. *)
From Ferret Require Import Codec.SplitJoin Proofs.CodecUtf8Proofs.
From Coq Require Import Lia.
Open Scope N_scope.

Lemma strip_prefix_app : forall p s r, strip_prefix p s = Some r -> s = p ++ r.
Proof.
  induction p as [|x p IH]; intros s r H.
  - cbn in H. inversion H. reflexivity.
  - destruct s as [|y s]; [discriminate|]. cbn [strip_prefix] in H.
    destruct (x =? y) eqn:E; [|discriminate].
    apply N.eqb_eq in E. subst y. cbn [app]. f_equal. apply IH. exact H.
Qed.

Lemma strip_prefix_app_inv : forall p r, strip_prefix p (p ++ r) = Some r.
Proof.
  induction p as [|x p IH]; intros r; [reflexivity|].
  cbn [app strip_prefix]. rewrite N.eqb_refl. apply IH.
Qed.

Lemma join_cons : forall sep x l, l <> [] -> str_join sep (x :: l) = x ++ sep ++ str_join sep l.
Proof. intros sep x l H. destruct l; [contradiction|reflexivity]. Qed.

Lemma join_nil_sep : forall l, str_join [] l = concat l.
Proof.
  induction l as [|x l IH]; [reflexivity|].
  destruct l as [|y l].
  - cbn. rewrite app_nil_r. reflexivity.
  - change (str_join [] (x :: y :: l)) with (x ++ [] ++ str_join [] (y :: l)).
    rewrite IH. reflexivity.
Qed.

Lemma split_f_ok : forall fuel sep cur s,
  sep <> [] -> (List.length s <= fuel)%nat ->
  exists l, split_f fuel sep cur s = Some l /\ l <> [] /\ str_join sep l = rev cur ++ s.
Proof.
  induction fuel as [|f IH]; intros sep cur s Hsep Hlen.
  - destruct s as [|c r]; [|cbn in Hlen; lia].
    exists [rev cur]. cbn. rewrite app_nil_r. repeat split; congruence.
  - destruct s as [|c r].
    + exists [rev cur]. cbn. rewrite app_nil_r. repeat split; congruence.
    + cbn [split_f]. destruct (strip_prefix sep (c :: r)) as [rest|] eqn:E.
      * apply strip_prefix_app in E.
        assert (Hl : (List.length rest <= f)%nat).
        { assert (L : List.length (c :: r) = (List.length sep + List.length rest)%nat)
            by (rewrite E; apply app_length).
          destruct sep; [congruence|]. cbn [List.length] in *. lia. }
        destruct (IH sep [] rest Hsep Hl) as (l & H1 & H2 & H3).
        rewrite H1. exists (rev cur :: l). split; [reflexivity|]. split; [congruence|].
        rewrite join_cons by assumption. rewrite H3, E. reflexivity.
      * assert (Hl : (List.length r <= f)%nat) by (cbn [List.length] in Hlen; lia).
        destruct (IH sep (c :: cur) r Hsep Hl) as (l & H1 & H2 & H3).
        exists l. split; [exact H1|]. split; [exact H2|].
        rewrite H3. cbn [rev]. rewrite <- app_assoc. reflexivity.
Qed.

(* enough fuel: SPLIT never runs out of it *)
Theorem split_total : forall sep s, exists l, str_split sep s = Some l.
Proof.
  intros sep s. destruct sep as [|x sep].
  - eexists. reflexivity.
  - destruct (split_f_ok (List.length s) (x :: sep) [] s ltac:(congruence) (le_n _))
      as (l & H & _). exists l. exact H.
Qed.

Theorem split_join_nonempty : forall sep s, sep <> [] ->
  exists l, str_split sep s = Some l /\ str_join sep l = s.
Proof.
  intros sep s Hsep.
  destruct (split_f_ok (List.length s) sep [] s Hsep (le_n _)) as (l & H1 & _ & H3).
  exists l. split; [|exact H3].
  destruct sep; [congruence|exact H1].
Qed.

(* the empty separator explodes into UTF-8 sequences; joining with "" restores s *)
Theorem split_join_empty : forall s, exists l, str_split [] s = Some l /\ str_join [] l = s.
Proof.
  intros s. exists (utf8_units s). split; [reflexivity|].
  rewrite join_nil_sep. apply utf8_units_concat.
Qed.

(* separators at the ends and adjacent separators give empty pieces *)
Lemma split_example : str_split (bs ",") (bs ",a,,b,") = Some [[]; bs "a"; []; bs "b"; []].
Proof. reflexivity. Qed.
