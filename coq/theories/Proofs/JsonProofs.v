(* Proofs/JsonProofs.v — lemmas about the JSON model (C09). *)
From Ferret Require Import Json Proofs.ValueInd Proofs.SortProofs Proofs.CompareProofs Proofs.HashProofs.
From Ferret Require Import Codec.Base64.
From Coq Require Import Permutation Lia.
Open Scope Z_scope.

Lemma mleb_kleb {V} : @mleb V = @kleb V. Proof. reflexivity. Qed.

(* ---------------------------------------------------------------- canonical *)
Section Canonical.
  Variable ff : N -> bytes.
  Definition enc (kv : bytes * value) : bytes * bytes := (esc_string (fst kv), to_json ff (snd kv)).

  Lemma to_json_obj m :
    to_json ff (VObj m) = 123%N :: jjoin (map member_text (isort mleb (map enc m))) ++ [125%N].
  Proof. reflexivity. Qed.

  Lemma to_json_norm : forall v, esc_keys_unique v = true -> to_json ff (norm v) = to_json ff v.
  Proof.
    induction v as [| | | | | |l IH|m IH|] using value_ind'; intro U; try reflexivity.
    - cbn [norm to_json]. do 3 f_equal. rewrite map_map. cbn [esc_keys_unique] in U. rewrite forallb_forall in U.
      apply map_ext_in. intros x Hx. rewrite Forall_forall in IH. apply IH; [exact Hx|apply U; exact Hx].
    - rewrite norm_obj, !to_json_obj. do 4 f_equal.
      cbn [esc_keys_unique] in U. apply andb_prop in U as [U1 U2]. rewrite forallb_forall in U2.
      assert (E : map enc (map nmember m) = map enc m).
      { rewrite map_map. apply map_ext_in. intros kv Hin. unfold enc, nmember; cbn [fst snd]. f_equal.
        rewrite Forall_forall in IH. apply IH; [exact Hin|apply U2; exact Hin]. }
      rewrite <- E. rewrite mleb_kleb. symmetry. apply isort_perm_unique.
      + apply Permutation_map. rewrite key_leb_kleb. apply isort_perm.
      + rewrite E, map_map. cbn [fst enc]. apply nodup_keys_NoDup. exact U1.
  Qed.

  (* equal values serialize to identical bytes *)
  Lemma json_canonical a b :
    struct_eq a b -> esc_keys_unique a = true -> esc_keys_unique b = true -> to_json ff a = to_json ff b.
  Proof.
    intros E Ua Ub. rewrite <- (to_json_norm a Ua), <- (to_json_norm b Ub). unfold struct_eq in E. rewrite E. reflexivity.
  Qed.
End Canonical.

(* with invalid UTF-8 keys the order of members can depend on the iteration order *)
Lemma json_noncanonical_invalid_keys :
  exists a b, wfb a = true /\ wfb b = true /\ struct_eq a b /\ forall ff, to_json ff a <> to_json ff b.
Proof.
  exists (VObj [([255%N], VInt 1); ([254%N], VInt 2)]), (VObj [([254%N], VInt 2); ([255%N], VInt 1)]).
  split; [reflexivity|]. split; [reflexivity|]. split; [vm_compute; reflexivity|].
  intros ff H. vm_compute in H. discriminate H.
Qed.

(* ------------------------------------------------------------ UTF-8 units *)
Lemma utf8_seq_stable b r k : utf8_seq (b :: r) = S k ->
  length (firstn k r) = k /\ forall rest, utf8_seq (b :: firstn k r ++ rest) = S k.
Proof.
  unfold utf8_seq. destruct (b <? 128)%N eqn:E1.
  - intro H. injection H as H. subst k. split; [reflexivity|]. intro rest. cbn [firstn app]. reflexivity.
  - destruct (in_rng 194 223 b) eqn:E2.
    + destruct r as [|b1 r]; [discriminate|]. destruct (cont b1) eqn:C1; [|discriminate].
      intro H. injection H as H. subst k. split; [reflexivity|]. intro rest. cbn [firstn app]. rewrite C1. reflexivity.
    + destruct (in_rng 224 239 b) eqn:E3.
      * destruct r as [|b1 [|b2 r]]; try discriminate.
        match goal with |- (if ?c then _ else _) = _ -> _ => destruct c eqn:C1; [|discriminate] end.
        intro H. injection H as H. subst k. split; [reflexivity|]. intro rest. cbn [firstn app]. rewrite C1. reflexivity.
      * destruct (in_rng 240 244 b) eqn:E4; [|discriminate].
        destruct r as [|b1 [|b2 [|b3 r]]]; try discriminate.
        match goal with |- (if ?c then _ else _) = _ -> _ => destruct c eqn:C1; [|discriminate] end.
        intro H. injection H as H. subst k. split; [reflexivity|]. intro rest. cbn [firstn app]. rewrite C1. reflexivity.
Qed.

Lemma utf8_seq_ascii b r : (b <? 128)%N = true -> utf8_seq (b :: r) = 1%nat.
Proof. intro H. unfold utf8_seq. rewrite H. reflexivity. Qed.

Lemma utf8_seq_multi_head b r k : utf8_seq (b :: r) = S (S k) -> (194 <= b)%N.
Proof.
  unfold utf8_seq. destruct (b <? 128)%N; [discriminate|].
  unfold in_rng. intro H.
  destruct ((194 <=? b)%N) eqn:E; [apply N.leb_le; exact E|].
  exfalso. apply N.leb_gt in E.
  assert (A : (224 <=? b)%N = false) by (apply N.leb_gt; lia).
  assert (B : (240 <=? b)%N = false) by (apply N.leb_gt; lia).
  rewrite A, B in H. cbn in H. discriminate H.
Qed.

(* a unit as [units] produces it *)
Definition unit_wf (u : unit8) : Prop :=
  match u with
  | UBad _ => True
  | UOk w =>
      match w with
      | [] => False
      | c :: w' =>
          ((c <? 128)%N = true /\ w' = []) \/
          ((194 <= c)%N /\ w' <> [] /\ forall rest, utf8_seq (c :: w' ++ rest) = S (length w'))
      end
  end.

Lemma units_wf fuel : forall s, Forall unit_wf (units fuel s).
Proof.
  induction fuel as [|f IH]; intro s; [constructor|]. cbn [units].
  destruct s as [|b r]; [constructor|].
  destruct (utf8_seq (b :: r)) as [|k] eqn:E; constructor; try apply IH; [exact I|].
  cbn [unit_wf]. destruct (utf8_seq_stable b r k E) as [L S].
  destruct k as [|k].
  - left. split; [|reflexivity]. unfold utf8_seq in E. destruct (b <? 128)%N; [reflexivity|].
    exfalso. destruct (in_rng 194 223 b); [destruct r as [|b1 r]; [discriminate|destruct (cont b1); discriminate]|].
    destruct (in_rng 224 239 b).
    { destruct r as [|b1 [|b2 r]]; try discriminate.
      match type of E with (if ?c then _ else _) = _ => destruct c; discriminate end. }
    destruct (in_rng 240 244 b); [|discriminate].
    destruct r as [|b1 [|b2 [|b3 r]]]; try discriminate.
    match type of E with (if ?c then _ else _) = _ => destruct c; discriminate end.
  - right. split; [eapply utf8_seq_multi_head; exact E|]. split.
    + intro H. rewrite H in L. discriminate L.
    + intro rest. rewrite L. apply S.
Qed.

Lemma units_concat fuel : forall s, (length s <= fuel)%nat -> concat (map unit_bytes (units fuel s)) = s.
Proof.
  induction fuel as [|f IH]; intros s L.
  - destruct s; [reflexivity|cbn in L; lia].
  - cbn [units]. destruct s as [|b r]; [reflexivity|]. cbn [length] in L.
    destruct (utf8_seq (b :: r)) as [|k] eqn:E; cbn [map concat unit_bytes].
    + cbn [app]. f_equal. apply IH. lia.
    + cbn [app]. f_equal. rewrite IH; [apply firstn_skipn|]. rewrite skipn_length. lia.
Qed.

Lemma coerce_valid s : valid_utf8 s = true -> coerce s = s.
Proof.
  unfold valid_utf8, coerce, segs. intro V. rewrite <- (units_concat (length s) s) at 3 by lia.
  f_equal. apply map_ext_in. intros u Hu. rewrite forallb_forall in V. specialize (V u Hu).
  destruct u; [reflexivity|discriminate V].
Qed.
